import AurelVerif.Props.C07
