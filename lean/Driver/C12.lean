/-
Line-protocol driver for C12 (Model/ReadCache.lean, Model/ReadCacheX.lean).

  reset
  read <avail> <grouped 0|1> <req> <its> <rl> <restart|-1> <split 0|1>
      (Model/ReadCache.lean; the cache store is the state, `reset` empties it)
      avail  = r:itmin:itmax,...   (the catalogued restarts, dictionary order)
      req    = requested names `;`-separated, each the `,`-separated ids of its
               scalar components (a tensor has several)
      its    = `,`-separated iterations as given by the caller
  world <restart>;<restart>;...
      (Model/ReadCacheX.lean; empties the cache AND the catalogue)
      restart = num:lo-hi:chk:grouped:varavail:has:chas
        lo-hi    'its available' (`-` = none)
        chk      'checkpoints': `+`-separated, `e` = [], `-` = no entry
        grouped  0|1
        varavail 'var available': names `|`-separated, each the `,`-separated ids of
                 its components; `-` = the restart has no 3D output
        has      `,`-separated ids of the scalar variables its 3D files hold (`e` = none)
        chas     the same for its checkpoint files
  callx <skip_last 0|1> <req|-> <its> <rl> <restart|-1> <split 0|1> <usechk 0|1>
      req `-` = vars=[]
Source: the block of variable v at iteration i, level l, restart R is the
number ((v*4096 + i)*16 + l)*8 + R (v = 0 for the time), `it` datasets hold i.
Checkpoint data: the same with R+4 for the blocks and i+2000 for the time; a
checkpoint holds the variables of `chas`; a variable it does not hold: the reader raises.

Output of `read`: `ok <rows> # <store>`; rows `;`-separated `it:R:name=val,name=val`
(`-` = None); store entries ` `-separated `R/it/name/rl=val` in dictionary
order (the harness compares them as a set); `err` = the call raises.
Output of `callx`: the same followed by ` # <catalogue> # old=<same|diff|na>`:
the catalogued restarts `,`-separated, and whether Model/ReadCache.lean (the model
of the theorems of Props/C12.lean) gives the same rows and cache on the calls of
its domain (explicit names, no checkpoints, every restart read holds every
requested component and has the same layout, something is returned).
-/
import AurelVerif.Model.ReadCache
import AurelVerif.Model.ReadCacheX
open AurelVerif.Chunks AurelVerif.ReadCache AurelVerif.Restarts AurelVerif.ReadCacheX

def srcNat (k : DKey) : Nat :=
  let v := match k.name with
    | .var v => v
    | .t => 0
    | .it => 0
  ((v * 4096 + k.it) * 16 + k.rl) * 8 + k.restart

def nameStr : DName → String
  | .var v => s!"v{v}"
  | .t => "t"
  | .it => "it"

def nats (s : String) (sep : String) : Option (List Nat) :=
  if s.isEmpty then some [] else (s.splitOn sep).mapM String.toNat?

def parseAvail (s : String) : Option Avail :=
  match nats s ":" with
  | some [r, a, b] => some (r, a, b)
  | _ => none

def showVal : Option Nat → String
  | some v => toString v
  | none => "-"

def showRow (r : Row Nat) : String :=
  s!"{r.1}:{r.2.1}:" ++ ",".intercalate (r.2.2.map fun c => s!"{nameStr c.1}={showVal c.2}")

def showStore (st : Store Nat) : String :=
  " ".intercalate (st.map fun kv => s!"{kv.1.restart}/{kv.1.it}/{nameStr kv.1.name}/{kv.1.rl}={kv.2}")

/-- `num:lo-hi:chk:grouped:varavail:has:chas` -/
def parseRestart (s : String) : Option (RInfo × List Nat × List Nat) :=
  match s.splitOn ":" with
  | [num, range, chk, grouped, va, has, chas] =>
    match num.toNat?, (if has == "e" then some [] else nats has ","), (if chas == "e" then some [] else nats chas ",") with
    | some num, some has, some chas =>
      let range : Option (Option (Nat × Nat)) :=
        if range == "-" then some none
        else match nats range "-" with
          | some [a, b] => some (some (a, b))
          | _ => none
      let chk : Option (Option (List Nat)) :=
        if chk == "-" then some none else if chk == "e" then some (some []) else (nats chk "+").map some
      let va : Option (Option (List (List Nat))) :=
        if va == "-" then some none else ((va.splitOn "|").mapM fun n => nats n ",").map some
      match range, chk, va with
      | some range, some chk, some va => some (⟨⟨num, range, chk⟩, grouped == "1", va⟩, has, chas)
      | _, _, _ => none
    | _, _, _ => none
  | _ => none

/-- the checkpoint reader of the driver -/
def chkReadNat (hasTab : List (Nat × List Nat)) (R : Nat) (var : List (List Nat)) (its : List Nat) (rl : Nat) :
    Option (Tab Nat) :=
  let comps := var.flatten.eraseDups
  let held := ((hasTab.find? fun p => p.1 == R).map (·.2)).getD []
  if comps.all fun c => held.contains c then
    let it := sortedSet its
    some ⟨it, (DName.t, it.map fun i => some (srcNat ⟨R, i + 2000, DName.t, rl⟩)) ::
      comps.map fun c => (DName.var c, it.map fun i => some (srcNat ⟨R + 4, i, DName.var c, rl⟩))⟩
  else none

def mkWorld (rs : List (RInfo × List Nat × List Nat)) : World Nat :=
  let hasTab := rs.map fun p => (p.1.cat.num, p.2.1)
  let chasTab := rs.map fun p => (p.1.cat.num, p.2.2)
  { restarts := rs.map Prod.fst, src := srcNat, ofIt := id,
    has := fun R c => (((hasTab.find? fun p => p.1 == R).map (·.2)).getD []).contains c,
    chkRead := chkReadNat chasTab }

/-- does Model/ReadCache.lean agree on this call? (`na`: outside its domain) -/
def oldAgrees (w : World Nat) (done' : List Nat) (c : CallX) (store : Store Nat)
    (res : Option (List (Row Nat))) (store' : Store Nat) : String :=
  let cats := catsOf w done'
  let infos := done'.filterMap w.info
  let sits := sortedSet c.its
  match todoX cats false c.restart sits, res with
  | some todo, some (r0 :: rows) =>
    let active := todo.filter fun rt => !rt.2.isEmpty
    let complete := active.all fun rt => c.req.flatten.all fun comp => w.has rt.1 comp
    let grouped := (infos.head?.map (·.grouped)).getD false
    let uniform := infos.all fun ri => ri.grouped == grouped && ri.varAvail.isSome && ri.cat.range.isSome
    if c.usechk || c.req.isEmpty || !complete || !uniform then "na"
    else
      let avail : List Avail := infos.map fun ri => (ri.cat.num, (ri.cat.range.getD (0, 0)).1, (ri.cat.range.getD (0, 0)).2)
      match readData srcNat id avail grouped c.req c.its c.rl c.restart c.split store with
      | some (orows, ostore) =>
        -- the old rows list the columns of their own restart; with every component held they are the union
        let same := orows.map (fun r => (r.1, r.2.1)) == (r0 :: rows).map (fun r => (r.1, r.2.1)) &&
          (orows.zip (r0 :: rows)).all (fun p => p.1.2.2.all fun cell => p.2.2.2.contains cell) &&
          (orows.zip (r0 :: rows)).all (fun p => p.2.2.2.all fun cell => p.1.2.2.contains cell) &&
          ostore.all (fun kv => store'.get? kv.1 == some kv.2) && store'.all (fun kv => ostore.get? kv.1 == some kv.2)
        if same then "same" else "diff"
      | none => "diff"
  | _, _ => "na"

structure DState where
  store : Store Nat := []
  world : World Nat := mkWorld []
  done : List Nat := []

def step (s : DState) (line : String) : DState × String :=
  match (line.trimAscii.toString.splitOn " ") with
  | ["reset"] => ({ s with store := [], done := [] }, "ok")
  | ["read", av, grouped, req, its, rl, restart, split] =>
    match (av.splitOn ",").mapM parseAvail, (req.splitOn ";").mapM (fun s => nats s ","), nats its ",",
          rl.toNat? with
    | some av, some req, some its, some rl =>
      let restart := if restart == "-1" then none else restart.toNat?
      match readData srcNat id av (grouped == "1") req its rl restart (split == "1") s.store with
      | some (rows, store') =>
        ({ s with store := store' }, "ok " ++ ";".intercalate (rows.map showRow) ++ " # " ++ showStore store')
      | none => (s, "err # " ++ showStore s.store)
    | _, _, _, _ => (s, "bad-op")
  | ["world", rs] =>
    match (if rs == "-" then some [] else (rs.splitOn ";").mapM parseRestart) with
    | some rs => ({ store := [], world := mkWorld rs, done := [] }, "ok")
    | none => (s, "bad-op")
  | ["callx", skipLast, req, its, rl, restart, split, usechk] =>
    match (if req == "-" then some [] else (req.splitOn ";").mapM (fun s => nats s ",")), nats its ",", rl.toNat? with
    | some req, some its, some rl =>
      let c : CallX := { skipLast := skipLast == "1", req := req, its := its, rl := rl,
                         restart := if restart == "-1" then none else restart.toNat?,
                         split := split == "1", usechk := usechk == "1" }
      let (res, done', store') := readDataX s.world s.done c s.store
      let head := match res with
        | some rows => "ok " ++ ";".intercalate (rows.map showRow)
        | none => "err"
      ({ s with store := store', done := done' },
       head ++ " # " ++ showStore store' ++ " # " ++ ",".intercalate (done'.map toString)
         ++ " # old=" ++ oldAgrees s.world done' c s.store res store')
    | _, _, _ => (s, "bad-op")
  | _ => (s, "bad-op")

partial def loop (h : IO.FS.Stream) (s : DState) : IO Unit := do
  let line ← h.getLine
  if line.isEmpty then return ()
  let (s', out) := step s line
  IO.println out
  loop h s'

def main : IO Unit := do loop (← IO.getStdin) {}
