/-
Line-protocol driver for C12 (Model/ReadCache.lean).  The cache store is the
driver's state; `reset` empties it.

  reset
  read <avail> <grouped 0|1> <req> <its> <rl> <restart|-1> <split 0|1>
      avail  = r:itmin:itmax,...   (the catalogued restarts, dictionary order)
      req    = requested names `;`-separated, each the `,`-separated ids of its
               scalar components (a tensor has several)
      its    = `,`-separated iterations as given by the caller
Source: the block of variable v at iteration i, level l, restart R is the
number ((v*4096 + i)*16 + l)*8 + R (v = 0 for the time), `it` datasets hold i.

Output: `ok <rows> # <store>`; rows `;`-separated `it:R:name=val,name=val`
(`-` = None); store entries ` `-separated `R/it/name/rl=val` in dictionary
order (the harness compares them as a set); `err` = the call raises.
-/
import AurelVerif.Model.ReadCache
open AurelVerif.Chunks AurelVerif.ReadCache

def srcNat (k : DKey) : Nat :=
  let v := match k.name with
    | .var v => v
    | .t => 0
    | .it => 0
  ((v * 4096 + k.it) * 16 + k.rl) * 8 + k.restart

def nameStr : DName → String
  | .var v => s!"v{v}"
  | .t => "t"
  | .it => "it"

def nats (s : String) (sep : String) : Option (List Nat) :=
  if s.isEmpty then some [] else (s.splitOn sep).mapM String.toNat?

def parseAvail (s : String) : Option Avail :=
  match nats s ":" with
  | some [r, a, b] => some (r, a, b)
  | _ => none

def showVal : Option Nat → String
  | some v => toString v
  | none => "-"

def showRow (r : Row Nat) : String :=
  s!"{r.1}:{r.2.1}:" ++ ",".intercalate (r.2.2.map fun c => s!"{nameStr c.1}={showVal c.2}")

def showStore (st : Store Nat) : String :=
  " ".intercalate (st.map fun kv => s!"{kv.1.restart}/{kv.1.it}/{nameStr kv.1.name}/{kv.1.rl}={kv.2}")

def step (store : Store Nat) (line : String) : Store Nat × String :=
  match (line.trimAscii.toString.splitOn " ") with
  | ["reset"] => ([], "ok")
  | ["read", av, grouped, req, its, rl, restart, split] =>
    match (av.splitOn ",").mapM parseAvail, (req.splitOn ";").mapM (fun s => nats s ","), nats its ",",
          rl.toNat? with
    | some av, some req, some its, some rl =>
      let restart := if restart == "-1" then none else restart.toNat?
      match readData srcNat id av (grouped == "1") req its rl restart (split == "1") store with
      | some (rows, store') => (store', "ok " ++ ";".intercalate (rows.map showRow) ++ " # " ++ showStore store')
      | none => (store, "err # " ++ showStore store)
    | _, _, _, _ => (store, "bad-op")
  | _ => (store, "bad-op")

partial def loop (h : IO.FS.Stream) (store : Store Nat) : IO Unit := do
  let line ← h.getLine
  if line.isEmpty then return ()
  let (store', out) := step store line
  IO.println out
  loop h store'

def main : IO Unit := do loop (← IO.getStdin) []
