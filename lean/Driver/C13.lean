/-
Line-protocol driver for C13 (Model/Store.lean).  One op per line, fields
separated by one blank; a name is written with `~` for a blank.

  reset                                       empty directory
  save rl=<n> it=<ints> vars=<names> data=<dict>
  read rl=<n> it=<ints> vars=<names>
  dump                                        every file with its datasets

  <ints>, <names> : comma separated, `-` = empty list
  <dict>          : `-` = {} ; else  name:col;name:col;…   (insertion order)
  col             : `X` = None ; `-` = [] ; else entries separated by `,`,
                    an entry is `N` (None) or an integer (identity code of the
                    array; for 'it' the iteration number, for 't' the time)

Output, one line per op:
  reset -> `ok`
  save  -> `ok` | `ValueError` | `KeyError` | `IndexError` | `TypeError`
  read  -> `ValueError` | `ok name=col;name=col;…` sorted by name, col = `I<ints>`
           for the iteration array, else the entries (`N` / integer), `-` = []
  dump  -> `it:key=val,key=val|it:…` sorted by iteration and key (`-` = no file)
-/
import AurelVerif.Model.Store
open AurelVerif.Store

def dec (s : String) : String := s.map fun c => if c = '~' then ' ' else c
def enc (s : String) : String := s.map fun c => if c = ' ' then '~' else c

def splitList (s : String) : List String := if s = "-" then [] else s.splitOn ","

def parseInts (s : String) : Option (List Int) := (splitList s).mapM String.toInt?

def parseEntry (s : String) : Option Entry :=
  if s = "N" then some none else s.toInt?.map some

def parseCol (s : String) : Option Column :=
  if s = "X" then some none
  else if s = "-" then some (some [])
  else (s.splitOn ",").mapM parseEntry |>.map some

def parseData (s : String) : Option Data :=
  if s = "-" then some []
  else (s.splitOn ";").mapM fun item =>
    match item.splitOn ":" with
    | [n, c] => (parseCol c).map fun col => (dec n, col)
    | _ => none

def field (pre : String) (s : String) : Option String :=
  if s.startsWith pre then some (s.drop pre.length).toString else none

def errStr : Err → String
  | .valueError => "ValueError" | .keyError => "KeyError"
  | .indexError => "IndexError" | .typeError => "TypeError"

def insertBy (lt : α → α → Bool) (x : α) : List α → List α
  | [] => [x]
  | y :: ys => if lt x y then x :: y :: ys else y :: insertBy lt x ys

def sortBy (lt : α → α → Bool) (l : List α) : List α := l.foldr (insertBy lt) []

def showEntry : Entry → String
  | none => "N" | some v => toString v

def showList (l : List String) : String := if l.isEmpty then "-" else ",".intercalate l

def showRCol : RCol → String
  | .its l => "I" ++ showList (l.map toString)
  | .col l => showList (l.map showEntry)

def showRData (d : RData) : String :=
  let items := sortBy (fun a b => decide (a.1 < b.1)) (d.map fun p => (enc p.1, showRCol p.2))
  "ok " ++ ";".intercalate (items.map fun p => p.1 ++ "=" ++ p.2)

def showStore (s : Store) : String :=
  if s.isEmpty then "-" else
  let files := sortBy (fun a b => decide (a.1 < b.1)) s
  "|".intercalate (files.map fun (i, f) =>
    let ks := sortBy (fun a b => decide (a.1 < b.1)) (f.map fun p => (enc p.1, toString p.2))
    toString i ++ ":" ++ ",".intercalate (ks.map fun p => p.1 ++ "=" ++ p.2))

def step (s : Store) (line : String) : Store × String :=
  match line.trimAscii.toString.splitOn " " with
  | ["reset"] => ([], "ok")
  | ["dump"] => (s, showStore s)
  | ["save", rl, it, vars, data] =>
    match (field "rl=" rl).bind String.toNat?, (field "it=" it).bind parseInts,
          (field "vars=" vars).map splitList, (field "data=" data).bind parseData with
    | some rl, some it, some vars, some data =>
      let r := save s { data := data, vars := vars.map dec, it := it, rl := rl }
      (r.1, match r.2 with | none => "ok" | some e => errStr e)
    | _, _, _, _ => (s, "bad-op")
  | ["read", rl, it, vars] =>
    match (field "rl=" rl).bind String.toNat?, (field "it=" it).bind parseInts,
          (field "vars=" vars).map splitList with
    | some rl, some it, some vars =>
      (s, match read s { vars := vars.map dec, it := it, rl := rl } with
          | .ok d => showRData d
          | .error e => errStr e)
    | _, _, _ => (s, "bad-op")
  | _ => (s, "bad-op")

partial def loop (h : IO.FS.Stream) (s : Store) : IO Unit := do
  let line ← h.getLine
  if line.isEmpty then return ()
  let (s', out) := step s line
  IO.println out
  loop h s'

def main : IO Unit := do loop (← IO.getStdin) []
