/-
Line-protocol driver for C15 (symbolic core: fill loops and request cache).
  fill <branch> <n>             symbolic content of the array the method branch
                                returns for dim = n: one token per component in
                                C order, `0` or `+i.j.k` / `-i.j.k` (= ± the value
                                the formula line computes at indices i,j,k)
  order <k1,k2,..|-> <r1,r2,..> request r1, r2, .. on an instance whose `data`
                                already holds k1, k2, ..: final key order of
                                `data` and the (key:branch) completion log
  progs                         names of the method branches with fill loops
  hist <k1,..|-> <r1,r2,..>     the same history run on the C01-style table model
                                (Model/SymCache.lean: one `Shape` per key derived
                                from the method table): for every request the
                                PROVENANCE of the value returned,
                                `branch(arg1,arg2,..)`, inputs as `<key>`
Branches and loop structure come from Gen/SymLoops.lean (regenerated from
coresymbolic.py); the interpreter is Model/SymFill.lean.
-/
import AurelVerif.Model.SymFill
import AurelVerif.Model.SymCache
import AurelVerif.Gen.SymLoops
open AurelVerif.SymFill AurelVerif.Gen.SymLoops AurelVerif.SymCache

def showS : SVal → String
  | .zero => "0"
  | .val s ix => (if s then "-" else "+") ++ ".".intercalate (ix.map toString)

def splitKeys (s : String) : List String :=
  if s == "-" then [] else s.splitOn ","

def step (line : String) : String :=
  match (line.trimAscii.toString.splitOn " ") with
  | ["fill", name, n] =>
    match progs.find? (fun p => p.1 == name), n.toNat? with
    | some (_, p), some n => "ok " ++ " ".intercalate ((symFill n p).map showS)
    | _, _ => "bad-op"
  | ["order", init, reqs] =>
    let (cache, log) := requestAll methods (splitKeys init) (splitKeys reqs)
    "ok cache=" ++ ",".intercalate cache ++ " log=" ++
      ",".intercalate (log.map fun kb => kb.1 ++ ":" ++ kb.2)
  | ["hist", init, reqs] =>
    match provHistory methods (splitKeys init) (splitKeys reqs) with
    | .ok vs => "ok " ++ " ".intercalate vs
    | .error e => "error " ++ toString (repr e)
  | ["progs"] => "ok " ++ " ".intercalate (progs.map (·.1))
  | _ => "bad-op"

partial def loop (h : IO.FS.Stream) : IO Unit := do
  let line ← h.getLine
  if line.isEmpty then return ()
  IO.println (step line)
  loop h

def main : IO Unit := do loop (← IO.getStdin)
