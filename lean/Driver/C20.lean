/-
Line-protocol driver for C20 (Model/Harm.lean).
  ylm <s> <l> <m> <cn> <cd> <sn> <sd>   polynomial part of sYlm at c = cn/cd, sn = sn/sd
        -> ok <P> <A> <R> <phase> <nterms>     P = Σ terms, A = Σ |terms|, R = radicand·π (all num/den)
  terms <s> <l> <m>                      -> ok coef:a:b,...
  grid <Nx> <Ny> <Nz> <lmax>             -> ok <Ntheta> <Nphi> <theta/π,...> <dtheta/π> <phi/π,...> <dphi/π>
  bounds <axis;axis;...>|<axis;axis;...> (axis = num/den,num/den,... or `e` for an empty axis; grids | targets)
        -> ok | oob <dim> | empty <dim> | mismatch
  modes <lmax>                           -> ok l:m,l:m,...
-/
import AurelVerif.Model.Harm
open AurelVerif.Harm

def ratStr (q : Rat) : String := s!"{q.num}/{q.den}"

def parseRat (t : String) : Option Rat :=
  match t.splitOn "/" with
  | [n] => n.toInt?.map fun (i : Int) => (i : Rat)
  | [n, d] =>
    match n.toInt?, d.toNat? with
    | some i, some k => if k = 0 then none else some ((i : Rat) / (k : Rat))
    | _, _ => none
  | _ => none

def parseAxis (t : String) : Option (List Rat) :=
  if t = "e" then some [] else (t.splitOn ",").mapM parseRat

def parseAxes (t : String) : Option (List (List Rat)) :=
  if t = "" then some [] else (t.splitOn ";").mapM parseAxis

def step (line : String) : String :=
  match (line.trimAscii.toString.splitOn " ") with
  | ["ylm", s, l, m, cn, cd, sn, sd] =>
    match s.toInt?, l.toInt?, m.toInt?, cn.toInt?, cd.toNat?, sn.toInt?, sd.toNat? with
    | some s, some l, some m, some cn, some cd, some sn, some sd =>
      let c : Rat := (cn : Rat) / (cd : Rat)
      let x : Rat := (sn : Rat) / (sd : Rat)
      let ts := harmTerms s l m
      s!"ok {ratStr (evalTerms ts c x)} {ratStr (absTerms ts c x)} {ratStr (normRadicand s l m)} {phaseIndex m} {ts.length}"
    | _, _, _, _, _, _, _ => "bad-op"
  | ["terms", s, l, m] =>
    match s.toInt?, l.toInt?, m.toInt? with
    | some s, some l, some m =>
      "ok " ++ ",".intercalate ((harmTerms s l m).map fun t => s!"{t.coef}:{t.a}:{t.b}")
    | _, _, _ => "bad-op"
  | ["grid", nx, ny, nz, lmax] =>
    match nx.toNat?, ny.toNat?, nz.toNat?, lmax.toNat? with
    | some nx, some ny, some nz, some lmax =>
      let n := nTheta nx ny nz lmax
      let np := nPhi n
      let th := ",".intercalate ((thetaGrid n).map ratStr)
      let ph := ",".intercalate ((phiGrid np).map ratStr)
      s!"ok {n} {np} {th} {ratStr (dTheta n)} {ph} {ratStr (dPhi np)}"
    | _, _, _, _ => "bad-op"
  | ["bounds", arg] =>
    match arg.splitOn "|" with
    | [g, t] =>
      match parseAxes g, parseAxes t with
      | some g, some t =>
        match boundsCheck g t with
        | .ok => "ok"
        | .outOfBounds i => s!"oob {i}"
        | .emptyAxis i => s!"empty {i}"
        | .lengthMismatch => "mismatch"
      | _, _ => "bad-op"
    | _ => "bad-op"
  | ["modes", lmax] =>
    match lmax.toNat? with
    | some lmax => "ok " ++ ",".intercalate ((modes lmax).map fun lm => s!"{lm.1}:{lm.2}")
    | none => "bad-op"
  | _ => "bad-op"

partial def loop (h : IO.FS.Stream) : IO Unit := do
  let line ← h.getLine
  if line.isEmpty then return ()
  IO.println (step line)
  loop h

def main : IO Unit := do loop (← IO.getStdin)
