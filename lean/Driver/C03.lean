/-
Line-protocol driver for C03 / C01: replays a recorded request trace of the
real `AurelCore` through `Model/Cache`.

Input lines (keys contain no blanks; `id` identifies a value, `s1` =
get_size(value), `s2` = sys.getsizeof(value) as measured on the real object):
  scalar <n>                      Nx*Ny*Nz*8
  ksz <k> <n>                     sys.getsizeof(<key string>)
  period <n>                      clear_cache_every_nbr_calc
  thr <num> <den>                 memory_threshold_inGB * 2^30 as a fraction
  imp <k> <num> <den>             var_importance[k] = num/den (exact value of the float)
  assign <k> <id> <s1> <s2>       rel.data[k] = v
  assignf <k> <id> <s1> <s2>      rel.data[k] = v; rel.var_importance[k] = 0
  freeze                          freeze_data()
  req <k>                         entry of rel[k]: answers hit / miss (a hit refreshes last_accessed)
  done <k> <id> <s1> <s2>         the method returned: store, count, stamp, cleanup_cache, return
  cleanup                         cleanup_cache() called directly
  rnd <num> <den>                 prints `rnd a b`: the binary64 nearest to num/den as a fraction
  reset                           a fresh instance (keeps scalar and ksz)
Output, one line per input line:
  <tag> c=<count> d=<keys of data> l=<key:stamp of last_accessed> e=<evicted keys in order>
tag = ok | hit | miss | ret:<id> | err:<exception>
-/
import AurelVerif.Model.Cache
open AurelVerif.Cache

structure Val where
  id : Nat
  s1 : Nat
  s2 : Nat

structure DState where
  st : State String Val
  scalar : Nat
  ksz : List (String × Nat)

def DState.sizes (d : DState) : Sizes String Val :=
  { scalar := d.scalar, ksz := fun k => (Dict.get? d.ksz k).getD 0, sz1 := Val.s1, sz2 := Val.s2, rnd := rnd64 }

def emptyState : State String Val := fresh [] 20 (4 * 1073741824)

def errStr : Err → String
  | .keyError => "KeyError" | .zeroDivision => "ZeroDivisionError" | .typeError => "TypeError"
  | .attrError => "AttributeError" | .fuel => "FUEL"

def showState (tag : String) (s : State String Val) (ev : List String) : String :=
  s!"{tag} c={s.count} d={",".intercalate (Dict.keys s.data)} l=" ++
  ",".intercalate (s.last.map fun kt => s!"{kt.1}:{kt.2}") ++ " e=" ++ ",".intercalate ev

def parseRat (n d : String) : Option Rat :=
  match n.toInt?, d.toNat? with
  | some n, some d => if d = 0 then none else some ((n : Rat) / (d : Rat))
  | _, _ => none

def mkVal (i a b : String) : Option Val :=
  match i.toNat?, a.toNat?, b.toNat? with
  | some i, some a, some b => some ⟨i, a, b⟩
  | _, _, _ => none

def step (d : DState) (line : String) : DState × String :=
  let bad := (d, "bad-op")
  match line.trimAscii.toString.splitOn " " with
  | ["scalar", n] => match n.toNat? with
    | some n => let d' := { d with scalar := n }; (d', showState "ok" d'.st [])
    | none => bad
  | ["ksz", k, n] => match n.toNat? with
    | some n => let d' := { d with ksz := Dict.set d.ksz k n }; (d', showState "ok" d'.st [])
    | none => bad
  | ["period", n] => match n.toNat? with
    | some n => let d' := { d with st := { d.st with period := n } }; (d', showState "ok" d'.st [])
    | none => bad
  | ["thr", n, m] => match parseRat n m with
    | some q => let d' := { d with st := { d.st with thr := q } }; (d', showState "ok" d'.st [])
    | none => bad
  | ["imp", k, n, m] => match parseRat n m with
    | some q => let d' := { d with st := setImp d.st k q }; (d', showState "ok" d'.st [])
    | none => bad
  | ["assign", k, i, a, b] => match mkVal i a b with
    | some v => let d' := { d with st := assign d.st k v }; (d', showState "ok" d'.st [])
    | none => bad
  | ["assignf", k, i, a, b] => match mkVal i a b with
    | some v => let d' := { d with st := assignFrozen d.st k v }; (d', showState "ok" d'.st [])
    | none => bad
  | ["freeze"] => let d' := { d with st := freeze d.st }; (d', showState "ok" d'.st [])
  | ["reset"] => let d' := { d with st := emptyState }; (d', showState "ok" d'.st [])
  | ["req", k] =>
    if Dict.contains d.st.data k then
      let d' := { d with st := hit d.st k }; (d', showState "hit" d'.st [])
    else (d, showState "miss" d.st [])
  | ["done", k, i, a, b] => match mkVal i a b with
    | some v =>
      match store d.sizes d.st k v with
      | .ok (s', ev, r) => ({ d with st := s' }, showState s!"ret:{r.id}" s' ev)
      | .error e => (d, showState ("err:" ++ errStr e) d.st [])
    | none => bad
  | ["rnd", n, m] => match parseRat n m with
    | some q => let r := rnd64 q; (d, s!"rnd {r.num} {r.den}")
    | none => bad
  | ["cleanup"] =>
    match cleanup d.sizes d.st with
    | .ok (s', ev) => ({ d with st := s' }, showState "ok" s' ev)
    | .error e => (d, showState ("err:" ++ errStr e) d.st [])
  | _ => bad

partial def loop (h : IO.FS.Stream) (d : DState) : IO Unit := do
  let line ← h.getLine
  if line.isEmpty then return ()
  let (d', out) := step d line
  IO.println out
  loop h d'

def main : IO Unit := do loop (← IO.getStdin) { st := emptyState, scalar := 0, ksz := [] }
