/-
Line-protocol driver for C14 (over_time).  One scenario per line, fields
separated by `|`, each `key=value`:

  rows=3,1,2,0                      row tags in table order
  cols=it:0:30,10,20,0;alpha:3;g:0  columns `name:rank[:ords[:tags]]`; rank 3 = 3-D scalar;
                                    ords = integers compared by `<` (temporal columns);
                                    tags = this column's own row tags (ragged tables)
  bi=Ktrace:3,gammaup3:0            core.descriptions (name:rank of the computed value)
  ef=max,mean                       est_functions
  cf=f1:3:1,bad:3:0                 custom variable functions  tag:rank:valid
  ce=tA:1,tB:0                      custom estimator functions tag:valid
  calls=Ktrace,{c1=f1&c2=f2},@~max,{n=tA};~max
                                    successive calls `vars~estimates`; item = name,
                                    `{name=tag&...}` dict, `@` any other object

Output: `ok col=cell,cell,...;col=...` (dict order) or `err <ExceptionName>`.
Cells are identity strings: `in(col,rowN)`, `calc(name,rowN)`, `cust(tag,rowN)`,
`est(e,<cell>)`, `estc(tag,<cell>)`; a value computed from a dictionary that
mixes rows would show as `rows3+1`.  When the dictionary of the per-step
`AurelCore` holds custom-function values they are part of the identity:
`calc(press_n,row3|press=cust(fp,row3))`.
-/
import AurelVerif.Model.Table
open AurelVerif.Table

structure Cell where
  id : String
  r3 : Bool
  ord : Int
  prov : List Nat      -- row tags the cell derives from

def dedup (l : List Nat) : List Nat := l.foldl (fun acc x => if acc.contains x then acc else acc ++ [x]) []

/-- identity of the dictionary handed to the per-step `AurelCore`: the row it
comes from, plus — explicitly — every custom-function value it holds as a
frozen input (`|name=cell;...`, in dict order).  Fed-back built-in columns and
estimate columns are not listed (they do not change what is computed: C01). -/
def provStr (rd : Row Cell) : String × List Nat :=
  let p := dedup (rd.flatMap (fun kc => kc.2.prov))
  let base := match p with
    | [n] => s!"row{n}"
    | _ => "rows" ++ "+".intercalate (p.map toString)
  let frozen := rd.filter (fun kc => kc.2.id.startsWith "cust(")
  let suffix := if frozen.isEmpty then "" else
    "|" ++ ";".intercalate (frozen.map fun kc => kc.1 ++ "=" ++ kc.2.id)
  (base ++ suffix, p)

def splitNE (s : String) (sep : String) : List String :=
  if s.isEmpty then [] else s.splitOn sep

def field (fs : List String) (k : String) : String :=
  match fs.find? (fun f => f.startsWith (k ++ "=")) with
  | some f => (f.drop (k.length + 1)).toString
  | none => ""

def rankOf (tbl : List (String × Bool)) (k : String) : Bool :=
  match tbl.find? (fun p => p.1 == k) with
  | some p => p.2
  | none => false

def parseItem (s : String) : Req :=
  if s == "@" then .other
  else if s.startsWith "{" then
    let body := ((s.drop 1).toString.dropEnd 1).toString
    .dict ((splitNE body "&").map fun kv =>
      match kv.splitOn "=" with
      | [n, f] => (n, f)
      | _ => (kv, kv))
  else .name s

def parseCall (s : String) : List Req × List Req :=
  match s.splitOn "~" with
  | [v, e] => ((splitNE v ",").map parseItem, (splitNE e ",").map parseItem)
  | _ => ([], [])

def showTable (t : Table Cell) : String :=
  "ok " ++ ";".intercalate (t.map fun kc => kc.1 ++ "=" ++ ",".intercalate (kc.2.map (·.id)))

def showErr : Err → String
  | .valueError => "err ValueError"
  | .indexError => "err IndexError"
  | .keyError => "err KeyError"

def step (line : String) : String :=
  let fs := line.trimAscii.toString.splitOn "|"
  let rows : List Nat := (splitNE (field fs "rows") ",").map (fun s => s.toNat?.getD 0)
  let ints (s : String) : List Int := (splitNE s ",").map (fun x => x.toInt?.getD 0)
  let t : Table Cell := (splitNE (field fs "cols") ";").map fun c =>
    let parts := c.splitOn ":"
    let name := parts.getD 0 ""
    let r3 := parts.getD 1 "0" == "3"
    let tags : List Nat := match parts[3]? with
      | some s => (splitNE s ",").map (fun x => x.toNat?.getD 0)
      | none => rows
    let ords : List Int := match parts[2]? with
      | some s => if s.isEmpty then tags.map (fun _ => 0) else ints s
      | none => tags.map (fun _ => 0)
    (name, (tags.zip ords).map fun (tg, o) =>
      { id := s!"in({name},row{tg})", r3 := r3, ord := o, prov := [tg] : Cell })
  let bi : List (String × Bool) := (splitNE (field fs "bi") ",").map fun s =>
    match s.splitOn ":" with | [n, r] => (n, r == "3") | _ => (s, false)
  let ef := splitNE (field fs "ef") ","
  let cf : List (String × Bool × Bool) := (splitNE (field fs "cf") ",").map fun s =>
    match s.splitOn ":" with | [n, r, v] => (n, r == "3", v == "1") | _ => (s, false, false)
  let ce : List (String × Bool) := (splitNE (field fs "ce") ",").map fun s =>
    match s.splitOn ":" with | [n, v] => (n, v == "1") | _ => (s, false)
  let E : Env Cell := {
    isDescr := fun n => bi.any (·.1 == n)
    isEstFn := fun e => ef.contains e
    validVar := fun f => cf.any (fun p => p.1 == f && p.2.2)
    validEst := fun f => ce.any (fun p => p.1 == f && p.2)
    comp := fun rd k => let (s, p) := provStr rd
      { id := s!"calc({k},{s})", r3 := rankOf bi k, ord := 0, prov := p }
    cust := fun f rd => let (s, p) := provStr rd
      { id := s!"cust({f},{s})", r3 := rankOf (cf.map fun p => (p.1, p.2.1)) f, ord := 0, prov := p }
    estB := fun e c => { id := s!"est({e},{c.id})", r3 := false, ord := 0, prov := c.prov }
    estC := fun f c => { id := s!"estc({f},{c.id})", r3 := false, ord := 0, prov := c.prov }
    is3 := fun c => c.r3
    lt := fun a b => a.ord < b.ord }
  let calls := (splitNE (field fs "calls") ";").map parseCall
  match runCalls E t calls with
  | .ok out => showTable out
  | .error e => showErr e

partial def loop (h : IO.FS.Stream) : IO Unit := do
  let line ← h.getLine
  if line.isEmpty then return ()
  IO.println (step line)
  loop h

def main : IO Unit := do loop (← IO.getStdin)
