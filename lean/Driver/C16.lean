/-
Line-protocol driver for C16 (grid).  One op per line, one canonical line out.
Rationals are passed as `num den` (den > 0) and printed as `num/den`.

  grid N minNum minDen dNum dDen
      -> ok N=<len> c=<argmin|x|> first=<q> last=<q>          | err   (N = 0)
  pts N minNum minDen dNum dDen
      -> ok <q0> <q1> …                                         (all points)
  fd order Nx Ny Nz  xmin(2) ymin(2) zmin(2) dx(2) dy(2) dz(2)      (16 numbers)
      -> ok N=a,b,c max=q,q,q c=i,j,k order=o mask=m x=S y=S z=S sph=S cart=3xS;S;S
            sphorder=r,phi,theta ret=r,theta,phi cartorder=x,y,z data=S fdshape=S rect=true
         S = a,b,c.  `rect` = every array really is rectangular of that shape
         and x[i][j][k] = xarray[i], y[i][j][k] = yarray[j], z[i][j][k] = zarray[k].
      -> err  when the constructor raises
  sph order <15 grid numbers as for fd>
      -> ok sgnY:sgnZ:masked:onAxis:origin:r2:rho2 …      per point, C order
  cut <1|2> rank order n1 [n2 [n3]]       cutoffmask (1) / cutoffmask2 (2) on
                                          arange(prod n).reshape(n…)
      -> ok axes=<a..b|empty>;… flat=<surviving flat indices, C order>
  exc <1|2> order nx ny nz sx sy sz       excision / excision2 on an (nx,ny,nz)
                                          array; s* an integer or None
      -> ok <sorted flat indices set to NaN> | err     (IndexError)
  excfind <1|2> order <15 grid numbers>   isingularity='find'
-/
import AurelVerif.Model.Grid
open AurelVerif.Splice AurelVerif.Grid

def ratStr (q : Rat) : String := s!"{q.num}/{q.den}"

def parseRat (n d : String) : Option Rat := do
  let n ← n.toInt?
  let d ← d.toNat?
  if d = 0 then none else pure (mkRat n d)

def shapeStr (s : Nat × Nat × Nat) : String := s!"{s.1},{s.2.1},{s.2.2}"

def isShapeB (a : Arr3 α) (s : Nat × Nat × Nat) : Bool :=
  a.length == s.1 && a.all fun p => p.length == s.2.1 && p.all fun r => r.length == s.2.2

def mkArr (nx ny nz : Nat) : Arr3 Nat :=
  (List.range nx).map fun i => (List.range ny).map fun j => (List.range nz).map fun k =>
    (i * ny + j) * nz + k

def parseParam (ws : List String) : Option Param :=
  match ws with
  | [nx, ny, nz, a1, a2, b1, b2, c1, c2, d1, d2, e1, e2, f1, f2] => do
    pure { Nx := ← nx.toNat?, Ny := ← ny.toNat?, Nz := ← nz.toNat?,
           xmin := ← parseRat a1 a2, ymin := ← parseRat b1 b2, zmin := ← parseRat c1 c2,
           dx := ← parseRat d1 d2, dy := ← parseRat e1 e2, dz := ← parseRat f1 f2 }
  | _ => none

/-- meshgrid content check: x[i][j][k] = xarray[i] etc. -/
def meshOK (g : Grid) : Bool :=
  (List.range g.Nx).all fun i => (List.range g.Ny).all fun j => (List.range g.Nz).all fun k =>
    get3 g.x i j k == g.xarray[i]? && get3 g.y i j k == g.yarray[j]? && get3 g.z i j k == g.zarray[k]?

def fdLine (p : Param) (o : Nat) : String :=
  match mkGrid p o with
  | none => "err"
  | some g =>
    let s := fdShape g
    let rect := isShapeB g.x s && isShapeB g.y s && isShapeB g.z s && isShapeB g.sph s
      && g.cartesian.all (isShapeB · s) && meshOK g
    s!"ok N={g.Nx},{g.Ny},{g.Nz} max={ratStr g.xmax},{ratStr g.ymax},{ratStr g.zmax} " ++
    s!"c={g.ixcenter},{g.iycenter},{g.izcenter} order={g.fdOrder} mask={g.maskLen} " ++
    s!"x={shapeStr (shape3 g.x)} y={shapeStr (shape3 g.y)} z={shapeStr (shape3 g.z)} " ++
    s!"sph={shapeStr (shape3 g.sph)} cart={g.cartesian.length}x" ++
    ";".intercalate (g.cartesian.map fun a => shapeStr (shape3 a)) ++
    " sphorder=" ++ ",".intercalate (sphericalCoordsOrder.map SphComp.name) ++
    " ret=" ++ ",".intercalate (cartToSphReturnOrder.map SphComp.name) ++
    " cartorder=" ++ ",".intercalate cartesianCoordsOrder ++
    s!" data={shapeStr (dataShape p)} fdshape={shapeStr s} rect={rect}"

def b01 (b : Bool) : String := if b then "1" else "0"

def sphLine (p : Param) (o : Nat) : String :=
  match mkGrid p o with
  | none => "err"
  | some g =>
    "ok " ++ " ".intercalate (g.sph.flatten.flatten.map fun s =>
      s!"{s.sgnY}:{s.sgnZ}:{b01 s.masked}:{b01 s.onAxis}:{b01 s.origin}:{ratStr s.r2}:{ratStr s.rho2}")

def rangeStr (l : List Nat) : String :=
  match l.head?, l.getLast? with
  | some a, some b => s!"{a}..{b}"
  | _, _ => "empty"

def natsStr (l : List Nat) : String := " ".intercalate (l.map toString)

def cutLine (twice : Bool) (o : Nat) (dims : List Nat) : String :=
  let m := if twice then 2 * maskLen o else maskLen o
  let axes := ";".intercalate (dims.map fun n => rangeStr (cut1 m (List.range n)))
  match dims with
  | [n1] =>
    let r := if twice then cutoffmaskTwice1 o (List.range n1) else cutoffmask1 o (List.range n1)
    s!"ok axes={axes} flat={natsStr r}"
  | [n1, n2] =>
    let f := (mkArr 1 n1 n2).headD []
    let r := if twice then cutoffmaskTwice2d o f else cutoffmask2d o f
    s!"ok axes={axes} flat={natsStr r.flatten}"
  | [n1, n2, n3] =>
    let f := mkArr n1 n2 n3
    let r := if twice then cutoffmaskTwice3 o f else cutoffmask3 o f
    s!"ok axes={axes} flat={natsStr r.flatten.flatten}"
  | _ => "bad-op"

def parseOptInt (s : String) : Option (Option Int) :=
  if s == "None" then some none else s.toInt?.map some

/-- flat indices that became NaN -/
def nanIdx (f : Arr3 (Option Nat)) : List Nat :=
  (f.flatten.flatten.zipIdx.filter fun (v, _) => v.isNone).map (·.2)

def excLine (twice : Bool) (o nx ny nz : Nat) (s : Option Int × Option Int × Option Int) : String :=
  let f : Arr3 (Option Nat) := (mkArr nx ny nz).map fun p => p.map fun r => r.map some
  let r := if twice then excision2 (maskLen o) f s.1 s.2.1 s.2.2 else excision (maskLen o) f s.1 s.2.1 s.2.2
  match r with
  | some g => "ok " ++ natsStr (nanIdx g)
  | none => "err"

def step (line : String) : String :=
  match (line.trimAscii.toString.splitOn " ") with
  | ["grid", n, a1, a2, d1, d2] =>
    match n.toNat?, parseRat a1 a2, parseRat d1 d2 with
    | some n, some mn, some d =>
      let xs := coords n mn d
      match last xs, argminAbs xs, xs.head? with
      | some mx, some c, some fst => s!"ok N={xs.length} c={c} first={ratStr fst} last={ratStr mx}"
      | _, _, _ => "err"
    | _, _, _ => "bad-op"
  | ["pts", n, a1, a2, d1, d2] =>
    match n.toNat?, parseRat a1 a2, parseRat d1 d2 with
    | some n, some mn, some d => "ok " ++ " ".intercalate ((coords n mn d).map ratStr)
    | _, _, _ => "bad-op"
  | "fd" :: o :: rest =>
    match o.toNat?, parseParam rest with
    | some o, some p => fdLine p o
    | _, _ => "bad-op"
  | "sph" :: o :: rest =>
    match o.toNat?, parseParam rest with
    | some o, some p => sphLine p o
    | _, _ => "bad-op"
  | "cut" :: w :: rank :: o :: dims =>
    match o.toNat?, rank.toNat?, dims.mapM String.toNat? with
    | some o, some rank, some dims =>
      if rank ≠ dims.length ∨ (w ≠ "1" ∧ w ≠ "2") then "bad-op" else cutLine (w == "2") o dims
    | _, _, _ => "bad-op"
  | ["exc", w, o, nx, ny, nz, sx, sy, sz] =>
    match o.toNat?, nx.toNat?, ny.toNat?, nz.toNat?, parseOptInt sx, parseOptInt sy, parseOptInt sz with
    | some o, some nx, some ny, some nz, some sx, some sy, some sz =>
      excLine (w == "2") o nx ny nz (sx, sy, sz)
    | _, _, _, _, _, _, _ => "bad-op"
  | "excfind" :: w :: o :: rest =>
    match o.toNat?, parseParam rest with
    | some o, some p =>
      match mkGrid p o with
      | some g => excLine (w == "2") o g.Nx g.Ny g.Nz (findSingularity g)
      | none => "err"
    | _, _ => "bad-op"
  | _ => "bad-op"

partial def loop (h : IO.FS.Stream) : IO Unit := do
  let line ← h.getLine
  if line.isEmpty then return ()
  IO.println (step line)
  loop h

def main : IO Unit := do loop (← IO.getStdin)
