/-
Line-protocol driver for C11 (Model/Chunks.lean).

  join bx by bz nz ny nx D perm
      A[z][y][x] = (z*ny + y)*nx + x ; D = slabs `/`-separated, slab = `zl:strips`,
      strips `;`-separated, strip = `yl=x1,x2,...` ; perm = comma-separated
      indices into `chunks base A D` (position i of the dict holds chunk perm[i]).
      -> joinChunks
  raw  c1 c2 ...      chunk = ix,iy,iz,sz,sy,sx,v0 : block of shape (sz,sy,sx) with
      values v0 + flat index; the dict is filled in this order  -> joinChunks
  read gx gy gz c1 c2 ...   same chunks (shapes include ghosts): trim, dict, join, fixij
  trim gx gy gz nz ny nx    trimGhost of the index-valued block
  fixij nz ny nx            fixij of the index-valued block
  sel  r:itmin:itmax,... its   readOrder (restart = -1): `it:restart` pairs
  sel2 usechk restart|- cats its   Model/Restarts.readETData around a reader that returns the restart number:
      cats = r:lo-hi|-:c1+c2+..|-|e , comma separated (e = empty checkpoint list); -> `it:restart` pairs, `err`
  flat oldIt table table ...   Model/Restarts.flattenTables; table = r:it+it+..:key=v+v+..;key=v+..
      -> `ok it=..|key=..|key=..` (`None` = Python None), `err`
  ckpt rl its vars file file ...   Model/Checkpoint.readCheckpoints; vars = aurel names (comma separated);
      file = itName:fileNo|-:dset;dset;... ; dset = thorn,var,it,tl,rl|-,c|-,gx,gy,gz,ox,oy,oz,time,sz,sy,sx,v0
      -> `ok it=..|t=..|name=<arr>/<arr>|...` (arr = d0xd1xd2:v,v,..), `err`
  ckptm rl its vars file file ...  the same through Model/MultiThorn.readCheckpointsM (literal multi-thorn branch)
  gvar cmax|- rl its vars file ...  Model/MultiThorn.readGroupOrVar (read_ET_group_or_var); vars = ET names as handed
      over (comma separated); cmax = `-` ('in file') or the integer; file as for ckpt (itName unused)
      -> `ok t=..|name=<arr>/<arr>|...`, `err`
  var2et name / et2var name / comps name    the generated name maps

Output: `ok d0 d1 d2 : v v v ...` (`ok empty` for an array without elements), `err`.
-/
import AurelVerif.Model.Chunks
import AurelVerif.Model.Restarts
import AurelVerif.Model.Checkpoint
import AurelVerif.Model.MultiThorn
import AurelVerif.Gen.VarMaps
open AurelVerif.Chunks AurelVerif.Restarts AurelVerif.Checkpoint AurelVerif.MultiThorn

def mkBlock (v0 sz sy sx : Nat) : Arr3 Nat :=
  (List.range sz).map fun z => (List.range sy).map fun y => (List.range sx).map fun x =>
    v0 + (z * sy + y) * sx + x

def showArr (a : Arr3 Nat) : String :=
  let vals := a.flatten.flatten
  if vals.isEmpty then "ok empty"
  else s!"ok {a.length} {dim1 a} {dim2 a} : " ++ " ".intercalate (vals.map toString)

def showOpt : Option (Arr3 Nat) → String
  | some a => showArr a
  | none => "err"

def nats (s : String) (sep : String) : Option (List Nat) :=
  if s.isEmpty then some [] else (s.splitOn sep).mapM String.toNat?

def parseStrip (s : String) : Option (Nat × XSplit) :=
  match s.splitOn "=" with
  | [yl, xs] => do pure ((← yl.toNat?), (← nats xs ","))
  | _ => none

def parseSlab (s : String) : Option (Nat × YSplit) :=
  match s.splitOn ":" with
  | [zl, strips] => do pure ((← zl.toNat?), (← (strips.splitOn ";").mapM parseStrip))
  | _ => none

def parseD (s : String) : Option ZSplit := (s.splitOn "/").mapM parseSlab

def parseChunk (s : String) : Option ((Nat × Nat × Nat) × Arr3 Nat) :=
  match nats s "," with
  | some [ix, iy, iz, sz, sy, sx, v0] => some ((ix, iy, iz), mkBlock v0 sz sy sx)
  | _ => none

def parseAvail (s : String) : Option Avail :=
  match nats s ":" with
  | some [r, a, b] => some (r, a, b)
  | _ => none

def optNat (s : String) : Option (Option Nat) :=
  if s == "-" then some none else s.toNat?.map some

def parseCat (s : String) : Option Cat :=
  match s.splitOn ":" with
  | [r, rg, ck] => do
    let r ← r.toNat?
    let rg ← if rg == "-" then some none else
      match rg.splitOn "-" with
      | [a, b] => do pure (some ((← a.toNat?), (← b.toNat?)))
      | _ => none
    let ck ← if ck == "-" then some none else if ck == "e" then some (some []) else (nats ck "+").map some
    pure ⟨r, rg, ck⟩
  | _ => none

def parseCol (s : String) : Option (String × List Nat) :=
  match s.splitOn "=" with
  | [k, vs] => (nats vs "+").map fun l => (k, l)
  | _ => none

def parseTable (s : String) : Option (Nat × Table Nat) :=
  match s.splitOn ":" with
  | [r, its, cols] => do
    let r ← r.toNat?
    let its ← nats its "+"
    let cols ← if cols.isEmpty then some [] else (cols.splitOn ";").mapM parseCol
    pure (r, ⟨its, cols⟩)
  | _ => none

def parseDSet (s : String) : Option (DSet Nat) :=
  match s.splitOn "," with
  | [thorn, var, it, tl, rl, c, gx, gy, gz, ox, oy, oz, time, sz, sy, sx, v0] => do
    pure { thorn := thorn, var := var, it := (← it.toNat?), tl := (← tl.toNat?), rl := (← optNat rl), c := (← optNat c),
           ghost := ((← gx.toNat?), (← gy.toNat?), (← gz.toNat?)), iorigin := ((← ox.toNat?), (← oy.toNat?), (← oz.toNat?)),
           time := (← time.toNat?), data := mkBlock (← v0.toNat?) (← sz.toNat?) (← sy.toNat?) (← sx.toNat?) }
  | _ => none

def parseCFile (s : String) : Option (CFile Nat) :=
  match s.splitOn ":" with
  | [itn, fno, ds] => do
    let ds ← if ds.isEmpty then some [] else (ds.splitOn ";").mapM parseDSet
    pure ⟨(← itn.toNat?), (← optNat fno), ds⟩
  | _ => none

def showArr3 (a : Arr3 Nat) : String :=
  let vals := a.flatten.flatten
  if vals.isEmpty then "empty"
  else s!"{a.length}x{dim1 a}x{dim2 a}:" ++ ",".intercalate (vals.map toString)

def showCell : Cell Nat → String
  | .t x => toString x
  | .arr a => showArr3 a

def showOptNat : Option Nat → String
  | some x => toString x
  | none => "None"

def step (line : String) : String :=
  match (line.trimAscii.toString.splitOn " ") with
  | ["join", bx, b_y, bz, nz, ny, nx, d, perm] =>
    match bx.toNat?, b_y.toNat?, bz.toNat?, nz.toNat?, ny.toNat?, nx.toNat?, parseD d, nats perm "," with
    | some bx, some b_y, some bz, some nz, some ny, some nx, some d, some perm =>
      let cs := chunks (bx, b_y, bz) (mkBlock 0 nz ny nx) d
      match perm.mapM (fun i => cs[i]?) with
      | some l => showOpt (joinChunks (toDict l))
      | none => "bad-op"
    | _, _, _, _, _, _, _, _ => "bad-op"
  | "raw" :: cs =>
    match cs.mapM parseChunk with
    | some l => showOpt (joinChunks (toDict l))
    | none => "bad-op"
  | "read" :: gx :: gy :: gz :: cs =>
    match gx.toNat?, gy.toNat?, gz.toNat?, cs.mapM parseChunk with
    | some gx, some gy, some gz, some l =>
      showOpt ((joinChunks (toDict (l.map fun kb => (kb.1, trimGhost gx gy gz kb.2)))).map fixij)
    | _, _, _, _ => "bad-op"
  | ["trim", gx, gy, gz, nz, ny, nx] =>
    match gx.toNat?, gy.toNat?, gz.toNat?, nz.toNat?, ny.toNat?, nx.toNat? with
    | some gx, some gy, some gz, some nz, some ny, some nx =>
      showArr (trimGhost gx gy gz (mkBlock 0 nz ny nx))
    | _, _, _, _, _, _ => "bad-op"
  | ["fixij", nz, ny, nx] =>
    match nz.toNat?, ny.toNat?, nx.toNat? with
    | some nz, some ny, some nx => showArr (fixij (mkBlock 0 nz ny nx))
    | _, _, _ => "bad-op"
  | ["sel", av, its] =>
    match (av.splitOn ",").mapM parseAvail, nats its "," with
    | some av, some its =>
      "ok " ++ " ".intercalate ((readOrder av its).map fun p => s!"{p.1}:{p.2}")
    | _, _ => "bad-op"
  | ["sel2", usechk, restart, cats, its] =>
    match optNat restart, (cats.splitOn ",").mapM parseCat, nats its "," with
    | some restart, some cats, some its =>
      match readETData (usechk == "1") cats restart its (fun r l => some ⟨l, [("r", l.map fun _ => r)]⟩) with
      | some (its', cols) =>
        ("ok " ++ " ".intercalate ((its'.zip ((cols.get? "r").getD [])).map fun p => s!"{p.1}:{showOptNat p.2}")).trimAsciiEnd.toString
      | none => "err"
    | _, _, _ => "bad-op"
  | "flat" :: oldIt :: tabs =>
    match nats oldIt ",", tabs.mapM parseTable with
    | some oldIt, some tabs =>
      match flattenTables tabs oldIt with
      | some (its', cols) =>
        "ok it=" ++ ",".intercalate (its'.map toString)
          ++ String.join (cols.map fun kc => "|" ++ kc.1 ++ "=" ++ ",".intercalate (kc.2.map showOptNat))
      | none => "err"
    | _, _ => "bad-op"
  | "ckpt" :: rl :: its :: vars :: files =>
    match rl.toNat?, nats its ",", files.mapM parseCFile with
    | some rl, some its, some files =>
      let var := (vars.splitOn ",").flatMap AurelVerif.Gen.VarMaps.aurelToET
      match readCheckpoints AurelVerif.Gen.VarMaps.etToAurel files var its rl with
      | some T =>
        "ok it=" ++ ",".intercalate (T.its.map toString)
          ++ String.join (T.cols.map fun kc => "|" ++ kc.1 ++ "=" ++ "/".intercalate (kc.2.map showCell))
      | none => "err"
    | _, _, _ => "bad-op"
  | "ckptm" :: rl :: its :: vars :: files =>
    match rl.toNat?, nats its ",", files.mapM parseCFile with
    | some rl, some its, some files =>
      let var := (vars.splitOn ",").flatMap AurelVerif.Gen.VarMaps.aurelToET
      match readCheckpointsM AurelVerif.Gen.VarMaps.etToAurel files var its rl with
      | some T =>
        "ok it=" ++ ",".intercalate (T.its.map toString)
          ++ String.join (T.cols.map fun kc => "|" ++ kc.1 ++ "=" ++ "/".intercalate (kc.2.map showCell))
      | none => "err"
    | _, _, _ => "bad-op"
  | "gvar" :: cmax :: rl :: its :: vars :: files =>
    match optNat cmax, rl.toNat?, nats its ",", files.mapM parseCFile with
    | some cmax, some rl, some its, some files =>
      let cm : CMax := match cmax with
        | none => CMax.inFile
        | some n => CMax.num n
      match readGroupOrVar AurelVerif.Gen.VarMaps.etToAurel cm files (vars.splitOn ",") its rl with
      | some (ts, cols) =>
        "ok t=" ++ ",".intercalate (ts.map toString)
          ++ String.join (cols.map fun kc => "|" ++ kc.1 ++ "=" ++ "/".intercalate (kc.2.map showArr3))
      | none => "err"
    | _, _, _, _ => "bad-op"
  | ["var2et", v] => "ok " ++ ",".intercalate (AurelVerif.Gen.VarMaps.aurelToET v)
  | ["et2var", v] => "ok " ++ AurelVerif.Gen.VarMaps.etToAurel v
  | ["comps", v] => "ok " ++ ",".intercalate (AurelVerif.Gen.VarMaps.tensorToScalar v)
  | _ => "bad-op"

partial def loop (h : IO.FS.Stream) : IO Unit := do
  let line ← h.getLine
  if line.isEmpty then return ()
  IO.println (step line)
  loop h

def main : IO Unit := do loop (← IO.getStdin)
