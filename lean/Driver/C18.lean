/-
Line-protocol driver for C18 (catalogues and name parsing).

Strings are encoded as dot-separated hexadecimal code points (`-` = empty
string); lists of strings are comma-separated (`~` = empty list).

  reset                               forget tables, simulation, file system
  known <base> <vars>                 append an entry of known_groups
  a2e <new> <olds>                    append an entry of aurel_to_ET_varnames
  sim <simpath> <simname>             new simulation (no restarts, empty file system)
  entries <names>                     os.listdir of the simulation directory (replaces the previous listing)
  restart <nbr>                       describe directory output-<%04d>/<simname>/
  clearfiles <nbr>                    forget its entries (the restart grew; `file` lines follow)
  file <nbr> <name> <hashorder> <keys>  append a directory entry (os.listdir order)
  iter <0|1>                          iterations(skip_last)     -> result ; file
  readit <0|1>                        read_iterations(skip_last) -> result ; file
  content <nbr> <0|1>                 get_content(restart, overwrite) -> groups ; content.txt
  dropcache <nbr>                     content.txt removed / made unreadable
  key <s>                             parse_hdf5_key
  h5 <s>                              parse_h5file
  readtxt <s>                         read_iterations on the given file text
  ov <cat>                            collect_overall_iterations
  rng <x> <a> <b> <n>                 x in range(a, b + 1, n)
  par <simloc> <simname> <text>       the .par parser of parameters(): dictionary before the grid quantities ; thorns
-/
import AurelVerif.Model.Catalog
import AurelVerif.Model.ParFile
open AurelVerif.Catalog

def hexVal (c : Char) : Nat :=
  let n := c.toNat
  if 48 ≤ n && n ≤ 57 then n - 48 else if 97 ≤ n && n ≤ 102 then n - 87 else 0

def decS (s : String) : Str :=
  if s == "-" then [] else
  (s.splitOn ".").map fun h => Char.ofNat (h.toList.foldl (fun a c => a * 16 + hexVal c) 0)

def decL (s : String) : List Str := if s == "~" then [] else (s.splitOn ",").map decS

def hexOf (n : Nat) : String := String.ofList (Nat.toDigits 16 n)

def encS (s : Str) : String := if s.isEmpty then "-" else ".".intercalate (s.map fun c => hexOf c.toNat)

def encL (l : List Str) : String := if l.isEmpty then "~" else ",".intercalate (l.map encS)

def errS : Err → String
  | .nameError => "NameError" | .typeError => "TypeError" | .valueError => "ValueError"
  | .indexError => "IndexError" | .importError => "ImportError" | .keyError => "KeyError"

def intsS (l : List Int) : String := if l.isEmpty then "~" else ",".intercalate (l.map toString)

def valS : Val → String
  | .strs l => "S" ++ encL l
  | .ints l => "I" ++ intsS l

def catS (c : Cat) : String :=
  if c.isEmpty then "~" else
  "|".intercalate (c.map fun re => toString re.1 ++ ":" ++
    ";".intercalate (re.2.map fun kv => encS kv.1 ++ "=" ++ valS kv.2))

def ovS (o : List (Str × List (List Int))) : String :=
  if o.isEmpty then "~" else
  ";".intercalate (o.map fun kv => encS kv.1 ++ "=" ++ "/".intercalate (kv.2.map intsS))

def resS : Except Err Result → String
  | .ok r => "ok " ++ catS r.cat ++ " O " ++ (match r.overall with | some o => ovS o | none => "none")
  | .error e => "err " ++ errS e

def vfS (vf : VarsAndFiles) : String :=
  if vf.isEmpty then "~" else
  ";".intercalate (vf.map fun kv => encL kv.1 ++ "=" ++ encL kv.2)

def pvalS : AurelVerif.ParFile.PVal → String
  | .int i => "I" ++ toString i
  | .float m e => "F" ++ toString m ++ "," ++ toString e
  | .str s => "S" ++ encS s

def parS : Except Err AurelVerif.ParFile.PState → String
  | .ok st => "ok " ++ (if st.dict.isEmpty then "~" else
      ";".intercalate (st.dict.map fun kv => encS kv.1 ++ "=" ++ pvalS kv.2)) ++ " T " ++ encL (dedup st.thorns)
  | .error e => "err " ++ errS e

structure DState where
  T : Tables := { knownGroups := [], aurelToET := [] }
  S : Sim := { simpath := [], simname := [], entries := [], restarts := [] }
  fs : FS := { itfile := none, caches := [] }

def fileS (fs : FS) : String := match fs.itfile with | some t => encS t | none => "none"

def parseCat (s : String) : Cat :=
  if s == "~" then [] else
  (s.splitOn "|").map fun r =>
    match r.splitOn ":" with
    | [n, es] => (n.toInt?.getD 0, (if es == "" then [] else es.splitOn ";").map fun e =>
        match e.splitOn "=" with
        | [k, v] => (decS k, Val.ints (if v == "~" then [] else (v.splitOn ",").map fun x => x.toInt?.getD 0))
        | _ => ([], Val.ints []))
    | _ => (0, [])

def step (st : DState) (line : String) : DState × String :=
  match line.trimAscii.toString.splitOn " " with
  | ["reset"] => ({}, "ok")
  | ["known", b, vs] => ({ st with T := { st.T with knownGroups := st.T.knownGroups ++ [(decS b, decL vs)] } }, "ok")
  | ["a2e", n, os] => ({ st with T := { st.T with aurelToET := st.T.aurelToET ++ [(decS n, decL os)] } }, "ok")
  | ["sim", p, n] => ({ st with S := { simpath := decS p, simname := decS n, entries := [], restarts := [] },
                                fs := { itfile := none, caches := [] } }, "ok")
  | ["restart", n] =>
    ({ st with S := { st.S with restarts := st.S.restarts ++ [{ nbr := n.toNat!, files := [] }] } }, "ok")
  | ["file", n, name, ho, keys] =>
    let f : H5File := { name := decS name, keys := decL keys, hashOrder := decL ho }
    ({ st with S := { st.S with restarts := st.S.restarts.map fun d =>
        if d.nbr == n.toNat! then { d with files := d.files ++ [f] } else d } }, "ok")
  | ["entries", es] => ({ st with S := { st.S with entries := decL es } }, "ok")
  | ["clearfiles", n] =>
    ({ st with S := { st.S with restarts := st.S.restarts.map fun d =>
        if d.nbr == n.toNat! then { d with files := [] } else d } }, "ok")
  | ["iter", sk] =>
    let (fs, r) := iterationsCall st.T st.S (sk == "1") st.fs
    ({ st with fs := fs }, resS r ++ " ; " ++ fileS fs)
  | ["readit", sk] =>
    let (fs, r) := readIterationsCall st.T st.S (sk == "1") st.fs
    ({ st with fs := fs }, resS r ++ " ; " ++ fileS fs)
  | ["content", n, ow] =>
    let (fs, vf) := getContent st.T st.S n.toNat! (ow == "1") st.fs
    ({ st with fs := fs }, vfS vf ++ " ; " ++
      (match dget fs.caches n.toNat! with | some cd => encS (jsonDump cd) | none => "none"))
  | ["dropcache", n] =>
    ({ st with fs := { st.fs with caches := st.fs.caches.filter fun kv => kv.1 != n.toNat! } }, "ok")
  | ["key", s] =>
    (st, match parseKey (decS s) with
      | some k => s!"K {encS k.thorn} {encS k.var} {k.it} {k.tl} {if k.m then 1 else 0} " ++
          (match k.rl with | some r => toString r | none => "none") ++ " " ++
          (match k.c with | some r => toString r | none => "none")
      | none => "nomatch")
  | ["h5", s] =>
    (st, match parseH5File (decS s) with
      | some (.checkpoint it ch) => s!"CP {it} " ++ (match ch with | some r => toString r | none => "none")
      | some (.data f) => "F " ++ (match f.thorn with | some t => encS t | none => "none") ++ " " ++
          encS f.varOrGroup ++ s!" {if f.xyzPrefix then 1 else 0} " ++
          (match f.chunk with | some r => toString r | none => "none") ++ s!" {if f.xyzSuffix then 1 else 0}"
      | none => "nomatch")
  | ["readtxt", s] =>
    (st, resS ((readIterationsText (universalNl (decS s))).map fun c => { cat := c, overall := none }))
  | ["ov", c] =>
    (st, match overall (parseCat c) with
      | .ok o => "ok " ++ ovS o
      | .error e => "err " ++ errS e)
  | ["rng", x, a, b, n] =>
    (st, match rangeMem x.toInt! a.toInt! b.toInt! n.toInt! with
      | .ok true => "1" | .ok false => "0" | .error e => "err " ++ errS e)
  | ["par", loc, name, txt] =>
    (st, parS (AurelVerif.ParFile.parseParText (AurelVerif.ParFile.initDict (decS loc) (decS name)) (decS txt)))
  | _ => (st, "bad-op")

partial def loop (h : IO.FS.Stream) (st : DState) : IO Unit := do
  let line ← h.getLine
  if line.isEmpty then return ()
  let (st', out) := step st line
  IO.println out
  loop h st'

def main : IO Unit := do loop (← IO.getStdin) {}
