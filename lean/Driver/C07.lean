/-
Line-protocol driver for C07 (and the cutoff part of C16).
  d3 <x|y|z> <order> <none|periodic|symmetric> <Nx> <Ny> <Nz> <pNx> <pNy> <pNz>
  t<r> <order> <bnd> <Nx> <Ny> <Nz>          r = 0..3 : d3_scalar / d3_rank{1,2,3}tensor
  cut <m> <n>                                cutoffmask on range(n) with mask_len m
(pN* = the value of param['N*'] the code passes as N; normally equal to the
array's own size.)  Output: `ok out:in*num/den,...;...` listing for every
output sample (flat C-order index) its non-zero weights on input samples, or
`err` where the Python code raises IndexError.
-/
import AurelVerif.Model.Splice
import AurelVerif.Gen.Stencils
open AurelVerif.Splice AurelVerif.Gen.Stencils

def mkArr (base nx ny nz : Nat) : Arr3 Nat :=
  (List.range nx).map fun i => (List.range ny).map fun j => (List.range nz).map fun k =>
    base + (i * ny + j) * nz + k

def ratStr (q : Rat) : String := s!"{q.num}/{q.den}"

/-- terms in the order the code adds them (the harness adds the floats of
coinciding samples in this order, so rounding is reproduced exactly) -/
def canon (row : Lin Nat) : List (Nat × Rat) := row.map fun ca => (ca.2, ca.1)

def showRows (rows : List (Lin Nat)) : String :=
  let body := (List.range rows.length).zip rows |>.map fun (o, row) =>
    s!"{o}:" ++ ",".intercalate ((canon row).map fun (i, w) => s!"{i}*{ratStr w}")
  "ok " ++ ";".intercalate body

def parseB : String → Option Boundary
  | "none" => some .none | "periodic" => some .periodic | "symmetric" => some .symmetric
  | _ => Option.none

/-- the harness always uses the spacings dx = 1/2, dy = 1/4, dz = 1/8 (exact in binary64) -/
def dAxis (ax : String) (b : Boundary) (s : Scheme) (f : Arr3 Nat) (pn : Nat × Nat × Nat) :
    Option (Arr3 (Lin Nat)) :=
  match ax with
  | "x" => d3xS b s f pn.1 (1 / 2)
  | "y" => d3yS b s f pn.2.1 (1 / 4)
  | "z" => d3zS b s f pn.2.2 (1 / 8)
  | _ => none

def flat3 (a : Arr3 β) : List β := a.flatten.flatten

/-- d3_scalar: np.array([d3x f, d3y f, d3z f]) -/
def dScalar (b : Boundary) (s : Scheme) (pn : Nat × Nat × Nat) (f : Arr3 Nat) :
    Option (List (Arr3 (Lin Nat))) := do
  let a ← d3xS b s f pn.1 (1 / 2)
  let c ← d3yS b s f pn.2.1 (1 / 4)
  let d ← d3zS b s f pn.2.2 (1 / 8)
  pure [a, c, d]

def step (line : String) : String :=
  match (line.trimAscii.toString.splitOn " ") with
  | ["d3", ax, o, b, nx, ny, nz, px, py, pz] =>
    match o.toNat?, parseB b, nx.toNat?, ny.toNat?, nz.toNat?, px.toNat?, py.toNat?, pz.toNat? with
    | some o, some b, some nx, some ny, some nz, some px, some py, some pz =>
      match dAxis ax b (scheme o) (mkArr 0 nx ny nz) (px, py, pz) with
      | some r => showRows (flat3 r)
      | none => "err"
    | _, _, _, _, _, _, _, _ => "bad-op"
  | [t, o, b, nx, ny, nz] =>
    match o.toNat?, parseB b, nx.toNat?, ny.toNat?, nz.toNat? with
    | some o, some b, some nx, some ny, some nz =>
      let s := scheme o
      let pn := (nx, ny, nz)
      let sz := nx * ny * nz
      let comp (c : Nat) := mkArr (c * sz) nx ny nz
      match t with
      | "t0" =>
        match dScalar b s pn (comp 0) with
        | some r => showRows (r.map flat3).flatten
        | none => "err"
      | "t1" =>
        -- np.stack([map1 d3x f, map1 d3y f, map1 d3z f])
        let f := (List.range 3).map comp
        match (["x", "y", "z"].mapM fun ax => map1 (fun g => dAxis ax b s g pn) f) with
        | some r => showRows ((r.map fun m => (m.map flat3).flatten).flatten)
        | none => "err"
      | "t2" =>
        let f := (List.range 3).map fun k => (List.range 3).map fun j => comp (k * 3 + j)
        match (["x", "y", "z"].mapM fun ax => map2 (fun g => dAxis ax b s g pn) f) with
        | some r => showRows ((r.map fun m => ((m.map fun row => (row.map flat3).flatten).flatten)).flatten)
        | none => "err"
      | "t3" =>
        let f := (List.range 3).map fun k => (List.range 3).map fun j => (List.range 3).map fun i =>
          comp ((k * 3 + j) * 3 + i)
        match (["x", "y", "z"].mapM fun ax => map3 (fun g => dAxis ax b s g pn) f) with
        | some r => showRows ((r.map fun m =>
            ((m.map fun p => ((p.map fun row => (row.map flat3).flatten).flatten)).flatten)).flatten)
        | none => "err"
      | _ => "bad-op"
    | _, _, _, _, _ => "bad-op"
  | ["cut", m, n] =>
    match m.toNat?, n.toNat? with
    | some m, some n => "ok " ++ toString (cutoff1 m (List.range n))
    | _, _ => "bad-op"
  | _ => "bad-op"

partial def loop (h : IO.FS.Stream) : IO Unit := do
  let line ← h.getLine
  if line.isEmpty then return ()
  IO.println (step line)
  loop h

def main : IO Unit := do loop (← IO.getStdin)
