/-
Line-protocol driver for C05 (input checks of `Lie_beta`).  One case per line:

    <indexing>|<n0>,<n1>,...        e.g.  `s_uu|3,3`   `|`   `xs_u|3`

(`indexing` over the alphabet s t _ u d x, possibly empty; the shape list possibly empty).
Output: `ok rank=<r> dim=<d>` or `err <ExceptionName>` (Model/LieValidate.lean).
-/
import AurelVerif.Model.LieValidate
open AurelVerif.LieValidate

def step (line : String) : String :=
  let l := (line.trimAscii.toString)
  match l.splitOn "|" with
  | [ix, sh] =>
    let shape := if sh.isEmpty then [] else (sh.splitOn ",").map (fun t => t.toNat?.getD 0)
    (validate ix.toList shape).show
  | _ => "bad-op"

partial def loop (h : IO.FS.Stream) : IO Unit := do
  let line ← h.getLine
  if line.isEmpty then return ()
  IO.println (step line)
  loop h

def main : IO Unit := do loop (← IO.getStdin)
