/-
Driver for C02: prints what the Lean analysis claims about the generated alias IR.
  line 1:            `check <true|false>`            (= aliasCheck program)
  then per function: `fn <index> <name> ok=<b> mutA=[..] mutC=[..] retOwn=[..] retReach=[..] esc=[..] fnOK=<b>`
Atoms: 0 = anything that existed before the call; 2i+1 = the object passed as parameter i
itself; 2i+2 = anything reachable from parameter i.
tools/py2lean/aliasir.py turns the table into Gen/AliasSumm.lean (a certificate the kernel
re-checks); tools/props/C02.py compares these claims with what the real code does.
-/
import AurelVerif.Model.Heap
import AurelVerif.Gen.AliasIR
open AurelVerif.Heap AurelVerif.Gen.AliasIR

def main : IO Unit := do
  let S := program.summaries
  IO.println s!"check {checkWith program S}"
  let mut i := 0
  for fn in program.fns do
    let sm := getE Summ.bot S i
    let nm := fnNames.getD i "?"
    IO.println s!"fn {i} {nm} ok={sm.ok} mutA={sm.mutA} mutC={sm.mutC} retOwn={sm.retOwn} retReach={sm.retReach} esc={sm.esc} fnOK={fnOK fn sm}"
    i := i + 1
