/-
Line-protocol driver for the linear-interpolation part of C20 (Model/Interp.lean).
Rationals are `num/den` (or `num`), lists are comma separated.
  interp3 <gx>|<gy>|<gz>|<values flattened C-order>|<x> <y> <z>
        -> ok <num/den>                     value of interp3 at (x, y, z)
  find <g>|<x>            -> ok <i> <t num/den>   interval index and norm_distance (prev_interval = 0)
  findfrom <prev> <g>|<x> -> ok <i> <t num/den>   same with the starting hint `prev`
  interp1 <g>|<values>|<x> -> ok <num/den>
  weights3 <gx>|<gy>|<gz>|<x> <y> <z> -> ok i:j:k:w,... (8 vertices in loop order)
Grids must be strictly ascending with at least 2 nodes (else `bad-grid`);
the number of values must be the product of the grid lengths (else `bad-values`).
-/
import AurelVerif.Model.Interp
open AurelVerif.Interp

def ratStr (q : Rat) : String := s!"{q.num}/{q.den}"

def parseRat (t : String) : Option Rat :=
  match t.splitOn "/" with
  | [n] => n.toInt?.map fun (i : Int) => (i : Rat)
  | [n, d] =>
    match n.toInt?, d.toNat? with
    | some i, some k => if k = 0 then none else some ((i : Rat) / (k : Rat))
    | _, _ => none
  | _ => none

def parseList (t : String) : Option (List Rat) := (t.splitOn ",").mapM parseRat

def ascending : List Rat → Bool
  | a :: b :: r => a < b && ascending (b :: r)
  | _ => true

def goodGrid (g : List Rat) : Bool := 2 ≤ g.length && ascending g

/-- split `head rest…` at the first blank -/
def splitOp (line : String) : String × String :=
  match line.splitOn " " with
  | [] => ("", "")
  | op :: rest => (op, " ".intercalate rest)

def step (line : String) : String :=
  let (op, arg) := splitOp line.trimAscii.toString
  match op with
  | "interp3" =>
    match arg.splitOn "|" with
    | [gx, gy, gz, vs, pt] =>
      match parseList gx, parseList gy, parseList gz, parseList vs, (pt.splitOn " ").mapM parseRat with
      | some gx, some gy, some gz, some vs, some [x, y, z] =>
        if !(goodGrid gx && goodGrid gy && goodGrid gz) then "bad-grid"
        else if vs.length ≠ gx.length * gy.length * gz.length then "bad-values"
        else s!"ok {ratStr (interp3 gx gy gz (flatVal gy.length gz.length vs) x y z)}"
      | _, _, _, _, _ => "bad-op"
    | _ => "bad-op"
  | "weights3" =>
    match arg.splitOn "|" with
    | [gx, gy, gz, pt] =>
      match parseList gx, parseList gy, parseList gz, (pt.splitOn " ").mapM parseRat with
      | some gx, some gy, some gz, some [x, y, z] =>
        if !(goodGrid gx && goodGrid gy && goodGrid gz) then "bad-grid"
        else
          let cs := corners3 gx gy gz x y z
          let ws := weights3 gx gy gz x y z
          "ok " ++ ",".intercalate ((cs.zip ws).map fun (c, w) => s!"{c.1}:{c.2.1}:{c.2.2}:{ratStr w}")
      | _, _, _, _ => "bad-op"
    | _ => "bad-op"
  | "interp1" =>
    match arg.splitOn "|" with
    | [g, vs, x] =>
      match parseList g, parseList vs, parseRat x with
      | some g, some vs, some x =>
        if !(goodGrid g) then "bad-grid"
        else if vs.length ≠ g.length then "bad-values"
        else s!"ok {ratStr (interp1 g (fun i => vs.getD i 0) x)}"
      | _, _, _ => "bad-op"
    | _ => "bad-op"
  | "find" =>
    match arg.splitOn "|" with
    | [g, x] =>
      match parseList g, parseRat x with
      | some g, some x =>
        if !(goodGrid g) then "bad-grid"
        else
          let i := findInterval g x
          s!"ok {i} {ratStr (normDist g i x)}"
      | _, _ => "bad-op"
    | _ => "bad-op"
  | "findfrom" =>
    match arg.splitOn " " with
    | [prev, rest] =>
      match prev.toNat?, rest.splitOn "|" with
      | some prev, [g, x] =>
        match parseList g, parseRat x with
        | some g, some x =>
          if !(goodGrid g) then "bad-grid"
          else
            let i := findIntervalFrom prev g x
            s!"ok {i} {ratStr (normDist g i x)}"
        | _, _ => "bad-op"
      | _, _ => "bad-op"
    | _ => "bad-op"
  | _ => "bad-op"

partial def loop (h : IO.FS.Stream) : IO Unit := do
  let line ← h.getLine
  if line.isEmpty then return ()
  IO.println (step line)
  loop h

def main : IO Unit := do loop (← IO.getStdin)
