/-
Lemmas/C07AccuracySplice.lean — the truncation-error theorem instantiated on the twelve
generated tables (explicit constants, kernel-evaluated) and lifted through the splice model:
every row of the one-sided, periodic and symmetric modes is within `C·M·|h|^p` of the
derivative at its own grid point.
-/
import Mathlib.Algebra.Ring.Periodic
import AurelVerif.Lemmas.C07Accuracy
import AurelVerif.Lemmas.SpliceLemmas

namespace AurelVerif.C07Accuracy
open Set AurelVerif.Splice AurelVerif.StencilLemmas AurelVerif.SpliceLemmas AurelVerif.C07Taylor
  AurelVerif.Gen.Stencils

/-! ### the constants of the generated tables -/

/-- the three stencils a scheme dispatches to. -/
def schemeStencils (s : Scheme) : List Stencil := [s.fwd, s.cen, s.bwd]

theorem errConst_table :
    errConst fd2_forward 2 = 1 ∧ errConst fd2_centered 2 = 1 / 6 ∧ errConst fd2_backward 2 = 1 ∧
    errConst fd4_forward 4 = 17 / 3 ∧ errConst fd4_centered 4 = 1 / 18 ∧ errConst fd4_backward 4 = 17 / 3 ∧
    errConst fd6_forward 6 = 647 / 15 ∧ errConst fd6_centered 6 = 47 / 2100 ∧ errConst fd6_backward 6 = 647 / 15 ∧
    errConst fd8_forward 8 = 118717 / 315 ∧ errConst fd8_centered 8 = 1957 / 198450 ∧
    errConst fd8_backward 8 = 118717 / 315 := by
  decide +kernel

theorem schemeErrConst_table :
    schemeErrConst (scheme 2) 2 = 1 ∧ schemeErrConst (scheme 4) 4 = 17 / 3 ∧
    schemeErrConst (scheme 6) 6 = 647 / 15 ∧ schemeErrConst (scheme 8) 8 = 118717 / 315 := by
  decide +kernel

theorem qmax_le_left (a b : ℚ) : a ≤ qmax a b := by
  unfold qmax; split_ifs with h
  · exact h
  · exact le_refl a

theorem qmax_le_right (a b : ℚ) : b ≤ qmax a b := by
  unfold qmax; split_ifs with h
  · exact le_refl b
  · exact le_of_lt (not_le.mp h)

theorem errConst_le_scheme (s : Scheme) (p : ℕ) (st : Stencil) (hst : st ∈ schemeStencils s) :
    errConst st p ≤ schemeErrConst s p := by
  unfold schemeStencils at hst
  unfold schemeErrConst
  simp only [List.mem_cons, List.not_mem_nil, or_false] at hst
  rcases hst with rfl | rfl | rfl
  · exact qmax_le_left _ _
  · exact le_trans (qmax_le_left _ _) (qmax_le_right _ _)
  · exact le_trans (qmax_le_right _ _) (qmax_le_right _ _)

theorem pickOnesided_mem (s : Scheme) (N i : ℕ) : pickOnesided s N i ∈ schemeStencils s := by
  unfold pickOnesided schemeStencils
  split_ifs <;> simp

theorem one_le_of_mem_orders (o : ℕ) (ho : o ∈ orders) : 1 ≤ o := by
  simp only [orders, List.mem_cons, List.not_mem_nil, or_false] at ho
  omega

theorem moments_of_mem (o : ℕ) (ho : o ∈ orders) (st : Stencil) (hst : st ∈ schemeStencils (scheme o)) :
    momentsOK st o = true := by
  obtain ⟨_, hmf, hmc, hmb⟩ := schemeOK_iff _ _ (scheme_tables_ok o ho)
  unfold schemeStencils at hst
  simp only [List.mem_cons, List.not_mem_nil, or_false] at hst
  rcases hst with rfl | rfl | rfl
  · exact hmf
  · exact hmc
  · exact hmb

/-- **all twelve generated tables**: the truncation bound with the table's own constant. -/
theorem table_truncation (o : ℕ) (ho : o ∈ orders) (st : Stencil) (hst : st ∈ schemeStencils (scheme o))
    (F : ℕ → ℝ → ℝ) (a b M : ℝ) (hF : DerivChain F o (Icc a b))
    (hM : ∀ t ∈ Icc a b, |F (o + 1) t| ≤ M)
    (x h : ℝ) (hh : h ≠ 0) (hx : x ∈ Icc a b) (hk : ∀ kc ∈ st, x + (kc.1 : ℝ) * h ∈ Icc a b) :
    |evalSt st (fun k => F 0 (x + (k : ℝ) * h)) * h⁻¹ - F 1 x|
      ≤ ((errConst st o : ℚ) : ℝ) * M * |h| ^ o :=
  truncation_of_moments st o (one_le_of_mem_orders o ho) (moments_of_mem o ho st hst) F a b M hF hM x h hh hx hk

/-! ### rows of the splice model evaluated on samples -/

/-- value of a row built by `mapM` from a look-up `φ`, when every successful look-up
returns the value `g` at the offset. -/
theorem evalLin_mapM {K : Type} [Field K] (st : Stencil) (φ : Int × Rat → Option K) (g : Int → K)
    (hφ : ∀ kc ∈ st, ∀ a, φ kc = some a → a = g kc.1) (row : Lin K)
    (h : st.mapM (fun kc => (φ kc).map (fun a => (kc.2, a))) = some row) :
    evalLin row = evalSt st g := by
  induction st generalizing row with
  | nil =>
    simp at h
    subst h; rfl
  | cons kc st ih =>
    rw [mapM_cons_opt] at h
    cases hget : φ kc with
    | none => rw [hget] at h; simp at h
    | some a =>
      rw [hget] at h
      cases hr : st.mapM (fun kc => (φ kc).map (fun a => (kc.2, a))) with
      | none => rw [hr] at h; simp at h
      | some rest =>
        rw [hr] at h
        simp at h
        subst h
        rw [evalLin_cons, evalSt_cons, ih (fun x hx => hφ x (List.mem_cons_of_mem _ hx)) rest hr,
          hφ kc (List.mem_cons_self ..) a hget]

theorem getElem?_range_map {K : Type} (G : ℕ → K) (N j : ℕ) (a : K)
    (h : ((List.range N).map G)[j]? = some a) : a = G j := by
  rw [List.getElem?_map] at h
  cases hrg : (List.range N)[j]? with
  | none => rw [hrg] at h; simp at h
  | some j' =>
    rw [hrg] at h
    simp at h
    rw [List.getElem?_eq_some_iff] at hrg
    obtain ⟨_, hj⟩ := hrg
    rw [List.getElem_range] at hj
    rw [← h, hj]

theorem cast_toNat_add (i : ℕ) (k : ℤ) (hk : 0 ≤ (i : ℤ) + k) :
    ((((i : ℤ) + k).toNat : ℕ) : ℝ) = (i : ℝ) + (k : ℝ) := by
  have h1 : ((((i : ℤ) + k).toNat : ℕ) : ℤ) = (i : ℤ) + k := Int.toNat_of_nonneg hk
  have h2 : ((((((i : ℤ) + k).toNat : ℕ) : ℤ)) : ℝ) = (((i : ℤ) + k : ℤ) : ℝ) := by rw [h1]
  rw [Int.cast_natCast, Int.cast_add, Int.cast_natCast] at h2
  exact h2

/-- **one-sided ('no boundary') mode, every grid point**: with the sharp per-point constant
(the constant of the stencil that the point uses). -/
theorem onesided_accurate_lemma (o : ℕ) (ho : o ∈ orders) (N : ℕ) (hN : 3 * (scheme o).maskLen ≤ N)
    (F : ℕ → ℝ → ℝ) (a b M : ℝ) (hF : DerivChain F o (Icc a b))
    (hM : ∀ t ∈ Icc a b, |F (o + 1) t| ≤ M)
    (x₀ h : ℝ) (hh : h ≠ 0) (hgrid : ∀ j : ℕ, j < N → x₀ + (j : ℝ) * h ∈ Icc a b) :
    ∃ rows, d3Onesided (scheme o) ((List.range N).map fun (j : ℕ) => F 0 (x₀ + (j : ℝ) * h)) N = some rows
      ∧ rows.length = N
      ∧ ∀ i (hi : i < rows.length), |evalLin (rows[i]) * h⁻¹ - F 1 (x₀ + (i : ℝ) * h)|
          ≤ ((errConst (pickOnesided (scheme o) N i) o : ℚ) : ℝ) * M * |h| ^ o := by
  obtain ⟨hshape, _, _, _⟩ := schemeOK_iff _ _ (scheme_tables_ok o ho)
  obtain ⟨hspec, hsome⟩ := onesided_spec_aux (scheme o) o hshape
    ((List.range N).map fun (j : ℕ) => F 0 (x₀ + (j : ℝ) * h)) N (by simp) hN
  have hall : ((List.range N).mapM (fun i => directRow (pickOnesided (scheme o) N i)
      ((List.range N).map fun (j : ℕ) => F 0 (x₀ + (j : ℝ) * h)) i)).isSome := by
    apply mapM_isSome_opt
    intro i hi
    exact hsome i (List.mem_range.mp hi)
  obtain ⟨rows, hrows⟩ := Option.isSome_iff_exists.mp hall
  have hlen : rows.length = N := by
    rw [mapM_length_opt _ _ _ hrows, List.length_range]
  refine ⟨rows, by rw [hspec, hrows], hlen, ?_⟩
  intro i hi
  have hiN : i < N := by omega
  have hrow := mapM_getElem_opt _ _ _ hrows i hi (by simpa using hiN)
  rw [List.getElem_range] at hrow
  have heval := evalLin_directRow (pickOnesided (scheme o) N i)
    (fun (j : ℕ) => F 0 (x₀ + (j : ℝ) * h)) N i
    (fun k => F 0 ((x₀ + (i : ℝ) * h) + (k : ℝ) * h))
    (by
      intro k hk
      show F 0 ((x₀ + (i : ℝ) * h) + (k : ℝ) * h) = F 0 (x₀ + ((((i : ℤ) + k).toNat : ℕ) : ℝ) * h)
      rw [cast_toNat_add i k hk]; ring_nf)
    rows[i] hrow
  rw [heval]
  have hreads := pickOnesided_reads (scheme o) o hshape
    ((List.range N).map fun (j : ℕ) => F 0 (x₀ + (j : ℝ) * h)) N (by simp) hN i hiN
  refine table_truncation o ho _ (pickOnesided_mem _ N i) F a b M hF hM _ h hh (hgrid i hiN) ?_
  intro kc hkc
  obtain ⟨h0, h1⟩ := hreads kc hkc
  have hlt : ((i : ℤ) + kc.1).toNat < N := by
    simp only [List.length_map, List.length_range] at h1
    omega
  have := hgrid _ hlt
  rw [cast_toNat_add i kc.1 h0] at this
  have he : x₀ + (i : ℝ) * h + (kc.1 : ℝ) * h = x₀ + ((i : ℝ) + (kc.1 : ℝ)) * h := by ring
  rw [he]; exact this

/-- **periodic mode, every grid point**, for a field of period `N·h`. -/
theorem periodic_accurate_lemma (o : ℕ) (ho : o ∈ orders) (N : ℕ) (hN : (scheme o).maskLen ≤ N)
    (F : ℕ → ℝ → ℝ) (a b M : ℝ) (hF : DerivChain F o (Icc a b))
    (hM : ∀ t ∈ Icc a b, |F (o + 1) t| ≤ M)
    (x₀ h : ℝ) (hh : h ≠ 0) (hper : Function.Periodic (F 0) ((N : ℝ) * h))
    (hgrid : ∀ j : ℤ, -((scheme o).maskLen : ℤ) ≤ j → j < (N : ℤ) + (scheme o).maskLen →
      x₀ + (j : ℝ) * h ∈ Icc a b) :
    ∃ rows, d3Periodic (scheme o) ((List.range N).map fun (j : ℕ) => F 0 (x₀ + (j : ℝ) * h)) N = some rows
      ∧ rows.length = N
      ∧ ∀ i (hi : i < rows.length), |evalLin (rows[i]) * h⁻¹ - F 1 (x₀ + (i : ℝ) * h)|
          ≤ ((errConst (scheme o).cen o : ℚ) : ℝ) * M * |h| ^ o := by
  obtain ⟨hshape, _, _, _⟩ := schemeOK_iff _ _ (scheme_tables_ok o ho)
  obtain ⟨hp2, _, _, hcen⟩ := shapesOK_iff _ _ hshape
  have hm1 : 1 ≤ (scheme o).maskLen := by
    have := one_le_of_mem_orders o ho
    omega
  obtain ⟨hspec, hsome⟩ := periodic_spec_aux (scheme o) o hshape
    ((List.range N).map fun (j : ℕ) => F 0 (x₀ + (j : ℝ) * h)) N (by simp) hm1 hN
  have hall : ((List.range N).mapM (fun i => wrapRow (scheme o).cen
      ((List.range N).map fun (j : ℕ) => F 0 (x₀ + (j : ℝ) * h)) N i)).isSome := by
    apply mapM_isSome_opt
    intro i hi
    exact hsome i (List.mem_range.mp hi)
  obtain ⟨rows, hrows⟩ := Option.isSome_iff_exists.mp hall
  have hlen : rows.length = N := by
    rw [mapM_length_opt _ _ _ hrows, List.length_range]
  refine ⟨rows, by rw [hspec, hrows], hlen, ?_⟩
  intro i hi
  have hiN : i < N := by omega
  have hNpos : (0 : ℤ) < (N : ℤ) := by omega
  have hrow := mapM_getElem_opt _ _ _ hrows i hi (by simpa using hiN)
  rw [List.getElem_range] at hrow
  have heval : evalLin rows[i] = evalSt (scheme o).cen (fun k => F 0 ((x₀ + (i : ℝ) * h) + (k : ℝ) * h)) := by
    unfold wrapRow at hrow
    refine evalLin_mapM (scheme o).cen _ _ ?_ rows[i] hrow
    intro kc _ v hv
    have hv' := getElem?_range_map (fun (j : ℕ) => F 0 (x₀ + (j : ℝ) * h)) N _ v hv
    rw [hv']
    have hnn : 0 ≤ ((i : ℤ) + kc.1) % (N : ℤ) := Int.emod_nonneg _ (by omega)
    have hc : ((((((i : ℤ) + kc.1) % (N : ℤ)).toNat : ℕ) : ℤ) : ℝ) = ((((i : ℤ) + kc.1) % (N : ℤ) : ℤ) : ℝ) := by
      rw [Int.toNat_of_nonneg hnn]
    rw [Int.cast_natCast] at hc
    show F 0 (x₀ + ((((i : ℤ) + kc.1) % (N : ℤ)).toNat : ℝ) * h) = F 0 (x₀ + (i : ℝ) * h + (kc.1 : ℝ) * h)
    rw [hc, Int.emod_def]
    push_cast
    have := hper.sub_int_mul_eq (x := x₀ + (i : ℝ) * h + (kc.1 : ℝ) * h) (((i : ℤ) + kc.1) / (N : ℤ))
    rw [← this]
    congr 1
    ring
  rw [heval]
  have hst : (scheme o).cen ∈ schemeStencils (scheme o) := by simp [schemeStencils]
  have hxi : x₀ + (i : ℝ) * h ∈ Icc a b := by
    have := hgrid (i : ℤ) (by omega) (by omega)
    simpa using this
  refine table_truncation o ho _ hst F a b M hF hM _ h hh hxi ?_
  intro kc hkc
  have hb := hcen kc hkc
  have := hgrid ((i : ℤ) + kc.1) (by omega) (by omega)
  have he : x₀ + (i : ℝ) * h + (kc.1 : ℝ) * h = x₀ + (((i : ℤ) + kc.1 : ℤ) : ℝ) * h := by
    push_cast; ring
  rw [he]; exact this

/-- **symmetric mode, every grid point**, for a field that is even about the first and
about the last grid point. -/
theorem symmetric_accurate_lemma (o : ℕ) (ho : o ∈ orders) (N : ℕ) (hN : (scheme o).maskLen + 1 ≤ N)
    (F : ℕ → ℝ → ℝ) (a b M : ℝ) (hF : DerivChain F o (Icc a b))
    (hM : ∀ t ∈ Icc a b, |F (o + 1) t| ≤ M)
    (x₀ h : ℝ) (hh : h ≠ 0)
    (hsym0 : ∀ t, F 0 (x₀ - t) = F 0 (x₀ + t))
    (hsymN : ∀ t, F 0 (x₀ + ((N : ℝ) - 1) * h + t) = F 0 (x₀ + ((N : ℝ) - 1) * h - t))
    (hgrid : ∀ j : ℤ, -((scheme o).maskLen : ℤ) ≤ j → j < (N : ℤ) + (scheme o).maskLen →
      x₀ + (j : ℝ) * h ∈ Icc a b) :
    ∃ rows, d3Symmetric (scheme o) ((List.range N).map fun (j : ℕ) => F 0 (x₀ + (j : ℝ) * h)) N = some rows
      ∧ rows.length = N
      ∧ ∀ i (hi : i < rows.length), |evalLin (rows[i]) * h⁻¹ - F 1 (x₀ + (i : ℝ) * h)|
          ≤ ((errConst (scheme o).cen o : ℚ) : ℝ) * M * |h| ^ o := by
  obtain ⟨hshape, _, _, _⟩ := schemeOK_iff _ _ (scheme_tables_ok o ho)
  obtain ⟨hp2, _, _, hcen⟩ := shapesOK_iff _ _ hshape
  have hm1 : 1 ≤ (scheme o).maskLen := by
    have := one_le_of_mem_orders o ho
    omega
  obtain ⟨hspec, hsome⟩ := symmetric_spec_aux (scheme o) o hshape
    ((List.range N).map fun (j : ℕ) => F 0 (x₀ + (j : ℝ) * h)) N (by simp) hm1 hN
  have hall : ((List.range N).mapM (fun i => reflRow (scheme o).cen
      ((List.range N).map fun (j : ℕ) => F 0 (x₀ + (j : ℝ) * h)) N i)).isSome := by
    apply mapM_isSome_opt
    intro i hi
    exact hsome i (List.mem_range.mp hi)
  obtain ⟨rows, hrows⟩ := Option.isSome_iff_exists.mp hall
  have hlen : rows.length = N := by
    rw [mapM_length_opt _ _ _ hrows, List.length_range]
  refine ⟨rows, by rw [hspec, hrows], hlen, ?_⟩
  intro i hi
  have hiN : i < N := by omega
  have hrow := mapM_getElem_opt _ _ _ hrows i hi (by simpa using hiN)
  rw [List.getElem_range] at hrow
  have heval : evalLin rows[i] = evalSt (scheme o).cen (fun k => F 0 ((x₀ + (i : ℝ) * h) + (k : ℝ) * h)) := by
    have hrow' : (scheme o).cen.mapM (fun kc =>
        (if 0 ≤ refl N ((i : ℤ) + kc.1) then
          ((List.range N).map fun (j : ℕ) => F 0 (x₀ + (j : ℝ) * h))[(refl N ((i : ℤ) + kc.1)).toNat]?
         else none).map (fun v => (kc.2, v))) = some rows[i] := by
      rw [← hrow]
      unfold reflRow
      apply mapM_congr_opt
      intro kc _
      simp only []
      split_ifs <;> rfl
    refine evalLin_mapM (scheme o).cen _ _ ?_ rows[i] hrow'
    intro kc hkc v hv
    have hb := hcen kc hkc
    by_cases hnn : 0 ≤ refl N ((i : ℤ) + kc.1)
    · rw [if_pos hnn] at hv
      have hv' := getElem?_range_map (fun (j : ℕ) => F 0 (x₀ + (j : ℝ) * h)) N _ v hv
      rw [hv']
      have hc : (((((refl N ((i : ℤ) + kc.1)).toNat : ℕ) : ℤ)) : ℝ) = ((refl N ((i : ℤ) + kc.1) : ℤ) : ℝ) := by
        rw [Int.toNat_of_nonneg hnn]
      rw [Int.cast_natCast] at hc
      show F 0 (x₀ + (((refl N ((i : ℤ) + kc.1)).toNat : ℕ) : ℝ) * h) = F 0 (x₀ + (i : ℝ) * h + (kc.1 : ℝ) * h)
      rw [hc]
      unfold SpliceLemmas.refl
      split_ifs with c1 c2
      · have := hsym0 ((((i : ℤ) + kc.1 : ℤ) : ℝ) * h)
        rw [show x₀ + (i : ℝ) * h + (kc.1 : ℝ) * h = x₀ + (((i : ℤ) + kc.1 : ℤ) : ℝ) * h by push_cast; ring,
          ← this]
        congr 1; push_cast; ring
      · have := hsymN (((((i : ℤ) + kc.1 : ℤ) : ℝ) - ((N : ℝ) - 1)) * h)
        rw [show x₀ + (i : ℝ) * h + (kc.1 : ℝ) * h
            = x₀ + ((N : ℝ) - 1) * h + ((((i : ℤ) + kc.1 : ℤ) : ℝ) - ((N : ℝ) - 1)) * h by push_cast; ring,
          this]
        congr 1; push_cast; ring
      · congr 1; push_cast; ring
    · rw [if_neg hnn] at hv; simp at hv
  rw [heval]
  have hst : (scheme o).cen ∈ schemeStencils (scheme o) := by simp [schemeStencils]
  have hxi : x₀ + (i : ℝ) * h ∈ Icc a b := by
    have := hgrid (i : ℤ) (by omega) (by omega)
    simpa using this
  refine table_truncation o ho _ hst F a b M hF hM _ h hh hxi ?_
  intro kc hkc
  have hb := hcen kc hkc
  have := hgrid ((i : ℤ) + kc.1) (by omega) (by omega)
  have he : x₀ + (i : ℝ) * h + (kc.1 : ℝ) * h = x₀ + (((i : ℤ) + kc.1 : ℤ) : ℝ) * h := by
    push_cast; ring
  rw [he]; exact this

/-! ### concrete smoothness classes -/

theorem maskLen_pos (o : ℕ) (ho : o ∈ orders) : 1 ≤ (scheme o).maskLen := by
  obtain ⟨hshape, _, _, _⟩ := schemeOK_iff _ _ (scheme_tables_ok o ho)
  obtain ⟨hp2, _, _, _⟩ := shapesOK_iff _ _ hshape
  have := one_le_of_mem_orders o ho
  omega

/-- one-sided mode for `f ∈ C^(o+1)` on the interval spanned by the grid, `h > 0`, with ONE
constant for all grid points. -/
theorem onesided_accurate_contDiffOn_lemma (o : ℕ) (ho : o ∈ orders) (N : ℕ)
    (hN : 3 * (scheme o).maskLen ≤ N) (f : ℝ → ℝ) (x₀ h M : ℝ) (hh : 0 < h)
    (hf : ContDiffOn ℝ ((o + 1 : ℕ)) f (Icc x₀ (x₀ + ((N : ℝ) - 1) * h)))
    (hM : ∀ t ∈ Icc x₀ (x₀ + ((N : ℝ) - 1) * h),
      |iteratedDerivWithin (o + 1) f (Icc x₀ (x₀ + ((N : ℝ) - 1) * h)) t| ≤ M) :
    ∃ rows, d3Onesided (scheme o) ((List.range N).map fun (j : ℕ) => f (x₀ + (j : ℝ) * h)) N = some rows
      ∧ rows.length = N
      ∧ ∀ i (hi : i < rows.length),
          |evalLin (rows[i]) * h⁻¹ - derivWithin f (Icc x₀ (x₀ + ((N : ℝ) - 1) * h)) (x₀ + (i : ℝ) * h)|
          ≤ ((schemeErrConst (scheme o) o : ℚ) : ℝ) * M * h ^ o := by
  have hm := maskLen_pos o ho
  have hN3 : (3 : ℝ) ≤ (N : ℝ) := by exact_mod_cast (by omega : 3 ≤ N)
  have hab : x₀ < x₀ + ((N : ℝ) - 1) * h := by nlinarith
  have hgrid : ∀ j : ℕ, j < N → x₀ + (j : ℝ) * h ∈ Icc x₀ (x₀ + ((N : ℝ) - 1) * h) := by
    intro j hj
    have h1 : (j : ℝ) + 1 ≤ (N : ℝ) := by exact_mod_cast hj
    have h0 : (0 : ℝ) ≤ (j : ℝ) := Nat.cast_nonneg j
    constructor <;> nlinarith
  have hM0 : 0 ≤ M := le_trans (abs_nonneg _) (hM x₀ ⟨le_refl _, le_of_lt hab⟩)
  obtain ⟨rows, h1, h2, h3⟩ := onesided_accurate_lemma o ho N hN
    (fun j => iteratedDerivWithin j f (Icc x₀ (x₀ + ((N : ℝ) - 1) * h))) _ _ M
    (derivChain_of_contDiffOn hab hf) hM x₀ h (ne_of_gt hh) hgrid
  simp only [iteratedDerivWithin_zero, iteratedDerivWithin_one] at h1 h3
  refine ⟨rows, h1, h2, ?_⟩
  intro i hi
  have hC : ((errConst (pickOnesided (scheme o) N i) o : ℚ) : ℝ) ≤ ((schemeErrConst (scheme o) o : ℚ) : ℝ) := by
    exact_mod_cast errConst_le_scheme (scheme o) o _ (pickOnesided_mem _ N i)
  have hpow : 0 ≤ h ^ o := pow_nonneg (le_of_lt hh) o
  calc _ ≤ ((errConst (pickOnesided (scheme o) N i) o : ℚ) : ℝ) * M * |h| ^ o := h3 i hi
    _ = ((errConst (pickOnesided (scheme o) N i) o : ℚ) : ℝ) * M * h ^ o := by rw [abs_of_pos hh]
    _ ≤ _ := by gcongr

/-- periodic mode for a globally `C^(o+1)` field of period `N·h` with `|f^(o+1)| ≤ M`. -/
theorem periodic_accurate_contDiff_lemma (o : ℕ) (ho : o ∈ orders) (N : ℕ)
    (hN : (scheme o).maskLen ≤ N) (f : ℝ → ℝ) (x₀ h M : ℝ) (hh : h ≠ 0)
    (hf : ContDiff ℝ ((o + 1 : ℕ)) f) (hper : Function.Periodic f ((N : ℝ) * h))
    (hM : ∀ t, |iteratedDeriv (o + 1) f t| ≤ M) :
    ∃ rows, d3Periodic (scheme o) ((List.range N).map fun (j : ℕ) => f (x₀ + (j : ℝ) * h)) N = some rows
      ∧ rows.length = N
      ∧ ∀ i (hi : i < rows.length), |evalLin (rows[i]) * h⁻¹ - deriv f (x₀ + (i : ℝ) * h)|
          ≤ ((errConst (scheme o).cen o : ℚ) : ℝ) * M * |h| ^ o := by
  set m := (scheme o).maskLen with hmdef
  set W : ℝ := ((N : ℝ) + (m : ℝ)) * |h| with hW
  have hgrid : ∀ j : ℤ, -(m : ℤ) ≤ j → j < (N : ℤ) + m → x₀ + (j : ℝ) * h ∈ Icc (x₀ - W) (x₀ + W) := by
    intro j h1 h2
    have hj : |(j : ℝ)| ≤ (N : ℝ) + (m : ℝ) := by
      rw [abs_le]
      have h1' : (-(m : ℤ) : ℝ) ≤ (j : ℝ) := by exact_mod_cast h1
      have h2' : (j : ℝ) ≤ ((N : ℤ) + (m : ℤ) : ℝ) := by exact_mod_cast le_of_lt h2
      have hN0 : (0 : ℝ) ≤ (N : ℝ) := Nat.cast_nonneg N
      push_cast at h1' h2'
      constructor <;> linarith
    have habs : |(j : ℝ) * h| ≤ W := by
      rw [abs_mul, hW]
      exact mul_le_mul_of_nonneg_right hj (abs_nonneg h)
    rw [abs_le] at habs
    constructor <;> linarith [habs.1, habs.2]
  have := periodic_accurate_lemma o ho N hN (fun j => iteratedDeriv j f) (x₀ - W) (x₀ + W) M
    (derivChain_of_contDiff hf _) (fun t _ => hM t) x₀ h hh
    (by simpa only [iteratedDeriv_zero] using hper) hgrid
  simpa only [iteratedDeriv_zero, iteratedDeriv_one] using this

end AurelVerif.C07Accuracy
