/-
Lemmas/Grid.lean — helper lemmas and proofs for C16 (grid).

Part 1 (discrete, over `Rat` / lists): coordinate arrays, `np.argmin`,
`f[m:-m]` slices for ranks 1-3, meshgrid and pointwise shapes, the
constructor `mkGrid`, the excision slice.
Part 2: the constructor `mkGrid`, the excision slice.
Part 3 (over ℝ): the real-valued model of `cartesian_to_spherical` /
`spherical_to_cartesian` (written after finitedifference.py 464-510; numpy's
`arctan2(b, a)` = `Complex.arg ⟨a, b⟩`), the round trip, the ranges, and the
link to the discrete descriptor `sphPt` of Model/Grid.lean.
-/
import Mathlib.Algebra.Order.Field.Rat
import Mathlib.Algebra.Order.Ring.Abs
import Mathlib.Analysis.SpecialFunctions.Complex.Arg
import Mathlib.Data.Real.Sign
import Mathlib.Tactic.Ring
import Mathlib.Tactic.FieldSimp
import Mathlib.Tactic.Linarith
import Mathlib.Tactic.Positivity
import AurelVerif.Model.Grid

namespace AurelVerif.GridLemmas
open AurelVerif.Splice AurelVerif.Grid

/-! ### T1: coordinate arrays -/

theorem coords_length (N : Nat) (mn d : Rat) : (coords N mn d).length = N := by
  simp [coords]

theorem coords_getElem? (N : Nat) (mn d : Rat) (i : Nat) (h : i < N) :
    (coords N mn d)[i]? = some (mn + (i : Rat) * d) := by
  simp [coords, coord, h]

theorem pyGet_neg_one (l : List α) (h : 1 ≤ l.length) : pyGet l (-1) = l[l.length - 1]? := by
  unfold pyGet pyIdx
  have h1 : ¬ (0 : Int) ≤ -1 := by omega
  have h2 : -(l.length : Int) ≤ -1 := by omega
  simp only [h1, h2, if_true, if_false]
  congr 1
  omega

theorem last_coords (N : Nat) (mn d : Rat) (hN : 1 ≤ N) :
    last (coords N mn d) = some (mn + ((N - 1 : Nat) : Rat) * d) := by
  unfold last
  rw [pyGet_neg_one _ (by rw [coords_length]; exact hN), coords_length]
  exact coords_getElem? N mn d (N - 1) (by omega)

theorem last_coords_none (mn d : Rat) : last (coords 0 mn d) = none := by
  simp [last, coords, pyGet, pyIdx]

theorem coord_strictMono (mn d : Rat) (hd : 0 < d) (i j : Nat) (h : i < j) :
    coord mn d i < coord mn d j := by
  unfold coord
  have : (i : Rat) < (j : Rat) := by exact_mod_cast h
  have := mul_lt_mul_of_pos_right this hd
  linarith

theorem absR_eq_abs (q : Rat) : absR q = |q| := by
  unfold absR
  split
  · next h => rw [abs_of_neg h]
  · next h => rw [abs_of_nonneg (not_lt.mp h)]

/-! ### T5: argmin -/

theorem argminFrom_spec (L : List Rat) : ∀ (rest : List Rat) (best : Rat) (bi i : Nat),
    L.drop i = rest → bi < i → i ≤ L.length → L[bi]? = some best →
    (∀ j < i, ∀ v, L[j]? = some v → best ≤ v) →
    (∀ j < bi, ∀ v, L[j]? = some v → best < v) →
    ∃ b, L[argminFrom best bi i rest]? = some b ∧
      (∀ (j : Nat) v, L[j]? = some v → b ≤ v) ∧
      (∀ j < argminFrom best bi i rest, ∀ v, L[j]? = some v → b < v) := by
  intro rest
  induction rest with
  | nil =>
    intro best bi i hdrop _ hi hb hall hfirst
    have hlen : L.length ≤ i := List.drop_eq_nil_iff.mp hdrop
    refine ⟨best, hb, ?_, hfirst⟩
    intro j v hj
    have : j < L.length := by
      rcases Nat.lt_or_ge j L.length with h | h
      · exact h
      · rw [List.getElem?_eq_none h] at hj; cases hj
    exact hall j (by omega) v hj
  | cons v rest ih =>
    intro best bi i hdrop hbi hi hb hall hfirst
    have hiv : L[i]? = some v := by
      have := congrArg (fun l => l[0]?) hdrop
      simpa using this
    have hdrop' : L.drop (i + 1) = rest := by
      have := congrArg List.tail hdrop
      simpa using this
    have hilt : i < L.length := by
      rcases Nat.lt_or_ge i L.length with h | h
      · exact h
      · rw [List.getElem?_eq_none h] at hiv; cases hiv
    unfold argminFrom
    split
    · next hlt =>
      apply ih v i (i + 1) hdrop' (by omega) (by omega) hiv
      · intro j hj w hw
        rcases Nat.lt_or_ge j i with h | h
        · exact le_of_lt (lt_of_lt_of_le hlt (hall j h w hw))
        · have : j = i := by omega
          subst this; rw [hiv] at hw; cases hw; exact le_refl _
      · intro j hj w hw
        exact lt_of_lt_of_le hlt (hall j hj w hw)
    · next hnl =>
      apply ih best bi (i + 1) hdrop' (by omega) (by omega) hb
      · intro j hj w hw
        rcases Nat.lt_or_ge j i with h | h
        · exact hall j h w hw
        · have : j = i := by omega
          subst this; rw [hiv] at hw; cases hw; exact not_lt.mp hnl
      · exact hfirst

theorem argminAbs_spec (l : List Rat) (hne : l ≠ []) :
    ∃ k, argminAbs l = some k ∧ ∃ hk : k < l.length,
      (∀ j (hj : j < l.length), |l[k]| ≤ |l[j]|) ∧
      (∀ j (hj : j < k), |l[k]| < |l[j]'(Nat.lt_trans hj hk)|) := by
  unfold argminAbs
  cases hL : l.map absR with
  | nil => simp at hL; exact absurd hL hne
  | cons v rest =>
    have hspec := argminFrom_spec (l.map absR) rest v 0 1 (by rw [hL]; rfl) (by omega)
      (by rw [hL]; simp) (by rw [hL]; rfl)
      (by intro j hj w hw; have : j = 0 := by omega
          subst this; rw [hL] at hw; simp at hw; rw [hw])
      (by intro j hj; omega)
    obtain ⟨b, hb, hall, hfirst⟩ := hspec
    refine ⟨argminFrom v 0 1 rest, rfl, ?_⟩
    have hk : argminFrom v 0 1 rest < l.length := by
      rcases Nat.lt_or_ge (argminFrom v 0 1 rest) l.length with h | h
      · exact h
      · rw [List.getElem?_eq_none (by simpa using h)] at hb; cases hb
    refine ⟨hk, ?_, ?_⟩
    · intro j hj
      have hbk : b = |l[argminFrom v 0 1 rest]| := by
        rw [List.getElem?_map, List.getElem?_eq_getElem hk] at hb
        simp at hb; rw [← hb, absR_eq_abs]
      have := hall j (|l[j]|) (by rw [List.getElem?_map, List.getElem?_eq_getElem hj]; simp [absR_eq_abs])
      rw [← hbk]; exact this
    · intro j hj
      have hbk : b = |l[argminFrom v 0 1 rest]| := by
        rw [List.getElem?_map, List.getElem?_eq_getElem hk] at hb
        simp at hb; rw [← hb, absR_eq_abs]
      have hjl : j < l.length := Nat.lt_trans hj hk
      have := hfirst j hj (|l[j]|) (by rw [List.getElem?_map, List.getElem?_eq_getElem hjl]; simp [absR_eq_abs])
      rw [← hbk]; exact this

/-! ### T4: cutoffmask -/

theorem cut1_eq (m : Nat) (hm : 1 ≤ m) (f : List α) :
    cut1 m f = (f.drop m).take (f.length - 2 * m) := by
  unfold cut1 pySlice clampBound
  have h1 : ¬ ((m : Int) < 0) := by omega
  have h2 : (-(m : Int)) < 0 := by omega
  simp only [h1, h2, if_true, if_false]
  rcases Nat.lt_or_ge f.length m with h | h
  · have h3 : ((f.length : Int) < (m : Int)) := by omega
    simp only [h3, if_true]
    rw [List.drop_of_length_le (le_refl _), List.drop_of_length_le (by omega)]
    simp
  · have h3 : ¬ ((f.length : Int) < (m : Int)) := by omega
    have h4 : ¬ (-(m : Int) + (f.length : Int) < 0) := by omega
    have h5 : ¬ ((f.length : Int) < -(m : Int) + (f.length : Int)) := by omega
    simp only [h3, h4, h5, if_false]
    congr 1
    omega

theorem cut1_length (m : Nat) (hm : 1 ≤ m) (f : List α) :
    (cut1 m f).length = f.length - 2 * m := by
  rw [cut1_eq m hm, List.length_take, List.length_drop]; omega

theorem cut1_getElem? (m : Nat) (hm : 1 ≤ m) (f : List α) (i : Nat) (hi : i < f.length - 2 * m) :
    (cut1 m f)[i]? = f[i + m]? := by
  rw [cut1_eq m hm, List.getElem?_take, if_pos hi, List.getElem?_drop, Nat.add_comm]

theorem cut1_mem (m : Nat) (hm : 1 ≤ m) (f : List α) (a : α) (h : a ∈ cut1 m f) : a ∈ f := by
  rw [cut1_eq m hm] at h
  exact List.mem_of_mem_drop (List.mem_of_mem_take h)

/-- rank 2: sizes -/
theorem cutoff2_shape (m : Nat) (hm : 1 ≤ m) (f : List (List α)) (ny : Nat)
    (hf : ∀ r ∈ f, r.length = ny) :
    (cutoff2 m f).length = f.length - 2 * m ∧ ∀ r ∈ cutoff2 m f, r.length = ny - 2 * m := by
  unfold cutoff2
  refine ⟨by rw [List.length_map, cut1_length m hm], ?_⟩
  intro r hr
  obtain ⟨r0, hr0, rfl⟩ := List.mem_map.mp hr
  rw [cut1_length m hm, hf r0 (cut1_mem m hm f r0 hr0)]

/-- rank 2: content -/
theorem cutoff2_get (m : Nat) (hm : 1 ≤ m) (f : List (List α)) (ny : Nat)
    (hf : ∀ r ∈ f, r.length = ny) (i j : Nat) (hi : i < f.length - 2 * m) (hj : j < ny - 2 * m) :
    ((cutoff2 m f)[i]?).bind (·[j]?) = (f[i + m]?).bind (·[j + m]?) := by
  unfold cutoff2
  rw [List.getElem?_map, cut1_getElem? m hm f i hi]
  have hlt : i + m < f.length := by omega
  rw [List.getElem?_eq_getElem hlt]
  simp only [Option.map_some, Option.bind_some]
  exact cut1_getElem? m hm _ j (by rw [hf _ (List.getElem_mem hlt)]; exact hj)

theorem cutoff3_shape (m : Nat) (hm : 1 ≤ m) (f : Arr3 α) (nx ny nz : Nat)
    (hf : IsShape f nx ny nz) :
    IsShape (cutoff3 m f) (nx - 2 * m) (ny - 2 * m) (nz - 2 * m) := by
  obtain ⟨h1, h2⟩ := hf
  unfold cutoff3
  refine ⟨by rw [List.length_map, cut1_length m hm, h1], ?_⟩
  intro p hp
  obtain ⟨p0, hp0, rfl⟩ := List.mem_map.mp hp
  have hp0f := cut1_mem m hm f p0 hp0
  refine ⟨by rw [List.length_map, cut1_length m hm, (h2 p0 hp0f).1], ?_⟩
  intro r hr
  obtain ⟨r0, hr0, rfl⟩ := List.mem_map.mp hr
  rw [cut1_length m hm, (h2 p0 hp0f).2 r0 (cut1_mem m hm p0 r0 hr0)]

theorem cutoff3_get (m : Nat) (hm : 1 ≤ m) (f : Arr3 α) (nx ny nz : Nat)
    (hf : IsShape f nx ny nz) (i j k : Nat)
    (hi : i < nx - 2 * m) (hj : j < ny - 2 * m) (hk : k < nz - 2 * m) :
    get3 (cutoff3 m f) i j k = get3 f (i + m) (j + m) (k + m) := by
  obtain ⟨h1, h2⟩ := hf
  unfold cutoff3 get3
  rw [List.getElem?_map, cut1_getElem? m hm f i (by rw [h1]; exact hi)]
  have hlt : i + m < f.length := by omega
  rw [List.getElem?_eq_getElem hlt]
  simp only [Option.map_some, Option.bind_some]
  have hp := h2 _ (List.getElem_mem hlt)
  rw [List.getElem?_map, cut1_getElem? m hm _ j (by rw [hp.1]; exact hj)]
  have hlt2 : j + m < f[i + m].length := by rw [hp.1]; omega
  rw [List.getElem?_eq_getElem hlt2]
  simp only [Option.map_some, Option.bind_some]
  exact cut1_getElem? m hm _ k (by rw [hp.2 _ (List.getElem_mem hlt2)]; exact hk)

/-! ### T2: meshgrid and pointwise shapes -/

theorem meshX_shape (xa : List α) (ny nz : Nat) : IsShape (meshX xa ny nz) xa.length ny nz := by
  unfold meshX IsShape
  refine ⟨by simp, ?_⟩
  intro p hp
  obtain ⟨v, _, rfl⟩ := List.mem_map.mp hp
  refine ⟨by simp, ?_⟩
  intro r hr
  rw [List.eq_of_mem_replicate hr]; simp

theorem meshY_shape (nx : Nat) (ya : List α) (nz : Nat) : IsShape (meshY nx ya nz) nx ya.length nz := by
  unfold meshY IsShape
  refine ⟨by simp, ?_⟩
  intro p hp
  rw [List.eq_of_mem_replicate hp]
  refine ⟨by simp, ?_⟩
  intro r hr
  obtain ⟨v, _, rfl⟩ := List.mem_map.mp hr
  simp

theorem meshZ_shape (nx ny : Nat) (za : List α) : IsShape (meshZ nx ny za) nx ny za.length := by
  unfold meshZ IsShape
  refine ⟨by simp, ?_⟩
  intro p hp
  rw [List.eq_of_mem_replicate hp]
  refine ⟨by simp, ?_⟩
  intro r hr
  rw [List.eq_of_mem_replicate hr]

theorem meshX_get (xa : List α) (ny nz i j k : Nat) (hj : j < ny) (hk : k < nz) :
    get3 (meshX xa ny nz) i j k = xa[i]? := by
  unfold meshX get3
  rw [List.getElem?_map]
  cases xa[i]? <;> simp [hj, hk]

theorem meshY_get (nx : Nat) (ya : List α) (nz i j k : Nat) (hi : i < nx) (hk : k < nz) :
    get3 (meshY nx ya nz) i j k = ya[j]? := by
  unfold meshY get3
  simp only [List.getElem?_replicate, hi, if_true, Option.bind_some, List.getElem?_map]
  cases ya[j]? <;> simp [hk]

theorem meshZ_get (nx ny : Nat) (za : List α) (i j k : Nat) (hi : i < nx) (hj : j < ny) :
    get3 (meshZ nx ny za) i j k = za[k]? := by
  unfold meshZ get3
  simp [hi, hj]

theorem zipWith3_getElem? (g : α → β → γ → δ) : ∀ (a : List α) (b : List β) (c : List γ) (i : Nat),
    (zipWith3 g a b c)[i]? =
      (a[i]?).bind fun x => (b[i]?).bind fun y => (c[i]?).bind fun z => some (g x y z)
  | [], _, _, i => by simp [zipWith3]
  | _ :: _, [], _, i => by
    simp only [zipWith3, List.getElem?_nil, Option.bind_none]
    cases (_ :: _ : List α)[i]? <;> rfl
  | x :: as, y :: bs, [], i => by
    simp only [zipWith3, List.getElem?_nil, Option.bind_none]
    cases (x :: as)[i]? <;> cases (y :: bs)[i]? <;> rfl
  | x :: as, y :: bs, z :: cs, 0 => by simp [zipWith3]
  | x :: as, y :: bs, z :: cs, i + 1 => by
    simp only [zipWith3, List.getElem?_cons_succ]
    exact zipWith3_getElem? g as bs cs i

theorem zipWith3_length (g : α → β → γ → δ) : ∀ (a : List α) (b : List β) (c : List γ) (n : Nat),
    a.length = n → b.length = n → c.length = n → (zipWith3 g a b c).length = n
  | [], _, _, n, ha, _, _ => by simpa [zipWith3] using ha
  | _ :: _, [], _, n, ha, hb, _ => by simp at ha hb; omega
  | _ :: _, _ :: _, [], n, ha, _, hc => by simp at ha hc; omega
  | x :: as, y :: bs, z :: cs, n, ha, hb, hc => by
    cases n with
    | zero => simp at ha
    | succ n =>
      simp only [zipWith3, List.length_cons]
      rw [zipWith3_length g as bs cs n (by simpa using ha) (by simpa using hb) (by simpa using hc)]

theorem mem_zipWith3 (g : α → β → γ → δ) : ∀ (a : List α) (b : List β) (c : List γ) (v : δ),
    v ∈ zipWith3 g a b c → ∃ x ∈ a, ∃ y ∈ b, ∃ z ∈ c, v = g x y z
  | [], _, _, v, h => by simp [zipWith3] at h
  | _ :: _, [], _, v, h => by simp [zipWith3] at h
  | _ :: _, _ :: _, [], v, h => by simp [zipWith3] at h
  | x :: as, y :: bs, z :: cs, v, h => by
    simp only [zipWith3, List.mem_cons] at h
    rcases h with h | h
    · exact ⟨x, by simp, y, by simp, z, by simp, h⟩
    · obtain ⟨x', hx, y', hy, z', hz, e⟩ := mem_zipWith3 g as bs cs v h
      exact ⟨x', by simp [hx], y', by simp [hy], z', by simp [hz], e⟩

theorem pointwise3_shape (g : α → α → α → β) (x y z : Arr3 α) (nx ny nz : Nat)
    (hx : IsShape x nx ny nz) (hy : IsShape y nx ny nz) (hz : IsShape z nx ny nz) :
    IsShape (pointwise3 g x y z) nx ny nz := by
  unfold pointwise3
  refine ⟨zipWith3_length _ x y z nx hx.1 hy.1 hz.1, ?_⟩
  intro p hp
  obtain ⟨px, hpx, py, hpy, pz, hpz, rfl⟩ := mem_zipWith3 _ x y z p hp
  refine ⟨zipWith3_length _ px py pz ny (hx.2 px hpx).1 (hy.2 py hpy).1 (hz.2 pz hpz).1, ?_⟩
  intro r hr
  obtain ⟨rx, hrx, ry, hry, rz, hrz, rfl⟩ := mem_zipWith3 _ px py pz r hr
  exact zipWith3_length _ rx ry rz nz ((hx.2 px hpx).2 rx hrx) ((hy.2 py hpy).2 ry hry)
    ((hz.2 pz hpz).2 rz hrz)

theorem pointwise3_get (g : α → α → α → β) (x y z : Arr3 α) (i j k : Nat) (a b c : α)
    (hx : get3 x i j k = some a) (hy : get3 y i j k = some b) (hz : get3 z i j k = some c) :
    get3 (pointwise3 g x y z) i j k = some (g a b c) := by
  unfold get3 at *
  unfold pointwise3
  rw [zipWith3_getElem?]
  cases hxi : x[i]? with
  | none => rw [hxi] at hx; simp at hx
  | some px =>
  cases hyi : y[i]? with
  | none => rw [hyi] at hy; simp at hy
  | some py =>
  cases hzi : z[i]? with
  | none => rw [hzi] at hz; simp at hz
  | some pz =>
  rw [hxi] at hx; rw [hyi] at hy; rw [hzi] at hz
  simp only [Option.bind_some] at hx hy hz ⊢
  rw [zipWith3_getElem?]
  cases hxj : px[j]? with
  | none => rw [hxj] at hx; simp at hx
  | some rx =>
  cases hyj : py[j]? with
  | none => rw [hyj] at hy; simp at hy
  | some ry =>
  cases hzj : pz[j]? with
  | none => rw [hzj] at hz; simp at hz
  | some rz =>
  rw [hxj] at hx; rw [hyj] at hy; rw [hzj] at hz
  simp only [Option.bind_some] at hx hy hz ⊢
  rw [zipWith3_getElem?, hx, hy, hz]
  rfl


/-! ## Part 2: constructor, excision slice -/

/-! ### the constructor -/

theorem argminAbs_coords_some (N : Nat) (mn d : Rat) (hN : 1 ≤ N) :
    ∃ k, argminAbs (coords N mn d) = some k ∧ k < N := by
  have hne : coords N mn d ≠ [] := by
    intro h; have := coords_length N mn d; rw [h] at this; simp at this; omega
  obtain ⟨k, hk, hlt, _⟩ := argminAbs_spec _ hne
  exact ⟨k, hk, by rwa [coords_length] at hlt⟩

/-- Everything `__init__` stores, for `Nx, Ny, Nz ≥ 1`. -/
theorem mkGrid_spec (p : Param) (o : Nat) (hx : 1 ≤ p.Nx) (hy : 1 ≤ p.Ny) (hz : 1 ≤ p.Nz) :
    ∃ g, mkGrid p o = some g
      ∧ g.xarray = coords p.Nx p.xmin p.dx ∧ g.yarray = coords p.Ny p.ymin p.dy
      ∧ g.zarray = coords p.Nz p.zmin p.dz
      ∧ g.Nx = p.Nx ∧ g.Ny = p.Ny ∧ g.Nz = p.Nz
      ∧ g.xmax = p.xmin + ((p.Nx - 1 : Nat) : Rat) * p.dx
      ∧ g.ymax = p.ymin + ((p.Ny - 1 : Nat) : Rat) * p.dy
      ∧ g.zmax = p.zmin + ((p.Nz - 1 : Nat) : Rat) * p.dz
      ∧ argminAbs g.xarray = some g.ixcenter ∧ argminAbs g.yarray = some g.iycenter
      ∧ argminAbs g.zarray = some g.izcenter
      ∧ g.x = meshX g.xarray p.Ny p.Nz ∧ g.y = meshY p.Nx g.yarray p.Nz
      ∧ g.z = meshZ p.Nx p.Ny g.zarray
      ∧ g.cartesian = [g.x, g.y, g.z]
      ∧ g.sph = pointwise3 sphPt g.x g.y g.z
      ∧ g.fdOrder = normOrder o ∧ g.maskLen = normOrder o / 2 := by
  obtain ⟨ix, hix, _⟩ := argminAbs_coords_some p.Nx p.xmin p.dx hx
  obtain ⟨iy, hiy, _⟩ := argminAbs_coords_some p.Ny p.ymin p.dy hy
  obtain ⟨iz, hiz, _⟩ := argminAbs_coords_some p.Nz p.zmin p.dz hz
  simp only [mkGrid, last_coords _ _ _ hx, last_coords _ _ _ hy, last_coords _ _ _ hz, hix, hiy, hiz,
    coords_length, Option.bind_eq_bind, Option.bind_some, Option.pure_def, maskLen]
  exact ⟨_, rfl, rfl, rfl, rfl, rfl, rfl, rfl, rfl, rfl, rfl, hix, hiy, hiz, rfl, rfl, rfl, rfl, rfl,
    rfl, rfl⟩

/-- the constructor raises exactly when some `N` is 0 -/
theorem mkGrid_isSome_iff (p : Param) (o : Nat) :
    (mkGrid p o).isSome = true ↔ 1 ≤ p.Nx ∧ 1 ≤ p.Ny ∧ 1 ≤ p.Nz := by
  constructor
  · intro h
    by_contra hc
    have : p.Nx = 0 ∨ p.Ny = 0 ∨ p.Nz = 0 := by omega
    rcases this with h0 | h0 | h0
    · simp [mkGrid, h0, last_coords_none] at h
    · cases hl : last (coords p.Nx p.xmin p.dx) <;> simp [mkGrid, h0, hl, last_coords_none] at h
    · cases hl : last (coords p.Nx p.xmin p.dx) <;> cases hl2 : last (coords p.Ny p.ymin p.dy) <;>
        simp [mkGrid, h0, hl, hl2, last_coords_none] at h
  · rintro ⟨hx, hy, hz⟩
    obtain ⟨g, hg, _⟩ := mkGrid_spec p o hx hy hz
    rw [hg]; rfl

/-- T2 assembled: shapes and contents of every array `__init__` derives. -/
theorem grid_shapes (p : Param) (o : Nat) (hx : 1 ≤ p.Nx) (hy : 1 ≤ p.Ny) (hz : 1 ≤ p.Nz) :
    ∃ g, mkGrid p o = some g
      ∧ fdShape g = dataShape p
      ∧ g.xarray.length = p.Nx ∧ g.yarray.length = p.Ny ∧ g.zarray.length = p.Nz
      ∧ IsShape g.x p.Nx p.Ny p.Nz ∧ IsShape g.y p.Nx p.Ny p.Nz ∧ IsShape g.z p.Nx p.Ny p.Nz
      ∧ g.cartesian = [g.x, g.y, g.z]
      ∧ IsShape g.sph p.Nx p.Ny p.Nz
      ∧ (∀ i j k, i < p.Nx → j < p.Ny → k < p.Nz →
          get3 g.x i j k = some (coord p.xmin p.dx i)
          ∧ get3 g.y i j k = some (coord p.ymin p.dy j)
          ∧ get3 g.z i j k = some (coord p.zmin p.dz k)
          ∧ get3 g.sph i j k = some (sphPt (coord p.xmin p.dx i) (coord p.ymin p.dy j)
              (coord p.zmin p.dz k))) := by
  obtain ⟨g, hg, hxa, hya, hza, hNx, hNy, hNz, _, _, _, _, _, _, hgx, hgy, hgz, hcart, hsph, _, _⟩ :=
    mkGrid_spec p o hx hy hz
  have hsx : IsShape g.x p.Nx p.Ny p.Nz := by
    rw [hgx]; have := meshX_shape g.xarray p.Ny p.Nz; rw [hxa, coords_length] at this; rw [hxa]; exact this
  have hsy : IsShape g.y p.Nx p.Ny p.Nz := by
    rw [hgy]; have := meshY_shape p.Nx g.yarray p.Nz; rw [hya, coords_length] at this; rw [hya]; exact this
  have hsz : IsShape g.z p.Nx p.Ny p.Nz := by
    rw [hgz]; have := meshZ_shape p.Nx p.Ny g.zarray; rw [hza, coords_length] at this; rw [hza]; exact this
  refine ⟨g, hg, by simp [fdShape, dataShape, hNx, hNy, hNz], by rw [hxa, coords_length],
    by rw [hya, coords_length], by rw [hza, coords_length], hsx, hsy, hsz, hcart,
    by rw [hsph]; exact pointwise3_shape _ _ _ _ _ _ _ hsx hsy hsz, ?_⟩
  intro i j k hi hj hk
  have e1 : get3 g.x i j k = some (coord p.xmin p.dx i) := by
    rw [hgx, meshX_get _ _ _ _ _ _ hj hk, hxa, coords_getElem? _ _ _ _ hi]; rfl
  have e2 : get3 g.y i j k = some (coord p.ymin p.dy j) := by
    rw [hgy, meshY_get _ _ _ _ _ _ hi hk, hya, coords_getElem? _ _ _ _ hj]; rfl
  have e3 : get3 g.z i j k = some (coord p.zmin p.dz k) := by
    rw [hgz, meshZ_get _ _ _ _ _ _ hi hj, hza, coords_getElem? _ _ _ _ hk]; rfl
  exact ⟨e1, e2, e3, by rw [hsph]; exact pointwise3_get _ _ _ _ _ _ _ _ _ _ e1 e2 e3⟩

/-- `mask_len ≥ 1` whatever `fd_order` is passed (unknown orders fall back to 4). -/
theorem maskLen_pos (o : Nat) : 1 ≤ maskLen o := by
  unfold maskLen normOrder; split <;> [skip; split <;> [skip; split]] <;> decide

/-! ### the excision slice `c-w : c+w+1` on an axis of length n -/

theorem pySlice_range (n : Nat) (a b : Int) :
    pySlice (List.range n) a b =
      List.range' (clampBound n a) (min (clampBound n b - clampBound n a) (n - clampBound n a)) := by
  unfold pySlice
  simp only [List.length_range]
  rw [List.range_eq_range', List.drop_range']
  simp only [Nat.zero_add, Nat.mul_one]
  rcases Nat.le_total (n - clampBound n a) (clampBound n b - clampBound n a) with h | h
  · rw [List.take_range'_of_length_le h, Nat.min_eq_right h]
  · rw [List.take_range'_of_length_ge h, Nat.min_eq_left h]

/-- centre at least `w` from both ends: exactly the `2w+1` indices `c-w … c+w`. -/
theorem around_interior (n c w : Nat) (h1 : w ≤ c) (h2 : c + w + 1 ≤ n) :
    pySlice (List.range n) ((c : Int) - w) ((c : Int) + w + 1) = List.range' (c - w) (2 * w + 1) := by
  rw [pySlice_range]
  have ha : clampBound n ((c : Int) - w) = c - w := by
    unfold clampBound
    have e1 : ¬ ((c : Int) - w < 0) := by omega
    have e2 : ¬ ((n : Int) < (c : Int) - w) := by omega
    simp only [e1, e2, if_false]; omega
  have hb : clampBound n ((c : Int) + w + 1) = c + w + 1 := by
    unfold clampBound
    have e1 : ¬ ((c : Int) + w + 1 < 0) := by omega
    have e2 : ¬ ((n : Int) < (c : Int) + w + 1) := by omega
    simp only [e1, e2, if_false]; omega
  rw [ha, hb]
  congr 1; omega

/-- centre closer than `w` to the lower end (`c < w`) on an axis of length
`n ≥ 2w + 1`: the start `c - w` is negative, Python counts it from the END, and
the slice is EMPTY — nothing is excised, not even the centre itself. -/
theorem around_low_edge_empty (n c w : Nat) (h1 : c < w) (h2 : 2 * w + 1 ≤ n) :
    pySlice (List.range n) ((c : Int) - w) ((c : Int) + w + 1) = [] := by
  rw [pySlice_range]
  have ha : clampBound n ((c : Int) - w) = n + c - w := by
    unfold clampBound
    have e1 : ((c : Int) - w < 0) := by omega
    have e2 : ¬ ((c : Int) - w + n < 0) := by omega
    have e3 : ¬ ((n : Int) < (c : Int) - w + n) := by omega
    simp only [e1, e2, e3, if_true, if_false]; omega
  have hb : clampBound n ((c : Int) + w + 1) = c + w + 1 := by
    unfold clampBound
    have e1 : ¬ ((c : Int) + w + 1 < 0) := by omega
    have e2 : ¬ ((n : Int) < (c : Int) + w + 1) := by omega
    simp only [e1, e2, if_false]; omega
  rw [ha, hb]
  have : min (c + w + 1 - (n + c - w)) (n - (n + c - w)) = 0 := by omega
  rw [this]; rfl

/-- centre closer than `w` to the upper end: the stop is clamped to `n`. -/
theorem around_high_edge (n c w : Nat) (h1 : w ≤ c) (h2 : c < n) (h3 : n < c + w + 1) :
    pySlice (List.range n) ((c : Int) - w) ((c : Int) + w + 1) = List.range' (c - w) (n - (c - w)) := by
  rw [pySlice_range]
  have ha : clampBound n ((c : Int) - w) = c - w := by
    unfold clampBound
    have e1 : ¬ ((c : Int) - w < 0) := by omega
    have e2 : ¬ ((n : Int) < (c : Int) - w) := by omega
    simp only [e1, e2, if_false]; omega
  have hb : clampBound n ((c : Int) + w + 1) = n := by
    unfold clampBound
    have e1 : ¬ ((c : Int) + w + 1 < 0) := by omega
    have e2 : ((n : Int) < (c : Int) + w + 1) := by omega
    simp only [e1, e2, if_true, if_false]
  rw [ha, hb]
  congr 1; omega

/-! ## Part 3: spherical coordinates over ℝ

numpy's `arctan2(b, a)` on reals is modelled as `Complex.arg ⟨a, b⟩`
(∈ (−π, π], `arg 0 = 0`, `arctan2(0, a<0) = π`).  Signed zeros (`arctan2(0.0, -0.0) = π`,
`arctan2(-0.0, a<0) = −π`) do not exist in the exact-real model and are outside it. -/

section Spherical
open Real

/-- `np.arctan2(b, a)` on reals. -/
noncomputable def arctan2 (b a : ℝ) : ℝ := Complex.arg ⟨a, b⟩

/-- `cartesian_to_spherical(x, y, z)` at one point; returns `(r, theta, phi)`. -/
noncomputable def cartToSph (x y z : ℝ) : ℝ × ℝ × ℝ :=
  let r := √(x * x + y * y + z * z)
  let phi0 := arctan2 y x
  let phi := if Real.sign y = 0 ∧ Real.sign x < 0 then -π else phi0
  let theta := arctan2 (√(x * x + y * y)) z
  (r, theta, phi)

/-- `spherical_to_cartesian(r, theta, phi)`. -/
noncomputable def sphToCart (r theta phi : ℝ) : ℝ × ℝ × ℝ :=
  (r * sin theta * cos phi, r * sin theta * sin phi, r * cos theta)

theorem norm_mk (a b : ℝ) : ‖(⟨a, b⟩ : ℂ)‖ = √(a * a + b * b) := by
  rw [Complex.norm_def, Complex.normSq_mk]

/-- `‖(a,b)‖ · cos(arctan2(b, a)) = a`, also at the origin. -/
theorem norm_mul_cos_arctan2 (a b : ℝ) : √(a * a + b * b) * cos (arctan2 b a) = a := by
  unfold arctan2
  by_cases h : (⟨a, b⟩ : ℂ) = 0
  · have ha : a = 0 := by have := congrArg Complex.re h; simpa using this
    have hb : b = 0 := by have := congrArg Complex.im h; simpa using this
    subst ha; subst hb; simp
  · rw [Complex.cos_arg h, norm_mk]
    have hn : √(a * a + b * b) ≠ 0 := by
      rw [← norm_mk]; exact norm_ne_zero_iff.mpr h
    simp only
    rw [mul_div_assoc', mul_comm, mul_div_assoc, div_self hn, mul_one]

/-- `‖(a,b)‖ · sin(arctan2(b, a)) = b`, also at the origin. -/
theorem norm_mul_sin_arctan2 (a b : ℝ) : √(a * a + b * b) * sin (arctan2 b a) = b := by
  unfold arctan2
  by_cases h : (⟨a, b⟩ : ℂ) = 0
  · have hb : b = 0 := by have := congrArg Complex.im h; simpa using this
    subst hb; simp [Complex.sin_arg]
  · rw [Complex.sin_arg, norm_mk]
    have hn : √(a * a + b * b) ≠ 0 := by
      rw [← norm_mk]; exact norm_ne_zero_iff.mpr h
    simp only
    rw [mul_div_assoc', mul_comm, mul_div_assoc, div_self hn, mul_one]

theorem spherical_roundtrip (x y z : ℝ) :
    (let s := cartToSph x y z; sphToCart s.1 s.2.1 s.2.2) = (x, y, z) := by
  have hρ0 : 0 ≤ x * x + y * y := by nlinarith [mul_self_nonneg x, mul_self_nonneg y]
  have hrr : x * x + y * y + z * z = z * z + √(x * x + y * y) * √(x * x + y * y) := by
    rw [mul_self_sqrt hρ0]; ring
  -- r sin θ = ρ and r cos θ = z
  have hsin := norm_mul_sin_arctan2 z (√(x * x + y * y))
  have hcos := norm_mul_cos_arctan2 z (√(x * x + y * y))
  rw [← hrr] at hsin hcos
  -- ρ cos φ = x and ρ sin φ = y
  have key : √(x * x + y * y) * cos (cartToSph x y z).2.2 = x ∧
      √(x * x + y * y) * sin (cartToSph x y z).2.2 = y := by
    simp only [cartToSph]
    by_cases hm : Real.sign y = 0 ∧ Real.sign x < 0
    · rw [if_pos hm]
      obtain ⟨hy, hx⟩ := hm
      have hy0 : y = 0 := by
        rcases lt_trichotomy y 0 with h | h | h
        · rw [sign_of_neg h] at hy; norm_num at hy
        · exact h
        · rw [sign_of_pos h] at hy; norm_num at hy
      have hx0 : x < 0 := by
        by_contra hc
        rcases eq_or_lt_of_le (not_lt.mp hc) with h | h
        · rw [← h, sign_zero] at hx; exact lt_irrefl _ hx
        · rw [sign_of_pos h] at hx; linarith
      subst hy0
      simp only [cos_neg, sin_neg, cos_pi, sin_pi, mul_zero, add_zero, neg_zero]
      rw [sqrt_mul_self_eq_abs, abs_of_neg hx0]; simp
    · rw [if_neg hm]
      exact ⟨norm_mul_cos_arctan2 x y, norm_mul_sin_arctan2 x y⟩
  obtain ⟨k1, k2⟩ := key
  have e1 : (cartToSph x y z).1 = √(x * x + y * y + z * z) := rfl
  have e2 : (cartToSph x y z).2.1 = arctan2 (√(x * x + y * y)) z := rfl
  simp only [sphToCart, e1, e2, hsin, hcos, k1, k2]

/-! ### ranges -/

theorem cartToSph_r_nonneg (x y z : ℝ) : 0 ≤ (cartToSph x y z).1 := Real.sqrt_nonneg _

theorem cartToSph_theta_range (x y z : ℝ) :
    0 ≤ (cartToSph x y z).2.1 ∧ (cartToSph x y z).2.1 ≤ π := by
  simp only [cartToSph, arctan2]
  exact ⟨Complex.arg_nonneg_iff.mpr (Real.sqrt_nonneg _), Complex.arg_le_pi _⟩

theorem cartToSph_phi_range (x y z : ℝ) :
    -π ≤ (cartToSph x y z).2.2 ∧ (cartToSph x y z).2.2 ≤ π := by
  simp only [cartToSph, arctan2]
  split
  · exact ⟨le_refl _, by linarith [pi_pos]⟩
  · exact ⟨le_of_lt (Complex.neg_pi_lt_arg _), Complex.arg_le_pi _⟩

/-! ### link between the discrete descriptor `sphPt` and the real map -/

theorem sign_cast (q : ℚ) : Real.sign (q : ℝ) = ((sgn q : ℤ) : ℝ) := by
  unfold sgn
  rcases lt_trichotomy q 0 with h | h | h
  · rw [if_pos h, sign_of_neg (by exact_mod_cast h)]; simp
  · subst h; simp
  · have h1 : ¬ q < 0 := not_lt.mpr h.le
    have h2 : ¬ q = 0 := ne_of_gt h
    rw [if_neg h1, if_neg h2, sign_of_pos (by exact_mod_cast h)]; simp

theorem sgn_cases (q : ℚ) : (sgn q = -1 ∧ q < 0) ∨ (sgn q = 0 ∧ q = 0) ∨ (sgn q = 1 ∧ 0 < q) := by
  unfold sgn
  rcases lt_trichotomy q 0 with h | h | h
  · left; exact ⟨by rw [if_pos h], h⟩
  · right; left; subst h; simp
  · right; right
    exact ⟨by rw [if_neg (not_lt.mpr h.le), if_neg (ne_of_gt h)], h⟩

/-- The discrete descriptor computed by the executable model says what the
real-valued map does at every rational point. -/
theorem sphPt_sound (x y z : ℚ) :
    (cartToSph x y z).1 = √(((sphPt x y z).r2 : ℚ) : ℝ)
    ∧ (cartToSph x y z).2.1 = arctan2 (√(((sphPt x y z).rho2 : ℚ) : ℝ)) z
    ∧ ((sphPt x y z).masked = true → (cartToSph x y z).2.2 = -π)
    ∧ ((sphPt x y z).masked = false → (cartToSph x y z).2.2 = arctan2 y x
        ∧ ((sphPt x y z).sgnY = 1 → 0 < (cartToSph x y z).2.2)
        ∧ ((sphPt x y z).sgnY = -1 → (cartToSph x y z).2.2 < 0)
        ∧ ((sphPt x y z).sgnY = 0 → (cartToSph x y z).2.2 = 0))
    ∧ ((sphPt x y z).onAxis = true → (cartToSph x y z).2.2 = 0
        ∧ (0 ≤ (sphPt x y z).sgnZ → (cartToSph x y z).2.1 = 0)
        ∧ ((sphPt x y z).sgnZ < 0 → (cartToSph x y z).2.1 = π))
    ∧ ((sphPt x y z).onAxis = false → (sphPt x y z).sgnZ = 0 → (cartToSph x y z).2.1 = π / 2)
    ∧ ((sphPt x y z).origin = true → (cartToSph x y z).1 = 0 ∧ (cartToSph x y z).2.1 = 0
        ∧ (cartToSph x y z).2.2 = 0) := by
  have hr2 : (((x * x + y * y + z * z : ℚ)) : ℝ) = (x : ℝ) * x + y * y + z * z := by push_cast; ring
  have hrho2 : (((x * x + y * y : ℚ)) : ℝ) = (x : ℝ) * x + y * y := by push_cast; ring
  have hmask : ((sphPt x y z).masked = true) ↔ (Real.sign (y : ℝ) = 0 ∧ Real.sign (x : ℝ) < 0) := by
    simp only [sphPt, Bool.and_eq_true, beq_iff_eq, decide_eq_true_eq, sign_cast]
    constructor
    · rintro ⟨h1, h2⟩; exact ⟨by exact_mod_cast h1, by exact_mod_cast h2⟩
    · rintro ⟨h1, h2⟩; exact ⟨by exact_mod_cast h1, by exact_mod_cast h2⟩
  have hθ : (cartToSph x y z).2.1 = arctan2 (√((x : ℝ) * x + y * y)) z := rfl
  have haxis : ∀ {a b : ℚ}, a * a + b * b = 0 → a = 0 ∧ b = 0 := by
    intro a b h
    exact ⟨by nlinarith [mul_self_nonneg a, mul_self_nonneg b],
           by nlinarith [mul_self_nonneg a, mul_self_nonneg b]⟩
  refine ⟨by simp only [cartToSph, sphPt, hr2], by simp only [cartToSph, sphPt, hrho2], ?_, ?_, ?_, ?_, ?_⟩
  · intro h
    simp only [cartToSph]
    rw [if_pos (hmask.mp h)]
  · intro h
    have hn : ¬ (Real.sign (y : ℝ) = 0 ∧ Real.sign (x : ℝ) < 0) := by
      rw [← hmask, h]; simp
    have hφ : (cartToSph x y z).2.2 = arctan2 y x := by
      simp only [cartToSph]; rw [if_neg hn]
    refine ⟨hφ, ?_, ?_, ?_⟩
    · intro hs
      have hy : (0 : ℚ) < y := by
        rcases sgn_cases y with ⟨h1, _⟩ | ⟨h1, _⟩ | ⟨_, h2⟩
        · simp only [sphPt] at hs; omega
        · simp only [sphPt] at hs; omega
        · exact h2
      rw [hφ]; unfold arctan2
      have h0 : 0 ≤ Complex.arg ⟨(x : ℝ), (y : ℝ)⟩ :=
        Complex.arg_nonneg_iff.mpr (by simp; exact_mod_cast hy.le)
      rcases eq_or_lt_of_le h0 with he | he
      · have := (Complex.arg_eq_zero_iff.mp he.symm).2
        simp at this; linarith
      · exact he
    · intro hs
      have hy : y < 0 := by
        rcases sgn_cases y with ⟨_, h2⟩ | ⟨h1, _⟩ | ⟨h1, _⟩
        · exact h2
        · simp only [sphPt] at hs; omega
        · simp only [sphPt] at hs; omega
      rw [hφ]; unfold arctan2
      exact Complex.arg_neg_iff.mpr (by simp; exact_mod_cast hy)
    · intro hs
      have hy : y = 0 := by
        rcases sgn_cases y with ⟨h1, _⟩ | ⟨_, h2⟩ | ⟨h1, _⟩
        · simp only [sphPt] at hs; omega
        · exact h2
        · simp only [sphPt] at hs; omega
      have hx : (0 : ℚ) ≤ x := by
        by_contra hc
        apply hn
        rw [hy]
        refine ⟨by simp, ?_⟩
        rw [sign_of_neg (by exact_mod_cast not_le.mp hc)]; norm_num
      rw [hφ]; unfold arctan2
      exact Complex.arg_eq_zero_iff.mpr ⟨by simp; exact_mod_cast hx, by simp [hy]⟩
  · intro h
    simp only [sphPt, decide_eq_true_eq] at h
    obtain ⟨hx, hy⟩ := haxis h
    subst hx; subst hy
    refine ⟨by simp [cartToSph, arctan2, sign_zero, Complex.arg_eq_zero_iff], ?_, ?_⟩
    · intro hz
      have hz0 : (0 : ℚ) ≤ z := by
        rcases sgn_cases z with ⟨h1, _⟩ | ⟨_, h2⟩ | ⟨_, h2⟩
        · simp only [sphPt] at hz; omega
        · exact h2.ge
        · exact h2.le
      rw [hθ]; unfold arctan2
      exact Complex.arg_eq_zero_iff.mpr ⟨by simp; exact_mod_cast hz0, by simp⟩
    · intro hz
      have hz0 : z < 0 := by
        rcases sgn_cases z with ⟨_, h2⟩ | ⟨h1, _⟩ | ⟨h1, _⟩
        · exact h2
        · simp only [sphPt] at hz; omega
        · simp only [sphPt] at hz; omega
      rw [hθ]; unfold arctan2
      exact Complex.arg_eq_pi_iff.mpr ⟨by simp; exact_mod_cast hz0, by simp⟩
  · intro h hz
    simp only [sphPt, decide_eq_false_iff_not] at h
    have hz0 : z = 0 := by
      rcases sgn_cases z with ⟨h1, _⟩ | ⟨_, h2⟩ | ⟨h1, _⟩
      · simp only [sphPt] at hz; omega
      · exact h2
      · simp only [sphPt] at hz; omega
    have hpos : 0 < √((x : ℝ) * x + y * y) := by
      apply sqrt_pos.mpr
      rw [← hrho2]
      have : (0 : ℚ) ≤ x * x + y * y := by nlinarith [mul_self_nonneg x, mul_self_nonneg y]
      exact_mod_cast lt_of_le_of_ne this (Ne.symm h)
    rw [hθ, hz0]; unfold arctan2
    have : (⟨((0 : ℚ) : ℝ), √((x : ℝ) * x + y * y)⟩ : ℂ) = (√((x : ℝ) * x + y * y) : ℝ) * Complex.I := by
      apply Complex.ext <;> simp
    rw [this, Complex.arg_real_mul _ hpos, Complex.arg_I]
  · intro h
    simp only [sphPt, decide_eq_true_eq] at h
    have hz : z = 0 := by nlinarith [mul_self_nonneg x, mul_self_nonneg y, mul_self_nonneg z]
    have hxy : x * x + y * y = 0 := by nlinarith [mul_self_nonneg x, mul_self_nonneg y, mul_self_nonneg z]
    obtain ⟨hx, hy⟩ := haxis hxy
    subst hx; subst hy; subst hz
    simp [cartToSph, arctan2, sign_zero, Complex.arg_eq_zero_iff]

end Spherical

end AurelVerif.GridLemmas
