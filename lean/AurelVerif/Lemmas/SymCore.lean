/-
Lemmas/SymCore.lean — composition: what `AurelCoreSymbolic` stores for each
key, as the fill loops (Gen/SymLoops + Model/SymFill) applied to the formula
lines (Gen/SymFormulas) applied to what is stored for the keys they look up,
and the proof that it is the textbook tensor (T1 + T3), for both values of the
`simplify` flag and both cache states of `Riemann_uddd`.
-/
import AurelVerif.Lemmas.SymFill
import AurelVerif.Lemmas.SymTensors
import AurelVerif.Gen.SymLoops

namespace AurelVerif.SymCore
open AurelVerif.SymFill AurelVerif.SymFillLemmas AurelVerif.SymTensorLemmas
open AurelVerif.Spec.SymTensors AurelVerif.Gen
open scoped BigOperators

/-! ### the finite checks (kernel-evaluated on the regenerated loop structure) -/

theorem check_Gamma_udd : ∀ n ∈ [2, 3, 4], checkProg n SymLoops.Gamma_udd gensGamma = true := by
  decide +kernel
theorem check_Gamma_down : ∀ n ∈ [2, 3, 4], checkProg n SymLoops.Gamma_down gensGamma = true := by
  decide +kernel
theorem check_Riemann_uddd : ∀ n ∈ [2, 3, 4], checkProg n SymLoops.Riemann_uddd gensRiemannUp = true := by
  decide +kernel
theorem check_Riemann_down_cached :
    ∀ n ∈ [2, 3, 4], checkProg n SymLoops.Riemann_down_cached gensRiemannDown = true := by
  decide +kernel
theorem check_Riemann_down_direct :
    ∀ n ∈ [2, 3, 4], checkProg n SymLoops.Riemann_down_direct gensRiemannDown = true := by
  decide +kernel
theorem check_Ricci_down_cached : ∀ n ∈ [2, 3, 4], checkProg n SymLoops.Ricci_down_cached gensSym2 = true := by
  decide +kernel
theorem check_Ricci_down_direct : ∀ n ∈ [2, 3, 4], checkProg n SymLoops.Ricci_down_direct gensSym2 = true := by
  decide +kernel
theorem check_Einstein_down : ∀ n ∈ [2, 3, 4], checkProg n SymLoops.Einstein_down gensSym2 = true := by
  decide +kernel

theorem mem234 {n : ℕ} (hn : n = 2 ∨ n = 3 ∨ n = 4) : n ∈ [2, 3, 4] := by
  rcases hn with rfl | rfl | rfl <;> simp

/-! ### `Fin n` front end of the lifting lemma -/
section front
variable {K : Type} [Field K] [CharZero K] {n : ℕ}

theorem fill2_identity (p : Prog) (hr : p.rank = 2) (hc : checkProg n p gensSym2 = true)
    (T : Fin n → Fin n → K) (hT : ∀ i j, T j i = T i j) (i j : Fin n) :
    fillFin2 n (ringOps K) p T i j = T i j := by
  unfold fillFin2
  have h := fill_identity_of_check n p gensSym2 hc (ringOps K) (ringOps_laws K) (ofFin2 0 T)
    (by rw [hr]; exact invariant_sym2 T hT) [i.val, j.val] (by rw [hr]; exact valid2 i j)
  have e : (ringOps K).zero = 0 := rfl
  rw [e, h, ofFin2_val]

theorem fill3_identity (p : Prog) (hr : p.rank = 3) (hc : checkProg n p gensGamma = true)
    (T : Fin n → Fin n → Fin n → K) (hT : ∀ i j k, T i k j = T i j k) (i j k : Fin n) :
    fillFin3 n (ringOps K) p T i j k = T i j k := by
  unfold fillFin3
  have h := fill_identity_of_check n p gensGamma hc (ringOps K) (ringOps_laws K) (ofFin3 0 T)
    (by rw [hr]; exact invariant_gamma T hT) [i.val, j.val, k.val] (by rw [hr]; exact valid3 i j k)
  have e : (ringOps K).zero = 0 := rfl
  rw [e, h, ofFin3_val]

theorem fill4up_identity (p : Prog) (hr : p.rank = 4) (hc : checkProg n p gensRiemannUp = true)
    (T : Fin n → Fin n → Fin n → Fin n → K) (hT : ∀ i j k h, T i j h k = - T i j k h)
    (i j k h : Fin n) :
    fillFin4 n (ringOps K) p T i j k h = T i j k h := by
  unfold fillFin4
  have h' := fill_identity_of_check n p gensRiemannUp hc (ringOps K) (ringOps_laws K) (ofFin4 0 T)
    (by rw [hr]; exact invariant_riemannUp T hT) [i.val, j.val, k.val, h.val]
    (by rw [hr]; exact valid4 i j k h)
  have e : (ringOps K).zero = 0 := rfl
  rw [e, h', ofFin4_val]

theorem fill4down_identity (p : Prog) (hr : p.rank = 4) (hc : checkProg n p gensRiemannDown = true)
    (T : Fin n → Fin n → Fin n → Fin n → K)
    (h1 : ∀ i j k h, T j i k h = - T i j k h) (h2 : ∀ i j k h, T i j h k = - T i j k h)
    (h3 : ∀ i j k h, T k h i j = T i j k h) (i j k h : Fin n) :
    fillFin4 n (ringOps K) p T i j k h = T i j k h := by
  unfold fillFin4
  have h' := fill_identity_of_check n p gensRiemannDown hc (ringOps K) (ringOps_laws K) (ofFin4 0 T)
    (by rw [hr]; exact invariant_riemannDown T h1 h2 h3) [i.val, j.val, k.val, h.val]
    (by rw [hr]; exact valid4 i j k h)
  have e : (ringOps K).zero = 0 := rfl
  rw [e, h', ofFin4_val]

end front

/-! ### what the class stores -/
section stored
variable {K : Type} [Field K] (n : ℕ) (D : Fin n → K → K) (b : Bool) (S : K → K)
  (g gup : Fin n → Fin n → K)

/-- `__getitem__`: `if self.simplify: self.data[key] = sp.simplify(self.data[key])` -/
def post (x : K) : K := if b then S x else x

def storedGammaUdd : Fin n → Fin n → Fin n → K := fun i j k =>
  post b S (fillFin3 n (ringOps K) SymLoops.Gamma_udd (SymFormulas.Gamma_udd D b S gup g) i j k)

def storedGammaDown : Fin n → Fin n → Fin n → K := fun i j k =>
  post b S (fillFin3 n (ringOps K) SymLoops.Gamma_down
    (SymFormulas.Gamma_down D b S g (storedGammaUdd n D b S g gup)) i j k)

def storedRiemannUddd : Fin n → Fin n → Fin n → Fin n → K := fun i j k h =>
  post b S (fillFin4 n (ringOps K) SymLoops.Riemann_uddd
    (SymFormulas.Riemann_uddd D b S (storedGammaUdd n D b S g gup)) i j k h)

/-- `cached` = whether `"Riemann_uddd" in self.data` when `Riemann_down` is computed -/
def storedRiemannDown (cached : Bool) : Fin n → Fin n → Fin n → Fin n → K := fun i j k h =>
  post b S (if cached then
    fillFin4 n (ringOps K) SymLoops.Riemann_down_cached
      (SymFormulas.Riemann_down_cached D b S g (storedRiemannUddd n D b S g gup)) i j k h
  else
    fillFin4 n (ringOps K) SymLoops.Riemann_down_direct
      (SymFormulas.Riemann_down_direct D b S (storedGammaDown n D b S g gup)
        (storedGammaUdd n D b S g gup)) i j k h)

/-- `cached` = whether `"Riemann_uddd" in self.data` when `Ricci_down` is computed -/
def storedRicci (cached : Bool) : Fin n → Fin n → K := fun i j =>
  post b S (if cached then
    fillFin2 n (ringOps K) SymLoops.Ricci_down_cached
      (SymFormulas.Ricci_down_cached D b S (storedRiemannUddd n D b S g gup)) i j
  else
    fillFin2 n (ringOps K) SymLoops.Ricci_down_direct
      (SymFormulas.Ricci_down_direct D b S (storedGammaUdd n D b S g gup)) i j)

def storedRicciS (cached : Bool) : K :=
  post b S (SymFormulas.RicciS D b S gup (storedRicci n D b S g gup cached))

def storedEinstein (cached : Bool) : Fin n → Fin n → K := fun i j =>
  post b S (fillFin2 n (ringOps K) SymLoops.Einstein_down
    (SymFormulas.Einstein_down D b S (storedRicci n D b S g gup cached) g
      (storedRicciS n D b S g gup cached)) i j)

end stored

theorem post_id {K : Type} {S : K → K} (hS : ∀ x, S x = x) (b : Bool) (x : K) : post b S x = x := by
  unfold post; rw [hS, ite_self]

/-! ### stored = textbook -/
section correct
variable {K : Type} [Field K] [CharZero K] {n : ℕ} {D : Fin n → K → K} {S : K → K}
  {g gup : Fin n → Fin n → K}

theorem storedGammaUdd_eq (hn : n = 2 ∨ n = 3 ∨ n = 4) (hM : IsMetric g gup) (hS : ∀ x, S x = x)
    (b : Bool) : storedGammaUdd n D b S g gup = GammaUdd D g gup := by
  have hT : SymFormulas.Gamma_udd D b S gup g = GammaUdd D g gup := by
    funext i j k; exact gamma_udd_line hS b i j k
  funext i j k
  unfold storedGammaUdd
  rw [post_id hS, hT]
  exact fill3_identity _ rfl (check_Gamma_udd n (mem234 hn)) _
    (fun i j k => (christoffel2_symm hM i j k).symm) i j k

theorem storedGammaDown_eq (hn : n = 2 ∨ n = 3 ∨ n = 4) (hM : IsMetric g gup) (hS : ∀ x, S x = x)
    (b : Bool) : storedGammaDown n D b S g gup = GammaDown D g := by
  have hT : SymFormulas.Gamma_down D b S g (GammaUdd D g gup) = GammaDown D g := by
    funext i j k; exact gamma_down_line hM hS b i j k
  funext i j k
  unfold storedGammaDown
  rw [post_id hS, storedGammaUdd_eq hn hM hS b, hT]
  exact fill3_identity _ rfl (check_Gamma_down n (mem234 hn)) _
    (fun i j k => (christoffel1_symm hM i j k).symm) i j k

theorem storedRiemannUddd_eq (hn : n = 2 ∨ n = 3 ∨ n = 4) (hM : IsMetric g gup)
    (hS : ∀ x, S x = x) (b : Bool) : storedRiemannUddd n D b S g gup = RiemannUddd D g gup := by
  have hT : SymFormulas.Riemann_uddd D b S (GammaUdd D g gup) = RiemannUddd D g gup := by
    funext i j k h; exact riemann_uddd_line hS b _ i j k h
  funext i j k h
  unfold storedRiemannUddd
  rw [post_id hS, storedGammaUdd_eq hn hM hS b, hT]
  exact fill4up_identity _ rfl (check_Riemann_uddd n (mem234 hn)) _
    (fun i j k h => riemannUp_antisymm D _ i j k h) i j k h

theorem storedRiemannDown_eq (hn : n = 2 ∨ n = 3 ∨ n = 4) (hD : IsDeriv D) (hM : IsMetric g gup)
    (hS : ∀ x, S x = x) (b cached : Bool) :
    storedRiemannDown n D b S g gup cached = RiemannDown D g gup := by
  have hT1 : SymFormulas.Riemann_down_cached D b S g (RiemannUddd D g gup) = RiemannDown D g gup := by
    funext h i j k; exact riemann_down_cached_line hS b _ h i j k
  have hT2 : SymFormulas.Riemann_down_direct D b S (GammaDown D g) (GammaUdd D g gup)
      = RiemannDown D g gup := by
    funext i j k h; exact riemann_down_direct_line hD hM hS b i j k h
  funext i j k h
  unfold storedRiemannDown
  rw [post_id hS, storedRiemannUddd_eq hn hM hS b, storedGammaDown_eq hn hM hS b,
    storedGammaUdd_eq hn hM hS b, hT1, hT2]
  cases cached
  · exact fill4down_identity _ rfl (check_Riemann_down_direct n (mem234 hn)) _
      (riemannDown_antisymm12 hD hM) (riemannDown_antisymm34 hD hM) (riemannDown_pair hD hM) i j k h
  · exact fill4down_identity _ rfl (check_Riemann_down_cached n (mem234 hn)) _
      (riemannDown_antisymm12 hD hM) (riemannDown_antisymm34 hD hM) (riemannDown_pair hD hM) i j k h

theorem storedRicci_eq (hn : n = 2 ∨ n = 3 ∨ n = 4) (hD : IsDeriv D) (hM : IsMetric g gup)
    (hS : ∀ x, S x = x) (b cached : Bool) :
    storedRicci n D b S g gup cached = RicciDown D g gup := by
  have hT1 : SymFormulas.Ricci_down_cached D b S (RiemannUddd D g gup) = RicciDown D g gup := by
    funext i j; exact ricci_down_cached_line hS b _ i j
  have hT2 : SymFormulas.Ricci_down_direct D b S (GammaUdd D g gup) = RicciDown D g gup := by
    funext i j; exact ricci_down_direct_line hS b _ i j
  funext i j
  unfold storedRicci
  rw [post_id hS, storedRiemannUddd_eq hn hM hS b, storedGammaUdd_eq hn hM hS b, hT1, hT2]
  cases cached
  · exact fill2_identity _ rfl (check_Ricci_down_direct n (mem234 hn)) _ (ricci_symm hD hM) i j
  · exact fill2_identity _ rfl (check_Ricci_down_cached n (mem234 hn)) _ (ricci_symm hD hM) i j

theorem storedRicciS_eq (hn : n = 2 ∨ n = 3 ∨ n = 4) (hD : IsDeriv D) (hM : IsMetric g gup)
    (hS : ∀ x, S x = x) (b cached : Bool) :
    storedRicciS n D b S g gup cached = RicciScalar D g gup := by
  unfold storedRicciS
  rw [post_id hS, storedRicci_eq hn hD hM hS b cached, ricciS_line]
  rfl

theorem storedEinstein_eq (hn : n = 2 ∨ n = 3 ∨ n = 4) (hD : IsDeriv D) (hM : IsMetric g gup)
    (hS : ∀ x, S x = x) (b cached : Bool) :
    storedEinstein n D b S g gup cached = EinsteinDown D g gup := by
  have hT : SymFormulas.Einstein_down D b S (RicciDown D g gup) g (RicciScalar D g gup)
      = EinsteinDown D g gup := by
    funext i j; exact einstein_line b _ _ i j
  funext i j
  unfold storedEinstein
  rw [post_id hS, storedRicci_eq hn hD hM hS b cached, storedRicciS_eq hn hD hM hS b cached, hT]
  exact fill2_identity _ rfl (check_Einstein_down n (mem234 hn)) _ (einstein_symm hD hM) i j

end correct

end AurelVerif.SymCore
