/-
Lemmas/C11AcceptCons.lean — C11: consequences of the structure theorem.
 * a gap-free origin-annotated decomposition gives exactly `chunks base A D`
 * `joinChunks = joinGeneral`
 * the dichotomy "hierarchical chunks filed under their true origins, or class X"
-/
import AurelVerif.Lemmas.C11AcceptMain
namespace AurelVerif.AcceptLemmas
open AurelVerif.Chunks AurelVerif.ChunksLemmas AurelVerif.ChunkLayout
set_option linter.unusedSimpArgs false
set_option linter.unusedVariables false

theorem cutsP_map_payload {τ σ : Type} (f : τ → σ) (L : List (Nat × τ)) (o : Nat) :
    cutsP o (L.map fun s => (s.1, f s.2)) = (cutsP o L).map fun c => (c.1, c.2.1, f c.2.2) := by
  induction L generalizing o with
  | nil => rfl
  | cons s rest ih => simp [cutsP, ih]

theorem cuts_eq_cutsP {τ : Type} (L : List (Nat × τ)) (o : Nat) :
    cuts o (L.map Prod.fst) = (cutsP o L).map fun c => (c.1, c.2.1) := (cutsP_map o L).symm

/-- `chunks` of the lengths, written over the origin-annotated decomposition -/
theorem chunks_lens {α : Type} (base : Nat × Nat × Nat) (A : Arr3 α) (O : OZ) :
    chunks base A O.lens = (cutsP 0 O).flatMap fun zc =>
      (cutsP 0 zc.2.2.2).flatMap fun yc =>
        (cutsP 0 yc.2.2.2).map fun xc =>
          ((base.1 + xc.1, base.2.1 + yc.1, base.2.2 + zc.1),
           slice2 xc.1 xc.2.1 (slice1 yc.1 yc.2.1 (slice0 zc.1 zc.2.1 A))) := by
  unfold chunks OZ.lens
  rw [cutsP_map_payload (fun (p : Nat × OY) => p.2.map fun t => (t.1, t.2.2.map Prod.fst)) O 0, List.flatMap_map]
  apply List.flatMap_congr
  intro zc _
  simp only
  rw [cutsP_map_payload (fun (p : Nat × OX) => p.2.map Prod.fst) zc.2.2.2 0, List.flatMap_map]
  apply List.flatMap_congr
  intro yc _
  simp only
  rw [cuts_eq_cutsP yc.2.2.2 0, List.map_map]
  rfl

theorem ochunks_eq_chunks {α : Type} (A : Arr3 α) (O : OZ) (base : Nat × Nat × Nat) (h : O.GapFree base) :
    ochunks A O = chunks base A O.lens := by
  rw [chunks_lens]
  unfold ochunks
  apply List.flatMap_congr
  intro zc hzc
  obtain ⟨ez, hy⟩ := h zc hzc
  apply List.flatMap_congr
  intro yc hyc
  obtain ⟨ey, hx⟩ := hy yc hyc
  apply List.map_congr_left
  intro xc hxc
  rw [hx xc hxc, ey, ez]

/-- the keys of `ochunks` do not depend on the array -/
theorem ochunks_keys {α β : Type} (A : Arr3 α) (B : Arr3 β) (O : OZ) :
    (ochunks A O).map Prod.fst = (ochunks B O).map Prod.fst := by
  simp [ochunks, List.map_flatMap, Function.comp_def]

theorem joinChunks_eq_general {α : Type} (cut : Dict (Nat × Nat × Nat) (Arr3 α)) :
    joinChunks cut = joinGeneral cut := by
  match cut with
  | [] => rfl
  | [(k, b)] => rw [joinGeneral_single]; rfl
  | _ :: _ :: _ => rfl

theorem accepted_dichotomy_lemma {α : Type} (cut : Dict (Nat × Nat × Nat) (Arr3 α))
    (hk : (cut.map Prod.fst).Nodup) (hb : ∀ kb ∈ cut, RectPos kb.2) (R : Arr3 α)
    (h : joinChunks cut = some R) :
    (∃ (base : Nat × Nat × Nat) (D : ZSplit) (nz ny nx : Nat), 0 < nz ∧ 0 < ny ∧ 0 < nx ∧ Rect R nz ny nx
        ∧ D.Valid nz ny nx ∧ cut.Perm (chunks base R D))
      ∨ ClassX cut R := by
  rw [joinChunks_eq_general] at h
  obtain ⟨O, nz, ny, nx, hz, hy, hx, hR, hO, hV, hP⟩ := accepted_structure_lemma cut hk hb R h
  by_cases hg : ∃ base, O.GapFree base
  · obtain ⟨base, hg⟩ := hg
    left
    exact ⟨base, O.lens, nz, ny, nx, hz, hy, hx, hR, hV, by rw [← ochunks_eq_chunks R O base hg]; exact hP⟩
  · right
    exact ⟨O, nz, ny, nx, hR, hO, hV, hP, fun base hgb => hg ⟨base, hgb⟩⟩

end AurelVerif.AcceptLemmas
