/-
Lemmas/C14FullIndep.lean — the plain feedback hypothesis (no item reads any
computed column: `FeedbackOKE`, the extension of `FeedbackOK` of Lemmas/Table.lean
to estimate columns) implies the dependency-aware hypothesis `FeedbackDep` of
Lemmas/C14FullRow.lean.  So the second split theorem (T4b) applies wherever the
hypothesis of the first one does.  Core Lean only.
-/
import AurelVerif.Lemmas.C14Full

namespace AurelVerif.Table
variable {C : Type}

/-- a requested item stored under its own name with the value computed from `r` alone -/
def VarEntry0 (E : Env C) (items : List CReq) (r : Row C) (kc : Name × C) : Prop :=
  ∃ c ∈ items, c.key = kc.1 ∧ kc.2 = c.val E r

def AllowedE0 (E : Env C) (items aests : List CReq) (SK : List Name) (r x : Row C) : Prop :=
  ∀ kc ∈ x, VarEntry0 E items r kc ∨ EstEntry E aests SK (r ++ x) kc

/-- **the plain feedback hypothesis, estimate columns included**: handing an `AurelCore` —
besides the step's dictionary `r` — variable columns and estimate columns that were computed
earlier from `r` itself does not change what it computes for any requested item (in
particular no item reads a custom variable). -/
def FeedbackOKE (E : Env C) (items aests : List CReq) (SK : List Name) (r : Row C) : Prop :=
  ∀ x : Row C, AllowedE0 E items aests SK r x → ∀ c ∈ items, c.val E (r ++ x) = c.val E r

theorem FeedbackOKE.toFeedbackOK {E : Env C} {items aests : List CReq} {SK : List Name} {r : Row C}
    (h : FeedbackOKE E items aests SK r) : FeedbackOK E items r :=
  fun x hx c hc => h x (fun kc hkc => Or.inl (hx kc hkc)) c hc

theorem allowedE0_custEntries (E : Env C) {items aests : List CReq} {SK : List Name} (r : Row C) {cv : List CReq}
    (hcv : ∀ v ∈ cv, v ∈ items) : AllowedE0 E items aests SK r (custEntries E r cv) := by
  intro kc hkc
  left
  simp only [custEntries, List.mem_filterMap] at hkc
  obtain ⟨v, hv, hvk⟩ := hkc
  cases v with
  | name s => simp at hvk
  | fn n f =>
    simp only [Option.some.injEq] at hvk
    subst hvk
    exact ⟨.fn n f, hcv _ hv, rfl, rfl⟩

/-- under the plain hypothesis the custom values of the single call are computed from `r` alone -/
theorem custVals_eq_custEntries (E : Env C) {items : List CReq} {r : Row C}
    (hfb : FeedbackOK E items r) (hnd : (items.map CReq.key).Nodup) (hfresh : ∀ v ∈ items, v.key ∉ keys r) :
    custVals E r items = custEntries E r items := by
  have h1 := runCustoms_eq E items r hnd hfresh
  have h2 := runCustoms_nf E hfb items [] (fun _ h => by simp at h) (fun v hv => hv) hnd (by simpa using hfresh)
  simp only [List.append_nil] at h2
  rw [h1] at h2
  exact List.append_cancel_left h2

/-- under the plain hypothesis the single-call value of an item is its value on `r` alone -/
theorem oneVal_eq_val (E : Env C) {items aests : List CReq} {SK : List Name} {r : Row C}
    (hfb : FeedbackOKE E items aests SK r) (hnd : (items.map CReq.key).Nodup)
    (hfresh : ∀ v ∈ items, v.key ∉ keys r) {c : CReq} (hc : c ∈ items) :
    oneVal E items r c = c.val E r := by
  unfold oneVal
  rw [custVals_eq_custEntries E hfb.toFeedbackOK hnd hfresh]
  have hn : c.key ∉ keys r := hfresh c hc
  unfold relGet
  cases c with
  | fn nm f =>
    simp only [CReq.key] at hn ⊢
    rw [get?_append_right hn, get?_custEntries_fn E r hnd hc]
    rfl
  | name s =>
    simp only [CReq.key] at hn ⊢
    have hn2 : s ∉ keys (custEntries E r items) := by
      intro hk
      obtain ⟨f, hf⟩ := keys_custEntries_subset E r items hk
      have := nodup_map_inj hnd hc hf rfl
      cases this
    rw [get?_append_right hn, get?_none_iff.mpr hn2]
    exact hfb _ (allowedE0_custEntries E r (fun v hv => hv)) (.name s) hc

/-- **the plain feedback hypothesis implies the dependency-aware one** -/
theorem FeedbackOKE.toFeedbackDep {E : Env C} {items aests : List CReq} {SK : List Name} {r : Row C}
    (hfb : FeedbackOKE E items aests SK r) (hnd : (items.map CReq.key).Nodup)
    (hfresh : ∀ v ∈ items, v.key ∉ keys r) : FeedbackDep E items aests SK r := by
  intro pre c post hit x hx _
  have hc : c ∈ items := by rw [hit]; simp
  rw [oneVal_eq_val E hfb hnd hfresh hc]
  apply hfb x _ c hc
  intro kc hkc
  rcases hx kc hkc with ⟨c', hc', h1, h2⟩ | h
  · exact Or.inl ⟨c', hc', h1, by rw [h2, oneVal_eq_val E hfb hnd hfresh hc']⟩
  · exact Or.inr h

/-- the hypotheses of T4b from the plain feedback hypothesis: every field as in `SplitHyp`
(values computed from the step's inputs alone), feedback extended to estimate columns -/
theorem SplitHypD.of_plain {E : Env C} {t : Table C} {n : Nat} {tk : Name} {vars ests : List Req}
    (wf : WF t n) (pos : 0 < n) (htk : temporalKey t = some tk) (sw : StrictWeak E.lt)
    (nodup : (reqKeys vars).Nodup) (notemp : ∀ x ∈ reqKeys vars, x ∉ temporalNames)
    (fb : ∀ r ∈ rowsOf t n, FeedbackOKE E (cleanVars E t vars) (allEsts E ests) (callSk E t vars) r)
    (rank_t : UniformRank E t)
    (rank_v : ∀ r ∈ rowsOf t n, ∀ r' ∈ rowsOf t n, ∀ c ∈ cleanVars E t vars, E.is3 (c.val E r) = E.is3 (c.val E r'))
    (rank_e : ∀ e ∈ allEsts E ests, ∀ c, E.is3 (estApply E e c) = false)
    (est_names : ∀ e ∈ allEsts E ests, ∀ e' ∈ allEsts E ests, e.key = e'.key → e = e')
    (est_fresh : ∀ e ∈ allEsts E ests, ∀ s ∈ callSk E t vars, estKey s e.key ∉ (cleanVars E t vars).map CReq.key)
    (est_inj : ∀ e ∈ allEsts E ests, ∀ e' ∈ allEsts E ests, ∀ s ∈ callSk E t vars, ∀ s' ∈ callSk E t vars,
      estKey s e.key = estKey s' e'.key → s = s' ∧ e.key = e'.key) :
    SplitHypD E t n tk vars ests := by
  have hnd := cleanVars_names_nodup E t nodup
  have hfr : ∀ r ∈ rowsOf t n, ∀ v ∈ cleanVars E t vars, v.key ∉ keys r := fun r hr v hv => by
    rw [keys_of_mem_rowsOf wf hr]; exact cleanVars_fresh E t vars hv
  refine ⟨wf, pos, htk, sw, nodup, notemp, fun r hr => (fb r hr).toFeedbackDep hnd (hfr r hr), rank_t, ?_, rank_e,
    est_names, est_fresh, est_inj⟩
  intro r hr r' hr' c hc
  rw [oneVal_eq_val E (fb r hr) hnd (hfr r hr) hc, oneVal_eq_val E (fb r' hr') hnd (hfr r' hr') hc]
  exact rank_v r hr r' hr' c hc

end AurelVerif.Table
