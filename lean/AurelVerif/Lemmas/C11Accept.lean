/-
Lemmas/C11Accept.lean — what follows from `joinGeneral cut = some R` (C11,
characterisation of the chunk dictionaries that `join_chunks` accepts).

A. list helpers (zipWith, slices).      B. one `np.append` that succeeded.
C. a fold of `np.append`s that succeeded (generic in the axis).
D. the three axes.   (E, F: Lemmas/C11AcceptPass.lean)
-/
import Mathlib.Data.List.Perm.Basic
import AurelVerif.Lemmas.Chunks
import AurelVerif.Spec.ChunkLayout
namespace AurelVerif.AcceptLemmas
open AurelVerif.Chunks AurelVerif.ChunksLemmas AurelVerif.ChunkLayout
set_option linter.unusedSimpArgs false
set_option linter.unusedVariables false

/-! ### A. list helpers -/

theorem zipWith_eq_right {β γ : Type} (f : β → γ → γ) :
    ∀ (a : List β) (b : List γ), a.length = b.length → (∀ x ∈ a, ∀ y ∈ b, f x y = y) → List.zipWith f a b = b
  | [], [], _, _ => rfl
  | [], _ :: _, h, _ => by simp at h
  | _ :: _, [], h, _ => by simp at h
  | x :: xs, y :: ys, h, hf => by
    simp only [List.zipWith_cons_cons]
    rw [hf x (List.mem_cons_self ..) y (List.mem_cons_self ..),
      zipWith_eq_right f xs ys (by simpa using h)
        (fun x' hx y' hy => hf x' (List.mem_cons_of_mem _ hx) y' (List.mem_cons_of_mem _ hy))]

theorem zipWith_eq_left {β γ : Type} (f : β → γ → β) :
    ∀ (a : List β) (b : List γ), a.length = b.length → (∀ x ∈ a, ∀ y ∈ b, f x y = x) → List.zipWith f a b = a
  | [], [], _, _ => rfl
  | [], _ :: _, h, _ => by simp at h
  | _ :: _, [], h, _ => by simp at h
  | x :: xs, y :: ys, h, hf => by
    simp only [List.zipWith_cons_cons]
    rw [hf x (List.mem_cons_self ..) y (List.mem_cons_self ..),
      zipWith_eq_left f xs ys (by simpa using h)
        (fun x' hx y' hy => hf x' (List.mem_cons_of_mem _ hx) y' (List.mem_cons_of_mem _ hy))]

theorem forall_mem_zipWith {β γ δ : Type} (f : β → γ → δ) (P : δ → Prop) :
    ∀ (a : List β) (b : List γ), (∀ x ∈ a, ∀ y ∈ b, P (f x y)) → ∀ z ∈ List.zipWith f a b, P z
  | [], _, _, z, hz => by simp at hz
  | _ :: _, [], _, z, hz => by simp at hz
  | x :: xs, y :: ys, h, z, hz => by
    simp only [List.zipWith_cons_cons, List.mem_cons] at hz
    rcases hz with rfl | hz
    · exact h x (List.mem_cons_self ..) y (List.mem_cons_self ..)
    · exact forall_mem_zipWith f P xs ys
        (fun x' hx y' hy => h x' (List.mem_cons_of_mem _ hx) y' (List.mem_cons_of_mem _ hy)) z hz

theorem slice_append_left {γ : Type} (r1 r2 : List γ) (n : Nat) (h : r1.length = n) :
    slice 0 n (r1 ++ r2) = r1 := by
  subst h; simp [slice]

theorem slice_append_right {γ : Type} (r1 r2 : List γ) (n l : Nat) (h1 : r1.length = n) (h2 : r2.length = l) :
    slice n l (r1 ++ r2) = r2 := by
  subst h1; subst h2; simp [slice]

theorem slice_take {γ : Type} (o l m : Nat) (r : List γ) (h : o + l ≤ m) :
    slice o l (r.take m) = slice o l r := by
  unfold slice
  rw [List.drop_take, List.take_take]
  congr 1
  omega

theorem slice_slice0 {γ : Type} (o l m : Nat) (r : List γ) (h : o + l ≤ m) :
    slice o l (slice 0 m r) = slice o l r := by
  have : slice 0 m r = r.take m := by simp [slice]
  rw [this, slice_take o l m r h]

theorem slice_full {γ : Type} (n : Nat) (r : List γ) (h : r.length = n) : slice 0 n r = r := by
  subst h; simp [slice]

/-! ### shapes -/

theorem rect_ne_nil {α : Type} {A : Arr3 α} {nz ny nx : Nat} (hA : Rect A nz ny nx) (hz : 0 < nz) : A ≠ [] := by
  intro e; subst e; have := hA.1; simp at this; omega

theorem rect_unique {α : Type} {A : Arr3 α} {a b c a' b' c' : Nat} (h : Rect A a b c) (h' : Rect A a' b' c')
    (ha : 0 < a) (hb : 0 < b) : a = a' ∧ b = b' ∧ c = c' := by
  have e1 : a = a' := by rw [← h.1, ← h'.1]
  have hb' : 0 < b' := by
    obtain ⟨p, hp⟩ := List.exists_mem_of_ne_nil A (rect_ne_nil h ha)
    have := (h.2 p hp).1; have := (h'.2 p hp).1; omega
  obtain ⟨d1, d2⟩ := rect_dims h ha hb
  obtain ⟨d1', d2'⟩ := rect_dims h' (by omega) hb'
  exact ⟨e1, by omega, by omega⟩

theorem rectPos_dims {α : Type} {b : Arr3 α} (h : RectPos b) :
    0 < b.length ∧ 0 < dim1 b ∧ 0 < dim2 b ∧ Rect b b.length (dim1 b) (dim2 b) := by
  obtain ⟨sz, sy, sx, hz, hy, hx, hr⟩ := h
  obtain ⟨d1, d2⟩ := rect_dims hr hz hy
  rw [d1, d2, hr.1]
  exact ⟨hz, hy, hx, hr⟩

/-! ### B. one `np.append` that did not raise -/

theorem cat0_inv {α : Type} (a b w : Arr3 α) (sy sx n : Nat) (hy : 0 < sy) (hn : 0 < n)
    (ha : Rect a n sy sx) (hb : RectPos b) (h : cat0 a b = some w) :
    Rect b b.length sy sx ∧ Rect w (n + b.length) sy sx ∧ slice0 0 n w = a ∧ slice0 n b.length w = b := by
  obtain ⟨hbz, hby, hbx, hbr⟩ := rectPos_dims hb
  obtain ⟨d1, d2⟩ := rect_dims ha hn hy
  unfold cat0 at h
  split at h
  · rename_i hc
    cases h
    have e1 : dim1 b = sy := by omega
    have e2 : dim2 b = sx := by omega
    rw [e1, e2] at hbr
    refine ⟨hbr, ⟨by simp [ha.1], ?_⟩, ?_, ?_⟩
    · intro p hp
      rcases List.mem_append.mp hp with hp | hp
      · exact ha.2 p hp
      · exact hbr.2 p hp
    · exact slice_append_left a b n ha.1
    · exact slice_append_right a b n b.length ha.1 rfl
  · cases h

theorem cat1_inv {α : Type} (a b w : Arr3 α) (sz sx n : Nat) (hz : 0 < sz) (hn : 0 < n)
    (ha : Rect a sz n sx) (hb : RectPos b) (h : cat1 a b = some w) :
    Rect b sz (dim1 b) sx ∧ Rect w sz (n + dim1 b) sx ∧ slice1 0 n w = a ∧ slice1 n (dim1 b) w = b := by
  obtain ⟨hbz, hby, hbx, hbr⟩ := rectPos_dims hb
  obtain ⟨d1, d2⟩ := rect_dims ha hz hn
  unfold cat1 at h
  split at h
  · rename_i hc
    cases h
    have e1 : b.length = sz := by have := ha.1; omega
    have e2 : dim2 b = sx := by omega
    rw [e1, e2] at hbr
    have hlen : a.length = b.length := hc.1
    refine ⟨hbr, ⟨by simp [ha.1, hbr.1], ?_⟩, ?_, ?_⟩
    · apply forall_mem_zipWith
      intro p hp q hq
      refine ⟨by simp [(ha.2 p hp).1, (hbr.2 q hq).1], ?_⟩
      intro r hr
      rcases List.mem_append.mp hr with hr | hr
      · exact (ha.2 p hp).2 r hr
      · exact (hbr.2 q hq).2 r hr
    · unfold slice1
      rw [List.map_zipWith]
      exact zipWith_eq_left _ a b hlen (fun p hp q _ => slice_append_left p q n (ha.2 p hp).1)
    · unfold slice1
      rw [List.map_zipWith]
      exact zipWith_eq_right _ a b hlen
        (fun p hp q hq => slice_append_right p q n (dim1 b) (ha.2 p hp).1 (hbr.2 q hq).1)
  · cases h

theorem cat2_inv {α : Type} (a b w : Arr3 α) (sz sy n : Nat) (hz : 0 < sz) (hy : 0 < sy)
    (ha : Rect a sz sy n) (hb : RectPos b) (h : cat2 a b = some w) :
    Rect b sz sy (dim2 b) ∧ Rect w sz sy (n + dim2 b) ∧ slice2 0 n w = a ∧ slice2 n (dim2 b) w = b := by
  obtain ⟨hbz, hby, hbx, hbr⟩ := rectPos_dims hb
  obtain ⟨d1, d2⟩ := rect_dims ha hz hy
  unfold cat2 at h
  split at h
  · rename_i hc
    cases h
    have e1 : b.length = sz := by have := ha.1; omega
    have e2 : dim1 b = sy := by omega
    rw [e1, e2] at hbr
    have hlen : a.length = b.length := hc.1
    refine ⟨hbr, ⟨by simp [ha.1, hbr.1], ?_⟩, ?_, ?_⟩
    · apply forall_mem_zipWith
      intro p hp q hq
      refine ⟨by simp [(ha.2 p hp).1, (hbr.2 q hq).1], ?_⟩
      apply forall_mem_zipWith
      intro r hr s hs
      simp [(ha.2 p hp).2 r hr, (hbr.2 q hq).2 s hs]
    · unfold slice2
      rw [List.map_zipWith]
      apply zipWith_eq_left _ a b hlen
      intro p hp q hq
      rw [List.map_zipWith]
      exact zipWith_eq_left _ p q (by rw [(ha.2 p hp).1, (hbr.2 q hq).1])
        (fun r hr s _ => slice_append_left r s n ((ha.2 p hp).2 r hr))
    · unfold slice2
      rw [List.map_zipWith]
      apply zipWith_eq_right _ a b hlen
      intro p hp q hq
      rw [List.map_zipWith]
      exact zipWith_eq_right _ p q (by rw [(ha.2 p hp).1, (hbr.2 q hq).1])
        (fun r hr s hs => slice_append_right r s n (dim2 b) ((ha.2 p hp).2 r hr) ((hbr.2 q hq).2 s hs))
  · cases h

/-! ### C. a fold of `np.append`s that did not raise -/

theorem foldlM_inv {β : Type} (cat : β → β → Option β) (len : β → Nat) (Inv : Nat → β → Prop) (Ok Cross : β → Prop)
    (sl : Nat → Nat → β → β)
    (hstep : ∀ n a b w, Inv n a → Ok b → cat a b = some w →
      Cross b ∧ Inv (n + len b) w ∧ sl 0 n w = a ∧ sl n (len b) w = b)
    (hsl : ∀ o l m w, o + l ≤ m → sl o l (sl 0 m w) = sl o l w)
    (hfull : ∀ n a, Inv n a → sl 0 n a = a) :
    ∀ (bs : List β) (acc : β) (n : Nat) (w : β), Inv n acc → (∀ b ∈ bs, Ok b) → bs.foldlM cat acc = some w →
      Inv (n + (bs.map len).sum) w ∧ sl 0 n w = acc ∧ (∀ b ∈ bs, Cross b)
        ∧ (cuts n (bs.map len)).map (fun c => sl c.1 c.2 w) = bs := by
  intro bs
  induction bs with
  | nil =>
    intro acc n w hinv _ h
    simp only [List.foldlM_nil] at h
    cases h
    exact ⟨by simpa using hinv, hfull n acc hinv, by simp, by simp [cuts]⟩
  | cons b rest ih =>
    intro acc n w hinv hok h
    simp only [List.foldlM_cons] at h
    cases hc : cat acc b with
    | none => simp [hc] at h
    | some acc' =>
      simp only [hc] at h
      obtain ⟨hcr, hinv', hs0, hs1⟩ := hstep n acc b acc' hinv (hok b (List.mem_cons_self ..)) hc
      obtain ⟨i1, i2, i3, i4⟩ := ih acc' (n + len b) w hinv' (fun x hx => hok x (List.mem_cons_of_mem _ hx)) h
      refine ⟨by simpa [Nat.add_assoc] using i1, ?_, ?_, ?_⟩
      · rw [← hsl 0 n (n + len b) w (by omega), i2, hs0]
      · intro x hx
        rcases List.mem_cons.mp hx with rfl | hx
        · exact hcr
        · exact i3 x hx
      · simp only [List.map_cons, cuts, i4, List.cons.injEq, and_true]
        rw [← hsl n (len b) (n + len b) w (Nat.le_refl _), i2, hs1]

/-- `foldCat` = first piece, then the fold -/
theorem foldCat_inv {β : Type} (cat : β → β → Option β) (len : β → Nat) (Inv : Nat → β → Prop) (Ok Cross : β → Prop)
    (sl : Nat → Nat → β → β)
    (hstep : ∀ n a b w, Inv n a → Ok b → cat a b = some w →
      Cross b ∧ Inv (n + len b) w ∧ sl 0 n w = a ∧ sl n (len b) w = b)
    (hsl : ∀ o l m w, o + l ≤ m → sl o l (sl 0 m w) = sl o l w)
    (hfull : ∀ n a, Inv n a → sl 0 n a = a)
    (b1 : β) (bs : List β) (w : β) (h1 : Inv (len b1) b1) (hok : ∀ b ∈ bs, Ok b)
    (h : foldCat cat (b1 :: bs) = some w) :
    Inv (((b1 :: bs).map len).sum) w ∧ (∀ b ∈ bs, Cross b)
      ∧ (cuts 0 ((b1 :: bs).map len)).map (fun c => sl c.1 c.2 w) = b1 :: bs := by
  obtain ⟨i1, i2, i3, i4⟩ := foldlM_inv cat len Inv Ok Cross sl hstep hsl hfull bs b1 (len b1) w h1 hok h
  refine ⟨by simpa using i1, i3, ?_⟩
  simp only [List.map_cons, cuts, Nat.zero_add, i2, List.cons.injEq, true_and]
  exact i4

/-! ### D. the three axes -/

theorem slice2_slice2 {α : Type} (o l m : Nat) (w : Arr3 α) (h : o + l ≤ m) :
    slice2 o l (slice2 0 m w) = slice2 o l w := by
  unfold slice2
  rw [List.map_map]
  apply List.map_congr_left
  intro p _
  simp only [Function.comp, List.map_map]
  apply List.map_congr_left
  intro r _
  exact slice_slice0 o l m r h

theorem slice1_slice1 {α : Type} (o l m : Nat) (w : Arr3 α) (h : o + l ≤ m) :
    slice1 o l (slice1 0 m w) = slice1 o l w := by
  unfold slice1
  rw [List.map_map]
  apply List.map_congr_left
  intro p _
  exact slice_slice0 o l m p h

theorem slice0_slice0 {α : Type} (o l m : Nat) (w : Arr3 α) (h : o + l ≤ m) :
    slice0 o l (slice0 0 m w) = slice0 o l w := slice_slice0 o l m w h

theorem slice2_full {α : Type} (a : Arr3 α) (sz sy n : Nat) (ha : Rect a sz sy n) : slice2 0 n a = a := by
  unfold slice2
  conv => rhs; rw [← List.map_id a]
  apply List.map_congr_left
  intro p hp
  conv => rhs; rw [id, ← List.map_id p]
  apply List.map_congr_left
  intro r hr
  exact slice_full n r ((ha.2 p hp).2 r hr)

theorem slice1_full {α : Type} (a : Arr3 α) (sz n sx : Nat) (ha : Rect a sz n sx) : slice1 0 n a = a := by
  unfold slice1
  conv => rhs; rw [← List.map_id a]
  apply List.map_congr_left
  intro p hp
  exact slice_full n p (ha.2 p hp).1

theorem slice0_full {α : Type} (a : Arr3 α) (n sy sx : Nat) (ha : Rect a n sy sx) : slice0 0 n a = a :=
  slice_full n a ha.1

/-- pieces appended along x without an error: same z- and y-extents, and every
piece is the x-slice of the result at the cumulative offset of the lengths -/
theorem foldCat_cat2_inv {α : Type} (bs : List (Arr3 α)) (w : Arr3 α) (hok : ∀ b ∈ bs, RectPos b)
    (h : foldCat cat2 bs = some w) :
    ∃ sz sy, 0 < sz ∧ 0 < sy ∧ 0 < ((bs.map dim2).sum) ∧ Rect w sz sy ((bs.map dim2).sum)
      ∧ (∀ b ∈ bs, Rect b sz sy (dim2 b) ∧ 0 < dim2 b)
      ∧ (cuts 0 (bs.map dim2)).map (fun c => slice2 c.1 c.2 w) = bs := by
  cases bs with
  | nil => simp [foldCat] at h
  | cons b1 rest =>
    obtain ⟨h1z, h1y, h1x, h1r⟩ := rectPos_dims (hok b1 (List.mem_cons_self ..))
    obtain ⟨i1, i3, i4⟩ := foldCat_inv cat2 dim2 (fun n a => Rect a b1.length (dim1 b1) n)
      RectPos (fun b => Rect b b1.length (dim1 b1) (dim2 b)) slice2
      (fun n a b w' ha hb hc => by
        obtain ⟨r1, r2, r3, r4⟩ := cat2_inv a b w' b1.length (dim1 b1) n h1z h1y ha hb hc
        exact ⟨r1, r2, r3, r4⟩)
      (fun o l m w' hle => slice2_slice2 o l m w' hle)
      (fun n a ha => slice2_full a _ _ n ha)
      b1 rest w h1r (fun b hb => hok b (List.mem_cons_of_mem _ hb)) h
    refine ⟨b1.length, dim1 b1, h1z, h1y, by simp only [List.map_cons, List.sum_cons]; omega, i1, ?_, i4⟩
    intro b hb
    rcases List.mem_cons.mp hb with rfl | hb'
    · exact ⟨h1r, h1x⟩
    · exact ⟨i3 b hb', (rectPos_dims (hok b hb)).2.2.1⟩

theorem foldCat_cat1_inv {α : Type} (bs : List (Arr3 α)) (w : Arr3 α) (hok : ∀ b ∈ bs, RectPos b)
    (h : foldCat cat1 bs = some w) :
    ∃ sz sx, 0 < sz ∧ 0 < sx ∧ 0 < ((bs.map dim1).sum) ∧ Rect w sz ((bs.map dim1).sum) sx
      ∧ (∀ b ∈ bs, Rect b sz (dim1 b) sx ∧ 0 < dim1 b)
      ∧ (cuts 0 (bs.map dim1)).map (fun c => slice1 c.1 c.2 w) = bs := by
  cases bs with
  | nil => simp [foldCat] at h
  | cons b1 rest =>
    obtain ⟨h1z, h1y, h1x, h1r⟩ := rectPos_dims (hok b1 (List.mem_cons_self ..))
    obtain ⟨i1, i3, i4⟩ := foldCat_inv cat1 dim1 (fun n a => 0 < n ∧ Rect a b1.length n (dim2 b1))
      RectPos (fun b => Rect b b1.length (dim1 b) (dim2 b1)) slice1
      (fun n a b w' ha hb hc => by
        obtain ⟨r1, r2, r3, r4⟩ := cat1_inv a b w' b1.length (dim2 b1) n h1z ha.1 ha.2 hb hc
        exact ⟨r1, ⟨by omega, r2⟩, r3, r4⟩)
      (fun o l m w' hle => slice1_slice1 o l m w' hle)
      (fun n a ha => slice1_full a _ n _ ha.2)
      b1 rest w ⟨h1y, h1r⟩ (fun b hb => hok b (List.mem_cons_of_mem _ hb)) h
    refine ⟨b1.length, dim2 b1, h1z, h1x, i1.1, i1.2, ?_, i4⟩
    intro b hb
    rcases List.mem_cons.mp hb with rfl | hb'
    · exact ⟨h1r, h1y⟩
    · exact ⟨i3 b hb', (rectPos_dims (hok b hb)).2.1⟩

theorem foldCat_cat0_inv {α : Type} (bs : List (Arr3 α)) (w : Arr3 α) (hok : ∀ b ∈ bs, RectPos b)
    (h : foldCat cat0 bs = some w) :
    ∃ sy sx, 0 < sy ∧ 0 < sx ∧ 0 < ((bs.map List.length).sum) ∧ Rect w ((bs.map List.length).sum) sy sx
      ∧ (∀ b ∈ bs, Rect b b.length sy sx ∧ 0 < b.length)
      ∧ (cuts 0 (bs.map List.length)).map (fun c => slice0 c.1 c.2 w) = bs := by
  cases bs with
  | nil => simp [foldCat] at h
  | cons b1 rest =>
    obtain ⟨h1z, h1y, h1x, h1r⟩ := rectPos_dims (hok b1 (List.mem_cons_self ..))
    obtain ⟨i1, i3, i4⟩ := foldCat_inv cat0 List.length (fun n a => 0 < n ∧ Rect a n (dim1 b1) (dim2 b1))
      RectPos (fun b => Rect b b.length (dim1 b1) (dim2 b1)) slice0
      (fun n a b w' ha hb hc => by
        obtain ⟨r1, r2, r3, r4⟩ := cat0_inv a b w' (dim1 b1) (dim2 b1) n h1y ha.1 ha.2 hb hc
        exact ⟨r1, ⟨by omega, r2⟩, r3, r4⟩)
      (fun o l m w' hle => slice0_slice0 o l m w' hle)
      (fun n a ha => slice0_full a n _ _ ha.2)
      b1 rest w ⟨h1z, h1r⟩ (fun b hb => hok b (List.mem_cons_of_mem _ hb)) h
    refine ⟨dim1 b1, dim2 b1, h1y, h1x, i1.1, i1.2, ?_, i4⟩
    intro b hb
    rcases List.mem_cons.mp hb with rfl | hb'
    · exact ⟨h1r, h1z⟩
    · exact ⟨i3 b hb', (rectPos_dims (hok b hb)).1⟩

end AurelVerif.AcceptLemmas
