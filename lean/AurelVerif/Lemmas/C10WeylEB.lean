/-
Lemmas/C10WeylEB.lean — the Weyl tensor built from E, B and the unit normal (textbook expression
`Spec.Weyl.weylEB`, no generated code here): contraction with `n n` gives back `E`, contraction
with `n n ε/2` gives back `B`, and the tensor is trace-free on every index pair.

Proof style: every index manipulation is a small `have` written with `∑` (closed by rewriting with
a hypothesis under the binders), and the remaining polynomial identity is checked by
`simp only [Fin.sum_univ_four]; ring`.
-/
import AurelVerif.Spec.WeylEB
import AurelVerif.Lemmas.C10Weyl

set_option linter.unusedSimpArgs false
set_option linter.unusedVariables false

namespace AurelVerif.C10
open AurelVerif.Spec.Weyl

variable {K : Type} [Field K]

/-- expand all index sums over `Fin 4`, then `ring`. -/
macro "sum4_ring" : tactic => `(tactic| (simp only [Fin.sum_univ_four]; ring))

/-- a symmetric array contracted with an antisymmetric one vanishes (characteristic ≠ 2). -/
theorem sum_sym_antisym {n : Nat} (h2 : (2 : K) ≠ 0) (S A : Fin n → Fin n → K)
    (hS : ∀ i j, S i j = S j i) (hA : ∀ i j, A i j = -A j i) : ∑ i, ∑ j, S i j * A i j = 0 := by
  have h : ∑ i, ∑ j, S i j * A i j = -∑ i, ∑ j, S i j * A i j := by
    calc ∑ i, ∑ j, S i j * A i j = ∑ j, ∑ i, S i j * A i j := Finset.sum_comm
      _ = ∑ j, ∑ i, -(S j i * A j i) :=
          Finset.sum_congr rfl fun j _ => Finset.sum_congr rfl fun i _ => by rw [hS i j, hA i j]; ring
      _ = -∑ i, ∑ j, S i j * A i j := by simp only [Finset.sum_neg_distrib]
  have h' : (2 : K) * ∑ i, ∑ j, S i j * A i j = 0 := by linear_combination h
  rcases mul_eq_zero.mp h' with h0 | h0
  · exact absurd h0 h2
  · exact h0

section frame
variable {g gup : Fin 4 → Fin 4 → K} {nd nu : Fin 4 → K}

theorem un_hinv' (h : UnitNormal g gup nd nu) (c d : Fin 4) :
    ∑ a, gup a c * g a d = if c = d then 1 else 0 := by
  rw [← h.hinv c d]; exact Finset.sum_congr rfl fun a _ => by rw [h.hgu a c]

theorem un_hinv'' (h : UnitNormal g gup nd nu) (a b : Fin 4) :
    ∑ c, gup a c * g b c = if a = b then 1 else 0 := by
  rw [← h.hinv a b]; exact Finset.sum_congr rfl fun c _ => by rw [h.hg b c]

/-- `n^a = g^{ab} n_b`. -/
theorem un_raise (h : UnitNormal g gup nd nu) (a : Fin 4) : ∑ b, gup a b * nd b = nu a := by
  have H : ∑ c, (∑ b, gup a b * g b c) * nu c = ∑ c, (if a = c then 1 else 0) * nu c := by
    simp only [h.hinv]
  have H2 : ∑ c, (if a = c then (1 : K) else 0) * nu c = nu a := by simp
  simp only [h.hnd]
  linear_combination (norm := sum4_ring) H + H2

theorem un_raise' (h : UnitNormal g gup nd nu) (c : Fin 4) : ∑ a, gup a c * nd a = nu c := by
  rw [← (un_raise h) c]; exact Finset.sum_congr rfl fun a _ => by rw [h.hgu a c]

/-- `g_ab n^b = n_a` in the other index placement. -/
theorem un_lower' (h : UnitNormal g gup nd nu) (b : Fin 4) : ∑ a, nu a * g a b = nd b := by
  rw [h.hnd b]; exact Finset.sum_congr rfl fun a _ => by rw [h.hg a b]; ring

theorem un_dim (h : UnitNormal g gup nd nu) : ∑ a, ∑ c, gup a c * g a c = 4 := by
  have : ∀ a, ∑ c, gup a c * g a c = 1 := fun a => by rw [(un_hinv'' h) a a, if_pos rfl]
  simp only [this, Fin.sum_univ_four]; norm_num

/-- `l_ad n^d = −n_a` for `l = g + 2 n n`. -/
theorem lproj_normal (h : UnitNormal g gup nd nu) (a : Fin 4) : ∑ d, lproj g nd a d * nu d = -nd a := by
  have h1 := h.hnd a
  have h2 := h.hnn
  unfold lproj
  simp only [Fin.sum_univ_four] at h1 h2 ⊢
  linear_combination (-1 : K) * h1 + 2 * nd a * h2

theorem lproj_normal' (h : UnitNormal g gup nd nu) (d : Fin 4) : ∑ a, lproj g nd a d * nu a = -nd d := by
  rw [← lproj_normal h d]
  exact Finset.sum_congr rfl fun a _ => by rw [lproj_symm g nd h.hg a d]

/-- `g^{ac} l_ad = δ^c_d + 2 n^c n_d`. -/
theorem lproj_raise (h : UnitNormal g gup nd nu) (c d : Fin 4) :
    ∑ a, gup a c * lproj g nd a d = (if c = d then 1 else 0) + 2 * nu c * nd d := by
  have h1 := (un_hinv' h) c d
  have h2 := (un_raise' h) c
  unfold lproj
  simp only [Fin.sum_univ_four] at h1 h2 ⊢
  linear_combination h1 + 2 * nd d * h2

theorem lproj_raise' (h : UnitNormal g gup nd nu) (a b : Fin 4) :
    ∑ c, gup a c * lproj g nd b c = (if a = b then 1 else 0) + 2 * nu a * nd b := by
  have h1 := (un_hinv'' h) a b
  have h2 := (un_raise h) a
  unfold lproj
  simp only [Fin.sum_univ_four] at h1 h2 ⊢
  linear_combination h1 + 2 * nd b * h2

/-- `g^{ac} l_ac = 2`. -/
theorem lproj_trace (h : UnitNormal g gup nd nu) : ∑ a, ∑ c, gup a c * lproj g nd a c = 2 := by
  have h1 := (un_dim h)
  have h2 : ∑ c, (∑ a, gup a c * nd a) * nd c = ∑ c, nu c * nd c := by simp only [(un_raise' h)]
  have h3 := h.hnn
  unfold lproj
  linear_combination (norm := sum4_ring) h1 + 2 * h2 + 2 * h3

/-! ### the embedded 3-D Levi-Civita tensor `ε^e{}_{ab} = g^{ec} n^d ε_{dcab}` -/

variable {LC : Fin 4 → Fin 4 → Fin 4 → Fin 4 → K}

theorem ta_s14 (hLC : TotAntisym LC) (a b c d : Fin 4) : LC a b c d = -LC d b c a := by
  rw [hLC.s12 a b c d, hLC.s23 b a c d, hLC.s34 b c a d, hLC.s23 b c d a, hLC.s12 b d c a, hLC.s23 d b c a]
  rw [hLC.s23 d c b a]; ring

theorem ta_s13 (hLC : TotAntisym LC) (a b c d : Fin 4) : LC a b c d = -LC c b a d := by
  rw [hLC.s12 a b c d, hLC.s23 b a c d, hLC.s12 b c a d]; ring

theorem ta_s24 (hLC : TotAntisym LC) (a b c d : Fin 4) : LC a b c d = -LC a d c b := by
  rw [hLC.s23 a b c d, hLC.s34 a c b d, hLC.s23 a c d b]; ring

/-- `ε^e{}_{ab} n^b = 0`. -/
theorem epsUdd_normal (h2 : (2 : K) ≠ 0) (hLC : TotAntisym LC) (gup : Fin 4 → Fin 4 → K) (nu : Fin 4 → K)
    (e a : Fin 4) : ∑ b, epsUdd gup nu LC e a b * nu b = 0 := by
  have key : ∀ c, ∑ d, ∑ b, (nu d * nu b) * LC d c a b = 0 := fun c =>
    sum_sym_antisym h2 (fun d b => nu d * nu b) (fun d b => LC d c a b) (fun d b => mul_comm _ _)
      (fun d b => (ta_s14 hLC) d c a b)
  have H : ∑ c, gup e c * ∑ d, ∑ b, (nu d * nu b) * LC d c a b = 0 := by
    simp only [key, mul_zero, Finset.sum_const_zero]
  unfold epsUdd
  linear_combination (norm := sum4_ring) H

/-- `n^a ε^e{}_{ab} = 0`. -/
theorem epsUdd_normal' (h2 : (2 : K) ≠ 0) (hLC : TotAntisym LC) (gup : Fin 4 → Fin 4 → K) (nu : Fin 4 → K)
    (e b : Fin 4) : ∑ a, nu a * epsUdd gup nu LC e a b = 0 := by
  rw [← neg_eq_zero, ← epsUdd_normal h2 hLC gup nu e b, ← Finset.sum_neg_distrib]
  refine Finset.sum_congr rfl fun a _ => ?_
  rw [epsUdd_antisymm gup nu LC (fun d c a b => hLC.s34 d c a b) e b a]; ring

/-- `g^{ac} S_{ce} ε^e{}_{ab} = 0` for symmetric `S`. -/
theorem epsUdd_sym (h2 : (2 : K) ≠ 0) (hLC : TotAntisym LC) (gup : Fin 4 → Fin 4 → K) (hgu : Symm gup)
    (nu : Fin 4 → K) (S : Fin 4 → Fin 4 → K) (hS : Symm S) (b : Fin 4) :
    ∑ a, ∑ c, ∑ e, gup a c * S c e * epsUdd gup nu LC e a b = 0 := by
  have hM : ∀ a c', (∑ c, ∑ e, gup a c * S c e * gup e c') = ∑ c, ∑ e, gup c' c * S c e * gup e a := by
    intro a c'
    rw [Finset.sum_comm]
    exact Finset.sum_congr rfl fun e _ => Finset.sum_congr rfl fun c _ => by
      rw [hgu a c, hS c e, hgu e c']; ring
  have key : ∀ d', ∑ a, ∑ c', (∑ c, ∑ e, gup a c * S c e * gup e c') * LC d' c' a b = 0 := fun d' =>
    sum_sym_antisym h2 (fun a c' => ∑ c, ∑ e, gup a c * S c e * gup e c') (fun a c' => LC d' c' a b)
      (fun a c' => hM a c') (fun a c' => hLC.s23 d' c' a b)
  have H : ∑ d', nu d' * ∑ a, ∑ c', (∑ c, ∑ e, gup a c * S c e * gup e c') * LC d' c' a b = 0 := by
    simp only [key, mul_zero, Finset.sum_const_zero]
  unfold epsUdd
  linear_combination (norm := sum4_ring) H

theorem epsUdd_sym' (h2 : (2 : K) ≠ 0) (hLC : TotAntisym LC) (gup : Fin 4 → Fin 4 → K) (hgu : Symm gup)
    (nu : Fin 4 → K) (S : Fin 4 → Fin 4 → K) (hS : Symm S) (d : Fin 4) :
    ∑ a, ∑ c, ∑ e, gup a c * S a e * epsUdd gup nu LC e c d = 0 := by
  rw [← epsUdd_sym h2 hLC gup hgu nu S hS d, Finset.sum_comm]
  exact Finset.sum_congr rfl fun a _ => Finset.sum_congr rfl fun c _ => Finset.sum_congr rfl fun e _ => by
    rw [hgu a c]

/-! ### `C_abcd n^b n^d = E_ac` -/

/-- **electric part recovered**: for a unit normal and a symmetric `E` tangent to the slice, the
contraction of the E/B expression with `n n` is `E` (no hypothesis on `B`). -/
theorem weylEB_electric (h2 : (2 : K) ≠ 0) (h : UnitNormal g gup nd nu) (hLC : TotAntisym LC)
    (E B : Fin 4 → Fin 4 → K) (hEs : Symm E) (hEn : Spatial E nu) (a c : Fin 4) :
    eweylU (weylEB (lproj g nd) E B nd (epsUdd gup nu LC)) nu a c = E a c := by
  have hEn' : ∀ a, ∑ d, E d a * nu d = 0 := fun a => by
    rw [← hEn a]; exact Finset.sum_congr rfl fun d _ => by rw [hEs d a]
  have l1 := lproj_normal h
  have l1' := lproj_normal' h
  have e1 := epsUdd_normal h2 hLC gup nu
  have hnn := h.hnn
  have hca := hEs c a
  generalize lproj g nd = l at l1 l1'
  generalize epsUdd gup nu LC = eps at e1
  have H1 : l a c * ∑ d, nu d * ∑ b, E d b * nu b = 0 := by
    simp only [hEn _, mul_zero, Finset.sum_const_zero]
  have H2 : (∑ d, l a d * nu d) * ∑ b, E c b * nu b = 0 := by rw [hEn c, mul_zero]
  have H3 : (∑ b, l b c * nu b) * ∑ d, E d a * nu d = 0 := by rw [hEn' a, mul_zero]
  have H4 : ∑ b, nu b * ∑ d, l b d * nu d = ∑ b, nu b * -nd b := by simp only [l1]
  have H5 : ∑ d, ∑ e, nu d * (nd c * B d e - nd d * B c e) * ∑ b, eps e a b * nu b = 0 := by
    simp only [e1, mul_zero, Finset.sum_const_zero]
  have H6 : ∑ b, ∑ e, nu b * (nd a * B b e - nd b * B a e) * ∑ d, eps e c d * nu d = 0 := by
    simp only [e1, mul_zero, Finset.sum_const_zero]
  unfold eweylU weylEB
  linear_combination (norm := sum4_ring) H1 - H2 - H3 + E c a * H4 - E c a * hnn - H5 - H6 + hca


/-! ### trace-freeness -/

/-- **`g^{ac} C_abcd = 0`** for the E/B expression: unit normal, `E` symmetric, tangent to the slice and
trace-free, `B` symmetric (nothing else about `B`). -/
theorem weylEB_trace13 (h2 : (2 : K) ≠ 0) (h : UnitNormal g gup nd nu) (hLC : TotAntisym LC)
    (E B : Fin 4 → Fin 4 → K) (hEs : Symm E) (hEn : Spatial E nu) (hEt : traceG4 gup E = 0) (hBs : Symm B)
    (b d : Fin 4) :
    ∑ a, ∑ c, gup a c * weylEB (lproj g nd) E B nd (epsUdd gup nu LC) a b c d = 0 := by
  have hEn' : ∀ a, ∑ c, E c a * nu c = 0 := fun a => by
    rw [← hEn a]; exact Finset.sum_congr rfl fun c _ => by rw [hEs c a]
  have P1 := lproj_trace h
  have H2 : ∑ c, (∑ a, gup a c * lproj g nd a d) * E c b
      = ∑ c, ((if c = d then 1 else 0) + 2 * nu c * nd d) * E c b := by simp only [lproj_raise h]
  have H2b : ∑ c, (if c = d then (1 : K) else 0) * E c b = E d b := by simp
  have H2c := hEn' b
  have H3 : ∑ a, (∑ c, gup a c * lproj g nd b c) * E d a
      = ∑ a, ((if a = b then 1 else 0) + 2 * nu a * nd b) * E d a := by simp only [lproj_raise' h]
  have H3b : ∑ a, (if a = b then (1 : K) else 0) * E d a = E d b := by simp
  have H3c := hEn d
  have H4 : ∑ a, ∑ c, gup a c * E c a = 0 := by
    rw [← hEt]; unfold traceG4
    exact Finset.sum_congr rfl fun a _ => Finset.sum_congr rfl fun c _ => by rw [hEs c a]
  have e1' := epsUdd_normal' h2 hLC gup nu
  have B1a : ∑ e, B d e * ∑ a, (∑ c, gup a c * nd c) * epsUdd gup nu LC e a b
      = ∑ e, B d e * ∑ a, nu a * epsUdd gup nu LC e a b := by simp only [un_raise h]
  have B1b : ∑ e, B d e * ∑ a, nu a * epsUdd gup nu LC e a b = 0 := by
    simp only [e1', mul_zero, Finset.sum_const_zero]
  have B1c := epsUdd_sym h2 hLC gup h.hgu nu B hBs b
  have B2a : ∑ e, B b e * ∑ c, (∑ a, gup a c * nd a) * epsUdd gup nu LC e c d
      = ∑ e, B b e * ∑ c, nu c * epsUdd gup nu LC e c d := by simp only [un_raise' h]
  have B2b : ∑ e, B b e * ∑ c, nu c * epsUdd gup nu LC e c d = 0 := by
    simp only [e1', mul_zero, Finset.sum_const_zero]
  have B2c := epsUdd_sym' h2 hLC gup h.hgu nu B hBs d
  unfold weylEB
  unfold traceG4 at hEt
  linear_combination (norm := sum4_ring) E d b * P1 - (H2 + H2b + 2 * nd d * H2c)
    - (H3 + H3b + 2 * nd b * H3c) + lproj g nd b d * H4 - (B1a + B1b) + nd d * B1c - (B2a + B2b) + nd b * B2c

/-- a tensor with the Riemann symmetries whose (1,3) trace vanishes is trace-free on every index pair. -/
theorem traceFreeAll_of_trace13 (h2 : (2 : K) ≠ 0) (gup : Fin 4 → Fin 4 → K) (hgu : Symm gup)
    (C : Fin 4 → Fin 4 → Fin 4 → Fin 4 → K) (hC : RiemannSym C)
    (t13 : ∀ b d, ∑ a, ∑ c, gup a c * C a b c d = 0) : TraceFreeAll gup C := by
  refine ⟨fun c d => ?_, t13, fun b c => ?_, fun a d => ?_, fun a c => ?_, fun a b => ?_⟩
  · exact sum_sym_antisym h2 gup (fun a b => C a b c d) hgu (fun a b => hC.anti12 a b c d)
  · rw [← neg_eq_zero, ← t13 b c, ← Finset.sum_neg_distrib]
    exact Finset.sum_congr rfl fun a _ => by
      rw [← Finset.sum_neg_distrib]
      exact Finset.sum_congr rfl fun d _ => by rw [hC.anti34 a b c d]; ring
  · rw [← neg_eq_zero, ← t13 a d, ← Finset.sum_neg_distrib]
    exact Finset.sum_congr rfl fun b _ => by
      rw [← Finset.sum_neg_distrib]
      exact Finset.sum_congr rfl fun c _ => by rw [hC.anti12 a b c d]; ring
  · rw [← t13 a c]
    exact Finset.sum_congr rfl fun b _ => Finset.sum_congr rfl fun d _ => by
      rw [hC.anti12 a b c d, hC.anti34 b a c d]; ring
  · exact sum_sym_antisym h2 gup (fun c d => C a b c d) hgu (fun c d => hC.anti34 a b c d)

/-! ### `½ C_abcd ε^{cd}{}_{ef} n^b n^f = B_ae` -/

/-- `n^b C_abcd = n_c E_da − n_d E_ca − B_ae ε^e{}_{cd}`. -/
theorem weylEB_normal2 (h2 : (2 : K) ≠ 0) (h : UnitNormal g gup nd nu) (hLC : TotAntisym LC)
    (E B : Fin 4 → Fin 4 → K) (hEn : Spatial E nu) (hBs : Symm B) (hBn : Spatial B nu) (a c d : Fin 4) :
    ∑ b, nu b * weylEB (lproj g nd) E B nd (epsUdd gup nu LC) a b c d
      = nd c * E d a - nd d * E c a - ∑ e, B a e * epsUdd gup nu LC e c d := by
  have hBn' : ∀ e, ∑ b, B b e * nu b = 0 := fun e => by
    rw [← hBn e]; exact Finset.sum_congr rfl fun b _ => by rw [hBs b e]
  have A1 := hEn d
  have A2 := hEn c
  have A3 := lproj_normal' h c
  have A4 := lproj_normal' h d
  have e1 := epsUdd_normal h2 hLC gup nu
  have A5 : ∑ e, (nd c * B d e - nd d * B c e) * ∑ b, epsUdd gup nu LC e a b * nu b = 0 := by
    simp only [e1, mul_zero, Finset.sum_const_zero]
  have A6 : ∑ e, (nd a * ∑ b, B b e * nu b) * epsUdd gup nu LC e c d = 0 := by
    simp only [hBn', mul_zero, zero_mul, Finset.sum_const_zero]
  have hnn := h.hnn
  unfold weylEB
  linear_combination (norm := sum4_ring) lproj g nd a c * A1 - lproj g nd a d * A2 - E d a * A3 + E c a * A4
    - A5 - A6 + (∑ e, B a e * epsUdd gup nu LC e c d) * hnn

/-- `n_c ε^{cd}{}_{ef} n^f = 0` and `n_d ε^{cd}{}_{ef} n^f = 0`. -/
theorem epsUudd_normal (h2 : (2 : K) ≠ 0) (h : UnitNormal g gup nd nu) (hLC : TotAntisym LC) (e : Fin 4) :
    (∀ d, ∑ c, ∑ f, nu f * nd c * epsUudd gup LC c d e f = 0)
    ∧ ∀ c, ∑ d, ∑ f, nu f * nd d * epsUudd gup LC c d e f = 0 := by
  constructor
  · intro d
    have key : ∀ b', ∑ a', ∑ f, (nu a' * nu f) * LC a' b' e f = 0 := fun b' =>
      sum_sym_antisym h2 (fun a' f => nu a' * nu f) (fun a' f => LC a' b' e f) (fun _ _ => mul_comm _ _)
        (fun a' f => ta_s14 hLC a' b' e f)
    have K1 : ∑ b', gup b' d * ∑ a', ∑ f, ((∑ c, gup a' c * nd c) * nu f) * LC a' b' e f
        = ∑ b', gup b' d * ∑ a', ∑ f, (nu a' * nu f) * LC a' b' e f := by simp only [un_raise h]
    have K2 : ∑ b', gup b' d * ∑ a', ∑ f, (nu a' * nu f) * LC a' b' e f = 0 := by
      simp only [key, mul_zero, Finset.sum_const_zero]
    unfold epsUudd
    linear_combination (norm := sum4_ring) K1 + K2
  · intro c
    have key : ∀ a', ∑ b', ∑ f, (nu b' * nu f) * LC a' b' e f = 0 := fun a' =>
      sum_sym_antisym h2 (fun b' f => nu b' * nu f) (fun b' f => LC a' b' e f) (fun _ _ => mul_comm _ _)
        (fun b' f => ta_s24 hLC a' b' e f)
    have K1 : ∑ a', gup a' c * ∑ b', ∑ f, ((∑ d, gup b' d * nd d) * nu f) * LC a' b' e f
        = ∑ a', gup a' c * ∑ b', ∑ f, (nu b' * nu f) * LC a' b' e f := by simp only [un_raise h]
    have K2 : ∑ a', gup a' c * ∑ b', ∑ f, (nu b' * nu f) * LC a' b' e f = 0 := by
      simp only [key, mul_zero, Finset.sum_const_zero]
    unfold epsUudd
    linear_combination (norm := sum4_ring) K1 + K2

/-- the volume-form identity with the second factor written as `ε^{cd}{}_{ef}`. -/
theorem volumeForm_epsUudd (hgu : Symm gup) (hVF : VolumeForm g gup LC) (a b e f : Fin 4) :
    ∑ c, ∑ d, LC a b c d * epsUudd gup LC c d e f = -2 * (g a e * g b f - g a f * g b e) := by
  rw [← hVF a b e f]
  have h01 := hgu 1 0; have h02 := hgu 2 0; have h03 := hgu 3 0
  have h12 := hgu 2 1; have h13 := hgu 3 1; have h23 := hgu 3 2
  unfold epsUudd
  simp only [Fin.sum_univ_four, h01, h02, h03, h12, h13, h23]
  ring

set_option maxHeartbeats 1000000 in
/-- `ε^{e'}{}_{cd} ε^{cd}{}_{ef} n^f = −2 (δ^{e'}_e + n^{e'} n_e)` for the volume form of `g`. -/
theorem eps_eps_normal (h : UnitNormal g gup nd nu) (hVF : VolumeForm g gup LC) (e' e : Fin 4) :
    ∑ c, ∑ d, ∑ f, nu f * epsUdd gup nu LC e' c d * epsUudd gup LC c d e f
      = -2 * ((if e' = e then 1 else 0) + nu e' * nd e) := by
  have hVF3 := volumeForm_epsUudd h.hgu hVF
  generalize epsUudd gup LC = Y at hVF3 ⊢
  have V1 : ∑ f, ∑ c', ∑ d', nu f * gup e' c' * nu d' * (∑ c, ∑ d, LC d' c' c d * Y c d e f)
      = ∑ f, ∑ c', ∑ d', nu f * gup e' c' * nu d' * (-2 * (g d' e * g c' f - g d' f * g c' e)) := by
    simp only [hVF3]
  have V2 := un_lower' h e
  have V3 : ∑ c', gup e' c' * ∑ f, g c' f * nu f = ∑ c', gup e' c' * nd c' := by simp only [← h.hnd]
  have V4 := un_raise h e'
  have V5 : ∑ d', nu d' * ∑ f, g d' f * nu f = ∑ d', nu d' * nd d' := by simp only [← h.hnd]
  have V6 := h.hnn
  have V7 := h.hinv e' e
  unfold epsUdd
  linear_combination (norm := sum4_ring) V1
    + (-2 : K) * ((∑ c', gup e' c' * ∑ f, g c' f * nu f) * V2 + nd e * (V3 + V4)
        - (∑ c', gup e' c' * g c' e) * (V5 + V6) + V7)

set_option maxHeartbeats 1000000 in
/-- **magnetic part recovered**: for a unit normal, the volume form of `g`, and symmetric `E`, `B`
tangent to the slice, `½ C_abcd ε^{cd}{}_{ef} n^b n^f = B_ae`. -/
theorem weylEB_magnetic (h2 : (2 : K) ≠ 0) (h : UnitNormal g gup nd nu) (hLC : TotAntisym LC)
    (hVF : VolumeForm g gup LC) (E B : Fin 4 → Fin 4 → K) (hEn : Spatial E nu)
    (hBs : Symm B) (hBn : Spatial B nu) (a e : Fin 4) :
    bweylU (weylEB (lproj g nd) E B nd (epsUdd gup nu LC)) nu (epsUudd gup LC) a e = B a e := by
  have sA := weylEB_normal2 h2 h hLC E B hEn hBs hBn a
  obtain ⟨sB1, sB2⟩ := epsUudd_normal h2 h hLC e
  have sC := fun e' => eps_eps_normal h hVF (LC := LC) e' e
  generalize weylEB (lproj g nd) E B nd (epsUdd gup nu LC) = C at sA ⊢
  generalize epsUdd gup nu LC = eps at sA sC
  generalize epsUudd gup LC = Y at sB1 sB2 sC ⊢
  have D1 : ∑ f, ∑ c, ∑ d, nu f * (∑ b, nu b * C a b c d) * Y c d e f
      = ∑ f, ∑ c, ∑ d, nu f * (nd c * E d a - nd d * E c a - ∑ e', B a e' * eps e' c d) * Y c d e f :=
    Finset.sum_congr rfl fun f _ => Finset.sum_congr rfl fun c _ => Finset.sum_congr rfl fun d _ => by
      rw [sA c d]
  have D2 : ∑ d, E d a * ∑ c, ∑ f, nu f * nd c * Y c d e f = 0 := by
    simp only [sB1, mul_zero, Finset.sum_const_zero]
  have D3 : ∑ c, E c a * ∑ d, ∑ f, nu f * nd d * Y c d e f = 0 := by
    simp only [sB2, mul_zero, Finset.sum_const_zero]
  have D4 : ∑ e', B a e' * ∑ c, ∑ d, ∑ f, nu f * eps e' c d * Y c d e f
      = ∑ e', B a e' * (-2 * ((if e' = e then 1 else 0) + nu e' * nd e)) := by simp only [sC]
  have D5 : ∑ e', B a e' * (if e' = e then (1 : K) else 0) = B a e := by simp
  have D6 := hBn a
  have hh : (1 / 2 : K) * 2 = 1 := by field_simp
  unfold bweylU
  generalize (1 / 2 : K) = hf at hh ⊢
  linear_combination (norm := sum4_ring) hf * (D1 + D2 - D3 - D4) + 2 * hf * (D5 + nd e * D6) + B a e * hh

end frame

end AurelVerif.C10
