/-
Lemmas/C20JacobiAll.lean — orthonormality of the closed form of `maths.sYlm`
for ALL integers s, l, m, l', m' (no table, no bound on the degree):

  thetaGramZ_orth_all   l ≠ l'            →  thetaGramZ s l m l' = 0
  thetaGramZ_norm_all   |s| ≤ l, |m| ≤ l  →  Z·(l+m)!·(l−m)!·(2l+1) = (2l+1)!·(l+s)!·(l−s)!
  contGram_orthonormal  contGram s l m l' m' = if l = l' ∧ m = m' ∧ |s| ≤ l ∧ |m| ≤ l then 1 else 0

from the case `|s| ≤ m` of Lemmas/C20Jacobi.lean by two symmetries of the code's sum:

* `(s, m) → (−s, −m)`  (`harmTerms_neg`, Lemmas/Harm.lean): the terms change by the
  common sign (−1)^(s+m), so `thetaGramZ (−s) l (−m) l' = thetaGramZ s l m l'`;
* `(s, m) → (m, s)` for `|m| ≤ s ≤ l`: term by term (same exponents, r ↦ r + s − m)
  `(l−m)!(l+m)! · coef_{s,l,m} = (l−s)!(l+s)! · coef_{m,l,s}`  (`harmTerms_swap`).
-/
import AurelVerif.Lemmas.C20Jacobi

namespace AurelVerif.HarmJacobi
open AurelVerif.Harm AurelVerif.HarmGram AurelVerif.HarmLemmas

/-! ### `gramZ` is bilinear in the coefficients -/

theorem pairZ_scale (k k' : ℤ) (t t' : Term) :
    pairZ { t with coef := k * t.coef } { t' with coef := k' * t'.coef } = k * k' * pairZ t t' := by
  unfold pairZ
  ring

theorem gramZ_scale (k k' : ℤ) (ts ts' : List Term) :
    gramZ (scaleTerms k ts) (scaleTerms k' ts') = k * k' * gramZ ts ts' := by
  unfold gramZ scaleTerms
  rw [List.map_map, ← List.sum_map_mul_left]
  congr 1
  apply List.map_congr_left
  intro t _
  simp only [Function.comp]
  rw [List.map_map, ← List.sum_map_mul_left]
  congr 1
  apply List.map_congr_left
  intro t' _
  exact pairZ_scale k k' t t'

/-! ### (s, m) → (−s, −m) -/

theorem thetaGramZ_neg (s l m l' : ℤ) : thetaGramZ (-s) l (-m) l' = thetaGramZ s l m l' := by
  unfold thetaGramZ
  rw [harmTerms_neg, harmTerms_neg, gramZ_scale, negOnePow_sq, one_mul]

/-! ### (s, m) → (m, s) -/

/-- the `j`-th term of the loop for `|m| ≤ s ≤ l`: `n = l − s`, `a0 = s − m`, `b0 = s + m`, `r = j` -/
def swTerm (n a0 b0 j : ℕ) : Term :=
  ⟨(n.choose j : ℤ) * ((n + a0 + b0).choose (j + a0) : ℤ) * (-1) ^ (n + j),
    2 * (j : ℤ) + a0, 2 * ((n - j : ℕ) : ℤ) + b0⟩

theorem harmTerms_sw (s l m : ℤ) (n a0 b0 : ℕ) (ha : s - m = a0) (hb : s + m = b0)
    (hn : l - s = n) :
    harmTerms s l m = (List.range (n + 1)).map (swTerm n a0 b0) := by
  unfold harmTerms rRange pyRange rLo rHi
  have e1 : max (m - s) 0 = 0 := by omega
  have e2 : (min (l + m) (l - s) + 1 - 0).toNat = n + 1 := by omega
  rw [e1, e2, List.map_map]
  apply List.map_congr_left
  intro j hj
  rw [List.mem_range] at hj
  simp only [Function.comp, term, swTerm]
  have a1 : l - s = ((n : ℕ) : ℤ) := by omega
  have a2 : l + s = ((n + a0 + b0 : ℕ) : ℤ) := by omega
  have a3 : (0 : ℤ) + (j : ℤ) = ((j : ℕ) : ℤ) := by omega
  have a4 : ((j : ℕ) : ℤ) + s - m = ((j + a0 : ℕ) : ℤ) := by omega
  have a5 : negOnePow (l - ((j : ℕ) : ℤ) - s) = negOnePow (((n + j : ℕ) : ℤ)) := by
    apply negOnePow_congr; omega
  rw [a3, a4, a5, a1, a2, binomZ_nonneg, binomZ_nonneg, negOnePow_nat]
  have key : ∀ (c a b c' a' b' : Int), c = c' → a = a' → b = b' →
      (⟨c, a, b⟩ : Term) = ⟨c', a', b'⟩ := by
    intro c a b c' a' b' h1 h2 h3; subst h1 h2 h3; rfl
  exact key _ _ _ _ _ _ rfl (by omega) (by omega)

theorem sw_nat_choose (j i a0 b0 : ℕ) :
    (j + i + a0).factorial * (j + i + b0).factorial
        * ((j + i).choose j * (j + i + a0 + b0).choose (j + a0))
      = (j + i).factorial * (j + i + a0 + b0).factorial
        * ((j + i + a0).choose (a0 + j) * (j + i + b0).choose j) := by
  have h1 : (j + i).choose j * j.factorial * i.factorial = (j + i).factorial := by
    have := Nat.choose_mul_factorial_mul_factorial (n := j + i) (k := j) (by omega)
    rwa [show j + i - j = i by omega] at this
  have h2 : (j + i + a0 + b0).choose (j + a0) * (j + a0).factorial * (i + b0).factorial
      = (j + i + a0 + b0).factorial := by
    have := Nat.choose_mul_factorial_mul_factorial (n := j + i + a0 + b0) (k := j + a0) (by omega)
    rwa [show j + i + a0 + b0 - (j + a0) = i + b0 by omega] at this
  have h3 : (j + i + a0).choose (a0 + j) * (a0 + j).factorial * i.factorial
      = (j + i + a0).factorial := by
    have := Nat.choose_mul_factorial_mul_factorial (n := j + i + a0) (k := a0 + j) (by omega)
    rwa [show j + i + a0 - (a0 + j) = i by omega] at this
  have h4 : (j + i + b0).choose j * j.factorial * (i + b0).factorial = (j + i + b0).factorial := by
    have := Nat.choose_mul_factorial_mul_factorial (n := j + i + b0) (k := j) (by omega)
    rwa [show j + i + b0 - j = i + b0 by omega] at this
  rw [← h1, ← h2, ← h3, ← h4, Nat.add_comm a0 j]
  ring

/-- term by term: `(l−m)!(l+m)! · (loop of (s,l,m)) = (l−s)!(l+s)! · (loop of (m,l,s))`. -/
theorem sw_scale (n a0 b0 : ℕ) :
    scaleTerms (((n + a0).factorial * (n + b0).factorial : ℕ) : ℤ)
        ((List.range (n + 1)).map (swTerm n a0 b0))
      = scaleTerms ((n.factorial * (n + a0 + b0).factorial : ℕ) : ℤ)
        ((List.range (n + 1)).map (natTerm n a0 b0)) := by
  unfold scaleTerms
  rw [List.map_map, List.map_map]
  apply List.map_congr_left
  intro j hj
  rw [List.mem_range] at hj
  obtain ⟨i, rfl⟩ : ∃ i, n = j + i := ⟨n - j, by omega⟩
  simp only [Function.comp, swTerm, natTerm, cf]
  have h := sw_nat_choose j i a0 b0
  have hz : (((j + i + a0).factorial * (j + i + b0).factorial : ℕ) : ℤ)
        * (((j + i).choose j : ℤ) * ((j + i + a0 + b0).choose (j + a0) : ℤ))
      = (((j + i).factorial * (j + i + a0 + b0).factorial : ℕ) : ℤ)
        * (((j + i + a0).choose (a0 + j) : ℤ) * ((j + i + b0).choose j : ℤ)) := by
    exact_mod_cast h
  have key : ∀ (c a b c' : Int), c = c' → (⟨c, a, b⟩ : Term) = ⟨c', a, b⟩ := by
    intro c a b c' h1; subst h1; rfl
  apply key
  linear_combination ((-1 : ℤ) ^ (j + i + j)) * hz

/-- the swap symmetry of the integer Gram sum, `|m| ≤ s ≤ l, l'`. -/
theorem thetaGramZ_swap (s l m l' : ℤ) (hm : |m| ≤ s) (hl : s ≤ l) (hl' : s ≤ l') :
    ((((l - m).toNat.factorial * (l + m).toNat.factorial : ℕ) : ℤ)
        * (((l' - m).toNat.factorial * (l' + m).toNat.factorial : ℕ) : ℤ)) * thetaGramZ s l m l'
      = ((((l - s).toNat.factorial * (l + s).toNat.factorial : ℕ) : ℤ)
        * (((l' - s).toNat.factorial * (l' + s).toNat.factorial : ℕ) : ℤ)) * thetaGramZ m l s l' := by
  have hm' := abs_le.mp hm
  obtain ⟨a0, ha⟩ := Int.eq_ofNat_of_zero_le (show 0 ≤ s - m by omega)
  obtain ⟨b0, hb⟩ := Int.eq_ofNat_of_zero_le (show 0 ≤ s + m by omega)
  obtain ⟨n, hn⟩ := Int.eq_ofNat_of_zero_le (show 0 ≤ l - s by omega)
  obtain ⟨n', hn'⟩ := Int.eq_ofNat_of_zero_le (show 0 ≤ l' - s by omega)
  unfold thetaGramZ
  rw [harmTerms_sw s l m n a0 b0 ha hb hn, harmTerms_sw s l' m n' a0 b0 ha hb hn',
    harmTerms_nat m l s n a0 b0 ha (by omega) hn, harmTerms_nat m l' s n' a0 b0 ha (by omega) hn',
    ← gramZ_scale, ← gramZ_scale]
  have e1 : (l - m).toNat = n + a0 := by omega
  have e2 : (l + m).toNat = n + b0 := by omega
  have e3 : (l' - m).toNat = n' + a0 := by omega
  have e4 : (l' + m).toNat = n' + b0 := by omega
  have e5 : (l - s).toNat = n := by omega
  have e6 : (l + s).toNat = n + a0 + b0 := by omega
  have e7 : (l' - s).toNat = n' := by omega
  have e8 : (l' + s).toNat = n' + a0 + b0 := by omega
  rw [e1, e2, e3, e4, e5, e6, e7, e8, sw_scale, sw_scale]

end AurelVerif.HarmJacobi

namespace AurelVerif.HarmLemmas
open AurelVerif.Harm AurelVerif.HarmGram AurelVerif.HarmJacobi

/-- the norm identity of `entryOK` / `gramR_of_Z_norm` as a proposition -/
def NormId (s l m : ℤ) : Prop :=
  thetaGramZ s l m l * ((fact (l + m).toNat : Nat) : Int) * ((fact (l - m).toNat : Nat) : Int) * (2 * l + 1)
    = ((fact (2 * l + 1).toNat : Nat) : Int) * ((fact (l + s).toNat : Nat) : Int) * ((fact (l - s).toNat : Nat) : Int)

theorem normId_neg (s l m : ℤ) (h : NormId (-s) l (-m)) : NormId s l m := by
  unfold NormId at h ⊢
  rw [thetaGramZ_neg, show l + -m = l - m by omega, show l - -m = l + m by omega,
    show l + -s = l - s by omega, show l - -s = l + s by omega] at h
  linear_combination h

theorem normId_swap (s l m : ℤ) (hm : |m| ≤ s) (hl : s ≤ l) : NormId s l m := by
  have h := thetaGramZ_norm' m l s hm hl
  have hsw := thetaGramZ_swap s l m l hm hl hl
  unfold NormId
  simp only [fact_eq_factorial] at h ⊢
  set K : ℤ := (((l - m).toNat.factorial * (l + m).toNat.factorial : ℕ) : ℤ) with hK
  set M : ℤ := (((l - s).toNat.factorial * (l + s).toNat.factorial : ℕ) : ℤ) with hM
  have hKpos : K ≠ 0 := by
    rw [hK]; exact_mod_cast (Nat.mul_pos (Nat.factorial_pos _) (Nat.factorial_pos _)).ne'
  have hK' : K = (((l + m).toNat.factorial : ℕ) : ℤ) * (((l - m).toNat.factorial : ℕ) : ℤ) := by
    rw [hK]; push_cast; ring
  have hM' : M = (((l + s).toNat.factorial : ℕ) : ℤ) * (((l - s).toNat.factorial : ℕ) : ℤ) := by
    rw [hM]; push_cast; ring
  -- h : Z₂·M·(2l+1) = (2l+1)!·K ;  hsw : K·K·Z = M·M·Z₂ ;  goal : Z·K·(2l+1) = (2l+1)!·M
  have h2 : thetaGramZ m l s l * M * (2 * l + 1) = (((2 * l + 1).toNat.factorial : ℕ) : ℤ) * K := by
    rw [hM', hK']; linear_combination h
  have goal' : K * K * (thetaGramZ s l m l * K * (2 * l + 1))
      = K * K * ((((2 * l + 1).toNat.factorial : ℕ) : ℤ) * M) := by
    linear_combination (K * (2 * l + 1)) * hsw + (M * K) * h2
  have fin := mul_left_cancel₀ (mul_ne_zero hKpos hKpos) goal'
  rw [hK', hM'] at fin
  linear_combination fin

/-- **norm, all spins and orders**: for `|s| ≤ l`, `|m| ≤ l` the integer identity
required by `gramR_of_Z_norm`. -/
theorem thetaGramZ_norm_all (s l m : Int) (hs : |s| ≤ l) (hm : |m| ≤ l) :
    thetaGramZ s l m l * ((fact (l + m).toNat : Nat) : Int) * ((fact (l - m).toNat : Nat) : Int) * (2 * l + 1)
      = ((fact (2 * l + 1).toNat : Nat) : Int) * ((fact (l + s).toNat : Nat) : Int) * ((fact (l - s).toNat : Nat) : Int) := by
  have hs' := abs_le.mp hs
  have hm' := abs_le.mp hm
  change NormId s l m
  rcases abs_cases s with ⟨es, _⟩ | ⟨es, _⟩ <;> rcases abs_cases m with ⟨em, _⟩ | ⟨em, _⟩
  all_goals rcases le_total |s| |m| with hc | hc
  · exact thetaGramZ_norm' s l m (by omega) (by omega)
  · exact normId_swap s l m (by omega) (by omega)
  · apply normId_neg; exact thetaGramZ_norm' (-s) l (-m) (by rw [abs_neg]; omega) (by omega)
  · exact normId_swap s l m (by omega) (by omega)
  · exact thetaGramZ_norm' s l m (by omega) (by omega)
  · apply normId_neg; exact normId_swap (-s) l (-m) (by rw [abs_neg]; omega) (by omega)
  · apply normId_neg; exact thetaGramZ_norm' (-s) l (-m) (by rw [abs_neg]; omega) (by omega)
  · apply normId_neg; exact normId_swap (-s) l (-m) (by rw [abs_neg]; omega) (by omega)

theorem orth_swap (s l m l' : ℤ) (hm : |m| ≤ s) (hl : s ≤ l) (hl' : s ≤ l') (hne : l ≠ l') :
    thetaGramZ s l m l' = 0 := by
  have hsw := thetaGramZ_swap s l m l' hm hl hl'
  rw [thetaGramZ_orth m l s l' hm hl hl' hne, mul_zero] at hsw
  rcases mul_eq_zero.mp hsw with h | h
  · exfalso
    have p1 : (0 : ℤ) < (((l - m).toNat.factorial * (l + m).toNat.factorial : ℕ) : ℤ) := by
      exact_mod_cast Nat.mul_pos (Nat.factorial_pos _) (Nat.factorial_pos _)
    have p2 : (0 : ℤ) < (((l' - m).toNat.factorial * (l' + m).toNat.factorial : ℕ) : ℤ) := by
      exact_mod_cast Nat.mul_pos (Nat.factorial_pos _) (Nat.factorial_pos _)
    exact absurd h (mul_pos p1 p2).ne'
  · exact h

/-- **orthogonality, ALL integers** `s, l, m, l'`: different degrees are orthogonal. -/
theorem thetaGramZ_orth_all (s l m l' : Int) (hne : l ≠ l') : thetaGramZ s l m l' = 0 := by
  by_cases hemp : (l < |s| ∨ l < |m|) ∨ (l' < |s| ∨ l' < |m|)
  · exact thetaGramZ_empty s l m l' hemp
  simp only [not_or, not_lt] at hemp
  obtain ⟨⟨a1, a2⟩, ⟨a3, a4⟩⟩ := hemp
  rcases abs_cases s with ⟨es, _⟩ | ⟨es, _⟩ <;> rcases abs_cases m with ⟨em, _⟩ | ⟨em, _⟩
  all_goals rcases le_total |s| |m| with hc | hc
  · exact thetaGramZ_orth s l m l' (by omega) (by omega) (by omega) hne
  · exact orth_swap s l m l' (by omega) (by omega) (by omega) hne
  · rw [← thetaGramZ_neg]
    exact thetaGramZ_orth (-s) l (-m) l' (by rw [abs_neg]; omega) (by omega) (by omega) hne
  · exact orth_swap s l m l' (by omega) (by omega) (by omega) hne
  · exact thetaGramZ_orth s l m l' (by omega) (by omega) (by omega) hne
  · rw [← thetaGramZ_neg]
    exact orth_swap (-s) l (-m) l' (by rw [abs_neg]; omega) (by omega) (by omega) hne
  · rw [← thetaGramZ_neg]
    exact thetaGramZ_orth (-s) l (-m) l' (by rw [abs_neg]; omega) (by omega) (by omega) hne
  · rw [← thetaGramZ_neg]
    exact orth_swap (-s) l (-m) l' (by rw [abs_neg]; omega) (by omega) (by omega) hne

/-- **orthonormality over the sphere for ALL integers** `s, l, m, l', m'` (no table,
no bound on the degree): the continuous inner product of the closed forms of
`maths.sYlm` is `1` if `(l, m) = (l', m')` is an admissible mode and `0` otherwise. -/
theorem contGram_orthonormal (s l m l' m' : Int) :
    contGram s l m l' m' = if l = l' ∧ m = m' ∧ |s| ≤ l ∧ |m| ≤ l then 1 else 0 := by
  rw [contGram_eq]
  by_cases hmm : m = m'
  swap
  · rw [if_neg hmm, if_neg (fun hh => hmm hh.2.1)]
  subst hmm
  rw [if_pos rfl]
  by_cases hll : l = l'
  swap
  · rw [if_neg (fun hh => hll hh.1), gramR_of_Z_zero _ _ _ _ (thetaGramZ_orth_all s l m l' hll)]
    simp
  subst hll
  by_cases hadm : |s| ≤ l ∧ |m| ≤ l
  · rw [if_pos ⟨rfl, rfl, hadm.1, hadm.2⟩,
      gramR_of_Z_norm s l m hadm.1 hadm.2 (thetaGramZ_norm_all s l m hadm.1 hadm.2)]
    simp
  · rw [if_neg (fun hh => hadm ⟨hh.2.2.1, hh.2.2.2⟩)]
    have : (l < |s| ∨ l < |m|) ∨ (l < |s| ∨ l < |m|) := by
      left
      by_contra hcon
      simp only [not_or, not_lt] at hcon
      exact hadm hcon
    rw [gramR_of_Z_zero _ _ _ _ (thetaGramZ_empty s l m l this)]
    simp

/-! ### non-vacuity -/

example : thetaGramZ 2 40 (-1) 57 = 0 := thetaGramZ_orth_all 2 40 (-1) 57 (by decide)

example : contGram (-2) 25 1 25 1 = 1 := by
  rw [contGram_orthonormal]; simp

example : contGram (-2) 25 1 31 1 = 0 := by
  rw [contGram_orthonormal]; simp

/-- a swapped instance computed by the executable model (kernel-decided) -/
example : thetaGramZ 2 3 (-1) 3 = 1800 ∧ thetaGramZ 2 3 (-1) 5 = 0 := by decide +kernel

end AurelVerif.HarmLemmas
