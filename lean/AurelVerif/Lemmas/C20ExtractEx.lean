/-
Lemmas/C20ExtractEx.lean — a concrete, non-trivial instance of ALL hypotheses of
Lemmas/C20Extract.lean (used by the non-vacuity examples of Props/C20d.lean):

  field        Ψ4 = x² + y²   (real; smooth on ℝ³, NOT trilinear: ∂xx = ∂yy = 2)
  on the unit sphere  x² + y² = sin²θ = exAmp · ₋₂Y₂₀(θ, φ)  — a pure spin −2 harmonic
               (`₋₂Y₂₀ = √(5/(24π)) · 6 cos²(θ/2) sin²(θ/2)`), `exAmp = (2/3)/√(5/(24π))`
  grids        `uniGrid n` = the uniform grid on `[−2, 2]` with spacing `1/(n+1)` on every axis
  sphere       radius 1, inside every grid
-/
import AurelVerif.Lemmas.C20Extract

namespace AurelVerif.HarmLemmas
open AurelVerif.Harm AurelVerif.HarmGram AurelVerif.LinErr Complex
open scoped Real ComplexConjugate

/-- a coefficient set with a single non-zero entry -/
theorem sum_single_mode {lmax : Nat} (i0 : ModeIdx lmax) (amp : ℂ) (g : ModeIdx lmax → ℂ) :
    ∑ j, (if j = i0 then amp else 0) * g j = amp * g i0 := by
  simp [ite_mul, Finset.sum_ite_eq']

/-- polynomials of degree ≤ 2 -/
theorem C2On_quadratic (c0 c1 c2 a b : ℝ) : C2On (fun x => c0 + c1 * x + c2 * x ^ 2) a b (2 * |c2|) := by
  refine C2On.of_global (g' := fun x => c1 + 2 * c2 * x) (g'' := fun _ => 2 * c2) (fun x => ?_) (fun x => ?_)
    (fun x => ?_) a b
  · have h1 : HasDerivAt (fun x : ℝ => c1 * x) c1 x := by simpa using (hasDerivAt_id' x).const_mul c1
    have h2 : HasDerivAt (fun x : ℝ => c2 * x ^ 2) (2 * c2 * x) x := by
      have := ((hasDerivAt_id' x).fun_pow 2).const_mul c2
      exact this.congr_deriv (by simp; ring)
    exact ((h1.const_add c0).add h2)
  · have h2 : HasDerivAt (fun x : ℝ => 2 * c2 * x) (2 * c2) x := by simpa using (hasDerivAt_id' x).const_mul (2 * c2)
    exact h2.const_add c1
  · rw [abs_mul]; simp

/-! ### the field -/

def exF (x y _z : ℝ) : ℝ := x ^ 2 + y ^ 2
def exZero (_x _y _z : ℝ) : ℝ := 0

theorem exF_X (y z a b : ℝ) : C2On (fun x => exF x y z) a b 2 := by
  have := C2On_quadratic (y ^ 2) 0 1 a b
  simp only [abs_one, mul_one] at this
  refine (congrArg (fun g => C2On g a b 2) (funext fun x => ?_)).mp this
  unfold exF; ring

theorem exF_Y (x z a b : ℝ) : C2On (fun y => exF x y z) a b 2 := by
  have := C2On_quadratic (x ^ 2) 0 1 a b
  simp only [abs_one, mul_one] at this
  refine (congrArg (fun g => C2On g a b 2) (funext fun y => ?_)).mp this
  unfold exF; ring

theorem exF_Z (x y a b : ℝ) : C2On (fun z => exF x y z) a b 2 := by
  have := (C2On_quadratic (x ^ 2 + y ^ 2) 0 0 a b).weaken (M' := 2) (by simp)
  refine (congrArg (fun g => C2On g a b 2) (funext fun z => ?_)).mp this
  unfold exF; ring

theorem exZero_any (a b : ℝ) : C2On (fun _ : ℝ => (0 : ℝ)) a b 2 := by
  have := (C2On_quadratic 0 0 0 a b).weaken (M' := 2) (by simp)
  refine (congrArg (fun g => C2On g a b 2) (funext fun z => ?_)).mp this
  ring

/-! ### the grids -/

/-- the uniform grid on `[−2, 2]` with `4(n+1)+1` nodes, spacing `1/(n+1)` -/
noncomputable def uniGrid (n : ℕ) : List ℝ :=
  (List.range (4 * (n + 1) + 1)).map fun k : ℕ => -2 + (k : ℝ) / ((n : ℝ) + 1)

theorem uniGrid_length (n : ℕ) : (uniGrid n).length = 4 * (n + 1) + 1 := by
  unfold uniGrid; simp

theorem uniGrid_nth (n k : ℕ) (hk : k < 4 * (n + 1) + 1) :
    InterpR.nth (uniGrid n) k = -2 + (k : ℝ) / ((n : ℝ) + 1) := by
  unfold InterpR.nth uniGrid
  rw [List.getD_eq_getElem?_getD, List.getElem?_map, List.getElem?_range hk]
  rfl

theorem uniGrid_pairwise (n : ℕ) : (uniGrid n).Pairwise (· < ·) := by
  unfold uniGrid
  rw [List.pairwise_map]
  refine List.Pairwise.imp ?_ (List.pairwise_lt_range)
  intro a b hab
  have hn : (0 : ℝ) < (n : ℝ) + 1 := by positivity
  have : (a : ℝ) < (b : ℝ) := by exact_mod_cast hab
  have := div_lt_div_of_pos_right this hn
  linarith

theorem uniGrid_first (n : ℕ) : InterpR.nth (uniGrid n) 0 = -2 := by
  rw [uniGrid_nth n 0 (by omega)]; simp

theorem uniGrid_last (n : ℕ) : InterpR.nth (uniGrid n) ((uniGrid n).length - 1) = 2 := by
  rw [uniGrid_length, uniGrid_nth n _ (by omega)]
  have hn : ((n : ℝ) + 1) ≠ 0 := by positivity
  have : ((4 * (n + 1) + 1 - 1 : ℕ) : ℝ) = 4 * ((n : ℝ) + 1) := by
    have : 4 * (n + 1) + 1 - 1 = 4 * (n + 1) := by omega
    rw [this]; push_cast; ring
  rw [this]
  field_simp
  ring

theorem uniGrid_width (n k : ℕ) (hk : k + 1 < (uniGrid n).length) :
    InterpR.nth (uniGrid n) (k + 1) - InterpR.nth (uniGrid n) k ≤ 1 / ((n : ℝ) + 1) := by
  rw [uniGrid_length] at hk
  rw [uniGrid_nth n (k + 1) hk, uniGrid_nth n k (by omega)]
  push_cast
  apply le_of_eq
  ring

theorem uniGrid_field (n : ℕ) :
    GridField (uniGrid n) (uniGrid n) (uniGrid n) exF (1 / ((n : ℝ) + 1)) (1 / ((n : ℝ) + 1)) (1 / ((n : ℝ) + 1)) 2 2 2 :=
  { ax := uniGrid_pairwise n, ay := uniGrid_pairwise n, az := uniGrid_pairwise n
    nx := by rw [uniGrid_length]; omega
    ny := by rw [uniGrid_length]; omega
    nz := by rw [uniGrid_length]; omega
    wx := uniGrid_width n, wy := uniGrid_width n, wz := uniGrid_width n
    HX := fun y _ z _ => exF_X y z _ _
    HY := fun x _ z _ => exF_Y x z _ _
    HZ := fun x _ y _ => exF_Z x y _ _ }

theorem uniGrid_zero (n : ℕ) :
    GridField (uniGrid n) (uniGrid n) (uniGrid n) exZero (1 / ((n : ℝ) + 1)) (1 / ((n : ℝ) + 1)) (1 / ((n : ℝ) + 1)) 2 2 2 :=
  { ax := uniGrid_pairwise n, ay := uniGrid_pairwise n, az := uniGrid_pairwise n
    nx := by rw [uniGrid_length]; omega
    ny := by rw [uniGrid_length]; omega
    nz := by rw [uniGrid_length]; omega
    wx := uniGrid_width n, wy := uniGrid_width n, wz := uniGrid_width n
    HX := fun _ _ _ _ => exZero_any _ _
    HY := fun _ _ _ _ => exZero_any _ _
    HZ := fun _ _ _ _ => exZero_any _ _ }

theorem uniGrid_sphere (n N : ℕ) : SphereInside (uniGrid n) (uniGrid n) (uniGrid n) 1 N := by
  apply sphereInside_of_cube _ _ _ 1 N (by norm_num) <;>
    first | (rw [uniGrid_first]; norm_num) | (rw [uniGrid_last]; norm_num)

/-! ### the field is a pure spin −2 harmonic on the unit sphere -/

/-- the amplitude: `sin²θ = exAmp · ₋₂Y₂₀` -/
noncomputable def exAmp : ℂ := (((2 / 3 : ℝ) / Real.sqrt ((((5 / 24 : ℚ) : ℚ) : ℝ) / π) : ℝ) : ℂ)

theorem sYlmC_m2_2_0 (θ φ : ℝ) :
    sYlmC (-2) 2 0 θ φ
      = ((Real.sqrt ((((5 / 24 : ℚ) : ℚ) : ℝ) / π) * (6 * Real.cos (θ / 2) ^ 2 * Real.sin (θ / 2) ^ 2) : ℝ) : ℂ) := by
  have hT : harmTerms (-2) 2 0 = [⟨6, 2, 2⟩] := by decide +kernel
  have hR : normRadicand (-2) 2 0 = 5 / 24 := by decide +kernel
  unfold sYlmC
  rw [hT, hR]
  simp [evalK]

theorem exF_on_sphere (θ φ : ℝ) :
    ((exF (sphX 1 θ φ) (sphY 1 θ φ) (sphZ 1 θ) : ℝ) : ℂ) + I * ((exZero (sphX 1 θ φ) (sphY 1 θ φ) (sphZ 1 θ) : ℝ) : ℂ)
      = exAmp * sYlmC (-2) 2 0 θ φ := by
  rw [sYlmC_m2_2_0]
  unfold exF exZero sphX sphY exAmp
  have hq : (0 : ℝ) < (((5 / 24 : ℚ) : ℚ) : ℝ) / π := by
    have := Real.pi_pos
    have : (0 : ℝ) < (((5 / 24 : ℚ) : ℚ) : ℝ) := by norm_num
    positivity
  have hs : Real.sqrt ((((5 / 24 : ℚ) : ℚ) : ℝ) / π) ≠ 0 := ne_of_gt (Real.sqrt_pos.mpr hq)
  have hsin : Real.sin θ = 2 * Real.sin (θ / 2) * Real.cos (θ / 2) := by
    have := Real.sin_two_mul (θ / 2)
    rw [← this]; congr 1; ring
  rw [← Complex.ofReal_mul]
  simp only [Complex.ofReal_zero, mul_zero, add_zero]
  congr 1
  rw [hsin]
  field_simp
  have h1 : Real.cos φ ^ 2 + Real.sin φ ^ 2 = 1 := by rw [add_comm]; exact Real.sin_sq_add_cos_sq φ
  rw [h1]
  ring

end AurelVerif.HarmLemmas
