/-
Lemmas/C04Populate.lean — `maths.populate_4Riemann` (generated table, 256 entries)
is the specification `Spec.Curvature.populate`, and has the Riemann symmetries.
-/
import AurelVerif.Props.C08
import AurelVerif.Gen.CoreBig_maths_populate_4Riemann
import AurelVerif.Spec.Curvature

set_option linter.unusedSimpArgs false
set_option linter.unusedVariables false
set_option linter.unreachableTactic false
set_option linter.unusedTactic false

namespace AurelVerif.C04L
open AurelVerif.Gen.Core AurelVerif.Tensor AurelVerif.CoreTac AurelVerif.C08 AurelVerif.Spec.Curvature

variable {K : Type} [Field K]

theorem tsplit_succ {α : Type} (t : α) (s : Fin 3 → α) (i : Fin 3) : tsplit t s i.succ = s i := by
  revert i; cases3 <;> rfl

/-- a `Fin 4` index is the time index or the successor of a spatial index. -/
theorem fin4_ts {P : Fin 4 → Prop} (h0 : P 0) (hs : ∀ i : Fin 3, P i.succ) : ∀ a, P a := by
  cases4
  · exact h0
  · exact hs 0
  · exact hs 1
  · exact hs 2

/-- all 256 entries of the generated table are those of the specification. -/
theorem populate_table (e : Env K) (A : Fin 3 → Fin 3 → Fin 3 → Fin 3 → K) (B : Fin 3 → Fin 3 → Fin 3 → K)
    (C : Fin 3 → Fin 3 → K) : ∀ a b c d, maths_populate_4Riemann e A B C a b c d = populate A B C a b c d := by
  cases4 <;> cases4 <;> cases4 <;> cases4 <;> rfl

theorem populate_eq (e : Env K) (A : Fin 3 → Fin 3 → Fin 3 → Fin 3 → K) (B : Fin 3 → Fin 3 → Fin 3 → K)
    (C : Fin 3 → Fin 3 → K) : maths_populate_4Riemann e A B C = populate A B C := by
  funext a b c d; exact populate_table e A B C a b c d

/-- the blocks of `populate`, with generic spatial indices. -/
theorem populate_blocks (A : Fin 3 → Fin 3 → Fin 3 → Fin 3 → K) (B : Fin 3 → Fin 3 → Fin 3 → K)
    (C : Fin 3 → Fin 3 → K) :
    (∀ i j k l : Fin 3, populate A B C i.succ j.succ k.succ l.succ = A i j k l)
    ∧ (∀ i j k : Fin 3, populate A B C i.succ j.succ k.succ 0 = B i j k
        ∧ populate A B C i.succ j.succ 0 k.succ = -B i j k
        ∧ populate A B C k.succ 0 i.succ j.succ = B i j k
        ∧ populate A B C 0 k.succ i.succ j.succ = -B i j k)
    ∧ (∀ i j : Fin 3, populate A B C i.succ 0 j.succ 0 = C i j
        ∧ populate A B C i.succ 0 0 j.succ = -C i j
        ∧ populate A B C 0 i.succ 0 j.succ = C i j
        ∧ populate A B C 0 i.succ j.succ 0 = -C i j)
    ∧ (∀ c d : Fin 4, populate A B C 0 0 c d = 0 ∧ populate A B C c d 0 0 = 0) := by
  refine ⟨?_, ?_, ?_, ?_⟩
  · intro i j k l; simp only [populate, tsplit_succ, tsplit_0]
  · intro i j k; simp only [populate, tsplit_succ, tsplit_0, and_self]
  · intro i j; simp only [populate, tsplit_succ, tsplit_0, and_self]
  · intro c d
    refine ⟨by simp only [populate, tsplit_0], ?_⟩
    revert c d
    refine fin4_ts (fin4_ts ?_ fun j => ?_) (fun i => fin4_ts ?_ fun j => ?_) <;>
      simp only [populate, tsplit_succ, tsplit_0]

/-- hypotheses on the three blocks. -/
structure BlockSym (A : Fin 3 → Fin 3 → Fin 3 → Fin 3 → K) (B : Fin 3 → Fin 3 → Fin 3 → K)
    (C : Fin 3 → Fin 3 → K) : Prop where
  hA : RiemannSym A
  hB : ∀ i j k, B i j k = -B j i k
  hBd : ∀ i k, B i i k = 0
  hC : ∀ i j, C i j = C j i

/-- **T4** the populated tensor has the Riemann symmetries. -/
theorem populate_sym (A : Fin 3 → Fin 3 → Fin 3 → Fin 3 → K) (B : Fin 3 → Fin 3 → Fin 3 → K)
    (C : Fin 3 → Fin 3 → K) (h : BlockSym A B C) : RiemannSym (populate A B C) := by
  obtain ⟨hA, hB, hBd, hC⟩ := h
  refine ⟨?_, ?_, ?_, ?_, ?_⟩
  · refine fin4_ts (fin4_ts (fin4_ts (fin4_ts ?_ fun l => ?_) fun k => fin4_ts ?_ fun l => ?_)
        fun j => fin4_ts (fin4_ts ?_ fun l => ?_) fun k => fin4_ts ?_ fun l => ?_)
      (fun i => fin4_ts (fin4_ts (fin4_ts ?_ fun l => ?_) fun k => fin4_ts ?_ fun l => ?_)
        fun j => fin4_ts (fin4_ts ?_ fun l => ?_) fun k => fin4_ts ?_ fun l => ?_) <;>
      simp only [populate, tsplit_succ, tsplit_0, neg_neg, neg_zero, Pi.zero_apply, Pi.neg_apply] <;>
      first
        | exact hA.anti12 _ _ _ _
        | exact hB _ _ _
        | (rw [hB]; simp only [neg_neg]; done)
  · refine fin4_ts (fin4_ts (fin4_ts (fin4_ts ?_ fun l => ?_) fun k => fin4_ts ?_ fun l => ?_)
        fun j => fin4_ts (fin4_ts ?_ fun l => ?_) fun k => fin4_ts ?_ fun l => ?_)
      (fun i => fin4_ts (fin4_ts (fin4_ts ?_ fun l => ?_) fun k => fin4_ts ?_ fun l => ?_)
        fun j => fin4_ts (fin4_ts ?_ fun l => ?_) fun k => fin4_ts ?_ fun l => ?_) <;>
      simp only [populate, tsplit_succ, tsplit_0, neg_neg, neg_zero, Pi.zero_apply, Pi.neg_apply] <;>
      first
        | exact hA.anti34 _ _ _ _
        | exact hB _ _ _
        | (rw [hB]; simp only [neg_neg]; done)
  · refine fin4_ts (fin4_ts (fin4_ts (fin4_ts ?_ fun l => ?_) fun k => fin4_ts ?_ fun l => ?_)
        fun j => fin4_ts (fin4_ts ?_ fun l => ?_) fun k => fin4_ts ?_ fun l => ?_)
      (fun i => fin4_ts (fin4_ts (fin4_ts ?_ fun l => ?_) fun k => fin4_ts ?_ fun l => ?_)
        fun j => fin4_ts (fin4_ts ?_ fun l => ?_) fun k => fin4_ts ?_ fun l => ?_) <;>
      simp only [populate, tsplit_succ, tsplit_0, neg_neg, neg_zero, Pi.zero_apply, Pi.neg_apply] <;>
      first
        | exact hA.pair _ _ _ _
        | exact hC _ _
        | (rw [hC]; done)
  · refine fin4_ts (fin4_ts (fin4_ts ?_ fun l => ?_) fun k => fin4_ts ?_ fun l => ?_)
      (fun i => fin4_ts (fin4_ts ?_ fun l => ?_) fun k => fin4_ts ?_ fun l => ?_) <;>
      simp only [populate, tsplit_succ, tsplit_0, neg_neg, neg_zero, Pi.zero_apply, Pi.neg_apply] <;>
      first
        | exact hA.diag12 _ _ _
        | exact hBd _ _
        | (rw [hBd]; simp only [neg_zero]; done)
  · refine fin4_ts (fin4_ts (fin4_ts ?_ fun l => ?_) fun k => fin4_ts ?_ fun l => ?_)
      (fun i => fin4_ts (fin4_ts ?_ fun l => ?_) fun k => fin4_ts ?_ fun l => ?_) <;>
      simp only [populate, tsplit_succ, tsplit_0, neg_neg, neg_zero, Pi.zero_apply, Pi.neg_apply] <;>
      first
        | exact hA.diag34 _ _ _
        | exact hBd _ _
        | (rw [hBd]; simp only [neg_zero]; done)

end AurelVerif.C04L
