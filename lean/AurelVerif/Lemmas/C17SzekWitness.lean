/-
Lemmas/C17SzekWitness.lean — non-vacuity of the hypothesis of `einstein_Szekeres_partial`: there IS a
function `hyp2f1` for which the module's `integrated_part` is an antiderivative of its `part_to_integrate`
on `τ > 0` (namely the one defined from `∫₀^τ sinh^{2/3}/cosh²` by the fundamental theorem of calculus).
This does not identify that function with the Gauss hypergeometric function `₂F₁`; it only shows that
the hypothesis is satisfiable, so the conditional theorem is not vacuous.
-/
import AurelVerif.Lemmas.Solutions
import Mathlib.MeasureTheory.Integral.IntervalIntegral.FundThmCalculus
import Mathlib.Analysis.SpecialFunctions.Arsinh

namespace AurelVerif.C17Ein
open AurelVerif.Gen.Solutions AurelVerif.SolutionsLemmas

theorem Szekeres_PTI_continuous : Continuous Szekeres_PTI := by
  unfold Szekeres_PTI
  refine Continuous.div ?_ ?_ ?_
  · exact Real.continuous_sinh.rpow_const (fun x => Or.inr (by norm_num))
  · exact Real.continuous_cosh.pow 2
  · intro x; exact (pow_pos (Real.cosh_pos x) 2).ne'

/-- `∫₀^τ part_to_integrate`. -/
noncomputable def Szekeres_PTIint (τ : ℝ) : ℝ := ∫ s in (0:ℝ)..τ, Szekeres_PTI s

theorem Szekeres_PTIint_deriv (τ : ℝ) : HasDerivAt Szekeres_PTIint (Szekeres_PTI τ) τ :=
  intervalIntegral.integral_hasDerivAt_right (Szekeres_PTI_continuous.intervalIntegrable _ _)
    (Szekeres_PTI_continuous.stronglyMeasurableAtFilter _ _) Szekeres_PTI_continuous.continuousAt

/-- a function of `(a, b, c, w)` which, in place of `hyp2f1`, makes `integrated_part(τ) = ∫₀^τ part_to_integrate`. -/
noncomputable def Szekeres_hypWitness (_a _b _c w : ℝ) : ℝ :=
  Szekeres_PTIint (Real.arsinh (Real.sqrt (-w))) / ((3:ℝ) / 5 * Real.sqrt (-w) ^ ((5:ℝ) / 3))

theorem Szekeres_IP_witness (τ : ℝ) (hτ : 0 < τ) : Szekeres_IP Szekeres_hypWitness τ = Szekeres_PTIint τ := by
  have hS : 0 < Real.sinh τ := Real.sinh_pos_iff.mpr hτ
  have hC : 0 < Real.cosh τ := Real.cosh_pos τ
  have hp : 0 < Real.sinh τ ^ ((5:ℝ) / 3) := Real.rpow_pos_of_pos hS _
  unfold Szekeres_IP Szekeres_hypWitness
  rw [neg_neg, Real.sqrt_sq hS.le, Real.sqrt_sq hC.le, Real.arsinh_sinh]
  field_simp

/-- the hypothesis of `einstein_Szekeres_partial` / `K_is_metric_rate_Szekeres_partial` is satisfiable. -/
theorem Szekeres_hIP_witness (τ : ℝ) (hτ : 0 < τ) :
    HasDerivAt (Szekeres_IP Szekeres_hypWitness) (Szekeres_PTI τ) τ := by
  refine (Szekeres_PTIint_deriv τ).congr_of_eventuallyEq ?_
  filter_upwards [Ioi_mem_nhds hτ] with s hs
  exact Szekeres_IP_witness s hs

end AurelVerif.C17Ein
