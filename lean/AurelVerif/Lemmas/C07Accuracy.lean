/-
Lemmas/C07Accuracy.lean — the analytic half of C07: moment conditions + Taylor's theorem ⇒
the difference quotient of a stencil is within `C_stencil · M · |h|^p` of the first
derivative, `C_stencil = Σ|w_k||k|^(p+1)/(p+1)!` (Spec/FDAccuracy.lean).  Proven once,
generically, from `momentsOK` (as `exact_of_moments` is); instantiated in
Lemmas/C07AccuracySplice.lean.
-/
import Mathlib.Analysis.Calculus.Taylor
import AurelVerif.Lemmas.Stencil
import AurelVerif.Spec.FDAccuracy
import AurelVerif.Lemmas.C07Taylor

namespace AurelVerif.C07Accuracy
open Set AurelVerif.Splice AurelVerif.StencilLemmas AurelVerif.C07Taylor

theorem cast_qabs (q : ℚ) : ((qabs q : ℚ) : ℝ) = |(q : ℝ)| := by
  unfold qabs
  split_ifs with h
  · have : (q : ℝ) < 0 := by exact_mod_cast h
    rw [abs_of_neg this]; push_cast; ring
  · have : (0 : ℝ) ≤ (q : ℝ) := by exact_mod_cast not_lt.mp h
    rw [abs_of_nonneg this]

theorem fact_eq (n : ℕ) : fact n = n.factorial := by
  induction n with
  | zero => rfl
  | succ n ih => simp [fact, Nat.factorial, ih]

theorem cast_natAbs (k : ℤ) : ((k.natAbs : ℕ) : ℝ) = |(k : ℝ)| := by
  rw [Nat.cast_natAbs, Int.cast_abs]

theorem absMoment_nil (j : ℕ) : absMoment [] j = 0 := rfl

theorem absMoment_cons (kc : ℤ × ℚ) (st : Stencil) (j : ℕ) :
    absMoment (kc :: st) j = qabs kc.2 * ((kc.1.natAbs : ℕ) : ℚ) ^ j + absMoment st j := by
  simp [absMoment]

theorem absMoment_nonneg (st : Stencil) (j : ℕ) : (0 : ℝ) ≤ ((absMoment st j : ℚ) : ℝ) := by
  induction st with
  | nil => simp [absMoment_nil]
  | cons kc st ih =>
    rw [absMoment_cons]
    push_cast
    rw [cast_qabs, cast_natAbs]
    positivity

theorem errConst_nonneg (st : Stencil) (p : ℕ) : (0 : ℝ) ≤ ((errConst st p : ℚ) : ℝ) := by
  unfold errConst
  push_cast
  have := absMoment_nonneg st (p + 1)
  positivity

theorem evalSt_add (st : Stencil) (g₁ g₂ : ℤ → ℝ) :
    evalSt st (fun k => g₁ k + g₂ k) = evalSt st g₁ + evalSt st g₂ := by
  induction st with
  | nil => simp [evalSt_nil]
  | cons kc st ih => rw [evalSt_cons, evalSt_cons, evalSt_cons, ih]; ring

/-- only the values at the stencil's offsets matter. -/
theorem evalSt_congr (st : Stencil) (g₁ g₂ : ℤ → ℝ) (h : ∀ kc ∈ st, g₁ kc.1 = g₂ kc.1) :
    evalSt st g₁ = evalSt st g₂ := by
  induction st with
  | nil => rfl
  | cons kc st ih =>
    rw [evalSt_cons, evalSt_cons, h kc (List.mem_cons_self ..),
      ih (fun x hx => h x (List.mem_cons_of_mem _ hx))]

/-- `|Σ c_k R_k| ≤ (Σ |c_k| |k|^q) · B` when `|R_k| ≤ B |k|^q` at the offsets of the stencil. -/
theorem abs_evalSt_le (st : Stencil) (R : ℤ → ℝ) (B : ℝ) (q : ℕ)
    (hR : ∀ kc ∈ st, |R kc.1| ≤ B * |(kc.1 : ℝ)| ^ q) :
    |evalSt st R| ≤ ((absMoment st q : ℚ) : ℝ) * B := by
  induction st with
  | nil => simp [evalSt_nil, absMoment_nil]
  | cons kc st ih =>
    rw [evalSt_cons, absMoment_cons]
    push_cast
    rw [cast_qabs, cast_natAbs]
    have h1 := hR kc (List.mem_cons_self ..)
    have h2 := ih (fun x hx => hR x (List.mem_cons_of_mem _ hx))
    calc |((kc.2 : ℚ) : ℝ) * R kc.1 + evalSt st R|
        ≤ |((kc.2 : ℚ) : ℝ) * R kc.1| + |evalSt st R| := abs_add_le _ _
      _ = |((kc.2 : ℚ) : ℝ)| * |R kc.1| + |evalSt st R| := by rw [abs_mul]
      _ ≤ |((kc.2 : ℚ) : ℝ)| * (B * |(kc.1 : ℝ)| ^ q) + ((absMoment st q : ℚ) : ℝ) * B := by
          gcongr
      _ = (|((kc.2 : ℚ) : ℝ)| * |(kc.1 : ℝ)| ^ q + ((absMoment st q : ℚ) : ℝ)) * B := by ring

/-- **generic truncation-error theorem**: moment conditions of order `p ≥ 1` and a
`(p+1)`-fold derivative chain on an interval containing the base point and every sample
point, with `|F (p+1)| ≤ M` there ⇒ the difference quotient is within
`C_stencil · M · |h|^p` of the first derivative. -/
theorem truncation_of_moments (st : Stencil) (p : ℕ) (hp : 1 ≤ p) (hm : momentsOK st p = true)
    (F : ℕ → ℝ → ℝ) (a b M : ℝ) (hF : DerivChain F p (Icc a b))
    (hM : ∀ t ∈ Icc a b, |F (p + 1) t| ≤ M)
    (x h : ℝ) (hh : h ≠ 0) (hx : x ∈ Icc a b) (hk : ∀ kc ∈ st, x + (kc.1 : ℝ) * h ∈ Icc a b) :
    |evalSt st (fun k => F 0 (x + (k : ℝ) * h)) * h⁻¹ - F 1 x|
      ≤ ((errConst st p : ℚ) : ℝ) * M * |h| ^ p := by
  set T : ℤ → ℝ := fun k => ∑ j ∈ Finset.range (p + 1),
    ((j.factorial : ℝ)⁻¹ * F j x) * (((k : ℝ)) * h) ^ j with hT
  set R : ℤ → ℝ := fun k => F 0 (x + (k : ℝ) * h) - T k with hRdef
  have hsplit : (fun k : ℤ => F 0 (x + (k : ℝ) * h)) = fun k => T k + R k := by
    funext k; simp [hRdef]
  have hTval : evalSt st T = F 1 x * h := by
    rw [hT, evalSt_poly]
    have hterm : ∀ j ∈ Finset.range (p + 1),
        ((j.factorial : ℝ)⁻¹ * F j x) * h ^ j * ((moment st j : ℚ) : ℝ)
          = if j = 1 then F 1 x * h else 0 := by
      intro j hj
      rw [moments_of_ok st p hm j (Finset.mem_range.mp hj)]
      split_ifs with h1
      · subst h1; simp
      · simp
    rw [Finset.sum_congr rfl hterm, Finset.sum_ite_eq' (Finset.range (p + 1)) 1,
      if_pos (Finset.mem_range.mpr (by omega))]
  have hRb : ∀ kc ∈ st, |R kc.1| ≤ (M * |h| ^ (p + 1) / ((p + 1).factorial : ℝ)) * |(kc.1 : ℝ)| ^ (p + 1) := by
    intro kc hkc
    have hb := taylor_chain_bound hF hM hx (hk kc hkc)
    have hsum : ∑ j ∈ Finset.range (p + 1),
        ((j.factorial : ℝ)⁻¹ * (x + (kc.1 : ℝ) * h - x) ^ j) * F j x = T kc.1 := by
      rw [hT]
      apply Finset.sum_congr rfl
      intro j _
      ring
    rw [hsum] at hb
    have habs : |x + (kc.1 : ℝ) * h - x| = |(kc.1 : ℝ)| * |h| := by
      rw [add_sub_cancel_left, abs_mul]
    rw [habs, mul_pow] at hb
    calc |R kc.1| ≤ M * (|(kc.1 : ℝ)| ^ (p + 1) * |h| ^ (p + 1)) / ((p + 1).factorial : ℝ) := hb
      _ = _ := by ring
  have hRtot := abs_evalSt_le st R _ (p + 1) hRb
  have hmain : evalSt st (fun k => F 0 (x + (k : ℝ) * h)) * h⁻¹ - F 1 x = evalSt st R * h⁻¹ := by
    rw [hsplit, evalSt_add, hTval]
    field_simp
    ring
  rw [hmain, abs_mul, abs_inv]
  have hhpos : 0 < |h| := abs_pos.mpr hh
  have hC : ((errConst st p : ℚ) : ℝ) = ((absMoment st (p + 1) : ℚ) : ℝ) / ((p + 1).factorial : ℝ) := by
    unfold errConst
    push_cast
    rw [fact_eq]
  rw [hC]
  calc |evalSt st R| * |h|⁻¹
      ≤ (((absMoment st (p + 1) : ℚ) : ℝ) * (M * |h| ^ (p + 1) / ((p + 1).factorial : ℝ))) * |h|⁻¹ := by
        gcongr
    _ = ((absMoment st (p + 1) : ℚ) : ℝ) / ((p + 1).factorial : ℝ) * M * |h| ^ p := by
        rw [pow_succ]
        field_simp

/-! ### derivative chains of smooth functions -/

theorem derivChain_of_contDiffOn {f : ℝ → ℝ} {n : ℕ} {a b : ℝ} (hab : a < b)
    (hf : ContDiffOn ℝ ((n + 1 : ℕ)) f (Icc a b)) :
    DerivChain (fun j => iteratedDerivWithin j f (Icc a b)) n (Icc a b) := by
  intro j hj t ht
  have hd := hf.differentiableOn_iteratedDerivWithin (m := j)
    (by exact_mod_cast Nat.lt_succ_of_le hj) (uniqueDiffOn_Icc hab)
  have := (hd t ht).hasDerivWithinAt
  show HasDerivWithinAt (iteratedDerivWithin j f (Icc a b)) (iteratedDerivWithin (j + 1) f (Icc a b) t) _ t
  rw [iteratedDerivWithin_succ]
  exact this

theorem derivChain_of_contDiff {f : ℝ → ℝ} {n : ℕ} (hf : ContDiff ℝ ((n + 1 : ℕ)) f) (S : Set ℝ) :
    DerivChain (fun j => iteratedDeriv j f) n S := by
  intro j hj t _
  have hd := hf.differentiable_iteratedDeriv j (by exact_mod_cast Nat.lt_succ_of_le hj)
  have := (hd t).hasDerivAt.hasDerivWithinAt (s := S)
  show HasDerivWithinAt (iteratedDeriv j f) (iteratedDeriv (j + 1) f t) S t
  rw [iteratedDeriv_succ]
  exact this

/-- the truncation-error theorem for `f ∈ C^(p+1)[a,b]`. -/
theorem truncation_contDiffOn (st : Stencil) (p : ℕ) (hp : 1 ≤ p) (hm : momentsOK st p = true)
    (f : ℝ → ℝ) (a b M : ℝ) (hab : a < b) (hf : ContDiffOn ℝ ((p + 1 : ℕ)) f (Icc a b))
    (hM : ∀ t ∈ Icc a b, |iteratedDerivWithin (p + 1) f (Icc a b) t| ≤ M)
    (x h : ℝ) (hh : h ≠ 0) (hx : x ∈ Icc a b) (hk : ∀ kc ∈ st, x + (kc.1 : ℝ) * h ∈ Icc a b) :
    |evalSt st (fun k => f (x + (k : ℝ) * h)) * h⁻¹ - derivWithin f (Icc a b) x|
      ≤ ((errConst st p : ℚ) : ℝ) * M * |h| ^ p := by
  have := truncation_of_moments st p hp hm (fun j => iteratedDerivWithin j f (Icc a b)) a b M
    (derivChain_of_contDiffOn hab hf) hM x h hh hx hk
  simpa only [iteratedDerivWithin_zero, iteratedDerivWithin_one] using this

/-- the truncation-error theorem for a globally `C^(p+1)` function whose `(p+1)`-st
derivative is bounded by `M` on an interval containing the stencil. -/
theorem truncation_contDiff (st : Stencil) (p : ℕ) (hp : 1 ≤ p) (hm : momentsOK st p = true)
    (f : ℝ → ℝ) (a b M : ℝ) (hf : ContDiff ℝ ((p + 1 : ℕ)) f)
    (hM : ∀ t ∈ Icc a b, |iteratedDeriv (p + 1) f t| ≤ M)
    (x h : ℝ) (hh : h ≠ 0) (hx : x ∈ Icc a b) (hk : ∀ kc ∈ st, x + (kc.1 : ℝ) * h ∈ Icc a b) :
    |evalSt st (fun k => f (x + (k : ℝ) * h)) * h⁻¹ - deriv f x|
      ≤ ((errConst st p : ℚ) : ℝ) * M * |h| ^ p := by
  have := truncation_of_moments st p hp hm (fun j => iteratedDeriv j f) a b M
    (derivChain_of_contDiff hf _) hM x h hh hx hk
  simpa only [iteratedDeriv_zero, iteratedDeriv_one] using this

end AurelVerif.C07Accuracy
