/-
Lemmas/C17JetTac.lean — small helpers shared by the C17 "jet family" files
(Lemmas/C17Jet*.lean): extensionality over `Fin 4` with literal indices and the
closing tactic for rational identities.
-/
import AurelVerif.Spec.Jet4
import Mathlib.Data.Fin.VecNotation
import Mathlib.Tactic.Ring
import Mathlib.Tactic.FieldSimp
import Mathlib.Tactic.FinCases
import Mathlib.Tactic.LinearCombination
import Mathlib.Algebra.CharZero.Defs

namespace AurelVerif.C17JetTac

/-- two functions on `Fin 4` agree if they agree at `0, 1, 2, 3` (literal indices, so that
`simp only [Matrix.cons_val]` can look table entries up). -/
theorem funext4 {α : Type} {f g : Fin 4 → α} (h0 : f 0 = g 0) (h1 : f 1 = g 1) (h2 : f 2 = g 2)
    (h3 : f 3 = g 3) : f = g := by
  funext i; fin_cases i <;> assumption

theorem forall4 {p : Fin 4 → Prop} (h0 : p 0) (h1 : p 1) (h2 : p 2) (h3 : p 3) : ∀ i, p i := by
  intro i; fin_cases i <;> assumption

/-- close a rational identity between field variables. -/
macro "jet_close" : tactic =>
  `(tactic| first | rfl | ring1 | (field_simp; done) | (field_simp; ring1))

end AurelVerif.C17JetTac
