/-
Lemmas/C07Compose.lean — elementary error propagation: sums, products and safe quotients of
quantities known to O(e) (e = h^p) are known to O(e), with explicit constants; and the
schema for arbitrary rational expressions (`RExpr`).
NOT covered: nested differences (a second derivative computed as D(D f)) — the inner error
is then differentiated again by D, which needs discrete product/commutation estimates.
-/
import Mathlib.Data.Real.Basic
import Mathlib.Tactic.Ring
import Mathlib.Tactic.Linarith
import Mathlib.Tactic.FieldSimp
import Mathlib.Tactic.Positivity
import Mathlib.Tactic.GCongr

namespace AurelVerif.C07Compose

/-! ### error propagation through ring operations and safe divisions

`e ≥ 0` stands for `h^p`; `|a_h - a| ≤ A e`, `|b_h - b| ≤ B e`. -/

theorem approx_add {a ah b bh A B e : ℝ} (ha : |ah - a| ≤ A * e) (hb : |bh - b| ≤ B * e) :
    |(ah + bh) - (a + b)| ≤ (A + B) * e := by
  have : (ah + bh) - (a + b) = (ah - a) + (bh - b) := by ring
  rw [this]
  calc |(ah - a) + (bh - b)| ≤ |ah - a| + |bh - b| := abs_add_le _ _
    _ ≤ A * e + B * e := add_le_add ha hb
    _ = (A + B) * e := by ring

theorem approx_neg {a ah A e : ℝ} (ha : |ah - a| ≤ A * e) : |(-ah) - (-a)| ≤ A * e := by
  have : (-ah) - (-a) = -(ah - a) := by ring
  rw [this, abs_neg]; exact ha

theorem approx_sub {a ah b bh A B e : ℝ} (ha : |ah - a| ≤ A * e) (hb : |bh - b| ≤ B * e) :
    |(ah - bh) - (a - b)| ≤ (A + B) * e := by
  have := approx_add ha (approx_neg hb)
  simpa [sub_eq_add_neg] using this

theorem approx_const_mul {a ah A e : ℝ} (c : ℝ) (ha : |ah - a| ≤ A * e) :
    |c * ah - c * a| ≤ (|c| * A) * e := by
  have : c * ah - c * a = c * (ah - a) := by ring
  rw [this, abs_mul, mul_assoc]
  exact mul_le_mul_of_nonneg_left ha (abs_nonneg c)

/-- product: `|a_h b_h - a b| ≤ (|a| B + |b| A + A B e) e`. -/
theorem approx_mul {a ah b bh A B e : ℝ} (ha : |ah - a| ≤ A * e) (hb : |bh - b| ≤ B * e) :
    |ah * bh - a * b| ≤ (|a| * B + |b| * A + A * B * e) * e := by
  have hAe : 0 ≤ A * e := le_trans (abs_nonneg _) ha
  have hBe : 0 ≤ B * e := le_trans (abs_nonneg _) hb
  have : ah * bh - a * b = a * (bh - b) + b * (ah - a) + (ah - a) * (bh - b) := by ring
  rw [this]
  calc |a * (bh - b) + b * (ah - a) + (ah - a) * (bh - b)|
      ≤ |a * (bh - b)| + |b * (ah - a)| + |(ah - a) * (bh - b)| := abs_add_three _ _ _
    _ = |a| * |bh - b| + |b| * |ah - a| + |ah - a| * |bh - b| := by rw [abs_mul, abs_mul, abs_mul]
    _ ≤ |a| * (B * e) + |b| * (A * e) + (A * e) * (B * e) := by gcongr
    _ = (|a| * B + |b| * A + A * B * e) * e := by ring

/-- product, with the step bounded: one constant for all `e ≤ e₀`. -/
theorem approx_mul_of_le {a ah b bh A B e e₀ : ℝ} (hA : 0 ≤ A) (hB : 0 ≤ B) (he : 0 ≤ e) (hee : e ≤ e₀)
    (ha : |ah - a| ≤ A * e) (hb : |bh - b| ≤ B * e) :
    |ah * bh - a * b| ≤ (|a| * B + |b| * A + A * B * e₀) * e := by
  refine le_trans (approx_mul ha hb) ?_
  have : A * B * e ≤ A * B * e₀ := mul_le_mul_of_nonneg_left hee (mul_nonneg hA hB)
  gcongr

/-- the approximate denominator stays away from zero: `|b| ≥ β`, `B e ≤ β/2` ⇒ `|b_h| ≥ |b|/2`. -/
theorem approx_den {b bh B e β : ℝ} (hβb : β ≤ |b|) (hsmall : B * e ≤ β / 2)
    (hb : |bh - b| ≤ B * e) : |b| / 2 ≤ |bh| := by
  have h1 : |b| - |bh| ≤ |bh - b| := by
    rw [abs_sub_comm bh b]; exact abs_sub_abs_le_abs_sub b bh
  linarith

/-- safe division: `|b| ≥ β > 0` and `B e ≤ β/2` ⇒ `b_h ≠ 0` and
`|a_h / b_h - a / b| ≤ 2 (A β + |a| B) / β² · e`. -/
theorem approx_div {a ah b bh A B e β : ℝ} (hβ : 0 < β) (hβb : β ≤ |b|) (hsmall : B * e ≤ β / 2)
    (ha : |ah - a| ≤ A * e) (hb : |bh - b| ≤ B * e) :
    bh ≠ 0 ∧ |ah / bh - a / b| ≤ (2 * (A * β + |a| * B) / β ^ 2) * e := by
  have hAe : 0 ≤ A * e := le_trans (abs_nonneg _) ha
  have hBe : 0 ≤ B * e := le_trans (abs_nonneg _) hb
  have hbpos : 0 < |b| := lt_of_lt_of_le hβ hβb
  have hbh : |b| / 2 ≤ |bh| := approx_den hβb hsmall hb
  have hbhpos : 0 < |bh| := by linarith
  have hb0 : b ≠ 0 := abs_pos.mp hbpos
  have hbh0 : bh ≠ 0 := abs_pos.mp hbhpos
  refine ⟨hbh0, ?_⟩
  have hid : ah / bh - a / b = ((ah - a) * b - a * (bh - b)) / (bh * b) := by
    field_simp
    ring
  have hnum : |(ah - a) * b - a * (bh - b)| ≤ A * e * |b| + |a| * (B * e) := by
    calc |(ah - a) * b - a * (bh - b)| ≤ |(ah - a) * b| + |a * (bh - b)| := abs_sub _ _
      _ = |ah - a| * |b| + |a| * |bh - b| := by rw [abs_mul, abs_mul]
      _ ≤ A * e * |b| + |a| * (B * e) := by gcongr
  have hden : |b| * |b| / 2 ≤ |bh * b| := by
    rw [abs_mul]
    nlinarith
  have hdenpos : 0 < |b| * |b| / 2 := by positivity
  rw [hid, abs_div]
  calc |(ah - a) * b - a * (bh - b)| / |bh * b|
      ≤ (A * e * |b| + |a| * (B * e)) / (|b| * |b| / 2) := by
        apply div_le_div₀ (by positivity) hnum hdenpos hden
    _ = 2 * A * e / |b| + 2 * |a| * B * e / (|b| * |b|) := by
        field_simp
    _ ≤ 2 * A * e / β + 2 * |a| * B * e / (β * β) := by
        have h1 : 2 * A * e / |b| ≤ 2 * A * e / β :=
          div_le_div_of_nonneg_left (by nlinarith) hβ hβb
        have h2 : 2 * |a| * B * e / (|b| * |b|) ≤ 2 * |a| * B * e / (β * β) := by
          apply div_le_div_of_nonneg_left _ (by positivity) (by nlinarith)
          have := abs_nonneg a
          nlinarith
        linarith
    _ = (2 * (A * β + |a| * B) / β ^ 2) * e := by
        field_simp

/-! ### the schema: a rational expression in quantities known to `O(e)` is known to `O(e)` -/

/-- expressions built from variables and constants by ring operations and divisions. -/
inductive RExpr (ι : Type) : Type
  | var : ι → RExpr ι
  | const : ℝ → RExpr ι
  | add : RExpr ι → RExpr ι → RExpr ι
  | neg : RExpr ι → RExpr ι
  | mul : RExpr ι → RExpr ι → RExpr ι
  | div : RExpr ι → RExpr ι → RExpr ι

namespace RExpr
variable {ι : Type}

noncomputable def eval (v : ι → ℝ) : RExpr ι → ℝ
  | var i => v i
  | const c => c
  | add s t => eval v s + eval v t
  | neg s => -eval v s
  | mul s t => eval v s * eval v t
  | div s t => eval v s / eval v t

/-- every denominator is non-zero at `v` ("safe division"). -/
def Safe (v : ι → ℝ) : RExpr ι → Prop
  | var _ => True
  | const _ => True
  | add s t => Safe v s ∧ Safe v t
  | neg s => Safe v s
  | mul s t => Safe v s ∧ Safe v t
  | div s t => Safe v s ∧ Safe v t ∧ eval v t ≠ 0

end RExpr

open RExpr in
/-- **schema**: if every input is known within `A·e` and the exact expression is safe, the
expression is known within `C·e` for all `e ≤ δ` (and stays safe), `C`, `δ` depending only on
the expression, the exact inputs and `A`. -/
theorem expr_order {ι : Type} (E : RExpr ι) (v : ι → ℝ) (A : ℝ) (hA : 0 ≤ A) (hsafe : E.Safe v) :
    ∃ C δ : ℝ, 0 ≤ C ∧ 0 < δ ∧ ∀ e, 0 ≤ e → e ≤ δ → ∀ v' : ι → ℝ, (∀ i, |v' i - v i| ≤ A * e) →
      E.Safe v' ∧ |E.eval v' - E.eval v| ≤ C * e := by
  induction E with
  | var i =>
    exact ⟨A, 1, hA, one_pos, fun e _ _ v' hv => ⟨trivial, hv i⟩⟩
  | const c =>
    refine ⟨0, 1, le_refl _, one_pos, fun e _ _ v' _ => ⟨trivial, ?_⟩⟩
    simp [RExpr.eval]
  | add s t ihs iht =>
    obtain ⟨C1, d1, hC1, hd1, h1⟩ := ihs hsafe.1
    obtain ⟨C2, d2, hC2, hd2, h2⟩ := iht hsafe.2
    refine ⟨C1 + C2, min d1 d2, add_nonneg hC1 hC2, lt_min hd1 hd2, fun e he hed v' hv => ?_⟩
    obtain ⟨s1, e1⟩ := h1 e he (le_trans hed (min_le_left _ _)) v' hv
    obtain ⟨s2, e2⟩ := h2 e he (le_trans hed (min_le_right _ _)) v' hv
    exact ⟨⟨s1, s2⟩, approx_add e1 e2⟩
  | neg s ihs =>
    obtain ⟨C1, d1, hC1, hd1, h1⟩ := ihs hsafe
    refine ⟨C1, d1, hC1, hd1, fun e he hed v' hv => ?_⟩
    obtain ⟨s1, e1⟩ := h1 e he hed v' hv
    exact ⟨s1, approx_neg e1⟩
  | mul s t ihs iht =>
    obtain ⟨C1, d1, hC1, hd1, h1⟩ := ihs hsafe.1
    obtain ⟨C2, d2, hC2, hd2, h2⟩ := iht hsafe.2
    refine ⟨|s.eval v| * C2 + |t.eval v| * C1 + C1 * C2 * min d1 d2, min d1 d2, by positivity,
      lt_min hd1 hd2, fun e he hed v' hv => ?_⟩
    obtain ⟨s1, e1⟩ := h1 e he (le_trans hed (min_le_left _ _)) v' hv
    obtain ⟨s2, e2⟩ := h2 e he (le_trans hed (min_le_right _ _)) v' hv
    exact ⟨⟨s1, s2⟩, approx_mul_of_le hC1 hC2 he hed e1 e2⟩
  | div s t ihs iht =>
    obtain ⟨hs1, hs2, hne⟩ := hsafe
    obtain ⟨C1, d1, hC1, hd1, h1⟩ := ihs hs1
    obtain ⟨C2, d2, hC2, hd2, h2⟩ := iht hs2
    have hβ : 0 < |t.eval v| := abs_pos.mpr hne
    set β := |t.eval v| with hβdef
    have hd3 : 0 < β / (2 * (C2 + 1)) := by positivity
    refine ⟨2 * (C1 * β + |s.eval v| * C2) / β ^ 2, min (min d1 d2) (β / (2 * (C2 + 1))), by positivity,
      lt_min (lt_min hd1 hd2) hd3, fun e he hed v' hv => ?_⟩
    obtain ⟨s1, e1⟩ := h1 e he (le_trans hed (le_trans (min_le_left _ _) (min_le_left _ _))) v' hv
    obtain ⟨s2, e2⟩ := h2 e he (le_trans hed (le_trans (min_le_left _ _) (min_le_right _ _))) v' hv
    have he3 : e ≤ β / (2 * (C2 + 1)) := le_trans hed (min_le_right _ _)
    have hsmall : C2 * e ≤ β / 2 := by
      have h3 : C2 * e ≤ C2 * (β / (2 * (C2 + 1))) := mul_le_mul_of_nonneg_left he3 hC2
      have h4 : C2 * (β / (2 * (C2 + 1))) ≤ β / 2 := by
        rw [← mul_div_assoc, div_le_div_iff₀ (by positivity) (by positivity)]
        nlinarith
      linarith
    obtain ⟨hnz, hq⟩ := approx_div hβ (le_refl β) hsmall e1 e2
    exact ⟨⟨s1, s2, hnz⟩, hq⟩

open RExpr in
/-- the schema with `e = h^p`: a formula built from `O(h^p)`-accurate quantities by ring
operations and safe divisions is `O(h^p)`-accurate. -/
theorem expr_order_pow {ι : Type} (E : RExpr ι) (v : ι → ℝ) (A : ℝ) (hA : 0 ≤ A) (hsafe : E.Safe v)
    (p : ℕ) (hp : 1 ≤ p) :
    ∃ C h₀ : ℝ, 0 ≤ C ∧ 0 < h₀ ∧ ∀ h, 0 < h → h ≤ h₀ → ∀ v' : ι → ℝ, (∀ i, |v' i - v i| ≤ A * h ^ p) →
      E.Safe v' ∧ |E.eval v' - E.eval v| ≤ C * h ^ p := by
  obtain ⟨C, δ, hC, hδ, hmain⟩ := expr_order E v A hA hsafe
  refine ⟨C, min 1 δ, hC, lt_min one_pos hδ, fun h hh hh0 v' hv => ?_⟩
  have h1 : h ≤ 1 := le_trans hh0 (min_le_left _ _)
  have hpow : h ^ p ≤ h := by
    calc h ^ p ≤ h ^ 1 := pow_le_pow_of_le_one (le_of_lt hh) h1 hp
      _ = h := pow_one h
  exact hmain (h ^ p) (by positivity) (le_trans hpow (le_trans hh0 (min_le_right _ _))) v' hv

end AurelVerif.C07Compose
