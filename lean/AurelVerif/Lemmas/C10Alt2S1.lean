/-
Lemmas/C10Alt2S1.lean — alternative 2 of `st_Weyl_down4` (from E, B, n; a shift key present):
the generated table equals the textbook expression `Spec.Weyl.weylEB`; components with first index 1
(one theorem per second index; split so that each file compiles in about two minutes).
-/
import AurelVerif.Gen.CoreBig_st_Weyl_down4
import AurelVerif.Gen.CoreHelpers
import AurelVerif.Lemmas.CoreTac
import AurelVerif.Spec.Weyl

set_option linter.unusedSimpArgs false
set_option linter.unusedVariables false

namespace AurelVerif.C10
open AurelVerif.Gen.Core AurelVerif.Tensor AurelVerif.CoreTac AurelVerif.Spec.Weyl

variable {K : Type} [Field K]

set_option maxHeartbeats 1000000 in
theorem alt2_shift_spec_1_0 (e : Env K) : ∀ c d : Fin 4,
    st_Weyl_down4__betaup3 e 1 0 c d
      = weylEB (lproj e.gdown4 e.ndown4) (s_to_st__betaup3 e e.eweyl_n_down3) (s_to_st__betaup3 e e.bweyl_n_down3)
          e.ndown4 (epsUdd e.gup4 e.nup4 (levicivita_down4 e)) 1 0 c d := by
  cases4 <;> cases4 <;>
    (simp only [st_Weyl_down4__betaup3, ↓vec4_0, ↓vec4_1, ↓vec4_2, ↓vec4_3]
     simp only [weylEB, lproj, epsUdd, Fin.sum_univ_four, levicivita_down4, s_to_st__betaup3,
       ↓vec4_0, ↓vec4_1, ↓vec4_2, ↓vec4_3]
     try simp only [core_unfold]
     ring)

set_option maxHeartbeats 1000000 in
theorem alt2_shift_spec_1_1 (e : Env K) : ∀ c d : Fin 4,
    st_Weyl_down4__betaup3 e 1 1 c d
      = weylEB (lproj e.gdown4 e.ndown4) (s_to_st__betaup3 e e.eweyl_n_down3) (s_to_st__betaup3 e e.bweyl_n_down3)
          e.ndown4 (epsUdd e.gup4 e.nup4 (levicivita_down4 e)) 1 1 c d := by
  cases4 <;> cases4 <;>
    (simp only [st_Weyl_down4__betaup3, ↓vec4_0, ↓vec4_1, ↓vec4_2, ↓vec4_3]
     simp only [weylEB, lproj, epsUdd, Fin.sum_univ_four, levicivita_down4, s_to_st__betaup3,
       ↓vec4_0, ↓vec4_1, ↓vec4_2, ↓vec4_3]
     try simp only [core_unfold]
     ring)

set_option maxHeartbeats 1000000 in
theorem alt2_shift_spec_1_2 (e : Env K) : ∀ c d : Fin 4,
    st_Weyl_down4__betaup3 e 1 2 c d
      = weylEB (lproj e.gdown4 e.ndown4) (s_to_st__betaup3 e e.eweyl_n_down3) (s_to_st__betaup3 e e.bweyl_n_down3)
          e.ndown4 (epsUdd e.gup4 e.nup4 (levicivita_down4 e)) 1 2 c d := by
  cases4 <;> cases4 <;>
    (simp only [st_Weyl_down4__betaup3, ↓vec4_0, ↓vec4_1, ↓vec4_2, ↓vec4_3]
     simp only [weylEB, lproj, epsUdd, Fin.sum_univ_four, levicivita_down4, s_to_st__betaup3,
       ↓vec4_0, ↓vec4_1, ↓vec4_2, ↓vec4_3]
     try simp only [core_unfold]
     ring)

set_option maxHeartbeats 1000000 in
theorem alt2_shift_spec_1_3 (e : Env K) : ∀ c d : Fin 4,
    st_Weyl_down4__betaup3 e 1 3 c d
      = weylEB (lproj e.gdown4 e.ndown4) (s_to_st__betaup3 e e.eweyl_n_down3) (s_to_st__betaup3 e e.bweyl_n_down3)
          e.ndown4 (epsUdd e.gup4 e.nup4 (levicivita_down4 e)) 1 3 c d := by
  cases4 <;> cases4 <;>
    (simp only [st_Weyl_down4__betaup3, ↓vec4_0, ↓vec4_1, ↓vec4_2, ↓vec4_3]
     simp only [weylEB, lproj, epsUdd, Fin.sum_univ_four, levicivita_down4, s_to_st__betaup3,
       ↓vec4_0, ↓vec4_1, ↓vec4_2, ↓vec4_3]
     try simp only [core_unfold]
     ring)

theorem alt2_shift_spec_1 (e : Env K) : ∀ b c d : Fin 4,
    st_Weyl_down4__betaup3 e 1 b c d
      = weylEB (lproj e.gdown4 e.ndown4) (s_to_st__betaup3 e e.eweyl_n_down3) (s_to_st__betaup3 e e.bweyl_n_down3)
          e.ndown4 (epsUdd e.gup4 e.nup4 (levicivita_down4 e)) 1 b c d := by
  cases4
  · exact alt2_shift_spec_1_0 e
  · exact alt2_shift_spec_1_1 e
  · exact alt2_shift_spec_1_2 e
  · exact alt2_shift_spec_1_3 e

end AurelVerif.C10
