/-
Lemmas/C10Bcompat.lean — Layer B (consistency; holds for an additive Leibniz operator `e.D`, i.e. in
the continuum limit, NOT exactly for finite differences): the two traces in the code's
`bweyl_n_down3` commute with the code's covariant derivative,

  `γ^{ad} D_c K_da = D_c K`            (`s_covd(Kdown3,'dd')` against `s_covd(Ktrace,'')`)
  `γ^{ce} D_c K_ed = D_k K^k{}_d`      (against the contraction of `s_covd(Kmixed,'ud')`)

from `D_c γ^{ab} = 0` (C05 `metric_compat_uu`, itself Layer B) and the product rule.
Also exact facts: `s_covd(K,'dd')` is symmetric in its tensor indices for symmetric `K`.
-/
import AurelVerif.Lemmas.C05Raise
import AurelVerif.Lemmas.C10B

set_option linter.unusedSimpArgs false
set_option linter.unusedVariables false

namespace AurelVerif.C10
open AurelVerif.Gen.Core AurelVerif.Tensor AurelVerif.CoreTac AurelVerif.C08 AurelVerif.Spec.Covd
open AurelVerif.C05L (MetricOK Deriv ProdRuleInv)

variable {K : Type} [Field K]

/-- exact: `D_c K_ab = D_c K_ba` for symmetric `K` (any connection, any operator). -/
theorem s_covd_dd_symm (e : Env K) (f : Fin 3 → Fin 3 → K) (hf : Sym f) (c a b : Fin 3) :
    s_covd_dd e f c a b = s_covd_dd e f c b a := by
  have f10 := hf 1 0; have f20 := hf 2 0; have f21 := hf 2 1
  rw [C05L.s_covd_dd_spec, C05L.s_covd_dd_spec]
  revert a b
  cases3 <;> cases3 <;> (simp only [covdDD, pd2, Fin.sum_univ_three, f10, f20, f21]; try ring)

/-- `∂_c γ^{ab} = −Γ^a_{cm} γ^{mb} − Γ^b_{cm} γ^{am}` (Layer B). -/
theorem d_gammaup_compat (e : Env K) (h : MetricOK e) (h2 : (2 : K) ≠ 0) (hp : ProdRuleInv e) (c a b : Fin 3) :
    e.D c (e.gammaup3 a b) + ∑ m, e.s_Gamma_udd3 a c m * e.gammaup3 m b
      + ∑ m, e.s_Gamma_udd3 b c m * e.gammaup3 a m = 0 := by
  have := C05L.metric_compat_uu e h h2 hp c a b
  rw [C05L.s_covd_uu_spec] at this
  simpa only [covdUU, pd2] using this

/-- **Layer B** `γ^{ad} D_c K_da = D_c K` with `K = γ^{ij} K_ij` the cached `Ktrace`. -/
theorem covd_trace_dd (e : Env K) (h : MetricOK e) (h2 : (2 : K) ≠ 0) (hD : Deriv e.D)
    (hK : Sym e.Kdown3) (hKt : e.Ktrace = Ktrace e) (c : Fin 3) :
    ∑ a, ∑ d, e.gammaup3 a d * s_covd_dd e e.Kdown3 c d a = s_covd_scalar e e.Ktrace c := by
  have hp := C05L.prodRuleInv_of_deriv e hD h
  have m := d_gammaup_compat e h h2 hp c
  have k10 := hK 1 0; have k20 := hK 2 0; have k21 := hK 2 1
  have g10 := h.hsu 1 0; have g20 := h.hsu 2 0; have g21 := h.hsu 2 1
  have m00 := m 0 0; have m01 := m 0 1; have m02 := m 0 2
  have m11 := m 1 1; have m12 := m 1 2; have m22 := m 2 2
  rw [C05L.s_covd_scalar_spec, hKt]
  simp only [C05L.s_covd_dd_spec, covdDD, pd2, Ktrace, Fin.sum_univ_three, hD.add, hD.mul, k10, k20, k21,
    g10, g20, g21] at m00 m01 m02 m11 m12 m22 ⊢
  linear_combination (-(e.Kdown3 0 0)) * m00 - 2 * e.Kdown3 0 1 * m01 - 2 * e.Kdown3 0 2 * m02
    - e.Kdown3 1 1 * m11 - 2 * e.Kdown3 1 2 * m12 - e.Kdown3 2 2 * m22

/-- **Layer B** `γ^{ce} D_c K_ed = D_k K^k{}_d` with `K^i{}_k = γ^{ij} K_jk` as the code builds it. -/
theorem covd_trace_ud (e : Env K) (h : MetricOK e) (h2 : (2 : K) ≠ 0) (hD : Deriv e.D) (d : Fin 3) :
    ∑ c, ∑ e', e.gammaup3 c e' * s_covd_dd e e.Kdown3 c e' d = ∑ k, s_covd_ud e (Kmixed e) k k d := by
  have hp := C05L.prodRuleInv_of_deriv e hD h
  have m := d_gammaup_compat e h h2 hp
  have m00 := m 0 0 0; have m01 := m 0 0 1; have m02 := m 0 0 2
  have m10 := m 1 1 0; have m11 := m 1 1 1; have m12 := m 1 1 2
  have m20 := m 2 2 0; have m21 := m 2 2 1; have m22 := m 2 2 2
  simp only [C05L.s_covd_dd_spec, C05L.s_covd_ud_spec, covdDD, covdUD, pd2, Kmixed, Fin.sum_univ_three,
    hD.add, hD.mul] at m00 m01 m02 m10 m11 m12 m20 m21 m22 ⊢
  linear_combination (-(e.Kdown3 0 d)) * (m00 + m10 + m20) - e.Kdown3 1 d * (m01 + m11 + m21)
    - e.Kdown3 2 d * (m02 + m12 + m22)

end AurelVerif.C10
