/-
Lemmas/C20OrthoTableM1.lean — kernel-decided integer table: orthonormality
identities `entryOK` (Lemmas/C20GramZ.lean) for spin s = (-1), all 0 ≤ l, l' ≤ 12,
all |m| ≤ 12.  Mathlib-free; pure computation (`decide +kernel`).
-/
import AurelVerif.Lemmas.C20GramZ

namespace AurelVerif.HarmGram

theorem spinOK_12_M1 : spinOK 12 (-1) = true := by decide +kernel

end AurelVerif.HarmGram
