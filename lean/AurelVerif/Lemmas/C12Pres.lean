/-
Lemmas/C12Pres.lean — Model/ReadCacheX.lean (C12, extended model): what every
write of every call preserves, whether the call returns or raises.

  * `foldE` (a loop whose body may raise, keeping the cache of that moment);
  * a property of caches preserved by every `save_data` of the read path
    (`SavePres` of Lemmas/ReadCache.lean) holds for the cache a call leaves
    behind, also when the call raises half-way (`readDataX_pres`);
  * instances: `Inv` (every dataset equals the source at the key it is filed
    under), `StoreT` (a file that holds a variable holds the time), `StoreHas`
    (only variables the restart's files hold are ever cached);
  * a checkpoint call and an uncached call leave the cache untouched and do not
    look at it.
-/
import AurelVerif.Lemmas.ReadCache
import AurelVerif.Model.ReadCacheX
namespace AurelVerif.ReadCacheXLemmas
open AurelVerif.Chunks AurelVerif.ReadCache AurelVerif.Restarts AurelVerif.ReadCacheX AurelVerif.ReadCacheLemmas
  AurelVerif.ChunksLemmas

/-! ### outcomes -/

theorem okP {σ ε : Type} {P : σ → Prop} {Q : ε → Prop} {s : σ} (h : P s) :
    (∀ s', (Except.ok s : Except ε σ) = .ok s' → P s') ∧ (∀ e, (Except.ok s : Except ε σ) = .error e → Q e) :=
  ⟨fun s' h' => by cases h'; exact h, fun e h' => by cases h'⟩

theorem errQ {σ ε : Type} {P : σ → Prop} {Q : ε → Prop} {e : ε} (h : Q e) :
    (∀ s', (Except.error e : Except ε σ) = .ok s' → P s') ∧ (∀ e', (Except.error e : Except ε σ) = .error e' → Q e') :=
  ⟨fun s' h' => (by cases h'), fun e' h' => by cases h'; exact h⟩

/-! ### `foldE` -/

/-- a property of the state that every step keeps — on the state it returns or on
the error it raises — holds for the outcome of the loop -/
theorem foldE_pres {σ γ ε : Type} (P : σ → Prop) (Q : ε → Prop) (f : σ → γ → Except ε σ)
    (hok : ∀ s x s', P s → f s x = .ok s' → P s') (herr : ∀ s x e, P s → f s x = .error e → Q e) :
    ∀ (l : List γ) (s : σ), P s →
      (∀ s', foldE f s l = .ok s' → P s') ∧ (∀ e, foldE f s l = .error e → Q e) := by
  intro l
  induction l with
  | nil =>
    intro s hs
    exact okP hs
  | cons x xs ih =>
    intro s hs
    simp only [foldE]
    cases hx : f s x with
    | ok s1 =>
      simp only
      exact ih s1 (hok s x s1 hs hx)
    | error e =>
      simp only
      exact errQ (herr s x e hs hx)

theorem foldE_nil {σ γ ε : Type} (f : σ → γ → Except ε σ) (s : σ) : foldE f s [] = .ok s := rfl

theorem foldE_cons_ok {σ γ ε : Type} (f : σ → γ → Except ε σ) (s s1 : σ) (x : γ) (xs : List γ)
    (h : f s x = .ok s1) : foldE f s (x :: xs) = foldE f s1 xs := by
  simp only [foldE, h]

theorem foldE_cons_error {σ γ ε : Type} (f : σ → γ → Except ε σ) (s : σ) (e : ε) (x : γ) (xs : List γ)
    (h : f s x = .error e) : foldE f s (x :: xs) = .error e := by
  simp only [foldE, h]

/-- the loop with the invariant threaded together with the prefix already processed -/
theorem foldE_prefix {σ γ ε : Type} (P : List γ → σ → Prop) (f : σ → γ → Except ε σ) (l : List γ)
    (hstep : ∀ pre x s s1, x ∈ l → P pre s → f s x = .ok s1 → P (pre ++ [x]) s1) :
    ∀ (pre : List γ) (s s' : σ), P pre s → foldE f s l = .ok s' → P (pre ++ l) s' := by
  induction l with
  | nil =>
    intro pre s s' hs h
    simp only [foldE] at h
    cases h
    simpa using hs
  | cons x xs ih =>
    intro pre s s' hs h
    simp only [foldE] at h
    cases hx : f s x with
    | error e => simp [hx] at h
    | ok s1 =>
      simp only [hx] at h
      have := ih (fun pre' y t t1 hy => hstep pre' y t t1 (List.mem_cons_of_mem _ hy)) (pre ++ [x]) s1 s'
        (hstep pre x s s1 (List.mem_cons_self ..) hs hx) h
      simpa [List.append_assoc] using this

/-- a loop every step of which returns, returns -/
theorem foldE_total {σ γ ε : Type} (P : σ → Prop) (f : σ → γ → Except ε σ) (l : List γ)
    (hstep : ∀ x s, x ∈ l → P s → ∃ s1, f s x = .ok s1 ∧ P s1) :
    ∀ (s : σ), P s → ∃ s', foldE f s l = .ok s' ∧ P s' := by
  induction l with
  | nil => intro s hs; exact ⟨s, rfl, hs⟩
  | cons x xs ih =>
    intro s hs
    obtain ⟨s1, h1, hP1⟩ := hstep x s (List.mem_cons_self ..) hs
    obtain ⟨s', h2, hP2⟩ := ih (fun y t hy => hstep y t (List.mem_cons_of_mem _ hy)) s1 hP1
    exact ⟨s', by rw [foldE_cons_ok f s s1 x xs h1]; exact h2, hP2⟩

/-- a loop whose every step returns, the step being allowed to look at what precedes it -/
theorem foldE_total_prefix {σ γ ε : Type} (P : List γ → σ → Prop) (f : σ → γ → Except ε σ) (whole : List γ)
    (hstep : ∀ pre x post s, whole = pre ++ x :: post → P pre s → ∃ s1, f s x = .ok s1 ∧ P (pre ++ [x]) s1) :
    ∀ (l pre : List γ) (s : σ), whole = pre ++ l → P pre s → ∃ s', foldE f s l = .ok s' ∧ P whole s' := by
  intro l
  induction l with
  | nil => intro pre s hw hs; exact ⟨s, rfl, by rw [hw]; simpa using hs⟩
  | cons x xs ih =>
    intro pre s hw hs
    obtain ⟨s1, h1, hP1⟩ := hstep pre x xs s hw hs
    obtain ⟨s', h2, hP2⟩ := ih (pre ++ [x]) s1 (by rw [hw]; simp) hP1
    exact ⟨s', by rw [foldE_cons_ok f s s1 x xs h1]; exact h2, hP2⟩

/-! ### only variables the restart holds are cached -/

/-- every variable dataset of the cache belongs to a variable the restart's files hold -/
def StoreHas {β : Type} (w : World β) (store : Store β) : Prop :=
  ∀ k ∈ store.map Prod.fst, ∀ c, k.name = DName.var c → w.has k.restart c = true

/-- `save_data` calls of the read path as the extended model performs them: only for
names the restart holds -/
def SavePresHas {β : Type} (w : World β) (P : Store β → Prop) : Prop :=
  ∀ (R rl : Nat) (tmpIts : List Nat) (av : DName), av ≠ DName.it → hasName w R av = true →
    ∀ (itsSave : List Nat) (store store' : Store β),
    P store → saveData w.ofIt store R rl tmpIts (fetch w.src R rl tmpIts) av itsSave = some store' → P store'

theorem savePresHas_of_savePres {β : Type} (w : World β) (P : Store β → Prop) (h : SavePres w.src w.ofIt P) :
    SavePresHas w P :=
  fun R rl tmpIts av hav _ itsSave store store' hI hs => h R rl tmpIts av hav itsSave store store' hI hs

/-- `stepComp_pres` of Lemmas/ReadCache.lean for a name the restart holds -/
theorem stepComp_presH {β : Type} (w : World β) (P : Store β → Prop) (hP : SavePresHas w P) (R rl : Nat)
    (its tmpIts : List Nat) (st st' : State β) (av : DName) (hav : av ≠ DName.it) (hh : hasName w R av = true)
    (hI : P st.store) (h : stepComp w.src w.ofIt R rl its tmpIts st av = some st') : P st'.store := by
  unfold stepComp at h
  simp only at h
  generalize (if av = DName.t then (getMiss st.missing av).filter (fun i => !(its.contains i))
    else getMiss st.missing av) = miss' at h
  by_cases he : miss' = []
  · simp only [he, if_true] at h
    cases h; exact hI
  · simp only [he, if_false] at h
    cases hs : saveData w.ofIt st.store R rl tmpIts (fetch w.src R rl tmpIts) av miss' with
    | none => simp [hs] at h
    | some store' =>
      simp only [hs] at h
      cases h
      exact hP R rl tmpIts av hav hh _ _ _ hI hs

/-! ### what the cache keeps through one call -/

section pres
variable {β : Type} (w : World β) (P : Store β → Prop) (hP : SavePresHas w P)
include hP

theorem stepCompX_pres (R rl : Nat) (its tmpIts : List Nat) (empty : Bool) (st : State β) (av : DName)
    (hav : av ≠ DName.it) (hI : P st.store) :
    (∀ st', stepCompX w R rl its tmpIts empty st av = .ok st' → P st'.store) ∧
      (∀ s, stepCompX w R rl its tmpIts empty st av = .error s → P s) := by
  unfold stepCompX
  split
  · rename_i hcond
    have hh : hasName w R av = true := by
      cases hx : hasName w R av with
      | true => rfl
      | false => rw [hx] at hcond; simp at hcond
    cases hs : stepComp w.src w.ofIt R rl its tmpIts st av with
    | none => exact errQ hI
    | some st1 => exact okP (stepComp_presH w P hP R rl its tmpIts st st1 av hav hh hI hs)
  · exact okP hI

theorem stepVarX_pres (nofiles : Bool) (R rl : Nat) (its : List Nat) (st : State β) (v : List Nat)
    (hI : P st.store) :
    (∀ st', stepVarX w nofiles R rl its st v = .ok st' → P st'.store) ∧
      (∀ s, stepVarX w nofiles R rl its st v = .error s → P s) := by
  unfold stepVarX
  simp only
  split
  · exact okP hI
  · split
    · exact errQ hI
    · -- every name processed is a variable or `t`; keep that with the state
      have key := foldE_pres (fun (t : State β) => P t.store) P
        (fun (t : State β) (av : DName) => if av = DName.it then Except.ok t else
          stepCompX w R rl its (sortNat ((v.map DName.var).flatMap fun av => getMiss st.missing av).eraseDups)
            (v.all fun c => !w.has R c) t av)
        (by
          intro t av t' ht h
          by_cases hav : av = DName.it
          · simp only [hav, if_true] at h; cases h; exact ht
          · simp only [hav, if_false] at h
            exact (stepCompX_pres w P hP R rl its _ _ t av hav ht).1 t' h)
        (by
          intro t av e ht h
          by_cases hav : av = DName.it
          · simp only [hav, if_true] at h; cases h
          · simp only [hav, if_false] at h
            exact (stepCompX_pres w P hP R rl its _ _ t av hav ht).2 e h)
        (v.map DName.var ++ [DName.t]) st hI
      -- on these names the guarded step is the step
      have hsame : ∀ (l : List DName), (∀ n ∈ l, n ≠ DName.it) → ∀ (t : State β),
          foldE (fun (t : State β) (av : DName) => if av = DName.it then Except.ok t else
            stepCompX w R rl its (sortNat ((v.map DName.var).flatMap fun av => getMiss st.missing av).eraseDups)
              (v.all fun c => !w.has R c) t av) t l
          = foldE (stepCompX w R rl its (sortNat ((v.map DName.var).flatMap fun av => getMiss st.missing av).eraseDups)
              (v.all fun c => !w.has R c)) t l := by
        intro l
        induction l with
        | nil => intro _ t; rfl
        | cons n ns ih =>
          intro hn t
          have h1 : n ≠ DName.it := hn n (List.mem_cons_self ..)
          simp only [foldE, h1, if_false]
          cases stepCompX w R rl its _ _ t n with
          | ok t1 => exact ih (fun m hm => hn m (List.mem_cons_of_mem _ hm)) t1
          | error e => rfl
      rw [hsame _ (by
        intro n hn
        rcases List.mem_append.mp hn with hn | hn
        · obtain ⟨c, _, rfl⟩ := List.mem_map.mp hn; simp
        · simp at hn; subst hn; simp) st] at key
      exact key

theorem readRestartX_pres (nofiles grouped : Bool) (var : List (List Nat)) (store : Store β) (R rl : Nat)
    (its : List Nat) (hI : P store) :
    (∀ r, readRestartX w nofiles grouped var store R rl its = .ok r → P r.2.1) ∧
      (∀ s, readRestartX w nofiles grouped var store R rl its = .error s → P s) := by
  unfold readRestartX
  simp only
  have key := foldE_pres (fun (t : State β) => P t.store) P (stepVarX w nofiles R rl its)
    (fun t v t' ht h => (stepVarX_pres w P hP nofiles R rl its t v ht).1 t' h)
    (fun t v e ht h => (stepVarX_pres w P hP nofiles R rl its t v ht).2 e h)
    (if grouped then var else var.flatten.map fun c => [c])
    { col := readCache store R rl its (var.flatten.map DName.var ++ [DName.t]),
      missing := initMissing its (readCache store R rl its (var.flatten.map DName.var ++ [DName.t]))
        (var.flatten.map DName.var ++ [DName.t]), store := store } hI
  split
  · rename_i s hs
    exact errQ (key.2 s hs)
  · rename_i st hst
    exact okP (P := fun r : Tab β × Store β × List (List Nat) => P r.2.1) (key.1 st hst)

theorem restartStep_pres (usechk split : Bool) (rl : Nat) (st : LoopSt β) (rt : Nat × List Nat)
    (hI : P st.store) :
    (∀ st', restartStep w usechk split rl st rt = .ok st' → P st'.store) ∧
      (∀ s, restartStep w usechk split rl st rt = .error s → P s) := by
  unfold restartStep
  split
  · exact okP hI
  · split
    · exact errQ hI
    · rename_i ri _
      split
      · exact errQ hI
      · rename_i var _
        split
        · split
          · exact errQ hI
          · exact okP hI
        · split
          · have key := readRestartX_pres w P hP ri.varAvail.isNone ri.grouped var st.store rt.1 rl rt.2 hI
            split
            · rename_i s hs
              exact errQ (key.2 s hs)
            · rename_i T store' var' hr
              exact okP (P := fun t : LoopSt β => P t.store) (key.1 _ hr)
          · split
            · exact errQ hI
            · exact okP hI

/-- **whatever a call does — return or raise — the cache it leaves keeps `P`** -/
theorem readDataX_pres (done : List Nat) (c : CallX) (store : Store β) (hI : P store) :
    P (readDataX w done c store).2.2 := by
  unfold readDataX
  simp only
  split
  · exact hI
  · split
    · exact hI
    · split
      · exact hI
      · rename_i todo _
        have key := foldE_pres (fun (t : LoopSt β) => P t.store) P (restartStep w c.usechk c.split c.rl)
          (fun t rt t' ht h => (restartStep_pres w P hP c.usechk c.split c.rl t rt ht).1 t' h)
          (fun t rt e ht h => (restartStep_pres w P hP c.usechk c.split c.rl t rt ht).2 e h)
          todo { var := c.req, datar := [], store := store } hI
        split
        · rename_i s hs
          exact key.2 s hs
        · rename_i st hst
          split <;> exact key.1 st hst

end pres

theorem storeHas_set3 {β : Type} (w : World β) (st : Store β) (R iit rl : Nat) (av : DName) (x y z : β)
    (hav : hasName w R av = true) (hH : StoreHas w st) :
    StoreHas w (((st.set ⟨R, iit, av, rl⟩ x).set ⟨R, iit, DName.it, rl⟩ y).set ⟨R, iit, DName.t, rl⟩ z) := by
  intro k hk c hc
  rcases (mem_keys_set _ _ _ _).mp hk with rfl | hk
  · cases hc
  · rcases (mem_keys_set _ _ _ _).mp hk with rfl | hk
    · cases hc
    · rcases (mem_keys_set _ _ _ _).mp hk with rfl | hk
      · simp only at hc
        subst hc
        exact hav
      · exact hH k hk c hc

theorem savePresHas_storeHas {β : Type} (w : World β) : SavePresHas w (StoreHas w) := by
  intro R rl tmpIts av _ hav itsSave store store' hH h
  unfold saveData at h
  refine foldlM_inv (StoreHas w) _ ?_ _ store store' hH h
  intro st iit st' hst hstep
  split at hstep
  · cases hstep
  · split at hstep
    · cases hstep; exact storeHas_set3 w st R iit rl av _ _ _ hav hst
    · cases hstep

end AurelVerif.ReadCacheXLemmas
