/-
Lemmas/C17PertFLRW.lean — ICPertFLRW (first-order perturbed FLRW initial data) satisfies the
Hamiltonian and momentum constraints up to O(ε²), in the ring of dual numbers ℝ[ε]/(ε²).

Setting.  `ICPertFLRW.gammadown3 / Kdown3 / delta1` (Gen/Solutions.lean, regenerated from
src/aurel/solutions/ICPertFLRW.py) take a background `sol` (functions `Hprop, Omega_m, a, fL`), the
value `Rc` of the curvature perturbation and the values `d3x_d3x_Rc …` of its second derivatives.
All partial derivatives of `Rc` at the point are *jet symbols*: `R n₁ n₂ n₃` stands for
`∂_x^{n₁} ∂_y^{n₂} ∂_z^{n₃} Rc` (`RcJet = ℕ → ℕ → ℕ → ℝ`, arbitrary reals; the symmetry of mixed partial
derivatives is built into the indexing), and `shift k R` is the jet of `∂_k Rc`.
With `Rc → ε·Rc` the module's formulas are *exactly* affine in ε (`gam_affine`, `Kd_affine`):
`γ_ij(ε) = γ⁰_ij + ε γ¹_ij`, `K_ij(ε) = K⁰_ij + ε K¹_ij`, `ρ(ε) = ρ_bg (1 + ε δ₁)`; their spatial
derivatives are `ε ·` the same formulas on the shifted jet (the background is homogeneous).
`pertJet` is this family as a `Jet3 (DualNumber ℝ)`; an equation between dual numbers is the pair of its
zeroth-order and first-order parts, so `hamiltonian = 0` in `DualNumber ℝ` says precisely that the
Hamiltonian constraint of `(γ(ε), K(ε), ρ(ε))` vanishes up to terms of order ε².
-/
import AurelVerif.Spec.Constraints3
import AurelVerif.Spec.ADM
import AurelVerif.Lemmas.Solutions
import Mathlib.Algebra.DualNumber

set_option linter.unusedTactic false
set_option linter.unreachableTactic false
set_option linter.unusedSimpArgs false
set_option linter.unusedVariables false

namespace AurelVerif.C17Pert
open AurelVerif.Gen.Solutions AurelVerif.Spec.Constraints3 TrivSqZeroExt

/-- the jet of `Rc` at a point: `R n₁ n₂ n₃ = ∂_x^{n₁} ∂_y^{n₂} ∂_z^{n₃} Rc`. -/
abbrev RcJet := ℕ → ℕ → ℕ → ℝ

/-- the jet of `∂_k Rc`. -/
def shift (k : Fin 3) (R : RcJet) : RcJet :=
  match k with
  | ⟨0, _⟩ => fun a b c => R (a + 1) b c
  | ⟨1, _⟩ => fun a b c => R a (b + 1) c
  | ⟨_ + 2, _⟩ => fun a b c => R a b (c + 1)

@[simp] theorem shift_zero (R : RcJet) (a b c : ℕ) : shift 0 R a b c = R (a + 1) b c := rfl
@[simp] theorem shift_one (R : RcJet) (a b c : ℕ) : shift 1 R a b c = R a (b + 1) c := rfl
@[simp] theorem shift_two (R : RcJet) (a b c : ℕ) : shift 2 R a b c = R a b (c + 1) := rfl

/-- the zero jet (no perturbation). -/
def R0 : RcJet := fun _ _ _ => 0

variable (H Om a f : ℝ → ℝ)

/-- `ICPertFLRW.gammadown3(sol, fd, t, Rc)` at a point where `Rc` has the jet `R`
(`fd.d3x(fd.d3y(Rc))` is the jet symbol `R 1 1 0`, …). -/
noncomputable def gam (t : ℝ) (R : RcJet) : Fin 3 → Fin 3 → ℝ :=
  ICPertFLRW.gammadown3 H Om a f (R 2 0 0) (R 1 1 0) (R 1 0 1) (R 0 2 0) (R 0 1 1) (R 0 0 2) t (R 0 0 0)

/-- `ICPertFLRW.Kdown3(sol, fd, t, Rc)`. -/
noncomputable def Kd (t : ℝ) (R : RcJet) : Fin 3 → Fin 3 → ℝ :=
  ICPertFLRW.Kdown3 H Om a f (R 2 0 0) (R 1 1 0) (R 1 0 1) (R 0 2 0) (R 0 1 1) (R 0 0 2) t (R 0 0 0)

/-- `ICPertFLRW.delta1(sol, fd, t, Rc)`. -/
noncomputable def del (t : ℝ) (R : RcJet) : ℝ :=
  ICPertFLRW.delta1 H Om a f (R 2 0 0) (R 0 2 0) (R 0 0 2) t (R 0 0 0)

/-- the first-order family `(γ(ε), K(ε))` of ICPertFLRW with its spatial derivatives, as a jet of initial
data over the dual numbers (see the header).  `gi` is `γ⁰^{-1} − ε γ⁰^{-1} γ¹ γ⁰^{-1}` with `γ⁰ = a² δ`;
that it IS the inverse of `g` is part of `pert_constraints`. -/
noncomputable def pertJet (t : ℝ) (R : RcJet) : Jet3 (DualNumber ℝ) where
  g i j := inl (gam H Om a f t R0 i j) + inr (gam H Om a f t R i j - gam H Om a f t R0 i j)
  gi i j := inl ((if i = j then 1 else 0) / a t ^ 2)
    + inr (-(gam H Om a f t R i j - gam H Om a f t R0 i j) / (a t ^ 2) ^ 2)
  dg c i j := inr (gam H Om a f t (shift c R) i j - gam H Om a f t R0 i j)
  ddg c d i j := inr (gam H Om a f t (shift c (shift d R)) i j - gam H Om a f t R0 i j)
  K i j := inl (Kd H Om a f t R0 i j) + inr (Kd H Om a f t R i j - Kd H Om a f t R0 i j)
  dK c i j := inr (Kd H Om a f t (shift c R) i j - Kd H Om a f t R0 i j)

/-- the density `ρ_bg (1 + ε δ₁)`. -/
noncomputable def pertRho (rho : ℝ → ℝ) (t : ℝ) (R : RcJet) : DualNumber ℝ :=
  inl (rho t) * (1 + inr (del H Om a f t R))

/-! ### the module's formulas are affine in the jet of `Rc` -/

/-- `γ_ij(ε·Rc) = γ⁰_ij + ε (γ_ij(Rc) − γ⁰_ij)` for every real `ε`: no higher-order terms. -/
theorem gam_affine (t : ℝ) (R : RcJet) (e : ℝ) (i j : Fin 3) :
    gam H Om a f t (fun n1 n2 n3 => e * R n1 n2 n3) i j
      = gam H Om a f t R0 i j + e * (gam H Om a f t R i j - gam H Om a f t R0 i j) := by
  fin_cases i <;> fin_cases j <;>
    (simp [gam, R0, ICPertFLRW.gammadown3, ICPertFLRW.gammadown3_00, ICPertFLRW.gammadown3_01,
      ICPertFLRW.gammadown3_02, ICPertFLRW.gammadown3_10, ICPertFLRW.gammadown3_11, ICPertFLRW.gammadown3_12,
      ICPertFLRW.gammadown3_20, ICPertFLRW.gammadown3_21, ICPertFLRW.gammadown3_22]; ring)

theorem Kd_affine (t : ℝ) (R : RcJet) (e : ℝ) (i j : Fin 3) :
    Kd H Om a f t (fun n1 n2 n3 => e * R n1 n2 n3) i j
      = Kd H Om a f t R0 i j + e * (Kd H Om a f t R i j - Kd H Om a f t R0 i j) := by
  fin_cases i <;> fin_cases j <;>
    (simp [Kd, R0, ICPertFLRW.Kdown3, ICPertFLRW.Kdown3_00, ICPertFLRW.Kdown3_01,
      ICPertFLRW.Kdown3_02, ICPertFLRW.Kdown3_10, ICPertFLRW.Kdown3_11, ICPertFLRW.Kdown3_12,
      ICPertFLRW.Kdown3_20, ICPertFLRW.Kdown3_21, ICPertFLRW.Kdown3_22]; ring)

theorem del_linear (t : ℝ) (R : RcJet) (e : ℝ) :
    del H Om a f t (fun n1 n2 n3 => e * R n1 n2 n3) = e * del H Om a f t R := by
  simp [del, ICPertFLRW.delta1]; ring

@[simp] theorem dual_fst_two : (2 : DualNumber ℝ).fst = 2 := by
  have h : (2 : DualNumber ℝ) = ((2 : ℕ) : DualNumber ℝ) := by norm_num
  rw [h, fst_natCast]; norm_num
@[simp] theorem dual_snd_two : (2 : DualNumber ℝ).snd = 0 := by
  have h : (2 : DualNumber ℝ) = ((2 : ℕ) : DualNumber ℝ) := by norm_num
  rw [h, snd_natCast]

/-! ### closed forms of the components -/

theorem gam_apply (t : ℝ) (R : RcJet) :
    gam H Om a f t R = ![![a t ^ 2 * (1 - 2 * R 0 0 0) + -2 / ((f t + 3 / 2 * Om t) * H t ^ 2) * R 2 0 0,
        -2 / ((f t + 3 / 2 * Om t) * H t ^ 2) * R 1 1 0, -2 / ((f t + 3 / 2 * Om t) * H t ^ 2) * R 1 0 1],
      ![-2 / ((f t + 3 / 2 * Om t) * H t ^ 2) * R 1 1 0,
        a t ^ 2 * (1 - 2 * R 0 0 0) + -2 / ((f t + 3 / 2 * Om t) * H t ^ 2) * R 0 2 0,
        -2 / ((f t + 3 / 2 * Om t) * H t ^ 2) * R 0 1 1],
      ![-2 / ((f t + 3 / 2 * Om t) * H t ^ 2) * R 1 0 1, -2 / ((f t + 3 / 2 * Om t) * H t ^ 2) * R 0 1 1,
        a t ^ 2 * (1 - 2 * R 0 0 0) + -2 / ((f t + 3 / 2 * Om t) * H t ^ 2) * R 0 0 2]] := by
  simp [gam, ICPertFLRW.gammadown3, ICPertFLRW.gammadown3_00, ICPertFLRW.gammadown3_01,
      ICPertFLRW.gammadown3_02, ICPertFLRW.gammadown3_10, ICPertFLRW.gammadown3_11, ICPertFLRW.gammadown3_12,
      ICPertFLRW.gammadown3_20, ICPertFLRW.gammadown3_21, ICPertFLRW.gammadown3_22]

theorem Kd_apply (t : ℝ) (R : RcJet) :
    Kd H Om a f t R = ![![-(a t ^ 2) * H t * (1 - 2 * R 0 0 0) + (2 + f t) * R 2 0 0 * (1 / ((f t + 3 / 2 * Om t) * H t)),
        (2 + f t) * R 1 1 0 * (1 / ((f t + 3 / 2 * Om t) * H t)), (2 + f t) * R 1 0 1 * (1 / ((f t + 3 / 2 * Om t) * H t))],
      ![(2 + f t) * R 1 1 0 * (1 / ((f t + 3 / 2 * Om t) * H t)),
        -(a t ^ 2) * H t * (1 - 2 * R 0 0 0) + (2 + f t) * R 0 2 0 * (1 / ((f t + 3 / 2 * Om t) * H t)),
        (2 + f t) * R 0 1 1 * (1 / ((f t + 3 / 2 * Om t) * H t))],
      ![(2 + f t) * R 1 0 1 * (1 / ((f t + 3 / 2 * Om t) * H t)), (2 + f t) * R 0 1 1 * (1 / ((f t + 3 / 2 * Om t) * H t)),
        -(a t ^ 2) * H t * (1 - 2 * R 0 0 0) + (2 + f t) * R 0 0 2 * (1 / ((f t + 3 / 2 * Om t) * H t))]] := by
  simp [Kd, ICPertFLRW.Kdown3, ICPertFLRW.Kdown3_00, ICPertFLRW.Kdown3_01,
      ICPertFLRW.Kdown3_02, ICPertFLRW.Kdown3_10, ICPertFLRW.Kdown3_11, ICPertFLRW.Kdown3_12,
      ICPertFLRW.Kdown3_20, ICPertFLRW.Kdown3_21, ICPertFLRW.Kdown3_22]

theorem pert_isInverse (t : ℝ) (R : RcJet) (ha : a t ≠ 0) : (pertJet H Om a f t R).IsInverse := by
  intro i j
  fin_cases i <;> fin_cases j <;>
    (ext <;> simp [pertJet, Fin.sum_univ_three, gam_apply, R0] <;> field_simp <;> ring)

set_option maxHeartbeats 1000000 in
theorem pert_momentum (κ t : ℝ) (R : RcJet) (ha : a t ≠ 0) (hH : H t ≠ 0) (hF : f t + 3 / 2 * Om t ≠ 0)
    (i : Fin 3) : (pertJet H Om a f t R).momentum (inl κ) 0 i = 0 := by
  fin_cases i <;>
    (ext <;> simp [Jet3.momentum, Jet3.covdK, Jet3.Gam, Jet3.Gl, pertJet, Fin.sum_univ_three, gam_apply, Kd_apply, R0]
      <;> field_simp <;> ring)

set_option maxHeartbeats 1000000 in
theorem pert_hamiltonian (rho : ℝ → ℝ) (κ Λ t : ℝ) (R : RcJet) (ha : a t ≠ 0) (hH : H t ≠ 0)
    (hF : f t + 3 / 2 * Om t ≠ 0) (hρ : κ * rho t = 3 * Om t * H t ^ 2) (hFr : 3 * H t ^ 2 = κ * rho t + Λ) :
    (pertJet H Om a f t R).hamiltonian (inl κ) (pertRho H Om a f rho t R) (inl Λ) = 0 := by
  ext
  · simp [Jet3.hamiltonian, Jet3.RicS, Jet3.Ric, Jet3.Riem, Jet3.dGam, Jet3.dgi, Jet3.dGl, Jet3.Kup, Jet3.Ktr,
      Jet3.Gam, Jet3.Gl, pertJet, pertRho, Fin.sum_univ_three, gam_apply, Kd_apply, R0]
    field_simp
    linear_combination (2:ℝ) * hFr
  · simp [Jet3.hamiltonian, Jet3.RicS, Jet3.Ric, Jet3.Riem, Jet3.dGam, Jet3.dgi, Jet3.dGl, Jet3.Kup, Jet3.Ktr,
      Jet3.Gam, Jet3.Gl, pertJet, pertRho, del, ICPertFLRW.delta1, Fin.sum_univ_three, gam_apply, Kd_apply, R0]
    have hF' : 2 * f t + 3 * Om t ≠ 0 := fun h => hF (by linarith)
    field_simp
    linear_combination (-(a t ^ 2 * 2 ^ 3 * (R 2 0 0 + R 0 2 0 + R 0 0 2))) * hρ

end AurelVerif.C17Pert
