/-
Lemmas/Chunks.lean — proofs about Model/Chunks.lean (C11).

A. `sortNat` sorts.                      B. dictionaries.
C. joining one group is order-independent (1-D version of T1).
D. one grouping pass of `join_chunks` (generic in the key type and in `cat`).
E. consecutive slices along an axis concatenate to the prefix (per axis).
F. the three passes on the chunks of a hierarchical decomposition (T1).
G. ghost trimming (T2), `fixij` (T3), mismatches (T7), restart choice (T5).
-/
import Mathlib.Data.List.Nodup
import AurelVerif.Model.Chunks
namespace AurelVerif.ChunksLemmas
open AurelVerif.Chunks
set_option linter.unusedSimpArgs false

/-! ### A. sortNat -/

theorem insertNat_perm (x : Nat) (l : List Nat) : (insertNat x l).Perm (x :: l) := by
  induction l with
  | nil => simp [insertNat]
  | cons y ys ih =>
    simp only [insertNat]
    split
    · exact List.Perm.refl _
    · exact (List.Perm.cons y ih).trans (List.Perm.swap x y ys)

theorem sortNat_perm (l : List Nat) : (sortNat l).Perm l := by
  induction l with
  | nil => simp [sortNat]
  | cons x xs ih => exact (insertNat_perm x _).trans (List.Perm.cons x ih)

theorem insertNat_sorted (x : Nat) (l : List Nat) (h : l.Pairwise (· ≤ ·)) :
    (insertNat x l).Pairwise (· ≤ ·) := by
  induction l with
  | nil => simp [insertNat]
  | cons y ys ih =>
    simp only [insertNat]
    have hy := List.pairwise_cons.mp h
    split
    · rename_i hxy
      refine List.pairwise_cons.mpr ⟨?_, h⟩
      intro a ha
      rcases List.mem_cons.mp ha with rfl | ha
      · exact hxy
      · exact Nat.le_trans hxy (hy.1 a ha)
    · rename_i hxy
      refine List.pairwise_cons.mpr ⟨?_, ih hy.2⟩
      intro a ha
      have := (insertNat_perm x ys).mem_iff.mp ha
      rcases List.mem_cons.mp this with rfl | ha
      · omega
      · exact hy.1 a ha

theorem sortNat_sorted (l : List Nat) : (sortNat l).Pairwise (· ≤ ·) := by
  induction l with
  | nil => simp [sortNat]
  | cons x xs ih => exact insertNat_sorted x _ ih

/-- sorting a permutation of a strictly increasing list gives that list -/
theorem sortNat_eq_of_perm {l s : List Nat} (hp : l.Perm s) (hs : s.Pairwise (· < ·)) :
    sortNat l = s := by
  apply List.Perm.eq_of_pairwise (le := (· ≤ ·))
  · intro a b _ _ h1 h2; omega
  · exact sortNat_sorted l
  · exact hs.imp (fun h => Nat.le_of_lt h)
  · exact (sortNat_perm l).trans hp


/-! ### B. dictionaries -/

theorem get?_of_mem {κ β : Type} [DecidableEq κ] {d : Dict κ β} (hn : (d.map Prod.fst).Nodup)
    {k : κ} {v : β} (hm : (k, v) ∈ d) : d.get? k = some v := by
  induction d with
  | nil => cases hm
  | cons kv rest ih =>
    obtain ⟨k', v'⟩ := kv
    simp only [List.map_cons, List.nodup_cons] at hn
    simp only [Dict.get?]
    rcases List.mem_cons.mp hm with h | h
    · cases h; simp
    · have : k' ≠ k := by
        intro e; subst e
        exact hn.1 (List.mem_map.mpr ⟨(k', v), h, rfl⟩)
      simp [this, ih hn.2 h]

theorem set_of_not_mem {κ β : Type} [DecidableEq κ] (d : Dict κ β) (k : κ) (v : β)
    (hk : k ∉ d.map Prod.fst) : d.set k v = d ++ [(k, v)] := by
  induction d with
  | nil => rfl
  | cons kv rest ih =>
    obtain ⟨k', v'⟩ := kv
    simp only [List.map_cons, List.mem_cons, not_or] at hk
    have : k' ≠ k := fun e => hk.1 e.symm
    simp [Dict.set, this, ih hk.2]

/-! ### C. joining one group -/

/-- the sequential `np.append` of the pieces in the given order -/
def foldCat {β : Type} (cat : β → β → Option β) : List β → Option β
  | [] => none
  | p :: ps => ps.foldlM cat p

theorem foldl_get {β : Type} (cat : β → β → Option β) (g : Dict Nat β)
    (hn : (g.map Prod.fst).Nodup) (tail : List (Nat × β)) (ht : ∀ kv ∈ tail, kv ∈ g) (first : β) :
    (tail.map Prod.fst).foldlM (fun acc k => match g.get? k with
                              | none => none
                              | some b => cat acc b) first
      = (tail.map Prod.snd).foldlM cat first := by
  induction tail generalizing first with
  | nil => rfl
  | cons kv rest ih =>
    obtain ⟨k, v⟩ := kv
    have hk : g.get? k = some v := get?_of_mem hn (ht _ (List.mem_cons_self ..))
    simp only [List.map_cons, List.foldlM_cons, hk]
    cases h : cat first v with
    | none => rfl
    | some w =>
      exact ih (fun kv hkv => ht kv (List.mem_cons_of_mem _ hkv)) w

/-- a group that is a permutation of a list with strictly increasing keys is
joined in key order -/
theorem joinSorted_perm {β : Type} (cat : β → β → Option β) {g s : Dict Nat β}
    (hp : g.Perm s) (hs : (s.map Prod.fst).Pairwise (· < ·)) :
    joinSorted cat g = foldCat cat (s.map Prod.snd) := by
  have hsort : sortNat (g.map Prod.fst) = s.map Prod.fst :=
    sortNat_eq_of_perm (hp.map _) hs
  have hnd : (g.map Prod.fst).Nodup := by
    have : (s.map Prod.fst).Nodup := hs.imp (fun h => Nat.ne_of_lt h)
    exact ((hp.map Prod.fst).nodup_iff).mpr this
  unfold joinSorted
  rw [hsort]
  cases s with
  | nil => rfl
  | cons kv rest =>
    obtain ⟨k, v⟩ := kv
    have hk : g.get? k = some v := get?_of_mem hnd (hp.mem_iff.mpr (List.mem_cons_self ..))
    simp only [List.map_cons, hk, foldCat]
    exact foldl_get cat g hnd rest (fun kv hkv => hp.mem_iff.mpr (List.mem_cons_of_mem _ hkv)) v


/-! ### D. the grouping pass -/

/-- all items of a grouped dictionary, with their full keys -/
def flat {κ β : Type} (G : Dict κ (Dict Nat β)) : List ((Nat × κ) × β) :=
  G.flatMap fun kg => kg.2.map fun ov => ((ov.1, kg.1), ov.2)

theorem flat_cons {κ β : Type} (k : κ) (g : Dict Nat β) (G : Dict κ (Dict Nat β)) :
    flat ((k, g) :: G) = g.map (fun ov => ((ov.1, k), ov.2)) ++ flat G := by
  simp [flat]

theorem mem_flat {κ β : Type} {G : Dict κ (Dict Nat β)} {x : (Nat × κ) × β} :
    x ∈ flat G ↔ ∃ g, (x.1.2, g) ∈ G ∧ (x.1.1, x.2) ∈ g := by
  obtain ⟨⟨o, k⟩, v⟩ := x
  simp only [flat, List.mem_flatMap, List.mem_map]
  constructor
  · rintro ⟨⟨k', g⟩, hkg, ⟨o', v'⟩, hov, h⟩
    simp only [Prod.mk.injEq] at h
    obtain ⟨⟨rfl, rfl⟩, rfl⟩ := h
    exact ⟨g, hkg, hov⟩
  · rintro ⟨g, hkg, hov⟩
    exact ⟨(k, g), hkg, (o, v), hov, rfl⟩

theorem groupStep_keys {κ β : Type} [DecidableEq κ] (G : Dict κ (Dict Nat β)) (o : Nat) (k : κ) (v : β) :
    (groupStep G o k v).map Prod.fst
      = if k ∈ G.map Prod.fst then G.map Prod.fst else G.map Prod.fst ++ [k] := by
  induction G with
  | nil => simp [groupStep]
  | cons kg rest ih =>
    obtain ⟨k', g⟩ := kg
    simp only [groupStep]
    by_cases h : k' = k
    · subst h; simp
    · have h' : ¬ k = k' := fun e => h e.symm
      simp only [h, if_false, List.map_cons, ih, List.mem_cons, h', false_or]
      split <;> simp

theorem groupStep_nodup {κ β : Type} [DecidableEq κ] (G : Dict κ (Dict Nat β)) (o : Nat) (k : κ) (v : β)
    (h : (G.map Prod.fst).Nodup) : ((groupStep G o k v).map Prod.fst).Nodup := by
  rw [groupStep_keys]
  split
  · exact h
  · rename_i hk
    exact List.nodup_append.mpr ⟨h, by simp, by
      intro a ha b hb; simp at hb; subst hb; intro e; subst e; exact hk ha⟩

theorem set_ne_nil {κ β : Type} [DecidableEq κ] (d : Dict κ β) (k : κ) (v : β) : d.set k v ≠ [] := by
  cases d with
  | nil => simp [Dict.set]
  | cons kv rest => obtain ⟨k', v'⟩ := kv; simp only [Dict.set]; split <;> simp

theorem groupStep_nonempty {κ β : Type} [DecidableEq κ] (G : Dict κ (Dict Nat β)) (o : Nat) (k : κ) (v : β)
    (h : ∀ kg ∈ G, kg.2 ≠ []) : ∀ kg ∈ groupStep G o k v, kg.2 ≠ [] := by
  induction G with
  | nil => intro kg hkg; simp [groupStep] at hkg; subst hkg; simp
  | cons kg0 rest ih =>
    obtain ⟨k', g⟩ := kg0
    simp only [groupStep]
    split
    · intro kg hkg
      rcases List.mem_cons.mp hkg with rfl | hkg
      · exact set_ne_nil _ _ _
      · exact h kg (List.mem_cons_of_mem _ hkg)
    · intro kg hkg
      rcases List.mem_cons.mp hkg with rfl | hkg
      · exact h _ (List.mem_cons_self ..)
      · exact ih (fun kg hkg => h kg (List.mem_cons_of_mem _ hkg)) kg hkg

theorem groupStep_flat {κ β : Type} [DecidableEq κ] (G : Dict κ (Dict Nat β)) (o : Nat) (k : κ) (v : β)
    (hfresh : (o, k) ∉ (flat G).map Prod.fst) :
    (flat (groupStep G o k v)).Perm (flat G ++ [((o, k), v)]) := by
  induction G with
  | nil => simp [groupStep, flat]
  | cons kg rest ih =>
    obtain ⟨k', g⟩ := kg
    simp only [groupStep]
    rw [flat_cons, List.map_append, List.mem_append, not_or] at hfresh
    by_cases h : k' = k
    · subst h
      have ho : o ∉ g.map Prod.fst := by
        intro hm
        obtain ⟨⟨o', v'⟩, hov, rfl⟩ := List.mem_map.mp hm
        exact hfresh.1 (List.mem_map.mpr ⟨((o', k'), v'), List.mem_map.mpr ⟨(o', v'), hov, rfl⟩, rfl⟩)
      simp only [if_true, flat_cons, set_of_not_mem g o v ho, List.map_append, List.map_cons, List.map_nil,
        List.append_assoc]
      exact List.Perm.append_left _ List.perm_append_comm
    · simp only [h, if_false, flat_cons, List.append_assoc]
      exact List.Perm.append_left _ (ih hfresh.2)

theorem foldl_groupStep {κ β : Type} [DecidableEq κ] (items : Dict (Nat × κ) β) (G : Dict κ (Dict Nat β))
    (hk : (G.map Prod.fst).Nodup) (hne : ∀ kg ∈ G, kg.2 ≠ [])
    (hnd : ((flat G ++ items).map Prod.fst).Nodup) :
    let G' := items.foldl (fun gs it => groupStep gs it.1.1 it.1.2 it.2) G
    (G'.map Prod.fst).Nodup ∧ (∀ kg ∈ G', kg.2 ≠ []) ∧ (flat G').Perm (flat G ++ items) := by
  induction items generalizing G with
  | nil => simp only [List.foldl_nil, List.append_nil]; exact ⟨hk, hne, List.Perm.refl _⟩
  | cons x xs ih =>
    obtain ⟨⟨o, k⟩, v⟩ := x
    simp only [List.foldl_cons]
    have hfresh : (o, k) ∉ (flat G).map Prod.fst := by
      rw [List.map_append, List.map_cons] at hnd
      have := (List.nodup_append.mp hnd).2.2
      intro hm
      exact this _ hm _ (List.mem_cons_self ..) rfl
    have hperm := groupStep_flat G o k v hfresh
    have hnd' : ((flat (groupStep G o k v) ++ xs).map Prod.fst).Nodup := by
      have : (flat (groupStep G o k v) ++ xs).Perm (flat G ++ ((o, k), v) :: xs) := by
        have := List.Perm.append_right xs hperm
        simpa [List.append_assoc] using this
      exact ((this.map Prod.fst).nodup_iff).mpr hnd
    obtain ⟨h1, h2, h3⟩ := ih (groupStep G o k v) (groupStep_nodup G o k v hk)
      (groupStep_nonempty G o k v hne) hnd'
    refine ⟨h1, h2, h3.trans ?_⟩
    have := List.Perm.append_right xs hperm
    simpa [List.append_assoc] using this

theorem groupAll_spec {κ β : Type} [DecidableEq κ] (items : Dict (Nat × κ) β)
    (hnd : (items.map Prod.fst).Nodup) :
    ((groupAll items).map Prod.fst).Nodup ∧ (∀ kg ∈ groupAll items, kg.2 ≠ [])
      ∧ (flat (groupAll items)).Perm items := by
  have := foldl_groupStep items ([] : Dict κ (Dict Nat β)) (by simp) (by simp) (by simpa [flat] using hnd)
  simpa [groupAll, flat] using this

/-- selecting the items of one group -/
def sel {κ β : Type} [DecidableEq κ] (k : κ) (x : (Nat × κ) × β) : Option (Nat × β) :=
  if x.1.2 = k then some (x.1.1, x.2) else none

theorem filterMap_sel_same {κ β : Type} [DecidableEq κ] (k : κ) (g : Dict Nat β) :
    (g.map fun ov => ((ov.1, k), ov.2)).filterMap (sel k) = g := by
  induction g with
  | nil => rfl
  | cons ov rest ih => simp [sel] at ih ⊢; exact ih

theorem filterMap_sel_ne {κ β : Type} [DecidableEq κ] {k k' : κ} (h : k' ≠ k) (g : Dict Nat β) :
    (g.map fun ov => ((ov.1, k'), ov.2)).filterMap (sel k) = [] := by
  induction g with
  | nil => rfl
  | cons ov rest ih => simp [sel, h] at ih ⊢

theorem flat_filterMap_not_mem {κ β : Type} [DecidableEq κ] (G : Dict κ (Dict Nat β)) (k : κ)
    (h : k ∉ G.map Prod.fst) : (flat G).filterMap (sel k) = [] := by
  induction G with
  | nil => rfl
  | cons kg rest ih =>
    obtain ⟨k', g⟩ := kg
    simp only [List.map_cons, List.mem_cons, not_or] at h
    rw [flat_cons, List.filterMap_append, filterMap_sel_ne (fun e => h.1 e.symm), ih h.2]
    rfl

theorem flat_filterMap {κ β : Type} [DecidableEq κ] (G : Dict κ (Dict Nat β)) (hk : (G.map Prod.fst).Nodup)
    (k : κ) (g : Dict Nat β) (hm : (k, g) ∈ G) : (flat G).filterMap (sel k) = g := by
  induction G with
  | nil => cases hm
  | cons kg rest ih =>
    obtain ⟨k', g'⟩ := kg
    simp only [List.map_cons, List.nodup_cons] at hk
    rw [flat_cons, List.filterMap_append]
    rcases List.mem_cons.mp hm with h | h
    · cases h
      rw [filterMap_sel_same, flat_filterMap_not_mem rest k hk.1, List.append_nil]
    · have : k' ≠ k := by
        intro e; subst e; exact hk.1 (List.mem_map.mpr ⟨(k', g), h, rfl⟩)
      rw [filterMap_sel_ne this, ih hk.2 h, List.nil_append]

theorem flat_keys_nodup {κ β : Type} (G : Dict κ (Dict Nat β)) (hk : (G.map Prod.fst).Nodup)
    (hg : ∀ kg ∈ G, (kg.2.map Prod.fst).Nodup) : ((flat G).map Prod.fst).Nodup := by
  induction G with
  | nil => simp [flat]
  | cons kg rest ih =>
    obtain ⟨k, g⟩ := kg
    simp only [List.map_cons, List.nodup_cons] at hk
    rw [flat_cons, List.map_append]
    refine List.nodup_append.mpr ⟨?_, ih hk.2 (fun kg h => hg kg (List.mem_cons_of_mem _ h)), ?_⟩
    · have := hg (k, g) (List.mem_cons_self ..)
      simp only [List.map_map]
      have h2 : (g.map (fun ov => (ov.1, k))) = (g.map Prod.fst).map (fun o => (o, k)) := by simp
      show (g.map (Prod.fst ∘ fun ov => ((ov.1, k), ov.2))).Nodup
      have h3 : (Prod.fst ∘ fun (ov : Nat × β) => ((ov.1, k), ov.2)) = fun ov => (ov.1, k) := rfl
      rw [h3, h2]
      exact List.Nodup.map (fun a b h => by simpa using h) this
    · intro a ha b hb e
      subst e
      obtain ⟨x, hx, rfl⟩ := List.mem_map.mp ha
      obtain ⟨y, hy, hxy⟩ := List.mem_map.mp hb
      obtain ⟨ov, _, rfl⟩ := List.mem_map.mp hx
      obtain ⟨g', hg', _⟩ := mem_flat.mp hy
      rw [hxy] at hg'
      exact hk.1 (List.mem_map.mpr ⟨(k, g'), hg', rfl⟩)

theorem mapOpt_eq_map {γ δ : Type} (f : γ → Option δ) (h : γ → δ) (l : List γ)
    (hf : ∀ x ∈ l, f x = some (h x)) : mapOpt f l = some (l.map h) := by
  induction l with
  | nil => rfl
  | cons x xs ih =>
    simp only [mapOpt, hf x (List.mem_cons_self ..), ih (fun y hy => hf y (List.mem_cons_of_mem _ hy)),
      List.map_cons]

/-- **One pass of `join_chunks`.**  `L` indexes the intended groups: group `i`
has key `key i`, members `grp i` (keyed by their first origin component) and
joins to `whole i` in whatever order its members are met.  Then a pass over
any permutation of all members yields, in some order, `(key i, whole i)`. -/
theorem pass_spec {ι κ β : Type} [DecidableEq κ] [Inhabited β] (cat : β → β → Option β)
    (L : List ι) (key : ι → κ) (grp : ι → Dict Nat β) (whole : ι → β)
    (hkey : (L.map key).Nodup) (hne : ∀ i ∈ L, grp i ≠ [])
    (hgk : ∀ i ∈ L, ((grp i).map Prod.fst).Nodup)
    (hj : ∀ i ∈ L, ∀ g', g'.Perm (grp i) → joinSorted cat g' = some (whole i))
    (items : Dict (Nat × κ) β) (hp : items.Perm (flat (L.map fun i => (key i, grp i)))) :
    ∃ R, pass cat items = some R ∧ R.Perm (L.map fun i => (key i, whole i)) := by
  let G0 : Dict κ (Dict Nat β) := L.map fun i => (key i, grp i)
  have hG0k : G0.map Prod.fst = L.map key := by simp [G0]
  have hG0nd : ((flat G0).map Prod.fst).Nodup := by
    apply flat_keys_nodup
    · rw [hG0k]; exact hkey
    · intro kg hkg
      obtain ⟨i, hi, rfl⟩ := List.mem_map.mp hkg
      exact hgk i hi
  have hitems : (items.map Prod.fst).Nodup := ((hp.map Prod.fst).nodup_iff).mpr hG0nd
  obtain ⟨hGk, hGne, hGflat⟩ := groupAll_spec items hitems
  have hflat : (flat (groupAll items)).Perm (flat G0) := hGflat.trans hp
  -- A: every group found is a permutation of an intended group
  have hA : ∀ kg ∈ groupAll items, ∃ i ∈ L, key i = kg.1 ∧ kg.2.Perm (grp i) := by
    intro kg hkg
    obtain ⟨k, g⟩ := kg
    have hgne := hGne _ hkg
    obtain ⟨⟨o, v⟩, hov⟩ := List.exists_mem_of_ne_nil g hgne
    have hx : ((o, k), v) ∈ flat (groupAll items) := mem_flat.mpr ⟨g, hkg, hov⟩
    have hx0 : ((o, k), v) ∈ flat G0 := hflat.mem_iff.mp hx
    obtain ⟨g0, hg0, _⟩ := mem_flat.mp hx0
    obtain ⟨i, hi, hik⟩ := List.mem_map.mp hg0
    simp only [Prod.mk.injEq] at hik
    refine ⟨i, hi, hik.1, ?_⟩
    have h1 := flat_filterMap (groupAll items) hGk k g hkg
    have h2 := flat_filterMap G0 (by rw [hG0k]; exact hkey) k g0 hg0
    have := hflat.filterMap (sel k)
    rw [h1, h2] at this
    rw [hik.2]; exact this
  -- B: the keys found are the intended keys
  have hB : ((groupAll items).map Prod.fst).Perm (L.map key) := by
    refine (List.perm_ext_iff_of_nodup hGk hkey).mpr (fun k => ⟨?_, ?_⟩)
    · intro hk
      obtain ⟨kg, hkg, rfl⟩ := List.mem_map.mp hk
      obtain ⟨i, hi, hik, _⟩ := hA kg hkg
      exact List.mem_map.mpr ⟨i, hi, hik⟩
    · intro hk
      obtain ⟨i, hi, rfl⟩ := List.mem_map.mp hk
      obtain ⟨⟨o, v⟩, hov⟩ := List.exists_mem_of_ne_nil _ (hne i hi)
      have hx0 : ((o, key i), v) ∈ flat G0 :=
        mem_flat.mpr ⟨grp i, List.mem_map.mpr ⟨i, hi, rfl⟩, hov⟩
      obtain ⟨g, hg, _⟩ := mem_flat.mp (hflat.mem_iff.mpr hx0)
      exact List.mem_map.mpr ⟨(key i, g), hg, rfl⟩
  -- the value attached to a key
  let W : κ → β := fun k => match L.find? (fun i => decide (key i = k)) with
    | some i => whole i
    | none => default
  have hW : ∀ i ∈ L, W (key i) = whole i := by
    intro i hi
    show (match L.find? (fun j => decide (key j = key i)) with
      | some j => whole j
      | none => default) = whole i
    cases hf : L.find? (fun j => decide (key j = key i)) with
    | none =>
      have := List.find?_eq_none.mp hf i hi
      simp at this
    | some j =>
      have hj1 : key j = key i := by simpa using List.find?_some hf
      have hj2 : j ∈ L := List.mem_of_find?_eq_some hf
      have : j = i := List.inj_on_of_nodup_map hkey hj2 hi hj1
      simp [this]
  have hval : ∀ kg ∈ groupAll items,
      (fun kg : κ × Dict Nat β => (joinSorted cat kg.2).map (fun w => (kg.1, w))) kg
        = some ((fun kg : κ × Dict Nat β => (kg.1, W kg.1)) kg) := by
    intro kg hkg
    obtain ⟨i, hi, hik, hperm⟩ := hA kg hkg
    simp only [hj i hi kg.2 hperm, Option.map_some, ← hik, hW i hi]
  refine ⟨(groupAll items).map (fun kg => (kg.1, W kg.1)), ?_, ?_⟩
  · unfold pass
    exact mapOpt_eq_map _ _ _ hval
  · have h1 : (groupAll items).map (fun kg => (kg.1, W kg.1))
        = ((groupAll items).map Prod.fst).map (fun k => (k, W k)) := by simp
    have h2 : L.map (fun i => (key i, whole i)) = (L.map key).map (fun k => (k, W k)) := by
      rw [List.map_map]
      exact List.map_congr_left (fun i hi => by simp [hW i hi])
    rw [h1, h2]
    exact hB.map _


/-! ### E. consecutive pieces along one axis -/

theorem cutsP_map {τ : Type} (o : Nat) (ys : List (Nat × τ)) :
    (cutsP o ys).map (fun c => (c.1, c.2.1)) = cuts o (ys.map Prod.fst) := by
  induction ys generalizing o with
  | nil => rfl
  | cons y rest ih => obtain ⟨l, t⟩ := y; simp [cutsP, cuts, ih]

theorem cuts_ge (o : Nat) (lens : List Nat) : ∀ c ∈ cuts o lens, o ≤ c.1 := by
  induction lens generalizing o with
  | nil => intro c hc; cases hc
  | cons l rest ih =>
    intro c hc
    rcases List.mem_cons.mp hc with rfl | hc
    · exact Nat.le_refl _
    · have := ih (o + l) c hc; omega

theorem cuts_strict (o : Nat) (lens : List Nat) (hpos : ∀ l ∈ lens, 0 < l) :
    ((cuts o lens).map Prod.fst).Pairwise (· < ·) := by
  induction lens generalizing o with
  | nil => simp [cuts]
  | cons l rest ih =>
    simp only [cuts, List.map_cons, List.pairwise_cons]
    refine ⟨?_, ih (o + l) (fun x hx => hpos x (List.mem_cons_of_mem _ hx))⟩
    intro a ha
    obtain ⟨c, hc, rfl⟩ := List.mem_map.mp ha
    have := cuts_ge (o + l) rest c hc
    have := hpos l (List.mem_cons_self ..)
    omega

theorem cutsP_strict {τ : Type} (o : Nat) (ys : List (Nat × τ)) (hpos : ∀ y ∈ ys, 0 < y.1) :
    ((cutsP o ys).map (fun c => c.1)).Pairwise (· < ·) := by
  have h := cuts_strict o (ys.map Prod.fst) (by
    intro l hl; obtain ⟨y, hy, rfl⟩ := List.mem_map.mp hl; exact hpos y hy)
  rw [← cutsP_map, List.map_map] at h
  exact h

theorem cuts_ne_nil (o : Nat) (lens : List Nat) (h : lens ≠ []) : cuts o lens ≠ [] := by
  cases lens with
  | nil => exact absurd rfl h
  | cons l rest => simp [cuts]

theorem cuts_mem_bound (o : Nat) (lens : List Nat) : ∀ c ∈ cuts o lens, c.1 + c.2 ≤ o + lens.sum ∧ c.2 ∈ lens := by
  induction lens generalizing o with
  | nil => intro c hc; cases hc
  | cons l rest ih =>
    intro c hc
    simp only [List.sum_cons]
    rcases List.mem_cons.mp hc with rfl | hc
    · exact ⟨by simp, List.mem_cons_self ..⟩
    · have := ih (o + l) c hc
      exact ⟨by omega, List.mem_cons_of_mem _ this.2⟩

theorem foldlM_pieces {β : Type} (cat : β → β → Option β) (pre : Nat → β) (sl : Nat → Nat → β) (n : Nat)
    (hcat : ∀ o l, 0 < o → 0 < l → o + l ≤ n → cat (pre o) (sl o l) = some (pre (o + l)))
    (lens : List Nat) (hpos : ∀ l ∈ lens, 0 < l) (o : Nat) (ho : 0 < o) (hsum : o + lens.sum ≤ n) :
    ((cuts o lens).map fun c => sl c.1 c.2).foldlM cat (pre o) = some (pre (o + lens.sum)) := by
  induction lens generalizing o with
  | nil => simp [cuts]
  | cons l rest ih =>
    have hl := hpos l (List.mem_cons_self ..)
    simp only [List.sum_cons] at hsum
    simp only [cuts, List.map_cons, List.foldlM_cons, hcat o l ho hl (by omega), List.sum_cons]
    have := ih (fun x hx => hpos x (List.mem_cons_of_mem _ hx)) (o + l) (by omega) (by omega)
    simpa [Nat.add_assoc] using this

/-- folding `np.append` over the consecutive pieces of a decomposition of
`[0, n)` rebuilds the prefix of length `n` -/
theorem foldCat_pieces {β : Type} (cat : β → β → Option β) (pre : Nat → β) (sl : Nat → Nat → β) (n : Nat)
    (h0 : ∀ l, sl 0 l = pre l)
    (hcat : ∀ o l, 0 < o → 0 < l → o + l ≤ n → cat (pre o) (sl o l) = some (pre (o + l)))
    (lens : List Nat) (hne : lens ≠ []) (hpos : ∀ l ∈ lens, 0 < l) (hsum : lens.sum = n) :
    foldCat cat ((cuts 0 lens).map fun c => sl c.1 c.2) = some (pre n) := by
  cases lens with
  | nil => exact absurd rfl hne
  | cons l rest =>
    have hl := hpos l (List.mem_cons_self ..)
    simp only [List.sum_cons] at hsum
    simp only [cuts, List.map_cons, foldCat, h0, Nat.zero_add]
    have := foldlM_pieces cat pre sl n hcat rest (fun x hx => hpos x (List.mem_cons_of_mem _ hx)) l hl
      (by omega)
    rw [this, hsum]

/-! ### shapes -/

theorem dim1_eq {α : Type} (B : Arr3 α) (ny : Nat) (hne : B ≠ []) (h : ∀ p ∈ B, p.length = ny) :
    dim1 B = ny := by
  cases B with
  | nil => exact absurd rfl hne
  | cons p rest => exact h p (List.mem_cons_self ..)

theorem dim2_eq {α : Type} (B : Arr3 α) (nx : Nat) (hne : B ≠ [])
    (h : ∀ p ∈ B, p ≠ [] ∧ ∀ r ∈ p, r.length = nx) : dim2 B = nx := by
  cases B with
  | nil => exact absurd rfl hne
  | cons p rest =>
    have := h p (List.mem_cons_self ..)
    cases p with
    | nil => exact absurd rfl this.1
    | cons r rs => exact this.2 r (List.mem_cons_self ..)

theorem dim1_map_map {α : Type} (S : Arr3 α) (f : List α → List α) :
    dim1 (S.map fun p => p.map f) = dim1 S := by
  cases S with
  | nil => rfl
  | cons p rest => simp [dim1]

theorem take_append_slice {γ : Type} (o l : Nat) (r : List γ) : r.take o ++ slice o l r = r.take (o + l) := by
  simp [slice, List.take_add]

/-- axis 2 -/
theorem cat2_take_slice {α : Type} (S : Arr3 α) (o l : Nat) :
    cat2 (S.map fun p => p.map (List.take o)) (slice2 o l S) = some (S.map fun p => p.map (List.take (o + l))) := by
  unfold cat2 slice2
  rw [if_pos ⟨by simp, by rw [dim1_map_map, dim1_map_map]⟩]
  congr 1
  rw [List.zipWith_map, List.zipWith_self]
  apply List.map_congr_left
  intro p _
  rw [List.zipWith_map, List.zipWith_self]
  apply List.map_congr_left
  intro r _
  exact take_append_slice o l r

theorem slice_ne_nil {γ : Type} (o l : Nat) (p : List γ) (hl : 0 < l) (ho : o < p.length) : slice o l p ≠ [] := by
  intro h
  have : (slice o l p).length = 0 := by rw [h]; rfl
  simp [slice] at this
  omega

theorem mem_of_mem_slice {γ : Type} {o l : Nat} {p : List γ} {r : γ} (h : r ∈ slice o l p) : r ∈ p :=
  List.mem_of_mem_drop (List.mem_of_mem_take h)

/-- axis 1 -/
theorem cat1_take_slice {α : Type} (Z : Arr3 α) (ny nx : Nat)
    (hZ : ∀ p ∈ Z, p.length = ny ∧ ∀ r ∈ p, r.length = nx) (o l : Nat) (ho : 0 < o) (hl : 0 < l)
    (hol : o + l ≤ ny) :
    cat1 (Z.map (List.take o)) (slice1 o l Z) = some (Z.map (List.take (o + l))) := by
  unfold cat1 slice1
  have hd : dim2 (Z.map (List.take o)) = dim2 (Z.map (slice o l)) := by
    by_cases hz : Z = []
    · subst hz; rfl
    · rw [dim2_eq (Z.map (List.take o)) nx (by simpa using hz), dim2_eq (Z.map (slice o l)) nx (by simpa using hz)]
      · intro p hp
        obtain ⟨q, hq, rfl⟩ := List.mem_map.mp hp
        obtain ⟨hq1, hq2⟩ := hZ q hq
        exact ⟨slice_ne_nil o l q hl (by omega), fun r hr => hq2 r (mem_of_mem_slice hr)⟩
      · intro p hp
        obtain ⟨q, hq, rfl⟩ := List.mem_map.mp hp
        obtain ⟨hq1, hq2⟩ := hZ q hq
        refine ⟨?_, fun r hr => hq2 r (List.mem_of_mem_take hr)⟩
        intro h
        have h0 : (List.take o q).length = 0 := by rw [h]; rfl
        rw [List.length_take] at h0
        omega
  rw [if_pos ⟨by simp, hd⟩]
  congr 1
  rw [List.zipWith_map, List.zipWith_self]
  apply List.map_congr_left
  intro p _
  exact take_append_slice o l p

/-- axis 0 -/
theorem cat0_take_slice {α : Type} (A : Arr3 α) (nz ny nx : Nat) (hlen : A.length = nz)
    (hA : ∀ p ∈ A, p.length = ny ∧ ∀ r ∈ p, r.length = nx) (hny : 0 < ny)
    (o l : Nat) (ho : 0 < o) (hl : 0 < l) (hol : o + l ≤ nz) :
    cat0 (A.take o) (slice0 o l A) = some (A.take (o + l)) := by
  unfold cat0 slice0
  have h1 : A.take o ≠ [] := by
    intro h
    have h0 : (A.take o).length = 0 := by rw [h]; rfl
    rw [List.length_take] at h0; omega
  have h2 : slice o l A ≠ [] := slice_ne_nil o l A hl (by omega)
  have hp1 : ∀ p ∈ A.take o, p.length = ny ∧ ∀ r ∈ p, r.length = nx :=
    fun p hp => hA p (List.mem_of_mem_take hp)
  have hp2 : ∀ p ∈ slice o l A, p.length = ny ∧ ∀ r ∈ p, r.length = nx :=
    fun p hp => hA p (mem_of_mem_slice hp)
  have ne_of : ∀ p : List (List α), p.length = ny → p ≠ [] := by
    intro p hp h; subst h; simp at hp; omega
  rw [if_pos ⟨by rw [dim1_eq _ ny h1 (fun p hp => (hp1 p hp).1), dim1_eq _ ny h2 (fun p hp => (hp2 p hp).1)],
    by rw [dim2_eq _ nx h1 (fun p hp => ⟨ne_of p (hp1 p hp).1, (hp1 p hp).2⟩),
           dim2_eq _ nx h2 (fun p hp => ⟨ne_of p (hp2 p hp).1, (hp2 p hp).2⟩)]⟩]
  congr 1
  exact take_append_slice o l A


/-! ### F. the three passes on the chunks of a hierarchical decomposition -/

theorem cutsP_map' {τ γ : Type} (f : Nat → Nat → γ) (o : Nat) (ys : List (Nat × τ)) :
    (cutsP o ys).map (fun c => f c.1 c.2.1) = (cuts o (ys.map Prod.fst)).map (fun c => f c.1 c.2) := by
  induction ys generalizing o with
  | nil => rfl
  | cons y rest ih => obtain ⟨l, t⟩ := y; simp [cutsP, cuts, ih]

theorem cutsP_mem {τ : Type} (o : Nat) (ys : List (Nat × τ)) :
    ∀ c ∈ cutsP o ys, (c.2.1, c.2.2) ∈ ys ∧ c.1 + c.2.1 ≤ o + (ys.map Prod.fst).sum := by
  induction ys generalizing o with
  | nil => intro c hc; cases hc
  | cons y rest ih =>
    obtain ⟨l, t⟩ := y
    intro c hc
    simp only [List.map_cons, List.sum_cons]
    rcases List.mem_cons.mp hc with rfl | hc
    · exact ⟨List.mem_cons_self .., by simp⟩
    · have := ih (o + l) c hc
      exact ⟨List.mem_cons_of_mem _ this.1, by omega⟩

theorem cutsP_ne_nil {τ : Type} (o : Nat) (ys : List (Nat × τ)) (h : ys ≠ []) : cutsP o ys ≠ [] := by
  cases ys with
  | nil => exact absurd rfl h
  | cons y rest => obtain ⟨l, t⟩ := y; simp [cutsP]

theorem ne_nil_of_sum_pos {l : List Nat} (h : 0 < l.sum) : l ≠ [] := by
  intro e; subst e; simp at h

/-- joining, in any order, the keyed consecutive pieces of a decomposition of `[0, n)` -/
theorem joinSorted_pieces {β : Type} (cat : β → β → Option β) (pre : Nat → β) (sl : Nat → Nat → β) (n : Nat)
    (h0 : ∀ l, sl 0 l = pre l)
    (hcat : ∀ o l, 0 < o → 0 < l → o + l ≤ n → cat (pre o) (sl o l) = some (pre (o + l)))
    (b : Nat) (lens : List Nat) (hne : lens ≠ []) (hpos : ∀ l ∈ lens, 0 < l) (hsum : lens.sum = n)
    (g' : Dict Nat β) (hp : g'.Perm ((cuts 0 lens).map fun c => (b + c.1, sl c.1 c.2))) :
    joinSorted cat g' = some (pre n) := by
  have hs : (((cuts 0 lens).map fun c => (b + c.1, sl c.1 c.2)).map Prod.fst).Pairwise (· < ·) := by
    rw [List.map_map]
    have := cuts_strict 0 lens hpos
    rw [List.pairwise_map] at this ⊢
    exact this.imp (fun h => by simp only [Function.comp]; omega)
  rw [joinSorted_perm cat hp hs, List.map_map]
  exact foldCat_pieces cat pre sl n h0 hcat lens hne hpos hsum

abbrev ZC := Nat × Nat × YSplit
abbrev YC := Nat × Nat × XSplit

def slab {α : Type} (A : Arr3 α) (zc : ZC) : Arr3 α := slice0 zc.1 zc.2.1 A
def strip {α : Type} (A : Arr3 α) (zc : ZC) (yc : YC) : Arr3 α := slice1 yc.1 yc.2.1 (slab A zc)

def stripIdx (D : ZSplit) : List (ZC × YC) :=
  (cutsP 0 D).flatMap fun zc => (cutsP 0 zc.2.2).map fun yc => (zc, yc)

theorem chunks_eq_flat {α : Type} (b : Nat × Nat × Nat) (A : Arr3 α) (D : ZSplit) :
    chunks b A D = flat ((stripIdx D).map fun i =>
      ((b.2.1 + i.2.1, b.2.2 + i.1.1),
       (cuts 0 i.2.2.2).map fun xc => (b.1 + xc.1, slice2 xc.1 xc.2 (strip A i.1 i.2)))) := by
  simp [chunks, flat, stripIdx, strip, slab, List.flatMap_map, List.map_flatMap, List.flatMap_assoc,
    Function.comp_def]

theorem strips_eq_flat {α : Type} (b : Nat × Nat × Nat) (A : Arr3 α) (D : ZSplit) :
    ((stripIdx D).map fun i => ((b.2.1 + i.2.1, b.2.2 + i.1.1), strip A i.1 i.2))
      = flat ((cutsP 0 D).map fun zc =>
          (b.2.2 + zc.1, (cutsP 0 zc.2.2).map fun yc => (b.2.1 + yc.1, strip A zc yc))) := by
  simp [flat, stripIdx, List.flatMap_map, List.map_flatMap, Function.comp_def]

theorem slice0_zero {γ : Type} (l : Nat) (r : List γ) : slice 0 l r = r.take l := by simp [slice]

theorem valid_zc {D : ZSplit} {nz ny nx : Nat} (hD : D.Valid nz ny nx) :
    ∀ zc ∈ cutsP 0 D, 0 < zc.2.1 ∧ YSplit.Valid zc.2.2 ny nx ∧ zc.1 + zc.2.1 ≤ nz := by
  intro zc h
  have := cutsP_mem 0 D zc h
  have h2 := hD.1 _ this.1
  have h3 := hD.2
  exact ⟨h2.1, h2.2, by omega⟩

theorem valid_yc {D : ZSplit} {nz ny nx : Nat} (hD : D.Valid nz ny nx) :
    ∀ zc ∈ cutsP 0 D, ∀ yc ∈ cutsP 0 zc.2.2,
      0 < yc.2.1 ∧ XSplit.Valid yc.2.2 nx ∧ yc.1 + yc.2.1 ≤ ny := by
  intro zc h yc h'
  obtain ⟨_, ⟨hp, hs⟩, _⟩ := valid_zc hD zc h
  have := cutsP_mem 0 zc.2.2 yc h'
  have h2 := hp _ this.1
  exact ⟨h2.1, h2.2, by omega⟩

theorem shifted_nodup {τ : Type} (ys : List (Nat × τ)) (c : Nat) (hpos : ∀ y ∈ ys, 0 < y.1) :
    ((cutsP 0 ys).map fun yc => c + yc.1).Nodup := by
  have := cutsP_strict 0 ys hpos
  have h2 : ((cutsP 0 ys).map fun yc => c + yc.1) = ((cutsP 0 ys).map fun yc => yc.1).map (c + ·) := by
    simp
  rw [h2]
  exact List.Nodup.map (fun a b h => by simpa using h) (this.imp (fun h => Nat.ne_of_lt h))

theorem strip_keys_nodup {D : ZSplit} {nz ny nx : Nat} (hD : D.Valid nz ny nx) (b : Nat × Nat × Nat) :
    ((stripIdx D).map fun i => (b.2.1 + i.2.1, b.2.2 + i.1.1)).Nodup := by
  have h1 : (stripIdx D).map (fun i => (b.2.1 + i.2.1, b.2.2 + i.1.1))
      = (cutsP 0 D).flatMap fun zc => (cutsP 0 zc.2.2).map fun yc => (b.2.1 + yc.1, b.2.2 + zc.1) := by
    simp [stripIdx, List.map_flatMap, Function.comp_def]
  rw [h1, List.nodup_flatMap]
  constructor
  · intro zc h
    have := shifted_nodup zc.2.2 b.2.1 (fun y hy => ((valid_zc hD zc h).2.1.1 y hy).1)
    have h2 : ((cutsP 0 zc.2.2).map fun yc => (b.2.1 + yc.1, b.2.2 + zc.1))
        = ((cutsP 0 zc.2.2).map fun yc => b.2.1 + yc.1).map (fun k => (k, b.2.2 + zc.1)) := by simp
    rw [h2]
    exact List.Nodup.map (fun a c h => by simpa using h) this
  · have := cutsP_strict 0 D (fun y hy => (hD.1 y hy).1)
    rw [List.pairwise_map] at this
    refine this.imp ?_
    intro a c hac x hxa hxc
    obtain ⟨_, _, rfl⟩ := List.mem_map.mp hxa
    obtain ⟨_, _, h⟩ := List.mem_map.mp hxc
    simp only [Prod.mk.injEq] at h
    omega

theorem piece_keys_nodup {α : Type} {D : ZSplit} {nz ny nx : Nat} (hD : D.Valid nz ny nx) (b : Nat × Nat × Nat)
    (A : Arr3 α) : ∀ i ∈ stripIdx D,
      (((cuts 0 i.2.2.2).map fun xc => (b.1 + xc.1, slice2 xc.1 xc.2 (strip A i.1 i.2))).map Prod.fst).Nodup := by
  intro i hi
  obtain ⟨zc, hzcm, hi⟩ := List.mem_flatMap.mp hi
  obtain ⟨yc, hycm, rfl⟩ := List.mem_map.mp hi
  obtain ⟨_, ⟨hp, _⟩, _⟩ := valid_yc hD zc hzcm yc hycm
  have := cuts_strict 0 yc.2.2 hp
  rw [List.map_map]
  have h2 : ((cuts 0 yc.2.2).map (Prod.fst ∘ fun xc => (b.1 + xc.1, slice2 xc.1 xc.2 (strip A zc yc))))
      = ((cuts 0 yc.2.2).map Prod.fst).map (b.1 + ·) := by simp [Function.comp_def]
  rw [h2]
  exact List.Nodup.map (fun a c h => by simpa using h) (this.imp (fun h => Nat.ne_of_lt h))

/-- the origins of the chunks of a hierarchical decomposition are distinct -/
theorem chunks_keys_nodup {α : Type} {D : ZSplit} {nz ny nx : Nat} (hD : D.Valid nz ny nx) (b : Nat × Nat × Nat)
    (A : Arr3 α) : ((chunks b A D).map Prod.fst).Nodup := by
  rw [chunks_eq_flat]
  apply flat_keys_nodup
  · rw [List.map_map]; exact strip_keys_nodup hD b
  · intro kg hkg
    obtain ⟨i, hi, rfl⟩ := List.mem_map.mp hkg
    exact piece_keys_nodup hD b A i hi

theorem join_general {α : Type} (A : Arr3 α) (nz ny nx : Nat) (hA : Rect A nz ny nx)
    (hz : 0 < nz) (hy : 0 < ny) (hx : 0 < nx) (D : ZSplit) (hD : D.Valid nz ny nx)
    (b : Nat × Nat × Nat) (l : Dict (Nat × Nat × Nat) (Arr3 α)) (hl : l.Perm (chunks b A D)) :
    joinGeneral l = some A := by
  obtain ⟨hAlen, hArect⟩ := hA
  obtain ⟨hDpos, hDsum⟩ := hD
  -- facts about the z- and y-pieces
  have hzc := valid_zc (nz := nz) (ny := ny) (nx := nx) ⟨hDpos, hDsum⟩
  have hyc := valid_yc (nz := nz) (ny := ny) (nx := nx) ⟨hDpos, hDsum⟩
  have hslab : ∀ zc : ZC, ∀ p ∈ slab A zc, p.length = ny ∧ ∀ r ∈ p, r.length = nx :=
    fun zc p hp => hArect p (mem_of_mem_slice hp)
  have hstrip : ∀ (zc : ZC) (yc : YC), ∀ p ∈ strip A zc yc, ∀ r ∈ p, r.length = nx := by
    intro zc yc p hp r hr
    obtain ⟨q, hq, rfl⟩ := List.mem_map.mp hp
    exact (hslab zc q hq).2 r (mem_of_mem_slice hr)
  have hstrict : ∀ {τ : Type} (ys : List (Nat × τ)) (c : Nat), (∀ y ∈ ys, 0 < y.1) →
      ((cutsP 0 ys).map fun yc => c + yc.1).Nodup := fun ys c h => shifted_nodup ys c h
  unfold joinGeneral
  -- pass 1: along x
  obtain ⟨R1, hR1, hP1⟩ := pass_spec cat2 (stripIdx D)
    (fun i => (b.2.1 + i.2.1, b.2.2 + i.1.1))
    (fun i => (cuts 0 i.2.2.2).map fun xc => (b.1 + xc.1, slice2 xc.1 xc.2 (strip A i.1 i.2)))
    (fun i => strip A i.1 i.2)
    (strip_keys_nodup (nz := nz) (ny := ny) (nx := nx) ⟨hDpos, hDsum⟩ b)
    (by
      intro i hi
      obtain ⟨zc, hzcm, hi⟩ := List.mem_flatMap.mp hi
      obtain ⟨yc, hycm, rfl⟩ := List.mem_map.mp hi
      obtain ⟨_, ⟨_, hs⟩, _⟩ := hyc zc hzcm yc hycm
      simpa using cuts_ne_nil 0 _ (ne_nil_of_sum_pos (by rw [hs]; exact hx)))
    (piece_keys_nodup (nz := nz) (ny := ny) (nx := nx) ⟨hDpos, hDsum⟩ b A)
    (by
      intro i hi g' hg'
      obtain ⟨zc, hzcm, hi⟩ := List.mem_flatMap.mp hi
      obtain ⟨yc, hycm, rfl⟩ := List.mem_map.mp hi
      obtain ⟨_, ⟨hp, hs⟩, _⟩ := hyc zc hzcm yc hycm
      have := joinSorted_pieces cat2 (fun o => (strip A zc yc).map fun p => p.map (List.take o))
        (fun o l => slice2 o l (strip A zc yc)) nx
        (by intro l; simp [slice2, slice0_zero])
        (fun o l _ _ _ => cat2_take_slice (strip A zc yc) o l)
        b.1 yc.2.2 (ne_nil_of_sum_pos (by rw [hs]; exact hx)) hp hs g' hg'
      rw [this]
      congr 1
      calc (strip A zc yc).map (fun p => p.map (List.take nx))
          = (strip A zc yc).map id := by
            apply List.map_congr_left
            intro p hp'
            calc p.map (List.take nx) = p.map id := by
                  apply List.map_congr_left
                  intro r hr
                  exact List.take_of_length_le (by rw [hstrip zc yc p hp' r hr]; exact Nat.le_refl _)
              _ = p := List.map_id p
        _ = strip A zc yc := List.map_id _)
    l (by rw [← chunks_eq_flat]; exact hl)
  simp only [hR1]
  -- pass 2: along y
  obtain ⟨R2, hR2, hP2⟩ := pass_spec cat1 (cutsP 0 D)
    (fun zc => b.2.2 + zc.1)
    (fun zc => (cutsP 0 zc.2.2).map fun yc => (b.2.1 + yc.1, strip A zc yc))
    (fun zc => slab A zc)
    (hstrict D b.2.2 (fun y hy => (hDpos y hy).1))
    (by
      intro zc h
      obtain ⟨_, ⟨_, hs⟩, _⟩ := hzc zc h
      have : zc.2.2 ≠ [] := by
        intro e; rw [e] at hs; simp at hs; omega
      simpa using cutsP_ne_nil 0 _ this)
    (by
      intro zc h
      rw [List.map_map]
      exact hstrict zc.2.2 b.2.1 (fun y hy => ((hzc zc h).2.1.1 y hy).1))
    (by
      intro zc h g' hg'
      obtain ⟨_, ⟨hp, hs⟩, _⟩ := hzc zc h
      have hpos : ∀ l ∈ zc.2.2.map Prod.fst, 0 < l := by
        intro l hl; obtain ⟨y, hy, rfl⟩ := List.mem_map.mp hl; exact (hp y hy).1
      have hg'' : g'.Perm ((cuts 0 (zc.2.2.map Prod.fst)).map fun c => (b.2.1 + c.1, slice1 c.1 c.2 (slab A zc))) := by
        rw [← cutsP_map' (fun o l => (b.2.1 + o, slice1 o l (slab A zc)))]
        exact hg'
      have := joinSorted_pieces cat1 (fun o => (slab A zc).map (List.take o))
        (fun o l => slice1 o l (slab A zc)) ny
        (by intro l; simp [slice1, slice0_zero])
        (fun o l ho hl hol => cat1_take_slice (slab A zc) ny nx (hslab zc) o l ho hl hol)
        b.2.1 (zc.2.2.map Prod.fst) (ne_nil_of_sum_pos (by rw [hs]; exact hy)) hpos hs g' hg''
      rw [this]
      congr 1
      calc (slab A zc).map (List.take ny) = (slab A zc).map id := by
            apply List.map_congr_left
            intro p hp'
            exact List.take_of_length_le (by rw [(hslab zc p hp').1]; exact Nat.le_refl _)
        _ = slab A zc := List.map_id _)
    R1 (by rw [← strips_eq_flat]; exact hP1)
  simp only [hR2]
  -- pass 3: along z
  have hpos : ∀ l ∈ D.map Prod.fst, 0 < l := by
    intro l hl; obtain ⟨y, hy, rfl⟩ := List.mem_map.mp hl; exact (hDpos y hy).1
  have hP2' : R2.Perm ((cuts 0 (D.map Prod.fst)).map fun c => (b.2.2 + c.1, slice0 c.1 c.2 A)) := by
    rw [← cutsP_map' (fun o l => (b.2.2 + o, slice0 o l A))]
    exact hP2
  have := joinSorted_pieces cat0 (fun o => A.take o) (fun o l => slice0 o l A) nz
    (by intro l; simp [slice0, slice0_zero])
    (fun o l ho hl hol => cat0_take_slice A nz ny nx hAlen hArect hy o l ho hl hol)
    b.2.2 (D.map Prod.fst) (ne_nil_of_sum_pos (by rw [hDsum]; exact hz)) hpos hDsum R2 hP2'
  rw [this]
  congr 1
  exact List.take_of_length_le (by rw [hAlen]; exact Nat.le_refl _)


/-! ### G1. `join_chunks` itself (one-chunk shortcut + general path) -/

theorem joinGeneral_single {α : Type} (k : Nat × Nat × Nat) (b : Arr3 α) : joinGeneral [(k, b)] = some b := by
  obtain ⟨ix, iy, iz⟩ := k
  simp [joinGeneral, pass, groupAll, groupStep, joinSorted, sortNat, insertNat, Dict.get?, mapOpt]

theorem join_split_lemma {α : Type} (A : Arr3 α) (nz ny nx : Nat) (hA : Rect A nz ny nx)
    (hz : 0 < nz) (hy : 0 < ny) (hx : 0 < nx) (D : ZSplit) (hD : D.Valid nz ny nx)
    (b : Nat × Nat × Nat) (l : Dict (Nat × Nat × Nat) (Arr3 α)) (hl : l.Perm (chunks b A D)) :
    joinChunks l = some A := by
  have h := join_general A nz ny nx hA hz hy hx D hD b l hl
  match l, h with
  | [], h => exact h
  | [(k, blk)], h =>
    rw [joinGeneral_single] at h
    simpa [joinChunks] using h
  | _ :: _ :: _, h => exact h

/-! ### G2. ghost trimming -/

theorem pyTrim_pad {γ : Type} (g : Nat) (hg : 1 ≤ g) (pre mid post : List γ) (h1 : pre.length = g)
    (h2 : post.length = g) : pyTrim g (pre ++ mid ++ post) = mid := by
  unfold pyTrim
  have hne : g ≠ 0 := by omega
  simp only [hne, if_false, List.length_append, h1, h2]
  have : g + mid.length + g - g = (pre ++ mid).length := by simp [h1]
  rw [this, List.take_left', ← h1, List.drop_left']
  all_goals rfl

theorem pyTrim_zero {γ : Type} (l : List γ) : pyTrim 0 l = [] := by simp [pyTrim]

theorem map_of_rel {β γ : Type} (R : β → γ → Prop) (f : β → γ) (hf : ∀ b c, R b c → f b = c) :
    ∀ (bs : List β) (cs : List γ), Rel₂ R bs cs → bs.map f = cs
  | [], [], _ => rfl
  | b :: bs, c :: cs, h => by
    simp only [List.map_cons, hf b c h.1, map_of_rel R f hf bs cs h.2]
  | [], _ :: _, h => h.elim
  | _ :: _, [], h => h.elim

theorem trim_ghost_lemma {α : Type} (gx gy gz : Nat) (hx : 1 ≤ gx) (hy : 1 ≤ gy) (hz : 1 ≤ gz)
    (B I : Arr3 α) (h : PadZ gx gy gz B I) : trimGhost gx gy gz B = I := by
  obtain ⟨pre, post, mid, rfl, h1, h2, hrel⟩ := h
  unfold trimGhost
  rw [pyTrim_pad gz hz pre mid post h1 h2]
  apply map_of_rel (PadY gx gy) _ _ mid I hrel
  intro P Ip hP
  obtain ⟨pre', post', mid', rfl, h1', h2', hrel'⟩ := hP
  rw [pyTrim_pad gy hy pre' mid' post' h1' h2']
  apply map_of_rel (PadX gx) _ _ mid' Ip hrel'
  intro r ir hr
  obtain ⟨p, q, rfl, hp, hq⟩ := hr
  exact pyTrim_pad gx hx p ir q hp hq

theorem trim_ghost_zero_lemma {α : Type} (gx gy gz : Nat) (h : gx = 0 ∨ gy = 0 ∨ gz = 0) (B : Arr3 α) :
    (trimGhost gx gy gz B).flatten.flatten = [] := by
  unfold trimGhost
  rcases h with rfl | rfl | rfl
  · simp [pyTrim_zero]
  · simp [pyTrim_zero]
  · simp [pyTrim_zero]


/-! ### G3. `fixij` -/

theorem filterMap_all_some {β γ : Type} (f : β → Option γ) (l : List β) (h : ∀ a ∈ l, (f a).isSome) :
    (l.filterMap f).length = l.length ∧ ∀ z : Nat, (l.filterMap f)[z]? = l[z]?.bind f := by
  induction l with
  | nil => simp
  | cons a rest ih =>
    have ha := h a (List.mem_cons_self ..)
    obtain ⟨v, hv⟩ := Option.isSome_iff_exists.mp ha
    have ih' := ih (fun x hx => h x (List.mem_cons_of_mem _ hx))
    simp only [List.filterMap_cons, hv, List.length_cons, ih'.1, true_and]
    intro z
    cases z with
    | zero => simp [hv]
    | succ z => simpa using ih'.2 z

theorem rect_dims {α : Type} {A : Arr3 α} {nz ny nx : Nat} (hA : Rect A nz ny nx) (hz : 0 < nz) (hy : 0 < ny) :
    dim1 A = ny ∧ dim2 A = nx := by
  obtain ⟨hl, hr⟩ := hA
  have hne : A ≠ [] := by intro e; subst e; simp at hl; omega
  refine ⟨dim1_eq A ny hne (fun p hp => (hr p hp).1), dim2_eq A nx hne (fun p hp => ⟨?_, (hr p hp).2⟩)⟩
  intro e
  have := (hr p hp).1
  rw [e] at this; simp at this; omega

theorem plane_some {α : Type} {A : Arr3 α} {nz ny nx : Nat} (hA : Rect A nz ny nx) {x y : Nat}
    (hx : x < nx) (hy : y < ny) : ∀ plane ∈ A, ((plane[y]?).bind (fun row => row[x]?)).isSome := by
  intro plane hp
  obtain ⟨h1, h2⟩ := hA.2 plane hp
  have hy' : y < plane.length := by omega
  rw [List.getElem?_eq_getElem hy']
  have := h2 plane[y] (List.getElem_mem hy')
  simp only [Option.bind_some]
  rw [List.getElem?_eq_getElem (by omega)]
  rfl

theorem fixij_get {α : Type} {A : Arr3 α} {nz ny nx : Nat} (hA : Rect A nz ny nx) (hz : 0 < nz) (hy0 : 0 < ny)
    {x y : Nat} (hx : x < nx) (hy : y < ny) :
    ((fixij A)[x]?.bind (·[y]?)) = some (A.filterMap fun plane => (plane[y]?).bind (fun row => row[x]?)) := by
  obtain ⟨d1, d2⟩ := rect_dims hA hz hy0
  unfold fixij
  rw [d1, d2]
  simp [List.getElem?_map, List.getElem?_range, hx, hy]

theorem fixij_axes_lemma {α : Type} (A : Arr3 α) (nz ny nx : Nat) (hA : Rect A nz ny nx) (hz0 : 0 < nz)
    (hy0 : 0 < ny) (x y z : Nat) (hx : x < nx) (hy : y < ny) (hz : z < nz) :
    get3 (fixij A) x y z = get3 A z y x ∧ (get3 A z y x).isSome := by
  unfold get3
  rw [fixij_get hA hz0 hy0 hx hy]
  have hs := plane_some hA hx hy
  have := (filterMap_all_some _ A hs).2 z
  simp only [Option.bind_some, this]
  have hz' : z < A.length := by rw [hA.1]; exact hz
  constructor
  · cases h : A[z]? with
    | none => rfl
    | some p => simp [Option.bind_assoc]
  · rw [List.getElem?_eq_getElem hz']
    have := hs A[z] (List.getElem_mem hz')
    simpa [Option.bind_assoc] using this

theorem fixij_shape_lemma {α : Type} (A : Arr3 α) (nz ny nx : Nat) (hA : Rect A nz ny nx) (hz0 : 0 < nz)
    (hy0 : 0 < ny) : Rect (fixij A) nx ny nz := by
  obtain ⟨d1, d2⟩ := rect_dims hA hz0 hy0
  unfold fixij
  rw [d1, d2]
  refine ⟨by simp, ?_⟩
  intro p hp
  obtain ⟨x, hx, rfl⟩ := List.mem_map.mp hp
  refine ⟨by simp, ?_⟩
  intro r hr
  obtain ⟨y, hy, rfl⟩ := List.mem_map.mp hr
  rw [(filterMap_all_some _ A (plane_some hA (List.mem_range.mp hx) (List.mem_range.mp hy))).1]
  exact hA.1

theorem ext1 {γ : Type} (a b : List γ) (n : Nat) (ha : a.length = n) (hb : b.length = n)
    (h : ∀ i < n, a[i]? = b[i]?) : a = b := by
  apply List.ext_getElem?
  intro i
  by_cases hi : i < n
  · exact h i hi
  · rw [List.getElem?_eq_none (by omega), List.getElem?_eq_none (by omega)]

theorem ext3 {α : Type} (A B : Arr3 α) (a b c : Nat) (hA : Rect A a b c) (hB : Rect B a b c)
    (h : ∀ i j k, i < a → j < b → k < c → get3 A i j k = get3 B i j k) : A = B := by
  apply ext1 A B a hA.1 hB.1
  intro i hi
  have hiA : i < A.length := by rw [hA.1]; exact hi
  have hiB : i < B.length := by rw [hB.1]; exact hi
  rw [List.getElem?_eq_getElem hiA, List.getElem?_eq_getElem hiB]
  congr 1
  have pA := hA.2 A[i] (List.getElem_mem hiA)
  have pB := hB.2 B[i] (List.getElem_mem hiB)
  apply ext1 _ _ b pA.1 pB.1
  intro j hj
  have hjA : j < A[i].length := by rw [pA.1]; exact hj
  have hjB : j < B[i].length := by rw [pB.1]; exact hj
  rw [List.getElem?_eq_getElem hjA, List.getElem?_eq_getElem hjB]
  congr 1
  apply ext1 _ _ c (pA.2 _ (List.getElem_mem hjA)) (pB.2 _ (List.getElem_mem hjB))
  intro k hk
  have := h i j k hi hj hk
  simpa [get3, List.getElem?_eq_getElem hiA, List.getElem?_eq_getElem hiB, List.getElem?_eq_getElem hjA,
    List.getElem?_eq_getElem hjB] using this

theorem fixij_involutive_lemma {α : Type} (A : Arr3 α) (nz ny nx : Nat) (hA : Rect A nz ny nx) (hz : 0 < nz)
    (hy : 0 < ny) (hx : 0 < nx) : fixij (fixij A) = A := by
  have h1 := fixij_shape_lemma A nz ny nx hA hz hy
  have h2 := fixij_shape_lemma (fixij A) nx ny nz h1 hx hy
  apply ext3 _ _ nz ny nx h2 hA
  intro i j k hi hj hk
  rw [(fixij_axes_lemma (fixij A) nx ny nz h1 hx hy i j k hi hj hk).1,
    (fixij_axes_lemma A nz ny nx hA hz hy k j i hk hj hi).1]

/-! ### G4. mismatching cross-sections -/

theorem cat0_none {α : Type} (a b : Arr3 α) : cat0 a b = none ↔ ¬ (dim1 a = dim1 b ∧ dim2 a = dim2 b) := by
  unfold cat0; split <;> simp_all
theorem cat1_none {α : Type} (a b : Arr3 α) : cat1 a b = none ↔ ¬ (a.length = b.length ∧ dim2 a = dim2 b) := by
  unfold cat1; split <;> simp_all
theorem cat2_none {α : Type} (a b : Arr3 α) : cat2 a b = none ↔ ¬ (a.length = b.length ∧ dim1 a = dim1 b) := by
  unfold cat2; split <;> simp_all

theorem join_mismatch_x_lemma {α : Type} (o1 o2 iy iz : Nat) (b1 b2 : Arr3 α) (ho : o1 ≠ o2)
    (hm : ¬ (b1.length = b2.length ∧ dim1 b1 = dim1 b2)) :
    joinChunks [((o1, iy, iz), b1), ((o2, iy, iz), b2)] = none := by
  have h12 : cat2 b1 b2 = none := (cat2_none b1 b2).mpr hm
  have h21 : cat2 b2 b1 = none := (cat2_none b2 b1).mpr (fun h => hm ⟨h.1.symm, h.2.symm⟩)
  have ho' : ¬ o2 = o1 := fun e => ho e.symm
  by_cases hle : o1 ≤ o2 <;>
  simp [joinChunks, joinGeneral, pass, groupAll, groupStep, joinSorted, sortNat, insertNat, Dict.get?, Dict.set,
    mapOpt, ho, ho', hle, h12, h21]

theorem join_mismatch_y_lemma {α : Type} (o1 o2 y1 y2 iz : Nat) (b1 b2 : Arr3 α) (hy : y1 ≠ y2)
    (hm : ¬ (b1.length = b2.length ∧ dim2 b1 = dim2 b2)) :
    joinChunks [((o1, y1, iz), b1), ((o2, y2, iz), b2)] = none := by
  have h12 : cat1 b1 b2 = none := (cat1_none b1 b2).mpr hm
  have h21 : cat1 b2 b1 = none := (cat1_none b2 b1).mpr (fun h => hm ⟨h.1.symm, h.2.symm⟩)
  have hy' : ¬ y2 = y1 := fun e => hy e.symm
  by_cases hle : y1 ≤ y2 <;>
  simp [joinChunks, joinGeneral, pass, groupAll, groupStep, joinSorted, sortNat, insertNat, Dict.get?, Dict.set,
    mapOpt, hy, hy', hle, h12, h21]

theorem join_mismatch_z_lemma {α : Type} (o1 o2 y1 y2 z1 z2 : Nat) (b1 b2 : Arr3 α) (hz : z1 ≠ z2)
    (hm : ¬ (dim1 b1 = dim1 b2 ∧ dim2 b1 = dim2 b2)) :
    joinChunks [((o1, y1, z1), b1), ((o2, y2, z2), b2)] = none := by
  have h12 : cat0 b1 b2 = none := (cat0_none b1 b2).mpr hm
  have h21 : cat0 b2 b1 = none := (cat0_none b2 b1).mpr (fun h => hm ⟨h.1.symm, h.2.symm⟩)
  have hz' : ¬ z2 = z1 := fun e => hz e.symm
  by_cases hle : z1 ≤ z2 <;>
  simp [joinChunks, joinGeneral, pass, groupAll, groupStep, joinSorted, sortNat, insertNat, Dict.get?, Dict.set,
    mapOpt, hz, hz', hle, h12, h21]


/-! ### G5. whole chunk pipeline: trim, dict, join, fixij -/

theorem foldl_set {κ β : Type} [DecidableEq κ] (l d : Dict κ β) (h : ((d ++ l).map Prod.fst).Nodup) :
    l.foldl (fun d kv => Dict.set d kv.1 kv.2) d = d ++ l := by
  induction l generalizing d with
  | nil => simp
  | cons kv rest ih =>
    obtain ⟨k, v⟩ := kv
    have hk : k ∉ d.map Prod.fst := by
      rw [List.map_append, List.map_cons] at h
      intro hm
      exact (List.nodup_append.mp h).2.2 k hm k (List.mem_cons_self ..) rfl
    simp only [List.foldl_cons, set_of_not_mem d k v hk]
    rw [ih (d ++ [(k, v)]) (by simpa [List.append_assoc] using h)]
    simp [List.append_assoc]

theorem toDict_of_nodup {κ β : Type} [DecidableEq κ] (l : Dict κ β) (h : (l.map Prod.fst).Nodup) :
    toDict l = l := by
  have := foldl_set l [] (by simpa using h)
  simpa [toDict] using this

theorem read_chunks_lemma {α : Type} (A : Arr3 α) (nz ny nx : Nat) (hA : Rect A nz ny nx)
    (hz : 0 < nz) (hy : 0 < ny) (hx : 0 < nx) (D : ZSplit) (hD : D.Valid nz ny nx)
    (b : Nat × Nat × Nat) (l : Dict (Nat × Nat × Nat) (Arr3 α)) (hl : l.Perm (chunks b A D))
    (gx gy gz : Nat) (hgx : 1 ≤ gx) (hgy : 1 ≤ gy) (hgz : 1 ≤ gz)
    (lg : Dict (Nat × Nat × Nat) (Arr3 α))
    (hpad : Rel₂ (fun kb ki => kb.1 = ki.1 ∧ PadZ gx gy gz kb.2 ki.2) lg l) :
    (joinChunks (toDict (lg.map fun kb => (kb.1, trimGhost gx gy gz kb.2)))).map fixij = some (fixij A) := by
  have h1 : (lg.map fun kb => (kb.1, trimGhost gx gy gz kb.2)) = l := by
    apply map_of_rel _ _ _ lg l hpad
    intro kb ki h
    obtain ⟨k, blk⟩ := kb
    obtain ⟨k', i⟩ := ki
    simp only at h
    rw [trim_ghost_lemma gx gy gz hgx hgy hgz blk i h.2, h.1]
  have h2 : (l.map Prod.fst).Nodup := ((hl.map Prod.fst).nodup_iff).mpr (chunks_keys_nodup hD b A)
  rw [h1, toDict_of_nodup l h2, join_split_lemma A nz ny nx hA hz hy hx D hD b l hl]
  rfl

/-! ### G6. restart choice -/

def inRange (it : Nat) (a : Avail) : Bool := decide (a.2.1 ≤ it ∧ it ≤ a.2.2)

theorem pickRestart_eq (avail : List Avail) (it : Nat) :
    pickRestart avail it = (avail.reverse.find? (inRange it)).map (·.1) := rfl

/-- the chosen restart contains the iteration and no later entry does -/
theorem restart_latest_lemma (avail : List Avail) (it r : Nat) (h : pickRestart avail it = some r) :
    ∃ pre a post, avail = pre ++ a :: post ∧ a.1 = r ∧ a.2.1 ≤ it ∧ it ≤ a.2.2
      ∧ ∀ c ∈ post, ¬ (c.2.1 ≤ it ∧ it ≤ c.2.2) := by
  rw [pickRestart_eq] at h
  obtain ⟨a, ha, rfl⟩ := Option.map_eq_some_iff.mp h
  obtain ⟨hp, as, bs, hsplit, hbefore⟩ := List.find?_eq_some_iff_append.mp ha
  refine ⟨bs.reverse, a, as.reverse, ?_, rfl, ?_, ?_, ?_⟩
  · have := congrArg List.reverse hsplit
    simpa using this
  · have := hp; simp [inRange] at this; exact this.1
  · have := hp; simp [inRange] at this; exact this.2
  · intro c hc hcr
    have := hbefore c (List.mem_reverse.mp hc)
    simp [inRange] at this
    omega

theorem restart_none_lemma (avail : List Avail) (it : Nat) :
    pickRestart avail it = none ↔ ∀ a ∈ avail, ¬ (a.2.1 ≤ it ∧ it ≤ a.2.2) := by
  rw [pickRestart_eq]
  simp [inRange]

theorem filterMap_key_unique (avail : List Avail) (hnd : (avail.map Prod.fst).Nodup) (it : Nat) (a : Avail)
    (ha : a ∈ avail) :
    avail.filterMap (fun rt => if some a.1 = some rt.1 then some (it, rt.1) else none) = [(it, a.1)] := by
  induction avail with
  | nil => cases ha
  | cons c rest ih =>
    simp only [List.map_cons, List.nodup_cons] at hnd
    rcases List.mem_cons.mp ha with rfl | ha
    · simp only [List.filterMap_cons, if_true]
      congr 1
      rw [List.filterMap_eq_nil_iff]
      intro x hx
      have : a.1 ≠ x.1 := fun e => hnd.1 (e ▸ List.mem_map.mpr ⟨x, hx, rfl⟩)
      simp [this]
    · have hne : a.1 ≠ c.1 := fun e => hnd.1 (e ▸ List.mem_map.mpr ⟨a, ha, rfl⟩)
      simp only [List.filterMap_cons, Option.some.injEq, hne, if_false]
      simpa using ih hnd.2 ha

theorem mem_sortNat (l : List Nat) (x : Nat) : x ∈ sortNat l ↔ x ∈ l := (sortNat_perm l).mem_iff

/-- rows come back in the order of the sorted requested iterations, each from
its chosen restart; iterations found in no restart are dropped -/
theorem read_order_lemma (avail : List Avail) (hnd : (avail.map Prod.fst).Nodup) (its : List Nat) :
    readOrder avail its
      = (sortedSet its).filterMap fun it => (pickRestart avail it).map fun r => (it, r) := by
  unfold readOrder flatten itToDo
  generalize sortedSet its = s
  rw [List.filterMap_eq_flatMap_toList]
  apply List.flatMap_congr
  intro it hit
  rw [List.filterMap_map]
  have hmem : ∀ rt : Avail, (it ∈ sortNat (List.filter (fun iit => pickRestart avail iit == some rt.1) s.reverse))
      ↔ pickRestart avail it = some rt.1 := by
    intro rt
    rw [mem_sortNat, List.mem_filter]
    simp [hit]
  cases hp : pickRestart avail it with
  | none =>
    simp only [Option.map_none, Option.toList_none, List.filterMap_eq_nil_iff]
    intro rt _
    have hn : ¬ (it ∈ sortNat (List.filter (fun iit => pickRestart avail iit == some rt.1) s.reverse)) := by
      rw [hmem rt, hp]; simp
    show (if it ∈ sortNat (List.filter (fun iit => pickRestart avail iit == some rt.1) s.reverse)
      then some (it, rt.1) else none) = none
    rw [if_neg hn]
  | some r =>
    obtain ⟨pre, a, post, hsplit, har, _⟩ := restart_latest_lemma avail it r hp
    have ha : a ∈ avail := by rw [hsplit]; simp
    subst har
    have := filterMap_key_unique avail hnd it a ha
    simp only [Option.map_some, Option.toList_some]
    rw [← this]
    apply List.filterMap_congr
    intro rt _
    show (if it ∈ sortNat (List.filter (fun iit => pickRestart avail iit == some rt.1) s.reverse)
      then some (it, rt.1) else none) = if some a.1 = some rt.1 then some (it, rt.1) else none
    simp only [hmem rt, hp]


end AurelVerif.ChunksLemmas
