/-
Lemmas/SymFill.lean — lifting of the finite fill check to every oracle.

1. `fill_natural`: the interpreter of `Model/SymFill.lean` only stores zero,
   negates and copies values, so it commutes with every map `h : V → W` that
   respects zero and negation (induction over the program, for every `n`).
   With `h = SVal.eval ops T` this says: the array a method branch returns for
   the oracle `T` is the image of the *symbolic* array `symFill n p` whose
   entries are `0` or `± T ix`.
2. `okAt_sound`: if the signed orbit of `+T ix` under the declared index
   symmetries contains the stored symbolic value (or `-T ix`, when zero is
   stored), then for every oracle invariant under the generators the stored
   value equals `T ix`.
3. `fill_identity_of_check`: `checkProg n p gens = true` (a closed Boolean,
   evaluated by the kernel) ⇒ `fillAt n ops T p ix = T ix` for every lawful
   `ops`, every invariant `T` and every index tuple in range.
4. The `Fin n`-indexed front end used by `Props/C15.lean`.
-/
import Mathlib.Algebra.Field.Basic
import Mathlib.Algebra.CharZero.Defs
import Mathlib.Algebra.Ring.CharZero
import Mathlib.Tactic.Ring
import Mathlib.Data.List.GetD
import AurelVerif.Model.SymFill

namespace AurelVerif.SymFillLemmas
open AurelVerif.SymFill

/-! ### 1. naturality -/

def St.map {V W : Type} (h : V → W) (s : St V) : St W :=
  { env := s.env, arr := s.arr.map h, done := s.done, val := h s.val }

theorem exec_map {V W : Type} (n : Nat) (ops : Ops V) (ops' : Ops W) (h : V → W)
    (hz : h ops.zero = ops'.zero) (hn : ∀ x, h (ops.neg x) = ops'.neg (h x))
    (T : List Nat → V) (p : Stmt) :
    ∀ s : St V, exec n ops' (fun ix => h (T ix)) p (St.map h s) = St.map h (exec n ops T p s) := by
  induction p with
  | skip => intro s; rfl
  | seq a b iha ihb => intro s; simp only [exec]; rw [iha, ihb]
  | loop v body ih =>
    intro s
    simp only [exec]
    generalize List.range n = l
    induction l generalizing s with
    | nil => rfl
    | cons x l ihl =>
      simp only [List.foldl_cons]
      have : ({ St.map h s with env := (St.map h s).env.set v x } : St W)
          = St.map h { s with env := s.env.set v x } := rfl
      rw [this, ih, ihl]
  | ifEq a b thn els iht ihe =>
    intro s
    simp only [exec]
    have : (St.map h s).env = s.env := rfl
    rw [this]
    split
    · exact iht s
    · exact ihe s
  | ifNotDone ix body ih =>
    intro s
    simp only [exec]
    have h1 : (St.map h s).env = s.env := rfl
    have h2 : (St.map h s).done = s.done := rfl
    rw [h1, h2]
    split
    · rfl
    · exact ih s
  | mark ix => intro s; rfl
  | compute ix => intro s; rfl
  | load ix =>
    intro s
    simp only [exec, St.map]
    congr 1
    rw [← hz, List.getD_map]
  | store ix neg =>
    intro s
    simp only [exec, St.map]
    congr 1
    rw [List.map_set]
    cases neg <;> simp [hn]
  | copy dst src =>
    intro s
    simp only [exec, St.map]
    congr 1
    rw [List.map_set, ← hz, List.getD_map]

theorem fill_natural {V W : Type} (n : Nat) (ops : Ops V) (ops' : Ops W) (h : V → W)
    (hz : h ops.zero = ops'.zero) (hn : ∀ x, h (ops.neg x) = ops'.neg (h x))
    (T : List Nat → V) (p : Prog) :
    fill n ops' (fun ix => h (T ix)) p = (fill n ops T p).map h := by
  unfold fill
  have : initSt n ops' p = St.map h (initSt n ops p) := by
    simp [initSt, St.map, hz]
  rw [this, exec_map n ops ops' h hz hn]
  rfl

/-- what a value type must satisfy: negation fixes zero, is an involution, and
only zero is its own negative (no 2-torsion) -/
structure OpsLaws {V : Type} (ops : Ops V) : Prop where
  neg_zero : ops.neg ops.zero = ops.zero
  neg_neg : ∀ x, ops.neg (ops.neg x) = x
  eq_zero_of_neg_eq : ∀ x, ops.neg x = x → x = ops.zero

theorem eval_negate {V : Type} (ops : Ops V) (laws : OpsLaws ops) (T : List Nat → V) (v : SVal) :
    SVal.eval ops T v.negate = ops.neg (SVal.eval ops T v) := by
  cases v with
  | zero => simp [SVal.negate, SVal.eval, laws.neg_zero]
  | val s ix => cases s <;> simp [SVal.negate, SVal.eval, laws.neg_neg]

/-- the returned array is the image of the symbolic array -/
theorem fill_eq_symFill {V : Type} (n : Nat) (ops : Ops V) (laws : OpsLaws ops)
    (T : List Nat → V) (p : Prog) :
    fill n ops T p = (symFill n p).map (SVal.eval ops T) := by
  have := fill_natural n symOps ops (SVal.eval ops T) rfl (eval_negate ops laws T) symT p
  simpa [symFill, symT, SVal.eval] using this

theorem fillAt_eq {V : Type} (n : Nat) (ops : Ops V) (laws : OpsLaws ops)
    (T : List Nat → V) (p : Prog) (ix : List Nat) :
    fillAt n ops T p ix = SVal.eval ops T ((symFill n p).getD (flat n ix) SVal.zero) := by
  unfold fillAt
  rw [fill_eq_symFill n ops laws T p]
  have : ops.zero = SVal.eval ops T SVal.zero := rfl
  rw [this, List.getD_map]

/-! ### 2. soundness of the orbit check -/

/-- an index tuple of a `(n,)*r` array -/
def Valid (n r : Nat) (ix : List Nat) : Prop := ix.length = r ∧ ∀ x ∈ ix, x < n

/-- `T` has the symmetries `gens` -/
def Invariant {V : Type} (n r : Nat) (ops : Ops V) (gens : List SymGen) (T : List Nat → V) : Prop :=
  ∀ g ∈ gens, ∀ ix, Valid n r ix → T (g.act ix) = if g.neg then ops.neg (T ix) else T ix

theorem act_valid {n r : Nat} (g : SymGen) (hg : g.wf r = true) (ix : List Nat) (hix : Valid n r ix) :
    Valid n r (g.act ix) := by
  simp only [SymGen.wf, Bool.and_eq_true, beq_iff_eq, List.all_eq_true, decide_eq_true_eq] at hg
  refine ⟨by simp [SymGen.act, hg.1], ?_⟩
  intro x hx
  simp only [SymGen.act, List.mem_map] at hx
  obtain ⟨p, hp, rfl⟩ := hx
  have hp' : p < ix.length := by rw [hix.1]; exact hg.2 p hp
  rw [List.getD_eq_getElem _ _ hp']
  exact hix.2 _ (List.getElem_mem hp')

def SValid (n r : Nat) : SVal → Prop
  | .zero => True
  | .val _ ix => Valid n r ix

theorem applyS_sound {V : Type} {n r : Nat} (ops : Ops V) (laws : OpsLaws ops) (gens : List SymGen)
    (hwf : ∀ g ∈ gens, g.wf r = true) (T : List Nat → V) (hT : Invariant n r ops gens T)
    (g : SymGen) (hg : g ∈ gens) (v : SVal) (hv : SValid n r v) :
    SValid n r (g.applyS v) ∧ SVal.eval ops T (g.applyS v) = SVal.eval ops T v := by
  cases v with
  | zero => exact ⟨trivial, rfl⟩
  | val s ix =>
    refine ⟨act_valid g (hwf g hg) ix hv, ?_⟩
    have := hT g hg ix hv
    cases s <;> cases hgn : g.neg <;> simp [SymGen.applyS, SVal.eval, this, hgn, laws.neg_neg]

theorem closure_sound {V : Type} {n r : Nat} (ops : Ops V) (laws : OpsLaws ops) (gens : List SymGen)
    (hwf : ∀ g ∈ gens, g.wf r = true) (T : List Nat → V) (hT : Invariant n r ops gens T) (c : V) :
    ∀ (k : Nat) (l : List SVal), (∀ v ∈ l, SValid n r v ∧ SVal.eval ops T v = c) →
      ∀ w ∈ closure gens k l, SValid n r w ∧ SVal.eval ops T w = c := by
  intro k
  induction k with
  | zero => intro l hl w hw; exact hl w hw
  | succ k ih =>
    intro l hl w hw
    refine ih (closeStep gens l) ?_ w hw
    intro v hv
    simp only [closeStep, List.mem_append, List.mem_flatMap, List.mem_map] at hv
    rcases hv with hv | ⟨u, hu, g, hg, rfl⟩
    · exact hl v hv
    · have := applyS_sound ops laws gens hwf T hT g hg u (hl u hu).1
      exact ⟨this.1, this.2.trans (hl u hu).2⟩

theorem okAt_sound {V : Type} {n r : Nat} (ops : Ops V) (laws : OpsLaws ops) (gens : List SymGen)
    (hwf : ∀ g ∈ gens, g.wf r = true) (T : List Nat → V) (hT : Invariant n r ops gens T)
    (v : SVal) (ix : List Nat) (hix : Valid n r ix) (hok : okAt gens v ix = true) :
    SVal.eval ops T v = T ix := by
  have hcl := closure_sound ops laws gens hwf T hT (T ix) closureFuel [SVal.val false ix]
    (by intro u hu; simp only [List.mem_singleton] at hu; subst hu; exact ⟨hix, rfl⟩)
  cases v with
  | zero =>
    simp only [okAt, List.contains_iff_mem] at hok
    have := (hcl _ hok).2
    simp only [SVal.eval] at this
    exact (laws.eq_zero_of_neg_eq _ this).symm
  | val s jx =>
    simp only [okAt, List.contains_iff_mem] at hok
    exact (hcl _ hok).2

/-! ### 3. the finite check implies the identity -/

theorem mem_allIx {n : Nat} : ∀ (r : Nat) (ix : List Nat), Valid n r ix → ix ∈ allIx n r := by
  intro r
  induction r with
  | zero =>
    intro ix h
    have : ix = [] := List.eq_nil_of_length_eq_zero h.1
    simp [this, allIx]
  | succ r ih =>
    intro ix h
    cases ix with
    | nil => simp [Valid] at h
    | cons x t =>
      simp only [allIx, List.mem_flatMap, List.mem_range, List.mem_map]
      refine ⟨x, h.2 x (by simp), t, ih t ⟨by simpa using h.1, fun y hy => h.2 y (by simp [hy])⟩, rfl⟩

/-- **lifting lemma**: the kernel-evaluated Boolean `checkProg n p gens` gives
`fill T = T` at every index tuple, for every oracle with the symmetries `gens`
over every lawful value type. -/
theorem fill_identity_of_check {V : Type} (n : Nat) (p : Prog) (gens : List SymGen)
    (hc : checkProg n p gens = true) (ops : Ops V) (laws : OpsLaws ops)
    (T : List Nat → V) (hT : Invariant n p.rank ops gens T)
    (ix : List Nat) (hix : Valid n p.rank ix) :
    fillAt n ops T p ix = T ix := by
  simp only [checkProg, Bool.and_eq_true, List.all_eq_true] at hc
  rw [fillAt_eq n ops laws T p ix]
  exact okAt_sound ops laws gens hc.1 T hT _ ix hix (hc.2 ix (mem_allIx p.rank ix hix))

/-! ### 4. `Fin n`-indexed front end -/

/-- values in a ring -/
def ringOps (K : Type) [Ring K] : Ops K := ⟨0, fun x => -x⟩

theorem ringOps_laws (K : Type) [Ring K] [CharZero K] [NoZeroDivisors K] : OpsLaws (ringOps K) where
  neg_zero := by simp [ringOps]
  neg_neg := by simp [ringOps]
  eq_zero_of_neg_eq := by
    intro x hx
    simp only [ringOps] at hx ⊢
    have h2 : (2 : K) * x = 0 := by
      have : x + x = 0 := by nth_rewrite 1 [← hx]; simp
      rw [two_mul]; exact this
    rcases mul_eq_zero.mp h2 with h | h
    · exact absurd h two_ne_zero
    · exact h

def ofFin2 {V : Type} {n : Nat} (zero : V) (f : Fin n → Fin n → V) : List Nat → V
  | [a, b] => if h : a < n ∧ b < n then f ⟨a, h.1⟩ ⟨b, h.2⟩ else zero
  | _ => zero

def ofFin3 {V : Type} {n : Nat} (zero : V) (f : Fin n → Fin n → Fin n → V) : List Nat → V
  | [a, b, c] => if h : a < n ∧ b < n ∧ c < n then f ⟨a, h.1⟩ ⟨b, h.2.1⟩ ⟨c, h.2.2⟩ else zero
  | _ => zero

def ofFin4 {V : Type} {n : Nat} (zero : V) (f : Fin n → Fin n → Fin n → Fin n → V) : List Nat → V
  | [a, b, c, d] =>
    if h : a < n ∧ b < n ∧ c < n ∧ d < n then f ⟨a, h.1⟩ ⟨b, h.2.1⟩ ⟨c, h.2.2.1⟩ ⟨d, h.2.2.2⟩ else zero
  | _ => zero

/-- the stored array of a rank-2 method branch as a function of `Fin n` indices -/
def fillFin2 {V : Type} (n : Nat) (ops : Ops V) (p : Prog) (T : Fin n → Fin n → V) (i j : Fin n) : V :=
  fillAt n ops (ofFin2 ops.zero T) p [i.val, j.val]

def fillFin3 {V : Type} (n : Nat) (ops : Ops V) (p : Prog) (T : Fin n → Fin n → Fin n → V)
    (i j k : Fin n) : V :=
  fillAt n ops (ofFin3 ops.zero T) p [i.val, j.val, k.val]

def fillFin4 {V : Type} (n : Nat) (ops : Ops V) (p : Prog) (T : Fin n → Fin n → Fin n → Fin n → V)
    (i j k l : Fin n) : V :=
  fillAt n ops (ofFin4 ops.zero T) p [i.val, j.val, k.val, l.val]

theorem valid2 {n : Nat} (i j : Fin n) : Valid n 2 [i.val, j.val] :=
  ⟨rfl, by intro x hx; simp at hx; rcases hx with rfl | rfl <;> exact Fin.is_lt _⟩

theorem valid3 {n : Nat} (i j k : Fin n) : Valid n 3 [i.val, j.val, k.val] :=
  ⟨rfl, by intro x hx; simp at hx; rcases hx with rfl | rfl | rfl <;> exact Fin.is_lt _⟩

theorem valid4 {n : Nat} (i j k l : Fin n) : Valid n 4 [i.val, j.val, k.val, l.val] :=
  ⟨rfl, by intro x hx; simp at hx; rcases hx with rfl | rfl | rfl | rfl <;> exact Fin.is_lt _⟩

theorem valid2_cases {n : Nat} {ix : List Nat} (h : Valid n 2 ix) :
    ∃ i j : Fin n, ix = [i.val, j.val] := by
  obtain ⟨hl, hb⟩ := h
  match ix, hl with
  | [a, b], _ => exact ⟨⟨a, hb a (by simp)⟩, ⟨b, hb b (by simp)⟩, rfl⟩

theorem valid3_cases {n : Nat} {ix : List Nat} (h : Valid n 3 ix) :
    ∃ i j k : Fin n, ix = [i.val, j.val, k.val] := by
  obtain ⟨hl, hb⟩ := h
  match ix, hl with
  | [a, b, c], _ => exact ⟨⟨a, hb a (by simp)⟩, ⟨b, hb b (by simp)⟩, ⟨c, hb c (by simp)⟩, rfl⟩

theorem valid4_cases {n : Nat} {ix : List Nat} (h : Valid n 4 ix) :
    ∃ i j k l : Fin n, ix = [i.val, j.val, k.val, l.val] := by
  obtain ⟨hl, hb⟩ := h
  match ix, hl with
  | [a, b, c, d], _ =>
    exact ⟨⟨a, hb a (by simp)⟩, ⟨b, hb b (by simp)⟩, ⟨c, hb c (by simp)⟩, ⟨d, hb d (by simp)⟩, rfl⟩

@[simp] theorem ofFin2_val {V : Type} {n : Nat} (z : V) (f : Fin n → Fin n → V) (i j : Fin n) :
    ofFin2 z f [i.val, j.val] = f i j := by
  simp [ofFin2, i.is_lt, j.is_lt]

@[simp] theorem ofFin3_val {V : Type} {n : Nat} (z : V) (f : Fin n → Fin n → Fin n → V) (i j k : Fin n) :
    ofFin3 z f [i.val, j.val, k.val] = f i j k := by
  simp [ofFin3, i.is_lt, j.is_lt, k.is_lt]

@[simp] theorem ofFin4_val {V : Type} {n : Nat} (z : V) (f : Fin n → Fin n → Fin n → Fin n → V)
    (i j k l : Fin n) : ofFin4 z f [i.val, j.val, k.val, l.val] = f i j k l := by
  simp [ofFin4, i.is_lt, j.is_lt, k.is_lt, l.is_lt]

/-! The symmetry generators of the tensors of the symbolic core. -/

/-- symmetric in the last two of three indices (Christoffel symbols) -/
def gensGamma : List SymGen := [⟨[0, 2, 1], false⟩]
/-- antisymmetric in the last two of four indices (`R^i_{jkh}`) -/
def gensRiemannUp : List SymGen := [⟨[0, 1, 3, 2], true⟩]
/-- both antisymmetries and the pair symmetry (`R_{ijkh}`) -/
def gensRiemannDown : List SymGen := [⟨[1, 0, 2, 3], true⟩, ⟨[0, 1, 3, 2], true⟩, ⟨[2, 3, 0, 1], false⟩]
/-- symmetric rank 2 (Ricci, Einstein) -/
def gensSym2 : List SymGen := [⟨[1, 0], false⟩]

theorem invariant_sym2 {K : Type} [Ring K] {n : Nat} (T : Fin n → Fin n → K)
    (hT : ∀ i j, T j i = T i j) : Invariant n 2 (ringOps K) gensSym2 (ofFin2 0 T) := by
  intro g hg ix hix
  simp only [gensSym2, List.mem_singleton] at hg
  subst hg
  obtain ⟨i, j, rfl⟩ := valid2_cases hix
  have e : SymGen.act ⟨[1, 0], false⟩ [i.val, j.val] = [j.val, i.val] := rfl
  rw [e, ofFin2_val, ofFin2_val]
  exact hT i j

theorem invariant_gamma {K : Type} [Ring K] {n : Nat} (T : Fin n → Fin n → Fin n → K)
    (hT : ∀ i j k, T i k j = T i j k) : Invariant n 3 (ringOps K) gensGamma (ofFin3 0 T) := by
  intro g hg ix hix
  simp only [gensGamma, List.mem_singleton] at hg
  subst hg
  obtain ⟨i, j, k, rfl⟩ := valid3_cases hix
  have e : SymGen.act ⟨[0, 2, 1], false⟩ [i.val, j.val, k.val] = [i.val, k.val, j.val] := rfl
  rw [e, ofFin3_val, ofFin3_val]
  exact hT i j k

theorem invariant_riemannUp {K : Type} [Ring K] {n : Nat} (T : Fin n → Fin n → Fin n → Fin n → K)
    (hT : ∀ i j k h, T i j h k = - T i j k h) :
    Invariant n 4 (ringOps K) gensRiemannUp (ofFin4 0 T) := by
  intro g hg ix hix
  simp only [gensRiemannUp, List.mem_singleton] at hg
  subst hg
  obtain ⟨i, j, k, l, rfl⟩ := valid4_cases hix
  have e : SymGen.act ⟨[0, 1, 3, 2], true⟩ [i.val, j.val, k.val, l.val]
      = [i.val, j.val, l.val, k.val] := rfl
  rw [e, ofFin4_val, ofFin4_val]
  exact hT i j k l

theorem invariant_riemannDown {K : Type} [Ring K] {n : Nat} (T : Fin n → Fin n → Fin n → Fin n → K)
    (h1 : ∀ i j k h, T j i k h = - T i j k h) (h2 : ∀ i j k h, T i j h k = - T i j k h)
    (h3 : ∀ i j k h, T k h i j = T i j k h) :
    Invariant n 4 (ringOps K) gensRiemannDown (ofFin4 0 T) := by
  intro g hg ix hix
  obtain ⟨i, j, k, l, rfl⟩ := valid4_cases hix
  simp only [gensRiemannDown, List.mem_cons, List.not_mem_nil, or_false] at hg
  rcases hg with rfl | rfl | rfl
  · have e : SymGen.act ⟨[1, 0, 2, 3], true⟩ [i.val, j.val, k.val, l.val]
        = [j.val, i.val, k.val, l.val] := rfl
    rw [e, ofFin4_val, ofFin4_val]
    exact h1 i j k l
  · have e : SymGen.act ⟨[0, 1, 3, 2], true⟩ [i.val, j.val, k.val, l.val]
        = [i.val, j.val, l.val, k.val] := rfl
    rw [e, ofFin4_val, ofFin4_val]
    exact h2 i j k l
  · have e : SymGen.act ⟨[2, 3, 0, 1], false⟩ [i.val, j.val, k.val, l.val]
        = [k.val, l.val, i.val, j.val] := rfl
    rw [e, ofFin4_val, ofFin4_val]
    exact h3 i j k l

end AurelVerif.SymFillLemmas
