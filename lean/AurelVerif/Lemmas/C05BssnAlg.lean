/-
Lemmas/C05BssnAlg.lean — property C05, T12 (BSSNOK part): the INDEX ALGEBRA behind
"Alcubierre (2.8.17) is the Ricci tensor of the conformal metric".  No derivative operator here: the
first and second derivatives of the conformal metric are free tables

   `u i j`      = γ̃^{ij}            (symmetric)
   `d k i j`    = ∂_k γ̃_ij          (symmetric in i j)
   `s l k i j`  = ∂_l ∂_k γ̃_ij      (symmetric in l k and in i j)
   `v k`        = Γ̃^k  (= −∂_j γ̃^{kj}, an independent atom here)

`bssnL` is (2.8.17) after the substitutions that the product rule gives for `γ̃_ki ∂_j Γ̃^k`
(`Xtab`) and `Γ̃_ijk = Γ_ijk` (Christoffel symbol of the first kind); `bssnR` is the Ricci tensor
`∂_aΓ^a_ji − Γ^a_jp Γ^p_ai` of a connection whose contraction `Γ^a_ab` vanishes (unit determinant),
with `∂_a γ̃^{al} = −Γ̃^l`.  `bssn_algebra : bssnL = bssnR` is a polynomial identity (by `ring`, per component).
-/
import AurelVerif.Lemmas.CoreTac

set_option linter.unusedSimpArgs false
set_option linter.unusedVariables false
set_option linter.unusedSectionVars false
set_option linter.unusedTactic false
set_option linter.unreachableTactic false

namespace AurelVerif.C05L
open AurelVerif.CoreTac

variable {K : Type} [Field K]

section alg
variable (u : Fin 3 → Fin 3 → K) (d : Fin 3 → Fin 3 → Fin 3 → K) (s : Fin 3 → Fin 3 → Fin 3 → Fin 3 → K)
  (v : Fin 3 → K)

/-- Christoffel symbol of the first kind from the table of first derivatives,
`Γ_{lij} = ½(∂_iγ_lj + ∂_jγ_li − ∂_lγ_ij)`. -/
def c1tab (l i j : Fin 3) : K := (1 / 2) * (d i l j + d j l i - d l i j)

/-- `Γ^k_{ij} = γ^{kl} Γ_{lij}`. -/
def c2tab (k i j : Fin 3) : K := ∑ l, u k l * c1tab d l i j

/-- `∂_c γ^{kl} = −γ^{ki} (∂_c γ_ij) γ^{jl}`. -/
def dutab (c k l : Fin 3) : K := -∑ j, (∑ i, u k i * d c i j) * u j l

/-- `γ_ki ∂_j Γ̃^k` after the product rule on `γ_ki Γ̃^k = γ^{lk} ∂_l γ_ki`:
`−Γ̃^k ∂_jγ_ki + ∂_jγ^{lk} ∂_lγ_ki + γ^{lk} ∂_j∂_lγ_ki`. -/
def Xtab (i j : Fin 3) : K :=
  -(∑ k, v k * d j k i) + ∑ l, ∑ k, (dutab u d j l k * d l k i + u l k * s j l k i)

/-- (2.8.17) with `γ_ki ∂_jΓ̃^k = Xtab i j`, `Γ̃_ijk = c1tab i j k` and `2 Γ̃^k_{l(i}Γ̃_{j)km}` written without the `2 · ½`. -/
def bssnL (i j : Fin 3) : K :=
  -(1 / 2) * (∑ l, ∑ m, u l m * s l m i j)
  + (1 / 2) * (Xtab u d s v i j + Xtab u d s v j i)
  + (1 / 2) * (∑ k, v k * (c1tab d i j k + c1tab d j i k))
  + ∑ l, ∑ m, u l m * (∑ k, (c2tab u d k l i * c1tab d j k m + c2tab u d k l j * c1tab d i k m)
      + ∑ k, c2tab u d k i m * c1tab d k l j)

/-- Ricci tensor `∂_aΓ^a_{ji} − Γ^a_{jp}Γ^p_{ai}` with `∂_aγ^{al} = −Γ̃^l`. -/
def bssnR (i j : Fin 3) : K :=
  -(∑ l, v l * c1tab d l j i)
  + ∑ a, ∑ l, u a l * ((1 / 2) * (s a j l i + s a i l j - s a l j i))
  - ∑ a, ∑ p, c2tab u d a j p * c2tab u d p a i

/-- the part of `bssnL − bssnR` that is linear in the literal `½` (the rest is quadratic in it and equals `−2 ·` this
part: the identity holds because `2 · ½ = 1`). -/
def bssnHalf (i j : Fin 3) : K :=
  -(∑ k, v k * d k i j) - ∑ l, ∑ k, ∑ a, ∑ b, u l a * u k b * (d j a b * d l k i + d i a b * d l k j)

set_option maxRecDepth 100000 in
set_option maxHeartbeats 1000000 in
theorem bssn_algebra_00 (h2 : (2 : K) ≠ 0) (hsu : ∀ i j, u i j = u j i) (hd : ∀ k i j, d k i j = d k j i)
    (hs1 : ∀ l k i j, s l k i j = s k l i j) (hs2 : ∀ l k i j, s l k i j = s l k j i) :
    bssnL u d s v 0 0 = bssnR u d s v 0 0 := by
  have hh : (2 : K) * (1 / 2) = 1 := by field_simp
  have u01 := hsu 1 0; have u02 := hsu 2 0; have u12 := hsu 2 1
  have d1 := fun k => hd k 1 0; have d2 := fun k => hd k 2 0; have d3 := fun k => hd k 2 1
  have s1 := fun i j => hs1 1 0 i j; have s2 := fun i j => hs1 2 0 i j; have s3 := fun i j => hs1 2 1 i j
  have t1 := fun l k => hs2 l k 1 0; have t2 := fun l k => hs2 l k 2 0; have t3 := fun l k => hs2 l k 2 1
  have key : bssnL u d s v 0 0 - bssnR u d s v 0 0 = (-(1 / 2) * bssnHalf u d v 0 0) * ((2 : K) * (1 / 2) - 1) := by
    simp only [bssnL, bssnR, bssnHalf, Xtab, dutab, c2tab, c1tab, Fin.sum_univ_three]
    simp only [u01, u02, u12, d1, d2, d3, s1, s2, s3, t1, t2, t3]
    ring
  rw [hh, sub_self, mul_zero] at key
  exact sub_eq_zero.mp key

set_option maxRecDepth 100000 in
set_option maxHeartbeats 1000000 in
theorem bssn_algebra_01 (h2 : (2 : K) ≠ 0) (hsu : ∀ i j, u i j = u j i) (hd : ∀ k i j, d k i j = d k j i)
    (hs1 : ∀ l k i j, s l k i j = s k l i j) (hs2 : ∀ l k i j, s l k i j = s l k j i) :
    bssnL u d s v 0 1 = bssnR u d s v 0 1 := by
  have hh : (2 : K) * (1 / 2) = 1 := by field_simp
  have u01 := hsu 1 0; have u02 := hsu 2 0; have u12 := hsu 2 1
  have d1 := fun k => hd k 1 0; have d2 := fun k => hd k 2 0; have d3 := fun k => hd k 2 1
  have s1 := fun i j => hs1 1 0 i j; have s2 := fun i j => hs1 2 0 i j; have s3 := fun i j => hs1 2 1 i j
  have t1 := fun l k => hs2 l k 1 0; have t2 := fun l k => hs2 l k 2 0; have t3 := fun l k => hs2 l k 2 1
  have key : bssnL u d s v 0 1 - bssnR u d s v 0 1 = (-(1 / 2) * bssnHalf u d v 0 1) * ((2 : K) * (1 / 2) - 1) := by
    simp only [bssnL, bssnR, bssnHalf, Xtab, dutab, c2tab, c1tab, Fin.sum_univ_three]
    simp only [u01, u02, u12, d1, d2, d3, s1, s2, s3, t1, t2, t3]
    ring
  rw [hh, sub_self, mul_zero] at key
  exact sub_eq_zero.mp key

set_option maxRecDepth 100000 in
set_option maxHeartbeats 1000000 in
theorem bssn_algebra_02 (h2 : (2 : K) ≠ 0) (hsu : ∀ i j, u i j = u j i) (hd : ∀ k i j, d k i j = d k j i)
    (hs1 : ∀ l k i j, s l k i j = s k l i j) (hs2 : ∀ l k i j, s l k i j = s l k j i) :
    bssnL u d s v 0 2 = bssnR u d s v 0 2 := by
  have hh : (2 : K) * (1 / 2) = 1 := by field_simp
  have u01 := hsu 1 0; have u02 := hsu 2 0; have u12 := hsu 2 1
  have d1 := fun k => hd k 1 0; have d2 := fun k => hd k 2 0; have d3 := fun k => hd k 2 1
  have s1 := fun i j => hs1 1 0 i j; have s2 := fun i j => hs1 2 0 i j; have s3 := fun i j => hs1 2 1 i j
  have t1 := fun l k => hs2 l k 1 0; have t2 := fun l k => hs2 l k 2 0; have t3 := fun l k => hs2 l k 2 1
  have key : bssnL u d s v 0 2 - bssnR u d s v 0 2 = (-(1 / 2) * bssnHalf u d v 0 2) * ((2 : K) * (1 / 2) - 1) := by
    simp only [bssnL, bssnR, bssnHalf, Xtab, dutab, c2tab, c1tab, Fin.sum_univ_three]
    simp only [u01, u02, u12, d1, d2, d3, s1, s2, s3, t1, t2, t3]
    ring
  rw [hh, sub_self, mul_zero] at key
  exact sub_eq_zero.mp key

set_option maxRecDepth 100000 in
set_option maxHeartbeats 1000000 in
theorem bssn_algebra_10 (h2 : (2 : K) ≠ 0) (hsu : ∀ i j, u i j = u j i) (hd : ∀ k i j, d k i j = d k j i)
    (hs1 : ∀ l k i j, s l k i j = s k l i j) (hs2 : ∀ l k i j, s l k i j = s l k j i) :
    bssnL u d s v 1 0 = bssnR u d s v 1 0 := by
  have hh : (2 : K) * (1 / 2) = 1 := by field_simp
  have u01 := hsu 1 0; have u02 := hsu 2 0; have u12 := hsu 2 1
  have d1 := fun k => hd k 1 0; have d2 := fun k => hd k 2 0; have d3 := fun k => hd k 2 1
  have s1 := fun i j => hs1 1 0 i j; have s2 := fun i j => hs1 2 0 i j; have s3 := fun i j => hs1 2 1 i j
  have t1 := fun l k => hs2 l k 1 0; have t2 := fun l k => hs2 l k 2 0; have t3 := fun l k => hs2 l k 2 1
  have key : bssnL u d s v 1 0 - bssnR u d s v 1 0 = (-(1 / 2) * bssnHalf u d v 1 0) * ((2 : K) * (1 / 2) - 1) := by
    simp only [bssnL, bssnR, bssnHalf, Xtab, dutab, c2tab, c1tab, Fin.sum_univ_three]
    simp only [u01, u02, u12, d1, d2, d3, s1, s2, s3, t1, t2, t3]
    ring
  rw [hh, sub_self, mul_zero] at key
  exact sub_eq_zero.mp key

set_option maxRecDepth 100000 in
set_option maxHeartbeats 1000000 in
theorem bssn_algebra_11 (h2 : (2 : K) ≠ 0) (hsu : ∀ i j, u i j = u j i) (hd : ∀ k i j, d k i j = d k j i)
    (hs1 : ∀ l k i j, s l k i j = s k l i j) (hs2 : ∀ l k i j, s l k i j = s l k j i) :
    bssnL u d s v 1 1 = bssnR u d s v 1 1 := by
  have hh : (2 : K) * (1 / 2) = 1 := by field_simp
  have u01 := hsu 1 0; have u02 := hsu 2 0; have u12 := hsu 2 1
  have d1 := fun k => hd k 1 0; have d2 := fun k => hd k 2 0; have d3 := fun k => hd k 2 1
  have s1 := fun i j => hs1 1 0 i j; have s2 := fun i j => hs1 2 0 i j; have s3 := fun i j => hs1 2 1 i j
  have t1 := fun l k => hs2 l k 1 0; have t2 := fun l k => hs2 l k 2 0; have t3 := fun l k => hs2 l k 2 1
  have key : bssnL u d s v 1 1 - bssnR u d s v 1 1 = (-(1 / 2) * bssnHalf u d v 1 1) * ((2 : K) * (1 / 2) - 1) := by
    simp only [bssnL, bssnR, bssnHalf, Xtab, dutab, c2tab, c1tab, Fin.sum_univ_three]
    simp only [u01, u02, u12, d1, d2, d3, s1, s2, s3, t1, t2, t3]
    ring
  rw [hh, sub_self, mul_zero] at key
  exact sub_eq_zero.mp key

set_option maxRecDepth 100000 in
set_option maxHeartbeats 1000000 in
theorem bssn_algebra_12 (h2 : (2 : K) ≠ 0) (hsu : ∀ i j, u i j = u j i) (hd : ∀ k i j, d k i j = d k j i)
    (hs1 : ∀ l k i j, s l k i j = s k l i j) (hs2 : ∀ l k i j, s l k i j = s l k j i) :
    bssnL u d s v 1 2 = bssnR u d s v 1 2 := by
  have hh : (2 : K) * (1 / 2) = 1 := by field_simp
  have u01 := hsu 1 0; have u02 := hsu 2 0; have u12 := hsu 2 1
  have d1 := fun k => hd k 1 0; have d2 := fun k => hd k 2 0; have d3 := fun k => hd k 2 1
  have s1 := fun i j => hs1 1 0 i j; have s2 := fun i j => hs1 2 0 i j; have s3 := fun i j => hs1 2 1 i j
  have t1 := fun l k => hs2 l k 1 0; have t2 := fun l k => hs2 l k 2 0; have t3 := fun l k => hs2 l k 2 1
  have key : bssnL u d s v 1 2 - bssnR u d s v 1 2 = (-(1 / 2) * bssnHalf u d v 1 2) * ((2 : K) * (1 / 2) - 1) := by
    simp only [bssnL, bssnR, bssnHalf, Xtab, dutab, c2tab, c1tab, Fin.sum_univ_three]
    simp only [u01, u02, u12, d1, d2, d3, s1, s2, s3, t1, t2, t3]
    ring
  rw [hh, sub_self, mul_zero] at key
  exact sub_eq_zero.mp key

set_option maxRecDepth 100000 in
set_option maxHeartbeats 1000000 in
theorem bssn_algebra_20 (h2 : (2 : K) ≠ 0) (hsu : ∀ i j, u i j = u j i) (hd : ∀ k i j, d k i j = d k j i)
    (hs1 : ∀ l k i j, s l k i j = s k l i j) (hs2 : ∀ l k i j, s l k i j = s l k j i) :
    bssnL u d s v 2 0 = bssnR u d s v 2 0 := by
  have hh : (2 : K) * (1 / 2) = 1 := by field_simp
  have u01 := hsu 1 0; have u02 := hsu 2 0; have u12 := hsu 2 1
  have d1 := fun k => hd k 1 0; have d2 := fun k => hd k 2 0; have d3 := fun k => hd k 2 1
  have s1 := fun i j => hs1 1 0 i j; have s2 := fun i j => hs1 2 0 i j; have s3 := fun i j => hs1 2 1 i j
  have t1 := fun l k => hs2 l k 1 0; have t2 := fun l k => hs2 l k 2 0; have t3 := fun l k => hs2 l k 2 1
  have key : bssnL u d s v 2 0 - bssnR u d s v 2 0 = (-(1 / 2) * bssnHalf u d v 2 0) * ((2 : K) * (1 / 2) - 1) := by
    simp only [bssnL, bssnR, bssnHalf, Xtab, dutab, c2tab, c1tab, Fin.sum_univ_three]
    simp only [u01, u02, u12, d1, d2, d3, s1, s2, s3, t1, t2, t3]
    ring
  rw [hh, sub_self, mul_zero] at key
  exact sub_eq_zero.mp key

set_option maxRecDepth 100000 in
set_option maxHeartbeats 1000000 in
theorem bssn_algebra_21 (h2 : (2 : K) ≠ 0) (hsu : ∀ i j, u i j = u j i) (hd : ∀ k i j, d k i j = d k j i)
    (hs1 : ∀ l k i j, s l k i j = s k l i j) (hs2 : ∀ l k i j, s l k i j = s l k j i) :
    bssnL u d s v 2 1 = bssnR u d s v 2 1 := by
  have hh : (2 : K) * (1 / 2) = 1 := by field_simp
  have u01 := hsu 1 0; have u02 := hsu 2 0; have u12 := hsu 2 1
  have d1 := fun k => hd k 1 0; have d2 := fun k => hd k 2 0; have d3 := fun k => hd k 2 1
  have s1 := fun i j => hs1 1 0 i j; have s2 := fun i j => hs1 2 0 i j; have s3 := fun i j => hs1 2 1 i j
  have t1 := fun l k => hs2 l k 1 0; have t2 := fun l k => hs2 l k 2 0; have t3 := fun l k => hs2 l k 2 1
  have key : bssnL u d s v 2 1 - bssnR u d s v 2 1 = (-(1 / 2) * bssnHalf u d v 2 1) * ((2 : K) * (1 / 2) - 1) := by
    simp only [bssnL, bssnR, bssnHalf, Xtab, dutab, c2tab, c1tab, Fin.sum_univ_three]
    simp only [u01, u02, u12, d1, d2, d3, s1, s2, s3, t1, t2, t3]
    ring
  rw [hh, sub_self, mul_zero] at key
  exact sub_eq_zero.mp key

set_option maxRecDepth 100000 in
set_option maxHeartbeats 1000000 in
theorem bssn_algebra_22 (h2 : (2 : K) ≠ 0) (hsu : ∀ i j, u i j = u j i) (hd : ∀ k i j, d k i j = d k j i)
    (hs1 : ∀ l k i j, s l k i j = s k l i j) (hs2 : ∀ l k i j, s l k i j = s l k j i) :
    bssnL u d s v 2 2 = bssnR u d s v 2 2 := by
  have hh : (2 : K) * (1 / 2) = 1 := by field_simp
  have u01 := hsu 1 0; have u02 := hsu 2 0; have u12 := hsu 2 1
  have d1 := fun k => hd k 1 0; have d2 := fun k => hd k 2 0; have d3 := fun k => hd k 2 1
  have s1 := fun i j => hs1 1 0 i j; have s2 := fun i j => hs1 2 0 i j; have s3 := fun i j => hs1 2 1 i j
  have t1 := fun l k => hs2 l k 1 0; have t2 := fun l k => hs2 l k 2 0; have t3 := fun l k => hs2 l k 2 1
  have key : bssnL u d s v 2 2 - bssnR u d s v 2 2 = (-(1 / 2) * bssnHalf u d v 2 2) * ((2 : K) * (1 / 2) - 1) := by
    simp only [bssnL, bssnR, bssnHalf, Xtab, dutab, c2tab, c1tab, Fin.sum_univ_three]
    simp only [u01, u02, u12, d1, d2, d3, s1, s2, s3, t1, t2, t3]
    ring
  rw [hh, sub_self, mul_zero] at key
  exact sub_eq_zero.mp key

/-- **(2.8.17) is the Ricci tensor, index algebra** (`2 ≠ 0` in `K`). -/
theorem bssn_algebra (h2 : (2 : K) ≠ 0) (hsu : ∀ i j, u i j = u j i) (hd : ∀ k i j, d k i j = d k j i)
    (hs1 : ∀ l k i j, s l k i j = s k l i j) (hs2 : ∀ l k i j, s l k i j = s l k j i) (i j : Fin 3) :
    bssnL u d s v i j = bssnR u d s v i j := by
  revert i j
  cases3 <;> cases3
  · exact bssn_algebra_00 u d s v h2 hsu hd hs1 hs2
  · exact bssn_algebra_01 u d s v h2 hsu hd hs1 hs2
  · exact bssn_algebra_02 u d s v h2 hsu hd hs1 hs2
  · exact bssn_algebra_10 u d s v h2 hsu hd hs1 hs2
  · exact bssn_algebra_11 u d s v h2 hsu hd hs1 hs2
  · exact bssn_algebra_12 u d s v h2 hsu hd hs1 hs2
  · exact bssn_algebra_20 u d s v h2 hsu hd hs1 hs2
  · exact bssn_algebra_21 u d s v h2 hsu hd hs1 hs2
  · exact bssn_algebra_22 u d s v h2 hsu hd hs1 hs2

end alg

end AurelVerif.C05L
