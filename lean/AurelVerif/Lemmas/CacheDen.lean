/-
Lemmas/CacheDen.lean — the CANONICAL DENOTATION of a definition table (property C01, extension round 5).  Core Lean only.

`get_transparent_sharp` takes a denotation `den` and branch coherence `TableCohM T den F` as hypotheses.  Here the
denotation is CONSTRUCTED from the table and the inputs:

  `denI T inp dflt n k`  = the input value if `k` is supplied; else the value of `k`'s body when every read returns
                          `denI … (n-1)` and every presence test is evaluated on the cache that holds ONLY the inputs
                          (`evalShape`); `n` bounds the depth.

Under the rank condition H1 (`TableOK T rank`, decided for the real table by `C01.aurel_rank_ok`) the value no
longer depends on `n` once `n > rank k` (`denI_stable`): on the path selected by the inputs every read is either a
supplied input (guaranteed by a guard) or a key of smaller rank.  Hence `den := denI … N` (`N` above all ranks)
satisfies its own unfolding equation (`denOf_unfold`), and branch coherence holds AUTOMATICALLY for every body
whose presence tests only mention names without a method (`cohM_auto`: such tests, and tests of physical options,
have the same outcome at every point of every history).  What remains of H2 is exactly one obligation per body that
tests the presence of a key that HAS a method (`tableCohM_of_guarded`) — whatever the return-site formulas of all
the other bodies are.
-/
import AurelVerif.Lemmas.CacheGetM

set_option linter.unusedSectionVars false
set_option linter.unusedVariables false

namespace AurelVerif.CacheGet
open AurelVerif.Cache AurelVerif.Cache.Dict

variable {κ ν σ : Type} [DecidableEq κ]

/-- value of a body when every read of `k` returns `d k` and presence tests are evaluated on `P` -/
def evalShape (T : Table κ ν) (d : κ → ν) (P : κ → Bool) (dflt : ν) (k0 : κ) : Shape κ → List ν → ν
  | .ret i, vs => T.leaf k0 i vs
  | .read k n, vs => evalShape T d P dflt k0 n (vs ++ [d k])
  | .peek k n, vs => evalShape T d P dflt k0 n (vs ++ [d k])
  | .rep cnt ks n, vs => evalShape T d P dflt k0 n (vs ++ repVals d (T.countOf cnt) ks)
  | .test g t e, vs => if g.eval P T.flag then evalShape T d P dflt k0 t vs else evalShape T d P dflt k0 e vs
  | .fail, _ => dflt

/-- the denotation, depth-bounded -/
def denI (T : Table κ ν) (inp : Dict κ ν) (dflt : ν) : Nat → κ → ν
  | 0, k => (get? inp k).getD dflt
  | n + 1, k =>
    match get? inp k with
    | some v => v
    | none =>
      match T.shape k with
      | none => dflt
      | some sh => evalShape T (denI T inp dflt n) (fun k => contains inp k) dflt k sh []

theorem denI_input (T : Table κ ν) (inp : Dict κ ν) (dflt : ν) {k : κ} {v : ν} (h : get? inp k = some v) :
    ∀ n, denI T inp dflt n k = v := by
  intro n
  cases n with
  | zero => simp [denI, h]
  | succ n => simp [denI, h]

theorem repVals_congr {d1 d2 : κ → ν} (n : Nat) (ks : List κ) (h : ∀ k ∈ ks, d1 k = d2 k) :
    repVals d1 n ks = repVals d2 n ks := by
  unfold repVals
  rw [List.map_congr_left h]

/-- `evalShape` only looks at `d` on supplied inputs and on keys of smaller rank (H1 for this body). -/
theorem evalShape_congr (T : Table κ ν) (P : κ → Bool) (dflt : ν) (k0 : κ) (rank : κ → Nat) (r : Nat)
    (d1 d2 : κ → ν) (hr : ∀ k, rank k < r → d1 k = d2 k) (hP : ∀ k, P k = true → d1 k = d2 k) :
    ∀ (sh : Shape κ) (G : List κ) (vs : List ν), shapeOK rank r G sh = true → (∀ k ∈ G, d1 k = d2 k) →
      evalShape T d1 P dflt k0 sh vs = evalShape T d2 P dflt k0 sh vs := by
  intro sh
  induction sh with
  | ret i => intro G vs _ _; rfl
  | fail => intro G vs _ _; rfl
  | read k n ih =>
    intro G vs hok hG
    unfold shapeOK at hok
    unfold evalShape
    by_cases hg : G.contains k = true
    · simp only [hg, ↓reduceIte] at hok
      rw [hG k (by simpa using hg)]
      exact ih G _ hok hG
    · simp only [hg, Bool.false_eq_true, ↓reduceIte, Bool.and_eq_true, decide_eq_true_eq] at hok
      have hk := hr k hok.1
      rw [hk]
      refine ih [k] _ hok.2 ?_
      intro g hg'
      simp at hg'; subst hg'
      exact hk
  | peek k n ih =>
    intro G vs hok hG
    unfold shapeOK at hok
    simp only [Bool.and_eq_true] at hok
    unfold evalShape
    rw [hG k (by simpa using hok.1)]
    exact ih G _ hok.2 hG
  | rep cnt ks n ih =>
    intro G vs hok hG
    unfold shapeOK at hok
    unfold evalShape
    by_cases hg : ks.all G.contains = true
    · simp only [hg, ↓reduceIte] at hok
      have : repVals d1 (T.countOf cnt) ks = repVals d2 (T.countOf cnt) ks := by
        apply repVals_congr
        intro k hk
        have := List.all_eq_true.mp hg k hk
        exact hG k (by simpa using this)
      rw [this]
      exact ih G _ hok hG
    · simp only [hg, Bool.false_eq_true, ↓reduceIte, Bool.and_eq_true] at hok
      have : repVals d1 (T.countOf cnt) ks = repVals d2 (T.countOf cnt) ks := by
        apply repVals_congr
        intro k hk
        have := List.all_eq_true.mp hok.1 k hk
        exact hr k (by simpa using this)
      rw [this]
      exact ih [] _ hok.2 (by intro k hk; cases hk)
  | test g t e iht ihe =>
    intro G vs hok hG
    unfold shapeOK at hok
    simp only [Bool.and_eq_true] at hok
    unfold evalShape
    by_cases hb : g.eval P T.flag = true
    · simp only [hb, ↓reduceIte]
      refine iht _ vs hok.1 ?_
      intro k hk
      rcases List.mem_append.mp hk with h | h
      · exact hG k h
      · exact hP k (implied_sound _ _ g true hb k h)
    · have hb' : g.eval P T.flag = false := by
        cases hx : g.eval P T.flag <;> simp_all
      simp only [hb', Bool.false_eq_true, ↓reduceIte]
      refine ihe _ vs hok.2 ?_
      intro k hk
      rcases List.mem_append.mp hk with h | h
      · exact hG k h
      · exact hP k (implied_sound _ _ g false hb' k h)

/-- H1 ⇒ the depth-bounded denotation is stationary above the rank. -/
theorem denI_stable {T : Table κ ν} {rank : κ → Nat} (hT : TableOK T rank) (inp : Dict κ ν) (dflt : ν) :
    ∀ n k, rank k < n → denI T inp dflt (n + 1) k = denI T inp dflt n k := by
  intro n
  induction n with
  | zero => intro k h; cases h
  | succ m ih =>
    intro k hk
    cases hi : get? inp k with
    | some v => rw [denI_input T inp dflt hi, denI_input T inp dflt hi]
    | none =>
      cases hs : T.shape k with
      | none => simp only [denI, hi, hs]
      | some sh =>
        have e1 : denI T inp dflt (m + 1 + 1) k
            = evalShape T (denI T inp dflt (m + 1)) (fun k => contains inp k) dflt k sh [] := by
          simp only [denI, hi, hs]
        have e2 : denI T inp dflt (m + 1) k
            = evalShape T (denI T inp dflt m) (fun k => contains inp k) dflt k sh [] := by
          simp only [denI, hi, hs]
        rw [e1, e2]
        refine evalShape_congr T _ dflt k rank (rank k) _ _ ?_ ?_ sh [] [] (hT k sh hs) (by intro k hk; cases hk)
        · intro k' hk'
          exact ih k' (by omega)
        · intro k' hk'
          have : (get? inp k').isSome = true := hk'
          cases hv : get? inp k' with
          | none => simp [hv] at this
          | some v => rw [denI_input T inp dflt hv, denI_input T inp dflt hv]

theorem denI_stable_le {T : Table κ ν} {rank : κ → Nat} (hT : TableOK T rank) (inp : Dict κ ν) (dflt : ν) (k : κ) :
    ∀ m n, rank k < n → denI T inp dflt (n + m) k = denI T inp dflt n k := by
  intro m
  induction m with
  | zero => intro n _; rfl
  | succ m ih =>
    intro n hn
    rw [← Nat.add_assoc, denI_stable hT inp dflt (n + m) k (by omega)]
    exact ih n hn

/-- **the canonical denotation**: `N` is any bound above all ranks. -/
def denOf (T : Table κ ν) (inp : Dict κ ν) (dflt : ν) (N : Nat) : κ → ν := denI T inp dflt N

theorem denOf_input (T : Table κ ν) (inp : Dict κ ν) (dflt : ν) (N : Nat) (k : κ) (v : ν) (h : get? inp k = some v) :
    denOf T inp dflt N k = v := denI_input T inp dflt h N

/-- the denotation of a key that is not supplied is the value of its body on denotations, presence tests evaluated
on the inputs. -/
theorem denOf_unfold {T : Table κ ν} {rank : κ → Nat} (hT : TableOK T rank) (inp : Dict κ ν) (dflt : ν) (N : Nat)
    (hN : ∀ k, rank k < N) (k : κ) (sh : Shape κ) (hi : get? inp k = none) (hs : T.shape k = some sh) :
    denOf T inp dflt N k = evalShape T (denOf T inp dflt N) (fun k => contains inp k) dflt k sh [] := by
  unfold denOf
  rw [← denI_stable hT inp dflt N k (hN k)]
  simp only [denI, hi, hs]

theorem denOf_methodless (T : Table κ ν) (inp : Dict κ ν) (dflt : ν) (N : Nat) (k : κ)
    (hi : get? inp k = none) (hs : T.shape k = none) : denOf T inp dflt N k = dflt := by
  unfold denOf
  cases N with
  | zero => simp [denI, hi]
  | succ n => simp only [denI, hi, hs]

/-! ### automatic coherence of bodies without a presence test of a key that has a method -/

def Guard.atoms : Guard κ → List κ
  | .pres k => [k]
  | .flag _ => []
  | .not g => g.atoms
  | .and g h => g.atoms ++ h.atoms
  | .or g h => g.atoms ++ h.atoms

/-- every presence test of the body is about a name for which `ml` holds (`ml` = "has no method") -/
def stableShape (ml : κ → Bool) : Shape κ → Bool
  | .ret _ => true
  | .fail => true
  | .read _ n => stableShape ml n
  | .peek _ n => stableShape ml n
  | .rep _ _ n => stableShape ml n
  | .test g t e => g.atoms.all ml && stableShape ml t && stableShape ml e

theorem Guard.eval_congr (P P' : κ → Bool) (Fl : String → Bool) :
    ∀ g : Guard κ, (∀ k ∈ g.atoms, P k = P' k) → g.eval P Fl = g.eval P' Fl := by
  intro g
  induction g with
  | pres k => intro h; simp only [Guard.eval]; exact h k (by simp [Guard.atoms])
  | flag f => intro _; rfl
  | not g ih => intro h; simp only [Guard.eval]; rw [ih h]
  | and g h ihg ihh =>
    intro hh
    simp only [Guard.eval]
    rw [ihg (fun k hk => hh k (by simp [Guard.atoms, hk])), ihh (fun k hk => hh k (by simp [Guard.atoms, hk]))]
  | or g h ihg ihh =>
    intro hh
    simp only [Guard.eval]
    rw [ihg (fun k hk => hh k (by simp [Guard.atoms, hk])), ihh (fun k hk => hh k (by simp [Guard.atoms, hk]))]

/-- a test whose presence atoms are all method-less has one feasible outcome: its value on the inputs. -/
theorem feasibleM_stable {T : Table κ ν} (inp : Dict κ ν) {g : Guard κ} {b : Bool}
    (hml : ∀ k ∈ g.atoms, T.shape k = none)
    (h : FeasibleM T (fun k => (get? inp k).isSome = true) g b) :
    g.eval (fun k => contains inp k) T.flag = b := by
  obtain ⟨P, h1, h2, h3⟩ := h
  rw [← h3]
  apply Guard.eval_congr
  intro k hk
  cases hp : P k with
  | true =>
    rcases h2 k hp with hF | hS
    · exact hF
    · rw [hml k hk] at hS; cases hS
  | false =>
    cases hc : contains inp k with
    | false => rfl
    | true => have := h1 k hc; rw [hp] at this; cases this

theorem cohM_auto (T : Table κ ν) (inp : Dict κ ν) (den : κ → ν) (dflt : ν) (k0 : κ) :
    ∀ (sh : Shape κ) (vs : List ν), stableShape (fun k => (T.shape k).isNone) sh = true →
      CohM T den (fun k => (get? inp k).isSome = true)
        (evalShape T den (fun k => contains inp k) dflt k0 sh vs) k0 sh vs := by
  intro sh
  induction sh with
  | ret i => intro vs _; rfl
  | fail => intro vs _; trivial
  | read k n ih => intro vs h; exact ih _ h
  | peek k n ih => intro vs h; exact ih _ h
  | rep cnt ks n ih => intro vs h; exact ih _ h
  | test g t e iht ihe =>
    intro vs h
    unfold stableShape at h
    simp only [Bool.and_eq_true] at h
    have hml : ∀ k ∈ g.atoms, T.shape k = none := by
      intro k hk
      have := List.all_eq_true.mp h.1.1 k hk
      simpa using this
    refine ⟨fun hf => ?_, fun hf => ?_⟩
    · have hb := feasibleM_stable inp hml hf
      unfold evalShape
      simp only [hb, ↓reduceIte]
      exact iht vs h.1.2
    · have hb := feasibleM_stable inp hml hf
      unfold evalShape
      simp only [hb, Bool.false_eq_true, ↓reduceIte]
      exact ihe vs h.2

/-- **H2 reduced to the guarded bodies**: under the rank condition, for the canonical denotation, branch coherence
of the whole table follows from branch coherence of the bodies that test the presence of a key that has a method —
for ARBITRARY return-site formulas everywhere. -/
theorem tableCohM_of_guarded {T : Table κ ν} {rank : κ → Nat} (hT : TableOK T rank) (inp : Dict κ ν) (dflt : ν)
    (N : Nat) (hN : ∀ k, rank k < N)
    (hG : ∀ k sh, get? inp k = none → T.shape k = some sh →
      stableShape (fun k => (T.shape k).isNone) sh = false →
      CohM T (denOf T inp dflt N) (fun k => (get? inp k).isSome = true) (denOf T inp dflt N k) k sh []) :
    TableCohM T (denOf T inp dflt N) (fun k => (get? inp k).isSome = true) := by
  intro k sh hF hs
  have hi : get? inp k = none := by
    cases hg : get? inp k with
    | none => rfl
    | some v => simp [hg] at hF
  cases hst : stableShape (fun k => (T.shape k).isNone) sh with
  | false => exact hG k sh hi hs hst
  | true =>
    rw [denOf_unfold hT inp dflt N hN k sh hi hs]
    exact cohM_auto T inp _ dflt k sh [] hst

/-! ### tools for the guarded bodies -/

theorem stableShape_mono {ml ml' : κ → Bool} (h : ∀ k, ml k = true → ml' k = true) :
    ∀ sh : Shape κ, stableShape ml sh = true → stableShape ml' sh = true := by
  intro sh
  induction sh with
  | ret i => intro _; rfl
  | fail => intro _; rfl
  | read k n ih => intro hs; exact ih hs
  | peek k n ih => intro hs; exact ih hs
  | rep cnt ks n ih => intro hs; exact ih hs
  | test g t e iht ihe =>
    intro hs
    unfold stableShape at hs ⊢
    simp only [Bool.and_eq_true] at hs ⊢
    refine ⟨⟨?_, iht hs.1.2⟩, ihe hs.2⟩
    apply List.all_eq_true.mpr
    intro k hk
    exact h k (List.all_eq_true.mp hs.1.1 k hk)

/-- the outcome of a test on the cache that holds only the inputs is feasible. -/
theorem feasibleM_inputs (T : Table κ ν) (inp : Dict κ ν) (g : Guard κ) :
    FeasibleM T (fun k => (get? inp k).isSome = true) g (g.eval (fun k => contains inp k) T.flag) :=
  ⟨fun k => contains inp k, fun _ h => h, fun _ h => Or.inl h, rfl⟩

theorem feasibleM_pres_false {T : Table κ ν} (inp : Dict κ ν) {t : κ}
    (h : FeasibleM T (fun k => (get? inp k).isSome = true) (.pres t) false) : get? inp t = none := by
  obtain ⟨P, h1, _, h3⟩ := h
  simp only [Guard.eval] at h3
  cases hg : get? inp t with
  | none => rfl
  | some v =>
    have := h1 t (by simp [hg])
    rw [this] at h3; cases h3

theorem feasibleM_and_false {T : Table κ ν} (inp : Dict κ ν) {a b : κ}
    (h : FeasibleM T (fun k => (get? inp k).isSome = true) (.and (.pres a) (.pres b)) false) :
    get? inp a = none ∨ get? inp b = none := by
  obtain ⟨P, h1, _, h3⟩ := h
  simp only [Guard.eval] at h3
  cases ha : get? inp a with
  | none => exact Or.inl rfl
  | some v =>
    cases hb : get? inp b with
    | none => exact Or.inr rfl
    | some w =>
      have e1 := h1 a (by simp [ha]); have e2 := h1 b (by simp [hb])
      rw [e1, e2] at h3; cases h3

/-- a body `if g: A else: B` whose branches contain no further presence test of a key with a method is coherent as
soon as the two branches agree on denotations WHEN BOTH OUTCOMES OF THE TEST ARE FEASIBLE. -/
theorem cohM_test {T : Table κ ν} {rank : κ → Nat} (hT : TableOK T rank) (inp : Dict κ ν) (dflt : ν)
    (N : Nat) (hN : ∀ k, rank k < N) (k : κ) (g : Guard κ) (A B : Shape κ)
    (hs : T.shape k = some (.test g A B)) (hi : get? inp k = none)
    (hA : stableShape (fun k => (T.shape k).isNone) A = true)
    (hB : stableShape (fun k => (T.shape k).isNone) B = true)
    (heq : FeasibleM T (fun k => (get? inp k).isSome = true) g true →
      FeasibleM T (fun k => (get? inp k).isSome = true) g false →
      evalShape T (denOf T inp dflt N) (fun k => contains inp k) dflt k A []
        = evalShape T (denOf T inp dflt N) (fun k => contains inp k) dflt k B []) :
    CohM T (denOf T inp dflt N) (fun k => (get? inp k).isSome = true) (denOf T inp dflt N k) k (.test g A B) [] := by
  rw [denOf_unfold hT inp dflt N hN k _ hi hs]
  have hfe := feasibleM_inputs T inp g
  have hu : evalShape T (denOf T inp dflt N) (fun k => contains inp k) dflt k (.test g A B) []
      = if g.eval (fun k => contains inp k) T.flag
        then evalShape T (denOf T inp dflt N) (fun k => contains inp k) dflt k A []
        else evalShape T (denOf T inp dflt N) (fun k => contains inp k) dflt k B [] := rfl
  rw [hu]
  cases hb : g.eval (fun k => contains inp k) T.flag with
  | true =>
    rw [hb] at hfe
    simp only [↓reduceIte]
    refine ⟨fun _ => cohM_auto T inp _ dflt k A [] hA, fun hf => ?_⟩
    rw [heq hfe hf]
    exact cohM_auto T inp _ dflt k B [] hB
  | false =>
    rw [hb] at hfe
    simp only [Bool.false_eq_true, ↓reduceIte]
    refine ⟨fun hf => ?_, fun _ => cohM_auto T inp _ dflt k B [] hB⟩
    rw [← heq hf hfe]
    exact cohM_auto T inp _ dflt k A [] hA

end AurelVerif.CacheGet
