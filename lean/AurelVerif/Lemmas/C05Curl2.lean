/-
Lemmas/C05Curl2.lean — property C05, curl helper (consistency of the 3+1 split; no property of the
difference operator is used): the tensor the code contracts in `s_curl`,

    LCuud3^{ab}{}_c = g^{aμ} g^{bν} n^λ ε_{λμνc}      (spatial components, ε_{λμνc} = [λμνc] √(−g)),

equals the spatial Levi-Civita tensor with two raised indices `γ^{ad} γ^{bf} ε_{dfc}`,
`ε_{dfc} = [dfc] √γ`, when the inverse 4-metric has its 3+1 form (`GupSplit`, proved for the code's
own `gup4` in Lemmas/C04Gup.lean), `n^μ` is the code's unit normal, `α ≠ 0`, and the OPAQUE square
roots are related by `√(−g) = α √γ`.  The last hypothesis is the only fact about `sqrtF` that is used;
over an ordered field it follows from `(sqrtF x)² = x`, `sqrtF x ≥ 0`, `α > 0`, `g = −α² γ`
(`sqrt_split_of_ordered` below).
-/
import AurelVerif.Lemmas.C05Curl
import AurelVerif.Spec.CovdB
import Mathlib.Algebra.Order.Field.Basic

set_option linter.unusedSimpArgs false
set_option linter.unusedVariables false
set_option linter.unusedSectionVars false

namespace AurelVerif.C05L
open AurelVerif.Gen.Core AurelVerif.Tensor AurelVerif.CoreTac AurelVerif.C08 AurelVerif.Spec.Covd

variable {K : Type} [Field K]

/-- the cached inverse 4-metric in 3+1 form:
`g^tt = −1/α²`, `g^ti = g^it = β^i/α²`, `g^ij = γ^ij − β^i β^j/α²`
(same statement as `C04L.Gup3p1 e e.gup4`). -/
structure GupSplit (e : Env K) : Prop where
  h00 : e.gup4 0 0 = -1 / e.alpha ^ 2
  h0i : ∀ i : Fin 3, e.gup4 0 i.succ = e.betaup3 i / e.alpha ^ 2 ∧ e.gup4 i.succ 0 = e.betaup3 i / e.alpha ^ 2
  hij : ∀ i j : Fin 3, e.gup4 i.succ j.succ = e.gammaup3 i j - e.betaup3 i * e.betaup3 j / e.alpha ^ 2

theorem fsucc3_0 : (0 : Fin 3).succ = (1 : Fin 4) := rfl
theorem fsucc3_1 : (1 : Fin 3).succ = (2 : Fin 4) := rfl
theorem fsucc3_2 : (2 : Fin 3).succ = (3 : Fin 4) := rfl

set_option maxHeartbeats 1000000 in
/-- **the code's `g g n ε` contraction is the spatial `γ γ ε`**. -/
theorem LCuud3_spatial (e : Env K) (hg : GupSplit e) (hn : e.nup4 = nup4 e) (ha : e.alpha ≠ 0)
    (hsq : e.sqrtF (-e.gdet) = e.alpha * e.sqrtF e.gammadet) (a b c : Fin 3) :
    LCuud3 e a b c = eps3UUD e.gammaup3 (levicivita_down3 e) a b c := by
  have g00 := hg.h00
  have g01 := (hg.h0i 0).1; have g02 := (hg.h0i 1).1; have g03 := (hg.h0i 2).1
  have g10 := (hg.h0i 0).2; have g20 := (hg.h0i 1).2; have g30 := (hg.h0i 2).2
  have g11 := hg.hij 0 0; have g12 := hg.hij 0 1; have g13 := hg.hij 0 2
  have g21 := hg.hij 1 0; have g22 := hg.hij 1 1; have g23 := hg.hij 1 2
  have g31 := hg.hij 2 0; have g32 := hg.hij 2 1; have g33 := hg.hij 2 2
  simp only [fsucc3_0, fsucc3_1, fsucc3_2] at g01 g02 g03 g10 g20 g30 g11 g12 g13 g21 g22 g23 g31 g32 g33
  revert a b c
  cases3 <;> cases3 <;> cases3 <;>
    (simp only [LCuud3, eps3UUD, fsucc3_0, fsucc3_1, fsucc3_2, hn, hsq, core_unfold, Fin.sum_univ_three,
       Fin.sum_univ_four, g00, g01, g02, g03, g10, g20, g30, g11, g12, g13, g21, g22, g23, g31, g32, g33,
       zero_mul, mul_zero, add_zero, zero_add]
     field_simp
     ring)

/-- un-symmetrised curl with the SPATIAL Levi-Civita tensor: `X_{ab} = γ^{ce} γ^{df} ε_{efa} D_c f_{bd}`. -/
def curlSpatial (e : Env K) (f : Fin 3 → Fin 3 → K) (a b : Fin 3) : K :=
  ∑ c, ∑ d, eps3UUD e.gammaup3 (levicivita_down3 e) c d a * s_covd_dd e f c b d

/-- **s_curl 'dd'** is the symmetrised `ε^{cd}{}_a D_c f_{bd}` with the spatial Levi-Civita tensor
`ε^{cd}{}_a = γ^{ce} γ^{df} [efa] √γ`. -/
theorem s_curl_dd_spatial (e : Env K) (hg : GupSplit e) (hn : e.nup4 = nup4 e) (ha : e.alpha ≠ 0)
    (hsq : e.sqrtF (-e.gdet) = e.alpha * e.sqrtF e.gammadet) (f : Fin 3 → Fin 3 → K) (a b : Fin 3) :
    s_curl_dd e f a b = (curlSpatial e f a b + curlSpatial e f b a) * (1 / 2) := by
  rw [s_curl_dd_spec]
  simp only [curlRaw, curlSpatial, LCuud3_spatial e hg hn ha hsq]

/-- over an ordered field the relation between the two opaque square roots follows from the defining
properties of a square root: `(sqrtF x)² = x` and `sqrtF x ≥ 0` at the two arguments, `α > 0` and
`g = −α² γ` (the default alternative of `gdet`; the other one agrees by `C08.gdet_coherent`). -/
theorem sqrt_split_of_ordered {F : Type} [Field F] [LinearOrder F] [IsStrictOrderedRing F] (e : Env F)
    (ha : 0 < e.alpha) (hgdet : e.gdet = gdet__dflt e)
    (h1 : e.sqrtF (-e.gdet) * e.sqrtF (-e.gdet) = -e.gdet) (p1 : 0 ≤ e.sqrtF (-e.gdet))
    (h2 : e.sqrtF e.gammadet * e.sqrtF e.gammadet = e.gammadet) (p2 : 0 ≤ e.sqrtF e.gammadet) :
    e.sqrtF (-e.gdet) = e.alpha * e.sqrtF e.gammadet := by
  have hb : 0 ≤ e.alpha * e.sqrtF e.gammadet := mul_nonneg ha.le p2
  have hsq : e.sqrtF (-e.gdet) ^ 2 = (e.alpha * e.sqrtF e.gammadet) ^ 2 := by
    have hval : -e.gdet = e.alpha ^ 2 * e.gammadet := by rw [hgdet]; simp only [core_unfold]; ring
    linear_combination h1.trans hval - e.alpha ^ 2 * h2
  exact (pow_left_inj₀ p1 hb (by norm_num)).mp hsq

end AurelVerif.C05L
