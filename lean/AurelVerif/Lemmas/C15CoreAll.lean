/-
Lemmas/C15CoreAll.lean — composition for EVERY dimension `n`.

1. `Fin n` front end of the all-`n` fill theorems of Lemmas/C15FillAll.lean.
2. `node_*`: one method call of `AurelCoreSymbolic` on textbook inputs —
   `__getitem__`'s `sp.simplify` ∘ fill loops ∘ formula line, fed with the
   textbook values of the keys it looks up — returns the textbook tensor.  One
   lemma per method BRANCH (this is the branch coherence used by the request-
   history theorem of Lemmas/C15History.lean).
3. `stored*_eq_all`: the `stored…` terms of Lemmas/SymCore.lean equal the
   textbook tensors for every `n` (the `n = 2 ∨ n = 3 ∨ n = 4` hypothesis of
   Lemmas/SymCore.lean is gone).
-/
import AurelVerif.Lemmas.C15FillAll
import AurelVerif.Lemmas.SymCore

set_option linter.unusedSectionVars false

namespace AurelVerif.SymCoreAll
open AurelVerif.SymFill AurelVerif.SymFillLemmas AurelVerif.SymFillAll AurelVerif.SymTensorLemmas
open AurelVerif.SymCore AurelVerif.Spec.SymTensors AurelVerif.Gen
open scoped BigOperators

/-! ### 1. `Fin n` front end -/
section front
variable {K : Type} [Field K] [CharZero K] {n : ℕ}

theorem fill2_all (p : Prog) (hr : p.rank = 2) (hnv : p.nvars = 2)
    (ht : ∀ T' : List Nat → K, Invariant n 2 (ringOps K) gensSym2 T' →
      Triple n 2 2 (ringOps K) T' 0 (fun _ => True) p.body)
    (T : Fin n → Fin n → K) (hT : ∀ i j, T j i = T i j) (i j : Fin n) :
    fillFin2 n (ringOps K) p T i j = T i j := by
  unfold fillFin2
  have h := fill_of_triple p hr hnv (ht _ (invariant_sym2 T hT)) [i.val, j.val] (valid2 i j)
  have e : (ringOps K).zero = 0 := rfl
  rw [e, h, ofFin2_val]

theorem fill3_all (p : Prog) (hr : p.rank = 3) (hnv : p.nvars = 3)
    (ht : ∀ T' : List Nat → K, Invariant n 3 (ringOps K) gensGamma T' →
      Triple n 3 3 (ringOps K) T' 0 (fun _ => True) p.body)
    (T : Fin n → Fin n → Fin n → K) (hT : ∀ i j k, T i k j = T i j k) (i j k : Fin n) :
    fillFin3 n (ringOps K) p T i j k = T i j k := by
  unfold fillFin3
  have h := fill_of_triple p hr hnv (ht _ (invariant_gamma T hT)) [i.val, j.val, k.val] (valid3 i j k)
  have e : (ringOps K).zero = 0 := rfl
  rw [e, h, ofFin3_val]

theorem fill4up_all (p : Prog) (hr : p.rank = 4) (hnv : p.nvars = 4)
    (ht : ∀ T' : List Nat → K, Invariant n 4 (ringOps K) gensRiemannUp T' →
      Triple n 4 4 (ringOps K) T' 0 (fun _ => True) p.body)
    (T : Fin n → Fin n → Fin n → Fin n → K) (hT : ∀ i j k h, T i j h k = - T i j k h)
    (i j k h : Fin n) : fillFin4 n (ringOps K) p T i j k h = T i j k h := by
  unfold fillFin4
  have h' := fill_of_triple p hr hnv (ht _ (invariant_riemannUp T hT)) [i.val, j.val, k.val, h.val]
    (valid4 i j k h)
  have e : (ringOps K).zero = 0 := rfl
  rw [e, h', ofFin4_val]

theorem fill4down_all (p : Prog) (hr : p.rank = 4) (hnv : p.nvars = 4)
    (ht : ∀ T' : List Nat → K, Invariant n 4 (ringOps K) gensRiemannDown T' →
      Triple n 4 4 (ringOps K) T' 0 (fun _ => True) p.body)
    (T : Fin n → Fin n → Fin n → Fin n → K)
    (h1 : ∀ i j k h, T j i k h = - T i j k h) (h2 : ∀ i j k h, T i j h k = - T i j k h)
    (h3 : ∀ i j k h, T k h i j = T i j k h) (i j k h : Fin n) :
    fillFin4 n (ringOps K) p T i j k h = T i j k h := by
  unfold fillFin4
  have h' := fill_of_triple p hr hnv (ht _ (invariant_riemannDown T h1 h2 h3))
    [i.val, j.val, k.val, h.val] (valid4 i j k h)
  have e : (ringOps K).zero = 0 := rfl
  rw [e, h', ofFin4_val]

theorem fillAll_Gamma_udd (T : Fin n → Fin n → Fin n → K) (hT : ∀ i j k, T i k j = T i j k)
    (i j k : Fin n) : fillFin3 n (ringOps K) SymLoops.Gamma_udd T i j k = T i j k :=
  fill3_all _ rfl rfl (fun _ h => triple_Gamma_udd h) T hT i j k

theorem fillAll_Gamma_down (T : Fin n → Fin n → Fin n → K) (hT : ∀ i j k, T i k j = T i j k)
    (i j k : Fin n) : fillFin3 n (ringOps K) SymLoops.Gamma_down T i j k = T i j k :=
  fill3_all _ rfl rfl (fun _ h => triple_Gamma_down h) T hT i j k

theorem fillAll_Riemann_uddd (T : Fin n → Fin n → Fin n → Fin n → K)
    (hT : ∀ i j k h, T i j h k = - T i j k h) (i j k h : Fin n) :
    fillFin4 n (ringOps K) SymLoops.Riemann_uddd T i j k h = T i j k h :=
  fill4up_all _ rfl rfl (fun _ h => triple_Riemann_uddd (ringOps_laws K) h) T hT i j k h

theorem fillAll_Riemann_down_cached (T : Fin n → Fin n → Fin n → Fin n → K)
    (h1 : ∀ i j k h, T j i k h = - T i j k h) (h2 : ∀ i j k h, T i j h k = - T i j k h)
    (h3 : ∀ i j k h, T k h i j = T i j k h) (i j k h : Fin n) :
    fillFin4 n (ringOps K) SymLoops.Riemann_down_cached T i j k h = T i j k h :=
  fill4down_all _ rfl rfl (fun _ h => triple_Riemann_down_cached h (ringOps_laws K)) T h1 h2 h3 i j k h

theorem fillAll_Riemann_down_direct (T : Fin n → Fin n → Fin n → Fin n → K)
    (h1 : ∀ i j k h, T j i k h = - T i j k h) (h2 : ∀ i j k h, T i j h k = - T i j k h)
    (h3 : ∀ i j k h, T k h i j = T i j k h) (i j k h : Fin n) :
    fillFin4 n (ringOps K) SymLoops.Riemann_down_direct T i j k h = T i j k h :=
  fill4down_all _ rfl rfl (fun _ h => triple_Riemann_down_direct h (ringOps_laws K)) T h1 h2 h3 i j k h

theorem fillAll_Ricci_down_cached (T : Fin n → Fin n → K) (hT : ∀ i j, T j i = T i j) (i j : Fin n) :
    fillFin2 n (ringOps K) SymLoops.Ricci_down_cached T i j = T i j :=
  fill2_all _ rfl rfl (fun _ h => triple_Ricci_down_cached h) T hT i j

theorem fillAll_Ricci_down_direct (T : Fin n → Fin n → K) (hT : ∀ i j, T j i = T i j) (i j : Fin n) :
    fillFin2 n (ringOps K) SymLoops.Ricci_down_direct T i j = T i j :=
  fill2_all _ rfl rfl (fun _ h => triple_Ricci_down_direct h) T hT i j

theorem fillAll_Einstein_down (T : Fin n → Fin n → K) (hT : ∀ i j, T j i = T i j) (i j : Fin n) :
    fillFin2 n (ringOps K) SymLoops.Einstein_down T i j = T i j :=
  fill2_all _ rfl rfl (fun _ h => triple_Einstein_down h) T hT i j

end front

/-! ### 2. one method call on textbook inputs -/
section node
variable {K : Type} [Field K] [CharZero K] {n : ℕ} {D : Fin n → K → K} {S : K → K}
  {g gup : Fin n → Fin n → K}

theorem node_Gamma_udd (hM : IsMetric g gup) (hS : ∀ x, S x = x) (b : Bool) :
    (fun i j k => post b S (fillFin3 n (ringOps K) SymLoops.Gamma_udd
      (SymFormulas.Gamma_udd D b S gup g) i j k)) = GammaUdd D g gup := by
  have hT : SymFormulas.Gamma_udd D b S gup g = GammaUdd D g gup := by
    funext i j k; exact gamma_udd_line hS b i j k
  funext i j k
  rw [post_id hS, hT]
  exact fillAll_Gamma_udd _ (fun i j k => (christoffel2_symm hM i j k).symm) i j k

theorem node_Gamma_down (hM : IsMetric g gup) (hS : ∀ x, S x = x) (b : Bool) :
    (fun i j k => post b S (fillFin3 n (ringOps K) SymLoops.Gamma_down
      (SymFormulas.Gamma_down D b S g (GammaUdd D g gup)) i j k)) = GammaDown D g := by
  have hT : SymFormulas.Gamma_down D b S g (GammaUdd D g gup) = GammaDown D g := by
    funext i j k; exact gamma_down_line hM hS b i j k
  funext i j k
  rw [post_id hS, hT]
  exact fillAll_Gamma_down _ (fun i j k => (christoffel1_symm hM i j k).symm) i j k

theorem node_Riemann_uddd (hS : ∀ x, S x = x) (b : Bool) :
    (fun i j k h => post b S (fillFin4 n (ringOps K) SymLoops.Riemann_uddd
      (SymFormulas.Riemann_uddd D b S (GammaUdd D g gup)) i j k h)) = RiemannUddd D g gup := by
  have hT : SymFormulas.Riemann_uddd D b S (GammaUdd D g gup) = RiemannUddd D g gup := by
    funext i j k h; exact riemann_uddd_line hS b _ i j k h
  funext i j k h
  rw [post_id hS, hT]
  exact fillAll_Riemann_uddd _ (fun i j k h => riemannUp_antisymm D _ i j k h) i j k h

theorem node_Riemann_down_cached (hD : IsDeriv D) (hM : IsMetric g gup) (hS : ∀ x, S x = x) (b : Bool) :
    (fun i j k h => post b S (fillFin4 n (ringOps K) SymLoops.Riemann_down_cached
      (SymFormulas.Riemann_down_cached D b S g (RiemannUddd D g gup)) i j k h))
      = RiemannDown D g gup := by
  have hT : SymFormulas.Riemann_down_cached D b S g (RiemannUddd D g gup) = RiemannDown D g gup := by
    funext h i j k; exact riemann_down_cached_line hS b _ h i j k
  funext i j k h
  rw [post_id hS, hT]
  exact fillAll_Riemann_down_cached _ (riemannDown_antisymm12 hD hM) (riemannDown_antisymm34 hD hM)
    (riemannDown_pair hD hM) i j k h

theorem node_Riemann_down_direct (hD : IsDeriv D) (hM : IsMetric g gup) (hS : ∀ x, S x = x) (b : Bool) :
    (fun i j k h => post b S (fillFin4 n (ringOps K) SymLoops.Riemann_down_direct
      (SymFormulas.Riemann_down_direct D b S (GammaDown D g) (GammaUdd D g gup)) i j k h))
      = RiemannDown D g gup := by
  have hT : SymFormulas.Riemann_down_direct D b S (GammaDown D g) (GammaUdd D g gup)
      = RiemannDown D g gup := by
    funext i j k h; exact riemann_down_direct_line hD hM hS b i j k h
  funext i j k h
  rw [post_id hS, hT]
  exact fillAll_Riemann_down_direct _ (riemannDown_antisymm12 hD hM) (riemannDown_antisymm34 hD hM)
    (riemannDown_pair hD hM) i j k h

theorem node_Ricci_down_cached (hD : IsDeriv D) (hM : IsMetric g gup) (hS : ∀ x, S x = x) (b : Bool) :
    (fun i j => post b S (fillFin2 n (ringOps K) SymLoops.Ricci_down_cached
      (SymFormulas.Ricci_down_cached D b S (RiemannUddd D g gup)) i j)) = RicciDown D g gup := by
  have hT : SymFormulas.Ricci_down_cached D b S (RiemannUddd D g gup) = RicciDown D g gup := by
    funext i j; exact ricci_down_cached_line hS b _ i j
  funext i j
  rw [post_id hS, hT]
  exact fillAll_Ricci_down_cached _ (ricci_symm hD hM) i j

theorem node_Ricci_down_direct (hD : IsDeriv D) (hM : IsMetric g gup) (hS : ∀ x, S x = x) (b : Bool) :
    (fun i j => post b S (fillFin2 n (ringOps K) SymLoops.Ricci_down_direct
      (SymFormulas.Ricci_down_direct D b S (GammaUdd D g gup)) i j)) = RicciDown D g gup := by
  have hT : SymFormulas.Ricci_down_direct D b S (GammaUdd D g gup) = RicciDown D g gup := by
    funext i j; exact ricci_down_direct_line hS b _ i j
  funext i j
  rw [post_id hS, hT]
  exact fillAll_Ricci_down_direct _ (ricci_symm hD hM) i j

theorem node_RicciS (hS : ∀ x, S x = x) (b : Bool) :
    post b S (SymFormulas.RicciS D b S gup (RicciDown D g gup)) = RicciScalar D g gup := by
  rw [post_id hS, ricciS_line]
  rfl

theorem node_Einstein_down (hD : IsDeriv D) (hM : IsMetric g gup) (hS : ∀ x, S x = x) (b : Bool) :
    (fun i j => post b S (fillFin2 n (ringOps K) SymLoops.Einstein_down
      (SymFormulas.Einstein_down D b S (RicciDown D g gup) g (RicciScalar D g gup)) i j))
      = EinsteinDown D g gup := by
  have hT : SymFormulas.Einstein_down D b S (RicciDown D g gup) g (RicciScalar D g gup)
      = EinsteinDown D g gup := by
    funext i j; exact einstein_line b _ _ i j
  funext i j
  rw [post_id hS, hT]
  exact fillAll_Einstein_down _ (einstein_symm hD hM) i j

/-! ### 3. the `stored…` terms of Lemmas/SymCore.lean, every `n` -/

theorem storedGammaUdd_eq_all (hM : IsMetric g gup) (hS : ∀ x, S x = x) (b : Bool) :
    storedGammaUdd n D b S g gup = GammaUdd D g gup := node_Gamma_udd hM hS b

theorem storedGammaDown_eq_all (hM : IsMetric g gup) (hS : ∀ x, S x = x) (b : Bool) :
    storedGammaDown n D b S g gup = GammaDown D g := by
  unfold storedGammaDown
  rw [storedGammaUdd_eq_all hM hS b]
  exact node_Gamma_down hM hS b

theorem storedRiemannUddd_eq_all (hM : IsMetric g gup) (hS : ∀ x, S x = x) (b : Bool) :
    storedRiemannUddd n D b S g gup = RiemannUddd D g gup := by
  unfold storedRiemannUddd
  rw [storedGammaUdd_eq_all hM hS b]
  exact node_Riemann_uddd hS b

theorem storedRiemannDown_eq_all (hD : IsDeriv D) (hM : IsMetric g gup) (hS : ∀ x, S x = x)
    (b cached : Bool) : storedRiemannDown n D b S g gup cached = RiemannDown D g gup := by
  unfold storedRiemannDown
  rw [storedRiemannUddd_eq_all hM hS b, storedGammaDown_eq_all hM hS b, storedGammaUdd_eq_all hM hS b]
  cases cached
  · simpa using node_Riemann_down_direct hD hM hS b
  · simpa using node_Riemann_down_cached hD hM hS b

theorem storedRicci_eq_all (hD : IsDeriv D) (hM : IsMetric g gup) (hS : ∀ x, S x = x)
    (b cached : Bool) : storedRicci n D b S g gup cached = RicciDown D g gup := by
  unfold storedRicci
  rw [storedRiemannUddd_eq_all hM hS b, storedGammaUdd_eq_all hM hS b]
  cases cached
  · simpa using node_Ricci_down_direct hD hM hS b
  · simpa using node_Ricci_down_cached hD hM hS b

theorem storedRicciS_eq_all (hD : IsDeriv D) (hM : IsMetric g gup) (hS : ∀ x, S x = x)
    (b cached : Bool) : storedRicciS n D b S g gup cached = RicciScalar D g gup := by
  unfold storedRicciS
  rw [storedRicci_eq_all hD hM hS b cached]
  exact node_RicciS hS b

theorem storedEinstein_eq_all (hD : IsDeriv D) (hM : IsMetric g gup) (hS : ∀ x, S x = x)
    (b cached : Bool) : storedEinstein n D b S g gup cached = EinsteinDown D g gup := by
  unfold storedEinstein
  rw [storedRicci_eq_all hD hM hS b cached, storedRicciS_eq_all hD hM hS b cached]
  exact node_Einstein_down hD hM hS b

end node

end AurelVerif.SymCoreAll
