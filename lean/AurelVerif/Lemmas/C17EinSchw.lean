/-
Lemmas/C17EinSchw.lean — Schwarzschild_isotropic: the module's own `gdown4` is a vacuum solution
(all ten Einstein equations, `Tdown4 = 0`) and the closed-form `Kretschmann` function shipped with the
module IS the Kretschmann scalar `R^{ab}_{cd} R^{cd}_{ab}` of that metric, at every point with
`(x,y,z) ≠ 0` off the horizon `2r = M`.  The 2-jet is proven to consist of the first and second partial
derivatives of the module's metric (`r = √(x²+y²+z²)`, `∂_i r = x^i/r` by Mathlib's `HasDerivAt.sqrt`).
-/
import AurelVerif.Lemmas.C17JetSchw
import AurelVerif.Lemmas.Solutions
import AurelVerif.Spec.MetricJet
import AurelVerif.Lemmas.C17DerivTac

set_option linter.unusedVariables false
set_option linter.unusedTactic false
set_option linter.unreachableTactic false
set_option linter.unusedSimpArgs false

namespace AurelVerif.C17Ein
open AurelVerif.Gen.Solutions AurelVerif.SolutionsLemmas AurelVerif.Spec.Jet4 AurelVerif.Spec.Curvature
open AurelVerif.C17JetTac AurelVerif.C17Jet AurelVerif.C17DerivTac

/-! ## Schwarzschild_isotropic -/

/-- the domain: away from the coordinate singularity `r = 0` and from the horizon `2r = M` (where the
lapse vanishes and `g` is not invertible). -/
def Schwarzschild_domain (t x y z : ℝ) : Prop :=
  x ^ 2 + y ^ 2 + z ^ 2 ≠ 0 ∧ 2 * Real.sqrt (x ^ 2 + y ^ 2 + z ^ 2) - Schwarzschild_isotropic.M ≠ 0

/-- the jet: the family of Lemmas/C17JetSchw.lean at `r = √(x²+y²+z²)`, `M` = the module's `M`. -/
noncomputable def Schwarzschild_jet (t x y z : ℝ) : Jet2 ℝ :=
  Schw.jet x y z (Real.sqrt (x ^ 2 + y ^ 2 + z ^ 2)) Schwarzschild_isotropic.M

theorem Schwarzschild_gdown4_closed (t x y z : ℝ) : Schwarzschild_isotropic.gdown4_num t x y z =
    ![![-(((2 * Real.sqrt (x ^ 2 + y ^ 2 + z ^ 2) - Schwarzschild_isotropic.M) / (2 * Real.sqrt (x ^ 2 + y ^ 2 + z ^ 2) + Schwarzschild_isotropic.M)) ^ 2), 0, 0, 0],
      ![0, (1 + Schwarzschild_isotropic.M / (2 * Real.sqrt (x ^ 2 + y ^ 2 + z ^ 2))) ^ 4, 0, 0],
      ![0, 0, (1 + Schwarzschild_isotropic.M / (2 * Real.sqrt (x ^ 2 + y ^ 2 + z ^ 2))) ^ 4, 0],
      ![0, 0, 0, (1 + Schwarzschild_isotropic.M / (2 * Real.sqrt (x ^ 2 + y ^ 2 + z ^ 2))) ^ 4]] := by
  refine funext4 ?_ ?_ ?_ ?_ <;> refine funext4 ?_ ?_ ?_ ?_ <;>
    simp [Schwarzschild_isotropic.gdown4_num, Schwarzschild_isotropic.gdown4_num_00, Schwarzschild_isotropic.gdown4_num_01, Schwarzschild_isotropic.gdown4_num_02, Schwarzschild_isotropic.gdown4_num_03, Schwarzschild_isotropic.gdown4_num_10, Schwarzschild_isotropic.gdown4_num_11, Schwarzschild_isotropic.gdown4_num_12, Schwarzschild_isotropic.gdown4_num_13, Schwarzschild_isotropic.gdown4_num_20, Schwarzschild_isotropic.gdown4_num_21, Schwarzschild_isotropic.gdown4_num_22, Schwarzschild_isotropic.gdown4_num_23, Schwarzschild_isotropic.gdown4_num_30, Schwarzschild_isotropic.gdown4_num_31, Schwarzschild_isotropic.gdown4_num_32, Schwarzschild_isotropic.gdown4_num_33, Schwarzschild_isotropic.gammadown3_num, Schwarzschild_isotropic.gammadown3_num_00, Schwarzschild_isotropic.gammadown3_num_01, Schwarzschild_isotropic.gammadown3_num_02, Schwarzschild_isotropic.gammadown3_num_10, Schwarzschild_isotropic.gammadown3_num_11, Schwarzschild_isotropic.gammadown3_num_12, Schwarzschild_isotropic.gammadown3_num_20, Schwarzschild_isotropic.gammadown3_num_21, Schwarzschild_isotropic.gammadown3_num_22, Schwarzschild_isotropic.alpha_num]

theorem Schwarzschild_M_pos : 0 < Schwarzschild_isotropic.M := by
  unfold Schwarzschild_isotropic.M; norm_num

theorem Schwarzschild_r_pos (t x y z : ℝ) (hD : Schwarzschild_domain t x y z) : 0 < Real.sqrt (x ^ 2 + y ^ 2 + z ^ 2) := by
  have hnn : 0 ≤ x ^ 2 + y ^ 2 + z ^ 2 := by positivity
  exact Real.sqrt_pos.mpr (lt_of_le_of_ne hnn (Ne.symm hD.1))

theorem Schwarzschild_facts (t x y z : ℝ) (hD : Schwarzschild_domain t x y z) :
    Real.sqrt (x ^ 2 + y ^ 2 + z ^ 2) ≠ 0 ∧ Schwarzschild_isotropic.M + 2 * Real.sqrt (x ^ 2 + y ^ 2 + z ^ 2) ≠ 0 ∧ -Schwarzschild_isotropic.M + 2 * Real.sqrt (x ^ 2 + y ^ 2 + z ^ 2) ≠ 0 ∧
    Real.sqrt (x ^ 2 + y ^ 2 + z ^ 2) ^ 2 = x ^ 2 + y ^ 2 + z ^ 2 := by
  have hM := Schwarzschild_M_pos
  have hnn : 0 ≤ x ^ 2 + y ^ 2 + z ^ 2 := by positivity
  have hpos : 0 < x ^ 2 + y ^ 2 + z ^ 2 := lt_of_le_of_ne hnn (Ne.symm hD.1)
  have hr := Real.sqrt_pos.mpr hpos
  refine ⟨hr.ne', by positivity, ?_, Real.sq_sqrt hnn⟩
  intro h; apply hD.2; linarith

set_option maxHeartbeats 1000000 in
theorem Schwarzschild_d1 (t x y z : ℝ) (hD : (Schwarzschild_domain) t x y z) (c a b : Fin 4) :
    HasPartialAt (fun t x y z => Schwarzschild_isotropic.gdown4_num t x y z a b) c ((Schwarzschild_jet t x y z).dg c a b) t x y z := by
  obtain ⟨h0, h1, h2, hrel⟩ := Schwarzschild_facts t x y z hD
  have hq := hD.1
  have hM := Schwarzschild_M_pos
  have hr := Schwarzschild_r_pos t x y z hD
  have h1' : 2 * Real.sqrt (x ^ 2 + y ^ 2 + z ^ 2) + Schwarzschild_isotropic.M ≠ 0 := by rwa [add_comm]
  revert c a b
  refine forall4 ?_ ?_ ?_ ?_ <;> refine forall4 ?_ ?_ ?_ ?_ <;> refine forall4 ?_ ?_ ?_ ?_ <;>
    first
    | exact hasDerivAt_const _ _
    | (simp only [hasPartialAt_zero, hasPartialAt_one, hasPartialAt_two, hasPartialAt_three, Schwarzschild_gdown4_closed, Schwarzschild_jet, Schw.jet, Matrix.cons_val_zero, Matrix.cons_val_one, Matrix.cons_val]
       first | exact hasDerivAt_const _ _ | hasderiv_auto)

set_option maxHeartbeats 1000000 in
theorem Schwarzschild_d2_0 (t x y z : ℝ) (hD : (Schwarzschild_domain) t x y z) (d a b : Fin 4) :
    HasPartialAt (fun t x y z => (Schwarzschild_jet t x y z).dg d a b) 0 ((Schwarzschild_jet t x y z).ddg 0 d a b) t x y z := by
  obtain ⟨h0, h1, h2, hrel⟩ := Schwarzschild_facts t x y z hD
  have hq := hD.1
  have hM := Schwarzschild_M_pos
  have hr := Schwarzschild_r_pos t x y z hD
  have h1' : 2 * Real.sqrt (x ^ 2 + y ^ 2 + z ^ 2) + Schwarzschild_isotropic.M ≠ 0 := by rwa [add_comm]
  revert d a b
  refine forall4 ?_ ?_ ?_ ?_ <;> refine forall4 ?_ ?_ ?_ ?_ <;> refine forall4 ?_ ?_ ?_ ?_ <;>
    first
    | exact hasDerivAt_const _ _
    | (simp only [hasPartialAt_zero, hasPartialAt_one, hasPartialAt_two, hasPartialAt_three, Schwarzschild_jet, Schw.jet, Matrix.cons_val_zero, Matrix.cons_val_one, Matrix.cons_val]
       first | exact hasDerivAt_const _ _ | hasderiv_auto)

set_option maxHeartbeats 1000000 in
theorem Schwarzschild_d2_1 (t x y z : ℝ) (hD : (Schwarzschild_domain) t x y z) (d a b : Fin 4) :
    HasPartialAt (fun t x y z => (Schwarzschild_jet t x y z).dg d a b) 1 ((Schwarzschild_jet t x y z).ddg 1 d a b) t x y z := by
  obtain ⟨h0, h1, h2, hrel⟩ := Schwarzschild_facts t x y z hD
  have hq := hD.1
  have hM := Schwarzschild_M_pos
  have hr := Schwarzschild_r_pos t x y z hD
  have h1' : 2 * Real.sqrt (x ^ 2 + y ^ 2 + z ^ 2) + Schwarzschild_isotropic.M ≠ 0 := by rwa [add_comm]
  revert d a b
  refine forall4 ?_ ?_ ?_ ?_ <;> refine forall4 ?_ ?_ ?_ ?_ <;> refine forall4 ?_ ?_ ?_ ?_ <;>
    first
    | exact hasDerivAt_const _ _
    | (simp only [hasPartialAt_zero, hasPartialAt_one, hasPartialAt_two, hasPartialAt_three, Schwarzschild_jet, Schw.jet, Matrix.cons_val_zero, Matrix.cons_val_one, Matrix.cons_val]
       first | exact hasDerivAt_const _ _ | hasderiv_auto)

set_option maxHeartbeats 1000000 in
theorem Schwarzschild_d2_2 (t x y z : ℝ) (hD : (Schwarzschild_domain) t x y z) (d a b : Fin 4) :
    HasPartialAt (fun t x y z => (Schwarzschild_jet t x y z).dg d a b) 2 ((Schwarzschild_jet t x y z).ddg 2 d a b) t x y z := by
  obtain ⟨h0, h1, h2, hrel⟩ := Schwarzschild_facts t x y z hD
  have hq := hD.1
  have hM := Schwarzschild_M_pos
  have hr := Schwarzschild_r_pos t x y z hD
  have h1' : 2 * Real.sqrt (x ^ 2 + y ^ 2 + z ^ 2) + Schwarzschild_isotropic.M ≠ 0 := by rwa [add_comm]
  revert d a b
  refine forall4 ?_ ?_ ?_ ?_ <;> refine forall4 ?_ ?_ ?_ ?_ <;> refine forall4 ?_ ?_ ?_ ?_ <;>
    first
    | exact hasDerivAt_const _ _
    | (simp only [hasPartialAt_zero, hasPartialAt_one, hasPartialAt_two, hasPartialAt_three, Schwarzschild_jet, Schw.jet, Matrix.cons_val_zero, Matrix.cons_val_one, Matrix.cons_val]
       first | exact hasDerivAt_const _ _ | hasderiv_auto)

set_option maxHeartbeats 1000000 in
theorem Schwarzschild_d2_3 (t x y z : ℝ) (hD : (Schwarzschild_domain) t x y z) (d a b : Fin 4) :
    HasPartialAt (fun t x y z => (Schwarzschild_jet t x y z).dg d a b) 3 ((Schwarzschild_jet t x y z).ddg 3 d a b) t x y z := by
  obtain ⟨h0, h1, h2, hrel⟩ := Schwarzschild_facts t x y z hD
  have hq := hD.1
  have hM := Schwarzschild_M_pos
  have hr := Schwarzschild_r_pos t x y z hD
  have h1' : 2 * Real.sqrt (x ^ 2 + y ^ 2 + z ^ 2) + Schwarzschild_isotropic.M ≠ 0 := by rwa [add_comm]
  revert d a b
  refine forall4 ?_ ?_ ?_ ?_ <;> refine forall4 ?_ ?_ ?_ ?_ <;> refine forall4 ?_ ?_ ?_ ?_ <;>
    first
    | exact hasDerivAt_const _ _
    | (simp only [hasPartialAt_zero, hasPartialAt_one, hasPartialAt_two, hasPartialAt_three, Schwarzschild_jet, Schw.jet, Matrix.cons_val_zero, Matrix.cons_val_one, Matrix.cons_val]
       first | exact hasDerivAt_const _ _ | hasderiv_auto)

theorem Schwarzschild_isJetField : IsJetField (Schwarzschild_domain) Schwarzschild_isotropic.gdown4_num Schwarzschild_jet where
  g_eq := by
    intro t x y z hD
    rw [Schwarzschild_gdown4_closed]
    have hM := Schwarzschild_M_pos
    have hr := Schwarzschild_r_pos t x y z hD
    refine funext4 ?_ ?_ ?_ ?_ <;> refine funext4 ?_ ?_ ?_ ?_ <;>
      (simp only [Schwarzschild_jet, Schw.jet, Matrix.cons_val_zero, Matrix.cons_val_one, Matrix.cons_val]
       try first | rfl | ring1 | (field_simp; ring1))
  inverse := by
    intro t x y z hD
    obtain ⟨h0, h1, h2, hrel⟩ := Schwarzschild_facts t x y z hD
    have hq := hD.1
    have hM := Schwarzschild_M_pos
    have hr := Schwarzschild_r_pos t x y z hD
    have h1' : 2 * Real.sqrt (x ^ 2 + y ^ 2 + z ^ 2) + Schwarzschild_isotropic.M ≠ 0 := by rwa [add_comm]
    exact Schw.jet_inverse _ _ _ _ _ h0 h1 h2
  d1 := fun t x y z hD c a b => Schwarzschild_d1 t x y z hD c a b
  d2 := fun t x y z hD => forall4 (Schwarzschild_d2_0 t x y z hD) (Schwarzschild_d2_1 t x y z hD) (Schwarzschild_d2_2 t x y z hD) (Schwarzschild_d2_3 t x y z hD)

/-- Schwarzschild_isotropic: all ten vacuum Einstein equations, `G_ab = κ T_ab` with the module's
`Tdown4 = 0` and `kappa`. -/
theorem Schwarzschild_einstein (t x y z : ℝ) (hD : Schwarzschild_domain t x y z) :
    (Schwarzschild_jet t x y z).SolvesEinstein 0 Schwarzschild_isotropic.kappa
      (Schwarzschild_isotropic.Tdown4 t x y z) := by
  obtain ⟨h0, h1, h2, hrel⟩ := Schwarzschild_facts t x y z hD
  unfold Jet2.SolvesEinstein Schwarzschild_jet
  rw [Schw.Einstein_vacuum _ _ _ _ _ h0 h1 h2 hrel]
  refine forall4 ?_ ?_ ?_ ?_ <;> refine forall4 ?_ ?_ ?_ ?_ <;>
    (simp only [Schw.jet, Schwarzschild_isotropic.Tdown4, Schwarzschild_isotropic.Tdown4_00, Schwarzschild_isotropic.Tdown4_01, Schwarzschild_isotropic.Tdown4_02, Schwarzschild_isotropic.Tdown4_03, Schwarzschild_isotropic.Tdown4_10, Schwarzschild_isotropic.Tdown4_11, Schwarzschild_isotropic.Tdown4_12, Schwarzschild_isotropic.Tdown4_13, Schwarzschild_isotropic.Tdown4_20, Schwarzschild_isotropic.Tdown4_21, Schwarzschild_isotropic.Tdown4_22, Schwarzschild_isotropic.Tdown4_23, Schwarzschild_isotropic.Tdown4_30, Schwarzschild_isotropic.Tdown4_31, Schwarzschild_isotropic.Tdown4_32, Schwarzschild_isotropic.Tdown4_33, Matrix.cons_val_zero, Matrix.cons_val_one, Matrix.cons_val]; ring1)

theorem Schwarzschild_ricci_flat (t x y z : ℝ) (hD : Schwarzschild_domain t x y z) :
    (Schwarzschild_jet t x y z).Ric = fun _ _ => 0 := by
  obtain ⟨h0, h1, h2, hrel⟩ := Schwarzschild_facts t x y z hD
  exact Schw.Ric_vacuum _ _ _ _ _ h0 h1 h2 hrel

/-- the closed form `Kretschmann(t,x,y,z) = 12 (2M)² / (r (1+M/2r)²)⁶` shipped with the module is
the Kretschmann scalar of the module's metric. -/
theorem Schwarzschild_kretschmann (t x y z : ℝ) (hD : Schwarzschild_domain t x y z) :
    (Schwarzschild_jet t x y z).Kretschmann = Schwarzschild_isotropic.Kretschmann t x y z := by
  obtain ⟨h0, h1, h2, hrel⟩ := Schwarzschild_facts t x y z hD
  unfold Schwarzschild_jet
  rw [Schw.Kretschmann_closed _ _ _ _ _ h0 h1 h2 hrel]
  unfold Schwarzschild_isotropic.Kretschmann
  field_simp
  ring1

/-- `null_ray_exp_out` is the divergence `D_i s^i = (1/√γ) ∂_i(√γ s^i)` of the unit outward normal
`s^i = x^i/(r √γ_xx)` of the coordinate spheres in the module's conformally flat spatial metric
(`√γ = γ_xx^{3/2}`, so `√γ s^i = γ_xx x^i / r`); on the time-symmetric slice (`Kdown3 = 0`) this is the
expansion of the outgoing null rays. -/
theorem Schwarzschild_null_expansion (t x y z : ℝ) (hq : x ^ 2 + y ^ 2 + z ^ 2 ≠ 0) :
    ∃ vx vy vz : ℝ,
      HasDerivAt (fun s => Schwarzschild_isotropic.gammadown3_num_00 t s y z * s / Real.sqrt (s ^ 2 + y ^ 2 + z ^ 2)) vx x ∧
      HasDerivAt (fun s => Schwarzschild_isotropic.gammadown3_num_00 t x s z * s / Real.sqrt (x ^ 2 + s ^ 2 + z ^ 2)) vy y ∧
      HasDerivAt (fun s => Schwarzschild_isotropic.gammadown3_num_00 t x y s * s / Real.sqrt (x ^ 2 + y ^ 2 + s ^ 2)) vz z ∧
      (vx + vy + vz) / Schwarzschild_isotropic.gammadown3_num_00 t x y z ^ ((3:ℝ) / 2)
        = Schwarzschild_isotropic.null_ray_exp_out t x y z := by
  have hM := Schwarzschild_M_pos
  have hnn : 0 ≤ x ^ 2 + y ^ 2 + z ^ 2 := by positivity
  have hr : 0 < Real.sqrt (x ^ 2 + y ^ 2 + z ^ 2) := Real.sqrt_pos.mpr (lt_of_le_of_ne hnn (Ne.symm hq))
  have hrn := hr.ne'
  have hrel := Real.sq_sqrt hnn
  have hψ : 0 < 1 + Schwarzschild_isotropic.M / (2 * Real.sqrt (x ^ 2 + y ^ 2 + z ^ 2)) := by positivity
  have hpow : ((1 + Schwarzschild_isotropic.M / (2 * Real.sqrt (x ^ 2 + y ^ 2 + z ^ 2))) ^ 4) ^ ((3:ℝ) / 2)
      = (1 + Schwarzschild_isotropic.M / (2 * Real.sqrt (x ^ 2 + y ^ 2 + z ^ 2))) ^ 6 := by
    rw [← Real.rpow_natCast, ← Real.rpow_mul hψ.le, ← Real.rpow_natCast]; norm_num
  unfold Schwarzschild_isotropic.gammadown3_num_00 Schwarzschild_isotropic.null_ray_exp_out
  refine ⟨((1 + Schwarzschild_isotropic.M / (2 * Real.sqrt (x ^ 2 + y ^ 2 + z ^ 2))) ^ 4 / Real.sqrt (x ^ 2 + y ^ 2 + z ^ 2) - x ^ 2 * ((1 + Schwarzschild_isotropic.M / (2 * Real.sqrt (x ^ 2 + y ^ 2 + z ^ 2))) ^ 4 / Real.sqrt (x ^ 2 + y ^ 2 + z ^ 2) ^ 3 + 2 * Schwarzschild_isotropic.M * (1 + Schwarzschild_isotropic.M / (2 * Real.sqrt (x ^ 2 + y ^ 2 + z ^ 2))) ^ 3 / Real.sqrt (x ^ 2 + y ^ 2 + z ^ 2) ^ 4)), ((1 + Schwarzschild_isotropic.M / (2 * Real.sqrt (x ^ 2 + y ^ 2 + z ^ 2))) ^ 4 / Real.sqrt (x ^ 2 + y ^ 2 + z ^ 2) - y ^ 2 * ((1 + Schwarzschild_isotropic.M / (2 * Real.sqrt (x ^ 2 + y ^ 2 + z ^ 2))) ^ 4 / Real.sqrt (x ^ 2 + y ^ 2 + z ^ 2) ^ 3 + 2 * Schwarzschild_isotropic.M * (1 + Schwarzschild_isotropic.M / (2 * Real.sqrt (x ^ 2 + y ^ 2 + z ^ 2))) ^ 3 / Real.sqrt (x ^ 2 + y ^ 2 + z ^ 2) ^ 4)), ((1 + Schwarzschild_isotropic.M / (2 * Real.sqrt (x ^ 2 + y ^ 2 + z ^ 2))) ^ 4 / Real.sqrt (x ^ 2 + y ^ 2 + z ^ 2) - z ^ 2 * ((1 + Schwarzschild_isotropic.M / (2 * Real.sqrt (x ^ 2 + y ^ 2 + z ^ 2))) ^ 4 / Real.sqrt (x ^ 2 + y ^ 2 + z ^ 2) ^ 3 + 2 * Schwarzschild_isotropic.M * (1 + Schwarzschild_isotropic.M / (2 * Real.sqrt (x ^ 2 + y ^ 2 + z ^ 2))) ^ 3 / Real.sqrt (x ^ 2 + y ^ 2 + z ^ 2) ^ 4)), ?_, ?_, ?_, ?_⟩
  · hasderiv_auto
  · hasderiv_auto
  · hasderiv_auto
  · rw [hpow]
    generalize hrdef : Real.sqrt (x ^ 2 + y ^ 2 + z ^ 2) = r at *
    generalize Schwarzschild_isotropic.M = M at *
    have h2 : M + 2 * r ≠ 0 := by positivity
    have h3 : 2 * r + M ≠ 0 := by positivity
    field_simp
    linear_combination (64 * r ^ 4 + 256 * r ^ 3 * M + 288 * r ^ 2 * M ^ 2 + 128 * r * M ^ 3 + 20 * M ^ 4) * hrel
end AurelVerif.C17Ein
