/-
Lemmas/C20Spin0.lean — T3 for ALL l: at spin 0 the closed form of `maths.sYlm`
is the associated Legendre function of Spec/Harm.lean (Rodrigues formula,
Condon–Shortley phase) up to the recorded factor (−1)^m:

  (l+m)! · Σ_r C(l,r) C(l,r−m) (−1)^{l−r} c^{2r−m} sn^{2l−2r+m}
      = (−1)^{|m|} · l! · P_l^m(c² − sn²)        (sin θ = 2 c sn,  c² + sn² = 1)

for every l : ℕ and every m : ℤ with |m| ≤ l (`spin0_all`), and with the
normalisation over ℝ/ℂ (`spin0_is_standard_all`).  Replaces the table `l ≤ 4` of
Lemmas/HarmLegendre.lean.

Proof: Rodrigues + Leibniz on (x+1)^l (x−1)^l (Lemmas/C20Spin0Poly.lean),
x + 1 = 2c², x − 1 = −2sn²; the k-th Leibniz term is the r = k term of the
code's loop; m < 0 by `evalK_neg` (Lemmas/Harm.lean).
-/
import Mathlib.Algebra.BigOperators.Intervals
import Mathlib.Data.Nat.Choose.Basic
import Mathlib.Data.Nat.Factorial.Basic
import Mathlib.Tactic.FieldSimp
import Mathlib.Tactic.Ring
import Mathlib.Tactic.LinearCombination
import AurelVerif.Lemmas.HarmStd
import AurelVerif.Lemmas.C20Spin0Poly

namespace AurelVerif.HarmLemmas
open AurelVerif.Harm AurelVerif.HarmSpec Complex

/-! ### the code's loop as a `Finset` sum -/

theorem list_range_map_sum {M : Type} [AddCommMonoid M] (f : ℕ → M) (n : ℕ) :
    ((List.range n).map f).sum = ∑ i ∈ Finset.range n, f i := by
  induction n with
  | zero => simp
  | succ n ih =>
    rw [List.range_succ, List.map_append, List.sum_append, ih, Finset.sum_range_succ]
    simp

theorem negOnePow_natCast (n : ℕ) : negOnePow (n : ℤ) = (-1) ^ n := by
  induction n with
  | zero => rfl
  | succ n ih =>
    rw [Nat.cast_succ, negOnePow_add, ih, pow_succ]
    rfl

/-- the closed-form sum of `sYlm(0, l, μ, ·, 0)`, `0 ≤ μ ≤ l`, with `r = μ + j`. -/
theorem evalK_harm0 {K : Type} [Field K] (l μ : ℕ) (hμ : μ ≤ l) (c sn : K) :
    evalK (harmTerms 0 (l : ℤ) (μ : ℤ)) c sn
      = ∑ j ∈ Finset.range (l + 1 - μ),
          (l.choose (μ + j) : K) * (l.choose j : K) * (-1) ^ (l - (μ + j))
            * c ^ (2 * j + μ) * sn ^ (2 * (l - (μ + j)) + μ) := by
  unfold evalK harmTerms rRange pyRange rLo rHi
  have e1 : max ((μ : ℤ) - 0) 0 = (μ : ℤ) := by omega
  have e2 : (min ((l : ℤ) + (μ : ℤ)) ((l : ℤ) - 0) + 1 - (μ : ℤ)).toNat = l + 1 - μ := by omega
  rw [e1, e2, List.map_map, List.map_map, list_range_map_sum]
  apply Finset.sum_congr rfl
  intro j hj
  rw [Finset.mem_range] at hj
  simp only [Function.comp, term]
  have a1 : (l : ℤ) - 0 = ((l : ℕ) : ℤ) := by omega
  have a2 : (l : ℤ) + 0 = ((l : ℕ) : ℤ) := by omega
  have a3 : (μ : ℤ) + (j : ℤ) = ((μ + j : ℕ) : ℤ) := by omega
  have a4 : ((μ + j : ℕ) : ℤ) + 0 - (μ : ℤ) = ((j : ℕ) : ℤ) := by omega
  have a5 : ((l : ℕ) : ℤ) - ((μ + j : ℕ) : ℤ) - 0 = ((l - (μ + j) : ℕ) : ℤ) := by omega
  have a6 : (2 * ((μ + j : ℕ) : ℤ) + 0 - (μ : ℤ)).toNat = 2 * j + μ := by omega
  have a7 : (2 * ((l : ℕ) : ℤ) - 2 * ((μ + j : ℕ) : ℤ) - 0 + (μ : ℤ)).toNat
      = 2 * (l - (μ + j)) + μ := by omega
  rw [a1, a2, a3, a4, a5, a6, a7, binomZ_nonneg, binomZ_nonneg, negOnePow_natCast]
  push_cast
  ring

/-! ### one Leibniz term = one loop term -/

/-- with `l = μ + j + i`, `r = k = μ + j`:
`(l+μ)! · C(l,r) C(l,r−μ) (−1)^{l−r} c^{2r−μ} sn^{2l−2r+μ}` is
`l! · (2 c sn)^μ / (2^l l!)` times the `k`-th Leibniz term at `x = c² − sn²`. -/
theorem spin0_term {K : Type} [Field K] [CharZero K] (c sn : K) (h : c ^ 2 + sn ^ 2 = 1)
    (μ j i : ℕ) :
    (((μ + j + i + μ).factorial : ℕ) : K)
        * (((μ + j + i).choose (μ + j) : K) * ((μ + j + i).choose j : K) * (-1) ^ i
            * c ^ (2 * j + μ) * sn ^ (2 * i + μ))
      = (((μ + j + i).factorial : ℕ) : K) * (2 * c * sn) ^ μ
          * (1 / ((2 : K) ^ (μ + j + i) * (((μ + j + i).factorial : ℕ) : K)))
          * (((μ + j + i + μ).choose (μ + j) : K)
              * ((((μ + j + i).descFactorial (μ + i) : ℕ) : K) * (c ^ 2 - sn ^ 2 + 1) ^ j
                * ((((μ + j + i).descFactorial (μ + j) : ℕ) : K) * (c ^ 2 - sn ^ 2 - 1) ^ i))) := by
  have hx1 : c ^ 2 - sn ^ 2 + 1 = 2 * c ^ 2 := by linear_combination (-1 : K) * h
  have hx2 : c ^ 2 - sn ^ 2 - 1 = -(2 * sn ^ 2) := by linear_combination h
  rw [hx1, hx2, neg_pow (2 * sn ^ 2) i]
  -- the factorials
  have pos : ∀ n : ℕ, ((n.factorial : ℕ) : K) ≠ 0 := fun n =>
    Nat.cast_ne_zero.mpr (Nat.factorial_ne_zero n)
  have hC1 : ((μ + j + i).choose (μ + j) : K)
      = ((μ + j + i).factorial : K) / (((μ + j).factorial : K) * (i.factorial : K)) := by
    have := Nat.choose_mul_factorial_mul_factorial (n := μ + j + i) (k := μ + j) (by omega)
    rw [show μ + j + i - (μ + j) = i by omega] at this
    rw [eq_div_iff (mul_ne_zero (pos _) (pos _))]
    exact_mod_cast (by rw [← this]; ring : (μ + j + i).choose (μ + j)
      * ((μ + j).factorial * i.factorial) = (μ + j + i).factorial)
  have hC2 : ((μ + j + i).choose j : K)
      = ((μ + j + i).factorial : K) / ((j.factorial : K) * ((μ + i).factorial : K)) := by
    have := Nat.choose_mul_factorial_mul_factorial (n := μ + j + i) (k := j) (by omega)
    rw [show μ + j + i - j = μ + i by omega] at this
    rw [eq_div_iff (mul_ne_zero (pos _) (pos _))]
    exact_mod_cast (by rw [← this]; ring : (μ + j + i).choose j
      * (j.factorial * (μ + i).factorial) = (μ + j + i).factorial)
  have hC3 : ((μ + j + i + μ).choose (μ + j) : K)
      = ((μ + j + i + μ).factorial : K) / (((μ + j).factorial : K) * ((μ + i).factorial : K)) := by
    have := Nat.choose_mul_factorial_mul_factorial (n := μ + j + i + μ) (k := μ + j) (by omega)
    rw [show μ + j + i + μ - (μ + j) = μ + i by omega] at this
    rw [eq_div_iff (mul_ne_zero (pos _) (pos _))]
    exact_mod_cast (by rw [← this]; ring : (μ + j + i + μ).choose (μ + j)
      * ((μ + j).factorial * (μ + i).factorial) = (μ + j + i + μ).factorial)
  have hD1 : (((μ + j + i).descFactorial (μ + i) : ℕ) : K)
      = ((μ + j + i).factorial : K) / (j.factorial : K) := by
    have := Nat.factorial_mul_descFactorial (n := μ + j + i) (k := μ + i) (by omega)
    rw [show μ + j + i - (μ + i) = j by omega] at this
    rw [eq_div_iff (pos _)]
    exact_mod_cast (by rw [← this]; ring : (μ + j + i).descFactorial (μ + i) * j.factorial
      = (μ + j + i).factorial)
  have hD2 : (((μ + j + i).descFactorial (μ + j) : ℕ) : K)
      = ((μ + j + i).factorial : K) / (i.factorial : K) := by
    have := Nat.factorial_mul_descFactorial (n := μ + j + i) (k := μ + j) (by omega)
    rw [show μ + j + i - (μ + j) = i by omega] at this
    rw [eq_div_iff (pos _)]
    exact_mod_cast (by rw [← this]; ring : (μ + j + i).descFactorial (μ + j) * i.factorial
      = (μ + j + i).factorial)
  rw [hC1, hC2, hC3, hD1, hD2]
  have p1 := pos (μ + j + i); have p2 := pos (μ + j); have p3 := pos i; have p4 := pos j
  have p5 := pos (μ + i); have p6 := pos (μ + j + i + μ)
  have h2 : (2 : K) ≠ 0 := two_ne_zero
  field_simp
  ring

/-! ### the Leibniz sum has no terms outside the loop range -/

theorem leibniz_sum_restrict {K : Type} [Field K] (l μ : ℕ) (hμ : μ ≤ l) (x : K) :
    ∑ k ∈ Finset.range (l + μ + 1),
        ((l + μ).choose k : K)
          * (((l.descFactorial (l + μ - k) : ℕ) : K) * (x + 1) ^ (l - (l + μ - k))
            * (((l.descFactorial k : ℕ) : K) * (x - 1) ^ (l - k)))
      = ∑ j ∈ Finset.range (l + 1 - μ),
        ((l + μ).choose (μ + j) : K)
          * (((l.descFactorial (l + μ - (μ + j)) : ℕ) : K) * (x + 1) ^ (l - (l + μ - (μ + j)))
            * (((l.descFactorial (μ + j) : ℕ) : K) * (x - 1) ^ (l - (μ + j)))) := by
  have hsplit : l + μ + 1 = μ + ((l + 1 - μ) + μ) := by omega
  rw [hsplit, Finset.sum_range_add, Finset.sum_range_add]
  have z1 : ∑ k ∈ Finset.range μ,
        ((l + μ).choose k : K)
          * (((l.descFactorial (l + μ - k) : ℕ) : K) * (x + 1) ^ (l - (l + μ - k))
            * (((l.descFactorial k : ℕ) : K) * (x - 1) ^ (l - k))) = 0 := by
    apply Finset.sum_eq_zero
    intro k hk
    rw [Finset.mem_range] at hk
    have : l.descFactorial (l + μ - k) = 0 := Nat.descFactorial_eq_zero_iff_lt.mpr (by omega)
    simp [this]
  have z3 : ∑ k ∈ Finset.range μ,
        ((l + μ).choose (μ + (l + 1 - μ + k)) : K)
          * (((l.descFactorial (l + μ - (μ + (l + 1 - μ + k))) : ℕ) : K)
              * (x + 1) ^ (l - (l + μ - (μ + (l + 1 - μ + k))))
            * (((l.descFactorial (μ + (l + 1 - μ + k)) : ℕ) : K)
              * (x - 1) ^ (l - (μ + (l + 1 - μ + k))))) = 0 := by
    apply Finset.sum_eq_zero
    intro k _
    have : l.descFactorial (μ + (l + 1 - μ + k)) = 0 :=
      Nat.descFactorial_eq_zero_iff_lt.mpr (by omega)
    simp [this]
  rw [z1, z3, zero_add, add_zero]

/-! ### m ≥ 0 -/

theorem spin0_nonneg {K : Type} [Field K] [CharZero K] (c sn : K) (h : c ^ 2 + sn ^ 2 = 1)
    (l μ : ℕ) (hμ : μ ≤ l) : Spin0Id l (μ : ℤ) c sn := by
  unfold Spin0Id assocLegendre
  have e0 : ((l : ℤ) + (μ : ℤ)).toNat = l + μ := by omega
  have e1 : ((μ : ℤ)).natAbs = μ := Int.natAbs_natCast μ
  have e2 : ((μ : ℤ)).toNat = μ := Int.toNat_natCast μ
  rw [if_pos (Int.natCast_nonneg μ), e0, e1, e2, evalK_harm0 l μ hμ, peval_legendreDeriv,
    leibniz_sum_restrict l μ hμ]
  have key : ∀ j ∈ Finset.range (l + 1 - μ),
      (((l + μ).factorial : ℕ) : K)
        * ((l.choose (μ + j) : K) * (l.choose j : K) * (-1) ^ (l - (μ + j))
            * c ^ (2 * j + μ) * sn ^ (2 * (l - (μ + j)) + μ))
      = ((l.factorial : ℕ) : K) * (2 * c * sn) ^ μ
          * (1 / ((2 : K) ^ l * ((l.factorial : ℕ) : K)))
          * (((l + μ).choose (μ + j) : K)
            * (((l.descFactorial (l + μ - (μ + j)) : ℕ) : K)
                * (c ^ 2 - sn ^ 2 + 1) ^ (l - (l + μ - (μ + j)))
              * (((l.descFactorial (μ + j) : ℕ) : K)
                * (c ^ 2 - sn ^ 2 - 1) ^ (l - (μ + j))))) := by
    intro j hj
    rw [Finset.mem_range] at hj
    obtain ⟨i, rfl⟩ : ∃ i, l = μ + j + i := ⟨l - (μ + j), by omega⟩
    have s1 : μ + j + i - (μ + j) = i := by omega
    have s2 : μ + j + i + μ - (μ + j) = μ + i := by omega
    have s3 : μ + j + i - (μ + i) = j := by omega
    rw [s1, s2, s3]
    exact spin0_term c sn h μ j i
  have hsign : ((-1 : K) ^ μ) * ((-1 : K) ^ μ) = 1 := by
    rw [← mul_pow]; simp
  rw [Finset.mul_sum, Finset.sum_congr rfl key, ← Finset.mul_sum]
  linear_combination (-(((l.factorial : ℕ) : K) * (2 * c * sn) ^ μ
          * (1 / ((2 : K) ^ l * ((l.factorial : ℕ) : K)))
          * ∑ j ∈ Finset.range (l + 1 - μ), ((l + μ).choose (μ + j) : K)
            * (((l.descFactorial (l + μ - (μ + j)) : ℕ) : K)
                * (c ^ 2 - sn ^ 2 + 1) ^ (l - (l + μ - (μ + j)))
              * (((l.descFactorial (μ + j) : ℕ) : K)
                * (c ^ 2 - sn ^ 2 - 1) ^ (l - (μ + j)))))) * hsign

/-! ### m < 0: the (s, m) → (−s, −m) symmetry of the loop and the Spec's definition of `P_l^{−μ}` -/

theorem spin0_neg {K : Type} [Field K] [CharZero K] (c sn : K) (h : c ^ 2 + sn ^ 2 = 1)
    (l μ : ℕ) (hμ0 : 0 < μ) (hμ : μ ≤ l) : Spin0Id l (-(μ : ℤ)) c sn := by
  have T := spin0_nonneg c sn h l μ hμ
  unfold Spin0Id assocLegendre at T ⊢
  have e0 : ((l : ℤ) + (μ : ℤ)).toNat = l + μ := by omega
  have e1 : ((μ : ℤ)).natAbs = μ := Int.natAbs_natCast μ
  have e2 : ((μ : ℤ)).toNat = μ := Int.toNat_natCast μ
  rw [if_pos (Int.natCast_nonneg μ), e0, e1, e2] at T
  have f0 : ((l : ℤ) + -(μ : ℤ)).toNat = l - μ := by omega
  have f1 : (-(μ : ℤ)).natAbs = μ := by omega
  have f2 : (-(-(μ : ℤ))).toNat = μ := by omega
  have f3 : ¬ (0 ≤ -(μ : ℤ)) := by omega
  have hE := evalK_neg 0 (l : ℤ) (μ : ℤ) c sn
  rw [neg_zero, zero_add, negOnePow_natCast] at hE
  rw [if_neg f3, f0, f1, f2, hE, spec_factorial_eq, spec_factorial_eq]
  have pA : (((l + μ).factorial : ℕ) : K) ≠ 0 := Nat.cast_ne_zero.mpr (Nat.factorial_ne_zero _)
  have hEv : evalK (harmTerms 0 (l : ℤ) (μ : ℤ)) c sn
      = (-1) ^ μ * ((l.factorial : ℕ) : K)
          * ((-1) ^ μ * (2 * c * sn) ^ μ * peval (legendreDeriv l μ) (c ^ 2 - sn ^ 2))
          / (((l + μ).factorial : ℕ) : K) := by
    rw [eq_div_iff pA]; linear_combination T
  rw [hEv]
  push_cast
  ring

/-! ### all (l, m) -/

/-- **T3 for all l**: the spin-0 closed form of `maths.sYlm` is `(−1)^m` times the
textbook associated Legendre function (Rodrigues, Condon–Shortley phase). -/
theorem spin0_all {K : Type} [Field K] [CharZero K] (c sn : K) (h : c ^ 2 + sn ^ 2 = 1)
    (l : Nat) (m : Int) (hm : |m| ≤ (l : Int)) : Spin0Id l m c sn := by
  have hm' := abs_le.mp hm
  rcases le_or_gt 0 m with h0 | h0
  · obtain ⟨μ, rfl⟩ := Int.eq_ofNat_of_zero_le h0
    exact spin0_nonneg c sn h l μ (by omega)
  · obtain ⟨μ, hμ⟩ : ∃ μ : ℕ, m = -(μ : ℤ) := ⟨(-m).toNat, by omega⟩
    subst hμ
    exact spin0_neg c sn h l μ (by omega) (by omega)

/-- T3 with the normalisation over ℝ/ℂ, for all l: `maths.sYlm(0, l, m, θ, φ)` is
`(−1)^m` times the standard spherical harmonic `Y_lm`. -/
theorem spin0_is_standard_all (l : Nat) (m : Int) (hm : |m| ≤ (l : Int)) (θ φ : ℝ) :
    sYlmC 0 l m θ φ = (-1 : ℂ) ^ m.natAbs * stdYlm l m θ φ := by
  have h : Real.cos (θ / 2) ^ 2 + Real.sin (θ / 2) ^ 2 = 1 := Real.cos_sq_add_sin_sq (θ / 2)
  have hcos : Real.cos θ = Real.cos (θ / 2) ^ 2 - Real.sin (θ / 2) ^ 2 := by
    have := Real.cos_two_mul' (θ / 2)
    rwa [show 2 * (θ / 2) = θ by ring] at this
  have hsin : Real.sin θ = 2 * Real.cos (θ / 2) * Real.sin (θ / 2) := by
    have := Real.sin_two_mul (θ / 2)
    rw [show 2 * (θ / 2) = θ by ring] at this
    rw [this]; ring
  have T := spin0_all (K := ℝ) (Real.cos (θ / 2)) (Real.sin (θ / 2)) h l m hm
  unfold Spin0Id at T
  rw [← hcos, ← hsin] at T
  have hrad := normRadicand_eq 0 l m (by simp) hm
  simp only [add_zero, sub_zero, Int.toNat_natCast] at hrad
  set a : ℝ := ((((l : Int) + m).toNat.factorial : ℕ) : ℝ) with ha
  set b : ℝ := ((((l : Int) - m).toNat.factorial : ℕ) : ℝ) with hb
  set n : ℝ := ((l.factorial : ℕ) : ℝ) with hn
  have ha0 : 0 < a := by rw [ha]; exact_mod_cast Nat.factorial_pos _
  have hb0 : 0 < b := by rw [hb]; exact_mod_cast Nat.factorial_pos _
  have hn0 : 0 < n := by rw [hn]; exact_mod_cast Nat.factorial_pos _
  set F : ℝ := evalK (harmTerms 0 (l : Int) m) (Real.cos (θ / 2)) (Real.sin (θ / 2)) with hF
  set P : ℝ := assocLegendre l m (Real.cos θ) (Real.sin θ) with hP
  -- F = (−1)^m · (n / a) · P
  have hFP : F = (-1 : ℝ) ^ m.natAbs * (n / a) * P := by
    have : a * F = (-1 : ℝ) ^ m.natAbs * n * P := T
    field_simp
    linarith [this]
  -- √A · (n / a) = √B
  have hpi : 0 < Real.pi := Real.pi_pos
  have hA : (((normRadicand 0 (l : Int) m : ℚ)) : ℝ) / Real.pi
      = a * b * (2 * (l : ℝ) + 1) / (n * n * 4) / Real.pi := by
    rw [hrad]; push_cast; rfl
  have hsq : Real.sqrt ((((normRadicand 0 (l : Int) m : ℚ)) : ℝ) / Real.pi) * (n / a)
      = Real.sqrt ((2 * (l : ℝ) + 1) / (4 * Real.pi) * (b / a)) := by
    have hq : 0 ≤ n / a := le_of_lt (div_pos hn0 ha0)
    calc Real.sqrt ((((normRadicand 0 (l : Int) m : ℚ)) : ℝ) / Real.pi) * (n / a)
        = Real.sqrt ((((normRadicand 0 (l : Int) m : ℚ)) : ℝ) / Real.pi)
            * Real.sqrt ((n / a) ^ 2) := by
          rw [Real.sqrt_sq hq]
      _ = Real.sqrt ((((normRadicand 0 (l : Int) m : ℚ)) : ℝ) / Real.pi * (n / a) ^ 2) := by
          rw [Real.sqrt_mul' _ (sq_nonneg _)]
      _ = Real.sqrt ((2 * (l : ℝ) + 1) / (4 * Real.pi) * (b / a)) := by
          congr 1
          rw [hA]
          field_simp
  unfold sYlmC stdYlm
  rw [← hF, ← hP, ← hsq, hFP]
  push_cast
  ring

/-! ### non-vacuity: instances beyond the old table (l ≤ 4), with the numbers -/

/-- `l = 6, m = −3` at `c = 3/5, sn = 4/5` (θ = 2·atan(4/3)). -/
example : Spin0Id 6 (-3) (3 / 5 : ℚ) (4 / 5) :=
  spin0_all (3 / 5) (4 / 5) (by norm_num) 6 (-3) (by decide)

/-- the code's side of that instance (the executable model's loop)… -/
example : evalK (harmTerms 0 ((6 : ℕ) : ℤ) (-3)) (3 / 5 : ℚ) (4 / 5) = -8080128 / 48828125 := by
  rw [← sYlmPoly_eq]; decide +kernel

/-- …the Spec's side (Rodrigues formula evaluated by the list polynomials)… -/
example : assocLegendre 6 (-3) ((3 / 5 : ℚ) ^ 2 - (4 / 5) ^ 2) (2 * (3 / 5) * (4 / 5))
    = 336672 / 244140625 := by decide +kernel

/-- …and the identity between the two numbers: `3! · (−8080128/5^11) = (−1)^3 · 6! · 336672/5^12`. -/
example : (((((6 : ℕ) : ℤ) + (-3)).toNat.factorial : ℕ) : ℚ) * (-8080128 / 48828125)
    = (-1) ^ (-3 : ℤ).natAbs * (((6 : ℕ).factorial : ℕ) : ℚ) * (336672 / 244140625) := by
  rw [show (((6 : ℕ) : ℤ) + (-3)).toNat = 3 by decide, show (-3 : ℤ).natAbs = 3 by decide]
  norm_num [Nat.factorial]

/-- `l = 7, m = 5`. -/
example : Spin0Id 7 5 (3 / 5 : ℚ) (4 / 5) :=
  spin0_all (3 / 5) (4 / 5) (by norm_num) 7 5 (by decide)

example : evalK (harmTerms 0 ((7 : ℕ) : ℤ) 5) (3 / 5 : ℚ) (4 / 5) = 5225472 / 6103515625 := by
  rw [← sYlmPoly_eq]; decide +kernel

example : assocLegendre 7 5 ((3 / 5 : ℚ) ^ 2 - (4 / 5) ^ 2) (2 * (3 / 5) * (4 / 5))
    = -99325771776 / 1220703125 := by decide +kernel

example (θ φ : ℝ) : sYlmC 0 (6 : ℕ) (-3) θ φ = (-1 : ℂ) ^ 3 * stdYlm 6 (-3) θ φ :=
  spin0_is_standard_all 6 (-3) (by decide) θ φ

end AurelVerif.HarmLemmas
