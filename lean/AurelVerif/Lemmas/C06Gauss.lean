/-
Lemmas/C06Gauss.lean — the ALGEBRAIC half of "Einstein's equations ⇒ constraints":
contraction of the Gauss and Codazzi equations with the projector `γ^{μν} = g^{μν} + n^μ n^ν`.

  contracted Gauss   `γ^{jl}γ^{ik}(³R_ijkl + K_ikK_jl − K_ilK_jk) = 2 G_μν n^μ n^ν`
  contracted Codazzi `γ^{jb}(D_jK_ab − D_aK_jb) = −G_aν n^ν`

for ANY 4-index tensor `R4` antisymmetric in each index pair that satisfies the (uncontracted) Gauss / Codazzi
equations, `G` = Einstein tensor built from `R4` with the inverse metric `gup`.  Used: `g_μν n^μ n^ν = −1`,
`g_aν n^ν = 0` (spatial `a`), vanishing time row/column of `γ^{μν}`, `2 ≠ 0`.  NOT used: pair symmetry, Bianchi
identities, any derivative.  What is NOT proven anywhere: that the Riemann tensor of the 4-metric satisfies the
Gauss and Codazzi equations (differential geometry of the embedding; hypotheses `GaussEq`, `CodazziEq`).
-/
import AurelVerif.Lemmas.C06Deriv
import AurelVerif.Spec.GaussCodazzi

set_option linter.unusedSimpArgs false
set_option linter.unusedVariables false

namespace AurelVerif.C06Gauss
open AurelVerif.Tensor AurelVerif.CoreTac AurelVerif.C08 AurelVerif.Spec AurelVerif.Spec.GC

variable {K : Type} [Field K]

/-! ### sums -/

theorem sum4_swap {ι : Type} [Fintype ι] (f : ι → ι → ι → ι → K) :
    ∑ a, ∑ b, ∑ c, ∑ d, f a b c d = ∑ c, ∑ d, ∑ a, ∑ b, f a b c d := by
  calc ∑ a, ∑ b, ∑ c, ∑ d, f a b c d
      = ∑ a, ∑ c, ∑ b, ∑ d, f a b c d := Finset.sum_congr rfl fun a _ => Finset.sum_comm
    _ = ∑ c, ∑ a, ∑ b, ∑ d, f a b c d := Finset.sum_comm
    _ = ∑ c, ∑ a, ∑ d, ∑ b, f a b c d :=
        Finset.sum_congr rfl fun c _ => Finset.sum_congr rfl fun a _ => Finset.sum_comm
    _ = ∑ c, ∑ d, ∑ a, ∑ b, f a b c d := Finset.sum_congr rfl fun c _ => Finset.sum_comm

/-- `n^a n^b X_ab = 0` for antisymmetric `X` (characteristic ≠ 2). -/
theorem antisym_contract_zero {ι : Type} [Fintype ι] (X : ι → ι → K) (n : ι → K) (h2 : (2 : K) ≠ 0)
    (h : ∀ a b, X a b = -X b a) : ∑ a, ∑ b, n a * n b * X a b = 0 := by
  have hT : ∑ a, ∑ b, n a * n b * X a b = -∑ a, ∑ b, n a * n b * X a b := by
    calc ∑ a, ∑ b, n a * n b * X a b
        = ∑ b, ∑ a, n a * n b * X a b := Finset.sum_comm
      _ = ∑ b, ∑ a, -(n b * n a * X b a) :=
          Finset.sum_congr rfl fun b _ => Finset.sum_congr rfl fun a _ => by rw [h a b]; ring
      _ = -∑ a, ∑ b, n a * n b * X a b := by simp only [Finset.sum_neg_distrib]
  have h0 : 2 * ∑ a, ∑ b, n a * n b * X a b = 0 := by linear_combination hT
  exact (mul_eq_zero.mp h0).resolve_left h2

/-- a contraction with a 4-tensor whose time row and column vanish is the contraction of the spatial blocks. -/
theorem restrict2 (γ4 : Fin 4 → Fin 4 → K) (U : Fin 3 → Fin 3 → K)
    (hγ0 : ∀ μ, γ4 0 μ = 0 ∧ γ4 μ 0 = 0) (hγs : ∀ i j : Fin 3, γ4 i.succ j.succ = U i j) (F : Fin 4 → Fin 4 → K) :
    ∑ μ, ∑ ρ, γ4 μ ρ * F μ ρ = ∑ i, ∑ k, U i k * F i.succ k.succ := by
  rw [Fin.sum_univ_succ]
  have h0 : ∑ ρ, γ4 0 ρ * F 0 ρ = 0 := by simp only [(hγ0 _).1, zero_mul, Finset.sum_const_zero]
  rw [h0, zero_add]
  refine Finset.sum_congr rfl fun i _ => ?_
  rw [Fin.sum_univ_succ, (hγ0 _).2, zero_mul, zero_add]
  refine Finset.sum_congr rfl fun k _ => ?_
  rw [hγs]

/-! ### double contraction of an antisymmetric-pair tensor with `γ = g⁻¹ + n n` -/

/-- `γ^{νσ}γ^{μρ}R_μνρσ = R + 2 R_νσ n^ν n^σ` with `R_νσ = g^{μρ}R_μνρσ`, `R = g^{νσ}R_νσ`. -/
theorem double_contract {ι : Type} [Fintype ι] (R : ι → ι → ι → ι → K) (gup γ : ι → ι → K) (n : ι → K)
    (h2 : (2 : K) ≠ 0) (hproj : ∀ μ ν, γ μ ν = gup μ ν + n μ * n ν)
    (a12 : ∀ a b c d, R a b c d = -R b a c d) (a34 : ∀ a b c d, R a b c d = -R a b d c) :
    ∑ ν, ∑ σ, γ ν σ * ∑ μ, ∑ ρ, γ μ ρ * R μ ν ρ σ
      = (∑ ν, ∑ σ, gup ν σ * ∑ μ, ∑ ρ, gup μ ρ * R μ ν ρ σ)
        + 2 * ∑ ν, ∑ σ, (∑ μ, ∑ ρ, gup μ ρ * R μ ν ρ σ) * n ν * n σ := by
  have hP : ∀ ν σ, ∑ μ, ∑ ρ, γ μ ρ * R μ ν ρ σ
      = (∑ μ, ∑ ρ, gup μ ρ * R μ ν ρ σ) + ∑ μ, ∑ ρ, n μ * n ρ * R μ ν ρ σ := by
    intro ν σ; simp only [hproj, add_mul, Finset.sum_add_distrib]
  -- g⁻¹ contracted with the n-n part is Ricci(n, ·)
  have hA : ∑ ν, ∑ σ, gup ν σ * ∑ μ, ∑ ρ, n μ * n ρ * R μ ν ρ σ
      = ∑ ν, ∑ σ, (∑ μ, ∑ ρ, gup μ ρ * R μ ν ρ σ) * n ν * n σ := by
    calc ∑ ν, ∑ σ, gup ν σ * ∑ μ, ∑ ρ, n μ * n ρ * R μ ν ρ σ
        = ∑ ν, ∑ σ, ∑ μ, ∑ ρ, gup ν σ * (n μ * n ρ * R μ ν ρ σ) := by simp only [Finset.mul_sum]
      _ = ∑ μ, ∑ ρ, ∑ ν, ∑ σ, gup ν σ * (n μ * n ρ * R μ ν ρ σ) := sum4_swap _
      _ = ∑ μ, ∑ ρ, ∑ ν, ∑ σ, gup ν σ * R ν μ σ ρ * n μ * n ρ :=
          Finset.sum_congr rfl fun μ _ => Finset.sum_congr rfl fun ρ _ => Finset.sum_congr rfl fun ν _ =>
            Finset.sum_congr rfl fun σ _ => by rw [a12 μ ν ρ σ, a34 ν μ ρ σ]; ring
      _ = ∑ μ, ∑ ρ, (∑ ν, ∑ σ, gup ν σ * R ν μ σ ρ) * n μ * n ρ := by simp only [Finset.sum_mul]
  -- the n-n-n-n part vanishes
  have hX : ∀ μ ν, ∑ σ, ∑ ρ, n σ * n ρ * R μ ν ρ σ = 0 := fun μ ν =>
    antisym_contract_zero (fun σ ρ => R μ ν ρ σ) n h2 (fun a b => a34 μ ν b a)
  have hB : ∑ ν, ∑ σ, n ν * n σ * ∑ μ, ∑ ρ, n μ * n ρ * R μ ν ρ σ = 0 := by
    have : ∀ ν, ∑ σ, n ν * n σ * ∑ μ, ∑ ρ, n μ * n ρ * R μ ν ρ σ = 0 := by
      intro ν
      calc ∑ σ, n ν * n σ * ∑ μ, ∑ ρ, n μ * n ρ * R μ ν ρ σ
          = ∑ σ, ∑ μ, ∑ ρ, n ν * n μ * (n σ * n ρ * R μ ν ρ σ) := by
            simp only [Finset.mul_sum]
            exact Finset.sum_congr rfl fun σ _ => Finset.sum_congr rfl fun μ _ =>
              Finset.sum_congr rfl fun ρ _ => by ring
        _ = ∑ μ, ∑ σ, ∑ ρ, n ν * n μ * (n σ * n ρ * R μ ν ρ σ) := Finset.sum_comm
        _ = ∑ μ, n ν * n μ * ∑ σ, ∑ ρ, n σ * n ρ * R μ ν ρ σ := by simp only [Finset.mul_sum]
        _ = 0 := by simp only [hX, mul_zero, Finset.sum_const_zero]
    simp only [this, Finset.sum_const_zero]
  have expand : ∀ ν σ, (gup ν σ + n ν * n σ)
        * ((∑ μ, ∑ ρ, gup μ ρ * R μ ν ρ σ) + ∑ μ, ∑ ρ, n μ * n ρ * R μ ν ρ σ)
      = gup ν σ * (∑ μ, ∑ ρ, gup μ ρ * R μ ν ρ σ) + gup ν σ * (∑ μ, ∑ ρ, n μ * n ρ * R μ ν ρ σ)
        + (∑ μ, ∑ ρ, gup μ ρ * R μ ν ρ σ) * n ν * n σ + n ν * n σ * ∑ μ, ∑ ρ, n μ * n ρ * R μ ν ρ σ := by
    intro ν σ; ring
  simp only [hP]
  simp only [hproj, expand, Finset.sum_add_distrib]
  rw [hA, hB]
  ring

/-! ### contracted Gauss -/

/-- `G_μν n^μ n^ν = R_μν n^μ n^ν + ½ R` when `g_μν n^μ n^ν = −1`. -/
theorem einstein_nn (Ric g : Fin 4 → Fin 4 → K) (RS : K) (n : Fin 4 → K)
    (hunit : ADM.rhoN g n = -1) :
    ADM.rhoN (Curvature.einstein Ric RS g) n = (∑ a, ∑ b, Ric a b * n a * n b) + (1 / 2) * RS := by
  have h : ∀ a b, Curvature.einstein Ric RS g a b * n a * n b
      = Ric a b * n a * n b - (1 / 2) * RS * (g a b * n a * n b) := by
    intro a b; simp only [Curvature.einstein]; ring
  simp only [ADM.rhoN] at hunit ⊢
  simp only [h, Finset.sum_sub_distrib, ← Finset.mul_sum, hunit]
  ring

/-- **contracted Gauss equation**: `2 G_μν n^μ n^ν = γ^{jl}γ^{ik}(³R_ijkl + K_ikK_jl − K_ilK_jk)`. -/
theorem contracted_gauss (R4 : Fin 4 → Fin 4 → Fin 4 → Fin 4 → K) (gup g γ4 : Fin 4 → Fin 4 → K) (n : Fin 4 → K)
    (U Kd : Fin 3 → Fin 3 → K) (R3 : Fin 3 → Fin 3 → Fin 3 → Fin 3 → K) (h2 : (2 : K) ≠ 0)
    (a12 : ∀ a b c d, R4 a b c d = -R4 b a c d) (a34 : ∀ a b c d, R4 a b c d = -R4 a b d c)
    (hproj : ∀ μ ν, γ4 μ ν = gup μ ν + n μ * n ν)
    (hγ0 : ∀ μ, γ4 0 μ = 0 ∧ γ4 μ 0 = 0) (hγs : ∀ i j : Fin 3, γ4 i.succ j.succ = U i j)
    (hunit : ADM.rhoN g n = -1) (hG : GaussEq R4 R3 Kd) :
    2 * ADM.rhoN (einstein4 gup g R4) n
      = ∑ j, ∑ l, U j l * ∑ i, ∑ k, U i k * Curvature.gauss R3 Kd i j k l := by
  have hd := double_contract R4 gup γ4 n h2 hproj a12 a34
  have inner : ∀ ν σ, ∑ μ, ∑ ρ, γ4 μ ρ * R4 μ ν ρ σ = ∑ i, ∑ k, U i k * R4 i.succ ν k.succ σ :=
    fun ν σ => restrict2 γ4 U hγ0 hγs (fun μ ρ => R4 μ ν ρ σ)
  simp only [inner] at hd
  rw [restrict2 γ4 U hγ0 hγs (fun ν σ => ∑ i, ∑ k, U i k * R4 i.succ ν k.succ σ)] at hd
  simp only [hG _ _ _ _] at hd
  have hE : einstein4 gup g R4 = Curvature.einstein (ricci4 gup R4) (ricciS4 gup R4) g := rfl
  rw [hd, hE, einstein_nn _ _ _ _ hunit]
  simp only [ricciS4, Curvature.trace, ricci4]
  field_simp
  ring

/-- the K-part of the contracted Gauss equation: `γ^{jl}γ^{ik}(K_ikK_jl − K_ilK_jk) = K² − K_ijK^ij`. -/
theorem gauss_scalar (U Kd Ku : Fin 3 → Fin 3 → K) (R3 : Fin 3 → Fin 3 → Fin 3 → Fin 3 → K) (Ktr : K)
    (hsymU : Sym U) (hsymK : Sym Kd)
    (hKu : ∀ a b, Ku a b = ∑ i, ∑ j, U i a * U j b * Kd i j) (hKtr : Ktr = ∑ i, ∑ j, U i j * Kd i j) :
    ∑ j, ∑ l, U j l * ∑ i, ∑ k, U i k * Curvature.gauss R3 Kd i j k l
      = ricciS3 U R3 + Ktr ^ 2 - ∑ i, ∑ j, Kd i j * Ku i j := by
  have u01 := hsymU 1 0; have u02 := hsymU 2 0; have u12 := hsymU 2 1
  have k01 := hsymK 1 0; have k02 := hsymK 2 0; have k12 := hsymK 2 1
  simp only [ricciS3, Curvature.gauss, hKu, hKtr, Fin.sum_univ_three, u01, u02, u12, k01, k02, k12]
  ring

/-! ### contracted Codazzi -/

/-- **contracted Codazzi equation**: `G_aν n^ν = −γ^{jb}(D_jK_ab − D_aK_jb)` for spatial `a`. -/
theorem contracted_codazzi (R4 : Fin 4 → Fin 4 → Fin 4 → Fin 4 → K) (gup g γ4 : Fin 4 → Fin 4 → K) (n : Fin 4 → K)
    (U : Fin 3 → Fin 3 → K) (DK : Fin 3 → Fin 3 → Fin 3 → K) (h2 : (2 : K) ≠ 0)
    (a12 : ∀ a b c d, R4 a b c d = -R4 b a c d) (a34 : ∀ a b c d, R4 a b c d = -R4 a b d c)
    (hproj : ∀ μ ν, γ4 μ ν = gup μ ν + n μ * n ν)
    (hγ0 : ∀ μ, γ4 0 μ = 0 ∧ γ4 μ 0 = 0) (hγs : ∀ i j : Fin 3, γ4 i.succ j.succ = U i j)
    (hlow : ∀ a : Fin 3, ∑ ν, g a.succ ν * n ν = 0) (hC : CodazziEq R4 n DK) (a : Fin 3) :
    ∑ ν, einstein4 gup g R4 a.succ ν * n ν = -momLow U DK a := by
  -- left: only the Ricci part survives
  have hl : ∑ ν, einstein4 gup g R4 a.succ ν * n ν = ∑ ν, ricci4 gup R4 a.succ ν * n ν := by
    have h : ∀ ν, einstein4 gup g R4 a.succ ν * n ν
        = ricci4 gup R4 a.succ ν * n ν - (1 / 2) * ricciS4 gup R4 * (g a.succ ν * n ν) := by
      intro ν; simp only [einstein4, Curvature.einstein]; ring
    simp only [h, Finset.sum_sub_distrib, ← Finset.mul_sum, hlow a, mul_zero, sub_zero]
  -- right: Codazzi, then un-restrict to Fin 4 and split the projector
  have hr : momLow U DK a = ∑ μ, ∑ ρ, γ4 μ ρ * ∑ σ, R4 a.succ μ ρ σ * n σ := by
    rw [restrict2 γ4 U hγ0 hγs (fun μ ρ => ∑ σ, R4 a.succ μ ρ σ * n σ)]
    simp only [momLow, hC a _ _]
  have hN : ∑ μ, ∑ ρ, n μ * n ρ * ∑ σ, R4 a.succ μ ρ σ * n σ = 0 := by
    have hX : ∀ μ, ∑ ρ, ∑ σ, n ρ * n σ * R4 a.succ μ ρ σ = 0 := fun μ =>
      antisym_contract_zero (fun ρ σ => R4 a.succ μ ρ σ) n h2 (fun b c => a34 a.succ μ b c)
    have : ∀ μ, ∑ ρ, n μ * n ρ * ∑ σ, R4 a.succ μ ρ σ * n σ = 0 := by
      intro μ
      calc ∑ ρ, n μ * n ρ * ∑ σ, R4 a.succ μ ρ σ * n σ
          = ∑ ρ, ∑ σ, n μ * (n ρ * n σ * R4 a.succ μ ρ σ) := by
            simp only [Finset.mul_sum]
            exact Finset.sum_congr rfl fun ρ _ => Finset.sum_congr rfl fun σ _ => by ring
        _ = n μ * ∑ ρ, ∑ σ, n ρ * n σ * R4 a.succ μ ρ σ := by simp only [Finset.mul_sum]
        _ = 0 := by rw [hX μ, mul_zero]
    simp only [this, Finset.sum_const_zero]
  have hg : ∑ μ, ∑ ρ, gup μ ρ * ∑ σ, R4 a.succ μ ρ σ * n σ = -∑ σ, ricci4 gup R4 a.succ σ * n σ := by
    calc ∑ μ, ∑ ρ, gup μ ρ * ∑ σ, R4 a.succ μ ρ σ * n σ
        = ∑ μ, ∑ ρ, ∑ σ, -(gup μ ρ * R4 μ a.succ ρ σ * n σ) := by
          simp only [Finset.mul_sum]
          exact Finset.sum_congr rfl fun μ _ => Finset.sum_congr rfl fun ρ _ => Finset.sum_congr rfl fun σ _ => by
            rw [a12 a.succ μ ρ σ]; ring
      _ = ∑ μ, ∑ σ, ∑ ρ, -(gup μ ρ * R4 μ a.succ ρ σ * n σ) :=
          Finset.sum_congr rfl fun μ _ => Finset.sum_comm
      _ = ∑ σ, ∑ μ, ∑ ρ, -(gup μ ρ * R4 μ a.succ ρ σ * n σ) := Finset.sum_comm
      _ = -∑ σ, ricci4 gup R4 a.succ σ * n σ := by
          simp only [ricci4, Finset.sum_mul, Finset.sum_neg_distrib]
  have hsplit : ∑ μ, ∑ ρ, γ4 μ ρ * ∑ σ, R4 a.succ μ ρ σ * n σ
      = (∑ μ, ∑ ρ, gup μ ρ * ∑ σ, R4 a.succ μ ρ σ * n σ) + ∑ μ, ∑ ρ, n μ * n ρ * ∑ σ, R4 a.succ μ ρ σ * n σ := by
    simp only [hproj, add_mul, Finset.sum_add_distrib]
  rw [hl, hr, hsplit, hN, hg]
  ring

/-- the coordinate form of the Codazzi equation ([Sh] (2.41), `Spec.Curvature.codazzi`:
`R_ijkt = β^l R_ijkl + α(D_jK_ik − D_iK_jk)`) gives the normal form for `n^μ = (1/α, −β^i/α)`. -/
theorem codazzi_normal_of_coord (R4 : Fin 4 → Fin 4 → Fin 4 → Fin 4 → K) (n : Fin 4 → K) (α : K) (β : Fin 3 → K)
    (DK : Fin 3 → Fin 3 → Fin 3 → K) (hα : α ≠ 0) (hn0 : n 0 = 1 / α) (hns : ∀ i : Fin 3, n i.succ = -β i / α)
    (hC : ∀ i j k : Fin 3, R4 i.succ j.succ k.succ 0
        = Curvature.codazzi α β (fun i j k l => R4 i.succ j.succ k.succ l.succ) DK i j k) :
    CodazziEq R4 n DK := by
  intro i j k
  rw [Fin.sum_univ_succ, hC i j k]
  simp only [hn0, hns, Curvature.codazzi, Fin.sum_univ_three]
  field_simp
  ring

end AurelVerif.C06Gauss
