/-
Lemmas/C20QuadS2.lean — the spin actually used by `Psi4_lm` (s = −2): on the
code's grid the discrete squared norm of `₋₂Y₂₂` is strictly larger than 1 for
every `Ntheta ≥ 2`.

`₋₂Y₂₂ ∝ cos⁴(θ/2) e^{2iφ}`; `cos⁸(θ/2) sin θ` is the sine polynomial
`(1/16)(21/8 sin θ + 3 sin 2θ + 27/16 sin 3θ + 1/2 sin 4θ + 1/16 sin 5θ)`, the
midpoint rule over-estimates each odd mode (`midpoint_sin`, `one_lt_div_sin`) and
is exact on the even ones; the integral is `2/5`, the normalisation `5/2`.
-/
import AurelVerif.Lemmas.C20Quad

namespace AurelVerif.HarmLemmas
open AurelVerif.Harm AurelVerif.HarmGram Complex intervalIntegral
open scoped Real ComplexConjugate

/-- `sin(kθ) = sin θ · U_{k−1}(cos θ)` for `k = 2..5` -/
theorem sin_mul_forms (θ : ℝ) :
    Real.sin (2 * θ) = Real.sin θ * (2 * Real.cos θ)
    ∧ Real.sin (3 * θ) = Real.sin θ * (4 * Real.cos θ ^ 2 - 1)
    ∧ Real.sin (4 * θ) = Real.sin θ * (8 * Real.cos θ ^ 3 - 4 * Real.cos θ)
    ∧ Real.sin (5 * θ) = Real.sin θ * (16 * Real.cos θ ^ 4 - 12 * Real.cos θ ^ 2 + 1) := by
  have h := Real.sin_sq_add_cos_sq θ
  have s2 : Real.sin (2 * θ) = Real.sin θ * (2 * Real.cos θ) := by rw [Real.sin_two_mul]; ring
  have c2 : Real.cos (2 * θ) = 2 * Real.cos θ ^ 2 - 1 := Real.cos_two_mul θ
  have s3 : Real.sin (3 * θ) = Real.sin θ * (4 * Real.cos θ ^ 2 - 1) := by
    rw [Real.sin_three_mul]
    linear_combination (-4 * Real.sin θ) * h
  have c3 : Real.cos (3 * θ) = 4 * Real.cos θ ^ 3 - 3 * Real.cos θ := Real.cos_three_mul θ
  refine ⟨s2, s3, ?_, ?_⟩
  · rw [show 4 * θ = 3 * θ + θ by ring, Real.sin_add, s3, c3]
    ring
  · rw [show 5 * θ = 3 * θ + 2 * θ by ring, Real.sin_add, s3, c3, s2, c2]
    ring

/-- `cos⁸(θ/2) sin θ` as a sine polynomial -/
theorem cos_half_pow8_mul_sin (θ : ℝ) :
    Real.cos (θ / 2) ^ 8 * Real.sin θ
      = 1 / 16 * (21 / 8 * Real.sin (1 * θ) + 3 * Real.sin (2 * θ) + 27 / 16 * Real.sin (3 * θ)
          + 1 / 2 * Real.sin (4 * θ) + 1 / 16 * Real.sin (5 * θ)) := by
  obtain ⟨s2, s3, s4, s5⟩ := sin_mul_forms θ
  have hc : Real.cos (θ / 2) ^ 2 = (1 + Real.cos θ) / 2 := by
    have := Real.cos_sq (θ / 2)
    rw [show 2 * (θ / 2) = θ by ring] at this
    rw [this]; ring
  have h8 : Real.cos (θ / 2) ^ 8 = ((1 + Real.cos θ) / 2) ^ 4 := by
    rw [← hc]; ring
  rw [h8, s2, s3, s4, s5, one_mul]
  ring

/-- the midpoint value of one sine mode, `0 < k < 2M` -/
theorem midpoint_sin_pt (N k : ℕ) (hk : 0 < k) (hk2 : k < 2 * (N + 1)) :
    ∑ j ∈ Finset.range (N + 1), Real.sin ((k : ℝ) * thetaPt N j) * (((dTheta N : ℚ) : ℝ) * π)
      = (1 - Real.cos ((k : ℝ) * π)) / k
        * (((k : ℝ) * π / (2 * ((N + 1 : ℕ) : ℝ))) / Real.sin ((k : ℝ) * π / (2 * ((N + 1 : ℕ) : ℝ)))) := by
  have hM : (0 : ℝ) < ((N + 1 : ℕ) : ℝ) := by positivity
  have hk' : (0 : ℝ) < (k : ℝ) := by exact_mod_cast hk
  have hu0 : 0 < (k : ℝ) * π / (2 * ((N + 1 : ℕ) : ℝ)) := by positivity
  have hu1 : (k : ℝ) * π / (2 * ((N + 1 : ℕ) : ℝ)) < π := by
    rw [div_lt_iff₀ (by positivity)]
    have : (k : ℝ) < 2 * ((N + 1 : ℕ) : ℝ) := by exact_mod_cast hk2
    nlinarith [Real.pi_pos]
  have hs : Real.sin ((k : ℝ) * π / (2 * ((N + 1 : ℕ) : ℝ))) ≠ 0 :=
    ne_of_gt (Real.sin_pos_of_pos_of_lt_pi hu0 hu1)
  have hdt : (((dTheta N : ℚ) : ℝ) * π) = π / ((N + 1 : ℕ) : ℝ) := by
    rw [dTheta_eq]; push_cast; ring
  have key := midpoint_sin (N + 1) k (Nat.succ_pos N) hs
  have e : ∀ j : ℕ, Real.sin ((k : ℝ) * thetaPt N j) * (((dTheta N : ℚ) : ℝ) * π)
      = Real.sin ((k : ℝ) * (((j : ℝ) + 1 / 2) * π / ((N + 1 : ℕ) : ℝ))) * (π / ((N + 1 : ℕ) : ℝ)) := by
    intro j; rw [hdt, thetaPt_eq]
  simp only [e]
  rw [key]
  field_simp

/-- the θ midpoint sum of `cos⁸(θ/2) sin θ` exceeds its integral `2/5` (`Ntheta ≥ 2`). -/
theorem thetaMid_S2_22_gt (N : ℕ) (hN : 2 ≤ N) : 2 / 5 < thetaMid (-2) N 2 2 2 := by
  have hT : harmTerms (-2) 2 2 = [⟨1, 4, 0⟩] := by decide +kernel
  have hE : ∀ c sn : ℝ, evalK [(⟨1, 4, 0⟩ : Term)] c sn = c ^ 4 := by
    intro c sn; simp [evalK]
  unfold thetaMid
  rw [hT]
  simp only [hE]
  have hterm : ∀ j : ℕ, Real.cos (thetaPt N j / 2) ^ 4 * Real.cos (thetaPt N j / 2) ^ 4
        * (Real.sin (thetaPt N j) * (((dTheta N : ℚ) : ℝ) * π))
      = 1 / 16 * (21 / 8 * (Real.sin (((1 : ℕ) : ℝ) * thetaPt N j) * (((dTheta N : ℚ) : ℝ) * π))
          + 3 * (Real.sin (((2 : ℕ) : ℝ) * thetaPt N j) * (((dTheta N : ℚ) : ℝ) * π))
          + 27 / 16 * (Real.sin (((3 : ℕ) : ℝ) * thetaPt N j) * (((dTheta N : ℚ) : ℝ) * π))
          + 1 / 2 * (Real.sin (((4 : ℕ) : ℝ) * thetaPt N j) * (((dTheta N : ℚ) : ℝ) * π))
          + 1 / 16 * (Real.sin (((5 : ℕ) : ℝ) * thetaPt N j) * (((dTheta N : ℚ) : ℝ) * π))) := by
    intro j
    have := cos_half_pow8_mul_sin (thetaPt N j)
    push_cast
    linear_combination ((((dTheta N : ℚ) : ℝ) * π)) * this
  simp only [hterm]
  rw [← Finset.mul_sum]
  simp only [Finset.sum_add_distrib, ← Finset.mul_sum]
  rw [midpoint_sin_pt N 1 (by norm_num) (by omega), midpoint_sin_pt N 2 (by norm_num) (by omega),
    midpoint_sin_pt N 3 (by norm_num) (by omega), midpoint_sin_pt N 4 (by norm_num) (by omega),
    midpoint_sin_pt N 5 (by norm_num) (by omega)]
  have hM : (0 : ℝ) < ((N + 1 : ℕ) : ℝ) := by positivity
  have hM3 : (3 : ℝ) ≤ ((N + 1 : ℕ) : ℝ) := by exact_mod_cast (by omega : 3 ≤ N + 1)
  have rho : ∀ k : ℕ, 0 < k → k ≤ 5 →
      1 < ((k : ℝ) * π / (2 * ((N + 1 : ℕ) : ℝ))) / Real.sin ((k : ℝ) * π / (2 * ((N + 1 : ℕ) : ℝ))) := by
    intro k hk hk5
    have hk' : (0 : ℝ) < (k : ℝ) := by exact_mod_cast hk
    have hk5' : (k : ℝ) ≤ 5 := by exact_mod_cast hk5
    apply one_lt_div_sin
    · positivity
    · rw [div_lt_iff₀ (by positivity)]
      nlinarith [Real.pi_pos]
  have r1 := rho 1 (by norm_num) (by norm_num)
  have r3 := rho 3 (by norm_num) (by norm_num)
  have r5 := rho 5 (by norm_num) (by norm_num)
  have c1 : Real.cos (((1 : ℕ) : ℝ) * π) = -1 := by simp
  have c2 : Real.cos (((2 : ℕ) : ℝ) * π) = 1 := by
    have := Real.cos_nat_mul_two_pi 1
    rw [show ((2 : ℕ) : ℝ) * π = ((1 : ℕ) : ℝ) * (2 * π) by push_cast; ring]; exact this
  have c3 : Real.cos (((3 : ℕ) : ℝ) * π) = -1 := by
    have := Real.cos_nat_mul_two_pi_add_pi 1
    rw [show ((3 : ℕ) : ℝ) * π = ((1 : ℕ) : ℝ) * (2 * π) + π by push_cast; ring]; exact this
  have c4 : Real.cos (((4 : ℕ) : ℝ) * π) = 1 := by
    have := Real.cos_nat_mul_two_pi 2
    rw [show ((4 : ℕ) : ℝ) * π = ((2 : ℕ) : ℝ) * (2 * π) by push_cast; ring]; exact this
  have c5 : Real.cos (((5 : ℕ) : ℝ) * π) = -1 := by
    have := Real.cos_nat_mul_two_pi_add_pi 2
    rw [show ((5 : ℕ) : ℝ) * π = ((2 : ℕ) : ℝ) * (2 * π) + π by push_cast; ring]; exact this
  rw [c1, c2, c3, c4, c5]
  push_cast at r1 r3 r5 ⊢
  nlinarith [r1, r3, r5]

/-- the discrete squared norm of `₋₂Y₂₂` on the grid of `Psi4_lm` is real and `> 1`
for every `Ntheta ≥ 2`. -/
theorem gridGram_S2_22 (N : ℕ) (hN : 2 ≤ N) :
    gridGram (-2) N 2 2 2 2 = ((gridR (-2) N 2 2 2 : ℝ) : ℂ) ∧ 1 < gridR (-2) N 2 2 2 := by
  constructor
  · rw [gridGram_eq (-2) N 2 2 2 2 (by simp), if_pos rfl]
  · have hR : normRadicand (-2) 2 2 = 5 / 4 := by decide +kernel
    unfold gridR
    rw [hR, Real.mul_self_sqrt (by positivity)]
    have h := thetaMid_S2_22_gt N hN
    have hpi : (0 : ℝ) < π := Real.pi_pos
    have e : ((((5 / 4 : ℚ)) : ℚ) : ℝ) / π * (2 * π) = 5 / 2 := by
      push_cast; field_simp; ring
    rw [e]
    linarith

theorem gridGram_S2_22_ne_one (N : ℕ) (hN : 2 ≤ N) : gridGram (-2) N 2 2 2 2 ≠ 1 := by
  obtain ⟨h1, h2⟩ := gridGram_S2_22 N hN
  rw [h1]
  intro h
  have : gridR (-2) N 2 2 2 = 1 := by exact_mod_cast h
  linarith

end AurelVerif.HarmLemmas
