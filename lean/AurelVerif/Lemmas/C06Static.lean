/-
Lemmas/C06Static.lean — a STATIC FLAT 2-jet (all derivative symbols, `K_ij` and the connection vanish) has vanishing
textbook Riemann tensor.  Used only for the non-vacuity instances of the operator-form theorems of Props/C06e.lean
(over ℚ the only additive operator obeying the product rule is 0, so the instance is a static point).
-/
import AurelVerif.Lemmas.C06AdmCode

set_option linter.unusedSimpArgs false
set_option linter.unusedVariables false
set_option linter.unusedTactic false
set_option linter.unreachableTactic false

namespace AurelVerif.Spec.Curvature
open AurelVerif.Tensor AurelVerif.CoreTac AurelVerif.C04L

variable {K : Type} [Field K]

theorem tsplit_const {α : Type} (x : α) : ∀ c : Fin 4, tsplit x (fun _ => x) c = x := by
  cases4 <;> rfl

theorem dmetric3p1_zero (alpha : K) (beta : Fin 3 → K) (gam : Fin 3 → Fin 3 → K) : ∀ a b : Fin 4,
    dmetric3p1 alpha beta gam 0 (fun _ => 0) (fun _ _ => 0) a b = 0 := by
  cases4 <;> cases4 <;> simp [dmetric3p1]

theorem ddmetric3p1_zero (alpha : K) (beta : Fin 3 → K) (gam : Fin 3 → Fin 3 → K) : ∀ a b : Fin 4,
    ddmetric3p1 alpha beta gam 0 (fun _ => 0) (fun _ _ => 0) 0 (fun _ => 0) (fun _ _ => 0) 0 (fun _ => 0) (fun _ _ => 0) a b
      = 0 := by
  cases4 <;> cases4 <;> simp [ddmetric3p1]

theorem riemannDown_zero {n : Nat} (gi : Fin n → Fin n → K) (a b c d : Fin n) :
    riemannDown gi (fun _ _ _ => 0) (fun _ _ _ _ => 0) a b c d = 0 := by
  simp [riemannDown, christoffel1]

/-- all derivative symbols, `K_ij` and the spatial connection vanish. -/
structure JetC.Static (J : JetC K) : Prop where
  Kd : J.Kd = fun _ _ => 0
  Gam3 : J.Gam3 = fun _ _ _ => 0
  dta : J.dta = 0
  dtb : J.dtb = fun _ => 0
  da : J.da = fun _ => 0
  db : J.db = fun _ _ => 0
  dgam : J.dgam = fun _ _ _ => 0
  dK : J.dK = fun _ _ _ => 0
  dda : J.dda = fun _ _ => 0
  ddb : J.ddb = fun _ _ _ => 0
  ddgam : J.ddgam = fun _ _ _ _ => 0
  dttgam : J.dttgam = fun _ _ => 0

namespace JetC
variable {J : JetC K}

theorem Static.dtgam (h : J.Static) : J.dtgam = fun _ _ => 0 := by
  funext i j
  simp [Jet.dtgam, dtGamma, Jet.DbD, covdShiftDown, h.Kd, h.Gam3, h.db, h.dgam]

theorem Static.ddtgam (h : J.Static) : J.ddtgam = fun _ _ _ => 0 := by
  funext i j k
  simp [JetC.ddtgam, h.Kd, h.da, h.dK, h.db, h.dgam, h.ddgam, h.ddb]

theorem Static.d4 (h : J.Static) (c : Fin 4) :
    J.d4a c = 0 ∧ J.d4b c = (fun _ => 0) ∧ J.d4gam c = fun _ _ => 0 := by
  refine ⟨?_, ?_, ?_⟩
  · simp only [Jet.d4a, h.dta, h.da]; exact tsplit_const 0 c
  · simp only [Jet.d4b, h.dtb, h.db]; exact tsplit_const (fun _ => 0) c
  · simp only [Jet.d4gam, h.dtgam, h.dgam]; exact tsplit_const (fun _ _ => 0) c

theorem Static.dd4gam (h : J.Static) : ∀ c d : Fin 4, J.dd4gam c d = fun _ _ => 0 := by
  cases4 <;> cases4 <;> simp [JetC.dd4gam, h.dttgam, h.ddtgam, h.ddgam]

theorem Static.dg4 (h : J.Static) : J.dg4 = fun _ _ _ => 0 := by
  funext c a b
  rw [Jet.dg4_eq, (h.d4 c).1, (h.d4 c).2.1, (h.d4 c).2.2]
  exact dmetric3p1_zero _ _ _ a b

theorem Static.ddg4 (h : J.Static) : J.ddg4 = fun _ _ _ _ => 0 := by
  funext c d a b
  simp only [JetC.ddg4, (h.d4 c).1, (h.d4 c).2.1, (h.d4 c).2.2, (h.d4 d).1, (h.d4 d).2.1, (h.d4 d).2.2, h.dda, h.ddb,
    h.dd4gam]
  exact ddmetric3p1_zero _ _ _ a b

/-- **a static flat jet has vanishing textbook Riemann and Ricci tensors.** -/
theorem Static.riem4 (h : J.Static) (gup : Fin 4 → Fin 4 → K) (a b c d : Fin 4) : J.riem4 gup a b c d = 0 := by
  unfold JetC.riem4
  rw [h.dg4, h.ddg4]
  exact riemannDown_zero gup a b c d

theorem Static.ricci (h : J.Static) (gup : Fin 4 → Fin 4 → K) (a b : Fin 4) :
    ricciDown gup (J.riem4 gup) a b = 0 := by
  simp [ricciDown, h.riem4 gup]

end JetC

end AurelVerif.Spec.Curvature
