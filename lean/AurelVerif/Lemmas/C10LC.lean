/-
Lemmas/C10LC.lean — generated `levicivita_*` tables and `s_to_st` (both shift variants).
-/
import AurelVerif.Gen.CoreHelpers
import AurelVerif.Lemmas.CoreTac

set_option linter.unusedSimpArgs false
set_option linter.unusedVariables false

namespace AurelVerif.C10
open AurelVerif.Gen.Core AurelVerif.Tensor AurelVerif.CoreTac

variable {K : Type} [Field K]

/-! ### Levi-Civita tables -/

/-- the 4-index symbol changes sign under each adjacent transposition and `[0123] = +1`
(this characterises the totally antisymmetric symbol). -/
theorem lc_symbol4_antisymm (e : Env K) : ∀ a b c d : Fin 4,
    levicivita_symbol_down4 e a b c d = -levicivita_symbol_down4 e b a c d
    ∧ levicivita_symbol_down4 e a b c d = -levicivita_symbol_down4 e a c b d
    ∧ levicivita_symbol_down4 e a b c d = -levicivita_symbol_down4 e a b d c := by
  cases4 <;> cases4 <;> cases4 <;> cases4 <;>
    (simp only [levicivita_symbol_down4, ↓vec4_0, ↓vec4_1, ↓vec4_2, ↓vec4_3, neg_neg, neg_zero, and_self])

theorem lc_symbol4_0123 (e : Env K) : levicivita_symbol_down4 e 0 1 2 3 = 1 := by
  simp only [levicivita_symbol_down4, ↓vec4_0, ↓vec4_1, ↓vec4_2, ↓vec4_3]

theorem lc_symbol3_antisymm (e : Env K) : ∀ a b c : Fin 3,
    levicivita_symbol_down3 e a b c = -levicivita_symbol_down3 e b a c
    ∧ levicivita_symbol_down3 e a b c = -levicivita_symbol_down3 e a c b := by
  cases3 <;> cases3 <;> cases3 <;>
    (simp only [levicivita_symbol_down3, ↓vec3_0, ↓vec3_1, ↓vec3_2, neg_neg, neg_zero, and_self])

theorem lc_symbol3_012 (e : Env K) : levicivita_symbol_down3 e 0 1 2 = 1 := by
  simp only [levicivita_symbol_down3, ↓vec3_0, ↓vec3_1, ↓vec3_2]

/-- the tensors are the symbols times `√(−g)`, `√γ`. -/
theorem lc_down4_spec (e : Env K) : ∀ a b c d : Fin 4,
    levicivita_down4 e a b c d = levicivita_symbol_down4 e a b c d * e.sqrtF (-e.gdet) := by
  cases4 <;> cases4 <;> cases4 <;> cases4 <;>
    (simp only [levicivita_down4, levicivita_symbol_down4, ↓vec4_0, ↓vec4_1, ↓vec4_2, ↓vec4_3, zero_mul, one_mul])

theorem lc_down3_spec (e : Env K) : ∀ a b c : Fin 3,
    levicivita_down3 e a b c = levicivita_symbol_down3 e a b c * e.sqrtF e.gammadet := by
  cases3 <;> cases3 <;> cases3 <;>
    (simp only [levicivita_down3, levicivita_symbol_down3, ↓vec3_0, ↓vec3_1, ↓vec3_2, zero_mul, one_mul])

theorem lc_down4_antisymm34 (e : Env K) (a b c d : Fin 4) :
    levicivita_down4 e a b c d = -levicivita_down4 e a b d c := by
  rw [lc_down4_spec, lc_down4_spec, (lc_symbol4_antisymm e a b c d).2.2]; ring

/-! ### `s_to_st` -/

theorem s_to_st_shift_symm (e : Env K) (f : Fin 3 → Fin 3 → K) (hf : ∀ i j, f i j = f j i) :
    ∀ a b : Fin 4, s_to_st__betaup3 e f a b = s_to_st__betaup3 e f b a := by
  have h01 := hf 1 0; have h02 := hf 2 0; have h12 := hf 2 1
  cases4 <;> cases4 <;> (simp only [core_unfold, h01, h02, h12])

theorem s_to_st_noshift_symm (e : Env K) (f : Fin 3 → Fin 3 → K) (hf : ∀ i j, f i j = f j i) :
    ∀ a b : Fin 4, s_to_st__dflt e f a b = s_to_st__dflt e f b a := by
  have h01 := hf 1 0; have h02 := hf 2 0; have h12 := hf 2 1
  cases4 <;> cases4 <;> (simp only [core_unfold, h01, h02, h12])

/-- layout of `s_to_st` (shift present): `f_00 = β^iβ^j f_ij`, `f_0k = f_k0 = β^i f_ik`, `f_ij` spatial block. -/
theorem s_to_st_shift_layout (e : Env K) (f : Fin 3 → Fin 3 → K) :
    s_to_st__betaup3 e f 0 0 = ∑ i, ∑ j, e.betaup3 i * e.betaup3 j * f i j
    ∧ (∀ k : Fin 3, s_to_st__betaup3 e f 0 k.succ = ∑ i, e.betaup3 i * f i k
        ∧ s_to_st__betaup3 e f k.succ 0 = ∑ i, e.betaup3 i * f i k)
    ∧ ∀ i j : Fin 3, s_to_st__betaup3 e f i.succ j.succ = f i j := by
  refine ⟨?_, ?_, ?_⟩
  · unfold_core; ring
  · cases3 <;> (constructor <;> unfold_core)
  · cases3 <;> cases3 <;> rfl

/-- layout of `s_to_st` (no shift key present): time row and column vanish. -/
theorem s_to_st_noshift_layout (e : Env K) (f : Fin 3 → Fin 3 → K) :
    (∀ μ : Fin 4, s_to_st__dflt e f 0 μ = 0 ∧ s_to_st__dflt e f μ 0 = 0)
    ∧ ∀ i j : Fin 3, s_to_st__dflt e f i.succ j.succ = f i j := by
  refine ⟨?_, ?_⟩
  · cases4 <;> exact ⟨rfl, rfl⟩
  · cases3 <;> cases3 <;> rfl

end AurelVerif.C10
