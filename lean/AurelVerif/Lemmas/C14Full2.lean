/-
Lemmas/C14Full2.lean — the second split theorem of C14: ANY sequence of
`over_time` calls whose last call passes every estimator that any call passes
(in particular: every call passes the full estimates list) returns the table of
the single call, as a Python dict (same keys, same columns; the ORDER of the
estimate columns differs, see `Props/C14b.lean`).  Core Lean only.
-/
import AurelVerif.Lemmas.C14Full

namespace AurelVerif.Table
variable {C : Type}

/-! ## 1. any number of calls preserves the invariant -/

theorem runCalls_nil (E : Env C) (t : Table C) : runCalls E t [] = .ok t := rfl

theorem runCalls_append (E : Env C) (t : Table C) (a b : List (List Req × List Req)) :
    runCalls E t (a ++ b) = andThen (runCalls E t a) (fun T => runCalls E T b) := by
  induction a generalizing t with
  | nil => rfl
  | cons c cs ih =>
    rw [List.cons_append, runCalls_cons, runCalls_cons, andThen_assoc]
    congr 1
    funext T
    exact ih T

theorem runCalls_inv (E : Env C) {t : Table C} {n : Nat} {tk : Name} {V A : List Req}
    (H : SplitHypD E t n tk V A) :
    ∀ (calls : List (List Req × List Req)) (Vd rest : List Req) (T : Table C) (G : Row C → Row C),
      V = Vd ++ calls.flatMap (·.1) ++ rest → (∀ c ∈ calls, ∀ x ∈ allEsts E c.2, x ∈ allEsts E A) →
      RowsInv E t n tk V A Vd T G →
      ∃ T' G', runCalls E T calls = .ok T' ∧ RowsInv E t n tk V A (Vd ++ calls.flatMap (·.1)) T' G' := by
  intro calls
  induction calls with
  | nil =>
    intro Vd rest T G _ _ I
    exact ⟨T, G, rfl, by simpa using I⟩
  | cons c cs ih =>
    intro Vd rest T G hV hA I
    simp only [List.flatMap_cons] at hV ⊢
    obtain ⟨T1, G1, h1, I1, _⟩ := call_step E H (Vd := Vd) (v := c.1) (rest := cs.flatMap (·.1) ++ rest) (e := c.2)
      (by rw [hV]; simp [List.append_assoc]) (hA c (by simp)) I
    obtain ⟨T2, G2, h2, I2⟩ := ih (Vd ++ c.1) rest T1 G1 (by rw [hV]; simp [List.append_assoc])
      (fun c' hc' => hA c' (by simp [hc'])) I1
    refine ⟨T2, G2, ?_, by rw [← List.append_assoc]; exact I2⟩
    rw [runCalls_cons, h1, andThen_ok, h2]

/-! ## 2. the final table, characterised -/

/-- the column names of the single-call table -/
def Target (E : Env C) (t : Table C) (V A : List Req) (k : Name) : Prop :=
  k ∈ keys t ∨ k ∈ (cleanVars E t V).map CReq.key ∨
    ∃ e ∈ allEsts E A, ∃ s ∈ callSk E t V, k = estKey s e.key

theorem run_characterize (E : Env C) {t : Table C} {n : Nat} {tk : Name} {V A : List Req}
    (H : SplitHypD E t n tk V A) (pre : List (List Req × List Req)) (last : List Req × List Req)
    (hV : (pre ++ [last]).flatMap (·.1) = V)
    (hA : ∀ c ∈ pre ++ [last], ∀ x ∈ allEsts E c.2, x ∈ allEsts E A)
    (hlast : ∀ x ∈ allEsts E A, x ∈ allEsts E last.2) :
    ∃ T G, runCalls E t (pre ++ [last]) = .ok T ∧ RowsInv E t n tk V A V T G ∧
      ∀ k, k ∈ keys T ↔ Target E t V A k := by
  have hV' : V = pre.flatMap (·.1) ++ last.1 := by
    rw [← hV]; simp [List.flatMap_append]
  obtain ⟨T1, G1, h1, I1⟩ := runCalls_inv E H pre [] last.1 t id (by simpa using hV')
    (fun c hc => hA c (by simp [hc])) (rowsInv_init E H)
  simp only [List.nil_append] at I1
  obtain ⟨T2, G2, h2, I2, hcomp⟩ := call_step E H (Vd := pre.flatMap (·.1)) (v := last.1) (rest := []) (e := last.2)
    (by simpa using hV') (hA last (by simp)) I1
  rw [← hV'] at I2
  refine ⟨T2, G2, ?_, I2, ?_⟩
  · rw [runCalls_append, h1, andThen_ok, runCalls_cons, h2, andThen_ok, runCalls_nil]
  · intro k
    constructor
    · exact I2.only k
    · rintro (h | h | ⟨x, hx, s, hs, rfl⟩)
      · exact I2.sub H k h
      · obtain ⟨c, hc, rfl⟩ := List.mem_map.mp h
        exact I2.done c hc
      · apply hcomp x (hlast x hx) s hs
        rcases callSk_subset H hs with h | h
        · exact I2.sub H s h
        · obtain ⟨c, hc, rfl⟩ := List.mem_map.mp h
          exact I2.done c hc

/-! ## 3. two good rows over the same inputs with the same keys are equal as dicts -/

section det
variable {E : Env C} {t : Table C} {n : Nat} {tk : Name} {V A : List Req}

theorem good_get_SK (H : SplitHypD E t n tk V A) {r d d' : Row C} (hr : r ∈ rowsOf t n)
    (hd : GoodRow E (cleanVars E t V) (allEsts E A) (callSk E t V) r d)
    (hd' : GoodRow E (cleanVars E t V) (allEsts E A) (callSk E t V) r d') {s : Name}
    (hs : s ∈ callSk E t V) {c0 c0' : C} (hg : get? s d = some c0) (hg' : get? s d' = some c0') :
    c0 = c0' := by
  rcases callSk_subset H hs with h | h
  · obtain ⟨x, rfl, _⟩ := hd
    obtain ⟨x', rfl, _⟩ := hd'
    have hk : s ∈ keys r := by rw [keys_of_mem_rowsOf H.wf hr]; exact h
    rw [get?_append_left hk] at hg hg'
    rw [hg] at hg'
    exact Option.some.inj hg'
  · obtain ⟨c, hc, rfl⟩ := List.mem_map.mp h
    rw [good_get_var H hr hd hc hg, good_get_var H hr hd' hc hg']

theorem good_determined (H : SplitHypD E t n tk V A) {r d d' : Row C} (hr : r ∈ rowsOf t n)
    (hd : GoodRow E (cleanVars E t V) (allEsts E A) (callSk E t V) r d)
    (hd' : GoodRow E (cleanVars E t V) (allEsts E A) (callSk E t V) r d')
    (hk : ∀ k, k ∈ keys d ↔ k ∈ keys d') (k : Name) : get? k d = get? k d' := by
  by_cases hkd : k ∈ keys d
  · have hkd' := (hk k).mp hkd
    obtain ⟨v, hv⟩ := get?_some_of_mem hkd
    obtain ⟨v', hv'⟩ := get?_some_of_mem hkd'
    rw [hv, hv']
    congr 1
    obtain ⟨x, hdx, hx⟩ := hd
    obtain ⟨x', hdx', hx'⟩ := hd'
    by_cases hkr : k ∈ keys r
    · rw [hdx, get?_append_left hkr] at hv
      rw [hdx', get?_append_left hkr] at hv'
      rw [hv] at hv'
      exact Option.some.inj hv'
    · have hvx : get? k x = some v := by rw [hdx, get?_append_right hkr] at hv; exact hv
      have hvx' : get? k x' = some v' := by rw [hdx', get?_append_right hkr] at hv'; exact hv'
      have hgd : GoodRow E (cleanVars E t V) (allEsts E A) (callSk E t V) r d := ⟨x, hdx, hx⟩
      have hgd' : GoodRow E (cleanVars E t V) (allEsts E A) (callSk E t V) r d' := ⟨x', hdx', hx'⟩
      rcases hx _ (mem_of_get? hvx) with ⟨c, hc, h1, h2⟩ | ⟨e, he, s, hs, c0, h1, hg0, h2⟩
      · simp only at h1 h2
        subst h1
        rw [h2]
        exact (good_get_var H hr hgd' hc hv').symm
      · simp only at h1 h2
        rcases hx' _ (mem_of_get? hvx') with ⟨c, hc, h1', h2'⟩ | ⟨e', he', s', hs', c0', h1', hg0', h2'⟩
        · exfalso
          simp only at h1'
          exact H.est_fresh e he s hs (h1 ▸ h1' ▸ List.mem_map.mpr ⟨c, hc, rfl⟩)
        · simp only at h1' h2'
          obtain ⟨hss, hee⟩ := H.est_inj e he e' he' s hs s' hs' (h1.symm.trans h1')
          subst hss
          have : e = e' := H.est_names e he e' he' hee
          subst this
          rw [← hdx] at hg0
          rw [← hdx'] at hg0'
          rw [h2, h2', good_get_SK H hr hgd hgd' hs hg0 hg0']
  · have hkd' : k ∉ keys d' := fun h => hkd ((hk k).mpr h)
    rw [get?_none_iff.mpr hkd, get?_none_iff.mpr hkd']

/-- equality of Python dicts: same keys, same values (the order of the keys may differ) -/
def DictEq (a b : Table C) : Prop := (keys a).Perm (keys b) ∧ ∀ k, get? k a = get? k b

theorem DictEq.refl (a : Table C) : DictEq a a := ⟨List.Perm.refl _, fun _ => rfl⟩

/-- two tables of the invariant with the same column names are equal as dicts -/
theorem dictEq_of_inv (H : SplitHypD E t n tk V A) {Ta Tb : Table C} {Ga Gb : Row C → Row C}
    (Ia : RowsInv E t n tk V A V Ta Ga) (Ib : RowsInv E t n tk V A V Tb Gb)
    (hk : ∀ k, k ∈ keys Ta ↔ k ∈ keys Tb) : DictEq Ta Tb := by
  refine ⟨(List.perm_ext_iff_of_nodup Ia.wf.nodup Ib.wf.nodup).mpr hk, ?_⟩
  have hrow : ∀ r ∈ rowsOf t n, ∀ k, get? k (Ga r) = get? k (Gb r) := by
    intro r hr
    apply good_determined H hr (Ia.good r hr) (Ib.good r hr)
    intro k
    rw [Ia.keysG r hr, Ib.keysG r hr]
    exact hk k
  obtain ⟨Sa, hSa, ca⟩ := Ia.shape
  obtain ⟨Sb, hSb, cb⟩ := Ib.shape
  rcases ca with ⟨_, rfl⟩ | ⟨rfl, ka, hka, hkat⟩
  · rcases cb with ⟨_, rfl⟩ | ⟨_, kb, hkb, hkbt⟩
    · exact fun _ => rfl
    · exact absurd ((hk kb).mpr hkb) hkbt
  · rcases cb with ⟨_, rfl⟩ | ⟨rfl, _⟩
    · exact absurd ((hk ka).mp hka) hkat
    · intro k
      by_cases hkT : k ∈ keys Ta
      · obtain ⟨ca, hca⟩ := get?_some_of_mem hkT
        obtain ⟨cb, hcb⟩ := get?_some_of_mem ((hk k).mp hkT)
        rw [hca, hcb, ← colOf_rowsOf Ia.wf hca, ← colOf_rowsOf Ib.wf hcb, hSa, hSb]
        congr 1
        simp only [colOf, List.filterMap_map]
        apply filterMap_congr'
        intro r hr
        exact hrow r ((sortP_perm E (tk_mem_rows H.wf H.tk)).subset hr) k
      · rw [get?_none_iff.mpr hkT, get?_none_iff.mpr (fun h => hkT ((hk k).mpr h))]

end det

/-! ## 4. the theorem -/

theorem allEsts_flatMap_mem (E : Env C) {calls : List (List Req × List Req)} {c : List Req × List Req}
    (hc : c ∈ calls) {x : CReq} (hx : x ∈ allEsts E c.2) : x ∈ allEsts E (calls.flatMap (·.2)) := by
  simp only [allEsts, List.mem_flatMap] at hx ⊢
  obtain ⟨item, hitem, hx⟩ := hx
  exact ⟨item, ⟨c, hc, hitem⟩, hx⟩

/-- **T4b, general form**: `ests` = the estimates of the single call.  Every call of the
sequence passes estimators of `ests` only, and the LAST call passes all of them: the
sequence returns the single-call table as a dict. -/
theorem split_general_lemma (E : Env C) {t : Table C} {n : Nat} {tk : Name}
    (pre : List (List Req × List Req)) (last : List Req × List Req) (ests : List Req)
    (H : SplitHypD E t n tk ((pre ++ [last]).flatMap (·.1)) ests)
    (hsub : ∀ c ∈ pre ++ [last], ∀ x ∈ allEsts E c.2, x ∈ allEsts E ests)
    (hlast : ∀ x ∈ allEsts E ests, x ∈ allEsts E last.2) :
    ∃ a b, runCalls E t (pre ++ [last]) = .ok a ∧
      overTime E t ((pre ++ [last]).flatMap (·.1)) ests = .ok b ∧ DictEq a b := by
  generalize hVdef : (pre ++ [last]).flatMap (·.1) = V at H
  obtain ⟨Ta, Ga, ha, Ia, hka⟩ := run_characterize E H pre last hVdef hsub hlast
  obtain ⟨Tb, Gb, hb, Ib, hkb⟩ := run_characterize E H [] (V, ests) (by simp)
    (fun c hc x hx => by
      simp only [List.nil_append, List.mem_singleton] at hc
      subst hc
      exact hx) (fun x hx => hx)
  refine ⟨Ta, Tb, ha, ?_, dictEq_of_inv H Ia Ib (fun k => (hka k).trans (hkb k).symm)⟩
  simp only [List.nil_append, runCalls_cons, runCalls_nil] at hb
  rw [andThen_pure] at hb
  exact hb

/-- **T4b**: a sequence of calls whose LAST call passes every estimator that any
call of the sequence passes returns the single-call table as a dict. -/
theorem split_last_all_lemma (E : Env C) {t : Table C} {n : Nat} {tk : Name}
    (pre : List (List Req × List Req)) (last : List Req × List Req)
    (H : SplitHypD E t n tk ((pre ++ [last]).flatMap (·.1)) ((pre ++ [last]).flatMap (·.2)))
    (hlast : ∀ x ∈ allEsts E ((pre ++ [last]).flatMap (·.2)), x ∈ allEsts E last.2) :
    ∃ a b, runCalls E t (pre ++ [last]) = .ok a ∧
      overTime E t ((pre ++ [last]).flatMap (·.1)) ((pre ++ [last]).flatMap (·.2)) = .ok b ∧ DictEq a b :=
  split_general_lemma E pre last _ H (fun _ hc _ hx => allEsts_flatMap_mem E hc hx) hlast

/-- **T4b, every call passes the full estimates list** (the usage of the repository's
tests): the variable requests cut into any number ≥ 1 of successive calls -/
theorem split_full_estimates_lemma (E : Env C) {t : Table C} {n : Nat} {tk : Name}
    (vs : List (List Req)) (hne : vs ≠ []) (ests : List Req)
    (H : SplitHypD E t n tk vs.flatten ests) :
    ∃ a b, runCalls E t (vs.map (fun v => (v, ests))) = .ok a ∧
      overTime E t vs.flatten ests = .ok b ∧ DictEq a b := by
  have hsplit : vs.map (fun v => (v, ests)) = (vs.dropLast.map (fun v => (v, ests))) ++ [(vs.getLast hne, ests)] := by
    have := congrArg (List.map (fun v => (v, ests))) (List.dropLast_concat_getLast hne)
    rw [List.map_append] at this
    exact this.symm
  have h1 : (vs.map (fun v => (v, ests))).flatMap (·.1) = vs.flatten := by
    simp [List.flatMap_def, List.map_map, Function.comp_def]
  have := split_general_lemma E (vs.dropLast.map (fun v => (v, ests))) (vs.getLast hne, ests) ests
    (by rw [← hsplit, h1]; exact H)
    (by
      rw [← hsplit]
      intro c hc x hx
      obtain ⟨v, _, rfl⟩ := List.mem_map.mp hc
      exact hx)
    (fun x hx => hx)
  rw [← hsplit, h1] at this
  exact this

end AurelVerif.Table
