/-
Lemmas/C17EinSzek.lean — Λ-Szekeres: all ten Einstein equations `G_ab + Λ g_ab = κ T_ab` (dust at rest with the
module's `rho`, `press = 0`; `Λ`, `κ` of LCDM) for the module's own `gdown4`, wherever `t > 0` and `Z ≠ 0`.

The field equations at a point are purely algebraic (`Szekeres_einstein`, no hypothesis).  That the 2-jet
used consists of the partial derivatives of the module's metric (`Szekeres_isJetField`) is proven under the
same explicit hypothesis as the existing `K_is_metric_rate_Szekeres_partial`, here for all `τ > 0`:
the module's local `integrated_part` (`Szekeres_IP`) is an antiderivative of its `part_to_integrate`
(`Szekeres_PTI`) — the hypergeometric identity
`d/dτ[(3/5) sinh^{5/3}τ ₂F₁(5/6,3/2;11/6;−sinh²τ)] = sinh^{2/3}τ/cosh²τ`, not available in Mathlib and checked
numerically by the sentinel.  From it: the growing mode `f₊ = coth τ · integrated_part` satisfies
`2H f₊' + κρ_b f₊ = 4B/a²` (`Szekeres_fP_deriv`, using the closed forms of `a`, `H`, `tauC`, `B`, `Λ`), the
second time derivative follows from the background equations, and all 64 + 256 jet entries are derivatives.
-/
import AurelVerif.Lemmas.C17JetSzek
import AurelVerif.Lemmas.C17EinFLRW
import AurelVerif.Lemmas.C17DerivTac
import AurelVerif.Lemmas.C17JetCalc

set_option linter.unusedVariables false
set_option linter.unusedTactic false
set_option linter.unreachableTactic false
set_option linter.unusedSimpArgs false

namespace AurelVerif.C17Ein
open AurelVerif.Gen.Solutions AurelVerif.SolutionsLemmas AurelVerif.Spec.Jet4 AurelVerif.Spec.Curvature
open AurelVerif.C17JetTac AurelVerif.C17Jet AurelVerif.C17DerivTac

/-! ## Szekeres -/

/-- the growing mode `f₊(t) = coth τ · integrated_part(τ)`, `τ = tauC·t` (local `fP` of `Z_terms`). -/
noncomputable def Szekeres_fP (hyp2f1 : ℝ → ℝ → ℝ → ℝ → ℝ) (t : ℝ) : ℝ :=
  Real.cosh (Szekeres.tauC * t) / Real.sinh (Szekeres.tauC * t) * Szekeres_IP hyp2f1 (Szekeres.tauC * t)

/-- `βP(z) = Amp (1 − sin kz)` and its first two derivatives. -/
noncomputable def Szekeres_b (z : ℝ) : ℝ := Szekeres.Amp * (1 - Real.sin (Szekeres.k * z))
noncomputable def Szekeres_b1 (z : ℝ) : ℝ := -(Szekeres.Amp * Szekeres.k * Real.cos (Szekeres.k * z))
noncomputable def Szekeres_b2 (z : ℝ) : ℝ := Szekeres.Amp * Szekeres.k ^ 2 * Real.sin (Szekeres.k * z)

theorem Szekeres_tauC_closed : Szekeres.tauC = 3 / 2 * LCDM.Hprop_today * Real.sqrt LCDM.Omega_l_today := by
  have h0 := LCDM_H0_pos
  have hl := LCDM_Ol_pos
  have hw := Real.sqrt_nonneg LCDM.Omega_l_today
  have hw2 := Real.sq_sqrt hl.le
  unfold Szekeres.tauC LCDM.Lambda LCDM.c
  rw [show (3:ℝ) * (LCDM.Omega_l_today * 3 * LCDM.Hprop_today ^ 2 / 1 ^ 2) / 4
      = (3 / 2 * LCDM.Hprop_today * Real.sqrt LCDM.Omega_l_today) ^ 2 by
    rw [mul_pow, mul_pow, hw2]; ring]
  exact Real.sqrt_sq (by positivity)

theorem Szekeres_tau_eq (t : ℝ) : Szekeres.tauC * t = LCDM_tau t := by
  have h0 := LCDM_H0_pos.ne'
  rw [Szekeres_tauC_closed]
  unfold LCDM_tau LCDM.t_today_EdS
  field_simp

/-- `(Ω_Λ Ω_m²)^{1/3} = Ω_Λ ((Ω_m/Ω_Λ)^{1/3})²`. -/
theorem Szekeres_cuberoot :
    (LCDM.Omega_l_today * LCDM.Omega_m_today ^ 2) ^ ((1:ℝ) / 3)
      = LCDM.Omega_l_today * ((LCDM.Omega_m_today / LCDM.Omega_l_today) ^ ((1:ℝ) / 3)) ^ 2 := by
  have hl := LCDM_Ol_pos
  have hm := LCDM_Om_pos
  have hq : 0 ≤ LCDM.Omega_m_today / LCDM.Omega_l_today := (div_pos hm hl).le
  have hc := cube_rpow_third _ hq
  set c3 := (LCDM.Omega_m_today / LCDM.Omega_l_today) ^ ((1:ℝ) / 3) with hc3
  have hc3pos : 0 ≤ c3 := Real.rpow_nonneg hq _
  have e : LCDM.Omega_l_today * LCDM.Omega_m_today ^ 2 = (LCDM.Omega_l_today * c3 ^ 2) ^ 3 := by
    have : LCDM.Omega_m_today = c3 ^ 3 * LCDM.Omega_l_today := by rw [hc]; field_simp
    rw [this]; ring
  rw [e, show ((1:ℝ) / 3) = ((3:ℕ):ℝ)⁻¹ by norm_num, Real.pow_rpow_inv_natCast (by positivity) (by norm_num)]

set_option maxHeartbeats 1000000 in
/-- algebraic core of the growing-mode equation (uses only `cosh² = 1 + sinh²`, `sinh = u³`). -/
theorem Szekeres_mode_alg (H0 w c3 u C I : ℝ) (h0 : H0 ≠ 0) (hw : w ≠ 0) (hc : c3 ≠ 0) (hu : u ≠ 0) (hC : C ≠ 0)
    (hrel : C ^ 2 = 1 + u ^ 6) :
    (3 / 2 * H0 * w) * (-1 / (u ^ 3) ^ 2) * I + C / u ^ 3 * (u ^ 2 / C ^ 2 * (3 / 2 * H0 * w * 1))
      = (4 * (3 / 4 * H0 ^ 2 * w ^ 2 * c3 ^ 2)
          - (3 * (2 * (c3 * u ^ 2) ^ 2 * (H0 * (w * C / u ^ 3))) ^ 2 / (4 * ((c3 * u ^ 2) ^ 2) ^ 2) - 3 * w ^ 2 * H0 ^ 2)
            * (C / u ^ 3 * I) * (c3 * u ^ 2) ^ 2)
        / (2 * (c3 * u ^ 2) ^ 2 * (H0 * (w * C / u ^ 3))) := by
  have hN : 3 * (C ^ 3 * H0 * I * w - C * H0 * I * u ^ 6 * w - C * H0 * I * w) = 0 := by
    linear_combination (3 * C * H0 * I * w) * hrel
  refine sub_eq_zero.mp ?_
  calc _ = 3 * (C ^ 3 * H0 * I * w - C * H0 * I * u ^ 6 * w - C * H0 * I * w) * (2 * C * u ^ 6)⁻¹ := by
        field_simp; ring1
    _ = 0 := by rw [hN, zero_mul]

/-- the module's scale factor in terms of `c3 = (Ω_m/Ω_Λ)^{1/3}` and `u = sinh(τ)^{1/3}`. -/
theorem Szekeres_a_closed (t : ℝ) (ht : 0 < t) :
    LCDM.a_num t = (LCDM.Omega_m_today / LCDM.Omega_l_today) ^ ((1:ℝ) / 3)
      * (Real.sinh (Szekeres.tauC * t) ^ ((1:ℝ) / 3)) ^ 2 ∧
    (Real.sinh (Szekeres.tauC * t) ^ ((1:ℝ) / 3)) ^ 3 = Real.sinh (Szekeres.tauC * t) ∧
    Real.sinh (Szekeres.tauC * t) ^ ((2:ℝ) / 3) = (Real.sinh (Szekeres.tauC * t) ^ ((1:ℝ) / 3)) ^ 2 := by
  have hs := (LCDM_sinh_pos t ht).le
  rw [Szekeres_tau_eq]
  have e2 : Real.sinh (LCDM_tau t) ^ ((2:ℝ) / 3) = (Real.sinh (LCDM_tau t) ^ ((1:ℝ) / 3)) ^ 2 := by
    rw [← Real.rpow_natCast, ← Real.rpow_mul hs]; norm_num
  refine ⟨?_, cube_rpow_third _ hs, e2⟩
  unfold LCDM.a_num LCDM.a_today
  rw [one_mul, ← e2]
  rfl

set_option maxHeartbeats 1000000 in
/-- the growing mode satisfies `f₊' = (4B − (3A1²/(4A²) − Λ) f₊ A)/A1` with `A = a²`, `A1 = 2a²H`
(i.e. `2H f₊' + κρ_b f₊ = 4B/a²`), given that `integrated_part` is an antiderivative of
`part_to_integrate` at `τ = tauC·t`. -/
theorem Szekeres_fP_deriv (hyp2f1 : ℝ → ℝ → ℝ → ℝ → ℝ) (t : ℝ) (ht : 0 < t)
    (hIP : HasDerivAt (Szekeres_IP hyp2f1) (Szekeres_PTI (Szekeres.tauC * t)) (Szekeres.tauC * t)) :
    HasDerivAt (fun s => Szekeres_fP hyp2f1 s)
      ((4 * Szekeres.B - (3 * (2 * LCDM.a_num t ^ 2 * LCDM.Hprop t) ^ 2 / (4 * (LCDM.a_num t ^ 2) ^ 2) - LCDM.Lambda)
          * Szekeres_fP hyp2f1 t * LCDM.a_num t ^ 2) / (2 * LCDM.a_num t ^ 2 * LCDM.Hprop t)) t := by
  have hτ : HasDerivAt (fun s => Szekeres.tauC * s) (Szekeres.tauC * 1) t :=
    (hasDerivAt_id' t).const_mul _
  have hSpos : 0 < Real.sinh (Szekeres.tauC * t) := Real.sinh_pos_iff.mpr (mul_pos Szekeres_tauC_pos ht)
  have hsinh := hSpos.ne'
  have hfM : HasDerivAt (fun s => Real.cosh (Szekeres.tauC * s) / Real.sinh (Szekeres.tauC * s))
      (Szekeres.tauC * (-1 / Real.sinh (Szekeres.tauC * t) ^ 2)) t := by
    refine (hτ.cosh.div hτ.sinh hsinh).congr_deriv ?_
    have := Real.cosh_sq (Szekeres.tauC * t)
    field_simp
    linear_combination (-Szekeres.tauC) * this
  have hI : HasDerivAt (fun s => Szekeres_IP hyp2f1 (Szekeres.tauC * s))
      (Szekeres_PTI (Szekeres.tauC * t) * (Szekeres.tauC * 1)) t := hIP.comp t hτ
  unfold Szekeres_fP
  refine (hfM.mul hI).congr_deriv ?_
  -- closed forms
  obtain ⟨ha, hu3, hu2⟩ := Szekeres_a_closed t ht
  have hH := LCDM_H_closed t ht
  rw [← Szekeres_tau_eq] at hH
  have hL : LCDM.Lambda = 3 * Real.sqrt LCDM.Omega_l_today ^ 2 * LCDM.Hprop_today ^ 2 := by
    rw [Real.sq_sqrt LCDM_Ol_pos.le]; unfold LCDM.Lambda LCDM.c; ring
  have hB : Szekeres.B = 3 / 4 * LCDM.Hprop_today ^ 2 * Real.sqrt LCDM.Omega_l_today ^ 2
      * ((LCDM.Omega_m_today / LCDM.Omega_l_today) ^ ((1:ℝ) / 3)) ^ 2 := by
    unfold Szekeres.B
    rw [Szekeres_cuberoot, Real.sq_sqrt LCDM_Ol_pos.le]; ring
  have hC2 := Real.cosh_sq (Szekeres.tauC * t)
  have hupos : 0 < Real.sinh (Szekeres.tauC * t) ^ ((1:ℝ) / 3) := Real.rpow_pos_of_pos hSpos _
  have hc3pos : 0 < (LCDM.Omega_m_today / LCDM.Omega_l_today) ^ ((1:ℝ) / 3) :=
    Real.rpow_pos_of_pos (div_pos LCDM_Om_pos LCDM_Ol_pos) _
  have hwpos := Real.sqrt_pos.mpr LCDM_Ol_pos
  unfold Szekeres_PTI
  rw [hu2, ha, hH, hL, hB, Szekeres_tauC_closed]
  rw [Szekeres_tauC_closed] at hu3 hC2 hupos
  generalize Real.sinh (3 / 2 * LCDM.Hprop_today * Real.sqrt LCDM.Omega_l_today * t) ^ ((1:ℝ) / 3) = u at *
  rw [← hu3] at hC2 ⊢
  generalize Real.cosh (3 / 2 * LCDM.Hprop_today * Real.sqrt LCDM.Omega_l_today * t) = C at *
  generalize Szekeres_IP hyp2f1 (3 / 2 * LCDM.Hprop_today * Real.sqrt LCDM.Omega_l_today * t) = I at *
  have hCne : C ≠ 0 := by
    intro h; rw [h] at hC2; nlinarith [sq_nonneg (u ^ 3)]
  exact Szekeres_mode_alg _ _ _ u C I LCDM_H0_pos.ne' hwpos.ne' hc3pos.ne' hupos.ne' hCne (by rw [hC2]; ring)

/-- `Z = βP f₊ + 1 + B βP (x²+y²)`. -/
theorem Szekeres_Z_closed (hyp2f1 : ℝ → ℝ → ℝ → ℝ → ℝ) (t x y z : ℝ) :
    Szekeres.Z_terms_num_Z hyp2f1 t x y z
      = Szekeres_b z * Szekeres_fP hyp2f1 t + (1 + Szekeres.B * Szekeres_b z * (x ^ 2 + y ^ 2)) := by
  unfold Szekeres.Z_terms_num_Z Szekeres_b Szekeres_fP Szekeres_IP; ring

theorem Szekeres_F_closed (hyp2f1 : ℝ → ℝ → ℝ → ℝ → ℝ) (t x y z : ℝ) :
    Szekeres.Z_terms_num_F hyp2f1 t x y z = Szekeres_b z * Szekeres_fP hyp2f1 t := by
  unfold Szekeres.Z_terms_num_F Szekeres_b Szekeres_fP Szekeres_IP; ring

theorem Szekeres_b_deriv (z : ℝ) : HasDerivAt (fun s => Szekeres_b s) (Szekeres_b1 z) z := by
  unfold Szekeres_b Szekeres_b1; hasderiv_auto

theorem Szekeres_b1_deriv (z : ℝ) : HasDerivAt (fun s => Szekeres_b1 s) (Szekeres_b2 z) z := by
  unfold Szekeres_b1 Szekeres_b2; hasderiv_auto

/-- `∂_t(2a²H) = ((2a²H)² + 4Λ(a²)²)/(4a²)`: the `ij` Einstein equation of the LCDM background. -/
theorem Szekeres_A1_deriv (t : ℝ) (ht : 0 < t) : HasDerivAt (fun s => 2 * LCDM.a_num s ^ 2 * LCDM.Hprop s)
    (((2 * LCDM.a_num t ^ 2 * LCDM.Hprop t) ^ 2 + 4 * LCDM.Lambda * (LCDM.a_num t ^ 2) ^ 2) / (4 * (LCDM.a_num t ^ 2))) t := by
  refine (LCDM_A1_deriv t ht).congr_deriv ?_
  have ha := (LCDM_a_pos t ht).ne'
  have han := (LCDM_an_pos t ht).ne'
  have hsq := LCDM_H_sq t ht
  have hsq' : LCDM.Hprop t ^ 2 * LCDM.an_today t ^ 3 = LCDM.Hprop_today ^ 2 *
      (LCDM.Omega_m_today + LCDM.Omega_l_today * LCDM.an_today t ^ 3) := by
    rw [hsq]; field_simp
  have hL : LCDM.Lambda = 3 * LCDM.Omega_l_today * LCDM.Hprop_today ^ 2 := by
    unfold LCDM.Lambda LCDM.c; ring
  unfold LCDM_dH
  rw [hL]
  field_simp
  linear_combination 12 * hsq'

/-- the four partial derivatives of `Z` (the `t`-derivative needs the antiderivative hypothesis). -/
theorem Szekeres_Z_derivs (hyp2f1 : ℝ → ℝ → ℝ → ℝ → ℝ)
    (hIP : ∀ τ, 0 < τ → HasDerivAt (Szekeres_IP hyp2f1) (Szekeres_PTI τ) τ) (t x y z : ℝ) (ht : 0 < t) :
    HasDerivAt (fun s => Szekeres.Z_terms_num_Z hyp2f1 s x y z) (Szekeres_b z * ((4 * Szekeres.B - (3 * (2 * LCDM.a_num t ^ 2 * LCDM.Hprop t) ^ 2 / (4 * (LCDM.a_num t ^ 2) ^ 2) - LCDM.Lambda) * Szekeres_fP hyp2f1 t * LCDM.a_num t ^ 2) / (2 * LCDM.a_num t ^ 2 * LCDM.Hprop t))) t ∧
    HasDerivAt (fun s => Szekeres.Z_terms_num_Z hyp2f1 t s y z) (2 * Szekeres.B * Szekeres_b z * x) x ∧
    HasDerivAt (fun s => Szekeres.Z_terms_num_Z hyp2f1 t x s z) (2 * Szekeres.B * Szekeres_b z * y) y ∧
    HasDerivAt (fun s => Szekeres.Z_terms_num_Z hyp2f1 t x y s)
      (Szekeres_b1 z * Szekeres_fP hyp2f1 t + Szekeres.B * Szekeres_b1 z * (x ^ 2 + y ^ 2)) z := by
  have hfPd := Szekeres_fP_deriv hyp2f1 t ht (hIP _ (mul_pos Szekeres_tauC_pos ht))
  have hb := Szekeres_b_deriv z
  simp only [Szekeres_Z_closed]
  refine ⟨?_, ?_, ?_, ?_⟩ <;> hasderiv_auto

/-- the domain: `t > 0` and `Z ≠ 0` (the metric is degenerate where `Z = 0`). -/
def Szekeres_domain (hyp2f1 : ℝ → ℝ → ℝ → ℝ → ℝ) (t x y z : ℝ) : Prop :=
  0 < t ∧ Szekeres.Z_terms_num_Z hyp2f1 t x y z ≠ 0

/-- the jet: the family of Lemmas/C17JetSzek.lean at `A = a²`, `A1 = 2a²H` (LCDM), `Λ`, `B`, `f = f₊(t)`,
`b = βP(z)` and its derivatives, `Z` = the module's `Z`. -/
noncomputable def Szekeres_jet (hyp2f1 : ℝ → ℝ → ℝ → ℝ → ℝ) (t x y z : ℝ) : Jet2 ℝ :=
  Szek.jet (LCDM.a_num t ^ 2) (2 * LCDM.a_num t ^ 2 * LCDM.Hprop t) LCDM.Lambda Szekeres.B (Szekeres_fP hyp2f1 t)
    (Szekeres_b z) (Szekeres_b1 z) (Szekeres_b2 z) x y (Szekeres.Z_terms_num_Z hyp2f1 t x y z)

theorem Szekeres_gdown4_closed (hyp2f1 : ℝ → ℝ → ℝ → ℝ → ℝ) (t x y z : ℝ) :
    Szekeres.gdown4_num hyp2f1 t x y z = (Szekeres_jet hyp2f1 t x y z).g := by
  refine funext4 ?_ ?_ ?_ ?_ <;> refine funext4 ?_ ?_ ?_ ?_ <;>
    (simp [Szekeres_jet, Szek.jet, Szekeres.gdown4_num, Szekeres.gdown4_num_00, Szekeres.gdown4_num_01, Szekeres.gdown4_num_02, Szekeres.gdown4_num_03, Szekeres.gdown4_num_10, Szekeres.gdown4_num_11, Szekeres.gdown4_num_12, Szekeres.gdown4_num_13, Szekeres.gdown4_num_20, Szekeres.gdown4_num_21, Szekeres.gdown4_num_22, Szekeres.gdown4_num_23, Szekeres.gdown4_num_30, Szekeres.gdown4_num_31, Szekeres.gdown4_num_32, Szekeres.gdown4_num_33, Szekeres.gammadown3_num, Szekeres.gammadown3_num_00, Szekeres.gammadown3_num_01, Szekeres.gammadown3_num_02, Szekeres.gammadown3_num_10, Szekeres.gammadown3_num_11, Szekeres.gammadown3_num_12, Szekeres.gammadown3_num_20, Szekeres.gammadown3_num_21, Szekeres.gammadown3_num_22, LCDM.gammadown3_num_00, LCDM.gammadown3_num_01, LCDM.gammadown3_num_02, LCDM.gammadown3_num_10, LCDM.gammadown3_num_11, LCDM.gammadown3_num_12, LCDM.gammadown3_num_20, LCDM.gammadown3_num_21, LCDM.gammadown3_num_22])

set_option maxHeartbeats 1000000 in
theorem Szekeres_d1 (hyp2f1 : ℝ → ℝ → ℝ → ℝ → ℝ) (hIP : ∀ τ, 0 < τ → HasDerivAt (Szekeres_IP hyp2f1) (Szekeres_PTI τ) τ) (t x y z : ℝ) (hD : (Szekeres_domain hyp2f1) t x y z) (c a b : Fin 4) :
    HasPartialAt (fun t x y z => Szekeres.gdown4_num hyp2f1 t x y z a b) c ((Szekeres_jet hyp2f1 t x y z).dg c a b) t x y z := by
  have ht : 0 < t := hD.1
  have htn : t ≠ 0 := ne_of_gt ht
  have han := (LCDM_a_pos t ht).ne'
  have hHn := (LCDM_H_pos t ht).ne'
  have hZn := hD.2
  have hA := LCDM_A_deriv t ht
  have hA1 := Szekeres_A1_deriv t ht
  have hfPd := Szekeres_fP_deriv hyp2f1 t ht (hIP _ (mul_pos Szekeres_tauC_pos ht))
  obtain ⟨hZt, hZx, hZy, hZz⟩ := Szekeres_Z_derivs hyp2f1 hIP t x y z ht
  have hb := Szekeres_b_deriv z
  have hb1 := Szekeres_b1_deriv z
  revert c a b
  refine forall4 ?_ ?_ ?_ ?_ <;> refine forall4 ?_ ?_ ?_ ?_ <;> refine forall4 ?_ ?_ ?_ ?_ <;>
    first
    | exact hasDerivAt_const _ _
    | (simp only [hasPartialAt_zero, hasPartialAt_one, hasPartialAt_two, hasPartialAt_three, Szekeres_gdown4_closed hyp2f1, Szekeres_jet, Szek.jet, Matrix.cons_val_zero, Matrix.cons_val_one, Matrix.cons_val]
       first | exact hasDerivAt_const _ _ | hasderiv_auto)

set_option maxHeartbeats 1000000 in
theorem Szekeres_d2_0 (hyp2f1 : ℝ → ℝ → ℝ → ℝ → ℝ) (hIP : ∀ τ, 0 < τ → HasDerivAt (Szekeres_IP hyp2f1) (Szekeres_PTI τ) τ) (t x y z : ℝ) (hD : (Szekeres_domain hyp2f1) t x y z) (d a b : Fin 4) :
    HasPartialAt (fun t x y z => (Szekeres_jet hyp2f1 t x y z).dg d a b) 0 ((Szekeres_jet hyp2f1 t x y z).ddg 0 d a b) t x y z := by
  have ht : 0 < t := hD.1
  have htn : t ≠ 0 := ne_of_gt ht
  have han := (LCDM_a_pos t ht).ne'
  have hHn := (LCDM_H_pos t ht).ne'
  have hZn := hD.2
  have hA := LCDM_A_deriv t ht
  have hA1 := Szekeres_A1_deriv t ht
  have hfPd := Szekeres_fP_deriv hyp2f1 t ht (hIP _ (mul_pos Szekeres_tauC_pos ht))
  obtain ⟨hZt, hZx, hZy, hZz⟩ := Szekeres_Z_derivs hyp2f1 hIP t x y z ht
  have hb := Szekeres_b_deriv z
  have hb1 := Szekeres_b1_deriv z
  revert d a b
  refine forall4 ?_ ?_ ?_ ?_ <;> refine forall4 ?_ ?_ ?_ ?_ <;> refine forall4 ?_ ?_ ?_ ?_ <;>
    first
    | exact hasDerivAt_const _ _
    | (simp only [hasPartialAt_zero, hasPartialAt_one, hasPartialAt_two, hasPartialAt_three, Szekeres_jet, Szek.jet, Matrix.cons_val_zero, Matrix.cons_val_one, Matrix.cons_val]
       first | exact hasDerivAt_const _ _ | hasderiv_auto)

set_option maxHeartbeats 1000000 in
theorem Szekeres_d2_1 (hyp2f1 : ℝ → ℝ → ℝ → ℝ → ℝ) (hIP : ∀ τ, 0 < τ → HasDerivAt (Szekeres_IP hyp2f1) (Szekeres_PTI τ) τ) (t x y z : ℝ) (hD : (Szekeres_domain hyp2f1) t x y z) (d a b : Fin 4) :
    HasPartialAt (fun t x y z => (Szekeres_jet hyp2f1 t x y z).dg d a b) 1 ((Szekeres_jet hyp2f1 t x y z).ddg 1 d a b) t x y z := by
  have ht : 0 < t := hD.1
  have htn : t ≠ 0 := ne_of_gt ht
  have han := (LCDM_a_pos t ht).ne'
  have hHn := (LCDM_H_pos t ht).ne'
  have hZn := hD.2
  have hA := LCDM_A_deriv t ht
  have hA1 := Szekeres_A1_deriv t ht
  have hfPd := Szekeres_fP_deriv hyp2f1 t ht (hIP _ (mul_pos Szekeres_tauC_pos ht))
  obtain ⟨hZt, hZx, hZy, hZz⟩ := Szekeres_Z_derivs hyp2f1 hIP t x y z ht
  have hb := Szekeres_b_deriv z
  have hb1 := Szekeres_b1_deriv z
  revert d a b
  refine forall4 ?_ ?_ ?_ ?_ <;> refine forall4 ?_ ?_ ?_ ?_ <;> refine forall4 ?_ ?_ ?_ ?_ <;>
    first
    | exact hasDerivAt_const _ _
    | (simp only [hasPartialAt_zero, hasPartialAt_one, hasPartialAt_two, hasPartialAt_three, Szekeres_jet, Szek.jet, Matrix.cons_val_zero, Matrix.cons_val_one, Matrix.cons_val]
       first | exact hasDerivAt_const _ _ | hasderiv_auto)

set_option maxHeartbeats 1000000 in
theorem Szekeres_d2_2 (hyp2f1 : ℝ → ℝ → ℝ → ℝ → ℝ) (hIP : ∀ τ, 0 < τ → HasDerivAt (Szekeres_IP hyp2f1) (Szekeres_PTI τ) τ) (t x y z : ℝ) (hD : (Szekeres_domain hyp2f1) t x y z) (d a b : Fin 4) :
    HasPartialAt (fun t x y z => (Szekeres_jet hyp2f1 t x y z).dg d a b) 2 ((Szekeres_jet hyp2f1 t x y z).ddg 2 d a b) t x y z := by
  have ht : 0 < t := hD.1
  have htn : t ≠ 0 := ne_of_gt ht
  have han := (LCDM_a_pos t ht).ne'
  have hHn := (LCDM_H_pos t ht).ne'
  have hZn := hD.2
  have hA := LCDM_A_deriv t ht
  have hA1 := Szekeres_A1_deriv t ht
  have hfPd := Szekeres_fP_deriv hyp2f1 t ht (hIP _ (mul_pos Szekeres_tauC_pos ht))
  obtain ⟨hZt, hZx, hZy, hZz⟩ := Szekeres_Z_derivs hyp2f1 hIP t x y z ht
  have hb := Szekeres_b_deriv z
  have hb1 := Szekeres_b1_deriv z
  revert d a b
  refine forall4 ?_ ?_ ?_ ?_ <;> refine forall4 ?_ ?_ ?_ ?_ <;> refine forall4 ?_ ?_ ?_ ?_ <;>
    first
    | exact hasDerivAt_const _ _
    | (simp only [hasPartialAt_zero, hasPartialAt_one, hasPartialAt_two, hasPartialAt_three, Szekeres_jet, Szek.jet, Matrix.cons_val_zero, Matrix.cons_val_one, Matrix.cons_val]
       first | exact hasDerivAt_const _ _ | hasderiv_auto)

set_option maxHeartbeats 1000000 in
theorem Szekeres_d2_3 (hyp2f1 : ℝ → ℝ → ℝ → ℝ → ℝ) (hIP : ∀ τ, 0 < τ → HasDerivAt (Szekeres_IP hyp2f1) (Szekeres_PTI τ) τ) (t x y z : ℝ) (hD : (Szekeres_domain hyp2f1) t x y z) (d a b : Fin 4) :
    HasPartialAt (fun t x y z => (Szekeres_jet hyp2f1 t x y z).dg d a b) 3 ((Szekeres_jet hyp2f1 t x y z).ddg 3 d a b) t x y z := by
  have ht : 0 < t := hD.1
  have htn : t ≠ 0 := ne_of_gt ht
  have han := (LCDM_a_pos t ht).ne'
  have hHn := (LCDM_H_pos t ht).ne'
  have hZn := hD.2
  have hA := LCDM_A_deriv t ht
  have hA1 := Szekeres_A1_deriv t ht
  have hfPd := Szekeres_fP_deriv hyp2f1 t ht (hIP _ (mul_pos Szekeres_tauC_pos ht))
  obtain ⟨hZt, hZx, hZy, hZz⟩ := Szekeres_Z_derivs hyp2f1 hIP t x y z ht
  have hb := Szekeres_b_deriv z
  have hb1 := Szekeres_b1_deriv z
  revert d a b
  refine forall4 ?_ ?_ ?_ ?_ <;> refine forall4 ?_ ?_ ?_ ?_ <;> refine forall4 ?_ ?_ ?_ ?_ <;>
    first
    | exact hasDerivAt_const _ _
    | (simp only [hasPartialAt_zero, hasPartialAt_one, hasPartialAt_two, hasPartialAt_three, Szekeres_jet, Szek.jet, Matrix.cons_val_zero, Matrix.cons_val_one, Matrix.cons_val]
       first | exact hasDerivAt_const _ _ | hasderiv_auto)

theorem Szekeres_isJetField (hyp2f1 : ℝ → ℝ → ℝ → ℝ → ℝ) (hIP : ∀ τ, 0 < τ → HasDerivAt (Szekeres_IP hyp2f1) (Szekeres_PTI τ) τ) : IsJetField (Szekeres_domain hyp2f1) (Szekeres.gdown4_num hyp2f1) (Szekeres_jet hyp2f1) where
  g_eq := by
    intro t x y z hD
    exact (Szekeres_gdown4_closed hyp2f1 t x y z).symm
  inverse := by
    intro t x y z hD
    have ht : 0 < t := hD.1
    have htn : t ≠ 0 := ne_of_gt ht
    have han := (LCDM_a_pos t ht).ne'
    have hHn := (LCDM_H_pos t ht).ne'
    have hZn := hD.2
    have hA := LCDM_A_deriv t ht
    have hA1 := Szekeres_A1_deriv t ht
    have hfPd := Szekeres_fP_deriv hyp2f1 t ht (hIP _ (mul_pos Szekeres_tauC_pos ht))
    obtain ⟨hZt, hZx, hZy, hZz⟩ := Szekeres_Z_derivs hyp2f1 hIP t x y z ht
    have hb := Szekeres_b_deriv z
    have hb1 := Szekeres_b1_deriv z
    exact Szek.jet_inverse _ _ _ _ _ _ _ _ _ _ _ (pow_ne_zero 2 han) (by positivity) hZn
  d1 := fun t x y z hD c a b => Szekeres_d1 hyp2f1 hIP t x y z hD c a b
  d2 := fun t x y z hD => forall4 (Szekeres_d2_0 hyp2f1 hIP t x y z hD) (Szekeres_d2_1 hyp2f1 hIP t x y z hD) (Szekeres_d2_2 hyp2f1 hIP t x y z hD) (Szekeres_d2_3 hyp2f1 hIP t x y z hD)

set_option maxHeartbeats 1000000 in
/-- Szekeres: all ten Einstein equations `G_ab + Λ g_ab = κ T_ab`, dust at rest with the module's `rho`
(`press = 0`), `Λ`, `κ` those of LCDM.  (Purely algebraic at the point: no hypergeometric hypothesis.) -/
theorem Szekeres_einstein (hyp2f1 : ℝ → ℝ → ℝ → ℝ → ℝ) (t x y z : ℝ) (hD : Szekeres_domain hyp2f1 t x y z) :
    (Szekeres_jet hyp2f1 t x y z).SolvesEinstein LCDM.Lambda LCDM.kappa
      (comovingFluid (Szekeres.rho hyp2f1 t x y z) (Szekeres.press t x y z) (Szekeres.gdown4_num hyp2f1 t x y z)) := by
  have ht : 0 < t := hD.1
  have han := (LCDM_a_pos t ht).ne'
  have hHn := (LCDM_H_pos t ht).ne'
  have hZn := hD.2
  have hk := LCDM_kappa_pos.ne'
  have hrho : LCDM.rho t = (3 * LCDM.Hprop t ^ 2 - LCDM.Lambda) / LCDM.kappa := by
    have := LCDM_friedmann t ht
    field_simp; linear_combination -this
  unfold Jet2.SolvesEinstein
  rw [Szekeres_gdown4_closed]
  unfold Szekeres_jet
  rw [Szek.Einstein_eq _ _ _ _ _ _ _ _ _ _ _ (pow_ne_zero 2 han) (by positivity) hZn]
  refine forall4 ?_ ?_ ?_ ?_ <;> refine forall4 ?_ ?_ ?_ ?_ <;>
    (simp only [Szek.EinsteinT, Szek.jet, comovingFluid, Szekeres.rho, Szekeres.press, Szekeres_F_closed, hrho, Matrix.cons_val_zero, Matrix.cons_val_one, Matrix.cons_val, Fin.isValue, Fin.reduceEq, if_true, if_false, reduceIte]
     generalize Szekeres.Z_terms_num_Z hyp2f1 t x y z = Z at *
     generalize Szekeres_fP hyp2f1 t = f
     generalize LCDM.a_num t = a at *
     generalize LCDM.Hprop t = H at *
     generalize LCDM.kappa = κ at *
     first | ring1 | (field_simp; ring1))
end AurelVerif.C17Ein
