/-
Lemmas/C20QuadAll.lean — the statements of Lemmas/C20Quad.lean WITHOUT the bounds
`|s| ≤ 2`, `l ≤ 12` (orthonormality for all integers: Lemmas/C20JacobiAll.lean),
with the explicit O(1/(Ntheta+1)²) bound of Lemmas/C20MidpointHarm.lean, and
the convergence of the round trip `sYlm_coefficients ∘ sYlm_reconstruct`:

* `gridGram_defect_all`     discrete Gram = identity on admissible modes + δ_{mm'}·thetaDefect
* `gridGram_near_identity_all`  … within `defectBound s N l m l'` = O(1/(N+1)²)
* `roundtrip_defect_all`    closed form of the round-trip defect, any spin, any lmax ≤ Ntheta
* `roundtrip_error_bound`   ‖coeffs(recon a)_{lm} − a_{lm}‖ ≤ Σ_{l'} defectBound(l, m, l')·‖a_{l'm}‖
* `roundtrip_tendsto`       coeffs(recon a)_{lm} → a_{lm} (l ≥ |s|) as Ntheta → ∞
-/
import AurelVerif.Lemmas.C20JacobiAll
import AurelVerif.Lemmas.C20MidpointHarm

namespace AurelVerif.HarmLemmas
open AurelVerif.Harm AurelVerif.HarmGram Complex
open scoped Real ComplexConjugate

/-- the explicit bound of `|thetaDefect s N l m l'|` (Lemmas/C20MidpointHarm.lean):
`√(R/π)·√(R'/π)·2π·Kθ·π³/(24·(N+1)²)` with the computable natural number
`Kθ s l m l' = 2·(Σ_{r,r'} |coef_r·coef_r'|)·(l+l'+1)²`. -/
noncomputable def defectBound (s : Int) (N : Nat) (l m l' : Int) : ℝ :=
  Real.sqrt (((normRadicand s l m : ℚ) : ℝ) / π) * Real.sqrt (((normRadicand s l' m : ℚ) : ℝ) / π)
    * (2 * π) * (((Kθ s l m l' : ℕ) : ℝ) * π ^ 3 / (24 * ((N + 1 : ℕ) : ℝ) ^ 2))

theorem thetaDefect_le_defectBound (s : Int) (N : Nat) (l m l' : Int) :
    |thetaDefect s N l m l'| ≤ defectBound s N l m l' := thetaDefect_bound s N l m l'

theorem defectBound_nonneg (s : Int) (N : Nat) (l m l' : Int) : 0 ≤ defectBound s N l m l' :=
  le_trans (abs_nonneg _) (thetaDefect_le_defectBound s N l m l')

/-- discrete Gram matrix = identity on admissible modes + θ-midpoint error, for ALL
spins and degrees (`|m − m'| ≤ Nφ`). -/
theorem gridGram_defect_all (s : Int) (N : Nat) (l m l' m' : Int)
    (hd : |m' - m| ≤ ((nPhi N : Nat) : Int)) :
    gridGram s N l m l' m'
      = (if l = l' ∧ m = m' ∧ |s| ≤ l ∧ |m| ≤ l then 1 else 0)
        + if m = m' then ((thetaDefect s N l m l' : ℝ) : ℂ) else 0 := by
  rw [gridGram_eq_contGram_add s N l m l' m' hd, contGram_orthonormal]

theorem gridGram_near_identity_all (s : Int) (N : Nat) (l m l' m' : Int)
    (hd : |m' - m| ≤ ((nPhi N : Nat) : Int)) :
    ‖gridGram s N l m l' m' - (if l = l' ∧ m = m' ∧ |s| ≤ l ∧ |m| ≤ l then 1 else 0)‖
      ≤ defectBound s N l m l' := by
  rw [gridGram_defect_all s N l m l' m' hd, add_sub_cancel_left]
  by_cases hmm : m = m'
  · rw [if_pos hmm, Complex.norm_real, Real.norm_eq_abs]
    exact thetaDefect_le_defectBound s N l m l'
  · rw [if_neg hmm, norm_zero]
    exact defectBound_nonneg s N l m l'

/-- **round trip = identity + θ-midpoint defect**, any spin, any `lmax ≤ Ntheta`. -/
theorem roundtrip_defect_all (s : Int) (lmax N : Nat) (hN : lmax ≤ N)
    (a : ModeIdx lmax → ℂ) (i : ModeIdx lmax) :
    coeffs (gridY s lmax N) (gridW N) (recon (gridY s lmax N) a) i
      = (if |s| ≤ i.1.1 then a i else 0)
        + ∑ j, (if i.1.2 = j.1.2 then ((thetaDefect s N i.1.1 i.1.2 j.1.1 : ℝ) : ℂ) else 0) * a j := by
  rw [coeffs_recon]
  have hi := (mem_modes lmax i.1.1 i.1.2).mp (by simpa using i.2)
  have hgram : ∀ j : ModeIdx lmax, gram (gridY s lmax N) (gridW N) i j
      = (if i = j then (if |s| ≤ i.1.1 then 1 else 0) else 0)
        + (if i.1.2 = j.1.2 then ((thetaDefect s N i.1.1 i.1.2 j.1.1 : ℝ) : ℂ) else 0) := by
    intro j
    have hj := (mem_modes lmax j.1.1 j.1.2).mp (by simpa using j.2)
    have hd : |j.1.2 - i.1.2| ≤ ((nPhi N : Nat) : Int) := by
      have h1 := abs_le.mp hi.2
      have h2 := abs_le.mp hj.2
      unfold nPhi
      rw [abs_le]; push_cast; constructor <;> omega
    rw [gram_gridY, gridGram_defect_all s N _ _ _ _ hd]
    congr 1
    by_cases hij : i = j
    · subst hij
      rw [if_pos rfl]
      by_cases hsl : |s| ≤ i.1.1
      · rw [if_pos ⟨rfl, rfl, hsl, hi.2⟩, if_pos hsl]
      · rw [if_neg (fun h => hsl h.2.2.1), if_neg hsl]
    · rw [if_neg hij, if_neg]
      rintro ⟨h1, h2, _⟩
      exact hij (Subtype.ext (Prod.ext h1 h2))
  simp only [hgram, add_mul, Finset.sum_add_distrib]
  congr 1
  simp [Finset.sum_ite_eq]

/-- explicit error bound of the round trip: only coefficients of the same `m`
contribute, each with the O(1/(N+1)²) bound of its θ-midpoint defect. -/
theorem roundtrip_error_bound (s : Int) (lmax N : Nat) (hN : lmax ≤ N)
    (a : ModeIdx lmax → ℂ) (i : ModeIdx lmax) :
    ‖coeffs (gridY s lmax N) (gridW N) (recon (gridY s lmax N) a) i - (if |s| ≤ i.1.1 then a i else 0)‖
      ≤ ∑ j, (if i.1.2 = j.1.2 then defectBound s N i.1.1 i.1.2 j.1.1 else 0) * ‖a j‖ := by
  rw [roundtrip_defect_all s lmax N hN a i, add_sub_cancel_left]
  refine le_trans (norm_sum_le _ _) (Finset.sum_le_sum fun j _ => ?_)
  rw [norm_mul]
  refine mul_le_mul_of_nonneg_right ?_ (norm_nonneg _)
  by_cases h : i.1.2 = j.1.2
  · rw [if_pos h, if_pos h, Complex.norm_real, Real.norm_eq_abs]
    exact thetaDefect_le_defectBound s N _ _ _
  · rw [if_neg h, if_neg h, norm_zero]

/-- **convergence of the round trip with the angular resolution**: for every spin,
every `lmax` and every coefficient set `a`, `sYlm_coefficients(sYlm_reconstruct(a))`
on the grid of `Psi4_lm` with `Ntheta = N` tends, key by key, to `a_{lm}` (to `0` for
the vanishing modes `l < |s|`) as `N → ∞`. -/
theorem roundtrip_tendsto (s : Int) (lmax : Nat) (a : ModeIdx lmax → ℂ) (i : ModeIdx lmax) :
    Filter.Tendsto
      (fun N : ℕ => coeffs (gridY s lmax N) (gridW N) (recon (gridY s lmax N) a) i)
      Filter.atTop (nhds (if |s| ≤ i.1.1 then a i else 0)) := by
  have hev : ∀ᶠ N : ℕ in Filter.atTop,
      (if |s| ≤ i.1.1 then a i else 0)
        + ∑ j, (if i.1.2 = j.1.2 then ((thetaDefect s N i.1.1 i.1.2 j.1.1 : ℝ) : ℂ) else 0) * a j
      = coeffs (gridY s lmax N) (gridW N) (recon (gridY s lmax N) a) i := by
    filter_upwards [Filter.eventually_ge_atTop lmax] with N hN
    exact (roundtrip_defect_all s lmax N hN a i).symm
  refine Filter.Tendsto.congr' hev ?_
  have hsum : Filter.Tendsto
      (fun N : ℕ => ∑ j, (if i.1.2 = j.1.2 then ((thetaDefect s N i.1.1 i.1.2 j.1.1 : ℝ) : ℂ) else 0) * a j)
      Filter.atTop (nhds (∑ j : ModeIdx lmax, (0 : ℂ))) := by
    apply tendsto_finsetSum
    intro j _
    by_cases h : i.1.2 = j.1.2
    · simp only [if_pos h]
      have h0 : Filter.Tendsto (fun N : ℕ => ((thetaDefect s N i.1.1 i.1.2 j.1.1 : ℝ) : ℂ))
          Filter.atTop (nhds ((0 : ℝ) : ℂ)) :=
        (Complex.continuous_ofReal.tendsto 0).comp (thetaDefect_tendsto_zero s i.1.1 i.1.2 j.1.1)
      have := h0.mul_const (a j)
      simpa using this
    · simp only [if_neg h, zero_mul]
      exact tendsto_const_nhds
  have := (tendsto_const_nhds (x := (if |s| ≤ i.1.1 then a i else 0)) (f := Filter.atTop (α := ℕ))).add hsum
  simpa using this

end AurelVerif.HarmLemmas
