/-
Lemmas/HarmPhi.lean — the φ grid of `Psi4_lm` integrates `e^{i d φ}` exactly
(discrete orthogonality in `m`), complex conjugation of the closed form, and
the algebraic structure of the coefficient / reconstruction sums.
-/
import Mathlib.Analysis.SpecialFunctions.Complex.Log
import Mathlib.Algebra.Field.GeomSum
import AurelVerif.Lemmas.Harm

namespace AurelVerif.HarmLemmas
open AurelVerif.Harm Complex
open scoped Real ComplexConjugate

/-! ### T2 -/

theorem phiNode_cast (Np k : Nat) :
    ((phiNode Np k : ℚ) : ℂ) = (2 * (k : ℂ) + 1) / ((Np : ℂ) + 1) := by
  unfold phiNode; push_cast; ring

theorem dPhi_eq (Np : Nat) : dPhi Np = 2 / ((Np : ℚ) + 1) := by
  unfold dPhi phiNode
  have : ((Np : ℚ) + 1) ≠ 0 := by positivity
  field_simp; push_cast; ring

theorem thetaNode_eq (N j : Nat) : thetaNode N j = (2 * (j : ℚ) + 1) / (2 * ((N : ℚ) + 1)) := by
  unfold thetaNode
  have : ((N : ℚ) + 1) ≠ 0 := by positivity
  field_simp

theorem dTheta_eq (N : Nat) : dTheta N = 1 / ((N : ℚ) + 1) := by
  unfold dTheta thetaNode
  have : ((N : ℚ) + 1) ≠ 0 := by positivity
  field_simp; push_cast; ring

/-- the `Nφ + 1` nodes `φ_k = 2π (k + ½)/(Nφ + 1)` with weight
`Δφ = φ_1 − φ_0` integrate `e^{i d φ}` exactly for every integer `|d| ≤ Nφ`. -/
theorem phi_quadrature (Np : Nat) (d : Int) (hd : |d| ≤ (Np : Int)) :
    ∑ k ∈ Finset.range (Np + 1),
        exp (I * (d : ℂ) * (((phiNode Np k : ℚ) : ℂ) * π)) * (((dPhi Np : ℚ) : ℂ) * π)
      = if d = 0 then 2 * (π : ℂ) else 0 := by
  have hN : ((Np : ℂ) + 1) ≠ 0 := by
    have : ((Np + 1 : ℕ) : ℂ) ≠ 0 := Nat.cast_ne_zero.mpr (Nat.succ_ne_zero Np)
    simpa using this
  have hdphi : ((dPhi Np : ℚ) : ℂ) = 2 / ((Np : ℂ) + 1) := by
    rw [dPhi_eq]; push_cast; ring
  simp only [phiNode_cast, hdphi]
  split
  · rename_i h0
    subst h0
    simp only [Int.cast_zero, mul_zero, zero_mul, exp_zero, one_mul, Finset.sum_const,
      Finset.card_range, nsmul_eq_mul]
    push_cast
    field_simp
  · rename_i h0
    -- ω = e^{2π i d/(Nφ+1)} is a non-trivial (Nφ+1)-th root of unity
    set ω : ℂ := exp ((d : ℂ) / ((Np : ℂ) + 1) * (2 * π * I)) with hω
    have hpow : ω ^ (Np + 1) = 1 := by
      rw [hω, ← exp_nat_mul]
      have : ((Np + 1 : ℕ) : ℂ) * ((d : ℂ) / ((Np : ℂ) + 1) * (2 * π * I)) = (d : ℂ) * (2 * π * I) := by
        push_cast; field_simp
      rw [this]; exact exp_int_mul_two_pi_mul_I d
    have hne : ω ≠ 1 := by
      intro h1
      rw [hω, exp_eq_one_iff] at h1
      obtain ⟨n, hn⟩ := h1
      have h2pi : (2 * (π : ℂ) * I) ≠ 0 := by
        simp [Real.pi_ne_zero, I_ne_zero]
      have hdn : (d : ℂ) / ((Np : ℂ) + 1) = (n : ℂ) := mul_right_cancel₀ h2pi hn
      have hdn' : (d : ℂ) = (n : ℂ) * ((Np : ℂ) + 1) := by
        rw [← hdn]; field_simp
      have hZ : d = n * ((Np : Int) + 1) := by exact_mod_cast hdn'
      have hd' := abs_le.mp hd
      rcases lt_trichotomy n 0 with hn0 | hn0 | hn0
      · have : n * ((Np : Int) + 1) ≤ -1 * ((Np : Int) + 1) :=
          Int.mul_le_mul_of_nonneg_right (by omega) (by omega)
        omega
      · subst hn0; simp at hZ; exact h0 hZ
      · have : 1 * ((Np : Int) + 1) ≤ n * ((Np : Int) + 1) :=
          Int.mul_le_mul_of_nonneg_right (by omega) (by omega)
        omega
    have hgeom : ∑ k ∈ Finset.range (Np + 1), ω ^ k = 0 := by
      rw [geom_sum_eq hne, hpow, sub_self, zero_div]
    have hterm : ∀ k : ℕ,
        exp (I * (d : ℂ) * ((2 * (k : ℂ) + 1) / ((Np : ℂ) + 1) * π))
          = exp (I * (d : ℂ) * π / ((Np : ℂ) + 1)) * ω ^ k := by
      intro k
      rw [hω, ← exp_nat_mul, ← exp_add]
      congr 1
      field_simp
      ring
    simp only [hterm]
    rw [← Finset.sum_mul, ← Finset.mul_sum, hgeom, mul_zero, zero_mul]

/-- the bound `|d| ≤ Nφ` is sharp: `d = Nφ + 1` aliases to the constant `−1`
and the rule returns `−2π` instead of `0`. -/
theorem phi_quadrature_alias (Np : Nat) :
    ∑ k ∈ Finset.range (Np + 1),
        exp (I * (((Np : Int) + 1 : ℤ) : ℂ) * (((phiNode Np k : ℚ) : ℂ) * π)) * (((dPhi Np : ℚ) : ℂ) * π)
      = -(2 * (π : ℂ)) := by
  have hN : ((Np : ℂ) + 1) ≠ 0 := by
    have : ((Np + 1 : ℕ) : ℂ) ≠ 0 := Nat.cast_ne_zero.mpr (Nat.succ_ne_zero Np)
    simpa using this
  have hdphi : ((dPhi Np : ℚ) : ℂ) = 2 / ((Np : ℂ) + 1) := by
    rw [dPhi_eq]; push_cast; ring
  have hterm : ∀ k : ℕ,
      exp (I * (((Np : Int) + 1 : ℤ) : ℂ) * (((phiNode Np k : ℚ) : ℂ) * π)) = -1 := by
    intro k
    rw [phiNode_cast]
    have : I * (((Np : Int) + 1 : ℤ) : ℂ) * ((2 * (k : ℂ) + 1) / ((Np : ℂ) + 1) * π)
        = (k : ℂ) * (2 * π * I) + π * I := by
      push_cast; field_simp
    rw [this, exp_add, exp_nat_mul_two_pi_mul_I, exp_pi_mul_I, one_mul]
  simp only [hterm, hdphi, Finset.sum_const, Finset.card_range, nsmul_eq_mul]
  push_cast
  field_simp

/-- orthogonality form: `Σ_k conj(e^{i m' φ_k}) e^{i m φ_k} Δφ = 2π δ_{m m'}`
for `|m − m'| ≤ Nφ`. -/
theorem phi_orthogonal (Np : Nat) (m m' : Int) (hd : |m - m'| ≤ (Np : Int)) :
    ∑ k ∈ Finset.range (Np + 1),
        conj (exp (I * (m' : ℂ) * (((phiNode Np k : ℚ) : ℂ) * π)))
          * exp (I * (m : ℂ) * (((phiNode Np k : ℚ) : ℂ) * π)) * (((dPhi Np : ℚ) : ℂ) * π)
      = if m = m' then 2 * (π : ℂ) else 0 := by
  have key := phi_quadrature Np (m - m') hd
  have hterm : ∀ k : ℕ,
      conj (exp (I * (m' : ℂ) * (((phiNode Np k : ℚ) : ℂ) * π)))
          * exp (I * (m : ℂ) * (((phiNode Np k : ℚ) : ℂ) * π))
        = exp (I * ((m - m' : ℤ) : ℂ) * (((phiNode Np k : ℚ) : ℂ) * π)) := by
    intro k
    rw [← exp_conj, ← exp_add]
    congr 1
    simp only [map_mul, conj_I, conj_ofReal, map_intCast, map_ratCast]
    push_cast; ring
  simp only [hterm]
  rw [key]
  have : (m - m' = 0) ↔ m = m' := sub_eq_zero
  simp only [this]

/-! ### T4 over ℂ: the closed form with its real normalisation and phase -/

/-- the value `maths.sYlm` computes, over the reals/complexes:
`√(radicand/π) · Σ_r … · e^{imφ}` with `c = cos(θ/2)`, `sn = sin(θ/2)`. -/
noncomputable def sYlmC (s l m : Int) (θ φ : ℝ) : ℂ :=
  ((Real.sqrt (((normRadicand s l m : ℚ) : ℝ) / π) : ℝ) : ℂ)
    * ((evalK (harmTerms s l m) (Real.cos (θ / 2)) (Real.sin (θ / 2)) : ℝ) : ℂ)
    * exp (I * (m : ℂ) * (φ : ℂ))

theorem conj_sYlmC (s l m : Int) (θ φ : ℝ) :
    conj (sYlmC s l m θ φ) = ((negOnePow (s + m) : ℤ) : ℂ) * sYlmC (-s) l (-m) θ φ := by
  unfold sYlmC
  rw [normRadicand_neg, evalK_neg]
  simp only [map_mul, conj_ofReal, ← exp_conj, conj_I, map_intCast]
  have h1 : (((negOnePow (s + m) : ℤ) : ℂ)) * (((negOnePow (s + m) : ℤ) : ℝ) : ℂ) = 1 := by
    have := negOnePow_sq (s + m)
    have h : (((negOnePow (s + m) * negOnePow (s + m) : ℤ)) : ℂ) = 1 := by rw [this]; simp
    push_cast at h ⊢; exact h
  have h2 : -I * (m : ℂ) * (φ : ℂ) = I * ((-m : ℤ) : ℂ) * (φ : ℂ) := by push_cast; ring
  rw [h2]
  push_cast
  push_cast at h1
  linear_combination
    (-(((Real.sqrt (((normRadicand s l m : ℚ) : ℝ) / π) : ℝ) : ℂ)
      * ((evalK (harmTerms s l m) (Real.cos (θ / 2)) (Real.sin (θ / 2)) : ℝ) : ℂ)
      * exp (I * (-(m : ℂ)) * (φ : ℂ)))) * h1

/-! ### exact orthogonality in `m` on the extraction grid of `Psi4_lm` -/

/-- the discrete inner product `sYlm_coefficients` computes between two
harmonics of the same spin on the grid of `Psi4_lm` with `Ntheta = N`:
`Σ_j Σ_k conj(Y_{lm}) Y_{l'm'} · sin θ_j · Δθ · Δφ`. -/
noncomputable def gridGram (s : Int) (N : Nat) (l m l' m' : Int) : ℂ :=
  ∑ j ∈ Finset.range (N + 1), ∑ k ∈ Finset.range (nPhi N + 1),
    conj (sYlmC s l m (((thetaNode N j : ℚ) : ℝ) * π) (((phiNode (nPhi N) k : ℚ) : ℝ) * π))
      * sYlmC s l' m' (((thetaNode N j : ℚ) : ℝ) * π) (((phiNode (nPhi N) k : ℚ) : ℝ) * π)
      * (((Real.sin (((thetaNode N j : ℚ) : ℝ) * π) * (((dTheta N : ℚ) : ℝ) * π) : ℝ) : ℂ)
          * (((dPhi (nPhi N) : ℚ) : ℂ) * π))

/-- harmonics with different `m` are EXACTLY orthogonal on the code's grid
(whatever the θ nodes and weights are) as long as `|m − m'| ≤ Nφ = 2 Ntheta`. -/
theorem gridGram_offdiag (s : Int) (N : Nat) (l m l' m' : Int)
    (hmm : m ≠ m') (hd : |m' - m| ≤ ((nPhi N : Nat) : Int)) :
    gridGram s N l m l' m' = 0 := by
  unfold gridGram
  apply Finset.sum_eq_zero
  intro j _
  have key := phi_orthogonal (nPhi N) m' m hd
  rw [if_neg (fun h => hmm h.symm)] at key
  unfold sYlmC
  set A : ℂ := ((Real.sqrt (((normRadicand s l m : ℚ) : ℝ) / π) : ℝ) : ℂ)
  set A' : ℂ := ((Real.sqrt (((normRadicand s l' m' : ℚ) : ℝ) / π) : ℝ) : ℂ)
  set B : ℂ := ((evalK (harmTerms s l m) (Real.cos (((thetaNode N j : ℚ) : ℝ) * π / 2))
      (Real.sin (((thetaNode N j : ℚ) : ℝ) * π / 2)) : ℝ) : ℂ)
  set B' : ℂ := ((evalK (harmTerms s l' m') (Real.cos (((thetaNode N j : ℚ) : ℝ) * π / 2))
      (Real.sin (((thetaNode N j : ℚ) : ℝ) * π / 2)) : ℝ) : ℂ)
  set W : ℂ := ((Real.sin (((thetaNode N j : ℚ) : ℝ) * π) * (((dTheta N : ℚ) : ℝ) * π) : ℝ) : ℂ)
  have hA : conj A = A := conj_ofReal _
  have hB : conj B = B := conj_ofReal _
  have hterm : ∀ k : ℕ,
      conj (A * B * exp (I * (m : ℂ) * ((((phiNode (nPhi N) k : ℚ) : ℝ) * π : ℝ) : ℂ)))
        * (A' * B' * exp (I * (m' : ℂ) * ((((phiNode (nPhi N) k : ℚ) : ℝ) * π : ℝ) : ℂ)))
        * (W * (((dPhi (nPhi N) : ℚ) : ℂ) * π))
      = (A * B * A' * B' * W) *
        (conj (exp (I * (m : ℂ) * (((phiNode (nPhi N) k : ℚ) : ℂ) * π)))
          * exp (I * (m' : ℂ) * (((phiNode (nPhi N) k : ℚ) : ℂ) * π)) * (((dPhi (nPhi N) : ℚ) : ℂ) * π)) := by
    intro k
    rw [map_mul, map_mul, hA, hB]
    push_cast
    ring
  simp only [hterm]
  rw [← Finset.mul_sum, key, mul_zero]

/-! ### T5: algebraic structure of `sYlm_coefficients` / `sYlm_reconstruct`

`ι` = the modes `(l, m)` of `modes lmax`, `κ` = the points of the angular grid,
`Y i p` = the harmonic of mode `i` at point `p`, `w p` = `dtheta_weight · dphi`. -/

/-- `alm[i] = Σ_p conj(Y_i(p)) · f(p) · w(p)` -/
def coeffs {ι κ : Type} [Fintype κ] (Y : ι → κ → ℂ) (w : κ → ℂ) (f : κ → ℂ) (i : ι) : ℂ :=
  ∑ p, conj (Y i p) * f p * w p

/-- `f(p) = Σ_i alm[i] · Y_i(p)` -/
def recon {ι κ : Type} [Fintype ι] (Y : ι → κ → ℂ) (a : ι → ℂ) (p : κ) : ℂ :=
  ∑ i, a i * Y i p

/-- discrete Gram matrix of the harmonics on the grid -/
def gram {ι κ : Type} [Fintype κ] (Y : ι → κ → ℂ) (w : κ → ℂ) (i j : ι) : ℂ :=
  ∑ p, conj (Y i p) * Y j p * w p

theorem coeffs_linear {ι κ : Type} [Fintype κ] (Y : ι → κ → ℂ) (w : κ → ℂ)
    (α β : ℂ) (f g : κ → ℂ) (i : ι) :
    coeffs Y w (fun p => α * f p + β * g p) i = α * coeffs Y w f i + β * coeffs Y w g i := by
  unfold coeffs
  rw [Finset.mul_sum, Finset.mul_sum, ← Finset.sum_add_distrib]
  apply Finset.sum_congr rfl
  intro p _; ring

theorem recon_linear {ι κ : Type} [Fintype ι] (Y : ι → κ → ℂ)
    (α β : ℂ) (a b : ι → ℂ) (p : κ) :
    recon Y (fun i => α * a i + β * b i) p = α * recon Y a p + β * recon Y b p := by
  unfold recon
  rw [Finset.mul_sum, Finset.mul_sum, ← Finset.sum_add_distrib]
  apply Finset.sum_congr rfl
  intro i _; ring

/-- decomposition after synthesis is multiplication by the Gram matrix -/
theorem coeffs_recon {ι κ : Type} [Fintype ι] [Fintype κ] (Y : ι → κ → ℂ) (w : κ → ℂ)
    (a : ι → ℂ) (i : ι) :
    coeffs Y w (recon Y a) i = ∑ j, gram Y w i j * a j := by
  unfold coeffs recon gram
  simp only [Finset.mul_sum, Finset.sum_mul]
  rw [Finset.sum_comm]
  apply Finset.sum_congr rfl
  intro j _
  apply Finset.sum_congr rfl
  intro p _; ring

/-- hence: if the harmonics are orthonormal on the grid with the weights used
(the part that is NOT proven in Lean: it holds only up to quadrature error in θ),
decomposition inverts synthesis exactly. -/
theorem roundtrip_of_orthonormal {ι κ : Type} [Fintype ι] [Fintype κ] [DecidableEq ι]
    (Y : ι → κ → ℂ) (w : κ → ℂ)
    (h : ∀ i j, gram Y w i j = if i = j then 1 else 0) (a : ι → ℂ) (i : ι) :
    coeffs Y w (recon Y a) i = a i := by
  rw [coeffs_recon]
  simp [h]

end AurelVerif.HarmLemmas
