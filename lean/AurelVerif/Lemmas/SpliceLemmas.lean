/-
Lemmas/SpliceLemmas.lean — the splicing model computes the intended rows.
(Mathlib-free parts of the proofs: Lemmas/SpliceAux.lean, Lemmas/SpliceSpec.lean.)
-/
import AurelVerif.Lemmas.Stencil
import AurelVerif.Lemmas.SpliceSpec
import AurelVerif.Gen.Stencils

namespace AurelVerif.SpliceLemmas
open AurelVerif.Splice AurelVerif.StencilLemmas AurelVerif.Gen.Stencils

theorem onesided_spec_lemma {α : Type} (s : Scheme) (p : Nat) (hs : shapesOK s p = true)
    (f : List α) (N : Nat) (hf : f.length = N) (hN : 3 * s.maskLen ≤ N) :
    d3Onesided s f N = (List.range N).mapM (fun i => directRow (pickOnesided s N i) f i)
    ∧ ∀ i < N, (directRow (pickOnesided s N i) f i).isSome :=
  onesided_spec_aux s p hs f N hf hN

theorem periodic_spec_lemma {α : Type} (s : Scheme) (p : Nat) (hs : shapesOK s p = true)
    (f : List α) (N : Nat) (hf : f.length = N) (hm : 1 ≤ s.maskLen) (hN : s.maskLen ≤ N) :
    d3Periodic s f N = (List.range N).mapM (fun i => wrapRow s.cen f N i)
    ∧ ∀ i < N, (wrapRow s.cen f N i).isSome :=
  periodic_spec_aux s p hs f N hf hm hN

theorem symmetric_spec_lemma {α : Type} (s : Scheme) (p : Nat) (hs : shapesOK s p = true)
    (f : List α) (N : Nat) (hf : f.length = N) (hm : 1 ≤ s.maskLen) (hN : s.maskLen + 1 ≤ N) :
    d3Symmetric s f N = (List.range N).mapM (fun i => reflRow s.cen f N i)
    ∧ ∀ i < N, (reflRow s.cen f N i).isSome :=
  symmetric_spec_aux s p hs f N hf hm hN

theorem evalLin_nil {K : Type} [Field K] : evalLin ([] : Lin K) = 0 := rfl

theorem evalLin_cons {K : Type} [Field K] (ca : Rat × K) (row : Lin K) :
    evalLin (ca :: row) = ((ca.1 : ℚ) : K) * ca.2 + evalLin row := by
  simp [evalLin]

/-- the value of a `directRow` on a sampled function is the stencil applied to
the function shifted to the row's base point. -/
theorem evalLin_directRow {K : Type} [Field K] (st : Stencil) (G : Nat → K) (N i : Nat)
    (g : Int → K) (hg : ∀ k : Int, 0 ≤ (i : Int) + k → g k = G ((i : Int) + k).toNat)
    (row : Lin K) (h : directRow st ((List.range N).map G) i = some row) :
    evalLin row = evalSt st g := by
  induction st generalizing row with
  | nil =>
    simp [directRow] at h
    subst h; rfl
  | cons kc st ih =>
    unfold directRow at h
    rw [mapM_cons_opt] at h
    by_cases h0 : 0 ≤ (i : Int) + kc.1
    · rw [if_pos h0] at h
      cases hget : ((List.range N).map G)[((i : Int) + kc.1).toNat]? with
      | none => rw [hget] at h; simp at h
      | some a =>
        have hrest : ∃ rest, directRow st ((List.range N).map G) i = some rest ∧ row = (kc.2, a) :: rest := by
          rw [hget] at h
          unfold directRow
          cases hr : st.mapM (fun kc =>
              if 0 ≤ (i : Int) + kc.1 then
                (((List.range N).map G)[((i : Int) + kc.1).toNat]?).map (fun a => (kc.2, a))
              else none) with
          | none => rw [hr] at h; simp at h
          | some rest =>
            rw [hr] at h
            simp at h
            exact ⟨rest, rfl, h.symm⟩
        obtain ⟨rest, hrest, rfl⟩ := hrest
        rw [evalLin_cons, evalSt_cons, ih rest hrest]
        have ha : a = g kc.1 := by
          rw [hg kc.1 h0]
          rw [List.getElem?_map] at hget
          cases hrg : (List.range N)[((i : Int) + kc.1).toNat]? with
          | none => rw [hrg] at hget; simp at hget
          | some j =>
            rw [hrg] at hget
            simp at hget
            rw [List.getElem?_eq_some_iff] at hrg
            obtain ⟨hlt, hj⟩ := hrg
            rw [List.getElem_range] at hj
            rw [hj, hget]
        rw [ha]
    · rw [if_neg h0] at h
      simp at h

theorem scheme_tables_ok : ∀ o ∈ orders, schemeOK (scheme o) o = true := by
  decide +kernel

theorem schemeOK_iff (s : Scheme) (p : Nat) (h : schemeOK s p = true) :
    shapesOK s p = true ∧ momentsOK s.fwd p = true ∧ momentsOK s.cen p = true
      ∧ momentsOK s.bwd p = true := by
  unfold schemeOK at h
  simp only [Bool.and_eq_true] at h
  obtain ⟨⟨⟨⟨⟨⟨h1, _⟩, _⟩, _⟩, h5⟩, h6⟩, h7⟩ := h
  exact ⟨h1, h5, h6, h7⟩

/-- T9 with the sample list written with an explicit `ℕ`-indexed binder. -/
theorem onesided_exact_clean {K : Type} [Field K] [CharZero K]
    (o : Nat) (ho : o ∈ orders) (N : Nat) (hN : 3 * (scheme o).maskLen ≤ N)
    (q : Polynomial K) (hq : q.natDegree ≤ o) (x₀ h : K) (hh : h ≠ 0) :
    ∃ rows, d3Onesided (scheme o) ((List.range N).map fun (j : ℕ) => q.eval (x₀ + (j : K) * h)) N = some rows
      ∧ rows.length = N
      ∧ ∀ i (hi : i < rows.length), evalLin (rows[i]) * h⁻¹ = q.derivative.eval (x₀ + (i : K) * h) := by
  obtain ⟨hshape, hmf, hmc, hmb⟩ := schemeOK_iff _ _ (scheme_tables_ok o ho)
  obtain ⟨hspec, hsome⟩ := onesided_spec_aux (scheme o) o hshape
    ((List.range N).map fun (j : ℕ) => q.eval (x₀ + (j : K) * h)) N (by simp) hN
  have hall : ((List.range N).mapM (fun i => directRow (pickOnesided (scheme o) N i)
      ((List.range N).map fun (j : ℕ) => q.eval (x₀ + (j : K) * h)) i)).isSome := by
    apply mapM_isSome_opt
    intro i hi
    exact hsome i (List.mem_range.mp hi)
  obtain ⟨rows, hrows⟩ := Option.isSome_iff_exists.mp hall
  have hlen : rows.length = N := by
    rw [mapM_length_opt _ _ _ hrows, List.length_range]
  refine ⟨rows, by rw [hspec, hrows], hlen, ?_⟩
  intro i hi
  have hiN : i < N := by omega
  have hrow := mapM_getElem_opt _ _ _ hrows i hi (by simpa using hiN)
  rw [List.getElem_range] at hrow
  have hmom : momentsOK (pickOnesided (scheme o) N i) o = true := by
    unfold pickOnesided
    split
    · exact hmf
    · split
      · exact hmc
      · exact hmb
  have heval := evalLin_directRow (pickOnesided (scheme o) N i)
    (fun (j : ℕ) => q.eval (x₀ + (j : K) * h)) N i
    (fun k => q.eval ((x₀ + (i : K) * h) + (k : K) * h))
    (by
      intro k hk
      have hc : ((((i : Int) + k).toNat : Nat) : K) = (i : K) + (k : K) := by
        have : ((((i : Int) + k).toNat : Nat) : Int) = (i : Int) + k := Int.toNat_of_nonneg hk
        have h2 : ((((((i : Int) + k).toNat : Nat) : Int)) : K) = (((i : Int) + k : Int) : K) := by
          rw [this]
        rw [Int.cast_natCast, Int.cast_add, Int.cast_natCast] at h2
        exact h2
      show q.eval ((x₀ + (i : K) * h) + (k : K) * h) = q.eval (x₀ + ((((i : Int) + k).toNat : Nat) : K) * h)
      rw [hc]; ring_nf)
    rows[i] hrow
  rw [heval]
  exact exact_of_moments _ o hmom q hq _ h hh

theorem onesided_exact_lemma {K : Type} [Field K] [CharZero K]
    (o : Nat) (ho : o ∈ orders) (N : Nat) (hN : 3 * (scheme o).maskLen ≤ N)
    (q : Polynomial K) (hq : q.natDegree ≤ o) (x₀ h : K) (hh : h ≠ 0) :
    ∃ rows, d3Onesided (scheme o) ((List.range N).map fun (j : ℕ) => q.eval (x₀ + (j : K) * h)) N = some rows
      ∧ rows.length = N
      ∧ ∀ i (hi : i < rows.length), evalLin (rows[i]) * h⁻¹ = q.derivative.eval (x₀ + (i : K) * h) := by
  -- NB: as written (binder `fun j` with `(j : K)`), Lean elaborates the sample
  -- list as `List.map (fun (j : K) => …) (do let a ← List.range N; pure ↑a)`,
  -- i.e. the list `List.range N` cast to `K` element-wise first.  It is the
  -- same list as the one with the `ℕ`-indexed binder:
  have hlist : ((List.range N).map fun (j : ℕ) => q.eval (x₀ + (j : K) * h) : List K)
      = (List.range N).map fun (j : ℕ) => q.eval (x₀ + (j : K) * h) := by
    have hflat : ∀ l : List ℕ, List.flatMap (fun (a : ℕ) => [(Nat.cast a : K)]) l
        = List.map (fun (a : ℕ) => (Nat.cast a : K)) l := by
      intro l
      induction l with
      | nil => rfl
      | cons a t ih => simp [List.flatMap_cons, ih]
    simp [hflat, List.map_map, Function.comp_def]
  rw [hlist]
  exact onesided_exact_clean o ho N hN q hq x₀ h hh

theorem d3_natural_lemma {α β : Type} (g : α → β) (b : Boundary) (s : Scheme) (f : List α) (N : Nat) :
    d3 b s (f.map g) N = (d3 b s f N).map (fun rows => rows.map (fun row => row.map (fun ca => (ca.1, g ca.2)))) :=
  d3_natural_aux g b s f N

theorem transpose12_involutive_lemma {β : Type} (f : List (List β)) (n : Nat)
    (hrect : ∀ r ∈ f, r.length = n) (hne : f ≠ []) (hn : 0 < n) :
    transpose12 (transpose12 f) = f :=
  transpose12_involutive_aux f n hrect hne hn

end AurelVerif.SpliceLemmas
