/-
Lemmas/SpliceLemmas.lean — the splicing model computes the intended rows.
-/
import AurelVerif.Lemmas.Stencil
import AurelVerif.Gen.Stencils

namespace AurelVerif.SpliceLemmas
open AurelVerif.Splice AurelVerif.StencilLemmas AurelVerif.Gen.Stencils

theorem onesided_spec_lemma {α : Type} (s : Scheme) (p : Nat) (hs : shapesOK s p = true)
    (f : List α) (N : Nat) (hf : f.length = N) (hN : 3 * s.maskLen ≤ N) :
    d3Onesided s f N = (List.range N).mapM (fun i => directRow (pickOnesided s N i) f i)
    ∧ ∀ i < N, (directRow (pickOnesided s N i) f i).isSome := by
  sorry

theorem periodic_spec_lemma {α : Type} (s : Scheme) (p : Nat) (hs : shapesOK s p = true)
    (f : List α) (N : Nat) (hf : f.length = N) (hm : 1 ≤ s.maskLen) (hN : s.maskLen ≤ N) :
    d3Periodic s f N = (List.range N).mapM (fun i => wrapRow s.cen f N i)
    ∧ ∀ i < N, (wrapRow s.cen f N i).isSome := by
  sorry

theorem symmetric_spec_lemma {α : Type} (s : Scheme) (p : Nat) (hs : shapesOK s p = true)
    (f : List α) (N : Nat) (hf : f.length = N) (hm : 1 ≤ s.maskLen) (hN : s.maskLen + 1 ≤ N) :
    d3Symmetric s f N = (List.range N).mapM (fun i => reflRow s.cen f N i)
    ∧ ∀ i < N, (reflRow s.cen f N i).isSome := by
  sorry

theorem onesided_exact_lemma {K : Type} [Field K] [CharZero K]
    (o : Nat) (ho : o ∈ orders) (N : Nat) (hN : 3 * (scheme o).maskLen ≤ N)
    (q : Polynomial K) (hq : q.natDegree ≤ o) (x₀ h : K) (hh : h ≠ 0) :
    ∃ rows, d3Onesided (scheme o) ((List.range N).map fun j => q.eval (x₀ + (j : K) * h)) N = some rows
      ∧ rows.length = N
      ∧ ∀ i (hi : i < rows.length), evalLin (rows[i]) * h⁻¹ = q.derivative.eval (x₀ + (i : K) * h) := by
  sorry

theorem d3_natural_lemma {α β : Type} (g : α → β) (b : Boundary) (s : Scheme) (f : List α) (N : Nat) :
    d3 b s (f.map g) N = (d3 b s f N).map (fun rows => rows.map (fun row => row.map (fun ca => (ca.1, g ca.2)))) := by
  sorry

theorem transpose12_involutive_lemma {β : Type} (f : List (List β)) (n : Nat)
    (hrect : ∀ r ∈ f, r.length = n) (hne : f ≠ []) (hn : 0 < n) :
    transpose12 (transpose12 f) = f := by
  sorry

end AurelVerif.SpliceLemmas
