/-
Lemmas/CacheGetM.lean — a sharper branch-coherence hypothesis for Model/CacheGet.lean (property C01, extension
round).  Core Lean only.

`TableCoh` (Lemmas/CacheGet.lean) asks every alternative of a body to be coherent whenever SOME cache content that
contains the frozen inputs takes that branch.  The cache, however, only ever contains frozen inputs and values
stored by `__getitem__` for keys that HAVE a method.  A name without a method (the real table: `Weyl_Psi4r`,
`Weyl_Psi4i`) is therefore cached iff it is a frozen input, and a test `'Weyl_Psi4r' in self.data` has the same
outcome at every point of every history.  `FeasibleM` restricts the cache contents accordingly, `TableCohM` is the
weaker hypothesis obtained, and the transparency invariant is re-proved with the extra clause "every cached key is a
frozen input or has a method".  `TableCoh → TableCohM` (`TableCoh.toM`), so nothing is lost.
-/
import AurelVerif.Lemmas.CacheGet

set_option linter.unusedSectionVars false

namespace AurelVerif.CacheGet
open AurelVerif.Cache AurelVerif.Cache.Dict

variable {κ ν σ : Type} [DecidableEq κ]

/-- a key that can be in the cache at all: a frozen input, or a name with a method. -/
def Reach (T : Table κ ν) (F : κ → Prop) (k : κ) : Prop := F k ∨ (T.shape k).isSome = true

/-- A test outcome is feasible if some cache content containing all frozen inputs AND only reachable keys
produces it. -/
def FeasibleM (T : Table κ ν) (F : κ → Prop) (g : Guard κ) (b : Bool) : Prop :=
  ∃ P : κ → Bool, (∀ k, F k → P k = true) ∧ (∀ k, P k = true → Reach T F k) ∧ g.eval P T.flag = b

theorem FeasibleM.toFeasible {T : Table κ ν} {F : κ → Prop} {g : Guard κ} {b : Bool} (h : FeasibleM T F g b) :
    Feasible T F g b := let ⟨P, h1, _, h3⟩ := h; ⟨P, h1, h3⟩

/-- branch coherence of one body with the sharper feasibility. -/
def CohM (T : Table κ ν) (den : κ → ν) (F : κ → Prop) (target : ν) (k0 : κ) : Shape κ → List ν → Prop
  | .ret i, vs => T.leaf k0 i vs = target
  | .read k n, vs => CohM T den F target k0 n (vs ++ [den k])
  | .peek k n, vs => CohM T den F target k0 n (vs ++ [den k])
  | .rep cnt ks n, vs => CohM T den F target k0 n (vs ++ repVals den (T.countOf cnt) ks)
  | .test g t e, vs => (FeasibleM T F g true → CohM T den F target k0 t vs)
      ∧ (FeasibleM T F g false → CohM T den F target k0 e vs)
  | .fail, _ => True

theorem Coh.toM {T : Table κ ν} {den : κ → ν} {F : κ → Prop} {target : ν} {k0 : κ} :
    ∀ (sh : Shape κ) (vs : List ν), Coh T den F target k0 sh vs → CohM T den F target k0 sh vs := by
  intro sh
  induction sh with
  | ret i => intro vs h; exact h
  | read k n ih => intro vs h; exact ih _ h
  | peek k n ih => intro vs h; exact ih _ h
  | rep cnt ks n ih => intro vs h; exact ih _ h
  | test g t e iht ihe =>
    intro vs h
    exact ⟨fun hf => iht vs (h.1 hf.toFeasible), fun hf => ihe vs (h.2 hf.toFeasible)⟩
  | fail => intro _ _; trivial

/-- (H2, sharper) for a whole table. -/
def TableCohM (T : Table κ ν) (den : κ → ν) (F : κ → Prop) : Prop :=
  ∀ k sh, ¬ F k → T.shape k = some sh → CohM T den F (den k) k sh []

theorem TableCoh.toM {T : Table κ ν} {den : κ → ν} {F : κ → Prop} (h : TableCoh T den F) : TableCohM T den F :=
  fun k sh hk hs => Coh.toM sh [] (h k sh hk hs)

/-- the transparency invariant with the reachability clause. -/
structure GoodM (T : Table κ ν) (den : κ → ν) (F : κ → Prop) (d : Dict κ ν) : Prop where
  good : Good den F d
  reach : ∀ k v, get? d k = some v → Reach T F k

theorem GoodM.evict {T : Table κ ν} {den : κ → ν} {F : κ → Prop} {d d' : Dict κ ν} (hg : GoodM T den F d)
    (he : EvictRel F d d') : GoodM T den F d' := by
  refine ⟨hg.good.evict he, ?_⟩
  intro k v hv
  rcases he k with h | h
  · rw [h] at hv; exact hg.reach k v hv
  · rw [h.1] at hv; cases hv

theorem GoodM.set {T : Table κ ν} {den : κ → ν} {F : κ → Prop} {d : Dict κ ν} (hg : GoodM T den F d) (k : κ)
    (hk : (T.shape k).isSome = true) : GoodM T den F (set d k (den k)) := by
  refine ⟨hg.good.set k, ?_⟩
  intro k' v hv
  rw [get?_set] at hv
  by_cases e : k = k'
  · subst e; exact Or.inr hk
  · simp [e] at hv; exact hg.reach k' v hv

def GetSoundM (T : Table κ ν) (den : κ → ν) (F : κ → Prop)
    (getRec : Cfg σ κ ν → κ → Except GErr (Cfg σ κ ν × ν)) : Prop :=
  ∀ c k c' v, GoodM T den F c.2 → getRec c k = .ok (c', v) → GoodM T den F c'.2 ∧ v = den k

theorem readList_soundM {T : Table κ ν} {den : κ → ν} {F : κ → Prop}
    {getRec : Cfg σ κ ν → κ → Except GErr (Cfg σ κ ν × ν)} (hrec : GetSoundM T den F getRec) :
    ∀ (ks : List κ) (c : Cfg σ κ ν) (vs : List ν) c' vs', GoodM T den F c.2 →
      readList getRec c ks vs = .ok (c', vs') → GoodM T den F c'.2 ∧ vs' = vs ++ ks.map den := by
  intro ks
  induction ks with
  | nil => intro c vs c' vs' hg h; simp [readList] at h; obtain ⟨rfl, rfl⟩ := h; exact ⟨hg, by simp⟩
  | cons k ks ih =>
    intro c vs c' vs' hg h
    unfold readList at h
    cases h1 : getRec c k with
    | error e => simp [h1] at h
    | ok r =>
      obtain ⟨c1, v⟩ := r
      simp only [h1] at h
      obtain ⟨hg1, hv⟩ := hrec c k c1 v hg h1
      obtain ⟨hg2, hvs⟩ := ih c1 _ c' vs' hg1 h
      exact ⟨hg2, by rw [hvs, hv]; simp⟩

theorem repReads_soundM {T : Table κ ν} {den : κ → ν} {F : κ → Prop}
    {getRec : Cfg σ κ ν → κ → Except GErr (Cfg σ κ ν × ν)} (hrec : GetSoundM T den F getRec) (ks : List κ) :
    ∀ (n : Nat) (c : Cfg σ κ ν) (vs : List ν) c' vs', GoodM T den F c.2 →
      repReads getRec n c ks vs = .ok (c', vs') → GoodM T den F c'.2 ∧ vs' = vs ++ repVals den n ks := by
  intro n
  induction n with
  | zero => intro c vs c' vs' hg h; simp [repReads] at h; obtain ⟨rfl, rfl⟩ := h; exact ⟨hg, by simp [repVals]⟩
  | succ n ih =>
    intro c vs c' vs' hg h
    unfold repReads at h
    cases h1 : readList getRec c ks vs with
    | error e => simp [h1] at h
    | ok r =>
      obtain ⟨c1, vs1⟩ := r
      simp only [h1] at h
      obtain ⟨hg1, hv⟩ := readList_soundM hrec ks c vs c1 vs1 hg h1
      obtain ⟨hg2, hvs⟩ := ih c1 _ c' vs' hg1 h
      exact ⟨hg2, by rw [hvs, hv]; simp [repVals, List.replicate_succ]⟩

theorem runShape_soundM {T : Table κ ν} {den : κ → ν} {F : κ → Prop} {target : ν} {k0 : κ}
    {getRec : Cfg σ κ ν → κ → Except GErr (Cfg σ κ ν × ν)} (hrec : GetSoundM T den F getRec) :
    ∀ (sh : Shape κ) (c : Cfg σ κ ν) (vs : List ν) c' r, GoodM T den F c.2 → CohM T den F target k0 sh vs →
      runShape T k0 getRec c sh vs = .ok (c', r) → GoodM T den F c'.2 ∧ r = target := by
  intro sh
  induction sh with
  | ret i =>
    intro c vs c' r hg hc h
    simp [runShape] at h; obtain ⟨rfl, rfl⟩ := h
    exact ⟨hg, hc⟩
  | read k n ih =>
    intro c vs c' r hg hc h
    unfold runShape at h
    cases h1 : getRec c k with
    | error e => simp [h1] at h
    | ok p =>
      obtain ⟨c1, v⟩ := p
      simp only [h1] at h
      obtain ⟨hg1, hv⟩ := hrec c k c1 v hg h1
      subst hv
      exact ih c1 _ c' r hg1 hc h
  | peek k n ih =>
    intro c vs c' r hg hc h
    unfold runShape at h
    cases h1 : get? c.2 k with
    | none => simp [h1] at h
    | some v =>
      simp only [h1] at h
      have := hg.good.val k v h1; subst this
      exact ih c _ c' r hg hc h
  | rep cnt ks n ih =>
    intro c vs c' r hg hc h
    unfold runShape at h
    cases h1 : repReads getRec (T.countOf cnt) c ks vs with
    | error e => simp [h1] at h
    | ok p =>
      obtain ⟨c1, vs1⟩ := p
      simp only [h1] at h
      obtain ⟨hg1, hv⟩ := repReads_soundM hrec ks _ c vs c1 vs1 hg h1
      subst hv
      exact ih c1 _ c' r hg1 hc h
  | test g t e iht ihe =>
    intro c vs c' r hg hc h
    unfold runShape at h
    have hP : ∀ k, F k → (fun k => contains c.2 k) k = true := fun k hk => by
      simp [contains, hg.good.inp k hk]
    have hQ : ∀ k, (fun k => contains c.2 k) k = true → Reach T F k := fun k hk => by
      cases hv : get? c.2 k with
      | none => simp [contains, hv] at hk
      | some v => exact hg.reach k v hv
    by_cases hb : g.eval (fun k => contains c.2 k) T.flag = true
    · simp only [hb, ↓reduceIte] at h
      exact iht c vs c' r hg (hc.1 ⟨_, hP, hQ, hb⟩) h
    · simp only [hb] at h
      have hb' : g.eval (fun k => contains c.2 k) T.flag = false := by
        cases hx : g.eval (fun k => contains c.2 k) T.flag <;> simp_all
      exact ihe c vs c' r hg (hc.2 ⟨_, hP, hQ, hb'⟩) h
  | fail => intro c vs c' r _ _ h; simp [runShape] at h

theorem getF_soundM {T : Table κ ν} {den : κ → ν} {F : κ → Prop} {pol : Policy σ κ ν}
    (hT : TableCohM T den F) (hp : PolicyOK F pol) : ∀ fuel, GetSoundM T den F (getF T pol fuel) := by
  intro fuel
  induction fuel with
  | zero =>
    intro c k c' v hg h
    unfold getF at h
    cases h1 : get? c.2 k with
    | some w => simp only [h1, Except.ok.injEq, Prod.mk.injEq] at h; obtain ⟨rfl, rfl⟩ := h; exact ⟨hg, hg.good.val k _ h1⟩
    | none =>
      simp only [h1] at h
      cases h2 : T.shape k with
      | none => simp [h2] at h
      | some sh => simp [h2] at h
  | succ f ih =>
    intro c k c' v hg h
    unfold getF at h
    cases h1 : get? c.2 k with
    | some w => simp only [h1, Except.ok.injEq, Prod.mk.injEq] at h; obtain ⟨rfl, rfl⟩ := h; exact ⟨hg, hg.good.val k _ h1⟩
    | none =>
      simp only [h1] at h
      cases h2 : T.shape k with
      | none => simp [h2] at h
      | some sh =>
        simp only [h2] at h
        have hnF : ¬ F k := fun hk => by rw [hg.good.inp k hk] at h1; cases h1
        cases h3 : runShape T k (getF T pol f) c sh [] with
        | error e => simp [h3] at h
        | ok p =>
          obtain ⟨c1, v1⟩ := p
          simp only [h3] at h
          obtain ⟨hg1, hv1⟩ := runShape_soundM ih sh c [] c1 v1 hg (hT k sh hnF h2) h3
          subst hv1
          have hg2 : GoodM T den F (pol.onStore c1.1 (set c1.2 k (den k)) k).2 :=
            (hg1.set k (by simp [h2])).evict (hp.store _ _ _)
          cases h4 : get? (pol.onStore c1.1 (set c1.2 k (den k)) k).2 k with
          | none => simp [h4] at h
          | some w =>
            simp only [h4, Except.ok.injEq, Prod.mk.injEq] at h
            obtain ⟨rfl, rfl⟩ := h
            exact ⟨hg2, hg2.good.val k _ h4⟩

theorem runHist_soundM {T : Table κ ν} {den : κ → ν} {F : κ → Prop} {pol : Policy σ κ ν}
    (hT : TableCohM T den F) (hp : PolicyOK F pol) (fuel : Nat) :
    ∀ (h : List (HOp κ)) (c : Cfg σ κ ν) c' vs, GoodM T den F c.2 → runHist T pol fuel c h = .ok (c', vs) →
      GoodM T den F c'.2 ∧ vs = h.filterMap (fun o => match o with | .req k => some (den k) | .sweep => none) := by
  intro h
  induction h with
  | nil => intro c c' vs hg hr; simp [runHist] at hr; obtain ⟨rfl, rfl⟩ := hr; exact ⟨hg, rfl⟩
  | cons o h ih =>
    intro c c' vs hg hr
    cases o with
    | req k =>
      unfold runHist at hr
      cases h1 : getF T pol fuel c k with
      | error e => simp [h1] at hr
      | ok p =>
        obtain ⟨c1, v⟩ := p
        simp only [h1] at hr
        obtain ⟨hg1, hv⟩ := getF_soundM hT hp fuel c k c1 v hg h1
        cases h2 : runHist T pol fuel c1 h with
        | error e => simp [h2] at hr
        | ok q =>
          obtain ⟨c2, vs2⟩ := q
          simp only [h2, Except.ok.injEq, Prod.mk.injEq] at hr
          obtain ⟨rfl, rfl⟩ := hr
          obtain ⟨hg2, hvs⟩ := ih c1 c2 vs2 hg1 h2
          exact ⟨hg2, by simp [hvs, hv]⟩
    | sweep =>
      unfold runHist at hr
      have := ih (pol.onSweep c.1 c.2) c' vs (hg.evict (hp.sweep _ _)) hr
      exact ⟨this.1, by simpa using this.2⟩

/-- the frozen inputs themselves satisfy the sharper invariant -/
theorem goodM_inputs (T : Table κ ν) {den : κ → ν} (inp : Dict κ ν) (hin : ∀ k v, get? inp k = some v → den k = v) :
    GoodM T den (fun k => (get? inp k).isSome = true) inp :=
  ⟨good_inputs inp hin, fun k v hv => Or.inl (by simp [hv])⟩

/-- a test of a physical option has one outcome only: the option's value. -/
theorem feasibleM_flag {T : Table κ ν} {F : κ → Prop} {s : String} {b : Bool} (h : FeasibleM T F (.flag s) b) :
    T.flag s = b := let ⟨_, _, _, h3⟩ := h; h3

/-- a presence test of a name WITHOUT a method has one outcome only: whether the name is a frozen input. -/
theorem feasibleM_methodless {T : Table κ ν} {F : κ → Prop} {k : κ} (hk : T.shape k = none) {b : Bool}
    (h : FeasibleM T F (.pres k) b) : (b = true ↔ F k) := by
  obtain ⟨P, h1, h2, h3⟩ := h
  simp only [Guard.eval] at h3
  constructor
  · intro hb; subst hb
    rcases h2 k h3 with hF | hs
    · exact hF
    · simp [hk] at hs
  · intro hF; rw [← h3]; exact h1 k hF

end AurelVerif.CacheGet
