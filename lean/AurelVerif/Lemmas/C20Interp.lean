/-
Lemmas/C20Interp.lean — the hand model of scipy's linear
`RegularGridInterpolator` (Model/Interp.lean) as used by
`aurel.numerical.interpolate(method='linear')`:

  * `findInterval_spec`   the interval search returns a valid cell that
                          contains the target (strictly ascending grid, ≥ 2 nodes);
                          sharper: `findInterval_cell/_below/_above/_last`,
                          `findIntervalFrom_eq` (the starting hint of the search
                          — scipy passes the interval of the previous point —
                          does not change the result)
  * `interp3_node`        exact at every grid node (boundary nodes included)
  * `interp3_trilinear`   exact for every field a0 + a1 x + a2 y + a3 z + a4 xy
                          + a5 xz + a6 yz + a7 xyz, at EVERY target (inside or
                          outside the grid: linear extrapolation)
  * `weights3_spec`, `interp3_convex`, `interp3_bounds`
                          inside the grid the 8 weights are ≥ 0 and sum to 1; the
                          value lies between the min and max of the 8 corners

All statements are over `ℚ` (exact arithmetic); the tie to the float code is
the exact correspondence check on dyadic inputs (`corr_interp`).
-/
import Mathlib.Tactic.Ring
import Mathlib.Tactic.Linarith
import Mathlib.Tactic.FieldSimp
import Mathlib.Algebra.Order.Field.Rat
import AurelVerif.Model.Interp

namespace AurelVerif.InterpLemmas
open AurelVerif.Interp

/-! ### strictly ascending grids -/

/-- index form of "strictly ascending" -/
def Asc (g : List ℚ) : Prop := ∀ i j, i < j → j < g.length → nth g i < nth g j

theorem nth_eq_getElem (g : List ℚ) (i : Nat) (h : i < g.length) : nth g i = g[i] := by
  simp [nth, List.getD_eq_getElem?_getD, h]

theorem asc_of_pairwise {g : List ℚ} (h : g.Pairwise (· < ·)) : Asc g := by
  intro i j hij hj
  have hi : i < g.length := lt_trans hij hj
  rw [nth_eq_getElem g i hi, nth_eq_getElem g j hj]
  exact List.pairwise_iff_getElem.mp h i j hi hj hij

theorem Asc.le {g : List ℚ} (h : Asc g) {i j : Nat} (hij : i ≤ j) (hj : j < g.length) :
    nth g i ≤ nth g j := by
  rcases Nat.lt_or_eq_of_le hij with h1 | h1
  · exact le_of_lt (h i j h1 hj)
  · rw [h1]

/-- `g[i] ≤ x < g[j]` forces `i < j` -/
theorem Asc.idx_lt {g : List ℚ} (h : Asc g) {i j : Nat} {x : ℚ} (hi : i < g.length)
    (h1 : nth g i ≤ x) (h2 : x < nth g j) : i < j := by
  by_contra hc
  have := h.le (Nat.le_of_not_lt hc) hi
  linarith

/-- `x` lies in the half-open cell `r`: `g[r] ≤ x < g[r+1]` -/
def InCell (g : List ℚ) (x : ℚ) (r : Nat) : Prop :=
  r + 1 < g.length ∧ nth g r ≤ x ∧ x < nth g (r + 1)

theorem InCell.unique {g : List ℚ} (h : Asc g) {x : ℚ} {r r' : Nat}
    (h1 : InCell g x r) (h2 : InCell g x r') : r = r' := by
  obtain ⟨a1, a2, a3⟩ := h1
  obtain ⟨b1, b2, b3⟩ := h2
  have c1 := h.idx_lt (by omega) a2 b3
  have c2 := h.idx_lt (by omega) b2 a3
  omega

theorem InCell.exists {g : List ℚ} {x : ℚ} (k : Nat) (hk : k < g.length)
    (h0 : nth g 0 ≤ x) (h1 : x < nth g k) : ∃ r, r < k ∧ InCell g x r := by
  induction k with
  | zero => exact absurd h0 (not_le.mpr h1)
  | succ k ih =>
    by_cases hc : x < nth g k
    · obtain ⟨r, hr, hcell⟩ := ih (by omega) hc
      exact ⟨r, by omega, hcell⟩
    · exact ⟨k, by omega, hk, not_lt.mp hc, h1⟩

/-! ### the binary search -/

theorem bsearch_spec {g : List ℚ} (h : Asc g) {x : ℚ} {r : Nat} (hr : InCell g x r) :
    ∀ (fuel low high : Nat), low ≤ r → r ≤ high → high < g.length → high - low ≤ fuel →
      bsearch g x fuel low high = r := by
  intro fuel
  induction fuel with
  | zero =>
    intro low high h1 h2 _ h4
    simp only [bsearch]; omega
  | succ fuel ih =>
    intro low high h1 h2 h3 h4
    simp only [bsearch]
    by_cases hlh : low < high
    · rw [if_pos hlh]
      have hmid1 : low ≤ (high + low) / 2 := by omega
      have hmid2 : (high + low) / 2 < high := by omega
      by_cases hc1 : x < nth g ((high + low) / 2)
      · rw [if_pos hc1]
        have := h.idx_lt (by have := hr.1; omega) hr.2.1 hc1
        exact ih low _ h1 (by omega) (by omega) (by omega)
      · rw [if_neg hc1]
        by_cases hc2 : nth g ((high + low) / 2 + 1) ≤ x
        · rw [if_pos hc2]
          have := h.idx_lt (by omega) hc2 hr.2.2
          exact ih _ high (by omega) h2 h3 (by omega)
        · rw [if_neg hc2]
          exact InCell.unique h ⟨by omega, not_lt.mp hc1, not_le.mp hc2⟩ hr
    · rw [if_neg hlh]; omega

/-! ### `find_interval_ascending` -/

theorem findIntervalFrom_below {g : List ℚ} (prev : Nat) {x : ℚ}
    (hx : x < nth g 0) : findIntervalFrom prev g x = 0 := by
  unfold findIntervalFrom
  simp only []
  rw [if_pos (by intro hc; linarith [hc.1]), if_pos hx]

theorem findIntervalFrom_above {g : List ℚ} (h : Asc g) (hn : 2 ≤ g.length) (prev : Nat) {x : ℚ}
    (hx : nth g (g.length - 1) < x) : findIntervalFrom prev g x = g.length - 2 := by
  have hab : nth g 0 ≤ nth g (g.length - 1) := h.le (Nat.zero_le _) (by omega)
  unfold findIntervalFrom
  simp only []
  rw [if_pos (by intro hc; linarith [hc.2]), if_neg (by linarith)]

theorem findIntervalFrom_last {g : List ℚ} (h : Asc g) (hn : 2 ≤ g.length) (prev : Nat) :
    findIntervalFrom prev g (nth g (g.length - 1)) = g.length - 2 := by
  have hab : nth g 0 ≤ nth g (g.length - 1) := h.le (Nat.zero_le _) (by omega)
  unfold findIntervalFrom
  simp only []
  rw [if_neg (by intro hc; exact hc ⟨hab, le_refl _⟩)]
  simp

theorem findIntervalFrom_cell {g : List ℚ} (h : Asc g) (prev : Nat) {x : ℚ} {r : Nat}
    (hr : InCell g x r) : findIntervalFrom prev g x = r := by
  obtain ⟨r1, r2, r3⟩ := hr
  have ha : nth g 0 ≤ x := le_trans (h.le (Nat.zero_le _) (by omega)) r2
  have hb : x < nth g (g.length - 1) := lt_of_lt_of_le r3 (h.le (by omega) (by omega))
  unfold findIntervalFrom
  simp only []
  rw [if_neg (by intro hc; exact hc ⟨ha, le_of_lt hb⟩), if_neg (ne_of_lt hb)]
  apply bsearch_spec h ⟨r1, r2, r3⟩
  all_goals
    by_cases hp : prev ≥ g.length
    · simp only [if_pos hp]
      by_cases hc : x ≥ nth g 0
      · simp only [if_pos hc]
        by_cases hd : x < nth g (0 + 1)
        · try simp only [if_pos hd]
          have := InCell.unique h ⟨by omega, ha, hd⟩ ⟨r1, r2, r3⟩
          omega
        · (try simp only [if_neg hd]); omega
      · exact absurd ha hc
    · simp only [if_neg hp]
      by_cases hc : x ≥ nth g prev
      · simp only [if_pos hc]
        have hpr := h.idx_lt (by omega) hc r3
        by_cases hd : x < nth g (prev + 1)
        · try simp only [if_pos hd]
          have := InCell.unique h ⟨by omega, hc, hd⟩ ⟨r1, r2, r3⟩
          omega
        · (try simp only [if_neg hd]); omega
      · simp only [if_neg hc]
        have hpr := h.idx_lt (by omega) r2 (not_le.mp hc)
        by_cases hd : x < nth g (0 + 1)
        · try simp only [if_pos hd]
          have := InCell.unique h ⟨by omega, ha, hd⟩ ⟨r1, r2, r3⟩
          omega
        · (try simp only [if_neg hd]); omega

/-- the starting hint `prev_interval` of the search (scipy passes the interval
found for the previous point, also across axes) does not change the result. -/
theorem findIntervalFrom_eq {g : List ℚ} (hg : g.Pairwise (· < ·)) (hn : 2 ≤ g.length)
    (prev : Nat) (x : ℚ) : findIntervalFrom prev g x = findInterval g x := by
  have h := asc_of_pairwise hg
  unfold findInterval
  rcases lt_or_ge x (nth g 0) with h0 | h0
  · rw [findIntervalFrom_below prev h0, findIntervalFrom_below 0 h0]
  · rcases lt_trichotomy x (nth g (g.length - 1)) with h1 | h1 | h1
    · obtain ⟨r, _, hr⟩ := InCell.exists (g.length - 1) (by omega) h0 h1
      rw [findIntervalFrom_cell h prev hr, findIntervalFrom_cell h 0 hr]
    · rw [h1, findIntervalFrom_last h hn, findIntervalFrom_last h hn]
    · rw [findIntervalFrom_above h hn prev h1, findIntervalFrom_above h hn 0 h1]

/-- half-open cell: for `g[0] ≤ x < g[last]` the index is THE `i` with `g[i] ≤ x < g[i+1]`. -/
theorem findInterval_cell {g : List ℚ} (hg : g.Pairwise (· < ·)) {x : ℚ}
    (h0 : nth g 0 ≤ x) (h1 : x < nth g (g.length - 1)) :
    InCell g x (findInterval g x) ∧ ∀ r, InCell g x r → r = findInterval g x := by
  have h := asc_of_pairwise hg
  have hn : g.length - 1 < g.length := by
    rcases Nat.eq_zero_or_pos g.length with hz | hz
    · exfalso; rw [hz] at h1; exact absurd h0 (not_le.mpr h1)
    · omega
  obtain ⟨r, _, hr⟩ := InCell.exists (g.length - 1) hn h0 h1
  have e : findInterval g x = r := findIntervalFrom_cell h 0 hr
  rw [e]
  exact ⟨hr, fun r' hr' => InCell.unique h hr' hr⟩

/-- below the first node: cell 0 (linear extrapolation of the first cell) -/
theorem findInterval_below {g : List ℚ} {x : ℚ} (hx : x < nth g 0) : findInterval g x = 0 :=
  findIntervalFrom_below 0 hx

/-- above the last node: the last cell `n - 2` -/
theorem findInterval_above {g : List ℚ} (hg : g.Pairwise (· < ·)) (hn : 2 ≤ g.length) {x : ℚ}
    (hx : nth g (g.length - 1) < x) : findInterval g x = g.length - 2 :=
  findIntervalFrom_above (asc_of_pairwise hg) hn 0 hx

/-- exactly at the last node: the last cell `n - 2` (interval closed from the right) -/
theorem findInterval_last {g : List ℚ} (hg : g.Pairwise (· < ·)) (hn : 2 ≤ g.length) :
    findInterval g (nth g (g.length - 1)) = g.length - 2 :=
  findIntervalFrom_last (asc_of_pairwise hg) hn 0

/-- (a) the index is a valid cell, and a target inside the grid lies in that cell. -/
theorem findInterval_spec (g : List ℚ) (x : ℚ) (hg : g.Pairwise (· < ·)) (hn : 2 ≤ g.length) :
    findInterval g x + 1 < g.length ∧
      (nth g 0 ≤ x → x ≤ nth g (g.length - 1) →
        nth g (findInterval g x) ≤ x ∧ x ≤ nth g (findInterval g x + 1)) := by
  have h := asc_of_pairwise hg
  rcases lt_or_ge x (nth g 0) with h0 | h0
  · rw [findInterval_below h0]
    exact ⟨by omega, fun h0' => absurd h0' (not_le.mpr h0)⟩
  · rcases lt_trichotomy x (nth g (g.length - 1)) with h1 | h1 | h1
    · obtain ⟨⟨c1, c2, c3⟩, _⟩ := findInterval_cell hg h0 h1
      exact ⟨c1, fun _ _ => ⟨c2, le_of_lt c3⟩⟩
    · rw [h1, findInterval_last hg hn]
      refine ⟨by omega, fun _ _ => ⟨h.le (by omega) (by omega), ?_⟩⟩
      have e : g.length - 2 + 1 = g.length - 1 := by omega
      rw [e]
    · rw [findInterval_above hg hn h1]
      exact ⟨by omega, fun _ h1' => absurd h1' (not_le.mpr h1)⟩

/-- (a) with `g[i]` notation -/
theorem findInterval_spec_getElem (g : List ℚ) (x : ℚ) (hg : g.Pairwise (· < ·)) (hn : 2 ≤ g.length) :
    ∃ hi : findInterval g x + 1 < g.length,
      (g[0] ≤ x → x ≤ g[g.length - 1] → g[findInterval g x] ≤ x ∧ x ≤ g[findInterval g x + 1]) := by
  obtain ⟨hi, hs⟩ := findInterval_spec g x hg hn
  refine ⟨hi, ?_⟩
  rw [← nth_eq_getElem g 0 (by omega), ← nth_eq_getElem g (g.length - 1) (by omega),
    ← nth_eq_getElem g (findInterval g x) (by omega), ← nth_eq_getElem g (findInterval g x + 1) hi]
  exact hs

example : findInterval [0, 1/2, 2, 9/4] (3/4) = 1 ∧ findInterval [0, 1/2, 2, 9/4] 2 = 2
    ∧ findInterval [0, 1/2, 2, 9/4] (9/4) = 2 ∧ findInterval [0, 1/2, 2, 9/4] 0 = 0
    ∧ findIntervalFrom 3 [0, 1/2, 2, 9/4] (1/4) = 0 ∧ findIntervalFrom 1 [0, 1/2, 2, 9/4] (17/8) = 2 := by
  decide +kernel

example : nth [0, 1/2, 2, 9/4] (findInterval [0, 1/2, 2, 9/4] (3/4)) ≤ 3/4
    ∧ (3/4 : ℚ) ≤ nth [0, 1/2, 2, 9/4] (findInterval [0, 1/2, 2, 9/4] (3/4) + 1) :=
  (findInterval_spec [0, 1/2, 2, 9/4] (3/4) (by decide +kernel) (by decide)).2
    (by decide +kernel) (by decide +kernel)

/-! ### one axis: index, norm_distance and the pair `((i, 1 - y), (i + 1, y))` -/

/-- everything the interpolation proofs need about one axis -/
theorem axis_data {g : List ℚ} (hg : g.Pairwise (· < ·)) (hn : 2 ≤ g.length) (x : ℚ) :
    ∃ (i : Nat) (t : ℚ), axisPair g x = ((i, 1 - t), (i + 1, t)) ∧ i + 1 < g.length ∧
      x = nth g i + t * (nth g (i + 1) - nth g i) ∧
      (nth g 0 ≤ x → x ≤ nth g (g.length - 1) → 0 ≤ t ∧ t ≤ 1) ∧
      (∀ i0, i0 < g.length → x = nth g i0 → (i = i0 ∧ t = 0) ∨ (i + 1 = i0 ∧ t = 1)) := by
  have h := asc_of_pairwise hg
  obtain ⟨hi, hs⟩ := findInterval_spec g x hg hn
  have hd : 0 < nth g (findInterval g x + 1) - nth g (findInterval g x) := by
    have := h _ _ (Nat.lt_succ_self (findInterval g x)) hi
    linarith
  refine ⟨findInterval g x, normDist g (findInterval g x) x, rfl, hi, ?_, ?_, ?_⟩
  · unfold normDist
    field_simp
    ring
  · intro h0 h1
    obtain ⟨s1, s2⟩ := hs h0 h1
    unfold normDist
    constructor
    · exact div_nonneg (by linarith) (le_of_lt hd)
    · rw [div_le_iff₀ hd]; linarith
  · intro i0 hi0 hx
    rcases Nat.lt_or_ge (i0 + 1) g.length with hlt | hge
    · -- interior or first node: the cell starting at `i0`
      have hcell : InCell g x i0 := ⟨hlt, by rw [hx], by rw [hx]; exact h _ _ (Nat.lt_succ_self i0) hlt⟩
      have e : findInterval g x = i0 := findIntervalFrom_cell h 0 hcell
      left
      refine ⟨e, ?_⟩
      rw [e]; unfold normDist; rw [hx]; simp
    · -- the last node
      have e0 : i0 = g.length - 1 := by omega
      have e : findInterval g x = g.length - 2 := by rw [hx, e0]; exact findInterval_last hg hn
      right
      refine ⟨by omega, ?_⟩
      have e1 : g.length - 2 + 1 = i0 := by omega
      rw [e] at hd ⊢
      unfold normDist
      rw [e1] at hd ⊢
      rw [hx]
      exact div_self (ne_of_gt hd)

/-! ### `_evaluate_linear` written out -/

theorem interp1_of_pair {g : List ℚ} {val : Nat → ℚ} {x : ℚ} {i : Nat} {t : ℚ}
    (hp : axisPair g x = ((i, 1 - t), (i + 1, t))) :
    interp1 g val x = 0 + val i * (1 * (1 - t)) + val (i + 1) * (1 * t) := by
  simp only [interp1, hp, List.foldl_cons, List.foldl_nil]

theorem interp3_of_pairs {gx gy gz : List ℚ} {val : Nat → Nat → Nat → ℚ} {x y z : ℚ}
    {i j k : Nat} {tx ty tz : ℚ}
    (hx : axisPair gx x = ((i, 1 - tx), (i + 1, tx)))
    (hy : axisPair gy y = ((j, 1 - ty), (j + 1, ty)))
    (hz : axisPair gz z = ((k, 1 - tz), (k + 1, tz))) :
    interp3 gx gy gz val x y z =
      0 + val i j k * (1 * (1 - tx) * (1 - ty) * (1 - tz))
        + val i j (k + 1) * (1 * (1 - tx) * (1 - ty) * tz)
        + val i (j + 1) k * (1 * (1 - tx) * ty * (1 - tz))
        + val i (j + 1) (k + 1) * (1 * (1 - tx) * ty * tz)
        + val (i + 1) j k * (1 * tx * (1 - ty) * (1 - tz))
        + val (i + 1) j (k + 1) * (1 * tx * (1 - ty) * tz)
        + val (i + 1) (j + 1) k * (1 * tx * ty * (1 - tz))
        + val (i + 1) (j + 1) (k + 1) * (1 * tx * ty * tz) := by
  simp only [interp3, hx, hy, hz, hypercube3, weight3, List.flatMap_cons, List.flatMap_nil,
    List.map_cons, List.map_nil, List.append_nil, List.cons_append, List.nil_append,
    List.foldl_cons, List.foldl_nil]

theorem weights3_of_pairs {gx gy gz : List ℚ} {x y z : ℚ} {i j k : Nat} {tx ty tz : ℚ}
    (hx : axisPair gx x = ((i, 1 - tx), (i + 1, tx)))
    (hy : axisPair gy y = ((j, 1 - ty), (j + 1, ty)))
    (hz : axisPair gz z = ((k, 1 - tz), (k + 1, tz))) :
    weights3 gx gy gz x y z =
      [1 * (1 - tx) * (1 - ty) * (1 - tz), 1 * (1 - tx) * (1 - ty) * tz,
       1 * (1 - tx) * ty * (1 - tz), 1 * (1 - tx) * ty * tz,
       1 * tx * (1 - ty) * (1 - tz), 1 * tx * (1 - ty) * tz,
       1 * tx * ty * (1 - tz), 1 * tx * ty * tz] := by
  simp only [weights3, hx, hy, hz, hypercube3, weight3, List.flatMap_cons, List.flatMap_nil,
    List.map_cons, List.map_nil, List.append_nil, List.cons_append, List.nil_append]

theorem corners3_of_pairs {gx gy gz : List ℚ} {x y z : ℚ} {i j k : Nat} {tx ty tz : ℚ}
    (hx : axisPair gx x = ((i, 1 - tx), (i + 1, tx)))
    (hy : axisPair gy y = ((j, 1 - ty), (j + 1, ty)))
    (hz : axisPair gz z = ((k, 1 - tz), (k + 1, tz))) :
    corners3 gx gy gz x y z =
      [(i, j, k), (i, j, k + 1), (i, j + 1, k), (i, j + 1, k + 1),
       (i + 1, j, k), (i + 1, j, k + 1), (i + 1, j + 1, k), (i + 1, j + 1, k + 1)] := by
  simp only [corners3, hx, hy, hz, hypercube3, List.flatMap_cons, List.flatMap_nil,
    List.map_cons, List.map_nil, List.append_nil, List.cons_append, List.nil_append]

/-! ### (b) exact at grid nodes -/

theorem interp1_node (g : List ℚ) (hg : g.Pairwise (· < ·)) (hn : 2 ≤ g.length) (val : Nat → ℚ)
    (i : Nat) (hi : i < g.length) : interp1 g val (nth g i) = val i := by
  obtain ⟨i', t, hp, _, _, _, hnode⟩ := axis_data hg hn (nth g i)
  rw [interp1_of_pair hp]
  rcases hnode i hi rfl with ⟨rfl, rfl⟩ | ⟨rfl, rfl⟩ <;> simp

/-- (b) at every grid node `(gx[i], gy[j], gz[k])` — boundary nodes included —
the interpolant returns exactly `val i j k`. -/
theorem interp3_node (gx gy gz : List ℚ)
    (hgx : gx.Pairwise (· < ·)) (hgy : gy.Pairwise (· < ·)) (hgz : gz.Pairwise (· < ·))
    (hnx : 2 ≤ gx.length) (hny : 2 ≤ gy.length) (hnz : 2 ≤ gz.length)
    (val : Nat → Nat → Nat → ℚ) (i j k : Nat)
    (hi : i < gx.length) (hj : j < gy.length) (hk : k < gz.length) :
    interp3 gx gy gz val (nth gx i) (nth gy j) (nth gz k) = val i j k := by
  obtain ⟨i', tx, hpx, _, _, _, hnodex⟩ := axis_data hgx hnx (nth gx i)
  obtain ⟨j', ty, hpy, _, _, _, hnodey⟩ := axis_data hgy hny (nth gy j)
  obtain ⟨k', tz, hpz, _, _, _, hnodez⟩ := axis_data hgz hnz (nth gz k)
  rw [interp3_of_pairs hpx hpy hpz]
  rcases hnodex i hi rfl with ⟨rfl, rfl⟩ | ⟨rfl, rfl⟩ <;>
  rcases hnodey j hj rfl with ⟨rfl, rfl⟩ | ⟨rfl, rfl⟩ <;>
  rcases hnodez k hk rfl with ⟨rfl, rfl⟩ | ⟨rfl, rfl⟩ <;> simp

/-! ### (c) exact for trilinear fields, everywhere -/

/-- `a0 + a1 x + a2 y + a3 z + a4 xy + a5 xz + a6 yz + a7 xyz` -/
def triPoly (a0 a1 a2 a3 a4 a5 a6 a7 x y z : ℚ) : ℚ :=
  a0 + a1 * x + a2 * y + a3 * z + a4 * x * y + a5 * x * z + a6 * y * z + a7 * x * y * z

theorem interp1_affine (g : List ℚ) (hg : g.Pairwise (· < ·)) (hn : 2 ≤ g.length)
    (a0 a1 : ℚ) (val : Nat → ℚ) (hval : ∀ i, i < g.length → val i = a0 + a1 * nth g i) (x : ℚ) :
    interp1 g val x = a0 + a1 * x := by
  obtain ⟨i, t, hp, hi, hx, _, _⟩ := axis_data hg hn x
  rw [interp1_of_pair hp, hval i (by omega), hval (i + 1) hi]
  generalize nth g i = X0 at *
  generalize nth g (i + 1) = X1 at *
  subst hx
  ring

/-- (c) if the nodal values are those of a trilinear field
`f = a0 + a1 x + a2 y + a3 z + a4 xy + a5 xz + a6 yz + a7 xyz`, the interpolant
equals `f` at EVERY target, inside or outside the grid (with `fill_value=None`
the first / last cell is continued).  In particular exact for affine fields
(`a4 = a5 = a6 = a7 = 0`). -/
theorem interp3_trilinear (gx gy gz : List ℚ)
    (hgx : gx.Pairwise (· < ·)) (hgy : gy.Pairwise (· < ·)) (hgz : gz.Pairwise (· < ·))
    (hnx : 2 ≤ gx.length) (hny : 2 ≤ gy.length) (hnz : 2 ≤ gz.length)
    (a0 a1 a2 a3 a4 a5 a6 a7 : ℚ) (val : Nat → Nat → Nat → ℚ)
    (hval : ∀ i j k, i < gx.length → j < gy.length → k < gz.length →
      val i j k = triPoly a0 a1 a2 a3 a4 a5 a6 a7 (nth gx i) (nth gy j) (nth gz k))
    (x y z : ℚ) :
    interp3 gx gy gz val x y z = triPoly a0 a1 a2 a3 a4 a5 a6 a7 x y z := by
  obtain ⟨i, tx, hpx, hi, hx, _, _⟩ := axis_data hgx hnx x
  obtain ⟨j, ty, hpy, hj, hy, _, _⟩ := axis_data hgy hny y
  obtain ⟨k, tz, hpz, hk, hz, _, _⟩ := axis_data hgz hnz z
  have hi0 : i < gx.length := by omega
  have hj0 : j < gy.length := by omega
  have hk0 : k < gz.length := by omega
  rw [interp3_of_pairs hpx hpy hpz, hval i j k hi0 hj0 hk0, hval i j (k + 1) hi0 hj0 hk,
    hval i (j + 1) k hi0 hj hk0, hval i (j + 1) (k + 1) hi0 hj hk,
    hval (i + 1) j k hi hj0 hk0, hval (i + 1) j (k + 1) hi hj0 hk,
    hval (i + 1) (j + 1) k hi hj hk0, hval (i + 1) (j + 1) (k + 1) hi hj hk]
  clear hpx hpy hpz hval
  generalize nth gx i = X0 at *
  generalize nth gx (i + 1) = X1 at *
  generalize nth gy j = Y0 at *
  generalize nth gy (j + 1) = Y1 at *
  generalize nth gz k = Z0 at *
  generalize nth gz (k + 1) = Z1 at *
  subst hx hy hz
  unfold triPoly
  ring

/-- affine special case, stated separately -/
theorem interp3_affine (gx gy gz : List ℚ)
    (hgx : gx.Pairwise (· < ·)) (hgy : gy.Pairwise (· < ·)) (hgz : gz.Pairwise (· < ·))
    (hnx : 2 ≤ gx.length) (hny : 2 ≤ gy.length) (hnz : 2 ≤ gz.length)
    (a0 a1 a2 a3 : ℚ) (val : Nat → Nat → Nat → ℚ)
    (hval : ∀ i j k, i < gx.length → j < gy.length → k < gz.length →
      val i j k = a0 + a1 * nth gx i + a2 * nth gy j + a3 * nth gz k)
    (x y z : ℚ) :
    interp3 gx gy gz val x y z = a0 + a1 * x + a2 * y + a3 * z := by
  have := interp3_trilinear gx gy gz hgx hgy hgz hnx hny hnz a0 a1 a2 a3 0 0 0 0 val
    (fun i j k hi hj hk => by rw [hval i j k hi hj hk]; unfold triPoly; ring) x y z
  rw [this]; unfold triPoly; ring

/-! ### (d) inside the grid: a convex combination of the 8 corner values -/

/-- valid for every target: the value is the dot product of the 8 corner
values with the 8 weights (in loop order). -/
theorem interp3_eq_dot (gx gy gz : List ℚ) (val : Nat → Nat → Nat → ℚ) (x y z : ℚ) :
    interp3 gx gy gz val x y z =
      (List.zipWith (fun (c : Nat × Nat × Nat) w => val c.1 c.2.1 c.2.2 * w)
        (corners3 gx gy gz x y z) (weights3 gx gy gz x y z)).sum := by
  have hx : axisPair gx x = ((findInterval gx x, 1 - normDist gx (findInterval gx x) x),
    (findInterval gx x + 1, normDist gx (findInterval gx x) x)) := rfl
  have hy : axisPair gy y = ((findInterval gy y, 1 - normDist gy (findInterval gy y) y),
    (findInterval gy y + 1, normDist gy (findInterval gy y) y)) := rfl
  have hz : axisPair gz z = ((findInterval gz z, 1 - normDist gz (findInterval gz z) z),
    (findInterval gz z + 1, normDist gz (findInterval gz z) z)) := rfl
  rw [interp3_of_pairs hx hy hz, corners3_of_pairs hx hy hz, weights3_of_pairs hx hy hz]
  simp only [List.zipWith_cons_cons, List.zipWith_nil_left, List.sum_cons, List.sum_nil]
  ring

/-- the corners are valid indices -/
theorem corners3_valid (gx gy gz : List ℚ)
    (hgx : gx.Pairwise (· < ·)) (hgy : gy.Pairwise (· < ·)) (hgz : gz.Pairwise (· < ·))
    (hnx : 2 ≤ gx.length) (hny : 2 ≤ gy.length) (hnz : 2 ≤ gz.length) (x y z : ℚ) :
    ∀ c ∈ corners3 gx gy gz x y z, c.1 < gx.length ∧ c.2.1 < gy.length ∧ c.2.2 < gz.length := by
  obtain ⟨i, tx, hpx, hi, _, _, _⟩ := axis_data hgx hnx x
  obtain ⟨j, ty, hpy, hj, _, _, _⟩ := axis_data hgy hny y
  obtain ⟨k, tz, hpz, hk, _, _, _⟩ := axis_data hgz hnz z
  rw [corners3_of_pairs hpx hpy hpz]
  intro c hc
  simp only [List.mem_cons, List.not_mem_nil, or_false] at hc
  rcases hc with rfl | rfl | rfl | rfl | rfl | rfl | rfl | rfl <;> simp only <;> omega

/-- the 8 weights sum to 1 at EVERY target (also when extrapolating) -/
theorem weights3_sum (gx gy gz : List ℚ) (x y z : ℚ) :
    (weights3 gx gy gz x y z).sum = 1 := by
  have hx : axisPair gx x = ((findInterval gx x, 1 - normDist gx (findInterval gx x) x),
    (findInterval gx x + 1, normDist gx (findInterval gx x) x)) := rfl
  have hy : axisPair gy y = ((findInterval gy y, 1 - normDist gy (findInterval gy y) y),
    (findInterval gy y + 1, normDist gy (findInterval gy y) y)) := rfl
  have hz : axisPair gz z = ((findInterval gz z, 1 - normDist gz (findInterval gz z) z),
    (findInterval gz z + 1, normDist gz (findInterval gz z) z)) := rfl
  rw [weights3_of_pairs hx hy hz]
  simp only [List.sum_cons, List.sum_nil]
  ring

/-- (d) for a target inside the grid (faces, edges, nodes included) the 8
weights are ≥ 0 (and sum to 1, `weights3_sum`). -/
theorem weights3_spec (gx gy gz : List ℚ)
    (hgx : gx.Pairwise (· < ·)) (hgy : gy.Pairwise (· < ·)) (hgz : gz.Pairwise (· < ·))
    (hnx : 2 ≤ gx.length) (hny : 2 ≤ gy.length) (hnz : 2 ≤ gz.length) (x y z : ℚ)
    (hx0 : nth gx 0 ≤ x) (hx1 : x ≤ nth gx (gx.length - 1))
    (hy0 : nth gy 0 ≤ y) (hy1 : y ≤ nth gy (gy.length - 1))
    (hz0 : nth gz 0 ≤ z) (hz1 : z ≤ nth gz (gz.length - 1)) :
    (weights3 gx gy gz x y z).length = 8 ∧ (∀ w ∈ weights3 gx gy gz x y z, 0 ≤ w) ∧
      (weights3 gx gy gz x y z).sum = 1 := by
  refine ⟨?_, ?_, weights3_sum gx gy gz x y z⟩
  · obtain ⟨i, tx, hpx, _⟩ := axis_data hgx hnx x
    obtain ⟨j, ty, hpy, _⟩ := axis_data hgy hny y
    obtain ⟨k, tz, hpz, _⟩ := axis_data hgz hnz z
    rw [weights3_of_pairs hpx hpy hpz]; rfl
  obtain ⟨i, tx, hpx, _, _, htx, _⟩ := axis_data hgx hnx x
  obtain ⟨j, ty, hpy, _, _, hty, _⟩ := axis_data hgy hny y
  obtain ⟨k, tz, hpz, _, _, htz, _⟩ := axis_data hgz hnz z
  obtain ⟨tx0, tx1⟩ := htx hx0 hx1
  obtain ⟨ty0, ty1⟩ := hty hy0 hy1
  obtain ⟨tz0, tz1⟩ := htz hz0 hz1
  have sx : 0 ≤ 1 - tx := by linarith
  have sy : 0 ≤ 1 - ty := by linarith
  have sz : 0 ≤ 1 - tz := by linarith
  rw [weights3_of_pairs hpx hpy hpz]
  intro w hw
  simp only [List.mem_cons, List.not_mem_nil, or_false] at hw
  have one : (0 : ℚ) ≤ 1 := zero_le_one
  rcases hw with rfl | rfl | rfl | rfl | rfl | rfl | rfl | rfl
  · exact mul_nonneg (mul_nonneg (mul_nonneg one sx) sy) sz
  · exact mul_nonneg (mul_nonneg (mul_nonneg one sx) sy) tz0
  · exact mul_nonneg (mul_nonneg (mul_nonneg one sx) ty0) sz
  · exact mul_nonneg (mul_nonneg (mul_nonneg one sx) ty0) tz0
  · exact mul_nonneg (mul_nonneg (mul_nonneg one tx0) sy) sz
  · exact mul_nonneg (mul_nonneg (mul_nonneg one tx0) sy) tz0
  · exact mul_nonneg (mul_nonneg (mul_nonneg one tx0) ty0) sz
  · exact mul_nonneg (mul_nonneg (mul_nonneg one tx0) ty0) tz0

theorem convex8 (w1 w2 w3 w4 w5 w6 w7 w8 v1 v2 v3 v4 v5 v6 v7 v8 m M : ℚ)
    (h1 : 0 ≤ w1) (h2 : 0 ≤ w2) (h3 : 0 ≤ w3) (h4 : 0 ≤ w4)
    (h5 : 0 ≤ w5) (h6 : 0 ≤ w6) (h7 : 0 ≤ w7) (h8 : 0 ≤ w8)
    (hsum : w1 + w2 + w3 + w4 + w5 + w6 + w7 + w8 = 1)
    (b1 : m ≤ v1 ∧ v1 ≤ M) (b2 : m ≤ v2 ∧ v2 ≤ M) (b3 : m ≤ v3 ∧ v3 ≤ M) (b4 : m ≤ v4 ∧ v4 ≤ M)
    (b5 : m ≤ v5 ∧ v5 ≤ M) (b6 : m ≤ v6 ∧ v6 ≤ M) (b7 : m ≤ v7 ∧ v7 ≤ M) (b8 : m ≤ v8 ∧ v8 ≤ M) :
    m ≤ 0 + v1 * w1 + v2 * w2 + v3 * w3 + v4 * w4 + v5 * w5 + v6 * w6 + v7 * w7 + v8 * w8 ∧
    0 + v1 * w1 + v2 * w2 + v3 * w3 + v4 * w4 + v5 * w5 + v6 * w6 + v7 * w7 + v8 * w8 ≤ M := by
  have em : m = m * (w1 + w2 + w3 + w4 + w5 + w6 + w7 + w8) := by rw [hsum, mul_one]
  have eM : M = M * (w1 + w2 + w3 + w4 + w5 + w6 + w7 + w8) := by rw [hsum, mul_one]
  constructor
  · have p1 := mul_le_mul_of_nonneg_right b1.1 h1
    have p2 := mul_le_mul_of_nonneg_right b2.1 h2
    have p3 := mul_le_mul_of_nonneg_right b3.1 h3
    have p4 := mul_le_mul_of_nonneg_right b4.1 h4
    have p5 := mul_le_mul_of_nonneg_right b5.1 h5
    have p6 := mul_le_mul_of_nonneg_right b6.1 h6
    have p7 := mul_le_mul_of_nonneg_right b7.1 h7
    have p8 := mul_le_mul_of_nonneg_right b8.1 h8
    linarith
  · have p1 := mul_le_mul_of_nonneg_right b1.2 h1
    have p2 := mul_le_mul_of_nonneg_right b2.2 h2
    have p3 := mul_le_mul_of_nonneg_right b3.2 h3
    have p4 := mul_le_mul_of_nonneg_right b4.2 h4
    have p5 := mul_le_mul_of_nonneg_right b5.2 h5
    have p6 := mul_le_mul_of_nonneg_right b6.2 h6
    have p7 := mul_le_mul_of_nonneg_right b7.2 h7
    have p8 := mul_le_mul_of_nonneg_right b8.2 h8
    linarith

/-- (d) for a target inside the grid the value lies between any lower and
upper bound of the 8 corner values of its cell (no over- or undershoot). -/
theorem interp3_convex (gx gy gz : List ℚ)
    (hgx : gx.Pairwise (· < ·)) (hgy : gy.Pairwise (· < ·)) (hgz : gz.Pairwise (· < ·))
    (hnx : 2 ≤ gx.length) (hny : 2 ≤ gy.length) (hnz : 2 ≤ gz.length)
    (val : Nat → Nat → Nat → ℚ) (x y z : ℚ)
    (hx0 : nth gx 0 ≤ x) (hx1 : x ≤ nth gx (gx.length - 1))
    (hy0 : nth gy 0 ≤ y) (hy1 : y ≤ nth gy (gy.length - 1))
    (hz0 : nth gz 0 ≤ z) (hz1 : z ≤ nth gz (gz.length - 1))
    (m M : ℚ)
    (hval : ∀ c ∈ corners3 gx gy gz x y z, m ≤ val c.1 c.2.1 c.2.2 ∧ val c.1 c.2.1 c.2.2 ≤ M) :
    m ≤ interp3 gx gy gz val x y z ∧ interp3 gx gy gz val x y z ≤ M := by
  obtain ⟨_, hw, hs⟩ := weights3_spec gx gy gz hgx hgy hgz hnx hny hnz x y z hx0 hx1 hy0 hy1 hz0 hz1
  obtain ⟨i, tx, hpx, _⟩ := axis_data hgx hnx x
  obtain ⟨j, ty, hpy, _⟩ := axis_data hgy hny y
  obtain ⟨k, tz, hpz, _⟩ := axis_data hgz hnz z
  rw [weights3_of_pairs hpx hpy hpz] at hw hs
  rw [corners3_of_pairs hpx hpy hpz] at hval
  rw [interp3_of_pairs hpx hpy hpz]
  simp only [List.sum_cons, List.sum_nil, add_zero] at hs
  exact convex8 _ _ _ _ _ _ _ _ _ _ _ _ _ _ _ _ m M
    (hw _ (by simp)) (hw _ (by simp)) (hw _ (by simp)) (hw _ (by simp))
    (hw _ (by simp)) (hw _ (by simp)) (hw _ (by simp)) (hw _ (by simp))
    (by linarith)
    (hval (i, j, k) (by simp)) (hval (i, j, k + 1) (by simp))
    (hval (i, j + 1, k) (by simp)) (hval (i, j + 1, k + 1) (by simp))
    (hval (i + 1, j, k) (by simp)) (hval (i + 1, j, k + 1) (by simp))
    (hval (i + 1, j + 1, k) (by simp)) (hval (i + 1, j + 1, k + 1) (by simp))

/-- corollary: bounds of the nodal values are bounds of the interpolant inside the grid -/
theorem interp3_bounds (gx gy gz : List ℚ)
    (hgx : gx.Pairwise (· < ·)) (hgy : gy.Pairwise (· < ·)) (hgz : gz.Pairwise (· < ·))
    (hnx : 2 ≤ gx.length) (hny : 2 ≤ gy.length) (hnz : 2 ≤ gz.length)
    (val : Nat → Nat → Nat → ℚ) (x y z : ℚ)
    (hx0 : nth gx 0 ≤ x) (hx1 : x ≤ nth gx (gx.length - 1))
    (hy0 : nth gy 0 ≤ y) (hy1 : y ≤ nth gy (gy.length - 1))
    (hz0 : nth gz 0 ≤ z) (hz1 : z ≤ nth gz (gz.length - 1))
    (m M : ℚ)
    (hval : ∀ i j k, i < gx.length → j < gy.length → k < gz.length → m ≤ val i j k ∧ val i j k ≤ M) :
    m ≤ interp3 gx gy gz val x y z ∧ interp3 gx gy gz val x y z ≤ M :=
  interp3_convex gx gy gz hgx hgy hgz hnx hny hnz val x y z hx0 hx1 hy0 hy1 hz0 hz1 m M
    (fun c hc => by
      obtain ⟨c1, c2, c3⟩ := corners3_valid gx gy gz hgx hgy hgz hnx hny hnz x y z c hc
      exact hval _ _ _ c1 c2 c3)

/-! ### non-vacuity: a non-uniform 3 × 2 × 4 grid -/

namespace Example
def gx : List ℚ := [0, 1/2, 2]
def gy : List ℚ := [-1, 1]
def gz : List ℚ := [0, 1, 3, 7/2]
/-- some nodal values that are not trilinear -/
def v (i j k : Nat) : ℚ := ((i * i + 3 * j + k * k * k + i * k : Nat) : ℚ) / 4
/-- nodal values of the trilinear field `1 - 2x + 3y + z/2 + xy - xz/4 + 5yz + 7xyz` -/
def vt (i j k : Nat) : ℚ := triPoly 1 (-2) 3 (1/2) 1 (-1/4) 5 7 (nth gx i) (nth gy j) (nth gz k)

theorem hgx : gx.Pairwise (· < ·) := by decide +kernel
theorem hgy : gy.Pairwise (· < ·) := by decide +kernel
theorem hgz : gz.Pairwise (· < ·) := by decide +kernel

-- (b): interior node, last node of every axis, first node of every axis
example : interp3 gx gy gz v (nth gx 1) (nth gy 0) (nth gz 2) = v 1 0 2 :=
  interp3_node gx gy gz hgx hgy hgz (by decide) (by decide) (by decide) v 1 0 2 (by decide) (by decide) (by decide)
example : interp3 gx gy gz v 2 1 (7/2) = v 2 1 3 ∧ interp3 gx gy gz v 0 (-1) 0 = v 0 0 0
    ∧ interp3 gx gy gz v (1/2) 1 3 = 7/2 := by decide +kernel
-- an interior non-node target of the non-trilinear field
example : interp3 gx gy gz v (3/4) 0 (13/4) = 281/48 := by decide +kernel

-- (c): inside, on a face, and far outside the grid (extrapolation)
example : interp3 gx gy gz vt (3/4) (1/3) (13/4) = triPoly 1 (-2) 3 (1/2) 1 (-1/4) 5 7 (3/4) (1/3) (13/4) :=
  interp3_trilinear gx gy gz hgx hgy hgz (by decide) (by decide) (by decide) 1 (-2) 3 (1/2) 1 (-1/4) 5 7 vt
    (fun _ _ _ _ _ _ => rfl) _ _ _
example : interp3 gx gy gz vt (-5) 17 (100/3) = triPoly 1 (-2) 3 (1/2) 1 (-1/4) 5 7 (-5) 17 (100/3) := by
  decide +kernel

-- (d): hypotheses satisfiable with non-trivial bounds
example : (0 : ℚ) ≤ interp3 gx gy gz v (3/4) 0 (13/4) ∧ interp3 gx gy gz v (3/4) 0 (13/4) ≤ 12 :=
  interp3_bounds gx gy gz hgx hgy hgz (by decide) (by decide) (by decide) v (3/4) 0 (13/4)
    (by decide +kernel) (by decide +kernel) (by decide +kernel) (by decide +kernel) (by decide +kernel)
    (by decide +kernel) 0 12
    (fun i j k hi hj hk => (by decide +kernel : ∀ i, i < 3 → ∀ j, j < 2 → ∀ k, k < 4 →
      (0 : ℚ) ≤ v i j k ∧ v i j k ≤ 12) i hi j hj k hk)
example : (11/4 : ℚ) ≤ interp3 gx gy gz v (3/4) 0 (13/4) ∧ interp3 gx gy gz v (3/4) 0 (13/4) ≤ 10 :=
  interp3_convex gx gy gz hgx hgy hgz (by decide) (by decide) (by decide) v (3/4) 0 (13/4)
    (by decide +kernel) (by decide +kernel) (by decide +kernel) (by decide +kernel) (by decide +kernel)
    (by decide +kernel) (11/4) 10 (by decide +kernel)
example : weights3 gx gy gz (3/4) 0 (13/4) = [5/24, 5/24, 5/24, 5/24, 1/24, 1/24, 1/24, 1/24] := by
  decide +kernel
-- outside the grid a weight is negative: the convexity statement needs "inside"
example : weights3 gx gy gz 3 0 (13/4) = [-1/6, -1/6, -1/6, -1/6, 5/12, 5/12, 5/12, 5/12] := by
  decide +kernel
end Example

end AurelVerif.InterpLemmas
