/-
Lemmas/CacheDenMid.lean — property C01, extension round 6: the tool `cohM_test` of Lemmas/CacheDen.lean for a presence
test that is NOT at the top of the body (values `vs` have been read before it), e.g. the zero-shift shortcut of
`s_to_st` inlined in `st_Riemann_down4`.  Core Lean only.
-/
import AurelVerif.Lemmas.CacheDen

set_option linter.unusedSectionVars false
set_option linter.unusedVariables false

namespace AurelVerif.CacheGet
open AurelVerif.Cache AurelVerif.Cache.Dict

variable {κ ν σ : Type} [DecidableEq κ]

/-- a sub-body `if g: A else: B` reached with the values `vs`, whose branches contain no further presence test of a
key with a method, is coherent with the target "value of the sub-body when presence tests see only the inputs" as soon
as the two branches agree on denotations WHEN BOTH OUTCOMES OF THE TEST ARE FEASIBLE. -/
theorem cohM_test_vs (T : Table κ ν) (inp : Dict κ ν) (den : κ → ν) (dflt : ν) (k : κ) (g : Guard κ) (A B : Shape κ)
    (vs : List ν) (target : ν)
    (htarget : target = evalShape T den (fun k => contains inp k) dflt k (.test g A B) vs)
    (hA : stableShape (fun k => (T.shape k).isNone) A = true)
    (hB : stableShape (fun k => (T.shape k).isNone) B = true)
    (heq : FeasibleM T (fun k => (get? inp k).isSome = true) g true →
      FeasibleM T (fun k => (get? inp k).isSome = true) g false →
      evalShape T den (fun k => contains inp k) dflt k A vs = evalShape T den (fun k => contains inp k) dflt k B vs) :
    CohM T den (fun k => (get? inp k).isSome = true) target k (.test g A B) vs := by
  have hfe := feasibleM_inputs T inp g
  have hu : evalShape T den (fun k => contains inp k) dflt k (.test g A B) vs
      = if g.eval (fun k => contains inp k) T.flag
        then evalShape T den (fun k => contains inp k) dflt k A vs
        else evalShape T den (fun k => contains inp k) dflt k B vs := rfl
  rw [htarget, hu]
  cases hb : g.eval (fun k => contains inp k) T.flag with
  | true =>
    rw [hb] at hfe
    simp only [↓reduceIte]
    refine ⟨fun _ => cohM_auto T inp _ dflt k A vs hA, fun hf => ?_⟩
    rw [heq hfe hf]
    exact cohM_auto T inp _ dflt k B vs hB
  | false =>
    rw [hb] at hfe
    simp only [Bool.false_eq_true, ↓reduceIte]
    refine ⟨fun hf => ?_, fun _ => cohM_auto T inp _ dflt k B vs hB⟩
    rw [← heq hf hfe]
    exact cohM_auto T inp _ dflt k A vs hA

/-- none of the four names is supplied when `not (a or b or c or d present)` can be true. -/
theorem feasibleM_nor4_true {T : Table κ ν} (inp : Dict κ ν) {a b c d : κ}
    (h : FeasibleM T (fun k => (get? inp k).isSome = true)
      (.not (.or (.or (.or (.pres a) (.pres b)) (.pres c)) (.pres d))) true) :
    get? inp a = none ∧ get? inp b = none ∧ get? inp c = none ∧ get? inp d = none := by
  obtain ⟨Q, h1, _, h3⟩ := h
  simp only [Guard.eval] at h3
  have key : ∀ x, Q x = false → get? inp x = none := by
    intro x hx
    cases hg : get? inp x with
    | none => rfl
    | some v =>
      have := h1 x (by simp [hg])
      rw [this] at hx; cases hx
  cases ha : Q a <;> cases hb : Q b <;> cases hc : Q c <;> cases hd : Q d <;> simp [ha, hb, hc, hd] at h3
  exact ⟨key a ha, key b hb, key c hc, key d hd⟩

end AurelVerif.CacheGet
