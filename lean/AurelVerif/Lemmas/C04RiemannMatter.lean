/-
Lemmas/C04RiemannMatter.lean — `st_Riemann_down4`, the two `vacuum = False` alternatives: every one of the
256 components of the generated tensor equals
`populate (Gauss) (Codazzi) (Mainardi)` of `Spec/Curvature.lean`.

Proof per alternative: (struct) all 256 entries are those of `populate` applied to the
tensor's own three blocks (by `rfl` on the generated table); (ssss) 81, (ssst) 27, (stst) 9
block entries equal the Spec formulas (by `ring`).
-/
import AurelVerif.Lemmas.C04Blocks
import AurelVerif.Gen.CoreBig_st_Riemann_down4

set_option linter.unusedSimpArgs false
set_option linter.unusedVariables false
set_option linter.unreachableTactic false
set_option linter.unusedTactic false
set_option linter.style.nameCheck false

namespace AurelVerif.C04L
open AurelVerif.Gen.Core AurelVerif.Tensor AurelVerif.CoreTac AurelVerif.C08 AurelVerif.Spec.Curvature

variable {K : Type} [Field K]

/-! ### alternative `betaup3_matter` (a shift key supplied, vacuum = False) -/

set_option maxHeartbeats 1000000 in
theorem bm_struct (e : Env K) : ∀ a b c d, st_Riemann_down4__betaup3_matter e a b c d =
    populate (fun i j k l => st_Riemann_down4__betaup3_matter e i.succ j.succ k.succ l.succ)
      (fun i j k => st_Riemann_down4__betaup3_matter e i.succ j.succ k.succ 0)
      (fun i j => st_Riemann_down4__betaup3_matter e i.succ 0 j.succ 0) a b c d := by
  cases4 <;> cases4 <;> cases4 <;> cases4 <;> rfl

set_option maxHeartbeats 1000000 in
theorem bm_ssss (e : Env K) : ∀ i j k l : Fin 3,
    st_Riemann_down4__betaup3_matter e i.succ j.succ k.succ l.succ = RssssE e i j k l := by
  cases3 <;> cases3 <;> cases3 <;> cases3 <;>
    (first | rfl | (simp only [core_unfold, RssssE, gauss]; ring))

set_option maxHeartbeats 1000000 in
theorem bm_ssst (e : Env K) : ∀ i j k : Fin 3,
    st_Riemann_down4__betaup3_matter e i.succ j.succ k.succ 0 = RssstE e i j k := by
  cases3 <;> cases3 <;> cases3 <;>
    (simp only [core_unfold, RssstE, codazzi, covdDD, RssssE, gauss, Fin.sum_univ_three]; ring)

set_option maxHeartbeats 1000000 in
theorem bm_stst (e : Env K) : ∀ i j : Fin 3,
    st_Riemann_down4__betaup3_matter e i.succ 0 j.succ 0 = RststE e (s_to_st__betaup3 e e.Kdown3) (e.st_Ricci_down3) i j := by
  cases3 <;> cases3 <;>
    (simp only [core_unfold, RststE, mainardi, KK4, RssstE, codazzi, covdDD, RssssE, gauss,
       Fin.sum_univ_three, Fin.sum_univ_four]; ring)

/-- **T5** `st_Riemann_down4` (a shift key supplied, vacuum = False) is `populate(Gauss, Codazzi, Mainardi)`, all 256 components. -/
theorem st_Riemann_down4__betaup3_matter_spec (e : Env K) (a b c d : Fin 4) :
    st_Riemann_down4__betaup3_matter e a b c d
      = populate (RssssE e) (RssstE e) (RststE e (s_to_st__betaup3 e e.Kdown3) (e.st_Ricci_down3)) a b c d := by
  rw [bm_struct e a b c d]
  have h1 : (fun i j k l => st_Riemann_down4__betaup3_matter e i.succ j.succ k.succ l.succ) = RssssE e := by
    funext i j k l; exact bm_ssss e i j k l
  have h2 : (fun i j k => st_Riemann_down4__betaup3_matter e i.succ j.succ k.succ 0) = RssstE e := by
    funext i j k; exact bm_ssst e i j k
  have h3 : (fun i j => st_Riemann_down4__betaup3_matter e i.succ 0 j.succ 0)
      = RststE e (s_to_st__betaup3 e e.Kdown3) (e.st_Ricci_down3) := by
    funext i j; exact bm_stst e i j
  rw [h1, h2, h3]

/-! ### alternative `dflt_matter` (no shift key (zero-shift shortcut of s_to_st), vacuum = False) -/

set_option maxHeartbeats 1000000 in
theorem dm_struct (e : Env K) : ∀ a b c d, st_Riemann_down4__dflt_matter e a b c d =
    populate (fun i j k l => st_Riemann_down4__dflt_matter e i.succ j.succ k.succ l.succ)
      (fun i j k => st_Riemann_down4__dflt_matter e i.succ j.succ k.succ 0)
      (fun i j => st_Riemann_down4__dflt_matter e i.succ 0 j.succ 0) a b c d := by
  cases4 <;> cases4 <;> cases4 <;> cases4 <;> rfl

set_option maxHeartbeats 1000000 in
theorem dm_ssss (e : Env K) : ∀ i j k l : Fin 3,
    st_Riemann_down4__dflt_matter e i.succ j.succ k.succ l.succ = RssssE e i j k l := by
  cases3 <;> cases3 <;> cases3 <;> cases3 <;>
    (first | rfl | (simp only [core_unfold, RssssE, gauss]; ring))

set_option maxHeartbeats 1000000 in
theorem dm_ssst (e : Env K) : ∀ i j k : Fin 3,
    st_Riemann_down4__dflt_matter e i.succ j.succ k.succ 0 = RssstE e i j k := by
  cases3 <;> cases3 <;> cases3 <;>
    (simp only [core_unfold, RssstE, codazzi, covdDD, RssssE, gauss, Fin.sum_univ_three]; ring)

set_option maxHeartbeats 1000000 in
theorem dm_stst (e : Env K) : ∀ i j : Fin 3,
    st_Riemann_down4__dflt_matter e i.succ 0 j.succ 0 = RststE e (s_to_st__dflt e e.Kdown3) (e.st_Ricci_down3) i j := by
  cases3 <;> cases3 <;>
    (simp only [core_unfold, RststE, mainardi, KK4, RssstE, codazzi, covdDD, RssssE, gauss,
       Fin.sum_univ_three, Fin.sum_univ_four]; ring)

/-- **T5** `st_Riemann_down4` (no shift key (zero-shift shortcut of s_to_st), vacuum = False) is `populate(Gauss, Codazzi, Mainardi)`, all 256 components. -/
theorem st_Riemann_down4__dflt_matter_spec (e : Env K) (a b c d : Fin 4) :
    st_Riemann_down4__dflt_matter e a b c d
      = populate (RssssE e) (RssstE e) (RststE e (s_to_st__dflt e e.Kdown3) (e.st_Ricci_down3)) a b c d := by
  rw [dm_struct e a b c d]
  have h1 : (fun i j k l => st_Riemann_down4__dflt_matter e i.succ j.succ k.succ l.succ) = RssssE e := by
    funext i j k l; exact dm_ssss e i j k l
  have h2 : (fun i j k => st_Riemann_down4__dflt_matter e i.succ j.succ k.succ 0) = RssstE e := by
    funext i j k; exact dm_ssst e i j k
  have h3 : (fun i j => st_Riemann_down4__dflt_matter e i.succ 0 j.succ 0)
      = RststE e (s_to_st__dflt e e.Kdown3) (e.st_Ricci_down3) := by
    funext i j; exact dm_stst e i j
  rw [h1, h2, h3]

end AurelVerif.C04L
