/-
Lemmas/C15History.lean — request-order independence over ALL request histories.

The generic cache model of property C01 (Model/CacheGet.lean `getF`/`runHist`,
Lemmas/CacheGet.lean `getF_sound`/`runHist_sound`) instantiated with

  * the shapes `symShape SymLoops.methods` derived from the REGENERATED method
    table of coresymbolic.py (Model/SymCache.lean): branch guards
    `"Riemann_uddd" in self.data` tested on entry, look-ups in order;
  * values = the tensors themselves (`SymVal`);
  * return sites = `__getitem__`'s `sp.simplify` ∘ fill loops ∘ formula line
    (Gen/SymFormulas, Gen/SymLoops), one per method BRANCH (`leaf`);
  * `gup` / `gdet` = arbitrary functions `inv` / `det` of the metric (sympy).

`symTable_coh` PROVES branch coherence (hypothesis H2 of C01): every branch of
every method, fed with the textbook values of the keys it looks up, returns
the textbook value of its key — in particular `Riemann_down` from a cached
`Riemann_uddd` vs. directly, `Ricci_down` from `Riemann_uddd` vs. directly,
`Einstein_down` from `Ricci_down` and `RicciS`.  `symTable_ok` decides the rank
condition (H1: no unbounded recursion, no missing entry).
-/
import AurelVerif.Lemmas.C15CoreAll
import AurelVerif.Lemmas.CacheGet
import AurelVerif.Model.SymCache
import Mathlib.Tactic.IntervalCases

set_option linter.unusedSectionVars false

namespace AurelVerif.SymHistory
open AurelVerif.SymFill AurelVerif.SymFillLemmas AurelVerif.SymCore AurelVerif.SymCoreAll
open AurelVerif.Spec.SymTensors AurelVerif.Gen AurelVerif.SymCache
open AurelVerif.Cache AurelVerif.Cache.Dict AurelVerif.CacheGet

/-- what `self.data` holds -/
inductive SymVal (K : Type) (n : ℕ)
  | sc (x : K)
  | m2 (f : Fin n → Fin n → K)
  | t3 (f : Fin n → Fin n → Fin n → K)
  | t4 (f : Fin n → Fin n → Fin n → Fin n → K)
  | bad

/-- the key numbering used below is the order of the regenerated method table -/
theorem key_numbering : SymLoops.methods.map (·.key)
    = ["gdown", "gup", "gdet", "Gamma_down", "Gamma_udd", "Riemann_down", "Riemann_uddd",
       "Ricci_down", "RicciS", "Einstein_down"] := by decide

/-- … and so is the numbering of the return sites -/
theorem branch_numbering :
    (SymLoops.methods.map (fun m => m.branches.map (·.name)))
    = [["gdown"], ["gup"], ["gdet"], ["Gamma_down"], ["Gamma_udd"],
       ["Riemann_down_cached", "Riemann_down_direct"], ["Riemann_uddd"],
       ["Ricci_down_cached", "Ricci_down_direct"], ["RicciS"], ["Einstein_down"]] := by decide

section table
variable {K : Type} [Field K] (n : ℕ) (D : Fin n → K → K) (b : Bool) (S : K → K)
  (inv : (Fin n → Fin n → K) → (Fin n → Fin n → K)) (det : (Fin n → Fin n → K) → K)

/-- value returned at return site `i` of key `k` from the values looked up
(in look-up order), stored by `__getitem__` (hence `post`) -/
def leaf (k i : ℕ) (vs : List (SymVal K n)) : SymVal K n :=
  match k, i, vs with
  | 1, 0, [.m2 g] => .m2 (inv g)
  | 2, 0, [.m2 g] => .sc (det g)
  | 3, 0, [.m2 g, .t3 Γu] => .t3 (fun i j k => post b S (fillFin3 n (ringOps K) SymLoops.Gamma_down
      (SymFormulas.Gamma_down D b S g Γu) i j k))
  | 4, 0, [.m2 gup, .m2 g] => .t3 (fun i j k => post b S (fillFin3 n (ringOps K) SymLoops.Gamma_udd
      (SymFormulas.Gamma_udd D b S gup g) i j k))
  | 5, 0, [.m2 g, .t4 Ru] => .t4 (fun i j k h => post b S (fillFin4 n (ringOps K)
      SymLoops.Riemann_down_cached (SymFormulas.Riemann_down_cached D b S g Ru) i j k h))
  | 5, 1, [.t3 Γd, .t3 Γu] => .t4 (fun i j k h => post b S (fillFin4 n (ringOps K)
      SymLoops.Riemann_down_direct (SymFormulas.Riemann_down_direct D b S Γd Γu) i j k h))
  | 6, 0, [.t3 Γu] => .t4 (fun i j k h => post b S (fillFin4 n (ringOps K) SymLoops.Riemann_uddd
      (SymFormulas.Riemann_uddd D b S Γu) i j k h))
  | 7, 0, [.t4 Ru] => .m2 (fun i j => post b S (fillFin2 n (ringOps K) SymLoops.Ricci_down_cached
      (SymFormulas.Ricci_down_cached D b S Ru) i j))
  | 7, 1, [.t3 Γu] => .m2 (fun i j => post b S (fillFin2 n (ringOps K) SymLoops.Ricci_down_direct
      (SymFormulas.Ricci_down_direct D b S Γu) i j))
  | 8, 0, [.m2 gup, .m2 Ric] => .sc (post b S (SymFormulas.RicciS D b S gup Ric))
  | 9, 0, [.m2 Ric, .m2 g, .sc Rs] => .m2 (fun i j => post b S (fillFin2 n (ringOps K)
      SymLoops.Einstein_down (SymFormulas.Einstein_down D b S Ric g Rs) i j))
  | _, _, _ => .bad

/-- the definition table of `AurelCoreSymbolic` -/
def symTable : Table ℕ (SymVal K n) where
  shape := symShape SymLoops.methods
  leaf := leaf n D b S inv det
  flag := fun _ => false
  count := fun _ => 0

/-- the textbook value of every key for the metric `g` -/
def den (g : Fin n → Fin n → K) : ℕ → SymVal K n
  | 0 => .m2 g
  | 1 => .m2 (inv g)
  | 2 => .sc (det g)
  | 3 => .t3 (GammaDown D g)
  | 4 => .t3 (GammaUdd D g (inv g))
  | 5 => .t4 (RiemannDown D g (inv g))
  | 6 => .t4 (RiemannUddd D g (inv g))
  | 7 => .m2 (RicciDown D g (inv g))
  | 8 => .sc (RicciScalar D g (inv g))
  | 9 => .m2 (EinsteinDown D g (inv g))
  | _ => .bad

/-- the only frozen input: the metric `gdown` the user stores in `data` -/
def IsMetricKey (k : ℕ) : Prop := k = 0

end table

/-! ### the shapes (evaluated from the regenerated table) -/

theorem shape_ge (k : ℕ) (hk : 10 ≤ k) : symShape SymLoops.methods k = none := by
  have hl : SymLoops.methods.length = 10 := rfl
  unfold symShape
  rw [List.getElem?_eq_none (by omega)]

theorem shape_gup : symShape SymLoops.methods 1 = some (.read 0 (.ret 0)) := rfl
theorem shape_gdet : symShape SymLoops.methods 2 = some (.read 0 (.ret 0)) := rfl
theorem shape_Gamma_down : symShape SymLoops.methods 3 = some (.read 0 (.read 4 (.ret 0))) := rfl
theorem shape_Gamma_udd : symShape SymLoops.methods 4 = some (.read 1 (.read 0 (.ret 0))) := rfl
theorem shape_Riemann_down : symShape SymLoops.methods 5
    = some (.test (.pres 6) (.read 0 (.read 6 (.ret 0)))
        (.test (.pres 6) .fail (.read 3 (.read 4 (.ret 1))))) := rfl
theorem shape_Riemann_uddd : symShape SymLoops.methods 6 = some (.read 4 (.ret 0)) := rfl
theorem shape_Ricci_down : symShape SymLoops.methods 7
    = some (.test (.pres 6) (.read 6 (.ret 0)) (.test (.pres 6) .fail (.read 4 (.ret 1)))) := rfl
theorem shape_RicciS : symShape SymLoops.methods 8 = some (.read 1 (.read 7 (.ret 0))) := rfl
theorem shape_Einstein_down : symShape SymLoops.methods 9
    = some (.read 7 (.read 0 (.read 8 (.ret 0)))) := rfl

/-! ### H2: branch coherence, proven -/
section coh
variable {K : Type} [Field K] [CharZero K] {n : ℕ} {D : Fin n → K → K} {S : K → K}
  {inv : (Fin n → Fin n → K) → (Fin n → Fin n → K)} {det : (Fin n → Fin n → K) → K}
  {g : Fin n → Fin n → K}

theorem symTable_coh (hD : IsDeriv D) (hM : IsMetric g (inv g)) (hS : ∀ x, S x = x) (b : Bool) :
    TableCoh (symTable n D b S inv det) (den n D inv det g) IsMetricKey := by
  intro k sh hF hsh
  rcases Nat.lt_or_ge k 10 with hk | hk
  swap
  · have : symShape SymLoops.methods k = none := shape_ge k hk
    rw [show (symTable n D b S inv det).shape k = symShape SymLoops.methods k from rfl, this] at hsh
    cases hsh
  have hsh' : symShape SymLoops.methods k = some sh := hsh
  interval_cases k
  · exact absurd rfl hF
  · rw [shape_gup] at hsh'; cases hsh'; simp only [Coh]; rfl
  · rw [shape_gdet] at hsh'; cases hsh'; simp only [Coh]; rfl
  · rw [shape_Gamma_down] at hsh'; cases hsh'; simp only [Coh]
    exact congrArg SymVal.t3 (node_Gamma_down hM hS b)
  · rw [shape_Gamma_udd] at hsh'; cases hsh'; simp only [Coh]
    exact congrArg SymVal.t3 (node_Gamma_udd hM hS b)
  · rw [shape_Riemann_down] at hsh'; cases hsh'; simp only [Coh]
    exact ⟨fun _ => congrArg SymVal.t4 (node_Riemann_down_cached hD hM hS b),
      fun _ => ⟨fun _ => trivial, fun _ => congrArg SymVal.t4 (node_Riemann_down_direct hD hM hS b)⟩⟩
  · rw [shape_Riemann_uddd] at hsh'; cases hsh'; simp only [Coh]
    exact congrArg SymVal.t4 (node_Riemann_uddd hS b)
  · rw [shape_Ricci_down] at hsh'; cases hsh'; simp only [Coh]
    exact ⟨fun _ => congrArg SymVal.m2 (node_Ricci_down_cached hD hM hS b),
      fun _ => ⟨fun _ => trivial, fun _ => congrArg SymVal.m2 (node_Ricci_down_direct hD hM hS b)⟩⟩
  · rw [shape_RicciS] at hsh'; cases hsh'; simp only [Coh]
    exact congrArg SymVal.sc (node_RicciS hS b)
  · rw [shape_Einstein_down] at hsh'; cases hsh'; simp only [Coh]
    exact congrArg SymVal.m2 (node_Einstein_down hD hM hS b)

end coh

/-! ### H1: the rank condition, decided -/

/-- depth of a key in the dependency graph -/
def rankOf (k : ℕ) : ℕ := [0, 1, 1, 3, 2, 4, 3, 4, 5, 6].getD k 0

theorem symTable_ok {K : Type} [Field K] (n : ℕ) (D : Fin n → K → K) (b : Bool) (S : K → K)
    (inv : (Fin n → Fin n → K) → (Fin n → Fin n → K)) (det : (Fin n → Fin n → K) → K) :
    TableOK (symTable n D b S inv det) rankOf := by
  intro k sh hsh
  rcases Nat.lt_or_ge k 10 with hk | hk
  swap
  · have : symShape SymLoops.methods k = none := shape_ge k hk
    rw [show (symTable n D b S inv det).shape k = symShape SymLoops.methods k from rfl, this] at hsh
    cases hsh
  have hsh' : symShape SymLoops.methods k = some sh := hsh
  have hall : ∀ k < 10, ∀ sh, symShape SymLoops.methods k = some sh →
      shapeOK rankOf (rankOf k) [] sh = true := by decide
  exact hall k hk sh hsh'

theorem noEvict_ok {κ ν : Type} [DecidableEq κ] (F : κ → Prop) : PolicyOK F (noEvict (κ := κ) (ν := ν)) :=
  ⟨fun _ _ _ _ => Or.inl rfl, fun _ _ _ => Or.inl rfl⟩

theorem noEvict_keeps {κ ν : Type} [DecidableEq κ] : KeepsNew (noEvict (κ := κ) (ν := ν)) :=
  fun _ _ _ => rfl

/-! ### totality: every request of one of the ten keys succeeds -/

theorem shape_gdown : symShape SymLoops.methods 0 = some (.ret 0) := rfl

/-- every look-up of the shape is a key of rank `< r`; no `peek`, `rep`, `fail` -/
def readsOK (r : ℕ) : Shape ℕ → Bool
  | .ret _ => true
  | .read k nx => decide (k < 10) && decide (rankOf k < r) && readsOK r nx
  | .test _ t e => readsOK r t && readsOK r e
  | _ => false

section total
variable {ν σ : Type} {T : Table ℕ ν} {k0 : ℕ} {getRec : Cfg σ ℕ ν → ℕ → Except GErr (Cfg σ ℕ ν × ν)}

theorem runShape_total (r : ℕ)
    (hrec : ∀ k, k < 10 → rankOf k < r → ∀ c, ∃ c' v, getRec c k = .ok (c', v)) :
    ∀ sh, readsOK r sh = true → ∀ c vs, ∃ c' v, runShape T k0 getRec c sh vs = .ok (c', v) := by
  intro sh
  induction sh with
  | ret i => intro _ c vs; exact ⟨c, _, rfl⟩
  | read k nx ih =>
    intro h c vs
    simp only [readsOK, Bool.and_eq_true, decide_eq_true_eq] at h
    obtain ⟨c1, v1, h1⟩ := hrec k h.1.1 h.1.2 c
    obtain ⟨c2, v2, h2⟩ := ih h.2 c1 (vs ++ [v1])
    exact ⟨c2, v2, by simp [runShape, h1, h2]⟩
  | test gd t e iht ihe =>
    intro h c vs
    simp only [readsOK, Bool.and_eq_true] at h
    simp only [runShape]
    split
    · exact iht h.1 c vs
    · exact ihe h.2 c vs
  | peek k nx _ => intro h; simp [readsOK] at h
  | rep cnt ks nx _ => intro h; simp [readsOK] at h
  | fail => intro h; simp [readsOK] at h

/-- the `else` branch of `if "X" in self.data: … else: …` carries the negated
guard in the regenerated table; testing it again changes nothing -/
theorem runShape_test_dup (gd : Guard ℕ) (t e : Shape ℕ) (c : Cfg σ ℕ ν) (vs : List ν) :
    runShape T k0 getRec c (.test gd t (.test gd .fail e)) vs
      = runShape T k0 getRec c (.test gd t e) vs := by
  simp only [runShape]
  split <;> simp [*]

end total

theorem getF_miss {ν σ : Type} (T : Table ℕ ν) (pol : Policy σ ℕ ν) (f : ℕ) (c : Cfg σ ℕ ν) (k : ℕ)
    (sh : Shape ℕ) (h1 : get? c.2 k = none) (h2 : T.shape k = some sh) (c1 : Cfg σ ℕ ν) (v : ν)
    (h3 : runShape T k (getF T pol f) c sh [] = .ok (c1, v)) (w : ν)
    (h4 : get? (pol.onStore c1.1 (set c1.2 k v) k).2 k = some w) :
    getF T pol (f + 1) c k = .ok (pol.onStore c1.1 (set c1.2 k v) k, w) := by
  unfold getF
  simp only [h1, h2, h3, h4]

theorem getF_total {K : Type} [Field K] (n : ℕ) (D : Fin n → K → K) (b : Bool) (S : K → K)
    (inv : (Fin n → Fin n → K) → (Fin n → Fin n → K)) (det : (Fin n → Fin n → K) → K) :
    ∀ fuel k, k < 10 → rankOf k < fuel → ∀ c : Cfg Unit ℕ (SymVal K n),
      ∃ c' v, getF (symTable n D b S inv det) noEvict fuel c k = .ok (c', v) := by
  intro fuel
  induction fuel with
  | zero => intro k _ h; exact absurd h (Nat.not_lt_zero _)
  | succ f ih =>
    intro k hk hr c
    cases h1 : get? c.2 k with
    | some w =>
      obtain ⟨s', v, h⟩ := getF_hit (symTable n D b S inv det) noEvict (f + 1) c k (by simp [contains, h1])
      exact ⟨_, _, h⟩
    | none =>
      have fin : ∀ sh, symShape SymLoops.methods k = some sh →
          (∃ c1 v, runShape (symTable n D b S inv det) k (getF (symTable n D b S inv det) noEvict f) c sh []
            = .ok (c1, v)) →
          ∃ c' v, getF (symTable n D b S inv det) noEvict (f + 1) c k = .ok (c', v) := by
        intro sh hsh ⟨c1, v, hrun⟩
        exact ⟨_, _, getF_miss _ _ f c k sh h1 hsh c1 v hrun v (get?_set_self _ _ _)⟩
      have tot : ∀ sh, readsOK (rankOf k) sh = true → ∀ c : Cfg Unit ℕ (SymVal K n),
          ∃ c1 v, runShape (symTable n D b S inv det) k (getF (symTable n D b S inv det) noEvict f) c sh []
            = .ok (c1, v) := fun sh h c =>
        runShape_total (rankOf k) (fun k' hk' hr' c => ih k' hk' (by omega) c) sh h c []
      interval_cases k
      · exact fin _ shape_gdown (tot _ (by decide) c)
      · exact fin _ shape_gup (tot _ (by decide) c)
      · exact fin _ shape_gdet (tot _ (by decide) c)
      · exact fin _ shape_Gamma_down (tot _ (by decide) c)
      · exact fin _ shape_Gamma_udd (tot _ (by decide) c)
      · refine fin _ shape_Riemann_down ?_
        rw [runShape_test_dup]
        exact tot _ (by decide) c
      · exact fin _ shape_Riemann_uddd (tot _ (by decide) c)
      · refine fin _ shape_Ricci_down ?_
        rw [runShape_test_dup]
        exact tot _ (by decide) c
      · exact fin _ shape_RicciS (tot _ (by decide) c)
      · exact fin _ shape_Einstein_down (tot _ (by decide) c)

/-- a history of requests of the ten keys never raises (recursion budget `≥ 7`) -/
theorem runHist_total {K : Type} [Field K] (n : ℕ) (D : Fin n → K → K) (b : Bool) (S : K → K)
    (inv : (Fin n → Fin n → K) → (Fin n → Fin n → K)) (det : (Fin n → Fin n → K) → K)
    (fuel : ℕ) (hf : 7 ≤ fuel) :
    ∀ (h : List ℕ), (∀ k ∈ h, k < 10) → ∀ c : Cfg Unit ℕ (SymVal K n),
      ∃ c' vs, runHist (symTable n D b S inv det) noEvict fuel c (h.map HOp.req) = .ok (c', vs) := by
  intro h
  induction h with
  | nil => intro _ c; exact ⟨c, [], rfl⟩
  | cons k h ih =>
    intro hk c
    have hk10 : k < 10 := hk k (by simp)
    have hr : rankOf k < fuel := by
      have : rankOf k ≤ 6 := by interval_cases k <;> decide
      omega
    obtain ⟨c1, v, h1⟩ := getF_total n D b S inv det fuel k hk10 hr c
    obtain ⟨c2, vs, h2⟩ := ih (fun k' hk' => hk k' (by simp [hk'])) c1
    exact ⟨c2, v :: vs, by simp [runHist, h1, h2]⟩

end AurelVerif.SymHistory
