/-
Lemmas/C10Riem3D.lean — in THREE dimensions a tensor with the Riemann symmetries is determined by its
Ricci contraction (property C10, coherence of the two constructions of `st_Weyl_down4`).

  `riem3_zero_of_ricci_zero`   `Y_ijkl` antisymmetric in (i,j) and in (k,l), pair symmetric, `u^{ik} Y_ijkl = 0` for a
                               symmetric `u` with `det u ≠ 0`  ⟹  `Y = 0`     (characteristic ≠ 2)
  `det3_ne_zero_of_inv`        `γ u = 1` ⟹ `det u ≠ 0`

Pure algebra: the six independent components satisfy `2 det(u) · Y_m = Σ c_m^{jl}(u) · Ric_jl` with explicit quadratic
coefficients (the inverse of the 6x6 linear map `Y ↦ Ric`, computed once with a computer algebra system and CHECKED
here by `linear_combination`).  Nothing here refers to the generated code.
-/
import AurelVerif.Lemmas.CoreTac
import AurelVerif.Spec.Weyl
import Mathlib.LinearAlgebra.Matrix.Determinant.Basic
import Mathlib.Tactic.NormNum

set_option linter.unusedSimpArgs false
set_option linter.unusedVariables false

namespace AurelVerif.C10
open AurelVerif.Tensor AurelVerif.CoreTac

variable {K : Type} [Field K]

/-- determinant of a 3x3 array, first-row expansion. -/
def det3 (u : Fin 3 → Fin 3 → K) : K :=
  u 0 0 * (u 1 1 * u 2 2 - u 1 2 * u 2 1) - u 0 1 * (u 1 0 * u 2 2 - u 1 2 * u 2 0)
    + u 0 2 * (u 1 0 * u 2 1 - u 1 1 * u 2 0)

theorem det3_is_det (u : Fin 3 → Fin 3 → K) : det3 u = Matrix.det (Matrix.of u) := by
  rw [Matrix.det_fin_three]; simp only [det3, Matrix.of_apply]; ring

/-- a matrix with a left inverse has non-zero determinant. -/
theorem det3_ne_zero_of_inv (γ u : Fin 3 → Fin 3 → K)
    (hinv : ∀ a b, ∑ c, γ a c * u c b = if a = b then 1 else 0) : det3 u ≠ 0 := by
  have hm : Matrix.of γ * Matrix.of u = 1 := by
    ext a b
    rw [Matrix.mul_apply, Matrix.one_apply]
    simpa only [Matrix.of_apply] using hinv a b
  have hd : Matrix.det (Matrix.of γ) * Matrix.det (Matrix.of u) = 1 := by
    rw [← Matrix.det_mul, hm, Matrix.det_one]
  rw [det3_is_det]
  intro h0
  rw [h0, mul_zero] at hd
  exact zero_ne_one hd

/-- the three symmetries of a 3-D tensor of Riemann type. -/
structure RiemannSym3 (Y : Fin 3 → Fin 3 → Fin 3 → Fin 3 → K) : Prop where
  anti12 : ∀ a b c d, Y a b c d = -Y b a c d
  anti34 : ∀ a b c d, Y a b c d = -Y a b d c
  pair : ∀ a b c d, Y a b c d = Y c d a b

/-- **3-D: vanishing Ricci contraction ⟹ vanishing tensor.** -/
theorem riem3_zero_of_ricci_zero (h2 : (2 : K) ≠ 0) (Y : Fin 3 → Fin 3 → Fin 3 → Fin 3 → K) (hY : RiemannSym3 Y)
    (u : Fin 3 → Fin 3 → K) (hu : ∀ i j, u i j = u j i) (hd : det3 u ≠ 0)
    (hRic : ∀ j l, ∑ i, ∑ k, u i k * Y i j k l = 0) : ∀ i j k l, Y i j k l = 0 := by
  have dg : ∀ x : K, x = -x → x = 0 := by
    intro x hx
    have : 2 * x = 0 := by linear_combination hx
    exact (mul_eq_zero.mp this).resolve_left h2
  have d12 : ∀ a c d, Y a a c d = 0 := fun a c d => dg _ (hY.anti12 a a c d)
  have d34 : ∀ a b c, Y a b c c = 0 := fun a b c => dg _ (hY.anti34 a b c c)
  have a10 : ∀ c d, Y 1 0 c d = -Y 0 1 c d := fun c d => hY.anti12 1 0 c d
  have a20 : ∀ c d, Y 2 0 c d = -Y 0 2 c d := fun c d => hY.anti12 2 0 c d
  have a21 : ∀ c d, Y 2 1 c d = -Y 1 2 c d := fun c d => hY.anti12 2 1 c d
  have b10 : ∀ a b, Y a b 1 0 = -Y a b 0 1 := fun a b => hY.anti34 a b 1 0
  have b20 : ∀ a b, Y a b 2 0 = -Y a b 0 2 := fun a b => hY.anti34 a b 2 0
  have b21 : ∀ a b, Y a b 2 1 = -Y a b 1 2 := fun a b => hY.anti34 a b 2 1
  have p1 : Y 0 2 0 1 = Y 0 1 0 2 := hY.pair 0 2 0 1
  have p2 : Y 1 2 0 1 = Y 0 1 1 2 := hY.pair 1 2 0 1
  have p3 : Y 1 2 0 2 = Y 0 2 1 2 := hY.pair 1 2 0 2
  have u10 := hu 1 0; have u20 := hu 2 0; have u21 := hu 2 1
  have R00 := hRic 0 0; have R01 := hRic 0 1; have R02 := hRic 0 2
  have R11 := hRic 1 1; have R12 := hRic 1 2; have R22 := hRic 2 2
  simp only [Fin.sum_univ_three, d12, d34, a10, a20, a21, b10, b20, b21, p1, p2, p3, u10, u20, u21]
    at R00 R01 R02 R11 R12 R22
  have hdet : det3 u = u 0 0 * (u 1 1 * u 2 2 - u 1 2 * u 1 2) - u 0 1 * (u 0 1 * u 2 2 - u 1 2 * u 0 2)
      + u 0 2 * (u 0 1 * u 1 2 - u 1 1 * u 0 2) := by
    simp only [det3, u10, u20, u21]
  have fin : ∀ y : K, 2 * det3 u * y = 0 → y = 0 := fun y hy =>
    (mul_eq_zero.mp hy).resolve_left (mul_ne_zero h2 hd)
  have y1 : Y 0 1 0 1 = 0 := fin _ (by
    rw [hdet]
    linear_combination (u 0 0 * u 2 2 - 2 * u 0 2 ^ 2) * R00 + (2 * u 0 1 * u 2 2 - 4 * u 0 2 * u 1 2) * R01
      + (-2 * u 0 2 * u 2 2) * R02 + (u 1 1 * u 2 2 - 2 * u 1 2 ^ 2) * R11 + (-2 * u 1 2 * u 2 2) * R12
      + (-u 2 2 ^ 2) * R22)
  have y2 : Y 0 1 0 2 = 0 := fin _ (by
    rw [hdet]
    linear_combination (-u 0 0 * u 1 2 + 2 * u 0 1 * u 0 2) * R00 + (2 * u 0 2 * u 1 1) * R01
      + (2 * u 0 1 * u 2 2) * R02 + (u 1 1 * u 1 2) * R11 + (2 * u 1 1 * u 2 2) * R12 + (u 1 2 * u 2 2) * R22)
  have y3 : Y 0 1 1 2 = 0 := fin _ (by
    rw [hdet]
    linear_combination (-u 0 0 * u 0 2) * R00 + (-2 * u 0 0 * u 1 2) * R01 + (-2 * u 0 0 * u 2 2) * R02
      + (-2 * u 0 1 * u 1 2 + u 0 2 * u 1 1) * R11 + (-2 * u 0 1 * u 2 2) * R12 + (-u 0 2 * u 2 2) * R22)
  have y4 : Y 0 2 0 2 = 0 := fin _ (by
    rw [hdet]
    linear_combination (u 0 0 * u 1 1 - 2 * u 0 1 ^ 2) * R00 + (-2 * u 0 1 * u 1 1) * R01
      + (-4 * u 0 1 * u 1 2 + 2 * u 0 2 * u 1 1) * R02 + (-u 1 1 ^ 2) * R11 + (-2 * u 1 1 * u 1 2) * R12
      + (u 1 1 * u 2 2 - 2 * u 1 2 ^ 2) * R22)
  have y5 : Y 0 2 1 2 = 0 := fin _ (by
    rw [hdet]
    linear_combination (u 0 0 * u 0 1) * R00 + (2 * u 0 0 * u 1 1) * R01 + (2 * u 0 0 * u 1 2) * R02
      + (u 0 1 * u 1 1) * R11 + (2 * u 0 2 * u 1 1) * R12 + (-u 0 1 * u 2 2 + 2 * u 0 2 * u 1 2) * R22)
  have y6 : Y 1 2 1 2 = 0 := fin _ (by
    rw [hdet]
    linear_combination (-u 0 0 ^ 2) * R00 + (-2 * u 0 0 * u 0 1) * R01 + (-2 * u 0 0 * u 0 2) * R02
      + (u 0 0 * u 1 1 - 2 * u 0 1 ^ 2) * R11 + (2 * u 0 0 * u 1 2 - 4 * u 0 1 * u 0 2) * R12
      + (u 0 0 * u 2 2 - 2 * u 0 2 ^ 2) * R22)
  cases3 <;> cases3 <;> cases3 <;> cases3 <;>
    simp only [d12, d34, a10, a20, a21, b10, b20, b21, p1, p2, p3, y1, y2, y3, y4, y5, y6, neg_zero]

end AurelVerif.C10
