/-
Lemmas/Store.lean — helper lemmas and the long proofs for C13
(Model/Store.lean).  Core Lean only (no Mathlib).
-/
import AurelVerif.Spec.Store
namespace AurelVerif.Store

/-! ### association lists -/
section AL
variable {κ : Type} {β : Type} [DecidableEq κ]

@[simp] theorem alGet_nil (k : κ) : alGet k ([] : List (κ × β)) = none := rfl

theorem alGet_cons (k k' : κ) (v : β) (l : List (κ × β)) :
    alGet k ((k', v) :: l) = if k' = k then some v else alGet k l := rfl

theorem alGet_append (k : κ) (l l' : List (κ × β)) :
    alGet k (l ++ l') = match alGet k l with | some v => some v | none => alGet k l' := by
  induction l with
  | nil => simp
  | cons p l ih =>
    obtain ⟨k', v⟩ := p
    simp only [List.cons_append, alGet_cons]
    split <;> simp [ih]

theorem alGet_alErase (k k' : κ) (l : List (κ × β)) :
    alGet k' (alErase k l) = if k' = k then none else alGet k' l := by
  induction l with
  | nil => simp [alErase]
  | cons p l ih =>
    obtain ⟨k0, v⟩ := p
    unfold alErase at ih ⊢
    by_cases h0 : k0 = k
    · subst h0
      simp only [List.filter_cons, decide_true, Bool.not_true, Bool.false_eq_true, if_false, ih, alGet_cons]
      by_cases h1 : k' = k0
      · simp [h1]
      · have : ¬ k0 = k' := fun e => h1 e.symm
        simp [h1, this]
    · simp only [List.filter_cons, h0, decide_false, Bool.not_false, if_true, alGet_cons, ih]
      by_cases h1 : k' = k
      · subst h1; simp [h0]
      · simp [h1]

theorem alGet_alSet (k k' : κ) (v : β) (l : List (κ × β)) :
    alGet k' (alSet k v l) = if k' = k then some v else alGet k' l := by
  induction l with
  | nil =>
    simp only [alSet, alGet_cons, alGet_nil]
    by_cases h : k = k' <;> simp [h, eq_comm]
  | cons p l ih =>
    obtain ⟨k0, v0⟩ := p
    simp only [alSet]
    by_cases h0 : k0 = k
    · subst h0
      simp only [if_true, alGet_cons]
      by_cases h1 : k0 = k'
      · simp [h1]
      · have : ¬ k' = k0 := fun e => h1 e.symm
        simp [h1, this]
    · simp only [h0, if_false, alGet_cons, ih]
      by_cases h1 : k0 = k'
      · subst h1; simp [h0]
      · simp [h1]

theorem mem_alSet {k : κ} {v : β} {l : List (κ × β)} {q : κ × β} (h : q ∈ alSet k v l) :
    q = (k, v) ∨ q ∈ l := by
  induction l with
  | nil => simp [alSet] at h; exact Or.inl h
  | cons p l ih =>
    obtain ⟨k0, v0⟩ := p
    simp only [alSet] at h
    split at h
    · rcases List.mem_cons.mp h with h | h
      · exact Or.inl h
      · exact Or.inr (List.mem_cons_of_mem _ h)
    · rcases List.mem_cons.mp h with h | h
      · exact Or.inr (h ▸ List.mem_cons_self)
      · rcases ih h with h | h
        · exact Or.inl h
        · exact Or.inr (List.mem_cons_of_mem _ h)

theorem mem_of_alGet {k : κ} {v : β} {l : List (κ × β)} (h : alGet k l = some v) : (k, v) ∈ l := by
  induction l with
  | nil => simp at h
  | cons p l ih =>
    obtain ⟨k0, v0⟩ := p
    rw [alGet_cons] at h
    split at h
    · rename_i e; cases h; subst e; exact List.mem_cons_self
    · exact List.mem_cons_of_mem _ (ih h)

theorem alGet_isSome_of_mem {p : κ × β} {l : List (κ × β)} (h : p ∈ l) : (alGet p.1 l).isSome := by
  induction l with
  | nil => simp at h
  | cons q l ih =>
    obtain ⟨k0, v0⟩ := q
    rw [alGet_cons]
    split
    · rfl
    · rcases List.mem_cons.mp h with h | h
      · rename_i hne; exact absurd (by rw [h]) hne
      · exact ih h

theorem mem_alErase {k : κ} {l : List (κ × β)} {q : κ × β} (h : q ∈ alErase k l) : q ∈ l :=
  (List.mem_filter.mp h).1

end AL

/-! ### `sorted(set(l))`, `list(set(l))`, `l.index(x)` -/

theorem mem_insertSorted {x y : Int} {l : List Int} : y ∈ insertSorted x l ↔ y = x ∨ y ∈ l := by
  induction l with
  | nil => simp [insertSorted]
  | cons z l ih =>
    simp only [insertSorted]
    split
    · simp
    · split
      · rename_i e; subst e; simp
      · simp only [List.mem_cons, ih]
        constructor
        · rintro (h | h | h) <;> simp [h]
        · rintro (h | h | h) <;> simp [h]

theorem mem_sortedSet {y : Int} {l : List Int} : y ∈ sortedSet l ↔ y ∈ l := by
  induction l with
  | nil => simp [sortedSet]
  | cons x l ih =>
    unfold sortedSet at ih ⊢
    rw [List.foldr_cons, mem_insertSorted, ih]; simp

theorem pairwise_insertSorted {x : Int} {l : List Int} (h : l.Pairwise (· < ·)) :
    (insertSorted x l).Pairwise (· < ·) := by
  induction l with
  | nil => simp [insertSorted]
  | cons z l ih =>
    simp only [insertSorted]
    rw [List.pairwise_cons] at h
    split
    · rename_i hlt
      refine List.pairwise_cons.mpr ⟨?_, List.pairwise_cons.mpr h⟩
      intro a ha
      rcases List.mem_cons.mp ha with ha | ha
      · omega
      · have := h.1 a ha; omega
    · split
      · exact List.pairwise_cons.mpr h
      · refine List.pairwise_cons.mpr ⟨?_, ih h.2⟩
        intro a ha
        rcases mem_insertSorted.mp ha with ha | ha
        · omega
        · exact h.1 a ha

theorem pairwise_sortedSet (l : List Int) : (sortedSet l).Pairwise (· < ·) := by
  induction l with
  | nil => simp [sortedSet]
  | cons x l ih => unfold sortedSet at ih ⊢; exact pairwise_insertSorted ih

theorem nodup_sortedSet (l : List Int) : (sortedSet l).Nodup :=
  (pairwise_sortedSet l).imp (fun h => by omega)

section
variable {α : Type} [DecidableEq α]

theorem mem_dedup {x : α} {l : List α} : x ∈ dedup l ↔ x ∈ l := by
  induction l with
  | nil => simp [dedup]
  | cons y l ih =>
    simp only [dedup]
    split
    · rename_i hy
      rw [ih]; constructor
      · exact List.mem_cons_of_mem _
      · intro h; rcases List.mem_cons.mp h with h | h
        · exact h ▸ hy
        · exact h
    · simp [ih]

theorem nodup_dedup (l : List α) : (dedup l).Nodup := by
  induction l with
  | nil => simp [dedup]
  | cons y l ih =>
    simp only [dedup]
    split
    · exact ih
    · rename_i hy
      exact List.nodup_cons.mpr ⟨fun h => hy (mem_dedup.mp h), ih⟩

theorem dedup_eq_nil {l : List α} : dedup l = [] ↔ l = [] := by
  constructor
  · intro h
    cases l with
    | nil => rfl
    | cons y l =>
      have : y ∈ dedup (y :: l) := mem_dedup.mpr List.mem_cons_self
      rw [h] at this; simp at this
  · intro h; subst h; rfl

theorem indexOf?_eq_none {x : α} {l : List α} : indexOf? x l = none ↔ x ∉ l := by
  induction l with
  | nil => simp [indexOf?]
  | cons y l ih =>
    simp only [indexOf?]
    split
    · rename_i e; simp [e]
    · rename_i hne
      simp only [Option.map_eq_none_iff, ih, List.mem_cons, not_or]
      exact ⟨fun h => ⟨fun e => hne e.symm, h⟩, fun h => h.2⟩

theorem getElem?_of_indexOf? {x : α} {l : List α} {k : Nat} (h : indexOf? x l = some k) :
    l[k]? = some x := by
  induction l generalizing k with
  | nil => simp [indexOf?] at h
  | cons y l ih =>
    simp only [indexOf?] at h
    split at h
    · rename_i e; cases h; simp [e]
    · simp only [Option.map_eq_some_iff] at h
      obtain ⟨k', hk', rfl⟩ := h
      simpa using ih hk'

/-- positions of a duplicate-free list -/
theorem indexOf?_zip_range' {l : List α} (hl : l.Nodup) : ∀ (s : Nat) (p : Nat × α),
    p ∈ (List.range' s l.length).zip l → indexOf? p.2 l = some (p.1 - s) := by
  induction l with
  | nil => intro s p h; simp at h
  | cons y l ih =>
    intro s p h
    rw [List.length_cons, List.range'_succ, List.zip_cons_cons] at h
    rw [List.nodup_cons] at hl
    rcases List.mem_cons.mp h with h | h
    · subst h; simp [indexOf?]
    · have hm : p.2 ∈ l := (List.of_mem_zip h).2
      have hs : s + 1 ≤ p.1 := by
        have := (List.of_mem_zip h).1
        rw [List.mem_range'_1] at this; exact this.1
      have hne : ¬ y = p.2 := fun e => hl.1 (e ▸ hm)
      simp only [indexOf?, hne, if_false, ih hl.2 (s + 1) p h, Option.map_some]
      congr 1; omega

end


/-! ### strings -/

abbrev rlSep : List Char := [' ', 'r', 'l']

theorem rlSep_eq : " rl".toList = rlSep := by decide

def digitsOf (n : Nat) : List Char := Nat.toDigits 10 n

theorem toList_toString_nat (n : Nat) : (toString n).toList = digitsOf n := by
  rw [Nat.toString_eq_repr, Nat.toList_repr]; rfl

theorem rlTag_toList (r : Nat) : (rlTag r).toList = ' ' :: 'r' :: 'l' :: '=' :: digitsOf r := by
  simp [rlTag, String.toList_append]
  rfl

theorem skey_toList (v : String) (r : Nat) :
    (skey v r).toList = v.toList ++ ' ' :: 'r' :: 'l' :: '=' :: digitsOf r := by
  simp [skey, String.toList_append, rlTag_toList]

theorem digitsOf_isDigit {n : Nat} {c : Char} (h : c ∈ digitsOf n) : c.isDigit = true :=
  Nat.isDigit_of_mem_toDigits (by decide) (by decide) h

theorem digitsOf_inj {a b : Nat} (h : digitsOf a = digitsOf b) : a = b := by
  have ha := @Nat.ofDigitChars_ten_toDigits a
  have hb := @Nat.ofDigitChars_ten_toDigits b
  unfold digitsOf at h
  rw [h] at ha
  omega

/-- cancellation at a separator that occurs in neither tail -/
theorem append_sep_cancel {α} {c : α} : ∀ {a b x y : List α}, c ∉ a → c ∉ b →
    a ++ c :: x = b ++ c :: y → a = b ∧ x = y
  | [], [], _, _, _, _, h => by simpa using h
  | [], b0 :: b, _, _, _, hb, h => by
    simp at h hb; exact absurd h.1 (by intro e; exact hb.1 e)
  | a0 :: a, [], _, _, ha, _, h => by
    simp at h ha; exact absurd h.1.symm (by intro e; exact ha.1 e)
  | a0 :: a, b0 :: b, x, y, ha, hb, h => by
    simp at h ha hb
    have := append_sep_cancel (a := a) (b := b) (x := x) (y := y) ha.2 hb.2 h.2
    exact ⟨by rw [h.1, this.1], this.2⟩

theorem skey_inj {v v' : String} {r r' : Nat} (h : skey v r = skey v' r') : v = v' ∧ r = r' := by
  have h1 := congrArg String.toList h
  rw [skey_toList, skey_toList] at h1
  have h2 := congrArg List.reverse h1
  simp only [List.reverse_append, List.reverse_cons, List.append_assoc, List.cons_append,
    List.nil_append] at h2
  -- (digits r).reverse ++ '=' :: 'l' :: 'r' :: ' ' :: v.reverse
  have nd : ∀ n, '=' ∉ (digitsOf n).reverse := by
    intro n hm
    have := digitsOf_isDigit (List.mem_reverse.mp hm)
    revert this; decide
  have := append_sep_cancel (nd r) (nd r') h2
  have hr : r = r' := digitsOf_inj (List.reverse_inj.mp this.1)
  have hv : v.toList.reverse = v'.toList.reverse := by
    have := this.2; simpa using this
  exact ⟨String.ext (List.reverse_inj.mp hv), hr⟩


theorem hasInfix_cons (pat : List Char) (c : Char) (cs : List Char) :
    hasInfix pat (c :: cs) = (pat.isPrefixOf (c :: cs) || hasInfix pat cs) := rfl

theorem splitFirst_prefix (sep : List Char) : ∀ l, splitFirst sep l <+: l
  | [] => by simp [splitFirst]
  | c :: cs => by
    simp only [splitFirst]
    split
    · exact List.nil_prefix
    · exact (List.prefix_cons_inj c).mpr (splitFirst_prefix sep cs)

/-- Lemma A: the part before the first occurrence does not contain the separator -/
theorem hasInfix_splitFirst (sep : List Char) (hs : sep ≠ []) :
    ∀ l, hasInfix sep (splitFirst sep l) = false
  | [] => by cases sep <;> simp_all [splitFirst, hasInfix]
  | c :: cs => by
    simp only [splitFirst]
    split
    · cases sep <;> simp_all [hasInfix]
    · rename_i hnp
      rw [hasInfix_cons, hasInfix_splitFirst sep hs cs, Bool.or_false]
      cases hp : sep.isPrefixOf (c :: splitFirst sep cs) with
      | false => rfl
      | true =>
        exfalso; apply hnp
        rw [List.isPrefixOf_iff_prefix] at hp ⊢
        exact hp.trans ((List.prefix_cons_inj c).mpr (splitFirst_prefix sep cs))

/-- no occurrence of " rl" straddles the end of a name that contains none -/
theorem no_straddle : ∀ (v rest : List Char), hasInfix rlSep v = false → v ≠ [] →
    rlSep.isPrefixOf (v ++ ' ' :: 'r' :: 'l' :: rest) = false
  | [], _, _, h => absurd rfl h
  | [c], rest, h, _ => by
    simp [List.isPrefixOf]
  | [c, x], rest, h, _ => by
    simp [List.isPrefixOf]
  | c :: x :: y :: w, rest, h, _ => by
    simp [hasInfix, List.isPrefixOf] at h
    simp [List.isPrefixOf]
    intro h1 h2 h3; exact h.1 h1 h2 h3

/-- Lemma B -/
theorem splitFirst_name : ∀ (v rest : List Char), hasInfix rlSep v = false →
    splitFirst rlSep (v ++ ' ' :: 'r' :: 'l' :: rest) = v
  | [], rest, _ => by simp [splitFirst, List.isPrefixOf]
  | c :: v, rest, h => by
    have hns := no_straddle (c :: v) rest h (by simp)
    rw [hasInfix_cons, Bool.or_eq_false_iff] at h
    have ih := splitFirst_name v rest h.2
    simp only [List.cons_append] at hns ⊢
    simp only [splitFirst, hns]
    simp [ih]

/-- Lemma C -/
theorem hasInfix_append_self (pat : List Char) : ∀ v, hasInfix pat (v ++ pat) = true
  | [] => by
    cases pat with
    | nil => rfl
    | cons p ps =>
      rw [List.nil_append, hasInfix_cons]
      have : (p :: ps).isPrefixOf (p :: ps) = true := List.isPrefixOf_iff_prefix.mpr (List.prefix_refl _)
      simp [this]
  | c :: v => by
    rw [List.cons_append, hasInfix_cons, hasInfix_append_self pat v, Bool.or_true]

theorem mem_of_hasInfix_cons (p : Char) (ps : List Char) : ∀ l, hasInfix (p :: ps) l = true → p ∈ l
  | [], h => by simp [hasInfix] at h
  | c :: cs, h => by
    rw [hasInfix_cons, Bool.or_eq_true] at h
    rcases h with h | h
    · rw [List.isPrefixOf_iff_prefix] at h
      obtain ⟨t, ht⟩ := h
      simp at ht
      simp [ht.1]
    · exact List.mem_cons_of_mem _ (mem_of_hasInfix_cons p ps cs h)

/-- Lemma D -/
theorem prefix_of_hasInfix_tag (d d' : List Char) (hd' : ' ' ∉ d') : ∀ (v : List Char),
    hasInfix rlSep v = false →
    hasInfix (' ' :: 'r' :: 'l' :: '=' :: d) (v ++ ' ' :: 'r' :: 'l' :: '=' :: d') = true → d <+: d'
  | [], _, h => by
    rw [List.nil_append, hasInfix_cons, Bool.or_eq_true] at h
    rcases h with h | h
    · rw [List.isPrefixOf_iff_prefix] at h
      simpa using h
    · have := mem_of_hasInfix_cons _ _ _ h
      simp at this
      exact absurd this hd'
  | c :: v, hv, h => by
    have hns := no_straddle (c :: v) ('=' :: d') hv (by simp)
    rw [hasInfix_cons, Bool.or_eq_false_iff] at hv
    rw [List.cons_append, hasInfix_cons, Bool.or_eq_true] at h
    rcases h with h | h
    · exfalso
      rw [List.isPrefixOf_iff_prefix] at h
      have h2 : rlSep <+: c :: (v ++ ' ' :: 'r' :: 'l' :: '=' :: d') :=
        (List.prefix_append rlSep ('=' :: d)).trans (by simpa using h)
      rw [← List.isPrefixOf_iff_prefix] at h2
      simp only [List.cons_append] at hns
      rw [hns] at h2; exact Bool.noConfusion h2
    · exact prefix_of_hasInfix_tag d d' hd' v hv.2 h

/-! ### save_data -/

theorem alGet_delIf (sk sk' : String) (f : File) :
    alGet sk' (if hasKey sk f then alErase sk f else f) = if sk' = sk then none else alGet sk' f := by
  split
  · exact alGet_alErase sk sk' f
  · rename_i h
    by_cases e : sk' = sk
    · subst e
      simp only [hasKey, Bool.not_eq_true, Option.isSome_eq_false_iff, Option.isNone_iff_eq_none] at h
      simp [h]
    · simp [e]

theorem alGet_rewrite (sk sk' : String) (x : Val) (f : File) :
    alGet sk' ((if hasKey sk f then alErase sk f else f) ++ [(sk, x)])
      = if sk' = sk then some x else alGet sk' f := by
  rw [alGet_append, alGet_delIf]
  by_cases e : sk' = sk
  · subst e; simp [alGet_cons]
  · have e' : ¬ sk = sk' := fun h => e h.symm
    simp only [e, if_false, alGet_cons, e', alGet_nil]
    cases alGet sk' f <;> rfl

theorem writeKeys_err (data : Data) (rl k : Nat) : ∀ (vars : List String) (f : File),
    (writeKeys data rl k vars f).2 = keysErr data k vars
  | [], f => rfl
  | key :: ks, f => by
    simp only [writeKeys, keysErr]
    cases hk : alGet key data with
    | none => rfl
    | some c =>
      cases c with
      | none => exact writeKeys_err data rl k ks f
      | some col =>
        simp only []
        cases hx : col[k]? with
        | none => rfl
        | some e =>
          cases e with
          | none => rfl
          | some x => exact writeKeys_err data rl k ks _

/-- a failing or succeeding save touches, inside one file, only the keys it names -/
theorem writeKeys_frame (data : Data) (rl k : Nat) : ∀ (vars : List String) (f : File) (sk : String),
    (∀ v ∈ vars, colPresent data v = true → sk ≠ skey v rl) →
    alGet sk (writeKeys data rl k vars f).1 = alGet sk f
  | [], f, sk, _ => rfl
  | key :: ks, f, sk, h => by
    have hks : ∀ v ∈ ks, colPresent data v = true → sk ≠ skey v rl :=
      fun v hv => h v (List.mem_cons_of_mem _ hv)
    simp only [writeKeys]
    split
    · rfl
    · exact writeKeys_frame data rl k ks f sk hks
    · rename_i col hc
      have hk : sk ≠ skey key rl := h key List.mem_cons_self (by simp [colPresent, hc])
      split
      · simp [alGet_delIf, hk]
      · simp [alGet_delIf, hk]
      · rw [writeKeys_frame data rl k ks _ sk hks, alGet_rewrite]; simp [hk]

theorem writeKeys_keys (data : Data) (rl k : Nat) : ∀ (vars : List String) (f : File) (p : String × Val),
    p ∈ (writeKeys data rl k vars f).1 → p ∈ f ∨ ∃ v ∈ vars, p.1 = skey v rl
  | [], f, p, h => Or.inl h
  | key :: ks, f, p, h => by
    have hdel : ∀ q, q ∈ (if hasKey (skey key rl) f then alErase (skey key rl) f else f) → q ∈ f := by
      intro q hq; split at hq
      · exact mem_alErase hq
      · exact hq
    simp only [writeKeys] at h
    split at h
    · exact Or.inl h
    · rcases writeKeys_keys data rl k ks f p h with h | ⟨v, hv, e⟩
      · exact Or.inl h
      · exact Or.inr ⟨v, List.mem_cons_of_mem _ hv, e⟩
    · split at h
      · exact Or.inl (hdel p h)
      · exact Or.inl (hdel p h)
      · rcases writeKeys_keys data rl k ks _ p h with h | ⟨v, hv, e⟩
        · rcases List.mem_append.mp h with h | h
          · exact Or.inl (hdel p h)
          · simp at h; exact Or.inr ⟨key, List.mem_cons_self, by rw [h]⟩
        · exact Or.inr ⟨v, List.mem_cons_of_mem _ hv, e⟩

theorem keysErr_none_iff (data : Data) (k : Nat) : ∀ (vars : List String),
    keysErr data k vars = none ↔ ∀ v ∈ vars, alGet v data ≠ none ∧
      ∀ col, alGet v data = some (some col) → ∃ x, col[k]? = some (some x)
  | [] => by simp [keysErr]
  | key :: ks => by
    simp only [keysErr, List.forall_mem_cons]
    have ih := keysErr_none_iff data k ks
    split
    · rename_i h; simp [h]
    · rename_i h; rw [ih]; simp [h]
    · rename_i col h
      split
      · rename_i h2; simp [h, h2]
      · rename_i h2; simp [h, h2]
      · rename_i x h2; rw [ih]; simp [h, h2]

theorem writeKeys_ok (data : Data) (rl k : Nat) : ∀ (vars : List String) (f : File),
    keysErr data k vars = none → ∀ v r,
    alGet (skey v r) (writeKeys data rl k vars f).1 =
      if r = rl ∧ v ∈ vars ∧ colPresent data v = true then entryAt data k v else alGet (skey v r) f
  | [], f, _, v, r => by simp [writeKeys]
  | key :: ks, f, h, v, r => by
    simp only [keysErr] at h
    simp only [writeKeys]
    split at h
    · cases h
    · rename_i hk
      rw [hk]; simp only []
      rw [writeKeys_ok data rl k ks f h v r]
      by_cases e : v = key
      · subst e; simp [colPresent, hk]
      · simp [e]
    · rename_i col hk
      rw [hk]; simp only []
      split at h
      · cases h
      · cases h
      · rename_i x hx
        rw [hx]; simp only []
        rw [writeKeys_ok data rl k ks _ h v r, alGet_rewrite]
        by_cases e : v = key
        · subst e
          have hp : colPresent data v = true := by simp [colPresent, hk]
          have he : entryAt data k v = some x := by simp [entryAt, hk, hx]
          by_cases er : r = rl
          · subst er; simp [hp, he]
          · have : ¬ skey v r = skey v rl := fun h => er (skey_inj h).2
            simp [er, this]
        · have : ¬ skey v r = skey key rl := fun h => e (skey_inj h).1
          simp [e, this]

/-- contents of dataset `sk` of file `i` -/
def cellS (s : Store) (i : Int) (sk : String) : Option Val := (alGet i s).bind (alGet sk)

theorem absStore_eq (s : Store) (i : Int) (v : String) (r : Nat) :
    absStore s i v r = cellS s i (skey v r) := rfl

theorem cellS_alSet (s : Store) (iit i : Int) (f : File) (sk : String) :
    cellS (alSet iit f s) i sk = if i = iit then alGet sk f else cellS s i sk := by
  unfold cellS; rw [alGet_alSet]; split <;> rfl

theorem alGet_getD (s : Store) (iit : Int) (sk : String) :
    alGet sk ((alGet iit s).getD []) = cellS s iit sk := by
  unfold cellS; cases alGet iit s <;> rfl

theorem saveLoop_err (data : Data) (vars : List String) (rl : Nat) : ∀ (ps : List (Nat × Int)) (s : Store),
    (saveLoop data vars rl ps s).2 = loopErr data vars ps
  | [], s => rfl
  | (k, iit) :: rest, s => by
    simp only [saveLoop, loopErr]
    rw [writeKeys_err]
    cases keysErr data k vars with
    | some e => rfl
    | none => exact saveLoop_err data vars rl rest _

theorem saveLoop_frame (data : Data) (vars : List String) (rl : Nat) :
    ∀ (ps : List (Nat × Int)) (s : Store) (i : Int) (sk : String),
    (i ∉ ps.map Prod.snd ∨ ∀ v ∈ vars, colPresent data v = true → sk ≠ skey v rl) →
    cellS (saveLoop data vars rl ps s).1 i sk = cellS s i sk
  | [], s, i, sk, _ => rfl
  | (k, iit) :: rest, s, i, sk, h => by
    have hstep : cellS (alSet iit (writeKeys data rl k vars ((alGet iit s).getD [])).1 s) i sk
        = cellS s i sk := by
      rw [cellS_alSet]
      split
      · rename_i e; subst e
        rcases h with h | h
        · simp at h
        · rw [writeKeys_frame data rl k vars _ sk h, alGet_getD]
      · rfl
    have h' : i ∉ rest.map Prod.snd ∨ ∀ v ∈ vars, colPresent data v = true → sk ≠ skey v rl := by
      rcases h with h | h
      · left; intro hm; exact h (by simp only [List.map_cons, List.mem_cons]; exact Or.inr hm)
      · exact Or.inr h
    simp only [saveLoop]
    cases he : (writeKeys data rl k vars ((alGet iit s).getD [])).2 with
    | some e => simpa using hstep
    | none =>
      simp only []
      rw [saveLoop_frame data vars rl rest _ i sk h', hstep]

theorem saveLoop_ok (data : Data) (vars : List String) (rl : Nat) (pos : Int → Option Nat) :
    ∀ (ps : List (Nat × Int)) (s : Store), loopErr data vars ps = none →
    (∀ p ∈ ps, pos p.2 = some p.1) → ∀ (i : Int) (v : String) (r : Nat),
    cellS (saveLoop data vars rl ps s).1 i (skey v r) =
      if r = rl ∧ i ∈ ps.map Prod.snd ∧ v ∈ vars ∧ colPresent data v = true
      then (pos i).bind fun k => entryAt data k v
      else cellS s i (skey v r)
  | [], s, _, _, i, v, r => by simp [saveLoop]
  | (k, iit) :: rest, s, herr, hpos, i, v, r => by
    simp only [loopErr] at herr
    cases hk : keysErr data k vars with
    | some e => rw [hk] at herr; cases herr
    | none =>
      rw [hk] at herr
      have hw : (writeKeys data rl k vars ((alGet iit s).getD [])).2 = none := by
        rw [writeKeys_err, hk]
      simp only [saveLoop, hw]
      rw [saveLoop_ok data vars rl pos rest _ herr (fun p hp => hpos p (List.mem_cons_of_mem _ hp)) i v r,
        cellS_alSet, writeKeys_ok data rl k vars _ hk v r, alGet_getD]
      have hp0 : pos iit = some k := hpos (k, iit) List.mem_cons_self
      by_cases c1 : r = rl ∧ v ∈ vars ∧ colPresent data v = true
      · obtain ⟨e1, e2, e3⟩ := c1
        by_cases c2 : i ∈ rest.map Prod.snd
        · simp [e1, e2, e3, c2]
        · by_cases c3 : i = iit
          · subst c3; simp [e1, e2, e3, hp0]
          · simp [e1, e2, e3, c2, c3]
      · have : ¬ (r = rl ∧ i ∈ List.map Prod.snd rest ∧ v ∈ vars ∧ colPresent data v = true) :=
          fun h => c1 ⟨h.1, h.2.2.1, h.2.2.2⟩
        have this2 : ¬ (r = rl ∧ i ∈ List.map Prod.snd ((k, iit) :: rest) ∧ v ∈ vars ∧ colPresent data v = true) :=
          fun h => c1 ⟨h.1, h.2.2.1, h.2.2.2⟩
        rw [if_neg this, if_neg this2, if_neg c1]
        split
        · rename_i e; rw [e]
        · rfl


theorem indexAll_ok {col : List Entry} : ∀ {it : List Int} {idx : List Nat},
    indexAll col it = .ok idx →
    (∀ p ∈ idx.zip it, indexOf? (some p.2) col = some p.1) ∧ (idx.zip it).map Prod.snd = it
  | [], idx, h => by
    simp only [indexAll] at h; cases h; simp
  | i :: is, idx, h => by
    simp only [indexAll] at h
    cases hi : indexOf? (some i) col with
    | none => rw [hi] at h; cases h
    | some k =>
      rw [hi] at h; simp only [] at h
      cases hr : indexAll col is with
      | error e => rw [hr] at h; cases h
      | ok ks =>
        rw [hr] at h; simp only [] at h
        cases h
        have ih := indexAll_ok hr
        refine ⟨?_, by simp [ih.2]⟩
        intro p hp
        rw [List.zip_cons_cons] at hp
        rcases List.mem_cons.mp hp with hp | hp
        · subst hp; exact hi
        · exact ih.1 p hp

theorem indexAll_isOk_iff {col : List Entry} : ∀ {it : List Int},
    (∃ idx, indexAll col it = .ok idx) ↔ ∀ i ∈ it, some i ∈ col
  | [] => by simp [indexAll]
  | i :: is => by
    simp only [indexAll, List.forall_mem_cons]
    have ih := @indexAll_isOk_iff col is
    cases hi : indexOf? (some i) col with
    | none =>
      have := indexOf?_eq_none.mp hi
      simp [this]
    | some k =>
      have hm : some i ∈ col := by
        apply Classical.byContradiction; intro hn
        rw [indexOf?_eq_none.mpr hn] at hi; cases hi
      simp only [hm, true_and, ← ih]
      cases hr : indexAll col is with
      | error e => simp
      | ok ks => simp

theorem indexAll_error {col : List Entry} : ∀ {it : List Int} {e : Err},
    indexAll col it = .error e → e = .valueError
  | [], e, h => by simp [indexAll] at h
  | i :: is, e, h => by
    simp only [indexAll] at h
    cases hi : indexOf? (some i) col with
    | none => rw [hi] at h; cases h; rfl
    | some k =>
      rw [hi] at h; simp only [] at h
      cases hr : indexAll col is with
      | error e' => rw [hr] at h; cases h; exact indexAll_error hr
      | ok ks => rw [hr] at h; cases h

theorem itIndices_ok {a : SaveArgs} {idx : List Nat} (h : itIndices a = .ok idx) :
    (∀ p ∈ idx.zip (sortedSet a.it), posOf a p.2 = some p.1) ∧
    (idx.zip (sortedSet a.it)).map Prod.snd = sortedSet a.it := by
  have positional : (∀ p ∈ (List.range (sortedSet a.it).length).zip (sortedSet a.it),
        indexOf? p.2 (sortedSet a.it) = some p.1) ∧
      ((List.range (sortedSet a.it).length).zip (sortedSet a.it)).map Prod.snd = sortedSet a.it := by
    refine ⟨?_, List.map_snd_zip (by simp)⟩
    intro p hp
    rw [List.range_eq_range'] at hp
    have := indexOf?_zip_range' (nodup_sortedSet a.it) 0 p hp
    simpa using this
  unfold itIndices at h
  unfold posOf
  cases hd : alGet "it" a.data with
  | none => rw [hd] at h; simp only [] at h; cases h; exact positional
  | some c =>
    cases c with
    | none => rw [hd] at h; simp only [] at h; cases h; exact positional
    | some col => rw [hd] at h; simp only [] at h; exact indexAll_ok h

theorem loopErr_none_iff (data : Data) (vars : List String) : ∀ (ps : List (Nat × Int)),
    loopErr data vars ps = none ↔ ∀ p ∈ ps, keysErr data p.1 vars = none
  | [] => by simp [loopErr]
  | p :: ps => by
    simp only [loopErr, List.forall_mem_cons]
    cases hk : keysErr data p.1 vars with
    | some e => simp
    | none => simp [loopErr_none_iff data vars ps]

/-- T3: the exception is a function of the arguments alone -/
theorem save_err (s : Store) (a : SaveArgs) : (save s a).2 = saveErr a := by
  unfold save saveErr
  cases itIndices a with
  | error e => rfl
  | ok idx => exact saveLoop_err _ _ _ _ _

theorem mem_zip_of_mem_snd {ps : List (Nat × Int)} {i : Int} (h : i ∈ ps.map Prod.snd) :
    ∃ k, (k, i) ∈ ps := by
  rw [List.mem_map] at h
  obtain ⟨p, hp, rfl⟩ := h
  exact ⟨p.1, hp⟩

theorem save_accepts_iff (a : SaveArgs) : saveErr a = none ↔ Accepts a := by
  unfold saveErr Accepts
  constructor
  · intro h
    cases hi : itIndices a with
    | error e => rw [hi] at h; cases h
    | ok idx =>
      rw [hi] at h; simp only [] at h
      have hz := itIndices_ok hi
      rw [loopErr_none_iff] at h
      refine ⟨?_, ?_⟩
      · intro col hc
        unfold itIndices at hi; rw [hc] at hi; simp only [] at hi
        exact indexAll_isOk_iff.mp ⟨idx, hi⟩
      · intro i hi' k hk v hv
        rw [← hz.2] at hi'
        obtain ⟨k', hk'⟩ := mem_zip_of_mem_snd hi'
        have := hz.1 _ hk'
        simp only [] at this
        rw [hk] at this; cases this
        exact (keysErr_none_iff a.data k (effVars a)).mp (h _ hk') v hv
  · rintro ⟨h1, h2⟩
    have hok : ∃ idx, itIndices a = .ok idx := by
      unfold itIndices
      cases hd : alGet "it" a.data with
      | none => exact ⟨_, rfl⟩
      | some c =>
        cases c with
        | none => exact ⟨_, rfl⟩
        | some col => exact indexAll_isOk_iff.mpr (h1 col hd)
    obtain ⟨idx, hi⟩ := hok
    rw [hi]; simp only []
    have hz := itIndices_ok hi
    rw [loopErr_none_iff]
    intro p hp
    have hm : p.2 ∈ sortedSet a.it := by
      rw [← hz.2]; exact List.mem_map.mpr ⟨p, hp, rfl⟩
    exact (keysErr_none_iff a.data p.1 (effVars a)).mpr (h2 p.2 hm p.1 (hz.1 p hp))

/-- T2 (frame), any outcome: a cell the call does not name is unchanged -/
theorem save_frame (s : Store) (a : SaveArgs) (i : Int) (v : String) (r : Nat)
    (h : ¬ Names a i v r) : absStore (save s a).1 i v r = absStore s i v r := by
  unfold save
  cases hi : itIndices a with
  | error e => rfl
  | ok idx =>
    simp only []
    rw [absStore_eq, absStore_eq]
    apply saveLoop_frame
    have hz := itIndices_ok hi
    by_cases hm : i ∈ sortedSet a.it
    · right
      intro v' hv' hp e
      have := skey_inj e
      apply h
      exact ⟨this.2, hm, this.1 ▸ hv', this.1 ▸ hp⟩
    · left; rw [hz.2]; exact hm

/-- refinement: a successful save is `specSave` on the abstract state -/
theorem save_refines (s : Store) (a : SaveArgs) (h : saveErr a = none) (i : Int) (v : String) (r : Nat) :
    absStore (save s a).1 i v r = specSave a (absStore s) i v r := by
  have hacc := (save_accepts_iff a).mp h
  unfold saveErr at h
  unfold save
  cases hi : itIndices a with
  | error e => rw [hi] at h; cases h
  | ok idx =>
    rw [hi] at h; simp only [] at h ⊢
    have hz := itIndices_ok hi
    rw [absStore_eq, saveLoop_ok a.data (effVars a) a.rl (posOf a) _ s h hz.1 i v r, hz.2]
    unfold specSave entryFor
    by_cases c : r = a.rl ∧ i ∈ sortedSet a.it ∧ v ∈ effVars a ∧ colPresent a.data v = true
    · have cN : Names a i v r := c
      rw [if_pos c, if_pos cN]
      -- the named cell receives a value
      obtain ⟨_, hm, hv, hp⟩ := c
      have hm' := hm
      rw [← hz.2] at hm'
      obtain ⟨k, hk⟩ := mem_zip_of_mem_snd hm'
      have hpos : posOf a i = some k := hz.1 _ hk
      have := (hacc.2 i hm k hpos v hv).2
      unfold colPresent at hp
      cases hd : alGet v a.data with
      | none => rw [hd] at hp; cases hp
      | some c' =>
        cases c' with
        | none => rw [hd] at hp; cases hp
        | some col =>
          obtain ⟨x, hx⟩ := this col hd
          simp [hpos, entryAt, hd, hx]
    · have cN : ¬ Names a i v r := c
      rw [if_neg c, if_neg cN]; rfl

/-! ### read_data -/

/-- `n` appends of the same entry -/
def RCol.pushN : Nat → Entry → RCol → RCol
  | 0, _, c => c
  | n + 1, e, c => RCol.pushN n e (c.push e)

theorem pushN_col (n : Nat) (e : Entry) (c : List Entry) :
    RCol.pushN n e (.col c) = .col (c ++ List.replicate n e) := by
  induction n generalizing c with
  | zero => simp [RCol.pushN]
  | succ n ih =>
    simp only [RCol.pushN, RCol.push, ih, List.append_assoc]
    rw [List.replicate_succ]; rfl

theorem pushN_its (n : Nat) (e : Entry) (l : List Int) : RCol.pushN n e (.its l) = .its l := by
  induction n with
  | zero => rfl
  | succ n ih => simp only [RCol.pushN, RCol.push, ih]

theorem alGet_appendEntry (key : String) (e : Entry) (d : RData) (v : String) :
    alGet v (appendEntry key e d) = if v = key then (alGet v d).map (·.push e) else alGet v d := by
  induction d with
  | nil => simp [appendEntry]
  | cons p d ih =>
    obtain ⟨k0, c0⟩ := p
    unfold appendEntry at ih ⊢
    simp only [List.map_cons]
    by_cases h0 : k0 = key
    · subst h0
      simp only [if_true, alGet_cons, ih]
      by_cases h1 : k0 = v
      · subst h1; simp
      · have : ¬ v = k0 := fun e => h1 e.symm
        simp [h1, this]
    · simp only [h0, if_false, alGet_cons, ih]
      by_cases h1 : k0 = v
      · subst h1; simp [h0]
      · simp [h1]

theorem alGet_foldl_appendEntry (e : Entry) : ∀ (vs : List String) (d : RData) (v : String),
    alGet v (vs.foldl (fun d key => appendEntry key e d) d) = (alGet v d).map (RCol.pushN (vs.count v) e)
  | [], d, v => by
    simp only [List.foldl_nil, List.count_nil]
    cases alGet v d <;> rfl
  | key :: ks, d, v => by
    rw [List.foldl_cons, alGet_foldl_appendEntry e ks _ v, alGet_appendEntry, List.count_cons]
    by_cases h : v = key
    · subst h
      cases alGet v d with
      | none => simp
      | some c => simp [RCol.pushN]
    · have : ¬ key = v := fun e => h e.symm
      simp [h, this]

theorem alGet_readKey (f : File) (rl k : Nat) (d : RData) (key v : String) :
    alGet v (readKey f rl k d key) =
      if v = key then
        some (((alGet v d).getD (.col (List.replicate k none))).push (alGet (skey key rl) f))
      else alGet v d := by
  have he : (if hasKey (skey key rl) f then alGet (skey key rl) f else none) = alGet (skey key rl) f := by
    unfold hasKey
    cases alGet (skey key rl) f <;> rfl
  unfold readKey
  simp only [he]
  rw [alGet_appendEntry]
  by_cases h : v = key
  · subst h
    simp only [if_true]
    unfold hasKey
    cases hd : alGet v d with
    | none => simp [alGet_append, hd, alGet_cons]
    | some c => simp [hd]
  · have h' : ¬ key = v := fun e => h e.symm
    simp only [h, if_false]
    split
    · rfl
    · rw [alGet_append]
      cases alGet v d with
      | none => simp [alGet_cons, h']
      | some c => rfl

theorem alGet_foldl_readKey (f : File) (rl k : Nat) : ∀ (vs : List String) (d : RData) (v : String),
    alGet v (vs.foldl (readKey f rl k) d) =
      if v ∈ vs then
        some (RCol.pushN (vs.count v) (alGet (skey v rl) f)
          ((alGet v d).getD (.col (List.replicate k none))))
      else alGet v d
  | [], d, v => by simp
  | key :: ks, d, v => by
    rw [List.foldl_cons, alGet_foldl_readKey f rl k ks _ v, alGet_readKey, List.count_cons]
    by_cases h : v = key
    · subst h
      by_cases hm : v ∈ ks
      · simp [hm, RCol.pushN]
      · have : List.count v ks = 0 := List.count_eq_zero.mpr hm
        simp [hm, this, RCol.pushN]
    · have : ¬ key = v := fun e => h e.symm
      simp [h, this]

theorem mem_discover (rl : Nat) : ∀ (f : File) (var : List String) (v : String),
    v ∈ discover rl f var ↔ v ∈ var ∨ ∃ p ∈ f, matchesRl rl p.1 = true ∧ nameOf p.1 = v
  | [], var, v => by simp [discover]
  | p :: f, var, v => by
    unfold discover
    rw [List.foldl_cons]
    have ih := mem_discover rl f
    unfold discover at ih
    rw [ih]
    by_cases hm : matchesRl rl p.1 = true
    · simp only [hm, if_true, List.mem_append, List.mem_cons, exists_eq_or_imp, true_and,
        List.mem_nil_iff, or_false]
      constructor
      · rintro ((h | h) | h)
        · exact Or.inl h
        · exact Or.inr (Or.inl h.symm)
        · exact Or.inr (Or.inr h)
      · rintro (h | h | h)
        · exact Or.inl (Or.inl h)
        · exact Or.inl (Or.inr h.symm)
        · exact Or.inr h
    · simp [hm]

/-- the column `read_data` must return for `v` after the iterations `pre`, every
iteration contributing `m v` copies -/
def expCol (s : Store) (rl : Nat) (m : String → Nat) (pre : List Int) (v : String) : List Entry :=
  pre.flatMap fun i => List.replicate (m v) (absStore s i v rl)

theorem expCol_snoc (s : Store) (rl : Nat) (m : String → Nat) (pre : List Int) (iit : Int) (v : String) :
    expCol s rl m (pre ++ [iit]) v = expCol s rl m pre v ++ List.replicate (m v) (absStore s iit v rl) := by
  simp [expCol, List.flatMap_append]

theorem expCol_none (s : Store) (rl : Nat) (m : String → Nat) (v : String) (hm : m v = 1) :
    ∀ (pre : List Int), (∀ i ∈ pre, absStore s i v rl = none) →
    expCol s rl m pre v = List.replicate pre.length none
  | [], _ => rfl
  | i :: pre, h => by
    have ih := expCol_none s rl m v hm pre (fun j hj => h j (List.mem_cons_of_mem _ hj))
    unfold expCol at ih ⊢
    rw [List.flatMap_cons, ih, hm, h i List.mem_cons_self, List.length_cons, List.replicate_succ]
    rfl

structure InvC (s : Store) (rl : Nat) (m : String → Nat) (it0 pre : List Int)
    (var : List String) (data : RData) : Prop where
  keys : ∀ v, (alGet v data).isSome = true ↔ (v = "it" ∨ v ∈ var)
  cols : ∀ v c, alGet v data = some (.col c) → c = expCol s rl m pre v
  cnt : ∀ v ∈ var, var.count v = m v
  colVar : ∀ v c, alGet v data = some (.col c) → v ∈ var
  varCol : ∀ v ∈ var, ∀ l, alGet v data ≠ some (.its l)
  itKey : "it" ∉ var → alGet "it" data = some (.its it0)

theorem InvC.step {s : Store} {rl : Nat} {m : String → Nat} {it0 pre : List Int}
    {var : List String} {data : RData} (h : InvC s rl m it0 pre var data)
    (iit : Int) (var' : List String) (data' : RData)
    (hsub : ∀ v ∈ var, v ∈ var')
    (hcnt : ∀ v ∈ var', var'.count v = m v)
    (hnew : ∀ v ∈ var', v ∉ var → v ≠ "it" ∧ m v = 1 ∧ ∀ i ∈ pre, absStore s i v rl = none)
    (hdata : ∀ v, alGet v data' =
      if v ∈ var' then
        some (RCol.pushN (var'.count v) (absStore s iit v rl)
          ((alGet v data).getD (.col (List.replicate pre.length none))))
      else alGet v data) :
    InvC s rl m it0 (pre ++ [iit]) var' data' := by
  have hit : "it" ∈ var' → "it" ∈ var := by
    intro h1
    apply Classical.byContradiction; intro h2
    exact (hnew "it" h1 h2).1 rfl
  refine ⟨?_, ?_, hcnt, ?_, ?_, ?_⟩
  · intro v
    rw [hdata]
    by_cases hv : v ∈ var'
    · simp [hv]
    · simp only [hv, if_false, or_false]
      rw [h.keys]
      constructor
      · rintro (e | e)
        · exact e
        · exact absurd (hsub v e) hv
      · exact Or.inl
  · intro v c' hc
    rw [hdata] at hc
    by_cases hv : v ∈ var'
    · simp only [hv, if_true, Option.some.injEq] at hc
      rw [hcnt v hv] at hc
      rw [expCol_snoc]
      cases hd : alGet v data with
      | none =>
        have hnv : v ∉ var := by
          intro hin
          have := (h.keys v).mpr (Or.inr hin)
          rw [hd] at this; cases this
        obtain ⟨_, hm1, hnone⟩ := hnew v hv hnv
        rw [hd] at hc
        simp only [Option.getD_none, pushN_col, RCol.col.injEq] at hc
        rw [← hc, expCol_none s rl m v hm1 pre hnone]
      | some X =>
        rw [hd] at hc
        cases X with
        | its l => simp [pushN_its] at hc
        | col c0 =>
          simp only [Option.getD_some, pushN_col, RCol.col.injEq] at hc
          rw [← hc, h.cols v c0 hd]
    · simp only [hv, if_false] at hc
      exact absurd (hsub v (h.colVar v c' hc)) hv
  · intro v c hc
    rw [hdata] at hc
    by_cases hv : v ∈ var'
    · exact hv
    · simp only [hv, if_false] at hc
      exact hsub v (h.colVar v c hc)
  · intro v hv l hc
    rw [hdata] at hc
    simp only [hv, if_true, Option.some.injEq] at hc
    cases hd : alGet v data with
    | none => rw [hd] at hc; simp [pushN_col] at hc
    | some X =>
      rw [hd] at hc
      cases X with
      | col c0 => simp [pushN_col] at hc
      | its l0 =>
        have : v = "it" ∨ v ∈ var := (h.keys v).mp (by rw [hd]; rfl)
        rcases this with e | e
        · subst e; exact h.varCol "it" (hit hv) l0 hd
        · exact h.varCol v e l0 hd
  · intro hn
    rw [hdata]
    simp only [hn, if_false]
    exact h.itKey (fun e => hn (hsub "it" e))

/-! one pass of the loop, as an `alGet` characterisation -/

theorem absStore_of_file {s : Store} {iit : Int} {f : File} (h : alGet iit s = some f) (v : String) (rl : Nat) :
    absStore s iit v rl = alGet (skey v rl) f := by
  unfold absStore; rw [h]; rfl

theorem absStore_of_missing {s : Store} {iit : Int} (h : alGet iit s = none) (v : String) (rl : Nat) :
    absStore s iit v rl = none := by
  unfold absStore; rw [h]; rfl

theorem readIter_data (s : Store) (rl : Nat) (ga : Bool) (k : Nat) (iit : Int) (st : RState)
    (hk : ∀ v ∈ st.var, (alGet v st.data).isSome = true) (v : String) :
    alGet v (readIter s rl ga k iit st).data =
      if v ∈ (readIter s rl ga k iit st).var then
        some (RCol.pushN ((readIter s rl ga k iit st).var.count v) (absStore s iit v rl)
          ((alGet v st.data).getD (.col (List.replicate k none))))
      else alGet v st.data := by
  unfold readIter
  cases hf : alGet iit s with
  | none =>
    simp only []
    rw [alGet_foldl_appendEntry, absStore_of_missing hf]
    by_cases hv : v ∈ st.var
    · have := hk v hv
      cases hd : alGet v st.data with
      | none => rw [hd] at this; cases this
      | some X => simp [hv]
    · have : List.count v st.var = 0 := List.count_eq_zero.mpr hv
      simp only [hv, if_false, this, RCol.pushN]
      cases alGet v st.data <;> rfl
  | some f =>
    simp only []
    rw [alGet_foldl_readKey, absStore_of_file hf]

/-! ### the loop, explicit variable list -/

theorem readIter_var_explicit (s : Store) (rl k : Nat) (iit : Int) (st : RState) :
    (readIter s rl false k iit st).var = st.var := by
  unfold readIter; cases alGet iit s <;> simp

theorem readLoop_cons (s : Store) (rl : Nat) (ga : Bool) (k : Nat) (iit : Int) (rest : List Int) (st : RState) :
    readLoop s rl ga k (iit :: rest) st = readLoop s rl ga (k + 1) rest (readIter s rl ga k iit st) := rfl

theorem readLoop_explicit (s : Store) (rl : Nat) (m : String → Nat) (it0 : List Int) :
    ∀ (rest pre : List Int) (st : RState), InvC s rl m it0 pre st.var st.data →
    (readLoop s rl false pre.length rest st).var = st.var ∧
    InvC s rl m it0 (pre ++ rest) st.var (readLoop s rl false pre.length rest st).data
  | [], pre, st, h => by simpa [readLoop] using h
  | iit :: rest, pre, st, h => by
    have hv := readIter_var_explicit s rl pre.length iit st
    have h1 : InvC s rl m it0 (pre ++ [iit]) (readIter s rl false pre.length iit st).var
        (readIter s rl false pre.length iit st).data := by
      apply h.step iit
      · intro v hx; rw [hv]; exact hx
      · intro v hx; rw [hv] at hx ⊢; exact h.cnt v hx
      · intro v hx hn; rw [hv] at hx; exact absurd hx hn
      · exact readIter_data s rl false pre.length iit st (fun v hx => (h.keys v).mpr (Or.inr hx))
    have ih := readLoop_explicit s rl m it0 rest (pre ++ [iit]) _ h1
    have e : (pre ++ [iit]).length = pre.length + 1 := by simp
    rw [e, hv] at ih
    rw [readLoop_cons]
    simpa [List.append_assoc] using ih

/-! ### the loop, discovery (`vars = []`) -/

/-- file `i` exists and has a key that passes the substring test and splits to `v` -/
def DiscAt (s : Store) (rl : Nat) (i : Int) (v : String) : Prop :=
  ∃ f, alGet i s = some f ∧ ∃ p ∈ f, matchesRl rl p.1 = true ∧ nameOf p.1 = v

theorem noRl_nameOf (key : String) : NoRl (nameOf key) := by
  unfold NoRl nameOf
  simp only [String.toList_ofList]
  exact hasInfix_splitFirst _ (by decide) _

theorem matchesRl_skey (v : String) (rl : Nat) : matchesRl rl (skey v rl) = true := by
  unfold matchesRl
  rw [skey_toList, rlTag_toList]
  exact hasInfix_append_self _ _

theorem nameOf_skey {v : String} (h : NoRl v) (rl : Nat) : nameOf (skey v rl) = v := by
  unfold nameOf
  unfold NoRl at h
  rw [rlSep_eq] at h ⊢
  rw [skey_toList, splitFirst_name _ _ h, String.ofList_toList]

theorem discAt_of_abs {s : Store} {rl : Nat} {i : Int} {v : String} (hn : NoRl v)
    (h : absStore s i v rl ≠ none) : DiscAt s rl i v := by
  unfold absStore at h
  cases hf : alGet i s with
  | none => rw [hf] at h; exact absurd rfl h
  | some f =>
    rw [hf] at h
    cases hx : alGet (skey v rl) f with
    | none => simp [hx] at h
    | some x =>
      exact ⟨f, hf, (skey v rl, x), mem_of_alGet hx, matchesRl_skey v rl, nameOf_skey hn rl⟩

structure InvG (s : Store) (rl : Nat) (pre : List Int) (var : List String) : Prop where
  nodup : var.Nodup
  grow : ∀ v, v ∈ var ↔ v = "t" ∨ (v ≠ "it" ∧ ∃ i ∈ pre, DiscAt s rl i v)

theorem InvG.notIt {s : Store} {rl : Nat} {pre : List Int} {var : List String} (h : InvG s rl pre var)
    {v : String} (hv : v ∈ var) : v ≠ "it" := by
  rcases (h.grow v).mp hv with e | e
  · subst e; decide
  · exact e.1

theorem mem_newVar {rl : Nat} {f : File} {var : List String} {v : String} :
    v ∈ (dedup (discover rl f var)).filter (fun v => v ≠ "it") ↔
      v ≠ "it" ∧ (v ∈ var ∨ ∃ p ∈ f, matchesRl rl p.1 = true ∧ nameOf p.1 = v) := by
  rw [List.mem_filter, mem_dedup, mem_discover]
  simp [and_comm]

theorem readLoop_getAll (s : Store) (rl : Nat) (it0 : List Int) :
    ∀ (rest pre : List Int) (st : RState), InvC s rl (fun _ => 1) it0 pre st.var st.data →
    InvG s rl pre st.var →
    InvC s rl (fun _ => 1) it0 (pre ++ rest) (readLoop s rl true pre.length rest st).var
      (readLoop s rl true pre.length rest st).data ∧
    InvG s rl (pre ++ rest) (readLoop s rl true pre.length rest st).var
  | [], pre, st, h, g => by simpa [readLoop] using And.intro h g
  | iit :: rest, pre, st, h, g => by
    have hdata := readIter_data s rl true pre.length iit st (fun v hx => (h.keys v).mpr (Or.inr hx))
    -- the new variable list
    have hvar : (∀ v, v ∈ (readIter s rl true pre.length iit st).var ↔
          v ≠ "it" ∧ (v ∈ st.var ∨ DiscAt s rl iit v)) ∧
        (readIter s rl true pre.length iit st).var.Nodup := by
      unfold readIter
      cases hf : alGet iit s with
      | none =>
        refine ⟨fun v => ⟨fun hx => ⟨g.notIt hx, Or.inl hx⟩, ?_⟩, g.nodup⟩
        rintro ⟨_, hx | ⟨f, hf', _⟩⟩
        · exact hx
        · rw [hf] at hf'; cases hf'
      | some f =>
        simp only [if_true]
        refine ⟨fun v => ?_, (nodup_dedup _).sublist List.filter_sublist⟩
        rw [mem_newVar]
        constructor
        · rintro ⟨h1, h2 | h2⟩
          · exact ⟨h1, Or.inl h2⟩
          · exact ⟨h1, Or.inr ⟨f, hf, h2⟩⟩
        · rintro ⟨h1, h2 | ⟨f', hf', h2⟩⟩
          · exact ⟨h1, Or.inl h2⟩
          · rw [hf] at hf'; cases hf'; exact ⟨h1, Or.inr h2⟩
    have hsub : ∀ v ∈ st.var, v ∈ (readIter s rl true pre.length iit st).var :=
      fun v hx => (hvar.1 v).mpr ⟨g.notIt hx, Or.inl hx⟩
    have h1 : InvC s rl (fun _ => 1) it0 (pre ++ [iit]) (readIter s rl true pre.length iit st).var
        (readIter s rl true pre.length iit st).data := by
      apply h.step iit _ _ hsub
      · intro v hx
        rw [hvar.2.count]; simp [hx]
      · intro v hx hn
        have hm := (hvar.1 v).mp hx
        refine ⟨hm.1, rfl, ?_⟩
        intro i hi
        apply Classical.byContradiction; intro hne
        have hnorl : NoRl v := by
          rcases hm.2 with e | ⟨f, _, p, _, _, e⟩
          · exact absurd e hn
          · rw [← e]; exact noRl_nameOf _
        exact hn ((g.grow v).mpr (Or.inr ⟨hm.1, i, hi, discAt_of_abs hnorl hne⟩))
      · exact hdata
    have g1 : InvG s rl (pre ++ [iit]) (readIter s rl true pre.length iit st).var := by
      refine ⟨hvar.2, fun v => ?_⟩
      rw [hvar.1 v, g.grow v]
      constructor
      · rintro ⟨hq, (e | ⟨_, i, hi, hd⟩) | hd⟩
        · exact Or.inl e
        · exact Or.inr ⟨hq, i, List.mem_append_left _ hi, hd⟩
        · exact Or.inr ⟨hq, iit, by simp, hd⟩
      · rintro (e | ⟨hq, i, hi, hd⟩)
        · subst e; exact ⟨by decide, Or.inl (Or.inl rfl)⟩
        · rcases List.mem_append.mp hi with hi | hi
          · exact ⟨hq, Or.inl (Or.inr ⟨hq, i, hi, hd⟩)⟩
          · simp at hi; rw [hi] at hd; exact ⟨hq, Or.inr hd⟩
    have ih := readLoop_getAll s rl it0 rest (pre ++ [iit]) _ h1 g1
    have e : (pre ++ [iit]).length = pre.length + 1 := by simp
    rw [e] at ih
    rw [readLoop_cons]
    simpa [List.append_assoc] using ih

/-! ### initial dictionary and the final statements about `read` -/

theorem alGet_foldl_alSet (c : RCol) : ∀ (var : List String) (d : RData) (v : String),
    alGet v (var.foldl (fun d v => alSet v c d) d) = if v ∈ var then some c else alGet v d
  | [], d, v => by simp
  | x :: xs, d, v => by
    rw [List.foldl_cons, alGet_foldl_alSet c xs _ v, alGet_alSet]
    by_cases h : v = x
    · subst h; simp
    · simp [h]

theorem alGet_initData (it : List Int) (var : List String) (v : String) :
    alGet v (initData it var) =
      if v ∈ var then some (.col []) else if v = "it" then some (.its it) else none := by
  unfold initData
  rw [alGet_foldl_alSet, alGet_cons]
  by_cases h : v = "it"
  · subst h; simp
  · have : ¬ "it" = v := fun e => h e.symm
    simp [h, this]

theorem invC_init (s : Store) (rl : Nat) (m : String → Nat) (it : List Int) (var : List String)
    (hm : ∀ v ∈ var, var.count v = m v) : InvC s rl m it [] var (initData it var) := by
  refine ⟨?_, ?_, hm, ?_, ?_, ?_⟩
  · intro v; rw [alGet_initData]
    by_cases h : v ∈ var
    · simp [h]
    · by_cases h2 : v = "it"
      · subst h2; simp [h]
      · simp [h, h2]
  · intro v c hc; rw [alGet_initData] at hc
    by_cases h : v ∈ var
    · simp [h] at hc; subst hc; rfl
    · by_cases h2 : v = "it"
      · subst h2; simp [h] at hc
      · simp [h, h2] at hc
  · intro v c hc; rw [alGet_initData] at hc
    by_cases h : v ∈ var
    · exact h
    · by_cases h2 : v = "it"
      · subst h2; simp [h] at hc
      · simp [h, h2] at hc
  · intro v hv l hc; rw [alGet_initData] at hc; simp [hv] at hc
  · intro hn; rw [alGet_initData]; simp [hn]

/-- the variable list `read_aurel_data` starts from: `list(set(vars))`, then
`'t'` unless it is already there -/
def var1 (vars : List String) : List String :=
  if "t" ∈ dedup vars then dedup vars else dedup vars ++ ["t"]

theorem readAurel_eq (s : Store) (a : ReadArgs) :
    readAurel s a = (readLoop s a.rl (decide (dedup a.vars = [])) 0 (sortedSet a.it)
      ⟨var1 a.vars, initData (sortedSet a.it) (var1 a.vars)⟩).data := rfl

theorem mem_var1 (vars : List String) (v : String) : v ∈ var1 vars ↔ v ∈ vars ∨ v = "t" := by
  unfold var1
  split
  · rename_i h
    rw [mem_dedup] at h ⊢
    constructor
    · exact Or.inl
    · rintro (e | e)
      · exact e
      · rw [e]; exact h
  · simp [mem_dedup]

theorem nodup_var1 (vars : List String) : (var1 vars).Nodup := by
  unfold var1
  split
  · exact nodup_dedup vars
  · rename_i h
    rw [List.nodup_append]
    refine ⟨nodup_dedup vars, by simp, ?_⟩
    intro x hx y hy e
    simp at hy; subst hy; subst e; exact h hx

theorem flatMap_replicate_one {α β : Type} (l : List α) (f : α → β) :
    (l.flatMap fun i => List.replicate 1 (f i)) = l.map f := by
  induction l with
  | nil => rfl
  | cons x l ih =>
    rw [List.flatMap_cons, ih]; rfl

theorem expCol_one (s : Store) (rl : Nat) (pre : List Int) (v : String) :
    expCol s rl (fun _ => 1) pre v = pre.map (fun i => absStore s i v rl) := by
  unfold expCol; exact flatMap_replicate_one _ _

/-- `read_aurel_data`, complete description of the returned dictionary -/
theorem readAurel_spec (s : Store) (a : ReadArgs) :
    -- every returned list is the column of stored values, one entry per iteration
    (∀ v c, alGet v (readAurel s a) = some (.col c) →
        c = (sortedSet a.it).map (fun i => absStore s i v a.rl)) ∧
    -- the iteration array
    ("it" ∉ a.vars → alGet "it" (readAurel s a) = some (.its (sortedSet a.it))) ∧
    -- every key other than the iteration array is a list
    (∀ v, (alGet v (readAurel s a)).isSome = true → (v = "it" ∧ "it" ∉ a.vars) ∨
        ∃ c, alGet v (readAurel s a) = some (.col c)) ∧
    -- the keys
    (a.vars ≠ [] → ∀ v, (alGet v (readAurel s a)).isSome = true ↔ (v = "it" ∨ v ∈ a.vars ∨ v = "t")) ∧
    (a.vars = [] → ∀ v, (alGet v (readAurel s a)).isSome = true ↔
        (v = "it" ∨ v = "t" ∨ ∃ i ∈ sortedSet a.it, DiscAt s a.rl i v)) := by
  have cases_its : ∀ (var : List String) (data : RData) (m : String → Nat) (pre : List Int),
      InvC s a.rl m (sortedSet a.it) pre var data → ("it" ∈ var ↔ "it" ∈ a.vars) →
      ∀ v, (alGet v data).isSome = true → (v = "it" ∧ "it" ∉ a.vars) ∨ ∃ c, alGet v data = some (.col c) := by
    intro var data m pre inv hiff v hs
    cases hd : alGet v data with
    | none => rw [hd] at hs; cases hs
    | some X =>
      cases X with
      | col c => exact Or.inr ⟨c, rfl⟩
      | its l =>
        left
        rcases (inv.keys v).mp hs with e | e
        · subst e
          refine ⟨rfl, fun hin => inv.varCol "it" (hiff.mpr hin) l hd⟩
        · exact absurd hd (inv.varCol v e l)
  rw [readAurel_eq]
  have h0 : InvC s a.rl (fun _ => 1) (sortedSet a.it) [] (var1 a.vars)
      (initData (sortedSet a.it) (var1 a.vars)) :=
    invC_init s a.rl _ _ _ (by intro v hv; rw [(nodup_var1 a.vars).count]; simp [hv])
  by_cases hg : dedup a.vars = []
  · -- discovery
    have hvars : a.vars = [] := dedup_eq_nil.mp hg
    have hv1 : var1 a.vars = ["t"] := by simp [var1, hg]
    simp only [hg, decide_true]
    rw [hv1] at h0 ⊢
    have g0 : InvG s a.rl [] ["t"] :=
      ⟨by simp, fun v => by simp⟩
    have := readLoop_getAll s a.rl (sortedSet a.it) (sortedSet a.it) [] ⟨["t"], _⟩ h0 g0
    have inv : InvC s a.rl (fun _ => 1) (sortedSet a.it) (sortedSet a.it)
        (readLoop s a.rl true 0 (sortedSet a.it) ⟨["t"], initData (sortedSet a.it) ["t"]⟩).var
        (readLoop s a.rl true 0 (sortedSet a.it) ⟨["t"], initData (sortedSet a.it) ["t"]⟩).data := this.1
    have g : InvG s a.rl (sortedSet a.it)
        (readLoop s a.rl true 0 (sortedSet a.it) ⟨["t"], initData (sortedSet a.it) ["t"]⟩).var := this.2
    have hnotin : "it" ∉ (readLoop s a.rl true 0 (sortedSet a.it)
        { var := ["t"], data := initData (sortedSet a.it) ["t"] }).var := fun h => g.notIt h rfl
    refine ⟨?_, ?_, ?_, ?_, ?_⟩
    · intro v c hc
      rw [inv.cols v c hc, expCol_one]
    · intro _; exact inv.itKey hnotin
    · exact cases_its _ _ _ _ inv ⟨fun h => absurd h hnotin, fun h => by simp [hvars] at h⟩
    · intro h; exact absurd hvars h
    · intro _ v
      rw [inv.keys v, g.grow v]
      constructor
      · rintro (e | e | ⟨_, h⟩)
        · exact Or.inl e
        · exact Or.inr (Or.inl e)
        · exact Or.inr (Or.inr h)
      · rintro (e | e | h)
        · exact Or.inl e
        · exact Or.inr (Or.inl e)
        · by_cases e : v = "it"
          · exact Or.inl e
          · exact Or.inr (Or.inr ⟨e, h⟩)
  · -- explicit list
    have hvars : a.vars ≠ [] := fun e => hg (dedup_eq_nil.mpr e)
    simp only [hg, decide_false]
    have := readLoop_explicit s a.rl _ (sortedSet a.it) (sortedSet a.it) []
      ⟨var1 a.vars, initData (sortedSet a.it) (var1 a.vars)⟩ h0
    have inv : InvC s a.rl (fun _ => 1) (sortedSet a.it) (sortedSet a.it) (var1 a.vars)
        (readLoop s a.rl false 0 (sortedSet a.it)
          ⟨var1 a.vars, initData (sortedSet a.it) (var1 a.vars)⟩).data := this.2
    have hmem := mem_var1 a.vars
    have hit : "it" ∈ var1 a.vars ↔ "it" ∈ a.vars := by
      rw [hmem]; constructor
      · rintro (h | h)
        · exact h
        · exact absurd h (by decide)
      · exact Or.inl
    refine ⟨?_, ?_, ?_, ?_, ?_⟩
    · intro v c hc
      rw [inv.cols v c hc, expCol_one]
    · intro hn; exact inv.itKey (fun h => hn (hit.mp h))
    · exact cases_its _ _ _ _ inv hit
    · intro _ v; rw [inv.keys v, hmem]
    · intro h; exact absurd h hvars

/-! ### histories -/

theorem absStore_nil : absStore [] = Spec.empty := rfl

theorem save_refines_fun (s : Store) (a : SaveArgs) (h : saveErr a = none) :
    absStore (save s a).1 = specSave a (absStore s) := by
  funext i v r; exact save_refines s a h i v r

theorem runSaves_spec : ∀ (as : List SaveArgs) (s s' : Store), runSaves s as = some s' →
    absStore s' = as.foldl (fun σ a => specSave a σ) (absStore s)
  | [], s, s', h => by simp [runSaves] at h; subst h; rfl
  | a :: as, s, s', h => by
    have he := save_err s a
    unfold runSaves at h
    cases hs : save s a with
    | mk s1 e =>
      rw [hs] at h he
      cases e with
      | some e => simp at h
      | none =>
        simp only [] at h he
        rw [List.foldl_cons, runSaves_spec as s1 s' h]
        have := save_refines_fun s a he.symm
        rw [hs] at this
        rw [this]

theorem runSaves_isSome_iff : ∀ (as : List SaveArgs) (s : Store),
    (runSaves s as).isSome = true ↔ ∀ a ∈ as, Accepts a
  | [], s => by simp [runSaves]
  | a :: as, s => by
    have he := save_err s a
    unfold runSaves
    rw [List.forall_mem_cons, ← save_accepts_iff]
    cases hs : save s a with
    | mk s1 e =>
      rw [hs] at he
      simp only [] at he
      cases e with
      | some e => simp [← he]
      | none => simp [← he, runSaves_isSome_iff as s1]

/-! ### shape of the keys on disk -/

/-- every dataset key in the store is `name rl=<r>` with `N name`, `L r` -/
def KeysFrom (N : String → Prop) (L : Nat → Prop) (s : Store) : Prop :=
  ∀ q ∈ s, ∀ p ∈ q.2, ∃ v r, N v ∧ L r ∧ p.1 = skey v r

theorem saveLoop_keysFrom {N : String → Prop} {L : Nat → Prop} (data : Data) (vars : List String)
    (rl : Nat) (hN : ∀ v ∈ vars, N v) (hL : L rl) :
    ∀ (ps : List (Nat × Int)) (s : Store), KeysFrom N L s → KeysFrom N L (saveLoop data vars rl ps s).1
  | [], s, h => h
  | (k, iit) :: rest, s, h => by
    have hstep : KeysFrom N L (alSet iit (writeKeys data rl k vars ((alGet iit s).getD [])).1 s) := by
      intro q hq p hp
      rcases mem_alSet hq with e | e
      · subst e
        rcases writeKeys_keys data rl k vars _ p hp with hp | ⟨v, hv, e⟩
        · cases hf : alGet iit s with
          | none => rw [hf] at hp; simp at hp
          | some f => rw [hf] at hp; exact h _ (mem_of_alGet hf) p hp
        · exact ⟨v, rl, hN v hv, hL, e⟩
      · exact h q e p hp
    simp only [saveLoop]
    cases (writeKeys data rl k vars ((alGet iit s).getD [])).2 with
    | some e => exact hstep
    | none => exact saveLoop_keysFrom data vars rl hN hL rest _ hstep

theorem save_keysFrom {N : String → Prop} {L : Nat → Prop} (s : Store) (a : SaveArgs)
    (hN : ∀ v ∈ effVars a, N v) (hL : L a.rl) (h : KeysFrom N L s) : KeysFrom N L (save s a).1 := by
  unfold save
  cases itIndices a with
  | error e => exact h
  | ok idx => exact saveLoop_keysFrom _ _ _ hN hL _ s h

theorem runSaves_keysFrom {N : String → Prop} {L : Nat → Prop} : ∀ (as : List SaveArgs) (s s' : Store),
    (∀ a ∈ as, (∀ v ∈ effVars a, N v) ∧ L a.rl) → KeysFrom N L s → runSaves s as = some s' →
    KeysFrom N L s'
  | [], s, s', _, h, hr => by simp [runSaves] at hr; subst hr; exact h
  | a :: as, s, s', ha, h, hr => by
    unfold runSaves at hr
    have h1 := save_keysFrom s a (ha a List.mem_cons_self).1 (ha a List.mem_cons_self).2 h
    cases hs : save s a with
    | mk s1 e =>
      rw [hs] at hr h1
      cases e with
      | some e => simp at hr
      | none =>
        exact runSaves_keysFrom as s1 s' (fun b hb => ha b (List.mem_cons_of_mem _ hb)) h1 hr

theorem keysFrom_nil (N : String → Prop) (L : Nat → Prop) : KeysFrom N L [] := by
  intro q hq; simp at hq

/-- soundness of the substring test under the naming hypothesis -/
theorem abs_of_discAt {N : String → Prop} {L : Nat → Prop} {s : Store} {rl : Nat} {i : Int} {v : String}
    (hk : KeysFrom N L s) (hN : ∀ v, N v → NoRl v)
    (hL : ∀ r', L r' → r' ≠ rl → ¬ DecPrefix rl r') (h : DiscAt s rl i v) :
    absStore s i v rl ≠ none := by
  obtain ⟨f, hf, p, hp, hm, hn⟩ := h
  obtain ⟨v', r', hNv, hLr, hkey⟩ := hk _ (mem_of_alGet hf) p hp
  have hnorl := hN v' hNv
  rw [hkey] at hm hn
  rw [nameOf_skey hnorl] at hn
  subst hn
  have hr : r' = rl := by
    apply Classical.byContradiction; intro hne
    apply hL r' hLr hne
    unfold DecPrefix
    rw [toList_toString_nat, toList_toString_nat]
    unfold matchesRl at hm
    rw [skey_toList, rlTag_toList] at hm
    unfold NoRl at hnorl
    rw [rlSep_eq] at hnorl
    refine prefix_of_hasInfix_tag _ _ ?_ _ hnorl hm
    intro hsp
    have := digitsOf_isDigit hsp
    revert this; decide
  subst hr
  rw [absStore_of_file hf]
  have := alGet_isSome_of_mem hp
  rw [hkey] at this
  intro e; rw [e] at this; cases this

/-! ### the property theorems (stated in Props/C13.lean) -/

theorem sortedSet_eq_nil {l : List Int} : sortedSet l = [] ↔ l = [] := by
  constructor
  · intro h
    cases l with
    | nil => rfl
    | cons x l =>
      have : x ∈ sortedSet (x :: l) := mem_sortedSet.mpr List.mem_cons_self
      rw [h] at this; simp at this
  · intro h; subst h; rfl

theorem read_ok {s : Store} {q : ReadArgs} {res : RData} (h : read s q = .ok res) : res = readAurel s q := by
  unfold read at h
  split at h
  · cases h
  · cases h; rfl

theorem runSaves_lastSaved {as : List SaveArgs} {s : Store} (h : runSaves [] as = some s) :
    absStore s = lastSaved as := by
  rw [runSaves_spec as [] s h, absStore_nil]; rfl

theorem read_rejects_iff (s : Store) (q : ReadArgs) :
    (read s q = .error .valueError ↔ q.it = []) ∧ (∀ e, read s q = .error e → e = .valueError) := by
  unfold read
  by_cases h : sortedSet q.it = []
  · have h' := sortedSet_eq_nil.mp h
    rw [if_pos h]
    refine ⟨⟨fun _ => h', fun _ => rfl⟩, ?_⟩
    intro e he; cases he; rfl
  · have : q.it ≠ [] := fun e => h (sortedSet_eq_nil.mpr e)
    simp [h, this]

theorem read_after_saves (as : List SaveArgs) (s : Store) (h : runSaves [] as = some s)
    (q : ReadArgs) (hq : q.it ≠ []) :
    ∃ res, read s q = .ok res ∧
      (∀ v c, alGet v res = some (.col c) →
        c = (sortedSet q.it).map (fun i => lastSaved as i v q.rl) ∧
        c.length = (sortedSet q.it).length) ∧
      (∀ v, v ∈ q.vars ∨ v = "t" → ∃ c, alGet v res = some (.col c)) ∧
      ("it" ∉ q.vars → alGet "it" res = some (.its (sortedSet q.it))) := by
  have hne : sortedSet q.it ≠ [] := fun e => hq (sortedSet_eq_nil.mp e)
  obtain ⟨h1, h2, h3, h4, h5⟩ := readAurel_spec s q
  refine ⟨readAurel s q, by simp [read, hne], ?_, ?_, h2⟩
  · intro v c hc
    have : c = (sortedSet q.it).map (fun i => lastSaved as i v q.rl) := by
      rw [h1 v c hc, runSaves_lastSaved h]
    exact ⟨this, by rw [this, List.length_map]⟩
  · intro v hv
    have hs : (alGet v (readAurel s q)).isSome = true := by
      by_cases he : q.vars = []
      · rcases hv with hv | hv
        · rw [he] at hv; simp at hv
        · exact (h5 he v).mpr (Or.inr (Or.inl hv))
      · exact (h4 he v).mpr (Or.inr hv)
    rcases h3 v hs with ⟨e, hn⟩ | hc
    · subst e
      rcases hv with hv | hv
      · exact absurd hv hn
      · exact absurd hv (by decide)
    · exact hc

theorem discovery_columns_sound (s : Store) (it : List Int) (rl : Nat) (v : String) (c : List Entry)
    (hc : alGet v (readAurel s { vars := [], it := it, rl := rl }) = some (.col c)) :
    c = (sortedSet it).map (fun i => absStore s i v rl) :=
  (readAurel_spec s { vars := [], it := it, rl := rl }).1 v c hc

theorem discovery_complete (s : Store) (it : List Int) (rl : Nat) (v : String) (hn : NoRl v)
    (i : Int) (hi : i ∈ it) (hs : absStore s i v rl ≠ none) :
    (alGet v (readAurel s { vars := [], it := it, rl := rl })).isSome = true := by
  have h5 := (readAurel_spec s { vars := [], it := it, rl := rl }).2.2.2.2 rfl v
  exact h5.mpr (Or.inr (Or.inr ⟨i, mem_sortedSet.mpr hi, discAt_of_abs hn hs⟩))

theorem discovery_exact (as : List SaveArgs) (s : Store) (h : runSaves [] as = some s)
    (it : List Int) (r : Nat)
    (hnames : ∀ a ∈ as, ∀ v ∈ effVars a, NoRl v)
    (hlevels : ∀ a ∈ as, a.rl ≠ r → ¬ DecPrefix r a.rl) (v : String) :
    (alGet v (readAurel s { vars := [], it := it, rl := r })).isSome = true ↔
      (v = "it" ∨ v = "t" ∨ ∃ i ∈ it, lastSaved as i v r ≠ none) := by
  have hk : KeysFrom (fun v => ∃ a ∈ as, v ∈ effVars a) (fun r' => ∃ a ∈ as, a.rl = r') s :=
    runSaves_keysFrom as [] s (fun a ha => ⟨fun v hv => ⟨a, ha, hv⟩, ⟨a, ha, rfl⟩⟩) (keysFrom_nil _ _) h
  have hN : ∀ v, (∃ a ∈ as, v ∈ effVars a) → NoRl v := fun v ⟨a, ha, hv⟩ => hnames a ha v hv
  have hL : ∀ r', (∃ a ∈ as, a.rl = r') → r' ≠ r → ¬ DecPrefix r r' :=
    fun r' ⟨a, ha, e⟩ hne => e ▸ hlevels a ha (e ▸ hne)
  rw [(readAurel_spec s { vars := [], it := it, rl := r }).2.2.2.2 rfl v, ← runSaves_lastSaved h]
  constructor
  · rintro (e | e | ⟨i, hi, hd⟩)
    · exact Or.inl e
    · exact Or.inr (Or.inl e)
    · exact Or.inr (Or.inr ⟨i, mem_sortedSet.mp hi, abs_of_discAt hk hN hL hd⟩)
  · rintro (e | e | ⟨i, hi, hs⟩)
    · exact Or.inl e
    · exact Or.inr (Or.inl e)
    · refine Or.inr (Or.inr ⟨i, mem_sortedSet.mpr hi, discAt_of_abs ?_ hs⟩)
      -- the name is one of the saved names
      unfold absStore at hs
      cases hf : alGet i s with
      | none => rw [hf] at hs; exact absurd rfl hs
      | some f =>
        rw [hf] at hs
        cases hx : alGet (skey v r) f with
        | none => simp [hx] at hs
        | some x =>
          obtain ⟨v', r', hNv, _, hkey⟩ := hk _ (mem_of_alGet hf) _ (mem_of_alGet hx)
          rw [(skey_inj hkey).1]; exact hN v' hNv

theorem discovery_needs_prefix :
    ∃ (as : List SaveArgs) (s : Store), runSaves [] as = some s ∧
      (∀ a ∈ as, ∀ v ∈ effVars a, NoRl v) ∧
      (alGet "x" (readAurel s { vars := [], it := [3], rl := 1 })).isSome = true ∧
      ∀ i, lastSaved as i "x" 1 = none := by
  refine ⟨[{ data := [("x", some [some 7])], it := [3], rl := 10 }], [(3, [("x rl=10", 7)])],
    by decide, by decide, by decide, ?_⟩
  intro i
  have hn : ¬ Names { data := [("x", some [some 7])], it := [3], rl := 10 } i "x" 1 :=
    fun h => absurd h.1 (by decide)
  simp [lastSaved, specSave, entryFor, hn, Spec.empty]

theorem discovery_needs_name :
    ∃ (as : List SaveArgs) (s : Store), runSaves [] as = some s ∧
      (∀ a ∈ as, a.rl ≠ 0 → ¬ DecPrefix 0 a.rl) ∧
      lastSaved as 4 "q rl=1" 0 = some 9 ∧
      (alGet "q rl=1" (readAurel s { vars := [], it := [4], rl := 0 })).isSome = false ∧
      (alGet "q" (readAurel s { vars := [], it := [4], rl := 0 })).isSome = true ∧
      alGet "q rl=1" (readAurel s { vars := ["q rl=1"], it := [4], rl := 0 }) = some (.col [some 9]) :=
  ⟨[{ data := [("q rl=1", some [some 9])], it := [4], rl := 0 }], [(4, [("q rl=1 rl=0", 9)])],
    by decide, by decide, by decide, by decide, by decide, by decide⟩

end AurelVerif.Store
