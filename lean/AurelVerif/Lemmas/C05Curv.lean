/-
Lemmas/C05Curv.lean — proofs for property C05, part 3: spatial Riemann / Ricci
tensors and Ricci scalar (T6), the BSSNOK split (T7).
Layer A: exact, every field `K`, every operator `e.D` (no linearity used).
-/
import AurelVerif.Lemmas.C05Covd

set_option linter.unusedSimpArgs false
set_option linter.unusedVariables false
set_option linter.unusedSectionVars false

namespace AurelVerif.C05L
open AurelVerif.Gen.Core AurelVerif.Tensor AurelVerif.CoreTac AurelVerif.C08 AurelVerif.Spec.Covd

variable {K : Type} [Field K]

/-! ### T6 Riemann, Ricci, Ricci scalar -/

/-- `s_Riemann_uddd3` in the index order the code uses, no hypothesis on Γ:
`∂_cΓ^a_{bd} − ∂_dΓ^a_{bc} + Γ^a_{pc}Γ^p_{bd} − Γ^a_{pd}Γ^p_{bc}`. -/
theorem s_Riemann_uddd3_exact (e : Env K) (a b c d : Fin 3) :
    s_Riemann_uddd3 e a b c d = e.D c (e.s_Gamma_udd3 a b d) - e.D d (e.s_Gamma_udd3 a b c)
      + ∑ p, e.s_Gamma_udd3 a p c * e.s_Gamma_udd3 p b d
      - ∑ p, e.s_Gamma_udd3 a p d * e.s_Gamma_udd3 p b c := by
  revert a b c d
  cases3 <;> cases3 <;> cases3 <;> cases3 <;> (simp only [core_unfold, Fin.sum_univ_three]; try ring)

/-- **T6** `s_Riemann_uddd3` is the textbook Riemann tensor of the connection (Carroll (3.113)) when
the cached connection is symmetric in its lower indices (it is: `s_Gamma_udd3_symm`). -/
theorem s_Riemann_uddd3_spec (e : Env K) (hG : SymLow e.s_Gamma_udd3) (a b c d : Fin 3) :
    s_Riemann_uddd3 e a b c d = riemann e.D e.s_Gamma_udd3 a b c d := by
  have g1 := fun a => hG a 1 0; have g2 := fun a => hG a 2 0; have g3 := fun a => hG a 2 1
  revert a b c d
  cases3 <;> cases3 <;> cases3 <;> cases3 <;>
    (simp only [core_unfold, riemann, Fin.sum_univ_three, g1, g2, g3]; try ring)

/-- antisymmetry in the last index pair — exact, for every operator `D` and every Γ. -/
theorem s_Riemann_uddd3_antisymm (e : Env K) (a b c d : Fin 3) :
    s_Riemann_uddd3 e a b c d = -s_Riemann_uddd3 e a b d c := by
  simp only [s_Riemann_uddd3_exact]; ring

/-- `R_{ibcd} = γ_{ai} R^a_{bcd}`. -/
theorem s_Riemann_down3_spec (e : Env K) (i b c d : Fin 3) :
    s_Riemann_down3 e i b c d = ∑ a, e.gammadown3 a i * e.s_Riemann_uddd3 a b c d := by
  revert i b c d
  cases3 <;> cases3 <;> cases3 <;> cases3 <;> (simp only [core_unfold, Fin.sum_univ_three]; try ring)

/-- default alternative of `s_Ricci_down3`, in terms of the cached connection, is the contraction
`R^a_{bad}` of the code's own Riemann formula. -/
theorem s_Ricci_down3_dflt_spec (e : Env K) (b d : Fin 3) :
    s_Ricci_down3__dflt e b d = ricci (s_Riemann_uddd3 e) b d := by
  revert b d
  cases3 <;> cases3 <;> (simp only [core_unfold, ricci, Fin.sum_univ_three]; try ring)

/-- the alternative used when `s_Riemann_down3` is cached: `γ^{ac} R_{abcd}`. -/
theorem s_Ricci_down3_alt_raw (e : Env K) (b d : Fin 3) :
    s_Ricci_down3__s_Riemann_down3 e b d = ∑ a, ∑ c, e.s_Riemann_down3 a b c d * e.gammaup3 a c := by
  revert b d
  cases3 <;> cases3 <;> (simp only [core_unfold, Fin.sum_univ_three]; try ring)

/-- contraction with `γ^{ic} γ_{ai} = δ^c_a` collapses to the trace. -/
theorem contract_delta (gu gd : Fin 3 → Fin 3 → K)
    (h : ∀ a c, ∑ i, gu i c * gd a i = delta a c) (R : Fin 3 → Fin 3 → K) :
    ∑ i, ∑ c, (∑ a, gd a i * R a c) * gu i c = ∑ a, R a a := by
  have h00 := h 0 0; have h01 := h 0 1; have h02 := h 0 2
  have h10 := h 1 0; have h11 := h 1 1; have h12 := h 1 2
  have h20 := h 2 0; have h21 := h 2 1; have h22 := h 2 2
  simp only [delta, Fin.sum_univ_three] at *
  simp at h00 h01 h02 h10 h11 h12 h20 h21 h22
  linear_combination R 0 0 * h00 + R 0 1 * h01 + R 0 2 * h02 + R 1 0 * h10 + R 1 1 * h11 + R 1 2 * h12
    + R 2 0 * h20 + R 2 1 * h21 + R 2 2 * h22

/-- **both alternatives agree**: with `s_Riemann_down3` produced by the code's formula and
`γ^{ic} γ_{ai} = δ^c_a`, the second alternative is the same contraction `R^a_{bad}`. -/
theorem s_Ricci_down3_alt_spec (e : Env K) (hR : e.s_Riemann_down3 = s_Riemann_down3 e)
    (hinv : ∀ a c, ∑ i, e.gammaup3 i c * e.gammadown3 a i = delta a c) (b d : Fin 3) :
    s_Ricci_down3__s_Riemann_down3 e b d = ricci e.s_Riemann_uddd3 b d := by
  rw [s_Ricci_down3_alt_raw, hR]
  simp only [s_Riemann_down3_spec, ricci]
  exact contract_delta e.gammaup3 e.gammadown3 hinv (fun a c => e.s_Riemann_uddd3 a b c d)

/-- `s_RicciS = γ^{ij} R_ij`. -/
theorem s_RicciS_spec (e : Env K) : s_RicciS e = ricciS e.gammaup3 e.s_Ricci_down3 := by
  simp only [core_unfold, ricciS, Fin.sum_univ_three]; try ring

/-! ### T7 BSSNOK split -/

/-- **Alcubierre (2.8.14)**: `Γ̃^k_{ij} = Γ^k_{ij} − 2(δ^k_i ∂_jφ + δ^k_j ∂_iφ − γ_ij γ^{kl} ∂_lφ)`. -/
theorem s_Gamma_udd3_bssnok_spec (e : Env K) (k i j : Fin 3) :
    s_Gamma_udd3_bssnok e k i j
      = gammaBssnok e.D e.s_Gamma_udd3 e.gammadown3 e.gammaup3 e.phi_bssnok k i j := by
  revert k i j
  cases3 <;> cases3 <;> cases3 <;>
    (simp only [core_unfold, gammaBssnok, Fin.sum_univ_three, Fin.isValue, Fin.reduceEq, if_true, if_false,
       ↓reduceIte]; try ring)

/-- **Alcubierre §2.8, conformal connection functions**: `Γ̃^i = −∂_j γ̃^{ij}`. -/
theorem s_Gamma_bssnok_spec (e : Env K) (i : Fin 3) :
    s_Gamma_bssnok e i = gammaVec e.D e.gammaup3_bssnok i := by
  revert i; cases3 <;> (simp only [core_unfold, gammaVec, Fin.sum_univ_three])

set_option maxRecDepth 100000 in
set_option maxHeartbeats 1000000 in
/-- **Alcubierre (2.8.17)** `R̃_ij`, term by term, for every input; the code lowers the conformal
connection as `Γ̃_{ijk} = γ̃_{li} Γ̃^l_{jk}`. -/
theorem s_Ricci_down3_bssnok_exact (e : Env K) (i j : Fin 3) :
    s_Ricci_down3_bssnok e i j
      = ricciConformal e.D e.gammadown3_bssnok e.gammaup3_bssnok e.s_Gamma_bssnok e.s_Gamma_udd3_bssnok
          (fun i j k => ∑ l, e.gammadown3_bssnok l i * e.s_Gamma_udd3_bssnok l j k) i j := by
  revert i j
  cases3 <;> cases3 <;>
    (simp only [core_unfold, ricciConformal, Fin.sum_univ_three]; ring)

/-- the same with the textbook lowering `Γ̃_{ijk} = γ̃_{il} Γ̃^l_{jk}` for a symmetric conformal metric. -/
theorem s_Ricci_down3_bssnok_spec (e : Env K) (hs : Sym e.gammadown3_bssnok) (i j : Fin 3) :
    s_Ricci_down3_bssnok e i j
      = ricciConformal e.D e.gammadown3_bssnok e.gammaup3_bssnok e.s_Gamma_bssnok e.s_Gamma_udd3_bssnok
          (lowerG e.gammadown3_bssnok e.s_Gamma_udd3_bssnok) i j := by
  rw [s_Ricci_down3_bssnok_exact]
  have : (fun i j k => ∑ l, e.gammadown3_bssnok l i * e.s_Gamma_udd3_bssnok l j k)
      = lowerG e.gammadown3_bssnok e.s_Gamma_udd3_bssnok := by
    funext i j k
    simp only [lowerG]
    exact Finset.sum_congr rfl (fun l _ => by rw [hs l i])
  rw [this]

/-- **Alcubierre (2.8.18)** `R^φ_ij`, term by term. -/
theorem s_Ricci_down3_phi_spec (e : Env K) (i j : Fin 3) :
    s_Ricci_down3_phi e i j
      = ricciPhi e.D e.gammadown3_bssnok e.gammaup3_bssnok e.s_Gamma_udd3_bssnok e.phi_bssnok i j := by
  revert i j
  cases3 <;> cases3 <;> (simp only [core_unfold, ricciPhi, ddphi, Fin.sum_univ_three]; try ring)

theorem s_RicciS_bssnok_spec (e : Env K) :
    s_RicciS_bssnok e = ricciS e.gammaup3_bssnok e.s_Ricci_down3_bssnok := by
  simp only [core_unfold, ricciS, Fin.sum_univ_three]; try ring

end AurelVerif.C05L
