/-
Lemmas/C15FillHoare.lean — a small Hoare logic for the fill-loop interpreter of
Model/SymFill.lean, valid for EVERY dimension `n`.

Lemmas/SymFill.lean lifts a kernel-evaluated check (`checkProg n p gens`) to all
oracles, which needs a concrete `n` (2, 3, 4).  Here the loop nests are
verified by induction instead:

  * `J s`       the state invariant: array/done lengths, "every valid position
                holds the correct value `T q` or is still zero", "every position
                marked done holds the correct value";
  * `Triple d Φ st`  for every state satisfying `J` whose first `d` loop
                variables are in range and satisfy `Φ`: after `st`, `J` holds
                again, the first `d` loop variables are unchanged, no correct
                position became incorrect (`Mono`) and EVERY valid position
                whose first `d` indices are the current loop variables is
                correct;
  * `triple_loop` (induction over `range n`), `triple_ifEq`, the leaf rules
    `triple_mark_zero`, `triple_ifNotDone`, and the straight-line rules
    (`compute_rule`, `store_rule`, `copy_rule`, `load_rule`, `mark_rule`) for
    the loop bodies, tracking the set `K` of positions known to be correct;
  * `fill_of_triple`: a `Triple 0` for the body of a program gives
    `fillAt n ops T p q = T q` at every valid index tuple.

Lemmas/C15FillAll.lean applies these rules to the regenerated loop structures
of Gen/SymLoops.lean.
-/
import Mathlib.Data.List.GetD
import Mathlib.Tactic.Ring
import AurelVerif.Lemmas.SymFill

namespace AurelVerif.SymFillAll
open AurelVerif.SymFill AurelVerif.SymFillLemmas

/-! ### lists -/

theorem getD_set_eq {α : Type} (l : List α) (i : Nat) (a d : α) (h : i < l.length) :
    (l.set i a).getD i d = a := by
  simp [List.getD_eq_getElem?_getD, h]

theorem getD_set_ne {α : Type} (l : List α) (i j : Nat) (a d : α) (h : i ≠ j) :
    (l.set i a).getD j d = l.getD j d := by
  simp [List.getD_eq_getElem?_getD, h]

theorem getD_replicate {α : Type} (m i : Nat) (a : α) : (List.replicate m a).getD i a = a := by
  by_cases h : i < m
  · simp [List.getD_eq_getElem?_getD, h]
  · simp [List.getD_eq_getElem?_getD, h]

theorem getD_take {α : Type} (l : List α) (a d : Nat) (x : α) (h : a < d) :
    (l.take d).getD a x = l.getD a x := by
  simp [List.getD_eq_getElem?_getD, h]

theorem take_succ_set {α : Type} : ∀ (l : List α) (d : Nat) (x : α), d < l.length →
    (l.set d x).take (d + 1) = l.take d ++ [x]
  | [], d, x, h => by simp at h
  | a :: l, 0, x, _ => by simp
  | a :: l, d + 1, x, h => by
    have := take_succ_set l d x (by simpa using h)
    simp [List.set, List.take, this]

theorem take_succ_getD (q : List Nat) (d : Nat) (h : d < q.length) :
    q.take (d + 1) = q.take d ++ [q.getD d 0] := by
  rw [List.take_succ_eq_append_getElem h, List.getD_eq_getElem _ _ h]

theorem foldl_range_inv {σ : Type} (f : σ → Nat → σ) (I : Nat → σ → Prop) (n : Nat) (s : σ)
    (h0 : I 0 s) (hs : ∀ x, x < n → ∀ s, I x s → I (x + 1) (f s x)) :
    I n ((List.range n).foldl f s) := by
  have : ∀ m, m ≤ n → I m ((List.range m).foldl f s) := by
    intro m
    induction m with
    | zero => intro _; simpa using h0
    | succ m ih =>
      intro hm
      rw [List.range_succ, List.foldl_append]
      exact hs m (by omega) _ (ih (by omega))
  exact this n (Nat.le_refl n)

/-! ### `flat` is the mixed-radix number of an index tuple -/

theorem foldl_flat (n : Nat) : ∀ (q : List Nat) (a : Nat),
    q.foldl (fun a x => a * n + x) a = a * n ^ q.length + q.foldl (fun a x => a * n + x) 0
  | [], a => by simp
  | x :: t, a => by
    simp only [List.foldl_cons, List.length_cons]
    rw [foldl_flat n t (a * n + x), foldl_flat n t (0 * n + x)]
    ring

theorem flat_cons (n x : Nat) (t : List Nat) : flat n (x :: t) = x * n ^ t.length + flat n t := by
  unfold flat
  simp only [List.foldl_cons]
  rw [foldl_flat n t (0 * n + x)]
  ring

theorem flat_lt (n : Nat) : ∀ q : List Nat, (∀ x ∈ q, x < n) → flat n q < n ^ q.length
  | [], _ => by simp [flat]
  | x :: t, h => by
    rw [flat_cons]
    have h1 := flat_lt n t (fun y hy => h y (by simp [hy]))
    have hx : x < n := h x (by simp)
    have : (x + 1) * n ^ t.length ≤ n * n ^ t.length := Nat.mul_le_mul_right _ hx
    simp only [List.length_cons, pow_succ]
    calc x * n ^ t.length + flat n t < x * n ^ t.length + n ^ t.length := by omega
      _ = (x + 1) * n ^ t.length := by ring
      _ ≤ n * n ^ t.length := this
      _ = n ^ t.length * n := by ring

theorem mul_add_inj {N x y x' y' : Nat} (hy : y < N) (hy' : y' < N) (h : x * N + y = x' * N + y') :
    x = x' ∧ y = y' := by
  have hN : 0 < N := by omega
  have e1 : (x * N + y) / N = x := by
    rw [Nat.add_comm, Nat.add_mul_div_right _ _ hN, Nat.div_eq_of_lt hy, Nat.zero_add]
  have e2 : (x' * N + y') / N = x' := by
    rw [Nat.add_comm, Nat.add_mul_div_right _ _ hN, Nat.div_eq_of_lt hy', Nat.zero_add]
  have hx : x = x' := by rw [← e1, ← e2, h]
  subst hx
  exact ⟨rfl, by omega⟩

theorem flat_inj (n : Nat) : ∀ q q' : List Nat, q.length = q'.length → (∀ x ∈ q, x < n) →
    (∀ x ∈ q', x < n) → flat n q = flat n q' → q = q'
  | [], [], _, _, _, _ => rfl
  | [], _ :: _, h, _, _, _ => by simp at h
  | _ :: _, [], h, _, _, _ => by simp at h
  | x :: t, x' :: t', hl, h, h', he => by
    rw [flat_cons, flat_cons] at he
    have hl' : t.length = t'.length := by simpa using hl
    have ht := flat_lt n t (fun y hy => h y (by simp [hy]))
    have ht' := flat_lt n t' (fun y hy => h' y (by simp [hy]))
    rw [← hl'] at he ht'
    obtain ⟨e1, e2⟩ := mul_add_inj ht ht' he
    have := flat_inj n t t' hl' (fun y hy => h y (by simp [hy])) (fun y hy => h' y (by simp [hy])) e2
    rw [e1, this]

theorem valid_flat_lt {n r : Nat} {q : List Nat} (h : Valid n r q) : flat n q < n ^ r := by
  have := flat_lt n q h.2
  rwa [h.1] at this

theorem valid_flat_inj {n r : Nat} {q q' : List Nat} (h : Valid n r q) (h' : Valid n r q')
    (he : flat n q = flat n q') : q = q' :=
  flat_inj n q q' (by rw [h.1, h'.1]) h.2 h'.2 he

/-! ### `done[ix] = 1` -/

theorem expandIx_map_some (n : Nat) (env : List Nat) : ∀ ix : List Nat,
    expandIx n env (ix.map some) = [evalIx env ix]
  | [] => rfl
  | v :: rest => by
    simp only [List.map_cons, expandIx, expandIx_map_some n env rest, evalIx]
    rfl

theorem markFold_length (n : Nat) : ∀ (L : List (List Nat)) (d : List Bool),
    (L.foldl (fun d t => d.set (flat n t) true) d).length = d.length
  | [], d => rfl
  | t :: L, d => by simp only [List.foldl_cons]; rw [markFold_length n L]; simp

theorem markFold_getD (n : Nat) (p : Nat) : ∀ (L : List (List Nat)) (d : List Bool),
    (L.foldl (fun d t => d.set (flat n t) true) d).getD p false = true →
      d.getD p false = true ∨ ∃ t ∈ L, flat n t = p
  | [], d, h => Or.inl h
  | t :: L, d, h => by
    simp only [List.foldl_cons] at h
    rcases markFold_getD n p L _ h with h1 | ⟨u, hu, hp⟩
    · by_cases e : flat n t = p
      · exact Or.inr ⟨t, by simp, e⟩
      · rw [getD_set_ne _ _ _ _ _ e] at h1; exact Or.inl h1
    · exact Or.inr ⟨u, by simp [hu], hp⟩

/-! ### the state invariant -/
section hoare
variable {V : Type} (n r nv : Nat) (ops : Ops V) (T : List Nat → V)

/-- position `q` of the array holds the value the formula line computes there -/
def C (s : St V) (q : List Nat) : Prop := s.arr.getD (flat n q) ops.zero = T q

structure J (s : St V) : Prop where
  alen : s.arr.length = n ^ r
  dlen : s.done.length = n ^ r
  elen : s.env.length = nv
  i1 : ∀ q, Valid n r q → C n ops T s q ∨ s.arr.getD (flat n q) ops.zero = ops.zero
  i2 : ∀ q, Valid n r q → s.done.getD (flat n q) false = true → C n ops T s q

/-- no valid position that was correct became incorrect -/
def Mono (s s' : St V) : Prop := ∀ q, Valid n r q → C n ops T s q → C n ops T s' q

/-- see the file header -/
def Triple (d : Nat) (Φ : List Nat → Prop) (st : Stmt) : Prop :=
  ∀ s : St V, J n r nv ops T s → (∀ x ∈ s.env.take d, x < n) → Φ (s.env.take d) →
    J n r nv ops T (exec n ops T st s) ∧ (exec n ops T st s).env.take d = s.env.take d ∧
    Mono n r ops T s (exec n ops T st s) ∧
    ∀ q, Valid n r q → q.take d = s.env.take d → C n ops T (exec n ops T st s) q

variable {n r nv ops T}

theorem Mono.refl (s : St V) : Mono n r ops T s s := fun _ _ h => h

theorem Mono.trans {s s' s'' : St V} (h : Mono n r ops T s s') (h' : Mono n r ops T s' s'') :
    Mono n r ops T s s'' := fun q hq hc => h' q hq (h q hq hc)

/-! ### structural rules -/

theorem triple_loop (d : Nat) (hd : d < nv) (hdr : d < r) (Φ : List Nat → Prop) (body : Stmt)
    (h : Triple n r nv ops T (d + 1) (fun pre => Φ (pre.take d)) body) :
    Triple n r nv ops T d Φ (.loop d body) := by
  intro s hJ hlt hΦ
  have hlen : ∀ s' : St V, J n r nv ops T s' → (s'.env.take d).length = d := by
    intro s' hJ'; rw [List.length_take, hJ'.elen]; omega
  have key := foldl_range_inv
    (f := fun (s : St V) x => exec n ops T body { s with env := s.env.set d x })
    (I := fun x s' => J n r nv ops T s' ∧ s'.env.take d = s.env.take d ∧ Mono n r ops T s s' ∧
      ∀ q, Valid n r q → q.take d = s.env.take d → q.getD d 0 < x → C n ops T s' q)
    n s ⟨hJ, rfl, Mono.refl s, fun _ _ _ hx => absurd hx (Nat.not_lt_zero _)⟩
    (by
      intro x hx s' ⟨hJ', he', hm', hc'⟩
      have hJ'' : J n r nv ops T { s' with env := s'.env.set d x } :=
        ⟨hJ'.alen, hJ'.dlen, by simp [hJ'.elen], hJ'.i1, hJ'.i2⟩
      have hdl : d < s'.env.length := by rw [hJ'.elen]; exact hd
      have htk : ({ s' with env := s'.env.set d x } : St V).env.take (d + 1) = s.env.take d ++ [x] := by
        show (s'.env.set d x).take (d + 1) = _
        rw [take_succ_set _ _ _ hdl, he']
      have hl0 : (s.env.take d).length = d := hlen s hJ
      obtain ⟨r1, r2, r3, r4⟩ := h _ hJ''
        (by
          rw [htk]; intro y hy
          rcases List.mem_append.mp hy with hy | hy
          · exact hlt y hy
          · simp only [List.mem_singleton] at hy; rw [hy]; exact hx)
        (by
          show Φ ((({ s' with env := s'.env.set d x } : St V).env.take (d + 1)).take d)
          rw [htk, List.take_left' hl0]; exact hΦ)
      refine ⟨r1, ?_, ?_, ?_⟩
      · have : (exec n ops T body { s' with env := s'.env.set d x }).env.take d
            = ((exec n ops T body { s' with env := s'.env.set d x }).env.take (d + 1)).take d := by
          rw [List.take_take]; congr 1; omega
        rw [this, r2, htk, List.take_left' hl0]
      · exact Mono.trans hm' r3
      · intro q hq hqd hqx
        rcases Nat.lt_succ_iff_lt_or_eq.mp hqx with hlt' | heq
        · exact r3 q hq (hc' q hq hqd hlt')
        · apply r4 q hq
          rw [htk, take_succ_getD q d (by rw [hq.1]; exact hdr), hqd, heq])
  obtain ⟨k1, k2, k3, k4⟩ := key
  refine ⟨k1, k2, k3, ?_⟩
  intro q hq hqd
  apply k4 q hq hqd
  have hdq : d < q.length := by rw [hq.1]; exact hdr
  rw [List.getD_eq_getElem _ _ hdq]
  exact hq.2 _ (List.getElem_mem hdq)

theorem triple_ifEq (d a b : Nat) (ha : a < d) (hb : b < d) (Φ : List Nat → Prop) (thn els : Stmt)
    (h1 : Triple n r nv ops T d (fun pre => Φ pre ∧ pre.getD a 0 = pre.getD b 0) thn)
    (h2 : Triple n r nv ops T d (fun pre => Φ pre ∧ pre.getD a 0 ≠ pre.getD b 0) els) :
    Triple n r nv ops T d Φ (.ifEq a b thn els) := by
  intro s hJ hlt hΦ
  have e : exec n ops T (.ifEq a b thn els) s
      = if s.env.getD a 0 = s.env.getD b 0 then exec n ops T thn s else exec n ops T els s := rfl
  by_cases he : s.env.getD a 0 = s.env.getD b 0
  · rw [e, if_pos he]
    exact h1 s hJ hlt ⟨hΦ, by rw [getD_take _ _ _ _ ha, getD_take _ _ _ _ hb]; exact he⟩
  · rw [e, if_neg he]
    exact h2 s hJ hlt ⟨hΦ, by rw [getD_take _ _ _ _ ha, getD_take _ _ _ _ hb]; exact he⟩

/-- strengthening the precondition on the loop variables -/
theorem Triple.weaken {d : Nat} {Φ Ψ : List Nat → Prop} {st : Stmt} (h : Triple n r nv ops T d Ψ st)
    (hw : ∀ pre, Φ pre → Ψ pre) : Triple n r nv ops T d Φ st :=
  fun s hJ hlt hΦ => h s hJ hlt (hw _ hΦ)

/-! ### `done[...] = 1` -/

theorem mark_J (ix : List (Option Nat)) (s : St V) (hJ : J n r nv ops T s)
    (h : ∀ t ∈ expandIx n s.env ix, Valid n r t ∧ C n ops T s t) :
    J n r nv ops T (exec n ops T (.mark ix) s) := by
  refine ⟨hJ.alen, ?_, hJ.elen, hJ.i1, ?_⟩
  · exact (markFold_length n _ _).trans hJ.dlen
  · intro q hq hd
    rcases markFold_getD n _ _ _ hd with h1 | ⟨t, ht, he⟩
    · exact hJ.i2 q hq h1
    · obtain ⟨hv, hc⟩ := h t ht
      have := valid_flat_inj hv hq he
      subst this
      exact hc

/-- `if <condition under which the component vanishes>: done[ix] = 1; pass` -/
theorem triple_mark_zero (d : Nat) (Φ : List Nat → Prop) (ix : List (Option Nat))
    (hexp : ∀ s : St V, J n r nv ops T s → (∀ x ∈ s.env.take d, x < n) →
      ∀ t ∈ expandIx n s.env ix, Valid n r t ∧ t.take d = s.env.take d)
    (hz : ∀ pre q, Φ pre → Valid n r q → q.take d = pre → T q = ops.zero) :
    Triple n r nv ops T d Φ (.seq (.mark ix) .skip) := by
  intro s hJ hlt hΦ
  have hC : ∀ q, Valid n r q → q.take d = s.env.take d → C n ops T s q := by
    intro q hq hqd
    rcases hJ.i1 q hq with h | h
    · exact h
    · unfold C; rw [h, hz _ q hΦ hq hqd]
  refine ⟨mark_J ix s hJ (fun t ht => ⟨(hexp s hJ hlt t ht).1, hC t (hexp s hJ hlt t ht).1 (hexp s hJ hlt t ht).2⟩),
    rfl, fun _ _ h => h, fun q hq hqd => hC q hq hqd⟩

/-! ### straight-line loop bodies -/

/-- assertion inside a loop body entered in state `s0` (whose environment is the
current index tuple): invariant, environment unchanged, nothing spoiled, `val`
holds the formula-line value at the current tuple, and the positions in `K` are
known to be correct -/
structure A (s0 : St V) (K : List (List Nat)) (s : St V) : Prop where
  j : J n r nv ops T s
  env : s.env = s0.env
  mono : Mono n r ops T s0 s
  val : s.val = T s0.env
  known : ∀ q ∈ K, Valid n r q ∧ C n ops T s q

theorem compute_rule (s0 : St V) (ix : Ix) (s : St V) (hJ : J n r nv ops T s) (he : s.env = s0.env)
    (hm : Mono n r ops T s0 s) (hix : evalIx s0.env ix = s0.env) :
    A (n := n) (r := r) (nv := nv) (ops := ops) (T := T) s0 [] (exec n ops T (.compute ix) s) :=
  ⟨⟨hJ.alen, hJ.dlen, hJ.elen, hJ.i1, hJ.i2⟩, he, hm, by show T (evalIx s.env ix) = _; rw [he, hix],
    fun _ h => absurd h (List.not_mem_nil)⟩

/-- writing the correct value `w = T tgt` at a valid position `tgt` -/
theorem write_correct (s : St V) (hJ : J n r nv ops T s) (tgt : List Nat) (hv : Valid n r tgt) (w : V)
    (hw : w = T tgt) :
    J n r nv ops T { s with arr := s.arr.set (flat n tgt) w } ∧
    Mono n r ops T s { s with arr := s.arr.set (flat n tgt) w } ∧
    C n ops T { s with arr := s.arr.set (flat n tgt) w } tgt := by
  have hlt : flat n tgt < s.arr.length := by rw [hJ.alen]; exact valid_flat_lt hv
  have hC : C n ops T { s with arr := s.arr.set (flat n tgt) w } tgt := by
    show (s.arr.set (flat n tgt) w).getD (flat n tgt) ops.zero = T tgt
    rw [getD_set_eq _ _ _ _ hlt, hw]
  have hcase : ∀ q, Valid n r q → q = tgt ∨
      (s.arr.set (flat n tgt) w).getD (flat n q) ops.zero = s.arr.getD (flat n q) ops.zero := by
    intro q hq
    by_cases e : flat n tgt = flat n q
    · exact Or.inl (valid_flat_inj hq hv e.symm)
    · exact Or.inr (getD_set_ne _ _ _ _ _ e)
  refine ⟨⟨by simp [hJ.alen], hJ.dlen, hJ.elen, ?_, ?_⟩, ?_, hC⟩
  · intro q hq
    rcases hcase q hq with rfl | e
    · exact Or.inl hC
    · rcases hJ.i1 q hq with h | h
      · left; show (s.arr.set (flat n tgt) w).getD (flat n q) ops.zero = T q; rw [e]; exact h
      · right; show (s.arr.set (flat n tgt) w).getD (flat n q) ops.zero = ops.zero; rw [e]; exact h
  · intro q hq hd
    rcases hcase q hq with rfl | e
    · exact hC
    · show (s.arr.set (flat n tgt) w).getD (flat n q) ops.zero = T q; rw [e]; exact hJ.i2 q hq hd
  · intro q hq hc
    rcases hcase q hq with rfl | e
    · exact hC
    · show (s.arr.set (flat n tgt) w).getD (flat n q) ops.zero = T q; rw [e]; exact hc

theorem store_rule {s0 : St V} {K : List (List Nat)} {s : St V}
    (h : A (n := n) (r := r) (nv := nv) (ops := ops) (T := T) s0 K s) (ix : Ix) (neg : Bool)
    (hv : Valid n r (evalIx s0.env ix))
    (hsym : (if neg then ops.neg (T s0.env) else T s0.env) = T (evalIx s0.env ix)) :
    A (n := n) (r := r) (nv := nv) (ops := ops) (T := T) s0 (evalIx s0.env ix :: K)
      (exec n ops T (.store ix neg) s) := by
  have e : exec n ops T (.store ix neg) s
      = { s with arr := s.arr.set (flat n (evalIx s0.env ix)) (if neg then ops.neg s.val else s.val) } := by
    show ({ s with arr := s.arr.set (flat n (evalIx s.env ix)) _ } : St V) = _
    rw [h.env]
  rw [e]
  obtain ⟨w1, w2, w3⟩ := write_correct s h.j _ hv (if neg then ops.neg s.val else s.val)
    (by rw [h.val]; exact hsym)
  refine ⟨w1, h.env, Mono.trans h.mono w2, h.val, ?_⟩
  intro q hq
  rcases List.mem_cons.mp hq with rfl | hq
  · exact ⟨hv, w3⟩
  · exact ⟨(h.known q hq).1, w2 q (h.known q hq).1 (h.known q hq).2⟩

theorem copy_rule {s0 : St V} {K : List (List Nat)} {s : St V}
    (h : A (n := n) (r := r) (nv := nv) (ops := ops) (T := T) s0 K s) (dst src : Ix)
    (hsrc : evalIx s0.env src ∈ K) (hv : Valid n r (evalIx s0.env dst))
    (hsym : T (evalIx s0.env dst) = T (evalIx s0.env src)) :
    A (n := n) (r := r) (nv := nv) (ops := ops) (T := T) s0 (evalIx s0.env dst :: K)
      (exec n ops T (.copy dst src) s) := by
  have e : exec n ops T (.copy dst src) s
      = { s with arr := (s.arr.set (flat n (evalIx s0.env dst))
            (s.arr.getD (flat n (evalIx s0.env src)) ops.zero)) } := by
    show ({ s with arr := s.arr.set (flat n (evalIx s.env dst)) _ } : St V) = _
    rw [h.env]
  rw [e]
  obtain ⟨w1, w2, w3⟩ := write_correct s h.j _ hv (s.arr.getD (flat n (evalIx s0.env src)) ops.zero)
    (by rw [hsym]; exact (h.known _ hsrc).2)
  refine ⟨w1, h.env, Mono.trans h.mono w2, h.val, ?_⟩
  intro q hq
  rcases List.mem_cons.mp hq with rfl | hq
  · exact ⟨hv, w3⟩
  · exact ⟨(h.known q hq).1, w2 q (h.known q hq).1 (h.known q hq).2⟩

theorem load_rule {s0 : St V} {K : List (List Nat)} {s : St V}
    (h : A (n := n) (r := r) (nv := nv) (ops := ops) (T := T) s0 K s) (ix : Ix)
    (hk : evalIx s0.env ix ∈ K) (hix : evalIx s0.env ix = s0.env) :
    A (n := n) (r := r) (nv := nv) (ops := ops) (T := T) s0 K (exec n ops T (.load ix) s) := by
  refine ⟨⟨h.j.alen, h.j.dlen, h.j.elen, h.j.i1, h.j.i2⟩, h.env, h.mono, ?_, h.known⟩
  show s.arr.getD (flat n (evalIx s.env ix)) ops.zero = T s0.env
  rw [h.env]
  have := (h.known _ hk).2
  unfold C at this
  rw [this, hix]

theorem mark_rule {s0 : St V} {K : List (List Nat)} {s : St V}
    (h : A (n := n) (r := r) (nv := nv) (ops := ops) (T := T) s0 K s) (ix : Ix)
    (hk : evalIx s0.env ix ∈ K) :
    A (n := n) (r := r) (nv := nv) (ops := ops) (T := T) s0 K
      (exec n ops T (.mark (ix.map some)) s) := by
  have hj := mark_J (ix.map some) s h.j (by
    rw [expandIx_map_some, h.env]
    intro t ht
    simp only [List.mem_singleton] at ht
    subst ht
    exact h.known _ hk)
  exact ⟨hj, h.env, h.mono, h.val, h.known⟩

/-- `if not done[cur]: body` at full depth (all loop variables bound) -/
theorem triple_ifNotDone (d : Nat) (hdr : d = r) (hdn : d = nv) (Φ : List Nat → Prop) (ix : Ix)
    (body : Stmt) (hix : ∀ pre : List Nat, pre.length = d → evalIx pre ix = pre)
    (hbody : ∀ s0 : St V, J n r nv ops T s0 → Valid n r s0.env → Φ s0.env →
      ∃ K, A (n := n) (r := r) (nv := nv) (ops := ops) (T := T) s0 K (exec n ops T body s0) ∧ s0.env ∈ K) :
    Triple n r nv ops T d Φ (.ifNotDone ix body) := by
  intro s hJ hlt hΦ
  have htk : s.env.take d = s.env := by rw [hdn, ← hJ.elen]; exact List.take_length
  rw [htk] at hlt hΦ ⊢
  have hv : Valid n r s.env := ⟨by rw [hJ.elen, ← hdn, hdr], hlt⟩
  have hq : ∀ q, Valid n r q → q.take d = s.env → q = s.env := by
    intro q hq h; rw [← h, hdr, ← hq.1]; exact List.take_length.symm
  simp only [exec]
  rw [hix s.env (by rw [hJ.elen, hdn])]
  split
  · next hd =>
    refine ⟨hJ, by rw [htk], fun _ _ h => h, ?_⟩
    intro q hq' hqd
    rw [hq q hq' hqd]
    exact hJ.i2 _ hv hd
  · obtain ⟨K, hA, hmem⟩ := hbody s hJ hv hΦ
    refine ⟨hA.j, by rw [hA.env]; exact htk, hA.mono, ?_⟩
    intro q hq' hqd
    rw [hq q hq' hqd]
    exact (hA.known _ hmem).2

/-! ### conclusion for a whole program -/

theorem fill_of_triple (p : Prog) (hr : p.rank = r) (hnv : p.nvars = nv)
    (h : Triple n r nv ops T 0 (fun _ => True) p.body) (q : List Nat) (hq : Valid n r q) :
    fillAt n ops T p q = T q := by
  have hJ : J n r nv ops T (initSt n ops p) := by
    refine ⟨by simp [initSt, hr], by simp [initSt, hr], by simp [initSt, hnv], ?_, ?_⟩
    · intro q _; right; exact getD_replicate _ _ _
    · intro q _ hd
      have : (List.replicate (n ^ p.rank) false).getD (flat n q) false = false := getD_replicate _ _ _
      simp only [initSt] at hd
      rw [this] at hd
      cases hd
  obtain ⟨_, _, _, h4⟩ := h (initSt n ops p) hJ (by simp) trivial
  exact h4 q hq (by simp)

end hoare

end AurelVerif.SymFillAll
