/-
Lemmas/CoreTac.lean — tactics and small facts shared by the theorems about the
generated formulas (Gen/Core*.lean).
-/
import AurelVerif.Gen.Env
import Mathlib.Tactic.Ring
import Mathlib.Tactic.FieldSimp
import Mathlib.Tactic.LinearCombination
import Mathlib.Algebra.BigOperators.Fin

namespace AurelVerif.CoreTac
open AurelVerif.Tensor

/-- unfold generated definitions and expand index sums over `Fin 3`/`Fin 4`. -/
macro "unfold_core" : tactic =>
  `(tactic| simp only [core_unfold, Fin.sum_univ_three, Fin.sum_univ_four])
macro "unfold_core" " at " h:ident : tactic =>
  `(tactic| simp only [core_unfold, Fin.sum_univ_three, Fin.sum_univ_four] at $h:ident)

/-- case split of one `Fin 3` / `Fin 4` index into literal indices. -/
macro "cases3" : tactic => `(tactic| refine fin3_cases ?_ ?_ ?_)
macro "cases4" : tactic => `(tactic| refine fin4_cases ?_ ?_ ?_ ?_)

/-- Kronecker delta. -/
def delta {K : Type} [Field K] {n : Nat} (i j : Fin n) : K := if i = j then 1 else 0

end AurelVerif.CoreTac
