/-
Lemmas/SymTensors.lean — the formula lines of `Gen/SymFormulas.lean` equal the
textbook tensors of `Spec/SymTensors.lean`, and the textbook tensors have the
index symmetries the fill loops rely on.  Everything for symbolic dimension
`n`, over any field of characteristic 0, for any commuting derivations `D`.
-/
import Mathlib.Tactic.Ring
import Mathlib.Tactic.LinearCombination
import Mathlib.Algebra.BigOperators.Ring.Finset
import Mathlib.Algebra.CharZero.Defs
import Mathlib.Algebra.Ring.CharZero
import AurelVerif.Spec.SymTensors
import AurelVerif.Gen.SymFormulas

namespace AurelVerif.SymTensorLemmas
open AurelVerif.Spec.SymTensors AurelVerif.Gen
open scoped BigOperators

variable {K : Type} [Field K] {n : ℕ}

/-! ### consequences of the derivation hypotheses -/
section deriv
variable {D : Fin n → K → K}

theorem D_zero (hD : IsDeriv D) (c : Fin n) : D c 0 = 0 := by
  have h := hD.add c 0 0
  rw [add_zero] at h
  linear_combination -h

theorem D_neg (hD : IsDeriv D) (c : Fin n) (a : K) : D c (-a) = - D c a := by
  have h := hD.add c a (-a)
  rw [add_neg_cancel, D_zero hD] at h
  linear_combination -h

theorem D_sub (hD : IsDeriv D) (c : Fin n) (a b : K) : D c (a - b) = D c a - D c b := by
  rw [sub_eq_add_neg, hD.add, D_neg hD, ← sub_eq_add_neg]

theorem D_sum (hD : IsDeriv D) (c : Fin n) {ι : Type} (s : Finset ι) (f : ι → K) :
    D c (∑ m ∈ s, f m) = ∑ m ∈ s, D c (f m) :=
  map_sum (AddMonoidHom.mk' (D c) (hD.add c)) f s

theorem D_one (hD : IsDeriv D) (c : Fin n) : D c 1 = 0 := by
  have h := hD.mul c 1 1
  rw [mul_one, mul_one, one_mul] at h
  linear_combination -h

theorem D_half [CharZero K] (hD : IsDeriv D) (c : Fin n) : D c (1 / 2 : K) = 0 := by
  have h2 : D c (2 : K) = 0 := by
    have : (2 : K) = 1 + 1 := by norm_num
    rw [this, hD.add, D_one hD, add_zero]
  have h := hD.mul c 2 (1 / 2)
  have e : (2 : K) * (1 / 2) = 1 := by norm_num
  rw [e, D_one hD, h2] at h
  have h' : (2 : K) * D c (1 / 2) = 0 := by linear_combination -h
  rcases mul_eq_zero.mp h' with h0 | h0
  · exact absurd h0 two_ne_zero
  · exact h0

theorem D_half_mul [CharZero K] (hD : IsDeriv D) (c : Fin n) (a : K) :
    D c ((1 / 2 : K) * a) = (1 / 2) * D c a := by
  rw [hD.mul, D_half hD, zero_mul, zero_add]

end deriv

/-! ### consequences of the metric hypotheses -/
section metric
variable {g gup : Fin n → Fin n → K}

theorem sum_delta_mul (i : Fin n) (f : Fin n → K) :
    ∑ l, (if i = l then (1 : K) else 0) * f l = f i := by
  simp [ite_mul, Finset.sum_ite_eq]

theorem gup_symm (hM : IsMetric g gup) (i j : Fin n) : gup i j = gup j i := by
  -- X = Σ_a Σ_b gup i a * g a b * gup j b, evaluated in two ways
  have h1 : ∑ a, ∑ b, gup i a * g a b * gup j b = gup j i := by
    rw [Finset.sum_comm]
    have : ∀ b, ∑ a, gup i a * g a b * gup j b = (if i = b then (1 : K) else 0) * gup j b := by
      intro b; rw [← hM.inv_mul i b, Finset.sum_mul]
    simp only [this]
    exact sum_delta_mul i (fun b => gup j b)
  have h2 : ∑ a, ∑ b, gup i a * g a b * gup j b = gup i j := by
    have : ∀ a, ∑ b, gup i a * g a b * gup j b = (if j = a then (1 : K) else 0) * gup i a := by
      intro a
      rw [← hM.inv_mul j a, Finset.sum_mul]
      apply Finset.sum_congr rfl
      intro b _
      rw [hM.symm a b]; ring
    simp only [this]
    exact sum_delta_mul j (fun a => gup i a)
  rw [← h2, h1]

end metric

/-! ### Christoffel symbols -/
section christoffel
variable {D : Fin n → K → K} {g gup : Fin n → Fin n → K}

theorem christoffel1_symm (hM : IsMetric g gup) (i j k : Fin n) :
    christoffel1 D g i j k = christoffel1 D g i k j := by
  unfold christoffel1
  rw [hM.symm j k]; ring

theorem christoffel2_symm (hM : IsMetric g gup) (i j k : Fin n) :
    christoffel2 D g gup i j k = christoffel2 D g gup i k j := by
  unfold christoffel2
  apply Finset.sum_congr rfl
  intro m _
  rw [christoffel1_symm hM]

/-- `g_{im} Γ^m_{jk} = Γ_{ijk}` -/
theorem lower_christoffel2 (hM : IsMetric g gup) (i j k : Fin n) :
    ∑ m, g i m * christoffel2 D g gup m j k = christoffel1 D g i j k := by
  unfold christoffel2
  simp only [Finset.mul_sum]
  rw [Finset.sum_comm]
  have : ∀ l, ∑ m, g i m * (gup m l * christoffel1 D g l j k)
      = (if i = l then (1 : K) else 0) * christoffel1 D g l j k := by
    intro l
    rw [← hM.mul_inv i l, Finset.sum_mul]
    apply Finset.sum_congr rfl
    intro m _; ring
  simp only [this]
  exact sum_delta_mul i (fun l => christoffel1 D g l j k)

/-- metric compatibility `∂_c g_{am} = Γ_{acm} + Γ_{mca}` -/
theorem metric_compat [CharZero K] (hM : IsMetric g gup) (c a m : Fin n) :
    D c (g a m) = christoffel1 D g a c m + christoffel1 D g m c a := by
  unfold christoffel1
  rw [hM.symm m a, hM.symm m c, hM.symm c a]
  ring

end christoffel

/-! ### lowering the Riemann tensor -/
section riemann
variable {D : Fin n → K → K} {g gup : Fin n → Fin n → K}

/-- For any pair `Γd`, `Γu` with `g Γu = Γd`, `Γd` symmetric in its last two
indices and `∂g = Γd + Γd`:
`g_{im} R^m_{jkh} = ∂_k Γ_{ijh} − ∂_h Γ_{ijk} + Γ_{mih} Γ^m_{jk} − Γ_{mik} Γ^m_{jh}`. -/
theorem lower_riemann_abstract (hD : IsDeriv D) (g : Fin n → Fin n → K)
    (Γd Γu : Fin n → Fin n → Fin n → K)
    (hC : ∀ a b c, ∑ m, g a m * Γu m b c = Γd a b c)
    (hsym : ∀ a b c, Γd a b c = Γd a c b)
    (hB : ∀ c a m, D c (g a m) = Γd a c m + Γd m c a) (i j k h : Fin n) :
    D k (Γd i j h) - D h (Γd i j k) + ∑ m, Γd m i h * Γu m j k - ∑ m, Γd m i k * Γu m j h
      = lower1 g (riemannUp D Γu) i j k h := by
  have hA : ∀ c b e, ∑ m, g i m * D c (Γu m b e)
      = D c (Γd i b e) - ∑ m, D c (g i m) * Γu m b e := by
    intro c b e
    rw [← hC i b e, D_sum hD]
    simp only [hD.mul, Finset.sum_add_distrib]
    ring
  have hQ : ∀ c b e, ∑ m, g i m * ∑ l, Γu m c l * Γu l b e = ∑ l, Γd i c l * Γu l b e := by
    intro c b e
    simp only [Finset.mul_sum]
    rw [Finset.sum_comm]
    apply Finset.sum_congr rfl
    intro l _
    rw [← hC i c l, Finset.sum_mul]
    apply Finset.sum_congr rfl
    intro m _; ring
  have hBsum : ∀ c b e, ∑ m, D c (g i m) * Γu m b e
      = ∑ m, Γd i c m * Γu m b e + ∑ m, Γd m i c * Γu m b e := by
    intro c b e
    rw [← Finset.sum_add_distrib]
    apply Finset.sum_congr rfl
    intro m _
    rw [hB c i m, hsym m c i]; ring
  unfold lower1 riemannUp
  simp only [mul_add, mul_sub, Finset.sum_add_distrib, Finset.sum_sub_distrib]
  rw [hA, hA, hQ, hQ, hBsum, hBsum]
  ring

theorem lower_riemann [CharZero K] (hD : IsDeriv D) (hM : IsMetric g gup) (i j k h : Fin n) :
    D k (christoffel1 D g i j h) - D h (christoffel1 D g i j k)
      + ∑ m, christoffel1 D g m i h * christoffel2 D g gup m j k
      - ∑ m, christoffel1 D g m i k * christoffel2 D g gup m j h
      = RiemannDown D g gup i j k h :=
  lower_riemann_abstract hD g (christoffel1 D g) (christoffel2 D g gup)
    (lower_christoffel2 hM) (christoffel1_symm hM) (metric_compat hM) i j k h

/-- the derivative part of `R_{ijkh}` in second derivatives of the metric -/
theorem dGamma_explicit [CharZero K] (hD : IsDeriv D) (g : Fin n → Fin n → K) (i j k h : Fin n) :
    D k (christoffel1 D g i j h) - D h (christoffel1 D g i j k)
      = (1 / 2) * (D k (D j (g i h)) - D k (D i (g j h)) - D h (D j (g i k)) + D h (D i (g j k))) := by
  unfold christoffel1
  simp only [D_half_mul hD, D_sub hD, hD.add]
  rw [hD.comm k h (g i j)]
  ring

/-- the quadratic part, all indices down -/
theorem quad_explicit (g gup : Fin n → Fin n → K) (D : Fin n → K → K) (i j k h : Fin n) :
    ∑ m, christoffel1 D g m i h * christoffel2 D g gup m j k
      = ∑ m, ∑ p, gup m p * (christoffel1 D g m i h * christoffel1 D g p j k) := by
  unfold christoffel2
  apply Finset.sum_congr rfl
  intro m _
  rw [Finset.mul_sum]
  apply Finset.sum_congr rfl
  intro p _; ring

/-- `R_{ijkh}` in terms of second derivatives of the metric and `Γ_{abc}` -/
theorem riemannDown_explicit [CharZero K] (hD : IsDeriv D) (hM : IsMetric g gup) (i j k h : Fin n) :
    RiemannDown D g gup i j k h
      = (1 / 2) * (D k (D j (g i h)) - D k (D i (g j h)) - D h (D j (g i k)) + D h (D i (g j k)))
        + (∑ m, ∑ p, gup m p * (christoffel1 D g m i h * christoffel1 D g p j k)
           - ∑ m, ∑ p, gup m p * (christoffel1 D g m i k * christoffel1 D g p j h)) := by
  rw [← lower_riemann hD hM, ← dGamma_explicit hD, quad_explicit, quad_explicit]
  ring

/-- swapping the two summation indices of the quadratic part -/
theorem quad_swap (hM : IsMetric g gup) (A B : Fin n → K) :
    ∑ m, ∑ p, gup m p * (A m * B p) = ∑ m, ∑ p, gup m p * (B m * A p) := by
  rw [Finset.sum_comm]
  apply Finset.sum_congr rfl
  intro m _
  apply Finset.sum_congr rfl
  intro p _
  rw [gup_symm hM p m]; ring

theorem riemannDown_antisymm12 [CharZero K] (hD : IsDeriv D) (hM : IsMetric g gup) (i j k h : Fin n) :
    RiemannDown D g gup j i k h = - RiemannDown D g gup i j k h := by
  rw [riemannDown_explicit hD hM, riemannDown_explicit hD hM]
  rw [quad_swap hM (fun m => christoffel1 D g m j h) (fun p => christoffel1 D g p i k),
      quad_swap hM (fun m => christoffel1 D g m j k) (fun p => christoffel1 D g p i h)]
  ring

theorem riemannDown_antisymm34 [CharZero K] (hD : IsDeriv D) (hM : IsMetric g gup) (i j k h : Fin n) :
    RiemannDown D g gup i j h k = - RiemannDown D g gup i j k h := by
  rw [riemannDown_explicit hD hM, riemannDown_explicit hD hM]
  ring

theorem riemannDown_pair [CharZero K] (hD : IsDeriv D) (hM : IsMetric g gup) (i j k h : Fin n) :
    RiemannDown D g gup k h i j = RiemannDown D g gup i j k h := by
  rw [riemannDown_explicit hD hM, riemannDown_explicit hD hM]
  have t1 : D i (D h (g k j)) = D h (D i (g j k)) := by rw [hD.comm i h, hM.symm k j]
  have t2 : D i (D k (g h j)) = D k (D i (g j h)) := by rw [hD.comm i k, hM.symm h j]
  have t3 : D j (D h (g k i)) = D h (D j (g i k)) := by rw [hD.comm j h, hM.symm k i]
  have t4 : D j (D k (g h i)) = D k (D j (g i h)) := by rw [hD.comm j k, hM.symm h i]
  rw [t1, t2, t3, t4]
  have q1 : ∑ m, ∑ p, gup m p * (christoffel1 D g m k j * christoffel1 D g p h i)
      = ∑ m, ∑ p, gup m p * (christoffel1 D g m i h * christoffel1 D g p j k) := by
    rw [quad_swap hM (fun m => christoffel1 D g m k j) (fun p => christoffel1 D g p h i)]
    apply Finset.sum_congr rfl
    intro m _
    apply Finset.sum_congr rfl
    intro p _
    rw [christoffel1_symm hM m h i, christoffel1_symm hM p k j]
  have q2 : ∑ m, ∑ p, gup m p * (christoffel1 D g m k i * christoffel1 D g p h j)
      = ∑ m, ∑ p, gup m p * (christoffel1 D g m i k * christoffel1 D g p j h) := by
    apply Finset.sum_congr rfl
    intro m _
    apply Finset.sum_congr rfl
    intro p _
    rw [christoffel1_symm hM m k i, christoffel1_symm hM p h j]
  rw [q1, q2]
  ring

theorem riemannUp_antisymm (D : Fin n → K → K) (Γ : Fin n → Fin n → Fin n → K) (i j k h : Fin n) :
    riemannUp D Γ i j h k = - riemannUp D Γ i j k h := by
  unfold riemannUp; ring

/-- raising the first index again: `g^{kl} R_{lijh} = R^k_{ijh}` -/
theorem raise_lower1 (hM : IsMetric g gup) (R : Fin n → Fin n → Fin n → Fin n → K) (k i j h : Fin n) :
    ∑ l, gup k l * lower1 g R l i j h = R k i j h := by
  unfold lower1
  simp only [Finset.mul_sum]
  rw [Finset.sum_comm]
  have : ∀ m, ∑ l, gup k l * (g l m * R m i j h) = (if k = m then (1 : K) else 0) * R m i j h := by
    intro m
    rw [← hM.inv_mul k m, Finset.sum_mul]
    apply Finset.sum_congr rfl
    intro l _; ring
  simp only [this]
  exact sum_delta_mul k (fun m => R m i j h)

theorem ricci_symm [CharZero K] (hD : IsDeriv D) (hM : IsMetric g gup) (i j : Fin n) :
    RicciDown D g gup j i = RicciDown D g gup i j := by
  have e : ∀ a b, RicciDown D g gup a b = ∑ k, ∑ l, gup k l * RiemannDown D g gup l a k b := by
    intro a b
    unfold RicciDown contract13
    apply Finset.sum_congr rfl
    intro k _
    exact (raise_lower1 hM (RiemannUddd D g gup) k a k b).symm
  rw [e, e, Finset.sum_comm]
  apply Finset.sum_congr rfl
  intro k _
  apply Finset.sum_congr rfl
  intro l _
  rw [gup_symm hM l k, riemannDown_pair hD hM l i k j]

theorem einstein_symm [CharZero K] (hD : IsDeriv D) (hM : IsMetric g gup) (i j : Fin n) :
    EinsteinDown D g gup j i = EinsteinDown D g gup i j := by
  unfold EinsteinDown
  rw [ricci_symm hD hM, hM.symm j i]

end riemann

/-! ### T1: every formula line is the textbook expression -/
section lines
variable {D : Fin n → K → K} {g gup : Fin n → Fin n → K} {S : K → K}

theorem gamma_udd_line (hS : ∀ x, S x = x) (b : Bool) (i j k : Fin n) :
    SymFormulas.Gamma_udd D b S gup g i j k = GammaUdd D g gup i j k := by
  simp only [SymFormulas.Gamma_udd, hS, ite_self, zero_add, GammaUdd, christoffel2, christoffel1,
    Finset.mul_sum]
  apply Finset.sum_congr rfl
  intro m _; ring

theorem gamma_down_line (hM : IsMetric g gup) (hS : ∀ x, S x = x) (b : Bool) (i j k : Fin n) :
    SymFormulas.Gamma_down D b S g (GammaUdd D g gup) i j k = GammaDown D g i j k := by
  simp only [SymFormulas.Gamma_down, hS, ite_self, zero_add, GammaUdd, GammaDown]
  exact lower_christoffel2 hM i j k

theorem riemann_uddd_line (hS : ∀ x, S x = x) (b : Bool) (Γ : Fin n → Fin n → Fin n → K)
    (i j k h : Fin n) :
    SymFormulas.Riemann_uddd D b S Γ i j k h = riemannUp D Γ i j k h := by
  simp only [SymFormulas.Riemann_uddd, hS, riemannUp]
  cases b <;> simp only [Bool.false_eq_true, if_true, if_false] <;> ring

theorem riemann_down_cached_line (hS : ∀ x, S x = x) (b : Bool)
    (R : Fin n → Fin n → Fin n → Fin n → K) (h i j k : Fin n) :
    SymFormulas.Riemann_down_cached D b S g R h i j k = lower1 g R h i j k := by
  simp only [SymFormulas.Riemann_down_cached, hS, ite_self, lower1]

theorem riemann_down_direct_line [CharZero K] (hD : IsDeriv D) (hM : IsMetric g gup)
    (hS : ∀ x, S x = x) (b : Bool) (i j k h : Fin n) :
    SymFormulas.Riemann_down_direct D b S (GammaDown D g) (GammaUdd D g gup) i j k h
      = RiemannDown D g gup i j k h := by
  rw [← lower_riemann hD hM]
  simp only [SymFormulas.Riemann_down_direct, hS, GammaDown, GammaUdd]
  cases b <;> simp only [Bool.false_eq_true, if_true, if_false] <;> ring

theorem ricci_down_cached_line (hS : ∀ x, S x = x) (b : Bool)
    (R : Fin n → Fin n → Fin n → Fin n → K) (i j : Fin n) :
    SymFormulas.Ricci_down_cached D b S R i j = contract13 R i j := by
  simp only [SymFormulas.Ricci_down_cached, hS, ite_self, zero_add, contract13]

/-- the direct Ricci line skips `k == j`; that term is `R^j_{ijj} = 0` -/
theorem ricci_down_direct_line (hS : ∀ x, S x = x) (b : Bool) (Γ : Fin n → Fin n → Fin n → K)
    (i j : Fin n) :
    SymFormulas.Ricci_down_direct D b S Γ i j = contract13 (riemannUp D Γ) i j := by
  simp only [SymFormulas.Ricci_down_direct, hS, ite_self, zero_add, contract13, riemannUp]
  apply Finset.sum_congr rfl
  intro k _
  by_cases hjk : j = k
  · subst hjk; simp
  · cases b <;> simp only [hjk, Bool.false_eq_true, if_true, if_false] <;> ring

theorem ricciS_line (b : Bool) (Ric : Fin n → Fin n → K) :
    SymFormulas.RicciS D b S gup Ric = ∑ i, ∑ j, gup i j * Ric i j := by
  simp only [SymFormulas.RicciS, zero_add]

theorem einstein_line (b : Bool) (Ric : Fin n → Fin n → K) (Rs : K) (i j : Fin n) :
    SymFormulas.Einstein_down D b S Ric g Rs i j = Ric i j - (1 / 2) * g i j * Rs := by
  simp only [SymFormulas.Einstein_down]

end lines

end AurelVerif.SymTensorLemmas
