/-
Lemmas/C04Jet2.lean — Layer B (consistency) groundwork for the curvature part of C04:
facts about the 1-jet `Jet` / 2-jet `JetC` of the 3+1 data (Spec/Curvature.lean, Spec/Riemann4Jet.lean)
under `Jet.LeviCivita`.  Nothing here mentions generated code.

 * `gamup` is the two-sided, symmetric inverse of `gam` (from the one clause `inv` of `LeviCivita`);
 * `gup3p1` (textbook 3+1 inverse) is a left inverse of the assembled metric, and every left inverse
   equals it;
 * `gup3p1_contract`:  g^{ef} X_e Y_f = γ^{mn} X_m Y_n − (X_0 − β^m X_m)(Y_0 − β^n Y_n)/α²;
 * Christoffel symbols of the first kind of the assembled metric in 3+1 pieces:
     Γ_{m|jk} = ³Γ_{m|jk},  Γ_{0|jk} − β^m Γ_{m|jk} = αK_jk,
     Γ_{n|i0} = −αK_ni + γ_nm ∂_iβ^m + β^m ³Γ_{n|im},  Γ_{0|j0} − β^m Γ_{m|j0} = −α(∂_jα − β^mK_mj);
 * ³Γ_{m|jk} = γ_ml Γ^l_jk, raising with γ^{mn};
 * `dtgam_lie`: the kinematic relation in Lie-derivative form.
-/
import AurelVerif.Spec.Riemann4Jet
import AurelVerif.Lemmas.C04Gamma
import Mathlib.LinearAlgebra.Matrix.NonsingularInverse

set_option linter.unusedSimpArgs false
set_option linter.unusedVariables false
set_option linter.unusedTactic false
set_option linter.unreachableTactic false

namespace AurelVerif.Spec.Curvature.Jet
open AurelVerif.Tensor AurelVerif.CoreTac AurelVerif.C04L

variable {K : Type} [Field K] (J : Jet K)

-- the symmetry facts of `LeviCivita` at literal indices, as local hypotheses
-- (`ha h2 g10 g20 g21 K10 K20 K21 G010 … G221`).
set_option hygiene false in
macro "lc_syms" h:ident : tactic => `(tactic| (
  have ha := ($h).ha; have h2 := ($h).two
  have g10 := ($h).symg 1 0; have g20 := ($h).symg 2 0; have g21 := ($h).symg 2 1
  have K10 := ($h).symK 1 0; have K20 := ($h).symK 2 0; have K21 := ($h).symK 2 1
  have G010 := ($h).symG 0 1 0; have G020 := ($h).symG 0 2 0; have G021 := ($h).symG 0 2 1
  have G110 := ($h).symG 1 1 0; have G120 := ($h).symG 1 2 0; have G121 := ($h).symG 1 2 1
  have G210 := ($h).symG 2 1 0; have G220 := ($h).symG 2 2 0; have G221 := ($h).symG 2 2 1))

/-! ### the inverse spatial metric -/

/-- `γ_kl γ^{ln} = δ_kn`. -/
theorem gam_mul_gamup (h : J.LeviCivita) (k n : Fin 3) : ∑ l, J.gam k l * J.gamup l n = delta k n := by
  have H := h.inv (fun m => if m = n then 1 else 0) k
  simp only [mul_ite, mul_one, mul_zero, Finset.sum_ite_eq', Finset.mem_univ, if_true] at H
  rw [H, delta]

/-- `γ^{ij}` is also a left inverse of `γ_ij`, and is symmetric. -/
theorem gamup_facts (h : J.LeviCivita) :
    (∀ i k, ∑ j, J.gamup i j * J.gam j k = delta i k) ∧ ∀ i j, J.gamup i j = J.gamup j i := by
  let G : Matrix (Fin 3) (Fin 3) K := Matrix.of J.gam
  let U : Matrix (Fin 3) (Fin 3) K := Matrix.of J.gamup
  have hGU : G * U = 1 := by
    ext a b
    rw [Matrix.mul_apply, Matrix.one_apply]
    exact gam_mul_gamup J h a b
  have hUG : U * G = 1 := mul_eq_one_comm.mp hGU
  have hGT : G.transpose = G := by ext a b; exact h.symg b a
  have h1 : U.transpose * G = 1 := by
    have := congrArg Matrix.transpose hGU
    rwa [Matrix.transpose_mul, hGT, Matrix.transpose_one] at this
  have hUT : U.transpose = U := by
    calc U.transpose = U.transpose * (G * U) := by rw [hGU, mul_one]
      _ = (U.transpose * G) * U := by rw [Matrix.mul_assoc]
      _ = U := by rw [h1, one_mul]
  refine ⟨fun i k => ?_, fun i j => ?_⟩
  · have := congrFun (congrFun hUG i) k
    rw [Matrix.mul_apply, Matrix.one_apply] at this
    exact this
  · exact congrFun (congrFun hUT j) i

theorem gamup_symm (h : J.LeviCivita) (i j : Fin 3) : J.gamup i j = J.gamup j i := (gamup_facts J h).2 i j

/-- `γ^{nm} γ_mk X^k = X^n`. -/
theorem gamup_gam_apply (h : J.LeviCivita) (X : Fin 3 → K) :
    ∀ n : Fin 3, ∑ m, J.gamup n m * ∑ k, J.gam m k * X k = X n := by
  have hl := (gamup_facts J h).1
  cases3
  · have e0 := hl 0 0; have e1 := hl 0 1; have e2 := hl 0 2
    simp [delta, Fin.sum_univ_three] at e0 e1 e2
    simp only [Fin.sum_univ_three]
    linear_combination X 0 * e0 + X 1 * e1 + X 2 * e2
  · have e0 := hl 1 0; have e1 := hl 1 1; have e2 := hl 1 2
    simp [delta, Fin.sum_univ_three] at e0 e1 e2
    simp only [Fin.sum_univ_three]
    linear_combination X 0 * e0 + X 1 * e1 + X 2 * e2
  · have e0 := hl 2 0; have e1 := hl 2 1; have e2 := hl 2 2
    simp [delta, Fin.sum_univ_three] at e0 e1 e2
    simp only [Fin.sum_univ_three]
    linear_combination X 0 * e0 + X 1 * e1 + X 2 * e2

/-- `γ^{mn} (γ_mp B^p) X_n = B^p X_p`. -/
theorem gamup_contract_low (h : J.LeviCivita) (B X : Fin 3 → K) :
    ∑ m, ∑ n, J.gamup m n * ((∑ p, J.gam m p * B p) * X n) = ∑ p, B p * X p := by
  have i0 := h.inv X 0; have i1 := h.inv X 1; have i2 := h.inv X 2
  lc_syms h
  simp only [Fin.sum_univ_three, g10, g20, g21] at i0 i1 i2 ⊢
  linear_combination B 0 * i0 + B 1 * i1 + B 2 * i2

/-! ### the inverse of the assembled metric -/

/-- `gup3p1 · g4 = 1`. -/
theorem gup3p1_mul_g4 (h : J.LeviCivita) : ∀ a c : Fin 4, ∑ b, J.gup3p1 a b * J.g4 b c = delta a c := by
  lc_syms h
  have hl := (gamup_facts J h).1
  refine fin4_ts (fin4_ts ?_ fun n => ?_) fun p => fin4_ts ?_ fun n => ?_
  · simp only [gup3p1, g4, metric3p1, tsplit_0, tsplit_1, tsplit_2, tsplit_3, Fin.sum_univ_four, Fin.sum_univ_three,
      delta, if_true]
    field_simp
    ring
  · have : (delta (0 : Fin 4) n.succ : K) = 0 := by simp [delta, (Fin.succ_ne_zero n).symm]
    rw [this, Fin.sum_univ_succ]
    simp only [gup3p1, g4, metric3p1, tsplit_0, tsplit_succ, Fin.sum_univ_three]
    field_simp
    ring
  · have : (delta p.succ (0 : Fin 4) : K) = 0 := by simp [delta, Fin.succ_ne_zero p]
    rw [this, Fin.sum_univ_succ]
    have H := gamup_gam_apply J h J.beta p
    simp only [gup3p1, g4, metric3p1, tsplit_0, tsplit_succ, Fin.sum_univ_three, g10, g20, g21] at H ⊢
    field_simp
    linear_combination J.alpha ^ 2 * H
  · have : (delta p.succ n.succ : K) = delta p n := by simp [delta, Fin.succ_inj]
    rw [this, Fin.sum_univ_succ, ← hl p n]
    simp only [gup3p1, g4, metric3p1, tsplit_0, tsplit_succ, Fin.sum_univ_three, g10, g20, g21]
    field_simp
    ring

/-- every left inverse of the assembled metric is `gup3p1`. -/
theorem gup_unique (h : J.LeviCivita) (gup : Fin 4 → Fin 4 → K)
    (hinv : ∀ a a', ∑ d, gup a d * J.g4 d a' = delta a a') (a b : Fin 4) : gup a b = J.gup3p1 a b := by
  let A : Matrix (Fin 4) (Fin 4) K := Matrix.of gup
  let U : Matrix (Fin 4) (Fin 4) K := Matrix.of J.gup3p1
  let M : Matrix (Fin 4) (Fin 4) K := Matrix.of J.g4
  have hA : A * M = 1 := by
    ext x y; rw [Matrix.mul_apply, Matrix.one_apply]; exact hinv x y
  have hU : U * M = 1 := by
    ext x y; rw [Matrix.mul_apply, Matrix.one_apply]; exact gup3p1_mul_g4 J h x y
  have hM : M * U = 1 := mul_eq_one_comm.mp hU
  have hAU : A = U := by
    calc A = A * (M * U) := by rw [hM, mul_one]
      _ = (A * M) * U := by rw [Matrix.mul_assoc]
      _ = U := by rw [hA, one_mul]
  exact congrFun (congrFun hAU a) b

/-- `gup3p1` is symmetric. -/
theorem gup3p1_symm (h : J.LeviCivita) : ∀ a b : Fin 4, J.gup3p1 a b = J.gup3p1 b a := by
  have hs := gamup_symm J h
  refine fin4_ts (fin4_ts rfl fun n => ?_) fun p => fin4_ts ?_ fun n => ?_
  · simp only [gup3p1, tsplit_0, tsplit_succ]
  · simp only [gup3p1, tsplit_0, tsplit_succ]
  · simp only [gup3p1, tsplit_succ, hs p n]; ring

/-- **3+1 form of a contraction with the inverse metric**:
`g^{ef} X_e Y_f = γ^{mn} X_m Y_n − (X_0 − β^m X_m)(Y_0 − β^n Y_n)/α²`. -/
theorem gup3p1_contract (X Y : Fin 4 → K) :
    ∑ e, ∑ f, J.gup3p1 e f * (X e * Y f)
      = ∑ m : Fin 3, ∑ n : Fin 3, J.gamup m n * (X m.succ * Y n.succ)
        - (X 0 - ∑ m : Fin 3, J.beta m * X m.succ) * (Y 0 - ∑ n : Fin 3, J.beta n * Y n.succ) / J.alpha ^ 2 := by
  simp only [Fin.sum_univ_four, Fin.sum_univ_three, gup3p1, tsplit_0, tsplit_1, tsplit_2, tsplit_3, succ3_0, succ3_1,
    succ3_2]
  ring

/-! ### Christoffel symbols of the first kind -/

/-- `³Γ_{m|jk} = γ_ml Γ^l_jk`. -/
theorem c1_gam (h : J.LeviCivita) : ∀ m j k : Fin 3,
    christoffel1 J.dgam m j k = ∑ l, J.gam m l * J.Gam3 l j k := by
  lc_syms h
  simp only [christoffel1, h.mc]
  cases3 <;> cases3 <;> cases3 <;>
    (simp only [Fin.sum_univ_three, g10, g20, g21, G010, G020, G021, G110, G120, G121, G210, G220, G221]
     field_simp
     ring)

/-- `γ^{mn} ³Γ_{m|jk} X_n = Γ^p_jk X_p`. -/
theorem gamup_c1 (h : J.LeviCivita) (j k : Fin 3) (X : Fin 3 → K) :
    ∑ m, ∑ n, J.gamup m n * (christoffel1 J.dgam m j k * X n) = ∑ p, J.Gam3 p j k * X p := by
  simp only [c1_gam J h]
  exact gamup_contract_low J h (fun p => J.Gam3 p j k) X

/-- `γ^{mn} X_m ³Γ_{n|jk} = Γ^p_jk X_p`. -/
theorem gamup_c1' (h : J.LeviCivita) (j k : Fin 3) (X : Fin 3 → K) :
    ∑ m, ∑ n, J.gamup m n * (X m * christoffel1 J.dgam n j k) = ∑ p, J.Gam3 p j k * X p := by
  rw [← gamup_c1 J h j k X, Finset.sum_comm]
  refine Finset.sum_congr rfl fun m _ => Finset.sum_congr rfl fun n _ => ?_
  rw [gamup_symm J h n m]; ring

local notation "Γ₁" => christoffel1 J.dg4

/-- `Γ_{m|jk}` of the assembled metric is the spatial one. -/
theorem c1_sss (m j k : Fin 3) : Γ₁ m.succ j.succ k.succ = christoffel1 J.dgam m j k := by
  simp only [christoffel1, dg4, dmetric3p1, tsplit_succ]

set_option maxHeartbeats 1000000 in
/-- `Γ_{0|jk} = αK_jk + β^m ³Γ_{m|jk}`. -/
theorem c1_0ss (h : J.LeviCivita) : ∀ j k : Fin 3,
    Γ₁ 0 j.succ k.succ = J.alpha * J.Kd j k + ∑ m, J.beta m * christoffel1 J.dgam m j k := by
  lc_syms h
  simp only [christoffel1, dg4, dmetric3p1, tsplit_succ, tsplit_0, dtgam, dtGamma, DbD, covdShiftDown, h.mc]
  cases3 <;> cases3 <;>
    (simp only [Fin.sum_univ_three, g10, g20, g21, K10, K20, K21, G010, G020, G021, G110, G120, G121, G210, G220,
       G221]
     field_simp
     ring)

set_option maxHeartbeats 1000000 in
/-- `Γ_{n|i0} = −αK_ni + γ_nm ∂_iβ^m + β^m ³Γ_{n|im}`. -/
theorem c1_ss0 (h : J.LeviCivita) : ∀ n i : Fin 3,
    Γ₁ n.succ i.succ 0
      = -(J.alpha * J.Kd n i) + ∑ m, J.gam n m * J.db i m + ∑ m, J.beta m * christoffel1 J.dgam n i m := by
  lc_syms h
  simp only [christoffel1, dg4, dmetric3p1, tsplit_succ, tsplit_0, dtgam, dtGamma, DbD, covdShiftDown, h.mc]
  cases3 <;> cases3 <;>
    (simp only [Fin.sum_univ_three, g10, g20, g21, K10, K20, K21, G010, G020, G021, G110, G120, G121, G210, G220,
       G221]
     field_simp
     ring)

/-- `Γ_{n|0i} = Γ_{n|i0}`. -/
theorem c1_s0s (n i : Fin 3) : Γ₁ n.succ 0 i.succ = Γ₁ n.succ i.succ 0 := by
  simp only [christoffel1, dg4, dmetric3p1, tsplit_succ, tsplit_0]; ring

set_option maxHeartbeats 1000000 in
/-- `Γ_{0|j0} − β^m Γ_{m|j0} = −α(∂_jα − β^mK_mj)`. -/
theorem c1_0s0 (h : J.LeviCivita) : ∀ j : Fin 3,
    Γ₁ 0 j.succ 0 - ∑ m : Fin 3, J.beta m * Γ₁ m.succ j.succ 0
      = -(J.alpha * (J.da j - ∑ m, J.beta m * J.Kd m j)) := by
  lc_syms h
  simp only [christoffel1, dg4, dmetric3p1, tsplit_succ, tsplit_0, dtgam, dtGamma, DbD, covdShiftDown, h.mc]
  cases3 <;>
    (simp only [Fin.sum_univ_three, g10, g20, g21, K10, K20, K21, G010, G020, G021, G110, G120, G121, G210, G220,
       G221]
     field_simp
     ring)

/-- `Γ_{0|0j} = Γ_{0|j0}`. -/
theorem c1_00s (j : Fin 3) : Γ₁ 0 0 j.succ = Γ₁ 0 j.succ 0 := by
  simp only [christoffel1, dg4, dmetric3p1, tsplit_succ, tsplit_0]; ring

/-! ### the kinematic relation in Lie-derivative form -/

/-- `D_jβ_k + D_kβ_j = L_β γ_jk`, i.e. `∂_t γ_jk = −2αK_jk + β^m∂_mγ_jk + γ_mk∂_jβ^m + γ_jm∂_kβ^m`
for a torsion-free metric-compatible connection. -/
theorem dtgam_lie (h : J.LeviCivita) : ∀ j k : Fin 3,
    J.dtgam j k = -(2 * J.alpha * J.Kd j k) + J.lieGam j k := by
  lc_syms h
  simp only [dtgam, dtGamma, DbD, covdShiftDown, lieGam, h.mc]
  cases3 <;> cases3 <;>
    (simp only [Fin.sum_univ_three, g10, g20, g21, G010, G020, G021, G110, G120, G121, G210, G220, G221]
     ring)

/-- `dg4 c = dmetric3p1 … (∂_c α) (∂_c β) (∂_c γ)`. -/
theorem dg4_eq (c : Fin 4) :
    J.dg4 c = dmetric3p1 J.alpha J.beta J.gam (J.d4a c) (J.d4b c) (J.d4gam c) := by
  revert c
  refine fin4_ts ?_ fun i => ?_
  · simp only [dg4, d4a, d4b, d4gam, tsplit_0]
  · simp only [dg4, d4a, d4b, d4gam, tsplit_succ]

end AurelVerif.Spec.Curvature.Jet
