/-
Lemmas/C04RiemLower.lean — the fully covariant formula `riemannDown` ([LL] (92.1), Spec/Riemann4Jet.lean) IS
the first-principles Riemann tensor of Spec/Jet4.lean with its first index lowered:

   g_{ax} R^x_{bcd} = ½(∂_b∂_c g_ad + ∂_a∂_d g_bc − ∂_a∂_c g_bd − ∂_b∂_d g_ac) + g^{ef}(Γ_{e|bc}Γ_{f|ad} − Γ_{e|bd}Γ_{f|ac})

where `R^a_{bcd} = ∂_cΓ^a_{db} − ∂_dΓ^a_{cb} + Γ^a_{ce}Γ^e_{db} − Γ^a_{de}Γ^e_{cb}`, `Γ^a_{bc} = g^{ad}Γ_{d|bc}`,
`∂_eΓ^a_{bc}` by the product rule with `∂_e g^{ab} = −g^{ai}(∂_e g_ij)g^{jb}` (`Jet2.Riem`).  Hypotheses: `g g⁻¹ = 1`,
symmetric 2-jet, `2 ≠ 0`.  Pure index algebra; nothing here mentions generated code.
-/
import AurelVerif.Spec.Riemann4Jet
import AurelVerif.Spec.Jet4
import Mathlib.Tactic.Ring
import Mathlib.Tactic.LinearCombination
import Mathlib.Tactic.FieldSimp

set_option linter.unusedSimpArgs false
set_option linter.unusedVariables false

namespace AurelVerif.Spec.Jet4.Jet2
open AurelVerif.Spec.Curvature

variable {K : Type} [Field K] (J : Jet2 K)

/-- `g_{ax} g^{xd} V_d = V_a`. -/
theorem low_raise (hinv : J.IsInverse) (V : Fin 4 → K) (a : Fin 4) :
    ∑ x, J.g a x * ∑ d, J.gi x d * V d = V a := by
  calc ∑ x, J.g a x * ∑ d, J.gi x d * V d
      = ∑ x, ∑ d, (J.g a x * J.gi x d) * V d := by
        simp only [Finset.mul_sum, mul_assoc]
    _ = ∑ d, ∑ x, (J.g a x * J.gi x d) * V d := Finset.sum_comm
    _ = ∑ d, (∑ x, J.g a x * J.gi x d) * V d := by simp only [Finset.sum_mul]
    _ = ∑ d, (if a = d then 1 else 0) * V d := by simp only [hinv a]
    _ = V a := by simp

/-- `g_{ax} Γ^x_{bc} = Γ_{a|bc}`. -/
theorem low_Gam (hinv : J.IsInverse) (a b c : Fin 4) : ∑ x, J.g a x * J.Gam x b c = J.Gl a b c := by
  simp only [Gam, christoffel]
  exact low_raise J hinv (fun d => christoffel1 J.dg d b c) a

/-- `g_{ax} ∂_e g^{xd} = −(∂_e g_aj) g^{jd}`. -/
theorem low_dgi (hinv : J.IsInverse) (e a d : Fin 4) :
    ∑ x, J.g a x * J.dgi e x d = -∑ j, J.dg e a j * J.gi j d := by
  have h : ∀ x, J.dgi e x d = -∑ i, J.gi x i * ∑ j, J.dg e i j * J.gi j d := by
    intro x; simp only [dgi, Finset.mul_sum, mul_assoc]
  simp only [h, mul_neg, Finset.sum_neg_distrib]
  rw [low_raise J hinv (fun i => ∑ j, J.dg e i j * J.gi j d) a]

/-- `g_{ax} ∂_eΓ^x_{bc} = ∂_eΓ_{a|bc} − (∂_e g_aj) Γ^j_{bc}`. -/
theorem low_dGam (hinv : J.IsInverse) (e a b c : Fin 4) :
    ∑ x, J.g a x * J.dGam e x b c = J.dGl e a b c - ∑ j, J.dg e a j * J.Gam j b c := by
  have h1 : ∑ x, J.g a x * J.dGam e x b c
      = ∑ d, (∑ x, J.g a x * J.dgi e x d) * J.Gl d b c + ∑ x, J.g a x * ∑ d, J.gi x d * J.dGl e d b c := by
    simp only [dGam, Finset.sum_add_distrib, mul_add, Finset.mul_sum, Finset.sum_mul]
    congr 1
    rw [Finset.sum_comm]
    exact Finset.sum_congr rfl fun d _ => Finset.sum_congr rfl fun x _ => by ring
  rw [h1, low_raise J hinv (fun d => J.dGl e d b c) a]
  simp only [low_dgi J hinv]
  have h2 : ∑ d, (-∑ j, J.dg e a j * J.gi j d) * J.Gl d b c = -∑ j, J.dg e a j * J.Gam j b c := by
    simp only [Gam, christoffel, Gl, neg_mul, Finset.sum_neg_distrib, Finset.mul_sum, Finset.sum_mul]
    rw [Finset.sum_comm]
    congr 1
    exact Finset.sum_congr rfl fun j _ => Finset.sum_congr rfl fun d _ => by ring
  rw [h2]; ring

/-- `∂_e g_aj = Γ_{a|ej} + Γ_{j|ea}`. -/
theorem dg_split (hs : J.IsSymm) (h2 : (2 : K) ≠ 0) (e a j : Fin 4) : J.dg e a j = J.Gl a e j + J.Gl j e a := by
  simp only [Gl, christoffel1, hs.dg e j a, hs.dg a j e, hs.dg j e a]
  field_simp
  ring

/-- **lowering the first index of the first-principles Riemann tensor gives `riemannDown`.** -/
theorem lower_Riem (hinv : J.IsInverse) (hs : J.IsSymm) (h2 : (2 : K) ≠ 0) (a b c d : Fin 4) :
    ∑ x, J.g a x * J.Riem x b c d = riemannDown J.gi J.dg J.ddg a b c d := by
  have hGl : ∀ p q r, J.Gl p q r = J.Gl p r q := by
    intro p q r; simp only [Gl, christoffel1, hs.dg p q r]; ring
  have e1 : ∑ x, J.g a x * J.Riem x b c d
      = (∑ x, J.g a x * J.dGam c x d b) - (∑ x, J.g a x * J.dGam d x c b)
        + (∑ e, (∑ x, J.g a x * J.Gam x c e) * J.Gam e d b - ∑ e, (∑ x, J.g a x * J.Gam x d e) * J.Gam e c b) := by
    simp only [Riem, mul_add, mul_sub, Finset.sum_add_distrib, Finset.sum_sub_distrib, Finset.mul_sum, Finset.sum_mul]
    congr 1
    congr 1
    · rw [Finset.sum_comm]
      exact Finset.sum_congr rfl fun e _ => Finset.sum_congr rfl fun x _ => by ring
    · rw [Finset.sum_comm]
      exact Finset.sum_congr rfl fun e _ => Finset.sum_congr rfl fun x _ => by ring
  rw [e1, low_dGam J hinv, low_dGam J hinv]
  simp only [low_Gam J hinv, dg_split J hs h2]
  -- the Γ_{a|cj}Γ^j terms cancel
  have e2 : ∀ (p q r : Fin 4), ∑ j, (J.Gl a p j + J.Gl j p a) * J.Gam j q r
      = ∑ e, J.Gl a p e * J.Gam e q r + ∑ j, J.Gl j p a * J.Gam j q r := by
    intro p q r; simp only [add_mul, Finset.sum_add_distrib]
  rw [e2, e2]
  -- the remaining quadratic terms in the form of `riemannDown`
  have e3 : ∀ (p q r : Fin 4), ∑ j, J.Gl j p a * J.Gam j q r
      = ∑ e, ∑ f, J.gi e f * (J.Gl e r q * J.Gl f a p) := by
    intro p q r
    simp only [Gam, christoffel, Finset.mul_sum]
    rw [Finset.sum_comm]
    refine Finset.sum_congr rfl fun k _ => Finset.sum_congr rfl fun j _ => ?_
    have h1 := hGl j p a
    have h2' := hGl k q r
    simp only [Gl] at h1 h2' ⊢
    rw [hs.gi k j, h1, h2']
    ring
  rw [e3, e3]
  simp only [riemannDown, mul_sub, Finset.sum_sub_distrib, dGl, Gl]
  linear_combination (1 / 2 : K) * hs.ddg_cd c d a b + (1 / 2 : K) * hs.ddg_cd c b a d
    - (1 / 2 : K) * hs.ddg_cd c a d b - (1 / 2 : K) * hs.ddg_ab a c d b - (1 / 2 : K) * hs.ddg_cd d b a c
    + (1 / 2 : K) * hs.ddg_cd d a c b + (1 / 2 : K) * hs.ddg_ab a d c b

end AurelVerif.Spec.Jet4.Jet2
