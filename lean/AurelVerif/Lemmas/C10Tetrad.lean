/-
Lemmas/C10Tetrad.lean — Gram–Schmidt with the code's `norm = sqrt(abs(<u,u>))` over an ordered field
(the "true non-zero norm" hypotheses of Lemmas/C10Weyl.lean become: the intermediate vectors are
spacelike / non-zero), and the assembly of the quasi-Kinnersley tetrad.
-/
import AurelVerif.Model.WeylTetrad
import AurelVerif.Lemmas.C10Weyl
import Mathlib.Algebra.Order.Field.Basic

set_option linter.unusedSimpArgs false
set_option linter.unusedVariables false

namespace AurelVerif.C10
open AurelVerif.Spec.Weyl AurelVerif.Model.WeylNP AurelVerif.Tensor

section ordered
variable {K : Type} [Field K] [LinearOrder K] [IsStrictOrderedRing K]

/-- `sqrt(abs(<u,u>))` is the true, non-zero norm of a vector with `<u,u> > 0` when `sqrt` is exact on
non-negative numbers. -/
theorem normOf_spec (sq : K → K) (hsq : ∀ x, 0 ≤ x → sq x ^ 2 = x) {n : Nat} (g : Fin n → Fin n → K)
    (u : Fin n → K) (hpos : 0 < ip g u u) : normOf sq g u ^ 2 = ip g u u ∧ normOf sq g u ≠ 0 := by
  unfold normOf
  rw [abs_of_pos hpos]
  refine ⟨hsq _ hpos.le, fun h0 => ?_⟩
  have := hsq _ hpos.le
  rw [h0] at this
  have h1 : ip g u u = 0 := by rw [← this]; ring
  exact hpos.ne' h1

/-- fluid-adapted branch with the code's `norm4`: orthonormal as soon as `u` is unit timelike and the three
intermediate vectors are spacelike. -/
theorem gramSchmidt4_orthonormal_of_spacelike (sq : K → K) (hsq : ∀ x, 0 ≤ x → sq x ^ 2 = x)
    (g : Fin 4 → Fin 4 → K) (hg : ∀ a b, g a b = g b a) (e0 v1 v2 v3 : Fin 4 → K) (h0 : ip g e0 e0 = -1)
    (h1 : 0 < ip g (gs4_u1 g e0 v1) (gs4_u1 g e0 v1))
    (h2 : 0 < ip g (gs4_u2 g (normOf sq g) e0 v1 v2) (gs4_u2 g (normOf sq g) e0 v1 v2))
    (h3 : 0 < ip g (gs4_u3 g (normOf sq g) e0 v1 v2 v3) (gs4_u3 g (normOf sq g) e0 v1 v2 v3)) :
    Orthonormal g (gramSchmidt4 g (normOf sq g) e0 v1 v2 v3) := by
  obtain ⟨a1, b1⟩ := normOf_spec sq hsq g _ h1
  obtain ⟨a2, b2⟩ := normOf_spec sq hsq g _ h2
  obtain ⟨a3, b3⟩ := normOf_spec sq hsq g _ h3
  exact gramSchmidt4_orthonormal g hg (normOf sq g) e0 v1 v2 v3 h0 a1 b1 a2 b2 a3 b3

/-- quasi-Kinnersley branch with the code's `norm3` and a positive-definite γ: orthonormal as soon as the
three vectors to be normalised are non-zero (`v1 = (−y,x,0)` vanishes on the axis). -/
theorem gramSchmidt3_orthonormal_of_posdef (sq : K → K) (hsq : ∀ x, 0 ≤ x → sq x ^ 2 = x)
    (γ : Fin 3 → Fin 3 → K) (hγ : ∀ a b, γ a b = γ b a) (hpd : ∀ x : Fin 3 → K, x ≠ 0 → 0 < ip γ x x)
    (v1 v2 v3 : Fin 3 → K) (h1 : v1 ≠ 0) (h2 : gs3_u2 γ (normOf sq γ) v1 v2 ≠ 0)
    (h3 : gs3_u3 γ (normOf sq γ) v1 v2 v3 ≠ 0) (a b : Fin 3) :
    ip γ (gramSchmidt3 γ (normOf sq γ) v1 v2 v3 a) (gramSchmidt3 γ (normOf sq γ) v1 v2 v3 b)
      = if a = b then 1 else 0 := by
  obtain ⟨a1, b1⟩ := normOf_spec sq hsq γ _ (hpd _ h1)
  obtain ⟨a2, b2⟩ := normOf_spec sq hsq γ _ (hpd _ h2)
  obtain ⟨a3, b3⟩ := normOf_spec sq hsq γ _ (hpd _ h3)
  exact gramSchmidt3_orthonormal γ hγ (normOf sq γ) v1 v2 v3 a1 b1 a2 b2 a3 b3 a b

end ordered

section assembly
variable {K : Type} [Field K]

/-- `g(0⊕x, 0⊕y) = γ(x,y)` when the spatial block of `g` is `γ`. -/
theorem ip_embed3 (g : Fin 4 → Fin 4 → K) (γ : Fin 3 → Fin 3 → K) (hb : ∀ i j : Fin 3, g i.succ j.succ = γ i j)
    (x y : Fin 3 → K) : ip g (embed3 x) (embed3 y) = ip γ x y := by
  have b00 := hb 0 0; have b01 := hb 0 1; have b02 := hb 0 2
  have b10 := hb 1 0; have b11 := hb 1 1; have b12 := hb 1 2
  have b20 := hb 2 0; have b21 := hb 2 1; have b22 := hb 2 2
  simp only [succ3_0, succ3_1, succ3_2] at b00 b01 b02 b10 b11 b12 b20 b21 b22
  simp only [ip, embed3, Fin.sum_univ_four, Fin.sum_univ_three, vec4_0, vec4_1, vec4_2, vec4_3,
    b00, b01, b02, b10, b11, b12, b20, b21, b22]
  ring

/-- the three spatial legs `e1 = (0,w2)`, `e2 = (0,w3)`, `e3 = (0,w1)` of the quasi-Kinnersley tetrad are
orthonormal for every 4-metric whose spatial block is γ (any lapse and shift). -/
theorem tetradQK_legs (g : Fin 4 → Fin 4 → K) (γ : Fin 3 → Fin 3 → K) (hb : ∀ i j : Fin 3, g i.succ j.succ = γ i j)
    (nrm : (Fin 3 → K) → K) (v1 v2 v3 : Fin 3 → K)
    (hon : ∀ a b, ip γ (gramSchmidt3 γ nrm v1 v2 v3 a) (gramSchmidt3 γ nrm v1 v2 v3 b) = if a = b then 1 else 0) :
    ∀ i j : Fin 3, ip g (tetradQK γ nrm v1 v2 v3 i.succ) (tetradQK γ nrm v1 v2 v3 j.succ) = if i = j then 1 else 0 := by
  have e := ip_embed3 g γ hb
  have h00 := hon 0 0; have h01 := hon 0 1; have h02 := hon 0 2
  have h10 := hon 1 0; have h11 := hon 1 1; have h12 := hon 1 2
  have h20 := hon 2 0; have h21 := hon 2 1; have h22 := hon 2 2
  simp only [gramSchmidt3, vec3_0, vec3_1, vec3_2] at h00 h01 h02 h10 h11 h12 h20 h21 h22
  refine fin3_cases (fin3_cases ?_ ?_ ?_) (fin3_cases ?_ ?_ ?_) (fin3_cases ?_ ?_ ?_) <;>
    simp only [tetradQK, succ3_0, succ3_1, succ3_2, vec4_1, vec4_2, vec4_3, e] <;> assumption

/-- in the wave zone (`g_00 = −1`, `g_0i = 0`, spatial block γ) the whole quasi-Kinnersley tetrad is
orthonormal for `g`. -/
theorem tetradQK_orthonormal_wavezone (g : Fin 4 → Fin 4 → K) (γ : Fin 3 → Fin 3 → K)
    (h00 : g 0 0 = -1) (h0i : ∀ i : Fin 3, g 0 i.succ = 0 ∧ g i.succ 0 = 0)
    (hb : ∀ i j : Fin 3, g i.succ j.succ = γ i j)
    (nrm : (Fin 3 → K) → K) (v1 v2 v3 : Fin 3 → K)
    (hon : ∀ a b, ip γ (gramSchmidt3 γ nrm v1 v2 v3 a) (gramSchmidt3 γ nrm v1 v2 v3 b) = if a = b then 1 else 0) :
    Orthonormal g (tetradQK γ nrm v1 v2 v3) := by
  have legs := tetradQK_legs g γ hb nrm v1 v2 v3 hon
  have t1 := h0i 0; have t2 := h0i 1; have t3 := h0i 2
  simp only [succ3_0, succ3_1, succ3_2] at t1 t2 t3
  have time : ∀ w : Fin 3 → K, ip g (vec4 1 0 0 0) (embed3 w) = 0 ∧ ip g (embed3 w) (vec4 1 0 0 0) = 0 := by
    intro w
    constructor <;>
      (simp only [ip, embed3, Fin.sum_univ_four, vec4_0, vec4_1, vec4_2, vec4_3, t1.1, t1.2, t2.1, t2.2, t3.1, t3.2]
       ring)
  have tt : ip g (vec4 1 0 0 0 : Fin 4 → K) (vec4 1 0 0 0) = -1 := by
    simp only [ip, Fin.sum_univ_four, vec4_0, vec4_1, vec4_2, vec4_3, h00]; ring
  have l00 := legs 0 0; have l01 := legs 0 1; have l02 := legs 0 2
  have l10 := legs 1 0; have l11 := legs 1 1; have l12 := legs 1 2
  have l20 := legs 2 0; have l21 := legs 2 1; have l22 := legs 2 2
  simp only [succ3_0, succ3_1, succ3_2] at l00 l01 l02 l10 l11 l12 l20 l21 l22
  refine fin4_cases (fin4_cases ?_ ?_ ?_ ?_) (fin4_cases ?_ ?_ ?_ ?_) (fin4_cases ?_ ?_ ?_ ?_)
    (fin4_cases ?_ ?_ ?_ ?_)
  · simpa [tetradQK, eta] using tt
  · simpa [tetradQK, eta] using (time _).1
  · simpa [tetradQK, eta] using (time _).1
  · simpa [tetradQK, eta] using (time _).1
  · simpa [tetradQK, eta] using (time _).2
  · simpa [eta] using l00
  · simpa [eta] using l01
  · simpa [eta] using l02
  · simpa [tetradQK, eta] using (time _).2
  · simpa [eta] using l10
  · simpa [eta] using l11
  · simpa [eta] using l12
  · simpa [tetradQK, eta] using (time _).2
  · simpa [eta] using l20
  · simpa [eta] using l21
  · simpa [eta] using l22

/-- for ANY lapse and shift the complex null vectors `m`, `m̄` built from the quasi-Kinnersley legs satisfy
`m·m̄ = 1`, `m·m = m̄·m̄ = 0` (they use the spatial legs `e2`, `e3` only). -/
theorem nullQK_m_products (g : Fin 4 → Fin 4 → K) (E : Fin 4 → Fin 4 → K) (s I : K) (hs : 2 * s ^ 2 = 1)
    (hI : I ^ 2 = -1)
    (h22 : ip g (E 2) (E 2) = 1) (h33 : ip g (E 3) (E 3) = 1) (h23 : ip g (E 2) (E 3) = 0)
    (h32 : ip g (E 3) (E 2) = 0) :
    ip g (nullVectorBase s I E).m (nullVectorBase s I E).mb = 1
    ∧ ip g (nullVectorBase s I E).m (nullVectorBase s I E).m = 0
    ∧ ip g (nullVectorBase s I E).mb (nullVectorBase s I E).mb = 0 := by
  simp only [nullVectorBase, ip, Fin.sum_univ_four] at *
  refine ⟨?_, ?_, ?_⟩
  · linear_combination s ^ 2 * (h22 - I * h23 + I * h32 - I ^ 2 * h33) + hs - s ^ 2 * hI
  · linear_combination s ^ 2 * (h22 + I * h23 + I * h32 + I ^ 2 * h33) + s ^ 2 * hI
  · linear_combination s ^ 2 * (h22 - I * h23 - I * h32 + I ^ 2 * h33) + s ^ 2 * hI

end assembly

end AurelVerif.C10
