/-
Lemmas/C04CurvCode.lean — Layer B (consistency): the generated `st_Riemann_down4` (all four
alternatives) against the TEXTBOOK Riemann tensor of the assembled 4-metric.

`jetCOf e T` is the 2-jet the code works with at one grid point: cached entries, the supplied
`dtalpha`, `dtbetaup3`, the abstract difference operator `e.D` (applied once or twice) for spatial
derivatives, and `T : TimeJet2 K` for the second derivatives that involve time and are NOT available
to the code (`∂_t∂_c α`, `∂_t∂_c β^m`, `∂_t∂_t γ_ij`; they enter only `R_itjt`, and are universally
quantified).  `(jetCOf e T).riem4 (gup4 e)` is `Spec.Curvature.riemannDown` ([LL] (92.1)) of that 2-jet
with the code's inverse metric.

Hypotheses (`CurvHyp`): assembled metric, `det γ ≠ 0`, `Jet.LeviCivita` (as for `st_Gamma_udd4`),
commuting difference operators, and `riem3`: the cached `s_Riemann_down3` is the textbook Riemann
tensor of γ — discharged from property C05 (`C05L.s_Riemann_down3_second`) by `riem3_of_code`.
-/
import AurelVerif.Lemmas.C04RiemSym
import AurelVerif.Lemmas.C04RiemannMatter
import AurelVerif.Lemmas.C04RiemannVacuum
import AurelVerif.Lemmas.C04Gup
import AurelVerif.Lemmas.C04Contract
import AurelVerif.Lemmas.C05Riem

set_option linter.unusedSimpArgs false
set_option linter.unusedVariables false
set_option linter.unusedTactic false
set_option linter.unreachableTactic false
set_option linter.unusedSectionVars false

namespace AurelVerif.C04L
open AurelVerif.Gen.Core AurelVerif.Tensor AurelVerif.CoreTac AurelVerif.C08 AurelVerif.Spec.Curvature

variable {K : Type} [Field K]

/-- second derivatives involving time, not available to the code at one grid point:
`ddta c = ∂_t∂_c α`, `ddtb c m = ∂_t∂_c β^m` (`c ∈ (t,x,y,z)`), `dttgam i j = ∂_t∂_t γ_ij`. -/
structure TimeJet2 (K : Type) where
  ddta : Fin 4 → K
  ddtb : Fin 4 → Fin 3 → K
  dttgam : Fin 3 → Fin 3 → K

/-- the 2-jet at one grid point (see the header). -/
def jetCOf (e : Env K) (T : TimeJet2 K) : JetC K where
  toJet := jetOf e
  dK := fun i j k => e.D i (e.Kdown3 j k)
  dda := tsplit T.ddta fun i => tsplit (T.ddta i.succ) fun j => e.D i (e.D j e.alpha)
  ddb := tsplit T.ddtb fun i => tsplit (T.ddtb i.succ) fun j m => e.D i (e.D j (e.betaup3 m))
  ddgam := fun k l i j => e.D k (e.D l (e.gammadown3 i j))
  dttgam := T.dttgam

/-- the hypotheses of the curvature consistency theorems at one grid point. -/
structure CurvHyp (e : Env K) (T : TimeJet2 K) : Prop where
  asm : Assembled e
  hgd : e.gammadet = gammadet e
  hdet : gammadet e ≠ 0
  lc : (jetOf e).LeviCivita
  comm : ∀ i j x, e.D i (e.D j x) = e.D j (e.D i x)
  symT : ∀ i j, T.dttgam i j = T.dttgam j i
  /-- the cached `s_Riemann_down3` is the textbook Riemann tensor of γ (C05: `riem3_of_code`). -/
  riem3 : ∀ a b c d, e.s_Riemann_down3 a b c d = (jetCOf e T).riem3 a b c d

theorem smooth_jetCOf (e : Env K) (T : TimeJet2 K) (hg : Sym e.gammadown3) (hK : Sym e.Kdown3)
    (hc : ∀ i j x, e.D i (e.D j x) = e.D j (e.D i x)) (hT : ∀ i j, T.dttgam i j = T.dttgam j i) :
    (jetCOf e T).Smooth := by
  refine ⟨fun i j k => ?_, ?_, ?_, fun k l i j => ?_, fun k l i j => ?_, hT⟩
  · show e.D i (e.Kdown3 j k) = e.D i (e.Kdown3 k j); rw [hK j k]
  · refine fin4_ts (fin4_ts rfl fun j => ?_) fun i => fin4_ts ?_ fun j => ?_ <;>
      simp only [jetCOf, tsplit_0, tsplit_succ]
    exact hc i j _
  · refine fin4_ts (fin4_ts (fun _ => rfl) fun j m => ?_) fun i => fin4_ts (fun m => ?_) fun j m => ?_ <;>
      simp only [jetCOf, tsplit_0, tsplit_succ]
    exact hc i j _
  · exact hc k l _
  · show e.D k (e.D l (e.gammadown3 i j)) = e.D k (e.D l (e.gammadown3 j i)); rw [hg i j]

variable {e : Env K} {T : TimeJet2 K}

theorem CurvHyp.smooth (H : CurvHyp e T) : (jetCOf e T).Smooth :=
  smooth_jetCOf e T H.asm.hsym H.lc.symK H.comm H.symT

/-- the code's `gup4` is a left inverse of the assembled metric of the jet. -/
theorem CurvHyp.hinv (H : CurvHyp e T) (a a' : Fin 4) :
    ∑ d, gup4 e a d * (jetCOf e T).g4 d a' = delta a a' := by
  have : (jetCOf e T).g4 = e.gdown4 := (gdown4_is_metric3p1 e H.asm).symm
  rw [this]
  exact gup4_mul_gdown4 e H.asm H.hgd H.lc.ha H.hdet a a'

/-- the code's `gup4` is the 3+1 inverse metric. -/
theorem CurvHyp.gup (H : CurvHyp e T) (a b : Fin 4) : gup4 e a b = (jetOf e).gup3p1 a b :=
  Jet.gup_unique (jetOf e) H.lc (gup4 e) H.hinv a b

theorem CurvHyp.gup3p1 (H : CurvHyp e T) (hg : e.gup4 = gup4 e) : Gup3p1 e e.gup4 := by
  refine ⟨?_, fun i => ⟨?_, ?_⟩, fun i j => ?_⟩ <;> rw [hg, H.gup] <;>
    simp only [Jet.gup3p1, tsplit_0, tsplit_succ, jetOf]

/-! ### the blocks -/

theorem CurvHyp.Rssss_eq (H : CurvHyp e T) : RssssE e = (jetCOf e T).gaussB := by
  have : e.s_Riemann_down3 = (jetCOf e T).riem3 := by funext a b c d; exact H.riem3 a b c d
  unfold RssssE JetC.gaussB
  rw [this]; rfl

theorem CurvHyp.Rssst_eq (H : CurvHyp e T) : RssstE e = (jetCOf e T).codazziB := by
  unfold RssstE JetC.codazziB
  rw [H.Rssss_eq]; rfl

/-- **Gauss, code level**: the Gauss block the code evaluates is the spatial block of the textbook Riemann tensor. -/
theorem CurvHyp.gauss_code (H : CurvHyp e T) (i j k l : Fin 3) :
    RssssE e i j k l = (jetCOf e T).riem4 (gup4 e) i.succ j.succ k.succ l.succ := by
  rw [H.Rssss_eq]
  exact (JetC.gauss_identity (jetCOf e T) H.lc (gup4 e) H.hinv i j k l).symm

/-- **Codazzi, code level**. -/
theorem CurvHyp.codazzi_code (H : CurvHyp e T) (i j k : Fin 3) :
    RssstE e i j k = (jetCOf e T).riem4 (gup4 e) i.succ j.succ k.succ 0 := by
  rw [H.Rssst_eq]
  exact (JetC.codazzi_identity (jetCOf e T) H.lc H.smooth (gup4 e) H.hinv i j k).symm

/-- what the remaining cached entries of the Mainardi block must be: `gup4`, `Ktrace` produced by the code's
formulas, `s_Ricci_down3` the contraction `γ^{ac} R_abcd` of the cached `s_Riemann_down3`
(either alternative of `s_Ricci_down3` gives that: `C05.s_Ricci_down3_alt_raw`, `C05L.s_Ricci_down3_dflt_via_down`). -/
structure MainardiCached (e : Env K) : Prop where
  hgup : e.gup4 = gup4 e
  hKtr : e.Ktrace = Ktrace e
  hRic3 : ∀ i j, e.s_Ricci_down3 i j = ricciDown e.gammaup3 e.s_Riemann_down3 i j

theorem CurvHyp.Rstst_eq (H : CurvHyp e T) (M : MainardiCached e) (Ric4 : Fin 3 → Fin 3 → K) :
    RststE e (s_to_st__betaup3 e e.Kdown3) Ric4 = (jetCOf e T).mainardiB Ric4 := by
  have hu : Sym e.gammaup3 := fun i j => Jet.gamup_symm (jetOf e) H.lc i j
  have hKK : KK4 e.gup4 (s_to_st__betaup3 e e.Kdown3) = KK3 e.gammaup3 e.Kdown3 := by
    funext i j; exact KK4_eq_KK3 e (H.gup3p1 M.hgup) H.lc.symK hu H.lc.ha i j
  have hR : e.s_Ricci_down3 = ricciDown e.gammaup3 (jetCOf e T).riem3 := by
    funext i j
    rw [M.hRic3 i j]
    have : e.s_Riemann_down3 = (jetCOf e T).riem3 := by funext a b c d; exact H.riem3 a b c d
    rw [this]
  unfold RststE JetC.mainardiB
  rw [H.Rssss_eq, H.Rssst_eq, hKK, hR, M.hKtr, Ktrace_spec]
  rfl

theorem CurvHyp.Rstst_eq_noshift (H : CurvHyp e T) (M : MainardiCached e) (hb : e.betaup3 = fun _ => 0)
    (Ric4 : Fin 3 → Fin 3 → K) :
    RststE e (s_to_st__dflt e e.Kdown3) Ric4 = (jetCOf e T).mainardiB Ric4 := by
  have hu : Sym e.gammaup3 := fun i j => Jet.gamup_symm (jetOf e) H.lc i j
  have hKK : KK4 e.gup4 (s_to_st__dflt e e.Kdown3) = KK3 e.gammaup3 e.Kdown3 := by
    funext i j; exact KK4_eq_KK3_noshift e (H.gup3p1 M.hgup) hu hb i j
  have hR : e.s_Ricci_down3 = ricciDown e.gammaup3 (jetCOf e T).riem3 := by
    funext i j
    rw [M.hRic3 i j]
    have : e.s_Riemann_down3 = (jetCOf e T).riem3 := by funext a b c d; exact H.riem3 a b c d
    rw [this]
  unfold RststE JetC.mainardiB
  rw [H.Rssss_eq, H.Rssst_eq, hKK, hR, M.hKtr, Ktrace_spec]
  rfl

/-- **all 256 components, code level**: `populate(Gauss, Codazzi, Mainardi)` on the cached entries is the textbook
Riemann tensor when `Ric4` is the spatial block of the Ricci tensor of the assembled metric. -/
theorem CurvHyp.populate_code (H : CurvHyp e T) (M : MainardiCached e) (Ric4 : Fin 3 → Fin 3 → K)
    (hRic : ∀ i j : Fin 3, Ric4 i j = ricciDown (gup4 e) ((jetCOf e T).riem4 (gup4 e)) i.succ j.succ)
    (a b c d : Fin 4) :
    populate (RssssE e) (RssstE e) (RststE e (s_to_st__betaup3 e e.Kdown3) Ric4) a b c d
      = (jetCOf e T).riem4 (gup4 e) a b c d := by
  rw [JetC.riem4_is_populate (jetCOf e T) H.lc H.smooth (gup4 e) H.hinv Ric4 hRic a b c d,
    H.Rssss_eq, H.Rssst_eq, H.Rstst_eq M]

theorem CurvHyp.populate_code_noshift (H : CurvHyp e T) (M : MainardiCached e) (hb : e.betaup3 = fun _ => 0)
    (Ric4 : Fin 3 → Fin 3 → K)
    (hRic : ∀ i j : Fin 3, Ric4 i j = ricciDown (gup4 e) ((jetCOf e T).riem4 (gup4 e)) i.succ j.succ)
    (a b c d : Fin 4) :
    populate (RssssE e) (RssstE e) (RststE e (s_to_st__dflt e e.Kdown3) Ric4) a b c d
      = (jetCOf e T).riem4 (gup4 e) a b c d := by
  rw [JetC.riem4_is_populate (jetCOf e T) H.lc H.smooth (gup4 e) H.hinv Ric4 hRic a b c d,
    H.Rssss_eq, H.Rssst_eq, H.Rstst_eq_noshift M hb]

/-! ### discharging the hypotheses from the code's own formulas -/

/-- `Jet.LeviCivita` holds when connection and inverse metric are the code's (`C05L.MetricOK`): metric
compatibility is C05-T8 (`metric_compat_dd`, exact for every operator `e.D`). -/
theorem leviCivita_of_metricOK (e : Env K) (h : C05L.MetricOK e) (hK : Sym e.Kdown3) (ha : e.alpha ≠ 0)
    (h2 : (2 : K) ≠ 0) : (jetOf e).LeviCivita := by
  refine ⟨h.hs, hK, fun l i j => C05L.MetricOK.symG e h l i j, fun i k j => ?_, fun X k => ?_, ha, h2⟩
  · have := C05L.metric_compat_dd e h h2 i k j
    rw [s_covd_dd_spec] at this
    simp only [covdDD] at this
    show e.D i (e.gammadown3 k j)
      = ∑ l, e.gammadown3 l j * e.s_Gamma_udd3 l i k + ∑ l, e.gammadown3 k l * e.s_Gamma_udd3 l i j
    simp only [Fin.sum_univ_three] at this ⊢
    linear_combination this
  · show ∑ l, e.gammadown3 k l * ∑ n, e.gammaup3 l n * X n = X k
    have h0 := C05L.MetricOK.hr' e h 0 k; have h1 := C05L.MetricOK.hr' e h 1 k
    have h2' := C05L.MetricOK.hr' e h 2 k
    revert k
    cases3 <;>
      (intro h0 h1 h2'
       simp only [delta, Fin.sum_univ_three] at h0 h1 h2' ⊢
       simp at h0 h1 h2'
       linear_combination X 0 * h0 + X 1 * h1 + X 2 * h2')

/-- the textbook Riemann tensor of γ in the form of property C05 ([LL] (92.1) with the connection of the second
kind): `riemannDown γ⁻¹ ∂γ ∂∂γ = riemannDown2 D γ Γ`. -/
theorem riem3_eq_riemannDown2 (e : Env K) (T : TimeJet2 K) (lc : (jetOf e).LeviCivita) (a b c d : Fin 3) :
    (jetCOf e T).riem3 a b c d = Spec.Covd.riemannDown2 e.D e.gammadown3 e.s_Gamma_udd3 a b c d := by
  rw [JetC.riem3_eq (jetCOf e T) lc a b c d]
  simp only [Jet.c1_gam (jetCOf e T).toJet lc]
  simp only [JetC.S3, Spec.Covd.riemannDown2, jetCOf, jetOf, Fin.sum_univ_three]
  ring

/-- **`CurvHyp.riem3` from property C05**: with `s_Riemann_down3`, `s_Riemann_uddd3`, `s_Gamma_udd3` produced by the
code's formulas (`MetricOK`, `hR3`, `hRu`) and the product rule / commuting derivatives of `C05L.CurvRules`, the cached
`s_Riemann_down3` is the textbook Riemann tensor of γ. -/
theorem riem3_of_code (e : Env K) (T : TimeJet2 K) (h : C05L.MetricOK e) (h2 : (2 : K) ≠ 0)
    (hR3 : e.s_Riemann_down3 = s_Riemann_down3 e) (hRu : e.s_Riemann_uddd3 = s_Riemann_uddd3 e)
    (hc : C05L.CurvRules e) (lc : (jetOf e).LeviCivita) (a b c d : Fin 3) :
    e.s_Riemann_down3 a b c d = (jetCOf e T).riem3 a b c d := by
  rw [hR3, C05L.s_Riemann_down3_second e h h2 hRu hc a b c d, riem3_eq_riemannDown2 e T lc a b c d]

/-! ### Einstein's equations give the Ricci hypothesis -/

/-- `g^{ab} g_ab = 4`. -/
theorem CurvHyp.trace_g (H : CurvHyp e T) : trace (gup4 e) e.gdown4 = 4 := by
  have hs4 : Sym e.gdown4 := by rw [H.asm.hg4]; exact gdown4_symm e H.asm.hsym
  have hi := fun a => gup4_mul_gdown4 e H.asm H.hgd H.lc.ha H.hdet a a
  have e0 := hi 0; have e1 := hi 1; have e2 := hi 2; have e3 := hi 3
  have s10 := hs4 1 0; have s20 := hs4 2 0; have s30 := hs4 3 0
  have s21 := hs4 2 1; have s31 := hs4 3 1; have s32 := hs4 3 2
  simp [delta, Fin.sum_univ_four] at e0 e1 e2 e3
  simp only [trace, Fin.sum_univ_four, s10, s20, s30, s21, s31, s32] at e0 e1 e2 e3 ⊢
  linear_combination e0 + e1 + e2 + e3

/-- **on shell**: if the 2-jet solves Einstein's equations `G_ab + Λ g_ab = κ T_ab` with the supplied `Tdown4`
(`G`, `R_ab`, `R` of the textbook Riemann tensor of the assembled metric), then the code's `st_Ricci_down3`
(`Λγ_ij + κ(T_ij − ½ T γ_ij)`, `T = g^{ab}T_ab` with the cached `gup4`) is the spatial block of that Ricci tensor. -/
theorem CurvHyp.ricci_of_einstein (H : CurvHyp e T) (hgup : e.gup4 = gup4 e)
    (hR : e.st_Ricci_down3 = st_Ricci_down3__dflt e)
    (hE : ∀ a b, einstein (ricciDown (gup4 e) ((jetCOf e T).riem4 (gup4 e)))
        (trace (gup4 e) (ricciDown (gup4 e) ((jetCOf e T).riem4 (gup4 e)))) e.gdown4 a b
          + e.Lambda * e.gdown4 a b = e.kappa * e.Tdown4 a b) (i j : Fin 3) :
    e.st_Ricci_down3 i j = ricciDown (gup4 e) ((jetCOf e T).riem4 (gup4 e)) i.succ j.succ := by
  rw [Jet.ricci_of_einstein H.lc.two (gup4 e) e.gdown4 _ e.Tdown4 e.Lambda e.kappa H.trace_g hE i.succ j.succ,
    hR, Ricci3_dflt_spec, hgup]
  have hg : e.gdown4 i.succ j.succ = e.gammadown3 i j := by
    rw [H.asm.hg4]; exact (gdown4_layout e).2.2 i j
  simp only [ricciOfMatter, hg]

end AurelVerif.C04L
