/-
Lemmas/C04RiemSym.lean — algebraic symmetries of the textbook Riemann tensor `riemannDown`
(any dimension, any symmetric 2-jet), the symmetry of the 2-jet of the assembled metric, the fact
that a tensor with the Riemann symmetries is `populate` of its three 3+1 blocks, and the assembled
statement: ALL 256 components of the textbook Riemann tensor of the assembled 4-metric are
`populate(Gauss, Codazzi, Mainardi)` — the expression core.py evaluates — provided the `Ric4` entering
the Mainardi block is the spatial block of the Ricci tensor of that same Riemann tensor.
Layer B (consistency); nothing here mentions generated code.
-/
import AurelVerif.Lemmas.C04Codazzi
import AurelVerif.Lemmas.C04Mainardi

set_option linter.unusedSimpArgs false
set_option linter.unusedVariables false
set_option linter.unusedTactic false
set_option linter.unreachableTactic false

namespace AurelVerif.Spec.Curvature
open AurelVerif.Tensor AurelVerif.CoreTac AurelVerif.C04L

variable {K : Type} [Field K]

/-! ### symmetries of `riemannDown` -/

section generic
variable {n : Nat} (gi : Fin n → Fin n → K) (dg : Fin n → Fin n → Fin n → K)
  (ddg : Fin n → Fin n → Fin n → Fin n → K)

/-- `g^{ef} X_e Y_f = g^{ef} Y_e X_f` for a symmetric `g^{ef}`. -/
theorem quad_swap (hgi : ∀ a b, gi a b = gi b a) (X Y : Fin n → K) :
    ∑ e, ∑ f, gi e f * (X e * Y f) = ∑ e, ∑ f, gi e f * (Y e * X f) := by
  rw [Finset.sum_comm]
  exact Finset.sum_congr rfl fun e _ => Finset.sum_congr rfl fun f _ => by rw [hgi f e]; ring

theorem christoffel1_symm (hdg : ∀ c a b, dg c a b = dg c b a) (d b c : Fin n) :
    christoffel1 dg d b c = christoffel1 dg d c b := by
  simp only [christoffel1, hdg d b c]; ring

theorem riemannDown_split (a b c d : Fin n) :
    riemannDown gi dg ddg a b c d
      = (1 / 2) * (ddg b c a d + ddg a d b c - ddg a c b d - ddg b d a c)
        + (∑ e, ∑ f, gi e f * (christoffel1 dg e b c * christoffel1 dg f a d)
          - ∑ e, ∑ f, gi e f * (christoffel1 dg e b d * christoffel1 dg f a c)) := by
  simp only [riemannDown, mul_sub, Finset.sum_sub_distrib]

/-- the textbook tensor has the Riemann symmetries when the 2-jet is symmetric:
`g^{ab}`, `∂_c g_ab` symmetric in `ab`; `∂_c∂_d g_ab` symmetric in `cd` and in `ab`. -/
theorem riemannDown_sym (hgi : ∀ a b, gi a b = gi b a) (hdg : ∀ c a b, dg c a b = dg c b a)
    (hcd : ∀ c d a b, ddg c d a b = ddg d c a b) (hab : ∀ c d a b, ddg c d a b = ddg c d b a) :
    RiemannSym (riemannDown gi dg ddg) := by
  have hc := christoffel1_symm dg hdg
  refine ⟨fun a b c d => ?_, fun a b c d => ?_, fun a b c d => ?_, fun a c d => ?_, fun a b c => ?_⟩
  · rw [riemannDown_split, riemannDown_split,
      quad_swap gi hgi (fun e => christoffel1 dg e a c) (fun f => christoffel1 dg f b d),
      quad_swap gi hgi (fun e => christoffel1 dg e a d) (fun f => christoffel1 dg f b c)]
    ring
  · rw [riemannDown_split, riemannDown_split]; ring
  · rw [riemannDown_split, riemannDown_split,
      quad_swap gi hgi (fun e => christoffel1 dg e d a) (fun f => christoffel1 dg f c b)]
    simp only [hc _ d a, hc _ c b, hc _ d b, hc _ c a]
    rw [hcd d a c b, hab a d c b, hcd c b d a, hab b c d a, hcd c a d b, hab a c d b, hcd d b c a, hab b d c a]
    ring
  · rw [riemannDown_split,
      quad_swap gi hgi (fun e => christoffel1 dg e a c) (fun f => christoffel1 dg f a d)]
    ring
  · rw [riemannDown_split]; ring

end generic

/-! ### a tensor with the Riemann symmetries is `populate` of its blocks -/

theorem eq_populate_of_sym (R : Fin 4 → Fin 4 → Fin 4 → Fin 4 → K) (hR : RiemannSym R) : ∀ a b c d : Fin 4,
    R a b c d = populate (fun i j k l => R i.succ j.succ k.succ l.succ) (fun i j k => R i.succ j.succ k.succ 0)
      (fun i j => R i.succ 0 j.succ 0) a b c d := by
  refine fin4_ts (fin4_ts (fun c d => ?_) fun j => fin4_ts (fin4_ts ?_ fun l => ?_) fun k => fin4_ts ?_ fun l => ?_)
    fun i => fin4_ts (fin4_ts (fin4_ts ?_ fun l => ?_) fun k => fin4_ts ?_ fun l => ?_)
      fun j => fin4_ts (fin4_ts ?_ fun l => ?_) fun k => fin4_ts ?_ fun l => ?_ <;>
    simp only [populate, tsplit_0, tsplit_succ]
  · exact hR.diag12 0 c d
  · exact hR.diag34 0 j.succ 0
  · rw [hR.anti12 0 j.succ 0 l.succ, hR.anti34 j.succ 0 0 l.succ, neg_neg]
  · rw [hR.anti12 0 j.succ k.succ 0]
  · rw [hR.pair 0 j.succ k.succ l.succ, hR.anti34 k.succ l.succ 0 j.succ]
  · exact hR.diag34 i.succ 0 0
  · rw [hR.anti34 i.succ 0 0 l.succ]
  · rw [hR.pair i.succ 0 k.succ l.succ]
  · exact hR.diag34 i.succ j.succ 0
  · rw [hR.anti34 i.succ j.succ 0 l.succ]

namespace JetC
open AurelVerif.Spec.Curvature.Jet
variable (J : JetC K)

/-! ### the 2-jet of the assembled metric is symmetric -/

theorem d4gam_symm (h : J.LeviCivita) : ∀ (c : Fin 4) (i j : Fin 3), J.d4gam c i j = J.d4gam c j i := by
  refine fin4_ts (fun i j => ?_) fun k i j => ?_
  · simp only [d4gam, tsplit_0, dtgam, dtGamma, h.symK i j]; ring
  · simp only [d4gam, tsplit_succ]; exact dgam_symm J h k i j

theorem dg4_symm (h : J.LeviCivita) (c : Fin 4) : ∀ a b : Fin 4, J.dg4 c a b = J.dg4 c b a := by
  rw [dg4_eq]
  have hg := d4gam_symm J h c
  refine fin4_ts (fin4_ts rfl fun j => ?_) fun i => fin4_ts ?_ fun j => ?_ <;>
    simp only [dmetric3p1, tsplit_0, tsplit_succ]
  exact hg i j

theorem ddtgam_symm (h : J.LeviCivita) (hs : J.Smooth) (i j k : Fin 3) : J.ddtgam i j k = J.ddtgam i k j := by
  simp only [ddtgam, h.symK j k, hs.dK i j k]
  congr 1
  refine Finset.sum_congr rfl fun m _ => ?_
  rw [dgam_symm J h m j k, hs.ddgam_ij i m j k, dgam_symm J h i m k, dgam_symm J h i j m, h.symg m k, h.symg j m]
  ring

theorem dd4gam_ij (h : J.LeviCivita) (hs : J.Smooth) : ∀ (c d : Fin 4) (i j : Fin 3),
    J.dd4gam c d i j = J.dd4gam c d j i := by
  refine fin4_ts (fin4_ts (fun i j => ?_) fun l i j => ?_) fun k => fin4_ts (fun i j => ?_) fun l i j => ?_ <;>
    simp only [dd4gam, tsplit_0, tsplit_succ]
  · exact hs.dttgam i j
  · exact ddtgam_symm J h hs l i j
  · exact ddtgam_symm J h hs k i j
  · exact hs.ddgam_ij k l i j

theorem dd4gam_cd (hs : J.Smooth) : ∀ (c d : Fin 4), J.dd4gam c d = J.dd4gam d c := by
  refine fin4_ts (fin4_ts rfl fun l => ?_) fun k => fin4_ts ?_ fun l => ?_ <;>
    simp only [dd4gam, tsplit_0, tsplit_succ]
  funext i j; exact hs.ddgam_kl k l i j

theorem ddg4_ab (h : J.LeviCivita) (hs : J.Smooth) (c d : Fin 4) : ∀ a b : Fin 4, J.ddg4 c d a b = J.ddg4 c d b a := by
  have hg := dd4gam_ij J h hs c d
  refine fin4_ts (fin4_ts rfl fun j => ?_) fun i => fin4_ts ?_ fun j => ?_ <;>
    simp only [ddg4, ddmetric3p1, tsplit_0, tsplit_succ]
  exact hg i j

theorem ddg4_cd (h : J.LeviCivita) (hs : J.Smooth) (c d : Fin 4) : ∀ a b : Fin 4, J.ddg4 c d a b = J.ddg4 d c a b := by
  have e1 := dd4gam_cd J hs c d
  have e2 : J.dda c d = J.dda d c := hs.dda c d
  have e3 : J.ddb c d = J.ddb d c := funext fun m => hs.ddb c d m
  have g1 := d4gam_symm J h c
  have g2 := d4gam_symm J h d
  have g10 := h.symg 1 0; have g20 := h.symg 2 0; have g21 := h.symg 2 1
  have p10 := g1 1 0; have p20 := g1 2 0; have p21 := g1 2 1
  have q10 := g2 1 0; have q20 := g2 2 0; have q21 := g2 2 1
  refine fin4_ts (fin4_ts ?_ fun j => ?_) fun i => fin4_ts ?_ fun j => ?_ <;>
    simp only [ddg4, ddmetric3p1, tsplit_0, tsplit_succ, e1, e2, e3]
  · simp only [Fin.sum_univ_three, g10, g20, g21, p10, p20, p21, q10, q20, q21]; ring
  · exact Finset.sum_congr rfl fun k _ => by ring
  · exact Finset.sum_congr rfl fun k _ => by ring

/-- the textbook Riemann tensor of the assembled metric has the Riemann symmetries. -/
theorem riem4_sym (h : J.LeviCivita) (hs : J.Smooth) : RiemannSym (J.riem4 J.gup3p1) :=
  riemannDown_sym _ _ _ (gup3p1_symm J.toJet h) (fun c a b => dg4_symm J h c a b)
    (fun c d a b => ddg4_cd J h hs c d a b) (fun c d a b => ddg4_ab J h hs c d a b)

/-! ### all 256 components -/

/-- `K = γ^{kl} K_kl`. -/
def trK : K := ∑ k, ∑ l, J.gamup k l * J.Kd k l

/-- the three blocks as core.py evaluates them, on the jets: Gauss, Codazzi, Mainardi with the textbook `³R`. -/
def gaussB : Fin 3 → Fin 3 → Fin 3 → Fin 3 → K := gauss J.riem3 J.Kd
def codazziB : Fin 3 → Fin 3 → Fin 3 → K := codazzi J.alpha J.beta J.gaussB (J.covdK J.dK)
def mainardiB (Ric4 : Fin 3 → Fin 3 → K) : Fin 3 → Fin 3 → K :=
  mainardi J.alpha J.beta J.gaussB J.codazziB (ricciDown J.gamup J.riem3) (KK3 J.gamup J.Kd) J.Kd J.trK Ric4

/-- **Mainardi block of the textbook tensor** (on shell): if `Ric4` is the spatial block of the Ricci tensor of the
assembled metric, `R_itjt` is the coded expression. -/
theorem mainardi_identity (h : J.LeviCivita) (hs : J.Smooth) (gup : Fin 4 → Fin 4 → K)
    (hinv : ∀ a a', ∑ d, gup a d * J.g4 d a' = delta a a') (Ric4 : Fin 3 → Fin 3 → K)
    (hRic : ∀ i j : Fin 3, Ric4 i j = ricciDown gup (J.riem4 gup) i.succ j.succ) (i j : Fin 3) :
    J.riem4 gup i.succ 0 j.succ 0 = J.mainardiB Ric4 i j := by
  have hg : gup = J.gup3p1 := by funext a b; exact gup_unique J.toJet h gup hinv a b
  subst hg
  exact mainardi_block J.toJet h _ (riem4_sym J h hs) J.riem3 J.codazziB (gauss_gup3p1 J h)
    (codazzi_gup3p1 J h hs) Ric4 hRic i j

/-- **all 256 components**: the textbook Riemann tensor of the 4-metric assembled from (α, β, γ), with `∂_tγ`
from the kinematic relation, is `populate(Gauss, Codazzi, Mainardi)`. -/
theorem riem4_is_populate (h : J.LeviCivita) (hs : J.Smooth) (gup : Fin 4 → Fin 4 → K)
    (hinv : ∀ a a', ∑ d, gup a d * J.g4 d a' = delta a a') (Ric4 : Fin 3 → Fin 3 → K)
    (hRic : ∀ i j : Fin 3, Ric4 i j = ricciDown gup (J.riem4 gup) i.succ j.succ) (a b c d : Fin 4) :
    J.riem4 gup a b c d = populate J.gaussB J.codazziB (J.mainardiB Ric4) a b c d := by
  have hg : gup = J.gup3p1 := by funext a b; exact gup_unique J.toJet h gup hinv a b
  have hsym : RiemannSym (J.riem4 gup) := by rw [hg]; exact riem4_sym J h hs
  rw [eq_populate_of_sym (J.riem4 gup) hsym a b c d]
  congr 1
  · funext i j k l; exact gauss_identity J h gup hinv i j k l
  · funext i j k; exact codazzi_identity J h hs gup hinv i j k
  · funext i j; exact mainardi_identity J h hs gup hinv Ric4 hRic i j

end JetC

end AurelVerif.Spec.Curvature
