/-
Lemmas/C17DerivTac.lean — `deriv_build`: syntax-directed construction of a `HasDerivAt` proof for an
explicit real expression (sums, products, quotients, natural and real powers, exp, log, sqrt, sin, cos,
sinh, cosh of such), leaving the value of the derivative to unification; `hasderiv_auto` then closes
`HasDerivAt f v x` for a stated closed form `v` by `field_simp`/`ring`.  Side conditions (`≠ 0`, `0 <`)
are discharged from the local context.  Only a convenience: every proof it builds is a chain of
Mathlib's `HasDerivAt.*` lemmas checked by the kernel.
-/
import Mathlib.Analysis.SpecialFunctions.Trigonometric.Deriv
import Mathlib.Analysis.SpecialFunctions.Trigonometric.DerivHyp
import Mathlib.Analysis.SpecialFunctions.ExpDeriv
import Mathlib.Analysis.SpecialFunctions.Pow.Deriv
import Mathlib.Analysis.SpecialFunctions.Log.Deriv
import Mathlib.Analysis.SpecialFunctions.Sqrt
import Mathlib.Analysis.Calculus.Deriv.Mul
import Mathlib.Analysis.Calculus.Deriv.Pow
import Mathlib.Analysis.Calculus.Deriv.Add
import Mathlib.Analysis.Calculus.Deriv.Inv
import Mathlib.Tactic.Ring
import Mathlib.Tactic.FieldSimp
import Mathlib.Tactic.Positivity
import Mathlib.Tactic.NormNum

namespace AurelVerif.C17DerivTac

/-! real-valued, one-variable instances of Mathlib's derivative rules (so that `refine` needs no
type-class unification). -/
section
variable {c d : ℝ → ℝ} {c' d' x : ℝ}
theorem r_neg (hc : HasDerivAt c c' x) : HasDerivAt (fun y => -c y) (-c') x := hc.neg
theorem r_add (hc : HasDerivAt c c' x) (hd : HasDerivAt d d' x) : HasDerivAt (fun y => c y + d y) (c' + d') x := hc.add hd
theorem r_sub (hc : HasDerivAt c c' x) (hd : HasDerivAt d d' x) : HasDerivAt (fun y => c y - d y) (c' - d') x := hc.sub hd
theorem r_mul (hc : HasDerivAt c c' x) (hd : HasDerivAt d d' x) :
    HasDerivAt (fun y => c y * d y) (c' * d x + c x * d') x := hc.mul hd
theorem r_div_const (hc : HasDerivAt c c' x) (k : ℝ) : HasDerivAt (fun y => c y / k) (c' / k) x := hc.div_const k
theorem r_pow (hc : HasDerivAt c c' x) (n : ℕ) : HasDerivAt (fun y => c y ^ n) ((n:ℝ) * c x ^ (n - 1) * c') x := hc.pow n
theorem r_exp (hc : HasDerivAt c c' x) : HasDerivAt (fun y => Real.exp (c y)) (Real.exp (c x) * c') x := hc.exp
theorem r_sin (hc : HasDerivAt c c' x) : HasDerivAt (fun y => Real.sin (c y)) (Real.cos (c x) * c') x := hc.sin
theorem r_cos (hc : HasDerivAt c c' x) : HasDerivAt (fun y => Real.cos (c y)) (-Real.sin (c x) * c') x := hc.cos
theorem r_sinh (hc : HasDerivAt c c' x) : HasDerivAt (fun y => Real.sinh (c y)) (Real.cosh (c x) * c') x := hc.sinh
theorem r_cosh (hc : HasDerivAt c c' x) : HasDerivAt (fun y => Real.cosh (c y)) (Real.sinh (c x) * c') x := hc.cosh
theorem r_log (hc : HasDerivAt c c' x) (h : c x ≠ 0) : HasDerivAt (fun y => Real.log (c y)) (c' / c x) x := hc.log h
theorem r_sqrt (hc : HasDerivAt c c' x) (h : c x ≠ 0) :
    HasDerivAt (fun y => Real.sqrt (c y)) (c' / (2 * Real.sqrt (c x))) x := hc.sqrt h
theorem r_rpow_const (p : ℝ) (hc : HasDerivAt c c' x) (h : c x ≠ 0 ∨ 1 ≤ p) :
    HasDerivAt (fun y => c y ^ p) (c' * p * c x ^ (p - 1)) x := hc.rpow_const h
theorem r_div (hc : HasDerivAt c c' x) (hd : HasDerivAt d d' x) (h : d x ≠ 0) :
    HasDerivAt (fun y => c y / d y) ((c' * d x - c x * d') / d x ^ 2) x := hc.div hd h
theorem r_inv (hc : HasDerivAt c c' x) (h : c x ≠ 0) : HasDerivAt (fun y => (c y)⁻¹) (-c' / c x ^ 2) x := hc.inv h
theorem r_const (k : ℝ) : HasDerivAt (fun _ : ℝ => k) 0 x := hasDerivAt_const x k
theorem r_id : HasDerivAt (fun y : ℝ => y) 1 x := hasDerivAt_id' x
end

/-- discharge a side condition of a derivative rule from the context. -/
macro "deriv_side" : tactic =>
  `(tactic| first
    | assumption
    | exact ne_of_gt (by assumption)
    | exact Or.inl (by assumption)
    | exact Or.inl (ne_of_gt (by assumption))
    | positivity
    | (norm_num; done))

syntax "deriv_build" : tactic
macro_rules
  | `(tactic| deriv_build) => `(tactic| first
    | exact r_const _
    | exact r_id
    | assumption
    | (with_reducible apply r_neg; case hc => deriv_build)
    | (with_reducible apply r_sub; (case hc => deriv_build); (case hd => deriv_build))
    | (with_reducible apply r_add; (case hc => deriv_build); (case hd => deriv_build))
    | (with_reducible apply r_pow; case hc => deriv_build)
    | (with_reducible apply r_rpow_const; (case hc => deriv_build); (case h => deriv_side))
    | (with_reducible apply r_exp; case hc => deriv_build)
    | (with_reducible apply r_sin; case hc => deriv_build)
    | (with_reducible apply r_cos; case hc => deriv_build)
    | (with_reducible apply r_sinh; case hc => deriv_build)
    | (with_reducible apply r_cosh; case hc => deriv_build)
    | (with_reducible apply r_log; (case hc => deriv_build); (case h => deriv_side))
    | (with_reducible apply r_sqrt; (case hc => deriv_build); (case h => deriv_side))
    | (with_reducible apply r_div_const; case hc => deriv_build)
    | (with_reducible apply r_div; (case hc => deriv_build); (case hd => deriv_build); (case h => deriv_side))
    | (with_reducible apply r_inv; (case hc => deriv_build); (case h => deriv_side))
    | (with_reducible apply r_mul; (case hc => deriv_build); (case hd => deriv_build)))

/-- prove `HasDerivAt f v x` for an explicit `f` and a closed form `v`. -/
macro "hasderiv_auto" : tactic =>
  `(tactic| (apply HasDerivAt.congr_deriv
             (case h => deriv_build)
             (case h' =>
               (try simp only [Nat.cast_ofNat, Nat.cast_one, Nat.reduceSub, pow_one, mul_zero, zero_mul,
                 add_zero, zero_add, sub_zero, mul_one, one_mul])
               all_goals first | rfl | ring1 | (field_simp; done) | (field_simp; ring1))))

end AurelVerif.C17DerivTac
