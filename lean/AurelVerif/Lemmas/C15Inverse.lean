/-
Lemmas/C15Inverse.lean — what is needed from sympy's `Matrix.inv` / `Matrix.det`.

`gup` and `gdet` are computed by sympy.  The ONLY thing the theorems of C15
need about `gup` is the single matrix equation  `gdown · gup = 1`  (checked
symbolically by the oracle of tools/props/C15.py on every metric it runs):

  * `isMetric_of_right_inverse`: `g` symmetric and `g · gup = 1` give the full
    hypothesis `IsMetric g gup` (two-sided inverse) of every C15 theorem;
  * `right_inverse_unique`, `gup_eq_inv`: there is only one such `gup`, it is
    the matrix inverse;
  * `gup_symm_of_right_inverse`: it is symmetric;
  * the textbook determinant (Leibniz sum over permutations, `det_leibniz`)
    satisfies `det g · det gup = 1`, is non-zero, and Cramer's rule
    `det g · gup = adj g` holds (`det_mul_gup`), with the explicit 2×2 case.
-/
import Mathlib.LinearAlgebra.Matrix.NonsingularInverse
import AurelVerif.Lemmas.SymTensors

namespace AurelVerif.SymInverse
open AurelVerif.Spec.SymTensors AurelVerif.SymTensorLemmas
open scoped BigOperators

variable {K : Type} [Field K] {n : ℕ} {g gup : Fin n → Fin n → K}

/-- the equation the oracle checks: `gdown · gup = 1` -/
def RightInverse (g gup : Fin n → Fin n → K) : Prop :=
  ∀ i j, ∑ m, g i m * gup m j = if i = j then 1 else 0

theorem rightInverse_iff : RightInverse g gup ↔ (Matrix.of g) * (Matrix.of gup) = 1 := by
  constructor
  · intro h; ext i j; rw [Matrix.mul_apply, Matrix.one_apply]; exact h i j
  · intro h i j
    have := congrFun (congrFun h i) j
    rw [Matrix.mul_apply, Matrix.one_apply] at this
    exact this

theorem left_of_right (h : RightInverse g gup) : RightInverse gup g :=
  rightInverse_iff.mpr (mul_eq_one_comm.mp (rightInverse_iff.mp h))

/-- trust in `Matrix.inv` reduced to one equation -/
theorem isMetric_of_right_inverse (hs : ∀ i j, g i j = g j i) (h : RightInverse g gup) : IsMetric g gup :=
  ⟨hs, h, left_of_right h⟩

theorem right_inverse_unique {gup' : Fin n → Fin n → K} (h : RightInverse g gup) (h' : RightInverse g gup') :
    gup = gup' := by
  have e1 := rightInverse_iff.mp (left_of_right h)
  have e2 := rightInverse_iff.mp h'
  have : Matrix.of gup = Matrix.of gup' := by
    calc Matrix.of gup = Matrix.of gup * (Matrix.of g * Matrix.of gup') := by rw [e2, mul_one]
      _ = (Matrix.of gup * Matrix.of g) * Matrix.of gup' := by rw [mul_assoc]
      _ = Matrix.of gup' := by rw [e1, one_mul]
  exact this

theorem gup_eq_inv (h : RightInverse g gup) : Matrix.of gup = (Matrix.of g)⁻¹ :=
  (Matrix.inv_eq_right_inv (rightInverse_iff.mp h)).symm

theorem gup_symm_of_right_inverse (hs : ∀ i j, g i j = g j i) (h : RightInverse g gup) (i j : Fin n) :
    gup i j = gup j i :=
  gup_symm (isMetric_of_right_inverse hs h) i j

/-- the textbook determinant: `Σ_σ sign σ Π_i g_{σ i, i}` -/
theorem det_leibniz (g : Fin n → Fin n → K) :
    (Matrix.of g).det = ∑ σ : Equiv.Perm (Fin n), (Equiv.Perm.sign σ : ℤ) • ∏ i, g (σ i) i :=
  Matrix.det_apply (Matrix.of g)

theorem det_mul_det_gup (h : RightInverse g gup) : (Matrix.of g).det * (Matrix.of gup).det = 1 := by
  rw [← Matrix.det_mul, rightInverse_iff.mp h, Matrix.det_one]

theorem det_ne_zero (h : RightInverse g gup) : (Matrix.of g).det ≠ 0 := by
  intro h0
  have := det_mul_det_gup h
  rw [h0, zero_mul] at this
  exact zero_ne_one this

/-- Cramer's rule: `det g · g^{ij} = adj(g)_{ij}` -/
theorem det_mul_gup (h : RightInverse g gup) (i j : Fin n) :
    (Matrix.of g).det * gup i j = (Matrix.of g).adjugate i j := by
  have e : Matrix.of gup = (Matrix.of g)⁻¹ := gup_eq_inv h
  have hd := det_ne_zero h
  have : gup i j = ((Matrix.of g)⁻¹) i j := by rw [← e]; rfl
  rw [this, Matrix.inv_def, Ring.inverse_eq_inv', Matrix.smul_apply, smul_eq_mul, ← mul_assoc,
    mul_inv_cancel₀ hd, one_mul]

/-- the 2×2 case written out: `det = g₀₀ g₁₁ − g₀₁ g₁₀` and `gup = adj / det` -/
theorem det_two (g : Fin 2 → Fin 2 → K) : (Matrix.of g).det = g 0 0 * g 1 1 - g 0 1 * g 1 0 :=
  Matrix.det_fin_two (Matrix.of g)

theorem det_three (g : Fin 3 → Fin 3 → K) : (Matrix.of g).det
    = g 0 0 * g 1 1 * g 2 2 - g 0 0 * g 1 2 * g 2 1 - g 0 1 * g 1 0 * g 2 2
      + g 0 1 * g 1 2 * g 2 0 + g 0 2 * g 1 0 * g 2 1 - g 0 2 * g 1 1 * g 2 0 :=
  Matrix.det_fin_three (Matrix.of g)

end AurelVerif.SymInverse
