/-
Lemmas/C04Gauss.lean — Layer B (consistency): the GAUSS relation as an off-shell identity.

The spatial block `R_ijkl` of the textbook Riemann tensor (`riemannDown`, [LL] (92.1)) of the
4-metric assembled from (α, β, γ) equals `³R_ijkl + K_ik K_jl − K_il K_jk`, with `³R` the same
textbook formula for γ, when `∂_t γ_ij` is given by the kinematic relation
`∂_t γ_ij = −2αK_ij + D_iβ_j + D_jβ_i` and the derivatives of `g_ti` by the product rule
(`Jet.dg4`), for a torsion-free metric-compatible `Gam3`, `gamup = γ⁻¹`, `α ≠ 0`, `2 ≠ 0`
(`Jet.LeviCivita`).  Nothing here mentions generated code.

Derivation: the second-derivative part is literally the 3-D one; for the quadratic part
`g^{ef} X_e Y_f = γ^{mn} X_m Y_n − (X_0 − β^m X_m)(Y_0 − β^n Y_n)/α²` and
`Γ_{0|jk} − β^m Γ_{m|jk} = αK_jk`.
-/
import AurelVerif.Lemmas.C04Jet2

set_option linter.unusedSimpArgs false
set_option linter.unusedVariables false
set_option linter.unusedTactic false
set_option linter.unreachableTactic false

namespace AurelVerif.Spec.Curvature.JetC
open AurelVerif.Tensor AurelVerif.CoreTac AurelVerif.C04L AurelVerif.Spec.Curvature.Jet

variable {K : Type} [Field K] (J : JetC K)

local notation "Γ₁" => christoffel1 J.dg4
local notation "γΓ" => christoffel1 J.dgam

/-- `∂_b∂_c g_ad` of the assembled metric with all four indices spatial is `∂_b∂_c γ_ad`. -/
theorem ddg4_ssss (b c a d : Fin 3) : J.ddg4 b.succ c.succ a.succ d.succ = J.ddgam b c a d := by
  simp only [ddg4, ddmetric3p1, dd4gam, tsplit_succ]

/-- `g^{ef} Γ_{e|jk} Γ_{f|il} = γ^{mn} ³Γ_{m|jk} ³Γ_{n|il} − K_jk K_il`. -/
theorem quad_ss_ss (h : J.LeviCivita) (j k i l : Fin 3) :
    ∑ e, ∑ f, J.gup3p1 e f * (Γ₁ e j.succ k.succ * Γ₁ f i.succ l.succ)
      = ∑ m, ∑ n, J.gamup m n * (γΓ m j k * γΓ n i l) - J.Kd j k * J.Kd i l := by
  have ha := h.ha
  rw [gup3p1_contract]
  simp only [c1_sss, c1_0ss J.toJet h]
  field_simp
  ring

/-- **Gauss** (off-shell): `R_ijkl = ³R_ijkl + K_ik K_jl − K_il K_jk` for the textbook Riemann tensor of the
assembled 4-metric with the 3+1 inverse metric. -/
theorem gauss_gup3p1 (h : J.LeviCivita) (i j k l : Fin 3) :
    J.riem4 J.gup3p1 i.succ j.succ k.succ l.succ = gauss J.riem3 J.Kd i j k l := by
  unfold riem4 riem3 riemannDown gauss
  simp only [ddg4_ssss, mul_sub, Finset.sum_sub_distrib]
  rw [quad_ss_ss J h j k i l, quad_ss_ss J h j l i k]
  ring

/-- **Gauss** for any left inverse `gup` of the assembled metric. -/
theorem gauss_identity (h : J.LeviCivita) (gup : Fin 4 → Fin 4 → K)
    (hinv : ∀ a a', ∑ d, gup a d * J.g4 d a' = delta a a') (i j k l : Fin 3) :
    J.riem4 gup i.succ j.succ k.succ l.succ = gauss J.riem3 J.Kd i j k l := by
  have hg : gup = J.gup3p1 := by funext a b; exact gup_unique J.toJet h gup hinv a b
  rw [hg]; exact gauss_gup3p1 J h i j k l

end AurelVerif.Spec.Curvature.JetC
