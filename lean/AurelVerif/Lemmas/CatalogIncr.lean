/-
Lemmas/CatalogIncr.lean — T3/T4: `iterations()` called incrementally equals one
fresh scan; `get_content` cached = scanned.  Core Lean only.
-/
import AurelVerif.Lemmas.CatalogParse

set_option linter.unusedSimpArgs false
set_option linter.unusedVariables false

namespace AurelVerif.CatalogLemmas
open AurelVerif.Catalog

/-! ## restarts_done -/

def restartNbrs (ls : List Line) : List Int :=
  ls.filterMap fun l => match l with | .restart n => some (n : Int) | _ => none

theorem restart_marker_iff (l : Line) :
    mRestart.isPrefixOf (printLine l) = (match l with | .restart _ => true | _ => false) := by
  cases l with
  | restart n => exact isPrefixOf_append_self _ _
  | vars l => simp [printLine, mRestart, mVars, List.isPrefixOf]
  | noData p => simp [printLine, mRestart, sNoData, List.isPrefixOf]
  | reading p => simp [printLine, mRestart, sReading, List.isPrefixOf]
  | its a b => simp [printLine, mRestart, sItEq, List.isPrefixOf]
  | arange rl a b d => simp [printLine, mRestart, mRl, List.isPrefixOf]
  | single rl x => simp [printLine, mRestart, mRl, List.isPrefixOf]
  | chk l => simp [printLine, mRestart, mChkColon, mChk, List.isPrefixOf]

theorem restartsDone_printLines (ls : List Line) (hok : ∀ l ∈ ls, LineOK l) :
    restartsDone (printLines ls) = .ok (restartNbrs ls) := by
  unfold restartsDone
  rw [split_lines ls hok]
  have hempty : mRestart.isPrefixOf ([] : Str) = false := by decide
  simp only [List.filter_append, List.filter_cons, hempty, Bool.false_eq_true, if_false, List.filter_nil,
    List.append_nil]
  clear hok
  induction ls with
  | nil => rfl
  | cons l ls ih =>
    simp only [List.map_cons, List.filter_cons, restart_marker_iff l]
    cases l with
    | restart n =>
      have h2 : split mRestart (printLine (.restart n)) = [[], toDec n] :=
        split_lit_prefix (c := 'r') (by decide) (not_mem_of_isDig_false (by decide) n)
      simp only [if_true, List.mapM_cons, h2, idx_one, ebind_ok, pyIntE_toDec, ih, restartNbrs,
        List.filterMap_cons]
      rfl
    | _ => simpa [restartNbrs] using ih

/-! ## dictionaries -/

theorem dhas_append_single {κ ν : Type} [BEq κ] (d : List (κ × ν)) (k k' : κ) (v : ν) :
    dhas (d ++ [(k, v)]) k' = (dhas d k' || k == k') := by
  simp [dhas, List.any_append]

theorem dset_of_not_has {κ ν : Type} [BEq κ] (d : List (κ × ν)) (k : κ) (v : ν) (h : dhas d k = false) :
    dset d k v = d ++ [(k, v)] := by
  simp [dset, h]

theorem dget_append_single {κ ν : Type} [BEq κ] [LawfulBEq κ] (d : List (κ × ν)) (k k' : κ) (v : ν) :
    dget (d ++ [(k, v)]) k' = match dget d k' with
      | some x => some x
      | none => if k == k' then some v else none := by
  induction d with
  | nil => simp [dget, List.find?]
  | cons a d ih =>
    simp only [dget, List.cons_append, List.find?] at ih ⊢
    split
    · simp
    · exact ih

theorem dget_none_of_not_has {κ ν : Type} [BEq κ] (d : List (κ × ν)) (k : κ) (h : dhas d k = false) :
    dget d k = none := by
  induction d with
  | nil => rfl
  | cons a d ih =>
    simp only [dhas, List.any_cons, Bool.or_eq_false_iff] at h
    simp only [dget, List.find?, h.1]
    exact ih (by simpa [dhas] using h.2)

theorem dget_dset_self {κ ν : Type} [BEq κ] [LawfulBEq κ] (d : List (κ × ν)) (k : κ) (v : ν) :
    dget (dset d k v) k = some v := by
  unfold dset
  split
  · rename_i h
    induction d with
    | nil => simp [dhas] at h
    | cons a d ih =>
      simp only [List.map_cons, dget, List.find?]
      by_cases ha : (a.1 == k) = true
      · simp [ha]
      · have ha' : (a.1 == k) = false := by simpa using ha
        simp only [ha', Bool.false_eq_true, if_false]
        have : dhas d k = true := by simpa [dhas, ha'] using h
        exact ih this
  · rename_i h
    have h' : dhas d k = false := by simpa using h
    rw [dget_append_single, dget_none_of_not_has d k h']
    simp

theorem dget_map_ne {κ ν : Type} [BEq κ] [LawfulBEq κ] (d : List (κ × ν)) (k k' : κ) (v : ν) (hne : k ≠ k') :
    dget (d.map fun kv => if kv.1 == k then (k, v) else kv) k' = dget d k' := by
  have hne' : (k == k') = false := by simpa using hne
  induction d with
  | nil => rfl
  | cons a d ih =>
    simp only [dget] at ih
    simp only [List.map_cons, dget, List.find?]
    by_cases ha : (a.1 == k) = true
    · have : a.1 = k := by simpa using ha
      have h2 : (a.1 == k') = false := by rw [this]; exact hne'
      simp only [ha, if_true, hne', h2]
      exact ih
    · have ha' : (a.1 == k) = false := by simpa using ha
      simp only [ha', Bool.false_eq_true, if_false]
      split
      · rfl
      · exact ih

theorem dget_dset_ne {κ ν : Type} [BEq κ] [LawfulBEq κ] (d : List (κ × ν)) (k k' : κ) (v : ν) (hne : k ≠ k') :
    dget (dset d k v) k' = dget d k' := by
  have hne' : (k == k') = false := by simpa using hne
  unfold dset
  split
  · exact dget_map_ne d k k' v hne
  · rw [dget_append_single]
    simp [hne']
    cases dget d k' <;> rfl

theorem nodup_map_inj_on {α β : Type} (f : α → β) : ∀ (l : List α), l.Nodup →
    (∀ a ∈ l, ∀ b ∈ l, f a = f b → a = b) → (l.map f).Nodup := by
  intro l
  induction l with
  | nil => intro _ _; simp
  | cons x l ih =>
    intro hnd hinj
    rw [List.nodup_cons] at hnd
    simp only [List.map_cons, List.nodup_cons]
    refine ⟨?_, ih hnd.2 (fun a ha b hb => hinj a (List.mem_cons_of_mem _ ha) b (List.mem_cons_of_mem _ hb))⟩
    intro hm
    obtain ⟨y, hy, hfy⟩ := List.mem_map.mp hm
    have := hinj y (List.mem_cons_of_mem _ hy) x (List.mem_cons_self ..) hfy
    subst this
    exact hnd.1 hy

/-! ## T4: cache -/

theorem split_join_comma : ∀ (k : List Str), k ≠ [] → (∀ v ∈ k, ',' ∉ v) →
    split [','] (joinSep [','] k) = k := by
  intro k
  induction k with
  | nil => intro h; exact absurd rfl h
  | cons x k ih =>
    intro _ hk
    have hx := hk x (List.mem_cons_self ..)
    cases k with
    | nil => simpa [joinSep] using split1_none hx
    | cons y r =>
      have : joinSep [','] (x :: y :: r) = x ++ ',' :: joinSep [','] (y :: r) := by
        simp [joinSep_cons_cons]
      rw [this, split1_first _ hx, ih (by simp) (fun v hv => hk v (List.mem_cons_of_mem _ hv))]

def keysOK (vf : VarsAndFiles) : Prop :=
  (vf.map (·.1)).Nodup ∧ ∀ kv ∈ vf, kv.1 ≠ [] ∧ ∀ v ∈ kv.1, ',' ∉ v

/-- inserting pairwise distinct keys into a dictionary appends them in order -/
theorem foldl_dset_distinct {κ κ' ν : Type} [BEq κ'] [LawfulBEq κ'] (g : κ → κ') :
    ∀ (l : List (κ × ν)) (acc : List (κ' × ν)), ((acc.map (·.1)) ++ l.map (fun kv => g kv.1)).Nodup →
      l.foldl (fun d kv => dset d (g kv.1) kv.2) acc = acc ++ l.map (fun kv => (g kv.1, kv.2)) := by
  intro l
  induction l with
  | nil => intro acc _; simp
  | cons kv l ih =>
    intro acc hnd
    have hnot : dhas acc (g kv.1) = false := by
      have := (List.nodup_append.mp hnd).2.2
      cases h : dhas acc (g kv.1) with
      | false => rfl
      | true =>
        simp only [dhas, List.any_eq_true, beq_iff_eq] at h
        obtain ⟨x, hx, hxe⟩ := h
        exact absurd hxe (this x.1 (List.mem_map_of_mem hx) (g kv.1) (by simp))
    simp only [List.foldl_cons, dset_of_not_has acc _ _ hnot]
    rw [ih]
    · simp
    · simpa [List.append_assoc] using hnd

theorem content_roundtrip (vf : VarsAndFiles) (h : keysOK vf) : fromContentData (toContentData vf) = vf := by
  obtain ⟨hnd, hk⟩ := h
  have hrt : ∀ kv ∈ vf, split [','] (joinSep [','] kv.1) = kv.1 :=
    fun kv hkv => split_join_comma kv.1 (hk kv hkv).1 (hk kv hkv).2
  -- joined keys are distinct because splitting recovers the tuple
  have hnd' : (vf.map (fun kv => joinSep [','] kv.1)).Nodup := by
    have : vf.map (fun kv => joinSep [','] kv.1) = (vf.map (·.1)).map (joinSep [',']) := by simp
    rw [this]
    refine nodup_map_inj_on _ _ hnd ?_
    intro a ha b hb hab
    obtain ⟨kva, hkva, rfl⟩ := List.mem_map.mp ha
    obtain ⟨kvb, hkvb, rfl⟩ := List.mem_map.mp hb
    rw [← hrt kva hkva, ← hrt kvb hkvb, hab]
  have h1 : toContentData vf = vf.map (fun kv => (joinSep [','] kv.1, kv.2)) := by
    have := foldl_dset_distinct (ν := List Str) (joinSep [',']) vf [] (by simpa using hnd')
    simpa [toContentData, strJoin] using this
  rw [h1]
  have h2 : ((vf.map (fun kv => (joinSep [','] kv.1, kv.2))).map (fun kv => split [','] kv.1)).Nodup := by
    have : (vf.map (fun kv => (joinSep [','] kv.1, kv.2))).map (fun kv => split [','] kv.1) = vf.map (·.1) := by
      rw [List.map_map]
      exact List.map_congr_left (fun kv hkv => hrt kv hkv)
    rw [this]; exact hnd
  have := foldl_dset_distinct (ν := List Str) (split [',']) (vf.map (fun kv => (joinSep [','] kv.1, kv.2))) []
    (by simpa using h2)
  simp only [fromContentData, this, List.nil_append, List.map_map]
  calc _ = vf.map id := List.map_congr_left (fun kv hkv => by simp [hrt kv hkv])
    _ = vf := by simp

/-! ## T3: incremental = fresh -/

def scanOf (T : Tables) (S : Sim) (r : Nat) : VarsAndFiles :=
  scanContent T (restartPath S.simpath S.simname r) (filesOf S r)

/-- every content.txt present holds what a scan of its restart writes -/
def CacheOK (scn : Nat → VarsAndFiles) (fs : FS) : Prop :=
  ∀ r cd, dget fs.caches r = some cd → cd = toContentData (scn r)

/-- Per-restart determinism of one directory snapshot: scanning restart `r`
gives `scn r` (no variable name with a comma), and processing it writes the
lines `blk r` without raising, whatever is left over from the previous loop
iteration. -/
structure Stable (T : Tables) (S : Sim) (scn : Nat → VarsAndFiles) (blk : Nat → List Line) : Prop where
  scan : ∀ r dir, S.restarts.find? (fun d => d.nbr == r) = some dir → scanOf T S r = scn r
  keys : ∀ r, keysOK (scn r)
  proc : ∀ r dir, S.restarts.find? (fun d => d.nbr == r) = some dir → ∀ stale,
    (processRestart T S dir (scn r) stale).lines = blk r ∧ (processRestart T S dir (scn r) stale).err = none
  blk_head : ∀ r, ∃ rest, blk r = .restart r :: rest
  blk_ok : ∀ r, ∀ l ∈ blk r, LineOK l
  blk_one : ∀ r, restartNbrs (blk r) = [(r : Int)]
  /-- every directory entry matching `^output-(\d+)$` is a restart directory that exists -/
  found : ∀ r ∈ discover S.entries, ∃ dir, S.restarts.find? (fun d => d.nbr == r) = some dir

def blocks (blk : Nat → List Line) (rs : List Nat) : List Line := (rs.map blk).flatten

theorem getContent_spec {T : Tables} {S : Sim} {scn : Nat → VarsAndFiles} {blk : Nat → List Line}
    (hS : Stable T S scn blk) (r : Nat) (dir : RestartDir)
    (hf : S.restarts.find? (fun d => d.nbr == r) = some dir) (fs : FS) (hc : CacheOK scn fs) :
    (getContent T S r false fs).2 = scn r ∧ (getContent T S r false fs).1.itfile = fs.itfile ∧
      CacheOK scn (getContent T S r false fs).1 := by
  have hscan := hS.scan r dir hf
  unfold getContent
  simp only [Bool.false_eq_true, if_false]
  cases hcache : dget fs.caches r with
  | some cd =>
    have := hc r cd hcache
    subst this
    exact ⟨content_roundtrip _ (hS.keys r), rfl, hc⟩
  | none =>
    have e : scanContent T (restartPath S.simpath S.simname r) (filesOf S r) = scn r := hscan
    refine ⟨e, rfl, ?_⟩
    simp only [e]
    intro r' cd' h
    by_cases hr : r = r'
    · subst hr
      rw [dget_dset_self] at h
      injection h with h; rw [← h]
    · rw [dget_dset_ne _ _ _ _ hr] at h
      exact hc r' cd' h

theorem printLines_append (a b : List Line) : printLines (a ++ b) = printLines a ++ printLines b := by
  simp [printLines]

theorem loop_spec {T : Tables} {S : Sim} {scn : Nat → VarsAndFiles} {blk : Nat → List Line}
    (hS : Stable T S scn blk) :
    ∀ (rs : List Nat), (∀ r ∈ rs, ∃ dir, S.restarts.find? (fun d => d.nbr == r) = some dir) →
    ∀ (ls : LoopState) (txt : Str), ls.err = none → ls.fs.itfile = some txt → CacheOK scn ls.fs →
      (rs.foldl (loopStep T S) ls).err = none ∧
      (rs.foldl (loopStep T S) ls).fs.itfile = some (txt ++ printLines (blocks blk rs)) ∧
      CacheOK scn (rs.foldl (loopStep T S) ls).fs ∧
      (rs.foldl (loopStep T S) ls).st = (blocks blk rs).foldl applyLine ls.st := by
  intro rs
  induction rs with
  | nil => intro _ ls txt he hf hc; simp [blocks, printLines, he, hf, hc]
  | cons r rs ih =>
    intro hfound ls txt he hf hc
    obtain ⟨dir, hdir⟩ := hfound r (List.mem_cons_self ..)
    obtain ⟨g1, g2, g3⟩ := getContent_spec hS r dir hdir ls.fs hc
    obtain ⟨p1, p2⟩ := hS.proc r dir hdir ls.stale
    have hstep : loopStep T S ls r =
        { fs := { (getContent T S r false ls.fs).1 with itfile := some (txt ++ printLines (blk r)) },
          st := (blk r).foldl applyLine ls.st,
          stale := (processRestart T S dir (scn r) ls.stale).stale, err := none } := by
      simp only [loopStep, he, hdir, g1, g2, hf, p1, p2, Option.getD_some]
    have := ih (fun r' hr' => hfound r' (List.mem_cons_of_mem _ hr')) (loopStep T S ls r)
      (txt ++ printLines (blk r)) (by rw [hstep]) (by rw [hstep]) (by
        rw [hstep]; intro r' cd' h; exact g3 r' cd' h)
    obtain ⟨q1, q2, q3, q4⟩ := this
    refine ⟨by simpa using q1, ?_, by simpa using q3, ?_⟩
    · simp only [List.foldl_cons, q2, blocks, List.map_cons, List.flatten_cons, printLines_append,
        List.append_assoc]
    · simp only [List.foldl_cons, q4, blocks, List.map_cons, List.flatten_cons, List.foldl_append]
      rw [hstep]

theorem mem_insertBy {α : Type} (le : α → α → Bool) (x y : α) : ∀ l : List α, y ∈ insertBy le x l ↔ y = x ∨ y ∈ l := by
  intro l
  induction l with
  | nil => simp [insertBy]
  | cons a l ih =>
    simp only [insertBy]
    split
    · simp
    · simp only [List.mem_cons, ih]
      constructor
      · rintro (h | h | h)
        · exact Or.inr (Or.inl h)
        · exact Or.inl h
        · exact Or.inr (Or.inr h)
      · rintro (h | h | h)
        · exact Or.inr (Or.inl h)
        · exact Or.inl h
        · exact Or.inr (Or.inr h)

theorem mem_isort {α : Type} (le : α → α → Bool) (y : α) : ∀ l : List α, y ∈ isort le l ↔ y ∈ l := by
  intro l
  induction l with
  | nil => simp [isort]
  | cons a l ih =>
    have : isort le (a :: l) = insertBy le a (isort le l) := rfl
    rw [this, mem_insertBy, ih]; simp

theorem mem_of_mem_dropLast' {α : Type} {x : α} : ∀ {l : List α}, x ∈ l.dropLast → x ∈ l := by
  intro l
  induction l with
  | nil => simp
  | cons a l ih =>
    cases l with
    | nil => simp
    | cons b r =>
      intro h
      simp only [List.dropLast_cons_cons, List.mem_cons] at h
      rcases h with h | h
      · exact List.mem_cons.mpr (Or.inl h)
      · exact List.mem_cons_of_mem _ (ih h)

theorem todo_found (S : Sim) (skip : Bool) (done : List Int)
    (hf : ∀ r ∈ discover S.entries, ∃ dir, S.restarts.find? (fun d => d.nbr == r) = some dir) :
    ∀ r ∈ todo S skip done, ∃ dir, S.restarts.find? (fun d => d.nbr == r) = some dir := by
  intro r hr
  have h1 : r ∈ sortNat (discover S.entries) := by
    unfold todo at hr
    have := (List.mem_filter.mp hr).1
    cases skip with
    | false => simpa using this
    | true => exact mem_of_mem_dropLast' (by simpa using this)
  exact hf r ((mem_isort _ r _).mp h1)

theorem blocks_append (blk : Nat → List Line) (a b : List Nat) : blocks blk (a ++ b) = blocks blk a ++ blocks blk b := by
  simp [blocks]

theorem restartNbrs_append (a b : List Line) : restartNbrs (a ++ b) = restartNbrs a ++ restartNbrs b := by
  simp [restartNbrs, List.filterMap_append]

theorem restartNbrs_blocks {T : Tables} {S : Sim} {scn : Nat → VarsAndFiles} {blk : Nat → List Line}
    (hS : Stable T S scn blk) (P : List Nat) : restartNbrs (blocks blk P) = P.map fun (n : Nat) => (n : Int) := by
  induction P with
  | nil => rfl
  | cons r P ih =>
    have : blocks blk (r :: P) = blk r ++ blocks blk P := by simp [blocks]
    rw [this, restartNbrs_append, hS.blk_one r, ih]; rfl

theorem blocks_ok {T : Tables} {S : Sim} {scn : Nat → VarsAndFiles} {blk : Nat → List Line}
    (hS : Stable T S scn blk) (P : List Nat) : ∀ l ∈ blocks blk P, LineOK l := by
  intro l hl
  simp only [blocks, List.mem_flatten, List.mem_map] at hl
  obtain ⟨_, ⟨r, _, rfl⟩, h⟩ := hl
  exact hS.blk_ok r l h

theorem blocks_started {T : Tables} {S : Sim} {scn : Nat → VarsAndFiles} {blk : Nat → List Line}
    (hS : Stable T S scn blk) (P : List Nat) :
    blocks blk P = [] ∨ ∃ n rest, blocks blk P = .restart n :: rest := by
  cases P with
  | nil => exact Or.inl rfl
  | cons r P =>
    obtain ⟨rest, h⟩ := hS.blk_head r
    exact Or.inr ⟨r, rest ++ blocks blk P, by simp [blocks, h]⟩

/-- the `restart_nbr` left over from parsing is irrelevant: new lines start with a restart line -/
theorem foldl_started (c : Cat) (x y : Option Int) (N : List Line)
    (hN : N = [] ∨ ∃ n rest, N = .restart n :: rest) :
    (N.foldl applyLine (c, x)).1 = (N.foldl applyLine (c, y)).1 := by
  rcases hN with h | ⟨n, rest, h⟩
  · subst h; rfl
  · subst h; rfl

theorem catOf_append (B N : List Line) (hN : N = [] ∨ ∃ n rest, N = .restart n :: rest) :
    (N.foldl applyLine (catOf B, none)).1 = catOf (B ++ N) := by
  unfold catOf
  rw [List.foldl_append]
  exact foldl_started _ _ _ N hN

/-- state of the file system after cataloguing the restarts `P` in this order -/
structure Inv (scn : Nat → VarsAndFiles) (blk : Nat → List Line) (fs : FS) (P : List Nat) : Prop where
  file : (fs.itfile = none ∧ P = []) ∨ fs.itfile = some (printLines (blocks blk P))
  cache : CacheOK scn fs

/-- what `iterations()` returns once the file holds the blocks of `P` -/
def resultOf (blk : Nat → List Line) (P : List Nat) : Except Err Result :=
  match overall (catOf (blocks blk P)) with
  | .ok ov => .ok { cat := catOf (blocks blk P), overall := some ov }
  | .error e => .error e

theorem restartsDone_nil : restartsDone [] = .ok [] := rfl

theorem iterationsCall_spec {T : Tables} {S : Sim} {scn : Nat → VarsAndFiles} {blk : Nat → List Line}
    (hS : Stable T S scn blk) (skip : Bool) (fs : FS) (P : List Nat) (hinv : Inv scn blk fs P)
    (rs : List Nat) (hrs : todo S skip (P.map fun (n : Nat) => (n : Int)) = rs) :
    (rs = [] ∧ P = [] → (iterationsCall T S skip fs).2 = .error .importError ∧
        Inv scn blk (iterationsCall T S skip fs).1 [] ∧ (iterationsCall T S skip fs).1.itfile = some []) ∧
    (¬ (rs = [] ∧ P = []) → Inv scn blk (iterationsCall T S skip fs).1 (P ++ rs) ∧
        (iterationsCall T S skip fs).1.itfile = some (printLines (blocks blk (P ++ rs))) ∧
        (iterationsCall T S skip fs).2 = resultOf blk (P ++ rs)) := by
  let B := blocks blk P
  have hBok := blocks_ok hS P
  have hBst := blocks_started hS P
  have hdone : restartsDone (printLines B) = .ok (P.map fun (n : Nat) => (n : Int)) := by
    rw [restartsDone_printLines B hBok, restartNbrs_blocks hS P]
  have hread : readIterationsText (universalNl (printLines B)) = .ok (catOf B) :=
    print_parse_roundtrip_lemma B hBok hBst
  have hnl : universalNl (printLines B) = printLines B := universalNl_id (printLines_no_cr B hBok)
  -- both shapes of the invariant give the same reading
  have hold : fs.itfile.getD [] = printLines B := by
    rcases hinv.file with ⟨h1, h2⟩ | h
    · simp [h1, B, h2, blocks, printLines]
    · simp [h, B]
  have hcat : (if fs.itfile.isSome then readIterationsText (printLines B) else .ok []) =
      (.ok (catOf B) : Except Err Cat) := by
    rw [hnl] at hread
    rcases hinv.file with ⟨h1, h2⟩ | h
    · simp [h1, B, h2, blocks, catOf]
    · simp [h, hread, B]
  have hP : ((P.map fun (n : Nat) => (n : Int)) == []) = (P == []) := by cases P <;> rfl
  have hfound := todo_found S skip (P.map fun (n : Nat) => (n : Int)) hS.found
  rw [hrs] at hfound
  have hloop := loop_spec hS rs hfound
    { fs := { fs with itfile := some (printLines B) }, st := (catOf B, none), stale := none, err := none }
    (printLines B) rfl rfl hinv.cache
  obtain ⟨l1, l2, l3, l4⟩ := hloop
  have hunf : iterationsCall T S skip fs =
      (if rs == [] && P == [] then ({ fs with itfile := some (printLines B) }, .error .importError) else
        let final := rs.foldl (loopStep T S)
          { fs := { fs with itfile := some (printLines B) }, st := (catOf B, none), stale := none, err := none }
        match overall final.st.1 with
        | .ok ov => (final.fs, .ok { cat := final.st.1, overall := some ov })
        | .error e => (final.fs, .error e)) := by
    unfold iterationsCall
    simp only [hold, hnl, hcat, hdone, hP, hrs, l1]
    rfl
  have hcatN : (rs.foldl (loopStep T S)
      { fs := { fs with itfile := some (printLines B) }, st := (catOf B, none), stale := none, err := none }).st.1 =
      catOf (blocks blk (P ++ rs)) := by
    rw [l4, blocks_append]
    exact catOf_append B (blocks blk rs) (blocks_started hS rs)
  constructor
  · rintro ⟨h1, h2⟩
    have : (rs == [] && P == []) = true := by simp [h1, h2]
    rw [hunf, if_pos this]
    exact ⟨rfl, ⟨Or.inr (by simp [B, h2]), hinv.cache⟩, by simp [B, h2, blocks, printLines]⟩
  · intro hne
    have : ¬ ((rs == [] && P == []) = true) := by
      intro h
      simp only [Bool.and_eq_true, beq_iff_eq] at h
      exact hne h
    rw [hunf, if_neg this]
    simp only []
    have hfile : (rs.foldl (loopStep T S)
        { fs := { fs with itfile := some (printLines B) }, st := (catOf B, none), stale := none, err := none }).fs.itfile =
        some (printLines (blocks blk (P ++ rs))) := by
      rw [l2, blocks_append, printLines_append]
    refine ⟨?_, ?_, ?_⟩
    · constructor
      · right; split <;> exact hfile
      · split <;> exact l3
    · split <;> exact hfile
    · unfold resultOf
      rw [← hcatN]
      split <;> rename_i h <;> simp [h]

def emptyFS : FS := { itfile := none, caches := [] }

theorem inv_empty (scn : Nat → VarsAndFiles) (blk : Nat → List Line) : Inv scn blk emptyFS [] :=
  ⟨Or.inl ⟨rfl, rfl⟩, fun r cd h => by simp [emptyFS, dget] at h⟩

def castL (P : List Nat) : List Int := P.map fun (n : Nat) => (n : Int)

/-- the restarts catalogued, in order, after a sequence of calls (bookkeeping on numbers only) -/
def processedAfter : List (Sim × Bool) → List Nat → List Nat
  | [], P => P
  | c :: cs, P => processedAfter cs (P ++ todo c.1 c.2 (castL P))

/-- file-system state after a sequence of `iterations()` calls -/
def runCalls (T : Tables) : List (Sim × Bool) → FS → FS
  | [], fs => fs
  | c :: cs, fs => runCalls T cs (iterationsCall T c.1 c.2 fs).1

theorem call_inv {T : Tables} {S : Sim} {scn : Nat → VarsAndFiles} {blk : Nat → List Line}
    (hS : Stable T S scn blk) (skip : Bool) (fs : FS) (P : List Nat) (hinv : Inv scn blk fs P) :
    Inv scn blk (iterationsCall T S skip fs).1 (P ++ todo S skip (castL P)) := by
  have h := iterationsCall_spec hS skip fs P hinv (todo S skip (castL P)) rfl
  by_cases hc : todo S skip (castL P) = [] ∧ P = []
  · have := (h.1 hc).2.1
    rw [hc.1, hc.2]; exact this
  · exact (h.2 hc).1

theorem run_inv {T : Tables} {scn : Nat → VarsAndFiles} {blk : Nat → List Line} :
    ∀ (cs : List (Sim × Bool)), (∀ c ∈ cs, Stable T c.1 scn blk) → ∀ (fs : FS) (P : List Nat),
      Inv scn blk fs P → Inv scn blk (runCalls T cs fs) (processedAfter cs P) := by
  intro cs
  induction cs with
  | nil => intro _ fs P h; exact h
  | cons c cs ih =>
    intro hst fs P h
    exact ih (fun c' hc' => hst c' (List.mem_cons_of_mem _ hc')) _ _
      (call_inv (hst c (List.mem_cons_self ..)) c.2 fs P h)

theorem processedAfter_append (cs : List (Sim × Bool)) (c : Sim × Bool) (P : List Nat) :
    processedAfter (cs ++ [c]) P =
      processedAfter cs P ++ todo c.1 c.2 (castL (processedAfter cs P)) := by
  induction cs generalizing P with
  | nil => rfl
  | cons a cs ih => simp [processedAfter, ih]

/-- **T3** -/
theorem incremental_eq_fresh_lemma (T : Tables) (scn : Nat → VarsAndFiles) (blk : Nat → List Line)
    (cs0 : List (Sim × Bool)) (Sn : Sim) (kn : Bool) (S' : Sim)
    (hst : ∀ c ∈ cs0, Stable T c.1 scn blk) (hSn : Stable T Sn scn blk) (hS' : Stable T S' scn blk)
    (hP : todo S' false [] = processedAfter (cs0 ++ [(Sn, kn)]) [])
    (hne : processedAfter (cs0 ++ [(Sn, kn)]) [] ≠ []) :
    (iterationsCall T Sn kn (runCalls T cs0 emptyFS)).1.itfile = (iterationsCall T S' false emptyFS).1.itfile ∧
    (iterationsCall T Sn kn (runCalls T cs0 emptyFS)).2 = (iterationsCall T S' false emptyFS).2 := by
  have hinv0 := run_inv cs0 hst emptyFS [] (inv_empty scn blk)
  have hPA := processedAfter_append cs0 (Sn, kn) []
  have h1 := iterationsCall_spec hSn kn _ _ hinv0 (todo Sn kn (castL (processedAfter cs0 []))) rfl
  have hc1 : ¬ (todo Sn kn (castL (processedAfter cs0 [])) = [] ∧ processedAfter cs0 [] = []) := by
    rintro ⟨a, b⟩
    apply hne; rw [hPA]; rw [b] at a; simp [a, b]
  obtain ⟨_, f1, r1⟩ := h1.2 hc1
  have h2 := iterationsCall_spec hS' false emptyFS [] (inv_empty scn blk) (todo S' false []) rfl
  have hc2 : ¬ (todo S' false [] = [] ∧ ([] : List Nat) = []) := by
    rintro ⟨a, _⟩; apply hne; rw [← hP, a]
  obtain ⟨_, f2, r2⟩ := h2.2 hc2
  simp only [List.nil_append] at f2 r2
  rw [f1, r1, f2, r2, hP, hPA]
  exact ⟨rfl, rfl⟩

def allR (S : Sim) (skip : Bool) : List Nat :=
  if skip then (sortNat (discover S.entries)).dropLast else sortNat (discover S.entries)

theorem todo_eq (S : Sim) (skip : Bool) (done : List Int) :
    todo S skip done = (allR S skip).filter (fun (r : Nat) => !done.contains (r : Int)) := by
  cases skip <;> rfl

theorem todo_after (S : Sim) (skip : Bool) (P : List Nat) :
    todo S skip (castL (P ++ todo S skip (castL P))) = [] := by
  rw [todo_eq S skip (castL (P ++ todo S skip (castL P))), List.filter_eq_nil_iff]
  intro x hx
  have hcast : castL (P ++ todo S skip (castL P)) = castL P ++ castL (todo S skip (castL P)) := by
    simp [castL]
  rw [hcast]
  have key : (x : Int) ∈ castL P ∨ (x : Int) ∈ castL (todo S skip (castL P)) := by
    by_cases h : (x : Int) ∈ castL P
    · exact Or.inl h
    · right
      have hx' : x ∈ todo S skip (castL P) := by
        rw [todo_eq, List.mem_filter]; exact ⟨hx, by simpa using h⟩
      exact List.mem_map.mpr ⟨x, hx', rfl⟩
  simp [key]

/-- repeating a call changes nothing -/
theorem iterations_idempotent_lemma {T : Tables} {S : Sim} {scn : Nat → VarsAndFiles} {blk : Nat → List Line}
    (hS : Stable T S scn blk) (skip : Bool) (fs : FS) (P : List Nat) (hinv : Inv scn blk fs P) :
    (iterationsCall T S skip (iterationsCall T S skip fs).1).1.itfile = (iterationsCall T S skip fs).1.itfile ∧
    (iterationsCall T S skip (iterationsCall T S skip fs).1).2 = (iterationsCall T S skip fs).2 := by
  have h1 := iterationsCall_spec hS skip fs P hinv (todo S skip (castL P)) rfl
  have hinv1 := call_inv hS skip fs P hinv
  have h2 := iterationsCall_spec hS skip _ _ hinv1 [] (todo_after S skip P)
  by_cases hc : todo S skip (castL P) = [] ∧ P = []
  · obtain ⟨e1, _, f1⟩ := h1.1 hc
    have hP1 : P ++ todo S skip (castL P) = [] := by rw [hc.1, hc.2]; rfl
    obtain ⟨e2, _, f2⟩ := h2.1 ⟨rfl, hP1⟩
    exact ⟨by rw [f1, f2], by rw [e1, e2]⟩
  · obtain ⟨_, f1, r1⟩ := h1.2 hc
    have hc2 : ¬ (([] : List Nat) = [] ∧ P ++ todo S skip (castL P) = []) := by
      rintro ⟨_, b⟩
      apply hc
      cases P with
      | nil => exact ⟨by simpa using b, rfl⟩
      | cons x xs => simp at b
    obtain ⟨_, f2, r2⟩ := h2.2 hc2
    simp only [List.append_nil] at f2 r2
    rw [f1, f2, r1, r2]
    exact ⟨rfl, rfl⟩

/-! ## a computable criterion for `Stable` -/

def lineOKb : Line → Bool
  | .vars l => !l.isEmpty && l.all nameOK
  | .noData p => !p.contains '\n' && !p.contains '\r'
  | .reading p => !p.contains '\n' && !p.contains '\r'
  | _ => true

theorem lineOK_of_b (l : Line) (h : lineOKb l = true) : LineOK l := by
  cases l with
  | vars l =>
    simp only [lineOKb, Bool.and_eq_true, Bool.not_eq_true', List.all_eq_true] at h
    exact ⟨by intro e; subst e; simp at h, h.2⟩
  | noData p =>
    simp only [lineOKb, Bool.and_eq_true, Bool.not_eq_true'] at h
    exact ⟨by simpa using h.1, by simpa using h.2⟩
  | reading p =>
    simp only [lineOKb, Bool.and_eq_true, Bool.not_eq_true'] at h
    exact ⟨by simpa using h.1, by simpa using h.2⟩
  | restart n => trivial
  | its a b => trivial
  | arange rl a b d => trivial
  | single rl x => trivial
  | chk l => trivial

instance (vf : VarsAndFiles) : Decidable (keysOK vf) := by unfold keysOK; infer_instance

/-- the lines written for restart `r` when nothing is left over from a previous loop iteration -/
def blkOf (T : Tables) (S : Sim) (r : Nat) : List Line :=
  match S.restarts.find? (fun d => d.nbr == r) with
  | some dir => (processRestart T S dir (scanOf T S r) none).lines
  | none => [.restart r]

theorem dataLines_stale_indep (T : Tables) (S : Sim) (dir : RestartDir) (vf : VarsAndFiles)
    (h : (dataLines T S dir vf none).err = none) (stale : Option (Bool × Str)) :
    (dataLines T S dir vf stale).lines = (dataLines T S dir vf none).lines ∧
    (dataLines T S dir vf stale).err = none := by
  unfold dataLines at h ⊢
  simp only [] at h ⊢
  split
  · exact ⟨rfl, rfl⟩
  · rename_i hv
    simp only [hv, if_false] at h
    cases hc : candidates vf with
    | nil =>
      -- no candidate and nothing left over: the code raises NameError
      simp [foundFile, hc, dataCore] at h
    | cons k ks =>
      have e : foundFile vf stale = foundFile vf none := by simp [foundFile, hc]
      rw [e]
      cases hf : foundFile vf none with
      | error e' => simp [hf] at h
      | ok fnd => simp only [hf] at h ⊢; exact ⟨trivial, h⟩

theorem finishLines_err_none {nbr : Nat} {dl : List Line} {derr : Option Err} {cp : Except Err (List Nat)}
    (h : (finishLines nbr dl derr cp).2 = none) : derr = none := by
  cases derr with
  | none => rfl
  | some e => simp [finishLines] at h

theorem processRestart_stale_indep (T : Tables) (S : Sim) (dir : RestartDir) (vf : VarsAndFiles)
    (h : (processRestart T S dir vf none).err = none) (stale : Option (Bool × Str)) :
    (processRestart T S dir vf stale).lines = (processRestart T S dir vf none).lines ∧
    (processRestart T S dir vf stale).err = none := by
  have hd : (dataLines T S dir vf none).err = none := finishLines_err_none h
  obtain ⟨d1, d2⟩ := dataLines_stale_indep T S dir vf hd stale
  unfold processRestart at h ⊢
  simp only [d1, d2, hd] at h ⊢
  exact ⟨trivial, h⟩

theorem processRestart_head (T : Tables) (S : Sim) (dir : RestartDir) (vf : VarsAndFiles)
    (stale : Option (Bool × Str)) :
    ∃ rest, (processRestart T S dir vf stale).lines = .restart dir.nbr :: rest := by
  unfold processRestart finishLines
  simp only []
  split
  · exact ⟨_, rfl⟩
  · split
    · exact ⟨_, rfl⟩
    · split
      · exact ⟨_, rfl⟩
      · split <;> exact ⟨_, rfl⟩

/-- `Stable` from finitely many computable checks on the restarts of `S` -/
theorem stable_of_check (T : Tables) (S : Sim)
    (hnd : ∀ d ∈ S.restarts, S.restarts.find? (fun x => x.nbr == d.nbr) = some d)
    (hk : ∀ d ∈ S.restarts, keysOK (scanOf T S d.nbr))
    (hp : ∀ d ∈ S.restarts, (processRestart T S d (scanOf T S d.nbr) none).err = none)
    (hl : ∀ d ∈ S.restarts, (blkOf T S d.nbr).all lineOKb = true)
    (h1 : ∀ d ∈ S.restarts, restartNbrs (blkOf T S d.nbr) = [(d.nbr : Int)])
    (hdisc : ∀ r ∈ discover S.entries, (S.restarts.find? (fun d => d.nbr == r)).isSome = true) :
    Stable T S (scanOf T S) (blkOf T S) := by
  have hfind : ∀ r dir, S.restarts.find? (fun d => d.nbr == r) = some dir → dir ∈ S.restarts ∧ dir.nbr = r := by
    intro r dir h
    exact ⟨List.mem_of_find?_eq_some h, by simpa using List.find?_some h⟩
  have hnone : ∀ r, S.restarts.find? (fun d => d.nbr == r) = none →
      scanOf T S r = [] ∧ blkOf T S r = [.restart r] := by
    intro r h
    constructor
    · simp [scanOf, filesOf, h, scanContent, globH5]
    · simp [blkOf, h]
  refine ⟨fun _ _ _ => rfl, ?_, ?_, ?_, ?_, ?_, fun r hr => Option.isSome_iff_exists.mp (hdisc r hr)⟩
  · intro r
    cases h : S.restarts.find? (fun d => d.nbr == r) with
    | none => rw [(hnone r h).1]; exact ⟨by simp, by simp⟩
    | some dir => obtain ⟨hm, rfl⟩ := hfind r dir h; exact hk dir hm
  · intro r dir h stale
    obtain ⟨hm, rfl⟩ := hfind r dir h
    have := processRestart_stale_indep T S dir _ (hp dir hm) stale
    simp only [blkOf, h]
    exact this
  · intro r
    cases h : S.restarts.find? (fun d => d.nbr == r) with
    | none => exact ⟨[], (hnone r h).2⟩
    | some dir =>
      obtain ⟨hm, rfl⟩ := hfind r dir h
      simp only [blkOf, h]
      exact processRestart_head T S dir _ none
  · intro r l hlm
    cases h : S.restarts.find? (fun d => d.nbr == r) with
    | none =>
      rw [(hnone r h).2] at hlm
      simp at hlm; subst hlm; trivial
    | some dir =>
      obtain ⟨hm, rfl⟩ := hfind r dir h
      exact lineOK_of_b l (List.all_eq_true.mp (hl dir hm) l hlm)
  · intro r
    cases h : S.restarts.find? (fun d => d.nbr == r) with
    | none => rw [(hnone r h).2]; rfl
    | some dir => obtain ⟨hm, rfl⟩ := hfind r dir h; exact h1 dir hm

/-! ## snapshots: a directory to which restarts are appended -/

/-- `S` with further restart directories appended -/
def extend (S : Sim) (extra : List RestartDir) (ents : List Str) : Sim :=
  { S with restarts := S.restarts ++ extra, entries := ents }

theorem dget_append_some {κ ν : Type} [BEq κ] (A B : List (κ × ν)) (k : κ) (v : ν) (h : dget A k = some v) :
    dget (A ++ B) k = some v := by
  unfold dget at h ⊢
  rw [List.find?_append]
  cases hf : A.find? (fun kv => kv.1 == k) with
  | none => simp [hf] at h
  | some kv => simpa [hf] using h

theorem allFiles_extend (S : Sim) (extra : List RestartDir) (ents : List Str) :
    allFiles (extend S extra ents) = allFiles S ++ allFiles { S with restarts := extra } := by
  simp [allFiles, extend]

theorem dataCore_extend (S : Sim) (extra : List RestartDir) (ents : List Str) (fnd : Option (Bool × Str))
    (h : (dataCore S fnd).2 = none) : dataCore (extend S extra ents) fnd = dataCore S fnd := by
  cases fnd with
  | none => rfl
  | some bf =>
    obtain ⟨b, f⟩ := bf
    cases b with
    | false => rfl
    | true =>
      cases hd : dget (allFiles S) f with
      | none => simp [dataCore, hd] at h
      | some keys =>
        have hd' : dget (allFiles (extend S extra ents)) f = some keys := by
          rw [allFiles_extend]; exact dget_append_some _ _ _ _ hd
        simp only [dataCore, hd, hd']

theorem dataLines_extend (T : Tables) (S : Sim) (extra : List RestartDir) (ents : List Str) (dir : RestartDir)
    (vf : VarsAndFiles) (stale : Option (Bool × Str)) (h : (dataLines T S dir vf stale).err = none) :
    dataLines T (extend S extra ents) dir vf stale = dataLines T S dir vf stale := by
  unfold dataLines at h ⊢
  simp only [] at h ⊢
  have e1 : (extend S extra ents).simpath = S.simpath := rfl
  have e2 : (extend S extra ents).simname = S.simname := rfl
  split
  · rfl
  · rename_i hv
    simp only [hv, if_false] at h
    cases hf : foundFile vf stale with
    | error e => rfl
    | ok fnd =>
      simp only [hf] at h
      simp only [dataCore_extend S extra ents fnd h]

theorem processRestart_extend (T : Tables) (S : Sim) (extra : List RestartDir) (ents : List Str) (dir : RestartDir)
    (vf : VarsAndFiles) (stale : Option (Bool × Str)) (h : (processRestart T S dir vf stale).err = none) :
    processRestart T (extend S extra ents) dir vf stale = processRestart T S dir vf stale := by
  have hd : (dataLines T S dir vf stale).err = none := finishLines_err_none h
  unfold processRestart
  rw [dataLines_extend T S extra ents dir vf stale hd]
  rfl

theorem find?_extend (S : Sim) (extra : List RestartDir) (ents : List Str) (r : Nat) (dir : RestartDir)
    (h : S.restarts.find? (fun d => d.nbr == r) = some dir) :
    (extend S extra ents).restarts.find? (fun d => d.nbr == r) = some dir := by
  simp [extend, List.find?_append, h]

theorem scanOf_extend (T : Tables) (S : Sim) (extra : List RestartDir) (ents : List Str) (r : Nat) (dir : RestartDir)
    (h : S.restarts.find? (fun d => d.nbr == r) = some dir) :
    scanOf T (extend S extra ents) r = scanOf T S r := by
  simp only [scanOf, filesOf, find?_extend S extra ents r dir h, h]
  rfl

/-- a snapshot is stable with respect to the scans and blocks of the final
directory: restarts that are appended later do not change what an earlier
restart contributes -/
theorem stable_of_prefix (T : Tables) (S : Sim) (extra : List RestartDir) (ents : List Str)
    (hfin : Stable T (extend S extra ents) (scanOf T (extend S extra ents)) (blkOf T (extend S extra ents)))
    (hp : ∀ d ∈ S.restarts, S.restarts.find? (fun x => x.nbr == d.nbr) = some d ∧
      (processRestart T S d (scanOf T S d.nbr) none).err = none)
    (hfS : ∀ r ∈ discover S.entries, ∃ dir, S.restarts.find? (fun d => d.nbr == r) = some dir) :
    Stable T S (scanOf T (extend S extra ents)) (blkOf T (extend S extra ents)) := by
  have hfind : ∀ r dir, S.restarts.find? (fun d => d.nbr == r) = some dir → dir ∈ S.restarts ∧ dir.nbr = r := by
    intro r dir h
    exact ⟨List.mem_of_find?_eq_some h, by simpa using List.find?_some h⟩
  refine ⟨?_, hfin.keys, ?_, hfin.blk_head, hfin.blk_ok, hfin.blk_one, hfS⟩
  · intro r dir h
    exact (scanOf_extend T S extra ents r dir h).symm
  · intro r dir h stale
    obtain ⟨hm, hr⟩ := hfind r dir h
    have hs : scanOf T (extend S extra ents) r = scanOf T S r := scanOf_extend T S extra ents r dir h
    have hp0 : (processRestart T S dir (scanOf T S r) none).err = none := by
      have := (hp dir hm).2; rw [hr] at this; exact this
    have hext := processRestart_extend T S extra ents dir (scanOf T S r) none hp0
    have hblk : blkOf T (extend S extra ents) r = (processRestart T S dir (scanOf T S r) none).lines := by
      simp only [blkOf, find?_extend S extra ents r dir h, hs, hext]
    rw [hs, hblk]
    exact processRestart_stale_indep T S dir _ hp0 stale

end AurelVerif.CatalogLemmas
