/-
Lemmas/C20Jacobi.lean — orthonormality of the closed form of `maths.sYlm` for
ALL degrees (orders `m ≥ |s|`), as integer identities on `thetaGramZ`
(Lemmas/C20GramZ.lean):

  thetaGramZ_orth   |s| ≤ m ≤ l, l', l ≠ l'  →  thetaGramZ s l m l' = 0
  thetaGramZ_norm   |s| ≤ m ≤ l              →  thetaGramZ s l m l = C(2l, l+m)·(l−s)!·(l+s)!
  thetaGramZ_norm'  the same in the form of the hypothesis of `gramR_of_Z_norm`
  contGram_orthonormal_of_abs_le   the continuous inner product over the sphere
                    is δ_{ll'} δ_{mm'} for these modes (consequence, Lemmas/C20Ortho.lean)

Proof (no analysis): with u = (1+X)/2, v = (1−X)/2 ∈ ℚ[X] and the algebraic
integral `integ` over [−1,1] (Lemmas/C20JacobiInteg.lean), the double sum
`thetaGramZ` is `(l+l'+1)!/2 · integ (u^(m−s) v^(m+s) Qp_{l−m} Qp_{l'−m})`
(algebraic Beta integral), and `u^(m−s) v^(m+s) Qp_n` is a Rodrigues derivative
`D^n(u^(l−s) v^(l+s))` (Lemmas/C20JacobiPoly.lean); integrate by parts n times.
-/
import AurelVerif.Lemmas.C20JacobiPoly
import AurelVerif.Lemmas.C20Ortho

namespace AurelVerif.HarmJacobi
open Polynomial AurelVerif.Harm AurelVerif.HarmGram AurelVerif.HarmLemmas

noncomputable section

/-! ### the product of two term lists as a polynomial in u, v -/

/-- `Σ_{t,t'} coef·coef'·u^((a+a')/2)·v^((b+b')/2)` — at `X = cos θ` this is
`evalK ts · evalK ts'` at `c = cos(θ/2)`, `sn = sin(θ/2)`. -/
def prodPoly (ts ts' : List Term) : ℚ[X] :=
  (ts.map fun t => (ts'.map fun t' =>
    C ((t.coef * t'.coef : ℤ) : ℚ) * u ^ ((t.a + t'.a) / 2).toNat * v ^ ((t.b + t'.b) / 2).toNat).sum).sum

theorem list_sum_scaled {α : Type} (L : List α) (h : α → ℤ) (N : ℚ) :
    (L.map fun x => 2 * ((h x : ℤ) : ℚ) / N).sum = 2 * (((L.map h).sum : ℤ) : ℚ) / N := by
  induction L with
  | nil => simp
  | cons x L ih =>
    simp only [List.map_cons, List.sum_cons, ih]
    push_cast
    ring

theorem integ_pair (t t' : Term) (n : ℕ)
    (h : 0 ≤ t.a ∧ 0 ≤ t.b ∧ 0 ≤ t'.a ∧ 0 ≤ t'.b
      ∧ (t.a + t'.a) % 2 = 0 ∧ (t.b + t'.b) % 2 = 0 ∧ (t.a + t'.a) / 2 + (t.b + t'.b) / 2 = (n : Int)) :
    integ (C ((t.coef * t'.coef : ℤ) : ℚ) * u ^ ((t.a + t'.a) / 2).toNat * v ^ ((t.b + t'.b) / 2).toNat)
      = 2 * ((pairZ t t' : ℤ) : ℚ) / ((n + 1).factorial : ℚ) := by
  obtain ⟨h1, h2, h3, h4, h5, h6, h7⟩ := h
  have en : ((t.a + t'.a) / 2).toNat + ((t.b + t'.b) / 2).toNat = n := by omega
  rw [mul_assoc, integ_C_mul, integ_beta, en]
  unfold pairZ
  rw [fact_eq_factorial, fact_eq_factorial]
  push_cast
  ring

/-- the polynomial twin of `evalK_mul_integral` -/
theorem integ_prodPoly (ts ts' : List Term) (n : ℕ) (h : PairsEven n ts ts') :
    integ (prodPoly ts ts') = 2 * ((gramZ ts ts' : ℤ) : ℚ) / ((n + 1).factorial : ℚ) := by
  unfold prodPoly gramZ
  rw [map_list_sum, List.map_map, ← list_sum_scaled]
  congr 1
  apply List.map_congr_left
  intro t ht
  simp only [Function.comp]
  rw [map_list_sum, List.map_map, ← list_sum_scaled]
  congr 1
  apply List.map_congr_left
  intro t' ht'
  exact integ_pair t t' n (h t ht t' ht')

/-! ### the code's loop in natural parameters -/

theorem list_range_sum {M : Type} [AddCommMonoid M] (f : ℕ → M) (n : ℕ) :
    ((List.range n).map f).sum = ∑ i ∈ Finset.range n, f i := by
  induction n with
  | zero => simp
  | succ n ih =>
    rw [List.range_succ, List.map_append, List.sum_append, ih, Finset.sum_range_succ]
    simp

theorem negOnePow_nat (n : ℕ) : negOnePow (n : ℤ) = (-1) ^ n := by
  induction n with
  | zero => rfl
  | succ n ih =>
    rw [Nat.cast_succ, negOnePow_add, ih, pow_succ]
    rfl

/-- the `j`-th term of the loop for `n = l − m`, `a0 = m − s`, `b0 = m + s` -/
def natTerm (n a0 b0 j : ℕ) : Term :=
  ⟨cf n a0 b0 j, 2 * (j : ℤ) + a0, 2 * ((n - j : ℕ) : ℤ) + b0⟩

/-- for `|s| ≤ m ≤ l` the loop runs over `r = (m − s) + j`, `j = 0..l−m`. -/
theorem harmTerms_nat (s l m : ℤ) (n a0 b0 : ℕ) (ha : m - s = a0) (hb : m + s = b0)
    (hn : l - m = n) :
    harmTerms s l m = (List.range (n + 1)).map (natTerm n a0 b0) := by
  unfold harmTerms rRange pyRange rLo rHi
  have e1 : max (m - s) 0 = (a0 : ℤ) := by omega
  have e2 : (min (l + m) (l - s) + 1 - (a0 : ℤ)).toNat = n + 1 := by omega
  rw [e1, e2, List.map_map]
  apply List.map_congr_left
  intro j hj
  rw [List.mem_range] at hj
  simp only [Function.comp, term, natTerm]
  have a1 : l - s = ((n + a0 : ℕ) : ℤ) := by omega
  have a2 : l + s = ((n + b0 : ℕ) : ℤ) := by omega
  have a3 : (a0 : ℤ) + (j : ℤ) = ((a0 + j : ℕ) : ℤ) := by omega
  have a4 : ((a0 + j : ℕ) : ℤ) + s - m = ((j : ℕ) : ℤ) := by omega
  have a5 : negOnePow (l - ((a0 + j : ℕ) : ℤ) - s) = negOnePow (((n + j : ℕ) : ℤ)) := by
    apply negOnePow_congr; omega
  rw [a1, a2, a3, a4, a5, binomZ_nonneg, binomZ_nonneg, negOnePow_nat]
  have key : ∀ (c a b c' a' b' : Int), c = c' → a = a' → b = b' →
      (⟨c, a, b⟩ : Term) = ⟨c', a', b'⟩ := by
    intro c a b c' a' b' h1 h2 h3; subst h1 h2 h3; rfl
  exact key _ _ _ _ _ _ (by unfold cf; ring) (by omega) (by omega)

/-- the product polynomial of two loops with the same `(s, m)` -/
theorem prodPoly_nat (n n' a0 b0 : ℕ) :
    prodPoly ((List.range (n + 1)).map (natTerm n a0 b0)) ((List.range (n' + 1)).map (natTerm n' a0 b0))
      = u ^ a0 * v ^ b0 * Qp n a0 b0 * Qp n' a0 b0 := by
  unfold prodPoly Qp
  rw [List.map_map, list_range_sum, mul_assoc, Finset.sum_mul_sum, Finset.mul_sum]
  apply Finset.sum_congr rfl
  intro j hj
  rw [Finset.mem_range] at hj
  simp only [Function.comp]
  rw [List.map_map, list_range_sum, Finset.mul_sum]
  apply Finset.sum_congr rfl
  intro j' hj'
  rw [Finset.mem_range] at hj'
  simp only [Function.comp, natTerm]
  have e1 : ((2 * (j : ℤ) + a0 + (2 * (j' : ℤ) + a0)) / 2).toNat = a0 + (j + j') := by omega
  have e2 : ((2 * ((n - j : ℕ) : ℤ) + b0 + (2 * ((n' - j' : ℕ) : ℤ) + b0)) / 2).toNat
      = b0 + ((n - j) + (n' - j')) := by omega
  rw [e1, e2, Int.cast_mul, C_mul, pow_add, pow_add, pow_add, pow_add]
  ring

/-- `2·thetaGramZ/(l+l'+1)!` is the algebraic integral of the product. -/
theorem thetaGramZ_integ (s l m l' : ℤ) (n n' a0 b0 : ℕ) (ha : m - s = a0) (hb : m + s = b0)
    (hn : l - m = n) (hn' : l' - m = n') :
    2 * ((thetaGramZ s l m l' : ℤ) : ℚ) / (((l + l').toNat + 1).factorial : ℚ)
      = integ (u ^ a0 * v ^ b0 * Qp n a0 b0 * Qp n' a0 b0) := by
  unfold thetaGramZ
  rw [← integ_prodPoly _ _ _ (harmTerms_pairs s l m l'), harmTerms_nat s l m n a0 b0 ha hb hn,
    harmTerms_nat s l' m n' a0 b0 ha hb hn', prodPoly_nat]

theorem int_zero_of_scaled (z : ℤ) (N : ℕ) (h : 2 * (z : ℚ) / (N.factorial : ℚ) = 0) : z = 0 := by
  have hN : (N.factorial : ℚ) ≠ 0 := by positivity
  rw [div_eq_zero_iff] at h
  rcases h with h | h
  · have : (z : ℚ) = 0 := by linarith
    exact_mod_cast this
  · exact absurd h hN

end

end AurelVerif.HarmJacobi

namespace AurelVerif.HarmLemmas
open AurelVerif.Harm AurelVerif.HarmGram AurelVerif.HarmJacobi

/-- **orthogonality for all degrees** (orders `m ≥ |s|`): the integer double sum
of the θ inner product of `ₛY_lm` and `ₛY_l'm` vanishes for `l ≠ l'`. -/
theorem thetaGramZ_orth (s l m l' : Int) (hs : |s| ≤ m) (hl : m ≤ l) (hl' : m ≤ l') (hne : l ≠ l') :
    thetaGramZ s l m l' = 0 := by
  have hs' := abs_le.mp hs
  obtain ⟨a0, ha⟩ := Int.eq_ofNat_of_zero_le (show 0 ≤ m - s by omega)
  obtain ⟨b0, hb⟩ := Int.eq_ofNat_of_zero_le (show 0 ≤ m + s by omega)
  obtain ⟨n, hn⟩ := Int.eq_ofNat_of_zero_le (show 0 ≤ l - m by omega)
  obtain ⟨n', hn'⟩ := Int.eq_ofNat_of_zero_le (show 0 ≤ l' - m by omega)
  have key := thetaGramZ_integ s l m l' n n' a0 b0 ha hb hn hn'
  apply int_zero_of_scaled _ ((l + l').toNat + 1)
  rw [key]
  rcases lt_or_gt_of_ne (show n ≠ n' by omega) with h | h
  · rw [mul_right_comm]
    exact integ_prod_low n' n a0 b0 h
  · exact integ_prod_low n n' a0 b0 h

/-- **norm for all degrees** (orders `m ≥ |s|`). -/
theorem thetaGramZ_norm (s l m : Int) (hs : |s| ≤ m) (hl : m ≤ l) :
    thetaGramZ s l m l = ((2 * l).toNat.choose (l + m).toNat : ℤ) * ((l - s).toNat.factorial : ℤ)
      * ((l + s).toNat.factorial : ℤ) := by
  have hs' := abs_le.mp hs
  obtain ⟨a0, ha⟩ := Int.eq_ofNat_of_zero_le (show 0 ≤ m - s by omega)
  obtain ⟨b0, hb⟩ := Int.eq_ofNat_of_zero_le (show 0 ≤ m + s by omega)
  obtain ⟨n, hn⟩ := Int.eq_ofNat_of_zero_le (show 0 ≤ l - m by omega)
  have key := thetaGramZ_integ s l m l n n a0 b0 ha hb hn hn
  rw [integ_prod_diag] at key
  have e1 : (l + l).toNat + 1 = 2 * n + a0 + b0 + 1 := by omega
  have e2 : (2 * l).toNat = 2 * n + a0 + b0 := by omega
  have e3 : (l + m).toNat = n + a0 + b0 := by omega
  have e4 : (l - s).toNat = n + a0 := by omega
  have e5 : (l + s).toNat = n + b0 := by omega
  have e6 : (2 * n + a0 + b0).choose (n + a0 + b0) = (2 * n + a0 + b0).choose n :=
    Nat.choose_symm_of_eq_add (by omega)
  rw [e1] at key
  rw [e2, e3, e4, e5, e6]
  have hF : (((2 * n + a0 + b0 + 1).factorial : ℕ) : ℚ) ≠ 0 := by positivity
  have : ((thetaGramZ s l m l : ℤ) : ℚ)
      = (((2 * n + a0 + b0).choose n : ℕ) : ℚ) * ((n + a0).factorial : ℚ) * ((n + b0).factorial : ℚ) := by
    field_simp at key
    linarith
  exact_mod_cast this

/-- the norm identity exactly in the form of the hypothesis of `gramR_of_Z_norm`. -/
theorem thetaGramZ_norm' (s l m : Int) (hs : |s| ≤ m) (hl : m ≤ l) :
    thetaGramZ s l m l * ((fact (l + m).toNat : Nat) : Int) * ((fact (l - m).toNat : Nat) : Int) * (2 * l + 1)
      = ((fact (2 * l + 1).toNat : Nat) : Int) * ((fact (l + s).toNat : Nat) : Int) * ((fact (l - s).toNat : Nat) : Int) := by
  have hs' := abs_le.mp hs
  rw [thetaGramZ_norm s l m hs hl]
  simp only [fact_eq_factorial]
  have hk : (l + m).toNat ≤ (2 * l).toNat := by omega
  have h1 := Nat.choose_mul_factorial_mul_factorial hk
  have e1 : (2 * l).toNat - (l + m).toNat = (l - m).toNat := by omega
  have e2 : (2 * l + 1).toNat = (2 * l).toNat + 1 := by omega
  have e3 : (2 * l + 1 : ℤ) = (((2 * l).toNat + 1 : ℕ) : ℤ) := by omega
  rw [e1] at h1
  rw [e2, Nat.factorial_succ, e3, ← h1]
  push_cast
  ring

/-- **continuous orthonormality for all degrees** (orders `m ≥ |s|`): the inner
product over the sphere of `ₛY_lm` and `ₛY_l'm'` is `δ_{ll'} δ_{mm'}`. -/
theorem contGram_orthonormal_of_abs_le (s l m l' m' : Int) (hs : |s| ≤ m) (hl : m ≤ l) (hl' : m ≤ l') :
    contGram s l m l' m' = if l = l' ∧ m = m' then 1 else 0 := by
  rw [contGram_eq]
  by_cases hmm : m = m'
  swap
  · rw [if_neg hmm, if_neg (fun hh => hmm hh.2)]
  subst hmm
  rw [if_pos rfl]
  by_cases hll : l = l'
  · subst hll
    have hm0 : 0 ≤ m := le_trans (abs_nonneg s) hs
    have h1 : |s| ≤ l := le_trans hs hl
    have h2 : |m| ≤ l := by rw [abs_of_nonneg hm0]; exact hl
    rw [if_pos ⟨rfl, rfl⟩, gramR_of_Z_norm s l m h1 h2 (thetaGramZ_norm' s l m hs hl)]
    simp
  · rw [if_neg (fun hh => hll hh.1), gramR_of_Z_zero _ _ _ _ (thetaGramZ_orth s l m l' hs hl hl' hll)]
    simp

/-! ### non-vacuity: instances far outside the table `l, l' ≤ 12`, with the numbers -/

example : thetaGramZ 2 40 3 57 = 0 := thetaGramZ_orth 2 40 3 57 (by decide) (by decide) (by decide) (by decide)

example : thetaGramZ (-2) 30 2 30
    = ((60 : ℕ).choose 32 : ℤ) * ((32 : ℕ).factorial : ℤ) * ((28 : ℕ).factorial : ℤ) :=
  thetaGramZ_norm (-2) 30 2 (by decide) (by decide)

/-- the same entries computed by the executable model (small instance: kernel-decided) -/
example : thetaGramZ 1 4 2 6 = 0 := by decide +kernel
example : thetaGramZ 1 4 2 4 = 20160 := by decide +kernel
example : ((2 * 4 : ℤ).toNat.choose (4 + 2 : ℤ).toNat : ℤ) * (((4 - 1 : ℤ).toNat).factorial : ℤ)
    * (((4 + 1 : ℤ).toNat).factorial : ℤ) = 20160 := by decide +kernel

end AurelVerif.HarmLemmas
