/-
Lemmas/C05Raise2.lean — property C05, Layer B (consistency): raising / lowering an index
commutes with the code's covariant derivative `s_covd`, for rank 1 (lowering) and for every
rank-2 index pattern (`uu`, `ud`, `du`, `dd`; first or second index; raised or lowered).

Structure.  Part 1 is pure index algebra over the textbook rules of Spec/Covd.lean, for an ARBITRARY
connection Γ (no symmetry needed) and an arbitrary "metric" `g`: if `∇g = 0` (`CompatDD` / `CompatUU`)
and the operator differentiates the one contraction `g·t` by the product rule (`ProdRuleL` /
`ProdRuleR` / `ProdRule1`), then `∇(g·t) = g·∇t`.  Part 2 instantiates with the code's own
`s_covd_*`, `e.gammadown3`, `e.gammaup3` using metric compatibility (T8: `metric_compat_dd`
— exact for every operator — and `metric_compat_uu` — product rule on γ⁻¹γ = 1).

The product-rule hypotheses hold for a derivation (`prodRule*_of_deriv`); the finite-difference
operators satisfy them only up to truncation error: continuum-limit statements.
-/
import AurelVerif.Lemmas.C05Raise

set_option linter.unusedSimpArgs false
set_option linter.unusedVariables false
set_option linter.unusedSectionVars false

namespace AurelVerif.C05L
open AurelVerif.Gen.Core AurelVerif.Tensor AurelVerif.CoreTac AurelVerif.C08 AurelVerif.Spec.Covd

variable {K : Type} [Field K]

/-! ### contractions -/

/-- contraction over the FIRST index of `t`: `(g·t)_{ab} = g_{am} t_{mb}`. -/
def conL (g t : Fin 3 → Fin 3 → K) (a b : Fin 3) : K := ∑ m, g a m * t m b
/-- contraction over the SECOND index of `t`: `(t·g)_{ab} = g_{bm} t_{am}`. -/
def conR (g t : Fin 3 → Fin 3 → K) (a b : Fin 3) : K := ∑ m, g b m * t a m
/-- contraction with a vector: `(g·v)_a = g_{am} v_m`. -/
def con1 (g : Fin 3 → Fin 3 → K) (v : Fin 3 → K) (a : Fin 3) : K := ∑ m, g a m * v m

/-! ### hypotheses -/

/-- product rule for `∂_c (g_{am} t_{mb})`. -/
def ProdRuleL (D : Fin 3 → K → K) (g t : Fin 3 → Fin 3 → K) : Prop :=
  ∀ c a b, D c (conL g t a b) = ∑ m, (D c (g a m) * t m b + g a m * D c (t m b))
/-- product rule for `∂_c (g_{bm} t_{am})`. -/
def ProdRuleR (D : Fin 3 → K → K) (g t : Fin 3 → Fin 3 → K) : Prop :=
  ∀ c a b, D c (conR g t a b) = ∑ m, (D c (g b m) * t a m + g b m * D c (t a m))
/-- product rule for `∂_c (g_{am} v_m)`. -/
def ProdRule1 (D : Fin 3 → K → K) (g : Fin 3 → Fin 3 → K) (v : Fin 3 → K) : Prop :=
  ∀ c a, D c (con1 g v a) = ∑ m, (D c (g a m) * v m + g a m * D c (v m))

theorem prodRuleL_of_deriv (D : Fin 3 → K → K) (hD : Deriv D) (g t : Fin 3 → Fin 3 → K) : ProdRuleL D g t := by
  intro c a b; simp only [conL, Fin.sum_univ_three, hD.add, hD.mul]
theorem prodRuleR_of_deriv (D : Fin 3 → K → K) (hD : Deriv D) (g t : Fin 3 → Fin 3 → K) : ProdRuleR D g t := by
  intro c a b; simp only [conR, Fin.sum_univ_three, hD.add, hD.mul]
theorem prodRule1_of_deriv (D : Fin 3 → K → K) (hD : Deriv D) (g : Fin 3 → Fin 3 → K) (v : Fin 3 → K) :
    ProdRule1 D g v := by
  intro c a; simp only [con1, Fin.sum_univ_three, hD.add, hD.mul]

/-- `∇_c g_{ab} = 0` for a tensor with two lower indices (textbook rule `covdDD`). -/
def CompatDD (D : Fin 3 → K → K) (Γ : Fin 3 → Fin 3 → Fin 3 → K) (g : Fin 3 → Fin 3 → K) : Prop :=
  ∀ c a b, covdDD Γ (pd2 D g) g c a b = 0
/-- `∇_c g^{ab} = 0` for a tensor with two upper indices (textbook rule `covdUU`). -/
def CompatUU (D : Fin 3 → K → K) (Γ : Fin 3 → Fin 3 → Fin 3 → K) (g : Fin 3 → Fin 3 → K) : Prop :=
  ∀ c a b, covdUU Γ (pd2 D g) g c a b = 0

/-! ### Part 1: index algebra (any connection Γ, any `g` with `∇g = 0`) -/

section algebra
variable (D : Fin 3 → K → K) (Γ : Fin 3 → Fin 3 → Fin 3 → K) (g t : Fin 3 → Fin 3 → K)

/-- lowering the FIRST index, second index down: `∇_c (g_{am} t^m{}_b) = g_{am} ∇_c t^m{}_b`. -/
theorem lowerL_ud (hc : CompatDD D Γ g) (hp : ProdRuleL D g t) (c a b : Fin 3) :
    covdDD Γ (pd2 D (conL g t)) (conL g t) c a b = ∑ m, g a m * covdUD Γ (pd2 D t) t c m b := by
  have h0 := hc c a 0; have h1 := hc c a 1; have h2 := hc c a 2
  have hp' := hp c a b
  simp only [covdDD, covdUD, pd2, conL, Fin.sum_univ_three] at h0 h1 h2 hp' ⊢
  rw [hp']
  linear_combination t 0 b * h0 + t 1 b * h1 + t 2 b * h2

/-- lowering the FIRST index, second index up: `∇_c (g_{am} t^{mb}) = g_{am} ∇_c t^{mb}`. -/
theorem lowerL_uu (hc : CompatDD D Γ g) (hp : ProdRuleL D g t) (c a b : Fin 3) :
    covdDU Γ (pd2 D (conL g t)) (conL g t) c a b = ∑ m, g a m * covdUU Γ (pd2 D t) t c m b := by
  have h0 := hc c a 0; have h1 := hc c a 1; have h2 := hc c a 2
  have hp' := hp c a b
  simp only [covdDD, covdDU, covdUU, pd2, conL, Fin.sum_univ_three] at h0 h1 h2 hp' ⊢
  rw [hp']
  linear_combination t 0 b * h0 + t 1 b * h1 + t 2 b * h2

/-- lowering the SECOND index, first index down: `∇_c (g_{bm} t_a{}^m) = g_{bm} ∇_c t_a{}^m`. -/
theorem lowerR_du (hc : CompatDD D Γ g) (hp : ProdRuleR D g t) (c a b : Fin 3) :
    covdDD Γ (pd2 D (conR g t)) (conR g t) c a b = ∑ m, g b m * covdDU Γ (pd2 D t) t c a m := by
  have h0 := hc c b 0; have h1 := hc c b 1; have h2 := hc c b 2
  have hp' := hp c a b
  simp only [covdDD, covdDU, pd2, conR, Fin.sum_univ_three] at h0 h1 h2 hp' ⊢
  rw [hp']
  linear_combination t a 0 * h0 + t a 1 * h1 + t a 2 * h2

/-- lowering the SECOND index, first index up: `∇_c (g_{bm} t^{am}) = g_{bm} ∇_c t^{am}`. -/
theorem lowerR_uu (hc : CompatDD D Γ g) (hp : ProdRuleR D g t) (c a b : Fin 3) :
    covdUD Γ (pd2 D (conR g t)) (conR g t) c a b = ∑ m, g b m * covdUU Γ (pd2 D t) t c a m := by
  have h0 := hc c b 0; have h1 := hc c b 1; have h2 := hc c b 2
  have hp' := hp c a b
  simp only [covdDD, covdUD, covdUU, pd2, conR, Fin.sum_univ_three] at h0 h1 h2 hp' ⊢
  rw [hp']
  linear_combination t a 0 * h0 + t a 1 * h1 + t a 2 * h2

/-- raising the FIRST index, second index down: `∇_c (g^{am} t_{mb}) = g^{am} ∇_c t_{mb}`. -/
theorem raiseL_dd (hc : CompatUU D Γ g) (hp : ProdRuleL D g t) (c a b : Fin 3) :
    covdUD Γ (pd2 D (conL g t)) (conL g t) c a b = ∑ m, g a m * covdDD Γ (pd2 D t) t c m b := by
  have h0 := hc c a 0; have h1 := hc c a 1; have h2 := hc c a 2
  have hp' := hp c a b
  simp only [covdDD, covdUD, covdUU, pd2, conL, Fin.sum_univ_three] at h0 h1 h2 hp' ⊢
  rw [hp']
  linear_combination t 0 b * h0 + t 1 b * h1 + t 2 b * h2

/-- raising the FIRST index, second index up: `∇_c (g^{am} t_m{}^b) = g^{am} ∇_c t_m{}^b`. -/
theorem raiseL_du (hc : CompatUU D Γ g) (hp : ProdRuleL D g t) (c a b : Fin 3) :
    covdUU Γ (pd2 D (conL g t)) (conL g t) c a b = ∑ m, g a m * covdDU Γ (pd2 D t) t c m b := by
  have h0 := hc c a 0; have h1 := hc c a 1; have h2 := hc c a 2
  have hp' := hp c a b
  simp only [covdDU, covdUU, pd2, conL, Fin.sum_univ_three] at h0 h1 h2 hp' ⊢
  rw [hp']
  linear_combination t 0 b * h0 + t 1 b * h1 + t 2 b * h2

/-- raising the SECOND index, first index down: `∇_c (g^{bm} t_{am}) = g^{bm} ∇_c t_{am}`. -/
theorem raiseR_dd (hc : CompatUU D Γ g) (hp : ProdRuleR D g t) (c a b : Fin 3) :
    covdDU Γ (pd2 D (conR g t)) (conR g t) c a b = ∑ m, g b m * covdDD Γ (pd2 D t) t c a m := by
  have h0 := hc c b 0; have h1 := hc c b 1; have h2 := hc c b 2
  have hp' := hp c a b
  simp only [covdDD, covdDU, covdUU, pd2, conR, Fin.sum_univ_three] at h0 h1 h2 hp' ⊢
  rw [hp']
  linear_combination t a 0 * h0 + t a 1 * h1 + t a 2 * h2

/-- raising the SECOND index, first index up: `∇_c (g^{bm} t^a{}_m) = g^{bm} ∇_c t^a{}_m`. -/
theorem raiseR_ud (hc : CompatUU D Γ g) (hp : ProdRuleR D g t) (c a b : Fin 3) :
    covdUU Γ (pd2 D (conR g t)) (conR g t) c a b = ∑ m, g b m * covdUD Γ (pd2 D t) t c a m := by
  have h0 := hc c b 0; have h1 := hc c b 1; have h2 := hc c b 2
  have hp' := hp c a b
  simp only [covdUD, covdUU, pd2, conR, Fin.sum_univ_three] at h0 h1 h2 hp' ⊢
  rw [hp']
  linear_combination t a 0 * h0 + t a 1 * h1 + t a 2 * h2

/-- rank 1, lowering: `∇_c (g_{am} v^m) = g_{am} ∇_c v^m`. -/
theorem lower1 (v : Fin 3 → K) (hc : CompatDD D Γ g) (hp : ProdRule1 D g v) (c a : Fin 3) :
    covdD Γ (pd1 D (con1 g v)) (con1 g v) c a = ∑ m, g a m * covdU Γ (pd1 D v) v c m := by
  have h0 := hc c a 0; have h1 := hc c a 1; have h2 := hc c a 2
  have hp' := hp c a
  simp only [covdDD, covdD, covdU, pd1, pd2, con1, Fin.sum_univ_three] at h0 h1 h2 hp' ⊢
  rw [hp']
  linear_combination v 0 * h0 + v 1 * h1 + v 2 * h2

/-- rank 1, raising: `∇_c (g^{am} v_m) = g^{am} ∇_c v_m`. -/
theorem raise1 (v : Fin 3 → K) (hc : CompatUU D Γ g) (hp : ProdRule1 D g v) (c a : Fin 3) :
    covdU Γ (pd1 D (con1 g v)) (con1 g v) c a = ∑ m, g a m * covdD Γ (pd1 D v) v c m := by
  have h0 := hc c a 0; have h1 := hc c a 1; have h2 := hc c a 2
  have hp' := hp c a
  simp only [covdUU, covdD, covdU, pd1, pd2, con1, Fin.sum_univ_three] at h0 h1 h2 hp' ⊢
  rw [hp']
  linear_combination v 0 * h0 + v 1 * h1 + v 2 * h2

end algebra

/-! ### Part 2: the code's `s_covd` -/

/-- the cached connection is symmetric in its lower indices when it is the code's own table. -/
theorem MetricOK.symG (e : Env K) (h : MetricOK e) : SymLow e.s_Gamma_udd3 := by
  rw [h.hG]; exact s_Gamma_udd3_symm e

/-- T8 in the vocabulary of Part 1: `∇γ = 0` — no property of `e.D` is used. -/
theorem compatDD_of_metricOK (e : Env K) (h : MetricOK e) (h2 : (2 : K) ≠ 0) :
    CompatDD e.D e.s_Gamma_udd3 e.gammadown3 := by
  intro c a b; rw [← s_covd_dd_spec]; exact metric_compat_dd e h h2 c a b

/-- T8 ('uu') in the vocabulary of Part 1: `∇γ⁻¹ = 0` (product rule on γ⁻¹γ = 1). -/
theorem compatUU_of_metricOK (e : Env K) (h : MetricOK e) (h2 : (2 : K) ≠ 0) (hp : ProdRuleInv e) :
    CompatUU e.D e.s_Gamma_udd3 e.gammaup3 := by
  intro c a b; rw [← s_covd_uu_spec]; exact metric_compat_uu e h h2 hp c a b

section code

/-- rank 1: `s_covd(γ_{ab} v^b, 'd') = γ_{ab} s_covd(v, 'u')`. -/
theorem lower_commutes_u (e : Env K) (h : MetricOK e) (h2 : (2 : K) ≠ 0) (v : Fin 3 → K) (hv : ProdRule1 e.D e.gammadown3 v) (c a : Fin 3) :
    s_covd_d e (con1 e.gammadown3 v) c a = ∑ b, e.gammadown3 a b * s_covd_u e v c b := by
  simp only [s_covd_d_spec, s_covd_u_spec e (h.symG e)]
  exact lower1 e.D e.s_Gamma_udd3 e.gammadown3 v (compatDD_of_metricOK e h h2) hv c a

/-- `s_covd(γ_{am} t^m{}_b, 'dd') = γ_{am} s_covd(t, 'ud')`. -/
theorem lower_first_ud (e : Env K) (h : MetricOK e) (h2 : (2 : K) ≠ 0) (t : Fin 3 → Fin 3 → K) (ht : ProdRuleL e.D e.gammadown3 t) (c a b : Fin 3) :
    s_covd_dd e (conL e.gammadown3 t) c a b = ∑ m, e.gammadown3 a m * s_covd_ud e t c m b := by
  simp only [s_covd_dd_spec, s_covd_ud_spec]
  exact lowerL_ud e.D e.s_Gamma_udd3 e.gammadown3 t (compatDD_of_metricOK e h h2) ht c a b

/-- `s_covd(γ_{am} t^{mb}, 'du') = γ_{am} s_covd(t, 'uu')`. -/
theorem lower_first_uu (e : Env K) (h : MetricOK e) (h2 : (2 : K) ≠ 0) (t : Fin 3 → Fin 3 → K) (ht : ProdRuleL e.D e.gammadown3 t) (c a b : Fin 3) :
    s_covd_du e (conL e.gammadown3 t) c a b = ∑ m, e.gammadown3 a m * s_covd_uu e t c m b := by
  simp only [s_covd_du_spec, s_covd_uu_spec]
  exact lowerL_uu e.D e.s_Gamma_udd3 e.gammadown3 t (compatDD_of_metricOK e h h2) ht c a b

/-- `s_covd(γ_{bm} t_a{}^m, 'dd') = γ_{bm} s_covd(t, 'du')`. -/
theorem lower_second_du (e : Env K) (h : MetricOK e) (h2 : (2 : K) ≠ 0) (t : Fin 3 → Fin 3 → K) (ht : ProdRuleR e.D e.gammadown3 t) (c a b : Fin 3) :
    s_covd_dd e (conR e.gammadown3 t) c a b = ∑ m, e.gammadown3 b m * s_covd_du e t c a m := by
  simp only [s_covd_dd_spec, s_covd_du_spec]
  exact lowerR_du e.D e.s_Gamma_udd3 e.gammadown3 t (compatDD_of_metricOK e h h2) ht c a b

/-- `s_covd(γ_{bm} t^{am}, 'ud') = γ_{bm} s_covd(t, 'uu')`. -/
theorem lower_second_uu (e : Env K) (h : MetricOK e) (h2 : (2 : K) ≠ 0) (t : Fin 3 → Fin 3 → K) (ht : ProdRuleR e.D e.gammadown3 t) (c a b : Fin 3) :
    s_covd_ud e (conR e.gammadown3 t) c a b = ∑ m, e.gammadown3 b m * s_covd_uu e t c a m := by
  simp only [s_covd_ud_spec, s_covd_uu_spec]
  exact lowerR_uu e.D e.s_Gamma_udd3 e.gammadown3 t (compatDD_of_metricOK e h h2) ht c a b

/-- `s_covd(γ^{am} t_{mb}, 'ud') = γ^{am} s_covd(t, 'dd')`. -/
theorem raise_first_dd (e : Env K) (h : MetricOK e) (h2 : (2 : K) ≠ 0) (hp : ProdRuleInv e)
    (t : Fin 3 → Fin 3 → K) (ht : ProdRuleL e.D e.gammaup3 t) (c a b : Fin 3) :
    s_covd_ud e (conL e.gammaup3 t) c a b = ∑ m, e.gammaup3 a m * s_covd_dd e t c m b := by
  simp only [s_covd_dd_spec, s_covd_ud_spec]
  exact raiseL_dd e.D e.s_Gamma_udd3 e.gammaup3 t (compatUU_of_metricOK e h h2 hp) ht c a b

/-- `s_covd(γ^{am} t_m{}^b, 'uu') = γ^{am} s_covd(t, 'du')`. -/
theorem raise_first_du (e : Env K) (h : MetricOK e) (h2 : (2 : K) ≠ 0) (hp : ProdRuleInv e)
    (t : Fin 3 → Fin 3 → K) (ht : ProdRuleL e.D e.gammaup3 t) (c a b : Fin 3) :
    s_covd_uu e (conL e.gammaup3 t) c a b = ∑ m, e.gammaup3 a m * s_covd_du e t c m b := by
  simp only [s_covd_du_spec, s_covd_uu_spec]
  exact raiseL_du e.D e.s_Gamma_udd3 e.gammaup3 t (compatUU_of_metricOK e h h2 hp) ht c a b

/-- `s_covd(γ^{bm} t_{am}, 'du') = γ^{bm} s_covd(t, 'dd')`. -/
theorem raise_second_dd (e : Env K) (h : MetricOK e) (h2 : (2 : K) ≠ 0) (hp : ProdRuleInv e)
    (t : Fin 3 → Fin 3 → K) (ht : ProdRuleR e.D e.gammaup3 t) (c a b : Fin 3) :
    s_covd_du e (conR e.gammaup3 t) c a b = ∑ m, e.gammaup3 b m * s_covd_dd e t c a m := by
  simp only [s_covd_dd_spec, s_covd_du_spec]
  exact raiseR_dd e.D e.s_Gamma_udd3 e.gammaup3 t (compatUU_of_metricOK e h h2 hp) ht c a b

/-- `s_covd(γ^{bm} t^a{}_m, 'uu') = γ^{bm} s_covd(t, 'ud')`. -/
theorem raise_second_ud (e : Env K) (h : MetricOK e) (h2 : (2 : K) ≠ 0) (hp : ProdRuleInv e)
    (t : Fin 3 → Fin 3 → K) (ht : ProdRuleR e.D e.gammaup3 t) (c a b : Fin 3) :
    s_covd_uu e (conR e.gammaup3 t) c a b = ∑ m, e.gammaup3 b m * s_covd_ud e t c a m := by
  simp only [s_covd_ud_spec, s_covd_uu_spec]
  exact raiseR_ud e.D e.s_Gamma_udd3 e.gammaup3 t (compatUU_of_metricOK e h h2 hp) ht c a b

end code

end AurelVerif.C05L
