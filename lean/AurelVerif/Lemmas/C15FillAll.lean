/-
Lemmas/C15FillAll.lean — `fill_is_identity` for EVERY dimension `n`.

The rules of Lemmas/C15FillHoare.lean applied to the loop structures that
tools/py2lean/symformulas.py regenerates from coresymbolic.py
(Gen/SymLoops.lean): for every method branch with fill loops, every `n`, every
lawful value type and every oracle `T` with exactly the index symmetries of the
tensor, the array the loops return holds `T q` at every index tuple `q`.

If the loops of coresymbolic.py change (other nest order, other skip
condition, other partner assignment) the regenerated `Prog` no longer has the
shape these proofs walk through and the proofs fail — or, when the shape is
the same but a partner is wrong, the side condition of the `store_rule`
(`± T cur = T partner`) is unprovable.
-/
import AurelVerif.Lemmas.C15FillHoare
import AurelVerif.Gen.SymLoops

namespace AurelVerif.SymFillAll
open AurelVerif.SymFill AurelVerif.SymFillLemmas AurelVerif.Gen

section
variable {V : Type} {n : Nat} {ops : Ops V} {T : List Nat → V}

theorem valid2_iff {a b : Nat} : Valid n 2 [a, b] ↔ a < n ∧ b < n := by simp [Valid]
theorem valid3_iff {a b c : Nat} : Valid n 3 [a, b, c] ↔ a < n ∧ b < n ∧ c < n := by simp [Valid]
theorem valid4_iff {a b c d : Nat} : Valid n 4 [a, b, c, d] ↔ a < n ∧ b < n ∧ c < n ∧ d < n := by
  simp [Valid]

theorem len2 {l : List Nat} (h : l.length = 2) : ∃ a b, l = [a, b] := by
  match l, h with | [a, b], _ => exact ⟨a, b, rfl⟩
theorem len3 {l : List Nat} (h : l.length = 3) : ∃ a b c, l = [a, b, c] := by
  match l, h with | [a, b, c], _ => exact ⟨a, b, c, rfl⟩
theorem len4 {l : List Nat} (h : l.length = 4) : ∃ a b c d, l = [a, b, c, d] := by
  match l, h with | [a, b, c, d], _ => exact ⟨a, b, c, d, rfl⟩

/-! ### Christoffel symbols (both kinds): symmetric in the last two indices -/

theorem gamma_sym (hT : Invariant n 3 ops gensGamma T) {i j k : Nat} (hv : Valid n 3 [i, j, k]) :
    T [i, k, j] = T [i, j, k] := by
  have := hT ⟨[0, 2, 1], false⟩ (by simp [gensGamma]) [i, j, k] hv
  simpa [SymGen.act] using this

theorem triple_Gamma_udd (hT : Invariant n 3 ops gensGamma T) :
    Triple n 3 3 ops T 0 (fun _ => True) SymLoops.Gamma_udd.body := by
  apply triple_loop 0 (by omega) (by omega)
  apply triple_loop 1 (by omega) (by omega)
  apply triple_loop 2 (by omega) (by omega)
  apply triple_ifNotDone 3 rfl rfl _ [0, 1, 2]
  · intro pre hpre
    obtain ⟨a, b, c, rfl⟩ := len3 hpre
    rfl
  · intro s0 hJ hv _
    obtain ⟨env, arr, done, val⟩ := s0
    obtain ⟨i, j, k, rfl⟩ := len3 hv.1
    obtain ⟨hi, hj, hk⟩ := valid3_iff.mp hv
    have a1 := compute_rule _ [0, 1, 2] _ hJ rfl (Mono.refl _) rfl
    have a2 := store_rule a1 [0, 1, 2] false hv rfl
    have a3 := mark_rule a2 [0, 1, 2] (List.mem_cons_self ..)
    have a4 := copy_rule a3 [0, 2, 1] [0, 1, 2] (List.mem_cons_self ..)
      (valid3_iff.mpr ⟨hi, hk, hj⟩) (gamma_sym hT hv)
    have a5 := mark_rule a4 [0, 2, 1] (List.mem_cons_self ..)
    exact ⟨_, a5, List.mem_cons_of_mem _ (List.mem_cons_self ..)⟩

theorem triple_Gamma_down (hT : Invariant n 3 ops gensGamma T) :
    Triple n 3 3 ops T 0 (fun _ => True) SymLoops.Gamma_down.body := by
  apply triple_loop 0 (by omega) (by omega)
  apply triple_loop 1 (by omega) (by omega)
  apply triple_loop 2 (by omega) (by omega)
  apply triple_ifNotDone 3 rfl rfl _ [0, 1, 2]
  · intro pre hpre
    obtain ⟨a, b, c, rfl⟩ := len3 hpre
    rfl
  · intro s0 hJ hv _
    obtain ⟨env, arr, done, val⟩ := s0
    obtain ⟨i, j, k, rfl⟩ := len3 hv.1
    obtain ⟨hi, hj, hk⟩ := valid3_iff.mp hv
    have a1 := compute_rule _ [0, 1, 2] _ hJ rfl (Mono.refl _) rfl
    have a2 := store_rule a1 [0, 1, 2] false hv rfl
    have a3 := mark_rule a2 [0, 1, 2] (List.mem_cons_self ..)
    have a4 := copy_rule a3 [0, 2, 1] [0, 1, 2] (List.mem_cons_self ..)
      (valid3_iff.mpr ⟨hi, hk, hj⟩) (gamma_sym hT hv)
    have a5 := mark_rule a4 [0, 2, 1] (List.mem_cons_self ..)
    exact ⟨_, a5, List.mem_cons_of_mem _ (List.mem_cons_self ..)⟩

/-! ### symmetric rank 2 (Ricci in both branches, Einstein) -/

theorem sym2_sym (hT : Invariant n 2 ops gensSym2 T) {i j : Nat} (hv : Valid n 2 [i, j]) :
    T [j, i] = T [i, j] := by
  have := hT ⟨[1, 0], false⟩ (by simp [gensSym2]) [i, j] hv
  simpa [SymGen.act] using this

/-- the loop nest shared by `Ricci_down` (both branches) and `Einstein_down` -/
theorem triple_sym2_body (hT : Invariant n 2 ops gensSym2 T) :
    Triple n 2 2 ops T 0 (fun _ => True)
      (.loop 0 (.loop 1 (.ifNotDone [0, 1] (.seq (.compute [0, 1]) (.seq (.store [0, 1] false)
        (.seq (.mark [some 0, some 1]) (.seq (.copy [1, 0] [0, 1]) (.mark [some 1, some 0])))))))) := by
  apply triple_loop 0 (by omega) (by omega)
  apply triple_loop 1 (by omega) (by omega)
  apply triple_ifNotDone 2 rfl rfl _ [0, 1]
  · intro pre hpre
    obtain ⟨a, b, rfl⟩ := len2 hpre
    rfl
  · intro s0 hJ hv _
    obtain ⟨env, arr, done, val⟩ := s0
    obtain ⟨i, j, rfl⟩ := len2 hv.1
    obtain ⟨hi, hj⟩ := valid2_iff.mp hv
    have a1 := compute_rule _ [0, 1] _ hJ rfl (Mono.refl _) rfl
    have a2 := store_rule a1 [0, 1] false hv rfl
    have a3 := mark_rule a2 [0, 1] (List.mem_cons_self ..)
    have a4 := copy_rule a3 [1, 0] [0, 1] (List.mem_cons_self ..)
      (valid2_iff.mpr ⟨hj, hi⟩) (sym2_sym hT hv)
    have a5 := mark_rule a4 [1, 0] (List.mem_cons_self ..)
    exact ⟨_, a5, List.mem_cons_of_mem _ (List.mem_cons_self ..)⟩

theorem triple_Ricci_down_cached (hT : Invariant n 2 ops gensSym2 T) :
    Triple n 2 2 ops T 0 (fun _ => True) SymLoops.Ricci_down_cached.body := triple_sym2_body hT

theorem triple_Ricci_down_direct (hT : Invariant n 2 ops gensSym2 T) :
    Triple n 2 2 ops T 0 (fun _ => True) SymLoops.Ricci_down_direct.body := triple_sym2_body hT

theorem triple_Einstein_down (hT : Invariant n 2 ops gensSym2 T) :
    Triple n 2 2 ops T 0 (fun _ => True) SymLoops.Einstein_down.body := triple_sym2_body hT

/-! ### `R^i_{jkh}`: antisymmetric in the last two indices, nothing else -/

theorem rup_anti (hT : Invariant n 4 ops gensRiemannUp T) {i j k h : Nat} (hv : Valid n 4 [i, j, k, h]) :
    T [i, j, h, k] = ops.neg (T [i, j, k, h]) := by
  have := hT ⟨[0, 1, 3, 2], true⟩ (by simp [gensRiemannUp]) [i, j, k, h] hv
  simpa [SymGen.act] using this

theorem triple_Riemann_uddd (laws : OpsLaws ops) (hT : Invariant n 4 ops gensRiemannUp T) :
    Triple n 4 4 ops T 0 (fun _ => True) SymLoops.Riemann_uddd.body := by
  apply triple_loop 0 (by omega) (by omega)
  apply triple_loop 1 (by omega) (by omega)
  apply triple_loop 2 (by omega) (by omega)
  apply triple_loop 3 (by omega) (by omega)
  apply triple_ifEq 4 2 3 (by omega) (by omega)
  · -- `if k == h: done[i,j,k,h] = 1`: the component vanishes by antisymmetry
    apply triple_mark_zero 4 _ [some 0, some 1, some 2, some 3]
    · intro s hJ hlt t ht
      have hl : s.env.length = 4 := hJ.elen
      obtain ⟨a, b, c, d, he⟩ := len4 hl
      rw [he] at hlt ht ⊢
      have e : expandIx n [a, b, c, d] [some 0, some 1, some 2, some 3] = [[a, b, c, d]] := rfl
      rw [e, List.mem_singleton] at ht
      subst ht
      exact ⟨⟨rfl, hlt⟩, rfl⟩
    · intro pre q hΦ hq hqd
      obtain ⟨a, b, c, d, rfl⟩ := len4 hq.1
      have hqd' : pre = [a, b, c, d] := by rw [← hqd]; rfl
      subst hqd'
      have hcd : c = d := hΦ.2
      subst hcd
      exact laws.eq_zero_of_neg_eq _ (rup_anti hT hq).symm
  · apply triple_ifNotDone 4 rfl rfl _ [0, 1, 2, 3]
    · intro pre hpre
      obtain ⟨a, b, c, d, rfl⟩ := len4 hpre
      rfl
    · intro s0 hJ hv _
      obtain ⟨env, arr, done, val⟩ := s0
      obtain ⟨i, j, k, h, rfl⟩ := len4 hv.1
      obtain ⟨hi, hj, hk, hh⟩ := valid4_iff.mp hv
      have a1 := compute_rule _ [0, 1, 2, 3] _ hJ rfl (Mono.refl _) rfl
      have a2 := store_rule a1 [0, 1, 2, 3] false hv rfl
      have a3 := store_rule a2 [0, 1, 3, 2] true (valid4_iff.mpr ⟨hi, hj, hh, hk⟩) (rup_anti hT hv).symm
      have a4 := mark_rule a3 [0, 1, 2, 3] (List.mem_cons_of_mem _ (List.mem_cons_self ..))
      have a5 := mark_rule a4 [0, 1, 3, 2] (List.mem_cons_self ..)
      exact ⟨_, a5, List.mem_cons_of_mem _ (List.mem_cons_self ..)⟩

/-! ### `R_{ijkh}`: both antisymmetries and the pair symmetry -/

section down
variable (hT : Invariant n 4 ops gensRiemannDown T)
include hT

theorem rdn_a12 {i j k h : Nat} (hv : Valid n 4 [i, j, k, h]) :
    T [j, i, k, h] = ops.neg (T [i, j, k, h]) := by
  have := hT ⟨[1, 0, 2, 3], true⟩ (by simp [gensRiemannDown]) [i, j, k, h] hv
  simpa [SymGen.act] using this

theorem rdn_a34 {i j k h : Nat} (hv : Valid n 4 [i, j, k, h]) :
    T [i, j, h, k] = ops.neg (T [i, j, k, h]) := by
  have := hT ⟨[0, 1, 3, 2], true⟩ (by simp [gensRiemannDown]) [i, j, k, h] hv
  simpa [SymGen.act] using this

theorem rdn_pair {i j k h : Nat} (hv : Valid n 4 [i, j, k, h]) :
    T [k, h, i, j] = T [i, j, k, h] := by
  have := hT ⟨[2, 3, 0, 1], false⟩ (by simp [gensRiemannDown]) [i, j, k, h] hv
  simpa [SymGen.act] using this

/-- the slice `done[i,j,:,:] = 1` under `i == j` -/
theorem rdn_slice (laws : OpsLaws ops) (Φ : List Nat → Prop) :
    Triple n 4 4 ops T 2 (fun pre => Φ pre ∧ pre.getD 0 0 = pre.getD 1 0)
      (.seq (.mark [some 0, some 1, none, none]) .skip) := by
  apply triple_mark_zero 2 _ [some 0, some 1, none, none]
  · intro s hJ hlt t ht
    obtain ⟨a, b, c, d, he⟩ := len4 hJ.elen
    rw [he] at hlt ht ⊢
    have ha : a < n := hlt a (by simp)
    have hb : b < n := hlt b (by simp)
    simp only [expandIx, lookupVar, List.map_cons, List.map_nil,
      List.mem_map, List.mem_flatMap, List.mem_range, List.getD_cons_zero, List.getD_cons_succ] at ht
    obtain ⟨t1, ⟨t2, ⟨x, hx, t3, ⟨y, hy, ht3⟩, rfl⟩, rfl⟩, rfl⟩ := ht
    simp only [List.mem_singleton] at ht3
    subst ht3
    exact ⟨valid4_iff.mpr ⟨ha, hb, hx, hy⟩, rfl⟩
  · intro pre q hΦ hq hqd
    obtain ⟨a, b, c, d, rfl⟩ := len4 hq.1
    have hqd' : pre = [a, b] := by rw [← hqd]; rfl
    subst hqd'
    have hab : a = b := hΦ.2
    subst hab
    exact laws.eq_zero_of_neg_eq _ (rdn_a12 hT hq).symm

/-- `if k == h: done[i,j,k,h] = 1` -/
theorem rdn_diag (laws : OpsLaws ops) (Φ : List Nat → Prop) :
    Triple n 4 4 ops T 4 (fun pre => Φ pre ∧ pre.getD 2 0 = pre.getD 3 0)
      (.seq (.mark [some 0, some 1, some 2, some 3]) .skip) := by
  apply triple_mark_zero 4 _ [some 0, some 1, some 2, some 3]
  · intro s hJ hlt t ht
    obtain ⟨a, b, c, d, he⟩ := len4 hJ.elen
    rw [he] at hlt ht ⊢
    have e : expandIx n [a, b, c, d] [some 0, some 1, some 2, some 3] = [[a, b, c, d]] := rfl
    rw [e, List.mem_singleton] at ht
    subst ht
    exact ⟨⟨rfl, hlt⟩, rfl⟩
  · intro pre q hΦ hq hqd
    obtain ⟨a, b, c, d, rfl⟩ := len4 hq.1
    have hqd' : pre = [a, b, c, d] := by rw [← hqd]; rfl
    subst hqd'
    have hcd : c = d := hΦ.2
    subst hcd
    exact laws.eq_zero_of_neg_eq _ (rdn_a34 hT hq).symm

theorem triple_Riemann_down_direct (laws : OpsLaws ops) :
    Triple n 4 4 ops T 0 (fun _ => True) SymLoops.Riemann_down_direct.body := by
  apply triple_loop 0 (by omega) (by omega)
  apply triple_loop 1 (by omega) (by omega)
  apply triple_ifEq 2 0 1 (by omega) (by omega)
  · exact rdn_slice hT laws _
  apply triple_loop 2 (by omega) (by omega)
  apply triple_loop 3 (by omega) (by omega)
  apply triple_ifEq 4 2 3 (by omega) (by omega)
  · exact rdn_diag hT laws _
  apply triple_ifNotDone 4 rfl rfl _ [0, 1, 2, 3]
  · intro pre hpre
    obtain ⟨a, b, c, d, rfl⟩ := len4 hpre
    rfl
  · intro s0 hJ hv _
    obtain ⟨env, arr, done, val⟩ := s0
    obtain ⟨i, j, k, h, rfl⟩ := len4 hv.1
    obtain ⟨hi, hj, hk, hh⟩ := valid4_iff.mp hv
    have v1 : Valid n 4 [i, j, h, k] := valid4_iff.mpr ⟨hi, hj, hh, hk⟩
    have v2 : Valid n 4 [j, i, k, h] := valid4_iff.mpr ⟨hj, hi, hk, hh⟩
    have v3 : Valid n 4 [j, i, h, k] := valid4_iff.mpr ⟨hj, hi, hh, hk⟩
    have v4 : Valid n 4 [k, h, i, j] := valid4_iff.mpr ⟨hk, hh, hi, hj⟩
    have v5 : Valid n 4 [k, h, j, i] := valid4_iff.mpr ⟨hk, hh, hj, hi⟩
    have v6 : Valid n 4 [h, k, i, j] := valid4_iff.mpr ⟨hh, hk, hi, hj⟩
    have v7 : Valid n 4 [h, k, j, i] := valid4_iff.mpr ⟨hh, hk, hj, hi⟩
    have e1 : ops.neg (T [i, j, k, h]) = T [i, j, h, k] := (rdn_a34 hT hv).symm
    have e2 : ops.neg (T [i, j, k, h]) = T [j, i, k, h] := (rdn_a12 hT hv).symm
    have e3 : T [i, j, k, h] = T [j, i, h, k] := by
      rw [rdn_a34 hT v2, rdn_a12 hT hv, laws.neg_neg]
    have e4 : T [i, j, k, h] = T [k, h, i, j] := (rdn_pair hT hv).symm
    have e5 : ops.neg (T [i, j, k, h]) = T [k, h, j, i] := by
      rw [rdn_a34 hT v4, rdn_pair hT hv]
    have e6 : ops.neg (T [i, j, k, h]) = T [h, k, i, j] := by
      rw [rdn_a12 hT v4, rdn_pair hT hv]
    have e7 : T [i, j, k, h] = T [h, k, j, i] := by
      rw [rdn_a34 hT v6, ← e6, laws.neg_neg]
    have a1 := compute_rule _ [0, 1, 2, 3] _ hJ rfl (Mono.refl _) rfl
    have a2 := store_rule a1 [0, 1, 2, 3] false hv rfl
    have a3 := store_rule a2 [0, 1, 3, 2] true v1 e1
    have a4 := store_rule a3 [1, 0, 2, 3] true v2 e2
    have a5 := store_rule a4 [1, 0, 3, 2] false v3 e3
    have a6 := mark_rule a5 [0, 1, 2, 3] (by simp [evalIx, lookupVar])
    have a7 := mark_rule a6 [0, 1, 3, 2] (by simp [evalIx, lookupVar])
    have a8 := mark_rule a7 [1, 0, 2, 3] (by simp [evalIx, lookupVar])
    have a9 := mark_rule a8 [1, 0, 3, 2] (by simp [evalIx, lookupVar])
    have b1 := store_rule a9 [2, 3, 0, 1] false v4 e4
    have b2 := store_rule b1 [2, 3, 1, 0] true v5 e5
    have b3 := store_rule b2 [3, 2, 0, 1] true v6 e6
    have b4 := store_rule b3 [3, 2, 1, 0] false v7 e7
    have b5 := mark_rule b4 [2, 3, 0, 1] (by simp [evalIx, lookupVar])
    have b6 := mark_rule b5 [2, 3, 1, 0] (by simp [evalIx, lookupVar])
    have b7 := mark_rule b6 [3, 2, 0, 1] (by simp [evalIx, lookupVar])
    have b8 := mark_rule b7 [3, 2, 1, 0] (by simp [evalIx, lookupVar])
    exact ⟨_, b8, by simp [evalIx, lookupVar]⟩

theorem triple_Riemann_down_cached (laws : OpsLaws ops) :
    Triple n 4 4 ops T 0 (fun _ => True) SymLoops.Riemann_down_cached.body := by
  apply triple_loop 0 (by omega) (by omega)
  apply triple_loop 1 (by omega) (by omega)
  apply triple_ifEq 2 0 1 (by omega) (by omega)
  · exact rdn_slice hT laws _
  apply triple_loop 2 (by omega) (by omega)
  apply triple_loop 3 (by omega) (by omega)
  apply triple_ifEq 4 2 3 (by omega) (by omega)
  · exact rdn_diag hT laws _
  apply triple_ifNotDone 4 rfl rfl _ [0, 1, 2, 3]
  · intro pre hpre
    obtain ⟨a, b, c, d, rfl⟩ := len4 hpre
    rfl
  · intro s0 hJ hv _
    obtain ⟨env, arr, done, val⟩ := s0
    obtain ⟨i, j, k, h, rfl⟩ := len4 hv.1
    obtain ⟨hi, hj, hk, hh⟩ := valid4_iff.mp hv
    have v1 : Valid n 4 [i, j, h, k] := valid4_iff.mpr ⟨hi, hj, hh, hk⟩
    have v2 : Valid n 4 [j, i, k, h] := valid4_iff.mpr ⟨hj, hi, hk, hh⟩
    have v3 : Valid n 4 [j, i, h, k] := valid4_iff.mpr ⟨hj, hi, hh, hk⟩
    have v4 : Valid n 4 [k, h, i, j] := valid4_iff.mpr ⟨hk, hh, hi, hj⟩
    have v5 : Valid n 4 [k, h, j, i] := valid4_iff.mpr ⟨hk, hh, hj, hi⟩
    have v6 : Valid n 4 [h, k, i, j] := valid4_iff.mpr ⟨hh, hk, hi, hj⟩
    have v7 : Valid n 4 [h, k, j, i] := valid4_iff.mpr ⟨hh, hk, hj, hi⟩
    have e1 : ops.neg (T [i, j, k, h]) = T [i, j, h, k] := (rdn_a34 hT hv).symm
    have e2 : ops.neg (T [i, j, k, h]) = T [j, i, k, h] := (rdn_a12 hT hv).symm
    have e3 : T [i, j, k, h] = T [j, i, h, k] := by
      rw [rdn_a34 hT v2, rdn_a12 hT hv, laws.neg_neg]
    have e4 : T [i, j, k, h] = T [k, h, i, j] := (rdn_pair hT hv).symm
    have e5 : ops.neg (T [i, j, k, h]) = T [k, h, j, i] := by
      rw [rdn_a34 hT v4, rdn_pair hT hv]
    have e6 : ops.neg (T [i, j, k, h]) = T [h, k, i, j] := by
      rw [rdn_a12 hT v4, rdn_pair hT hv]
    have e7 : T [i, j, k, h] = T [h, k, j, i] := by
      rw [rdn_a34 hT v6, ← e6, laws.neg_neg]
    have a1 := compute_rule _ [0, 1, 2, 3] _ hJ rfl (Mono.refl _) rfl
    have a2 := store_rule a1 [0, 1, 2, 3] false hv rfl
    have a2' := load_rule a2 [0, 1, 2, 3] (List.mem_cons_self ..) rfl
    have a2'' := store_rule a2' [0, 1, 2, 3] false hv rfl
    have a3 := store_rule a2'' [0, 1, 3, 2] true v1 e1
    have a4 := store_rule a3 [1, 0, 2, 3] true v2 e2
    have a5 := store_rule a4 [1, 0, 3, 2] false v3 e3
    have a6 := mark_rule a5 [0, 1, 2, 3] (by simp [evalIx, lookupVar])
    have a7 := mark_rule a6 [0, 1, 3, 2] (by simp [evalIx, lookupVar])
    have a8 := mark_rule a7 [1, 0, 2, 3] (by simp [evalIx, lookupVar])
    have a9 := mark_rule a8 [1, 0, 3, 2] (by simp [evalIx, lookupVar])
    have b1 := store_rule a9 [2, 3, 0, 1] false v4 e4
    have b2 := store_rule b1 [2, 3, 1, 0] true v5 e5
    have b3 := store_rule b2 [3, 2, 0, 1] true v6 e6
    have b4 := store_rule b3 [3, 2, 1, 0] false v7 e7
    have b5 := mark_rule b4 [2, 3, 0, 1] (by simp [evalIx, lookupVar])
    have b6 := mark_rule b5 [2, 3, 1, 0] (by simp [evalIx, lookupVar])
    have b7 := mark_rule b6 [3, 2, 0, 1] (by simp [evalIx, lookupVar])
    have b8 := mark_rule b7 [3, 2, 1, 0] (by simp [evalIx, lookupVar])
    exact ⟨_, b8, by simp [evalIx, lookupVar]⟩

end down

end
end AurelVerif.SymFillAll
