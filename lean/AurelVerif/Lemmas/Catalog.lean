/-
Lemmas/Catalog.lean — helper lemmas and proofs for C18 (catalogues and name
parsing).  Core Lean only.
-/
import AurelVerif.Model.Catalog

set_option linter.unusedSimpArgs false
set_option linter.unusedVariables false

namespace AurelVerif.CatalogLemmas
open AurelVerif.Catalog

/-! ## Decimal numerals -/

theorem digitChar_facts : ∀ k : Fin 10,
    isDig (Char.ofNat (48 + k.val % 10)) = true ∧ (Char.ofNat (48 + k.val % 10)).toNat - 48 = k.val := by
  decide

theorem isDig_digitChar (n : Nat) : isDig (digitChar n) = true := by
  have h : n % 10 < 10 := Nat.mod_lt _ (by decide)
  have := (digitChar_facts ⟨n % 10, h⟩).1
  simpa [digitChar] using this

theorem digitChar_val (n : Nat) : (digitChar n).toNat - 48 = n % 10 := by
  have h : n % 10 < 10 := Nat.mod_lt _ (by decide)
  have := (digitChar_facts ⟨n % 10, h⟩).2
  simpa [digitChar] using this

theorem toDecAux_digits (f n : Nat) : ∀ c ∈ toDecAux f n, isDig c = true := by
  induction f generalizing n with
  | zero => intro c hc; simp [toDecAux] at hc
  | succ f ih =>
    intro c hc
    unfold toDecAux at hc
    split at hc
    · simp at hc; subst hc; exact isDig_digitChar n
    · simp only [List.mem_append, List.mem_singleton] at hc
      rcases hc with hc | hc
      · exact ih _ c hc
      · subst hc; exact isDig_digitChar _

theorem toDec_digits (n : Nat) : ∀ c ∈ toDec n, isDig c = true := toDecAux_digits _ _

theorem toDecAux_ne_nil (f n : Nat) : toDecAux (f + 1) n ≠ [] := by
  unfold toDecAux; split <;> simp

theorem toDec_ne_nil (n : Nat) : toDec n ≠ [] := toDecAux_ne_nil _ _

/-- fold of `digitsVal` from an arbitrary accumulator -/
def dvFold (acc : Option Nat) (s : Str) : Option Nat :=
  s.foldl (fun acc c => match acc with
    | some a => if isDig c then some (a * 10 + (c.toNat - 48)) else none
    | none => none) acc

theorem digitsVal_eq (s : Str) : digitsVal s = dvFold (some 0) s := rfl

theorem dvFold_append (acc : Option Nat) (s t : Str) : dvFold acc (s ++ t) = dvFold (dvFold acc s) t := by
  simp [dvFold, List.foldl_append]

theorem dvFold_toDecAux (f n : Nat) (hf : n < f) : dvFold (some 0) (toDecAux f n) = some n := by
  induction f generalizing n with
  | zero => omega
  | succ f ih =>
    unfold toDecAux
    split
    · rename_i h
      have hd := isDig_digitChar n
      have hv := digitChar_val n
      simp [dvFold, hd, hv, Nat.mod_eq_of_lt h]
    · rename_i h
      rw [dvFold_append, ih (n / 10) (by omega)]
      have hd := isDig_digitChar (n % 10)
      have hv := digitChar_val (n % 10)
      simp [dvFold, hd, hv]
      omega

theorem digitsVal_toDec (n : Nat) : digitsVal (toDec n) = some n :=
  dvFold_toDecAux (n + 1) n (by omega)

/-! ## `split`, `in` -/

theorem not_mem_of_isDig_false {c : Char} (hc : isDig c = false) (n : Nat) : c ∉ toDec n := by
  intro h; have := toDec_digits n c h; simp [hc] at this

theorem isPrefixOf_false_of_char {m : Str} {c : Char} (hm : c ∈ m) :
    ∀ {s : Str}, c ∉ s → m.isPrefixOf s = false := by
  induction m with
  | nil => simp at hm
  | cons a m ih =>
    intro s hs
    cases s with
    | nil => simp [List.isPrefixOf]
    | cons b s =>
      simp only [List.isPrefixOf_cons_cons]
      simp only [List.mem_cons, not_or] at hs
      rcases List.mem_cons.mp hm with h | h
      · subst h
        have : (c == b) = false := by simpa using hs.1
        simp [this]
      · simp [ih h hs.2]

theorem isInfix_false_of_char {m : Str} {c : Char} (hm : c ∈ m) :
    ∀ {s : Str}, c ∉ s → isInfix m s = false := by
  intro s
  induction s with
  | nil => intro _; cases m with
    | nil => simp at hm
    | cons a m => simp [isInfix]
  | cons b s ih =>
    intro hs
    have hs' : c ∉ s := fun h => hs (List.mem_cons_of_mem _ h)
    simp [isInfix, isPrefixOf_false_of_char hm hs, ih hs']

theorem isPrefixOf_append_self (m s : Str) : m.isPrefixOf (m ++ s) = true := by
  induction m with
  | nil => simp [List.isPrefixOf]
  | cons a m ih => simp [ih]

theorem isInfix_of_prefix {m s : Str} (h : m.isPrefixOf s = true) : isInfix m s = true := by
  cases s with
  | nil => cases m with
    | nil => rfl
    | cons a m => simp [List.isPrefixOf] at h
  | cons b s => simp [isInfix, h]

theorem isInfix_append_left (m a s : Str) (h : isInfix m s = true) : isInfix m (a ++ s) = true := by
  induction a with
  | nil => simpa using h
  | cons b a ih => simp [isInfix, ih]

theorem isInfix_mid (m a b : Str) : isInfix m (a ++ m ++ b) = true := by
  rw [List.append_assoc]
  exact isInfix_append_left m a _ (isInfix_of_prefix (isPrefixOf_append_self m b))

theorem splitGo_none {sep : Str} {c : Char} (hm : c ∈ sep) :
    ∀ {s : Str}, c ∉ s → splitGo sep s 0 = [s] := by
  intro s
  induction s with
  | nil => intro _; rfl
  | cons b s ih =>
    intro hs
    have hs' : c ∉ s := fun h => hs (List.mem_cons_of_mem _ h)
    simp [splitGo, isPrefixOf_false_of_char hm hs, ih hs', consHead]

/-- no separator character missing from `s` ⇒ `s.split(sep) = [s]` -/
theorem split_none {sep s : Str} {c : Char} (hm : c ∈ sep) (hs : c ∉ s) : split sep s = [s] :=
  splitGo_none hm hs

theorem splitGo_skip (sep : Str) : ∀ (t b : Str), splitGo sep (t ++ b) t.length = splitGo sep b 0 := by
  intro t
  induction t with
  | nil => intro b; rfl
  | cons a t ih => intro b; simp [splitGo, ih]

/-- the first occurrence of `sep` is where its first character first occurs -/
theorem split_first' {c : Char} {sep' : Str} : ∀ {a : Str} (b : Str), c ∉ a →
    split (c :: sep') (a ++ c :: (sep' ++ b)) = a :: split (c :: sep') b := by
  intro a
  induction a with
  | nil =>
    intro b _
    have h := isPrefixOf_append_self (c :: sep') b
    simp only [List.cons_append] at h
    simp only [split, List.nil_append, splitGo, h, if_true, List.length_cons, Nat.add_sub_cancel]
    rw [splitGo_skip]
  | cons x a ih =>
    intro b hx
    simp only [List.mem_cons, not_or] at hx
    have hne : (c == x) = false := by simpa using hx.1
    have := ih b hx.2
    simp only [split] at this ⊢
    simp only [List.cons_append, splitGo, List.isPrefixOf_cons_cons, hne, Bool.false_and]
    rw [this]
    simp [consHead]

theorem split_first {c : Char} {sep' a : Str} (b : Str) (h : c ∉ a) :
    split (c :: sep') (a ++ (c :: sep') ++ b) = a :: split (c :: sep') b := by
  have := split_first' (sep' := sep') b h
  simpa using this

/-! ## `int()` of a printed natural -/

theorem isWs_of_isDig {c : Char} (h : isDig c = true) : isWs c = false := by
  simp only [isDig, Bool.and_eq_true, decide_eq_true_eq] at h
  simp only [isWs, Bool.or_eq_false_iff, Bool.and_eq_false_iff, decide_eq_false_iff_not, beq_eq_false_iff_ne]
  omega

theorem dropWhile_head_false {p : Char → Bool} : ∀ {s : Str},
    (∀ c, s.head? = some c → p c = false) → s.dropWhile p = s := by
  intro s h
  cases s with
  | nil => rfl
  | cons a s => simp [List.dropWhile, h a rfl]

theorem strip_digits {s : Str} (hd : ∀ c ∈ s, isDig c = true) : strip s = s := by
  unfold strip
  have h1 : s.dropWhile isWs = s := dropWhile_head_false (fun c hc =>
    isWs_of_isDig (hd c (List.mem_of_mem_head? hc)))
  rw [h1]
  have h2 : s.reverse.dropWhile isWs = s.reverse := dropWhile_head_false (fun c hc =>
    isWs_of_isDig (hd c (by have := List.mem_of_mem_head? hc; simpa using this)))
  rw [h2, List.reverse_reverse]

theorem pyNat_digits {s : Str} (hne : s ≠ []) (hd : ∀ c ∈ s, isDig c = true) :
    pyNat s = digitsVal s := by
  have hu : '_' ∉ s := fun h => by have := hd _ h; revert this; decide
  have hs : split ['_'] s = [s] := split_none (c := '_') (by simp) hu
  have hall : s.all isDig = true := by simpa [List.all_eq_true] using hd
  have hemp : s.isEmpty = false := by cases s <;> simp_all
  simp [pyNat, hs, hall, hemp]

theorem pyInt_digits {s : Str} (hne : s ≠ []) (hd : ∀ c ∈ s, isDig c = true) :
    pyInt s = (digitsVal s).map fun n => (n : Int) := by
  unfold pyInt
  rw [strip_digits hd]
  cases s with
  | nil => exact absurd rfl hne
  | cons a r =>
    have ha := hd a (List.mem_cons_self ..)
    have h1 : a ≠ '-' := by intro h; subst h; revert ha; decide
    have h2 : a ≠ '+' := by intro h; subst h; revert ha; decide
    split
    · rename_i r' heq; injection heq with h _; exact absurd h h1
    · rename_i r' heq; injection heq with h _; exact absurd h h2
    · rw [pyNat_digits hne hd]

theorem pyInt_toDec (n : Nat) : pyInt (toDec n) = some (n : Int) := by
  rw [pyInt_digits (toDec_ne_nil n) (toDec_digits n), digitsVal_toDec]; rfl

theorem pyIntE_toDec (n : Nat) : pyIntE (toDec n) = .ok (n : Int) := by
  simp [pyIntE, pyInt_toDec]

/-! ## T5: the matchers invert the naming scheme -/

theorem takeWhile_append_stop {p : Char → Bool} {c : Char} (r : Str) (hc : p c = false) :
    ∀ {a : Str}, (∀ x ∈ a, p x = true) →
      (a ++ c :: r).takeWhile p = a ∧ (a ++ c :: r).dropWhile p = c :: r := by
  intro a
  induction a with
  | nil => intro _; simp [List.takeWhile, List.dropWhile, hc]
  | cons x a ih =>
    intro h
    have hx := h x (List.mem_cons_self ..)
    have := ih (fun y hy => h y (List.mem_cons_of_mem _ hy))
    simp [List.takeWhile, List.dropWhile, hx, this]

theorem takeWhile_all {p : Char → Bool} : ∀ {a : Str}, (∀ x ∈ a, p x = true) →
    a.takeWhile p = a ∧ a.dropWhile p = [] := by
  intro a
  induction a with
  | nil => intro _; simp
  | cons x a ih =>
    intro h
    have hx := h x (List.mem_cons_self ..)
    have := ih (fun y hy => h y (List.mem_cons_of_mem _ hy))
    simp [List.takeWhile, List.dropWhile, hx, this]

theorem takeRun_stop {p : Char → Bool} {a : Str} {c : Char} (r : Str) (hne : a ≠ [])
    (ha : ∀ x ∈ a, p x = true) (hc : p c = false) : takeRun p (a ++ c :: r) = some (a, c :: r) := by
  have h := takeWhile_append_stop r hc ha
  unfold takeRun
  rw [h.1, h.2]
  cases a with
  | nil => exact absurd rfl hne
  | cons x a => rfl

theorem takeRun_end {p : Char → Bool} {a : Str} (hne : a ≠ [])
    (ha : ∀ x ∈ a, p x = true) : takeRun p a = some (a, []) := by
  have h := takeWhile_all ha
  unfold takeRun
  rw [h.1, h.2]
  cases a with
  | nil => exact absurd rfl hne
  | cons x a => rfl

theorem takeRun_toDec_stop (n : Nat) (c : Char) (r : Str) (hc : isDig c = false) :
    takeRun isDig (toDec n ++ c :: r) = some (toDec n, c :: r) :=
  takeRun_stop r (toDec_ne_nil n) (toDec_digits n) hc

theorem takeRun_toDec_end (n : Nat) : takeRun isDig (toDec n) = some (toDec n, []) :=
  takeRun_end (toDec_ne_nil n) (toDec_digits n)

/-- valid dataset key: non-empty thorn without ':', non-empty variable without white space -/
def KeyOK (k : KeyInfo) : Prop :=
  k.thorn ≠ [] ∧ (∀ c ∈ k.thorn, c ≠ ':') ∧ k.var ≠ [] ∧ (∀ c ∈ k.var, isWs c = false)

theorem optNum_some (lit : Str) (n : Nat) (r : Str) (hr : ∀ c, r.head? = some c → isDig c = false) :
    optNum lit (lit ++ (toDec n ++ r)) = (some n, r) := by
  have h1 : dropLit lit (lit ++ (toDec n ++ r)) = some (toDec n ++ r) := by
    simp [dropLit, isPrefixOf_append_self]
  have h2 : takeRun isDig (toDec n ++ r) = some (toDec n, r) := by
    cases r with
    | nil => simpa using takeRun_toDec_end n
    | cons c r => exact takeRun_toDec_stop n c r (hr c rfl)
  unfold optNum
  rw [h1]
  simp only [h2, digitsVal_toDec]

theorem optNum_none (lit : Str) (s : Str) (h : lit.isPrefixOf s = false) : optNum lit s = (none, s) := by
  simp [optNum, dropLit, h]

/-- the optional groups of rx_key on the text after `tl=<n>` -/
def parseTail (tail : Str) : Bool × Option Nat × Option Nat :=
  let mr : Bool × Str := match dropLit [' ', 'm', '=', '0'] tail with
    | some r' => (true, r')
    | none => (false, tail)
  let rr := optNum [' ', 'r', 'l', '='] mr.2
  let cr := optNum [' ', 'c', '='] rr.2
  (mr.1, rr.1, cr.1)

theorem parseKey_chain (thorn var : Str) (it tl : Nat) (tail : Str)
    (ht : thorn ≠ []) (htc : ∀ c ∈ thorn, c ≠ ':') (hv : var ≠ []) (hvc : ∀ c ∈ var, isWs c = false)
    (htail : ∀ x, tail.head? = some x → isDig x = false) :
    parseKey (thorn ++ ':' :: ':' :: (var ++ ' ' :: 'i' :: 't' :: '=' :: (toDec it ++ ' ' :: 't' :: 'l' :: '=' ::
        (toDec tl ++ tail)))) =
      some { thorn := thorn, var := var, it := it, tl := tl, m := (parseTail tail).1,
             rl := (parseTail tail).2.1, c := (parseTail tail).2.2 } := by
  have h1 : ∀ r, takeRun (fun c => c != ':') (thorn ++ ':' :: r) = some (thorn, ':' :: r) :=
    fun r => takeRun_stop r ht (fun x hx => by simpa using htc x hx) (by simp)
  have h2 : ∀ r, takeRun (fun c => !isWs c) (var ++ ' ' :: r) = some (var, ' ' :: r) :=
    fun r => takeRun_stop r hv (fun x hx => by simp [hvc x hx]) (by decide)
  have h3 : ∀ r, takeRun isDig (toDec it ++ ' ' :: r) = some (toDec it, ' ' :: r) :=
    fun r => takeRun_toDec_stop it ' ' r (by decide)
  have h4 : takeRun isDig (toDec tl ++ tail) = some (toDec tl, tail) := by
    cases tail with
    | nil => simpa using takeRun_toDec_end tl
    | cons x r => exact takeRun_toDec_stop tl x r (htail x rfl)
  simp only [parseKey, parseTail, h1, h2, h3, h4, dropLit, List.isPrefixOf_cons_cons, beq_self_eq_true,
    Bool.true_and, List.isPrefixOf_nil_left, if_true, List.length_cons, List.length_nil, List.drop_succ_cons,
    List.drop_zero, Option.bind_eq_bind, Option.bind_some, digitsVal_toDec, Option.pure_def]
  split <;> simp_all

theorem parse_format_key_lemma (k : KeyInfo) (hk : KeyOK k) : parseKey (formatKey k) = some k := by
  obtain ⟨ht, htc, hv, hvc⟩ := hk
  obtain ⟨thorn, var, it, tl, m, rl, c⟩ := k
  simp only at ht htc hv hvc
  have hC : ∀ cv : Nat, optNum [' ', 'c', '='] (' ' :: 'c' :: '=' :: toDec cv) = (some cv, []) := by
    intro cv
    have := optNum_some [' ', 'c', '='] cv [] (by simp)
    simpa using this
  have hR : ∀ (rv : Nat) (r : Str), (∀ c, r.head? = some c → isDig c = false) →
      optNum [' ', 'r', 'l', '='] (' ' :: 'r' :: 'l' :: '=' :: (toDec rv ++ r)) = (some rv, r) := by
    intro rv r hr
    have := optNum_some [' ', 'r', 'l', '='] rv r hr
    simpa using this
  have hR0 : ∀ rv : Nat, optNum [' ', 'r', 'l', '='] (' ' :: 'r' :: 'l' :: '=' :: toDec rv) = (some rv, []) := by
    intro rv; simpa using hR rv [] (by simp)
  have hR1 : ∀ rv cv : Nat, optNum [' ', 'r', 'l', '=']
      (' ' :: 'r' :: 'l' :: '=' :: (toDec rv ++ ' ' :: 'c' :: '=' :: toDec cv)) =
      (some rv, ' ' :: 'c' :: '=' :: toDec cv) := by
    intro rv cv; exact hR rv _ (by simp; decide)
  have hN1 : optNum [' ', 'r', 'l', '='] [] = (none, []) := by simp [optNum, dropLit, List.isPrefixOf]
  have hN2 : optNum [' ', 'c', '='] [] = (none, []) := by simp [optNum, dropLit, List.isPrefixOf]
  have hN3 : ∀ cv : Nat, optNum [' ', 'r', 'l', '='] (' ' :: 'c' :: '=' :: toDec cv) =
      (none, ' ' :: 'c' :: '=' :: toDec cv) := by
    intro cv; simp [optNum, dropLit, List.isPrefixOf]
  cases m <;> cases rl <;> cases c <;>
  · simp only [formatKey, List.append_assoc, List.cons_append, List.nil_append, if_true,
      Bool.false_eq_true, if_false]
    rw [parseKey_chain thorn var it tl _ ht htc hv hvc (by simp <;> decide)]
    simp [parseTail, dropLit, List.isPrefixOf, hC, hR0, hR1, hN1, hN2, hN3]

/-! ### file names -/

theorem firstSome_cons_some {β : Type} {f : Unit → Option β} {fs : List (Unit → Option β)} {b : β}
    (h : f () = some b) : firstSome (f :: fs) = some b := by
  simp [firstSome, h]

theorem firstSome_cons_none {β : Type} {f : Unit → Option β} {fs : List (Unit → Option β)}
    (h : f () = none) : firstSome (f :: fs) = firstSome fs := by
  simp [firstSome, h]

theorem takeWhile_run {p : Char → Bool} {a r : Str} (ha : ∀ x ∈ a, p x = true)
    (hr : ∀ c, r.head? = some c → p c = false) : (a ++ r).takeWhile p = a := by
  cases r with
  | nil => simpa using (takeWhile_all ha).1
  | cons c r => exact (takeWhile_append_stop r (hr c rfl) ha).1

theorem runSplits_head {p : Char → Bool} {a r : Str} (hne : a ≠ []) (ha : ∀ x ∈ a, p x = true)
    (hr : ∀ c, r.head? = some c → p c = false) :
    (runSplits p (a ++ r)).head? = some (a, r) := by
  unfold runSplits
  rw [takeWhile_run ha hr]
  cases a with
  | nil => exact absurd rfl hne
  | cons x a =>
    simp [List.range_succ_eq_map]

theorem firstSome_map_head {α β : Type} {l : List α} {x : α} (g : α → Unit → Option β) {b : β}
    (hl : l.head? = some x) (hb : g x () = some b) : firstSome (l.map g) = some b := by
  cases l with
  | nil => simp at hl
  | cons y l =>
    simp at hl; subst hl
    exact firstSome_cons_some hb

theorem firstSome_runSplits {β : Type} {p : Char → Bool} {a r : Str} (hne : a ≠ [])
    (ha : ∀ x ∈ a, p x = true) (hr : ∀ c, r.head? = some c → p c = false)
    (g : Str × Str → Unit → Option β) {b : β} (hb : g (a, r) () = some b) :
    firstSome ((runSplits p (a ++ r)).map g) = some b :=
  firstSome_map_head g (runSplits_head hne ha hr) hb

/-- a file-name description the naming scheme can produce and that is in the
canonical form the regex returns (a lone `.xyz` counts as the prefix) -/
def FileOK (f : FileInfo) : Prop :=
  (∀ t, f.thorn = some t → t ≠ [] ∧ ∀ c ∈ t, isWord c = true) ∧
  f.varOrGroup ≠ [] ∧ (∀ c ∈ f.varOrGroup, isVarCh c = true) ∧
  ¬ (f.xyzSuffix = true ∧ f.chunk = none ∧ f.xyzPrefix = false)

def fileTail (x1 : Bool) (ch : Option Nat) (x2 : Bool) : Str :=
  (if x1 then ['.', 'x', 'y', 'z'] else [])
    ++ ((match ch with | some c => ['.', 'f', 'i', 'l', 'e', '_'] ++ toDec c | none => [])
    ++ ((if x2 then ['.', 'x', 'y', 'z'] else []) ++ ['.', 'h', '5']))

def tail2 (x2 : Bool) : Str := (if x2 then ['.', 'x', 'y', 'z'] else []) ++ ['.', 'h', '5']

theorem h5After2_tail2 (x1 : Bool) (ch : Option Nat) (x2 : Bool) :
    h5After2 x1 ch (tail2 x2) = some (x1, ch, x2) := by
  cases x2 <;> simp [tail2, h5After2, firstSome, dropDotLit, dropLit, endH5, isDot, List.isPrefixOf]

def tail1 (ch : Option Nat) (x2 : Bool) : Str :=
  (match ch with | some c => ['.', 'f', 'i', 'l', 'e', '_'] ++ toDec c | none => []) ++ tail2 x2

theorem tail2_head (x2 : Bool) : ∀ c, (tail2 x2).head? = some c → isDig c = false := by
  intro c; cases x2 <;> simp [tail2] <;> (intro h; subst h; decide)

theorem h5After1_tail1 (x1 : Bool) (ch : Option Nat) (x2 : Bool) :
    h5After1 x1 (tail1 ch x2) = some (x1, ch, x2) := by
  cases ch with
  | none =>
    have h : dropDotLit ['f', 'i', 'l', 'e', '_'] (tail2 x2) = none := by
      cases x2 <;> simp [tail2, dropDotLit, dropLit, List.isPrefixOf]
    simp only [tail1, List.nil_append, h5After1]
    rw [firstSome_cons_none (by simp [h]), firstSome_cons_some (h5After2_tail2 x1 none x2)]
  | some c =>
    have h : dropDotLit ['f', 'i', 'l', 'e', '_'] (tail1 (some c) x2) = some (toDec c ++ tail2 x2) := by
      simp [tail1, dropDotLit, dropLit, isDot, List.isPrefixOf]
    unfold h5After1
    apply firstSome_cons_some
    simp only [h]
    apply firstSome_runSplits (toDec_ne_nil c) (toDec_digits c) (tail2_head x2)
    simp [digitsVal_toDec, h5After2_tail2]

theorem h5Tail_fileTail (x1 : Bool) (ch : Option Nat) (x2 : Bool)
    (hcanon : ¬ (x2 = true ∧ ch = none ∧ x1 = false)) :
    h5Tail ((if x1 then ['.', 'x', 'y', 'z'] else []) ++ tail1 ch x2) = some (x1, ch, x2) := by
  cases x1 with
  | true =>
    have h : dropDotLit ['x', 'y', 'z'] (['.', 'x', 'y', 'z'] ++ tail1 ch x2) = some (tail1 ch x2) := by
      simp [dropDotLit, dropLit, isDot, List.isPrefixOf]
    unfold h5Tail
    apply firstSome_cons_some
    simp only [if_true, h]
    exact h5After1_tail1 true ch x2
  | false =>
    have h : dropDotLit ['x', 'y', 'z'] (tail1 ch x2) = none := by
      cases ch with
      | some c => simp [tail1, dropDotLit, dropLit, List.isPrefixOf]
      | none =>
        cases x2 with
        | true => exact absurd ⟨rfl, rfl, rfl⟩ hcanon
        | false => simp [tail1, tail2, dropDotLit, dropLit, List.isPrefixOf]
    simp only [Bool.false_eq_true, if_false, List.nil_append, h5Tail]
    rw [firstSome_cons_none (by simp [h]), firstSome_cons_some (h5After1_tail1 false ch x2)]

theorem tail_head (x1 : Bool) (ch : Option Nat) (x2 : Bool) :
    ∀ c, ((if x1 then ['.', 'x', 'y', 'z'] else []) ++ tail1 ch x2).head? = some c → c = '.' := by
  intro c; cases x1 <;> cases ch <;> cases x2 <;> simp [tail1, tail2] <;> (intro h; exact h.symm)

theorem formatFile_eq (f : FileInfo) : formatFile f =
    (match f.thorn with | some t => t ++ ['-'] | none => []) ++
      (f.varOrGroup ++ ((if f.xyzPrefix then ['.', 'x', 'y', 'z'] else []) ++ tail1 f.chunk f.xyzSuffix)) := by
  obtain ⟨t, v, x1, ch, x2⟩ := f
  cases t <;> cases ch <;> simp [formatFile, tail1, tail2, List.append_assoc]

theorem mem_of_mem_dropWhile {p : Char → Bool} {x : Char} : ∀ {l : Str}, x ∈ l.dropWhile p → x ∈ l := by
  intro l
  induction l with
  | nil => simp
  | cons a l ih =>
    intro h
    simp only [List.dropWhile] at h
    split at h
    · exact List.mem_cons_of_mem _ (ih h)
    · exact h

theorem takeRun_snd {p : Char → Bool} {s a b : Str} (h : takeRun p s = some (a, b)) : b = s.dropWhile p := by
  unfold takeRun at h
  split at h
  · simp at h
  · simp at h; exact h.2.symm

theorem tail_no_dash (x1 : Bool) (ch : Option Nat) (x2 : Bool) :
    '-' ∉ (if x1 then ['.', 'x', 'y', 'z'] else []) ++ tail1 ch x2 := by
  have hd : ∀ n, '-' ∉ toDec n := fun n => not_mem_of_isDig_false (by decide) n
  cases x1 <;> cases ch <;> cases x2 <;> simp [tail1, tail2, hd]

theorem body_ok (thorn : Option Str) (f : FileInfo) (hv : f.varOrGroup ≠ [])
    (hvc : ∀ c ∈ f.varOrGroup, isVarCh c = true)
    (hcanon : ¬ (f.xyzSuffix = true ∧ f.chunk = none ∧ f.xyzPrefix = false)) :
    firstSome ((runSplits isVarCh (f.varOrGroup ++ ((if f.xyzPrefix then ['.', 'x', 'y', 'z'] else []) ++
        tail1 f.chunk f.xyzSuffix))).map fun vr => fun _ =>
      match h5Tail vr.2 with
      | some (x1, ch, x2) =>
        some ({ thorn := thorn, varOrGroup := vr.1, xyzPrefix := x1, chunk := ch, xyzSuffix := x2 } : FileInfo)
      | none => none) =
      some { thorn := thorn, varOrGroup := f.varOrGroup, xyzPrefix := f.xyzPrefix, chunk := f.chunk,
             xyzSuffix := f.xyzSuffix } := by
  apply firstSome_runSplits hv hvc
  · intro c hc
    have := tail_head _ _ _ c hc
    subst this; decide
  · simp [h5Tail_fileTail _ _ _ hcanon]

theorem parse_format_file_lemma (f : FileInfo) (hf : FileOK f) : matchH5File (formatFile f) = some f := by
  obtain ⟨ht, hv, hvc, hcanon⟩ := hf
  rw [formatFile_eq]
  obtain ⟨thorn, var, x1, ch, x2⟩ := f
  simp only at ht hv hvc hcanon ⊢
  cases thorn with
  | some t =>
    obtain ⟨htne, htc⟩ := ht t rfl
    have h1 : ∀ r, takeRun isWord (t ++ '-' :: r) = some (t, '-' :: r) :=
      fun r => takeRun_stop r htne htc (by decide)
    unfold matchH5File
    apply firstSome_cons_some
    simp only [List.append_assoc, List.cons_append, List.nil_append, h1]
    exact body_ok (some t) ⟨some t, var, x1, ch, x2⟩ hv hvc hcanon
  | none =>
    -- the optional thorn group cannot match: the run of word characters is not followed by '-'
    have hnodash : '-' ∉ var ++ ((if x1 then ['.', 'x', 'y', 'z'] else []) ++ tail1 ch x2) := by
      intro h
      rcases List.mem_append.mp h with h | h
      · have := hvc _ h; revert this; decide
      · exact tail_no_dash x1 ch x2 h
    unfold matchH5File
    rw [firstSome_cons_none]
    · apply firstSome_cons_some
      simp only [List.nil_append]
      exact body_ok none ⟨none, var, x1, ch, x2⟩ hv hvc hcanon
    · simp only [List.nil_append]
      split
      · rename_i t r heq
        have := takeRun_snd heq
        exact absurd (mem_of_mem_dropWhile (this ▸ List.mem_cons_self ..)) hnodash
      · rfl

/-! ### checkpoints -/

theorem parse_format_checkpoint_lemma (it : Nat) (ch : Option Nat) :
    matchCheckpoint (formatCheckpoint it ch) = some (it, ch) := by
  have hform : formatCheckpoint it ch = sChkPrefix ++ (toDec it ++
      ((match ch with | some c => ['.', 'f', 'i', 'l', 'e', '_'] ++ toDec c | none => []) ++ ['.', 'h', '5'])) := by
    cases ch <;> simp [formatCheckpoint, sChkPrefix, List.append_assoc]
  have hdrop : ∀ r, dropLit sChkPrefix (sChkPrefix ++ r) = some r := by
    intro r; simp [dropLit, isPrefixOf_append_self]
  have hhead : ∀ c, ((match ch with | some c => ['.', 'f', 'i', 'l', 'e', '_'] ++ toDec c | none => []) ++
      ['.', 'h', '5']).head? = some c → isDig c = false := by
    intro c; cases ch <;> simp <;> (intro h; subst h; decide)
  rw [hform]
  unfold matchCheckpoint
  have := hdrop (toDec it ++
      ((match ch with | some c => ['.', 'f', 'i', 'l', 'e', '_'] ++ toDec c | none => []) ++ ['.', 'h', '5']))
  simp only [sChkPrefix] at this
  simp only [sChkPrefix, this]
  apply firstSome_runSplits (toDec_ne_nil it) (toDec_digits it) hhead
  simp only [digitsVal_toDec]
  cases ch with
  | none =>
    rw [firstSome_cons_none (by simp [dropLit, List.isPrefixOf])]
    exact firstSome_cons_some (by simp [endH5, isDot])
  | some c =>
    apply firstSome_cons_some
    have h2 : dropLit ['.', 'f', 'i', 'l', 'e', '_'] (['.', 'f', 'i', 'l', 'e', '_'] ++ toDec c ++ ['.', 'h', '5'])
        = some (toDec c ++ ['.', 'h', '5']) := by
      simp [dropLit, List.isPrefixOf]
    simp only [h2]
    apply firstSome_runSplits (toDec_ne_nil c) (toDec_digits c) (by simp; decide)
    simp [digitsVal_toDec, endH5, isDot]

/-! ### directory independence -/

theorem splitGo_ne_nil (sep : Str) : ∀ (s : Str) (k : Nat), splitGo sep s k ≠ [] := by
  intro s
  induction s with
  | nil => intro k; simp [splitGo]
  | cons a s ih =>
    intro k
    cases k with
    | succ k => simpa [splitGo] using ih k
    | zero =>
      simp only [splitGo]
      split
      · simp
      · cases h : splitGo sep s 0 <;> simp [consHead]

theorem split1_decomp (c : Char) (b : Str) : ∀ a : Str, ∃ front : List Str,
    front ≠ [] ∧ split [c] (a ++ c :: b) = front ++ split [c] b := by
  intro a
  induction a with
  | nil =>
    refine ⟨[[]], by simp, ?_⟩
    simp [split, splitGo]
  | cons x a ih =>
    obtain ⟨front, hne, h⟩ := ih
    simp only [split] at h
    by_cases hx : c = x
    · subst hx
      refine ⟨[] :: front, by simp, ?_⟩
      simp [split, splitGo, h]
    · refine ⟨consHead x front, ?_, ?_⟩
      · cases front <;> simp [consHead]
      · have hne' : (c == x) = false := by simpa using hx
        simp only [split, List.cons_append, splitGo, List.isPrefixOf_cons_cons, hne', Bool.false_and]
        rw [h]
        cases front with
        | nil => exact absurd rfl hne
        | cons p ps => simp [consHead]

theorem basename_dir (dir name : Str) (hn : '/' ∉ name) : basename (dir ++ '/' :: name) = name := by
  obtain ⟨front, hne, h⟩ := split1_decomp '/' name dir
  have hs : split ['/'] name = [name] := split_none (c := '/') (by simp) hn
  unfold basename
  rw [h, hs]
  simp

theorem basename_plain (name : Str) (hn : '/' ∉ name) : basename name = name := by
  have hs : split ['/'] name = [name] := split_none (c := '/') (by simp) hn
  simp [basename, hs]

theorem parse_h5file_dir_lemma (dir name : Str) (hn : '/' ∉ name) :
    parseH5File (dir ++ '/' :: name) = parseH5File name := by
  simp [parseH5File, basename_dir dir name hn, basename_plain name hn]

theorem dropWhile_run {p : Char → Bool} {a r : Str} (ha : ∀ x ∈ a, p x = true)
    (hr : ∀ c, r.head? = some c → p c = false) : (a ++ r).dropWhile p = r := by
  cases r with
  | nil => simpa using (takeWhile_all ha).2
  | cons c r => exact (takeWhile_append_stop r (hr c rfl) ha).2

theorem chk_prefix_false (w T : Str) (hw : ∀ c ∈ w, (c != '.') = true)
    (hT : ∀ c, T.head? = some c → (c != '.') = false) (hT2 : ∀ r, T ≠ '.' :: 'c' :: r) :
    matchCheckpoint (w ++ T) = none := by
  have hpre : sChkPrefix.isPrefixOf (w ++ T) = false := by
    cases hp : sChkPrefix.isPrefixOf (w ++ T) with
    | false => rfl
    | true =>
      obtain ⟨r, hr⟩ := List.isPrefixOf_iff_prefix.mp hp
      have h1 : (w ++ T).dropWhile (fun c => c != '.') = T := dropWhile_run hw hT
      have h2 : (sChkPrefix ++ r).dropWhile (fun c => c != '.') =
          '.' :: 'c' :: 'h' :: 'k' :: 'p' :: 't' :: '.' :: 'i' :: 't' :: '_' :: r := by
        simp [sChkPrefix, List.dropWhile]
      rw [← hr, h2] at h1
      exact absurd h1.symm (hT2 _)
  unfold matchCheckpoint
  have hd : dropLit sChkPrefix (w ++ T) = none := by simp [dropLit, hpre]
  simp only [sChkPrefix] at hd
  simp [hd]

/-- a data-file name is never taken for a checkpoint -/
theorem checkpoint_not_file (f : FileInfo) (hf : FileOK f) : matchCheckpoint (formatFile f) = none := by
  obtain ⟨ht, hv, hvc, hcanon⟩ := hf
  rw [formatFile_eq]
  obtain ⟨thorn, var, x1, ch, x2⟩ := f
  simp only at ht hv hvc hcanon ⊢
  have hvar : ∀ c ∈ var, (c != '.') = true := by
    intro c hc
    have := hvc c hc
    have hne : c ≠ '.' := by intro h; subst h; revert this; decide
    simpa using hne
  have hT : ∀ c, ((if x1 then ['.', 'x', 'y', 'z'] else []) ++ tail1 ch x2).head? = some c →
      (c != '.') = false := by
    intro c hc
    have := tail_head x1 ch x2 c hc
    subst this; decide
  have hT2 : ∀ r, (if x1 then ['.', 'x', 'y', 'z'] else []) ++ tail1 ch x2 ≠ '.' :: 'c' :: r := by
    intro r; cases x1 <;> cases ch <;> cases x2 <;> simp [tail1, tail2]
  cases thorn with
  | none => simpa using chk_prefix_false var _ hvar hT hT2
  | some t =>
    have hw : ∀ c ∈ t ++ '-' :: var, (c != '.') = true := by
      intro c hc
      simp only [List.mem_append, List.mem_cons] at hc
      rcases hc with hc | hc | hc
      · have := (ht t rfl).2 c hc
        have hne : c ≠ '.' := by intro h; subst h; revert this; decide
        simpa using hne
      · subst hc; decide
      · exact hvar c hc
    have := chk_prefix_false (t ++ '-' :: var) _ hw hT hT2
    simpa [List.append_assoc] using this

theorem parseH5File_format_file (f : FileInfo) (hf : FileOK f) (hslash : '/' ∉ formatFile f) :
    parseH5File (formatFile f) = some (.data f) := by
  simp [parseH5File, basename_plain _ hslash, checkpoint_not_file f hf, parse_format_file_lemma f hf]

end AurelVerif.CatalogLemmas
