/-
Lemmas/C20LinErr.lean — the classical error bound of (multi)linear interpolation,
pure real analysis (no model):

  * `C2On g a b M`         `g` is continuous on `[a, b]`, twice differentiable in
                           `(a, b)` and `|g''| ≤ M` there (the weakest classical
                           hypothesis; nothing is asked at the end points beyond
                           continuity)
  * `lin_interp_error`     1-D: `|(1−t)·g(a) + t·g(b) − g(a + t(b−a))| ≤ (b−a)²·M/8`
                           for `0 ≤ t ≤ 1` (Rolle twice on
                           `L − g − K·(y−a)(b−y)`; the constant 1/8 is sharp: `g = y²`)
  * `trilinear_cell_error` 3-D tensor product on a cell `[x0,x1]×[y0,y1]×[z0,z1]`:
                           `|Σ 8 weights × corner values − f(x,y,z)|
                              ≤ ((x1−x0)²Mx + (y1−y0)²My + (z1−z0)²Mz)/8`
                           when the pure second partial derivatives (derivatives of
                           the axis-parallel slices) are bounded by `Mx, My, Mz` on
                           the cell.  Mixed partials do not enter: the error is
                           split as `(IxIyIz − IyIz) + (IyIz − Iz) + (Iz − 1)` and
                           1-D linear interpolation has non-negative weights that
                           sum to 1.
-/
import Mathlib.Analysis.Calculus.LocalExtr.Rolle
import Mathlib.Analysis.Calculus.Deriv.Add
import Mathlib.Analysis.Calculus.Deriv.Mul
import Mathlib.Analysis.Calculus.Deriv.Pow
import Mathlib.Tactic.Ring
import Mathlib.Tactic.Linarith
import Mathlib.Tactic.FieldSimp

namespace AurelVerif.LinErr
open Set

/-- `g` is continuous on `[a, b]`, has first and second derivatives in `(a, b)`,
and the second derivative is bounded by `M` there. -/
def C2On (g : ℝ → ℝ) (a b M : ℝ) : Prop :=
  ContinuousOn g (Icc a b) ∧ ∃ g' g'' : ℝ → ℝ,
    (∀ x ∈ Ioo a b, HasDerivAt g (g' x) x) ∧ (∀ x ∈ Ioo a b, HasDerivAt g' (g'' x) x) ∧
      ∀ x ∈ Ioo a b, |g'' x| ≤ M

/-- restriction to a sub-interval -/
theorem C2On.mono {g : ℝ → ℝ} {a b M a' b' : ℝ} (h : C2On g a b M) (ha : a ≤ a') (hb : b' ≤ b) :
    C2On g a' b' M := by
  obtain ⟨hc, g', g'', h1, h2, h3⟩ := h
  have hsub : Ioo a' b' ⊆ Ioo a b := Ioo_subset_Ioo ha hb
  exact ⟨hc.mono (Icc_subset_Icc ha hb), g', g'', fun x hx => h1 x (hsub hx), fun x hx => h2 x (hsub hx),
    fun x hx => h3 x (hsub hx)⟩

theorem C2On.weaken {g : ℝ → ℝ} {a b M M' : ℝ} (h : C2On g a b M) (hM : M ≤ M') : C2On g a b M' := by
  obtain ⟨hc, g', g'', h1, h2, h3⟩ := h
  exact ⟨hc, g', g'', h1, h2, fun x hx => le_trans (h3 x hx) hM⟩

/-- the bound is non-negative on a non-degenerate interval -/
theorem C2On.nonneg {g : ℝ → ℝ} {a b M : ℝ} (h : C2On g a b M) (hab : a < b) : 0 ≤ M := by
  obtain ⟨_, g', g'', _, _, h3⟩ := h
  exact le_trans (abs_nonneg _) (h3 ((a + b) / 2) ⟨by linarith, by linarith⟩)

/-- a globally twice differentiable function with globally bounded second derivative -/
theorem C2On.of_global {g g' g'' : ℝ → ℝ} {M : ℝ} (h1 : ∀ x, HasDerivAt g (g' x) x)
    (h2 : ∀ x, HasDerivAt g' (g'' x) x) (h3 : ∀ x, |g'' x| ≤ M) (a b : ℝ) : C2On g a b M :=
  ⟨fun x _ => (h1 x).continuousAt.continuousWithinAt, g', g'', fun x _ => h1 x, fun x _ => h2 x, fun x _ => h3 x⟩

/-- **1-D linear interpolation error** (interior point): there is `ξ ∈ (a, b)` with
`L(x) − g(x) = g''(ξ)·(x−a)(b−x)/2`. -/
theorem lin_interp_remainder (g g' g'' : ℝ → ℝ) (a b : ℝ)
    (hc : ContinuousOn g (Icc a b))
    (h1 : ∀ x ∈ Ioo a b, HasDerivAt g (g' x) x) (h2 : ∀ x ∈ Ioo a b, HasDerivAt g' (g'' x) x)
    (x : ℝ) (hx : x ∈ Ioo a b) :
    ∃ ξ ∈ Ioo a b,
      g a + (g b - g a) / (b - a) * (x - a) - g x = g'' ξ * ((x - a) * (b - x)) / 2 := by
  obtain ⟨hxa, hxb⟩ := hx
  have hab : a < b := lt_trans hxa hxb
  have hba : b - a ≠ 0 := by linarith
  set sl : ℝ := (g b - g a) / (b - a) with hsl
  set w : ℝ := (x - a) * (b - x) with hw
  have hwpos : 0 < w := mul_pos (by linarith) (by linarith)
  set e : ℝ := g a + sl * (x - a) - g x with he
  set K : ℝ := e / w with hK
  -- the auxiliary function, its derivative and second derivative
  let G : ℝ → ℝ := fun y => g a + sl * (y - a) - g y - K * ((y - a) * (b - y))
  let G' : ℝ → ℝ := fun y => sl - g' y - K * (a + b - 2 * y)
  let G'' : ℝ → ℝ := fun y => -(g'' y) + 2 * K
  have hG1 : ∀ y ∈ Ioo a b, HasDerivAt G (G' y) y := by
    intro y hy
    have d1 : HasDerivAt (fun y : ℝ => g a + sl * (y - a)) sl y := by
      have := ((hasDerivAt_id' y).sub_const a).const_mul sl
      simpa using this.const_add (g a)
    have d2 : HasDerivAt (fun y : ℝ => (y - a) * (b - y)) (a + b - 2 * y) y := by
      have := ((hasDerivAt_id' y).sub_const a).mul ((hasDerivAt_id' y).const_sub b)
      exact this.congr_deriv (by ring)
    exact ((d1.sub (h1 y hy)).sub (d2.const_mul K))
  have hG2 : ∀ y ∈ Ioo a b, HasDerivAt G' (G'' y) y := by
    intro y hy
    have d1 : HasDerivAt (fun y : ℝ => a + b - 2 * y) (-2) y := by
      have := ((hasDerivAt_id' y).const_mul (2 : ℝ)).const_sub (a + b)
      simpa using this
    have := ((hasDerivAt_const y sl).sub (h2 y hy)).sub (d1.const_mul K)
    exact this.congr_deriv (by simp only [G'']; ring)
  have hGc : ContinuousOn G (Icc a b) := by
    have c1 : Continuous fun y : ℝ => g a + sl * (y - a) := by fun_prop
    have c2 : Continuous fun y : ℝ => K * ((y - a) * (b - y)) := by fun_prop
    exact (c1.continuousOn.sub hc).sub c2.continuousOn
  have hGa : G a = 0 := by simp [G]
  have hGb : G b = 0 := by
    simp only [G, hsl]
    field_simp
    ring
  have hGx : G x = 0 := by
    simp only [G, hK]
    rw [div_mul_cancel₀ _ (ne_of_gt hwpos)]
    ring
  -- Rolle on [a, x] and on [x, b]
  obtain ⟨c1, hc1, hc1z⟩ := exists_hasDerivAt_eq_zero hxa
    (hGc.mono (Icc_subset_Icc le_rfl (le_of_lt hxb))) (by rw [hGa, hGx])
    (fun y hy => hG1 y ⟨hy.1, lt_trans hy.2 hxb⟩)
  obtain ⟨c2, hc2, hc2z⟩ := exists_hasDerivAt_eq_zero hxb
    (hGc.mono (Icc_subset_Icc (le_of_lt hxa) le_rfl)) (by rw [hGx, hGb])
    (fun y hy => hG1 y ⟨lt_trans hxa hy.1, hy.2⟩)
  have hc12 : c1 < c2 := lt_trans hc1.2 hc2.1
  -- Rolle on G' over [c1, c2]
  have hG'c : ContinuousOn G' (Icc c1 c2) := fun y hy =>
    (hG2 y ⟨lt_of_lt_of_le hc1.1 hy.1, lt_of_le_of_lt hy.2 hc2.2⟩).continuousAt.continuousWithinAt
  obtain ⟨ξ, hξ, hξz⟩ := exists_hasDerivAt_eq_zero hc12 hG'c (by rw [hc1z, hc2z])
    (fun y hy => hG2 y ⟨lt_trans hc1.1 hy.1, lt_trans hy.2 hc2.2⟩)
  refine ⟨ξ, ⟨lt_trans hc1.1 hξ.1, lt_trans hξ.2 hc2.2⟩, ?_⟩
  have hKξ : K = g'' ξ / 2 := by
    simp only [G''] at hξz
    linarith
  have heK : e = K * w := by rw [hK, div_mul_cancel₀ _ (ne_of_gt hwpos)]
  rw [heK, hKξ]
  ring

/-- **1-D linear interpolation error**: for `0 ≤ t ≤ 1`,
`|(1−t)·g(a) + t·g(b) − g(a + t(b−a))| ≤ (b−a)²·M/8`. -/
theorem lin_interp_error {g : ℝ → ℝ} {a b M : ℝ} (hab : a < b) (h : C2On g a b M)
    (t : ℝ) (ht0 : 0 ≤ t) (ht1 : t ≤ 1) :
    |(1 - t) * g a + t * g b - g (a + t * (b - a))| ≤ (b - a) ^ 2 * M / 8 := by
  have hM := h.nonneg hab
  obtain ⟨hc, g', g'', h1, h2, h3⟩ := h
  have hB : 0 ≤ (b - a) ^ 2 * M / 8 := by positivity
  rcases eq_or_lt_of_le ht0 with h0 | h0
  · subst h0; simpa using hB
  rcases eq_or_lt_of_le ht1 with h1' | h1'
  · subst h1'
    have : (1 - 1) * g a + 1 * g b - g (a + 1 * (b - a)) = 0 := by
      have e : a + 1 * (b - a) = b := by ring
      rw [e]; ring
    rw [this, abs_zero]; exact hB
  have hd : 0 < b - a := by linarith
  have hx : a + t * (b - a) ∈ Ioo a b := by
    constructor
    · nlinarith
    · nlinarith
  obtain ⟨ξ, hξ, hrem⟩ := lin_interp_remainder g g' g'' a b hc h1 h2 _ hx
  have e1 : (1 - t) * g a + t * g b - g (a + t * (b - a))
      = g a + (g b - g a) / (b - a) * (a + t * (b - a) - a) - g (a + t * (b - a)) := by
    field_simp
    ring
  rw [e1, hrem]
  have e2 : (a + t * (b - a) - a) * (b - (a + t * (b - a))) = t * (1 - t) * (b - a) ^ 2 := by ring
  rw [e2]
  have ht : 0 ≤ t * (1 - t) := mul_nonneg (le_of_lt h0) (by linarith)
  have ht4 : t * (1 - t) ≤ 1 / 4 := by nlinarith [sq_nonneg (t - 1 / 2)]
  have hw : 0 ≤ t * (1 - t) * (b - a) ^ 2 := mul_nonneg ht (sq_nonneg _)
  rw [abs_div, abs_mul, abs_of_nonneg hw, abs_of_pos (by norm_num : (0 : ℝ) < 2)]
  have hξM := h3 ξ hξ
  have hw4 : t * (1 - t) * (b - a) ^ 2 ≤ (b - a) ^ 2 / 4 := by nlinarith [sq_nonneg (b - a)]
  have : |g'' ξ| * (t * (1 - t) * (b - a) ^ 2) ≤ M * ((b - a) ^ 2 / 4) :=
    mul_le_mul hξM hw4 hw hM
  linarith

/-- the constant `1/8` is attained: `g(y) = y²` on `[0, 1]` at the midpoint. -/
example : |(1 - (1 / 2 : ℝ)) * (0 : ℝ) ^ 2 + 1 / 2 * (1 : ℝ) ^ 2 - (0 + 1 / 2 * (1 - 0)) ^ 2|
    = (1 - 0) ^ 2 * 2 / 8 := by norm_num

/-! ### the tensor product on one cell -/

/-- the trilinear interpolant of the 8 corner values of `f` on the cell
`[x0,x1]×[y0,y1]×[z0,z1]` at relative position `(tx, ty, tz)`, written exactly like
the right-hand side of `InterpLemmas.interp3_of_pairs` (loop order of scipy). -/
def triCell (f : ℝ → ℝ → ℝ → ℝ) (x0 x1 y0 y1 z0 z1 tx ty tz : ℝ) : ℝ :=
  0 + f x0 y0 z0 * (1 * (1 - tx) * (1 - ty) * (1 - tz))
    + f x0 y0 z1 * (1 * (1 - tx) * (1 - ty) * tz)
    + f x0 y1 z0 * (1 * (1 - tx) * ty * (1 - tz))
    + f x0 y1 z1 * (1 * (1 - tx) * ty * tz)
    + f x1 y0 z0 * (1 * tx * (1 - ty) * (1 - tz))
    + f x1 y0 z1 * (1 * tx * (1 - ty) * tz)
    + f x1 y1 z0 * (1 * tx * ty * (1 - tz))
    + f x1 y1 z1 * (1 * tx * ty * tz)

/-- **trilinear interpolation error on a cell**: if the slices of `f` parallel to
the axes are `C2On` with bounds `Mx, My, Mz` on the cell (bounded PURE second
partial derivatives), then at every point of the cell
`|I f − f| ≤ ((x1−x0)²·Mx + (y1−y0)²·My + (z1−z0)²·Mz)/8`. -/
theorem trilinear_cell_error (f : ℝ → ℝ → ℝ → ℝ) {x0 x1 y0 y1 z0 z1 Mx My Mz : ℝ}
    (hx : x0 < x1) (hy : y0 < y1) (hz : z0 < z1)
    (HX : ∀ y ∈ Icc y0 y1, ∀ z ∈ Icc z0 z1, C2On (fun x => f x y z) x0 x1 Mx)
    (HY : ∀ x ∈ Icc x0 x1, ∀ z ∈ Icc z0 z1, C2On (fun y => f x y z) y0 y1 My)
    (HZ : ∀ x ∈ Icc x0 x1, ∀ y ∈ Icc y0 y1, C2On (fun z => f x y z) z0 z1 Mz)
    (tx ty tz : ℝ) (htx0 : 0 ≤ tx) (htx1 : tx ≤ 1) (hty0 : 0 ≤ ty) (hty1 : ty ≤ 1)
    (htz0 : 0 ≤ tz) (htz1 : tz ≤ 1) :
    |triCell f x0 x1 y0 y1 z0 z1 tx ty tz
        - f (x0 + tx * (x1 - x0)) (y0 + ty * (y1 - y0)) (z0 + tz * (z1 - z0))|
      ≤ ((x1 - x0) ^ 2 * Mx + (y1 - y0) ^ 2 * My + (z1 - z0) ^ 2 * Mz) / 8 := by
  set x := x0 + tx * (x1 - x0) with hxdef
  set y := y0 + ty * (y1 - y0) with hydef
  set z := z0 + tz * (z1 - z0) with hzdef
  have hxI : x ∈ Icc x0 x1 := ⟨by nlinarith, by nlinarith⟩
  have hyI : y ∈ Icc y0 y1 := ⟨by nlinarith, by nlinarith⟩
  have hy0I : y0 ∈ Icc y0 y1 := ⟨le_rfl, le_of_lt hy⟩
  have hy1I : y1 ∈ Icc y0 y1 := ⟨le_of_lt hy, le_rfl⟩
  have hz0I : z0 ∈ Icc z0 z1 := ⟨le_rfl, le_of_lt hz⟩
  have hz1I : z1 ∈ Icc z0 z1 := ⟨le_of_lt hz, le_rfl⟩
  -- the seven 1-D errors
  have EZ := abs_le.mp (lin_interp_error hz (HZ x hxI y hyI) tz htz0 htz1)
  have EY0 := abs_le.mp (lin_interp_error hy (HY x hxI z0 hz0I) ty hty0 hty1)
  have EY1 := abs_le.mp (lin_interp_error hy (HY x hxI z1 hz1I) ty hty0 hty1)
  have EX00 := abs_le.mp (lin_interp_error hx (HX y0 hy0I z0 hz0I) tx htx0 htx1)
  have EX01 := abs_le.mp (lin_interp_error hx (HX y0 hy0I z1 hz1I) tx htx0 htx1)
  have EX10 := abs_le.mp (lin_interp_error hx (HX y1 hy1I z0 hz0I) tx htx0 htx1)
  have EX11 := abs_le.mp (lin_interp_error hx (HX y1 hy1I z1 hz1I) tx htx0 htx1)
  simp only [← hxdef, ← hydef, ← hzdef] at EZ EY0 EY1 EX00 EX01 EX10 EX11
  set BX := (x1 - x0) ^ 2 * Mx / 8 with hBX
  set BY := (y1 - y0) ^ 2 * My / 8 with hBY
  set BZ := (z1 - z0) ^ 2 * Mz / 8 with hBZ
  set ez := (1 - tz) * f x y z0 + tz * f x y z1 - f x y z with hez
  set ey0 := (1 - ty) * f x y0 z0 + ty * f x y1 z0 - f x y z0 with hey0
  set ey1 := (1 - ty) * f x y0 z1 + ty * f x y1 z1 - f x y z1 with hey1
  set ex00 := (1 - tx) * f x0 y0 z0 + tx * f x1 y0 z0 - f x y0 z0 with hex00
  set ex01 := (1 - tx) * f x0 y0 z1 + tx * f x1 y0 z1 - f x y0 z1 with hex01
  set ex10 := (1 - tx) * f x0 y1 z0 + tx * f x1 y1 z0 - f x y1 z0 with hex10
  set ex11 := (1 - tx) * f x0 y1 z1 + tx * f x1 y1 z1 - f x y1 z1 with hex11
  have key : triCell f x0 x1 y0 y1 z0 z1 tx ty tz - f x y z
      = (1 - ty) * (1 - tz) * ex00 + (1 - ty) * tz * ex01 + ty * (1 - tz) * ex10 + ty * tz * ex11
        + ((1 - tz) * ey0 + tz * ey1) + ez := by
    simp only [triCell, hex00, hex01, hex10, hex11, hey0, hey1, hez]
    ring
  rw [key]
  have sy : 0 ≤ 1 - ty := by linarith
  have sz : 0 ≤ 1 - tz := by linarith
  have w00 : 0 ≤ (1 - ty) * (1 - tz) := mul_nonneg sy sz
  have w01 : 0 ≤ (1 - ty) * tz := mul_nonneg sy htz0
  have w10 : 0 ≤ ty * (1 - tz) := mul_nonneg hty0 sz
  have w11 : 0 ≤ ty * tz := mul_nonneg hty0 htz0
  have e3 : ((x1 - x0) ^ 2 * Mx + (y1 - y0) ^ 2 * My + (z1 - z0) ^ 2 * Mz) / 8 = BX + BY + BZ := by
    rw [hBX, hBY, hBZ]; ring
  rw [e3, abs_le]
  have sumw : (1 - ty) * (1 - tz) + (1 - ty) * tz + ty * (1 - tz) + ty * tz = 1 := by ring
  have eBX : BX = ((1 - ty) * (1 - tz) + (1 - ty) * tz + ty * (1 - tz) + ty * tz) * BX := by
    rw [sumw, one_mul]
  have eBY : BY = ((1 - tz) + tz) * BY := by ring
  constructor
  · have p1 := mul_le_mul_of_nonneg_left EX00.1 w00
    have p2 := mul_le_mul_of_nonneg_left EX01.1 w01
    have p3 := mul_le_mul_of_nonneg_left EX10.1 w10
    have p4 := mul_le_mul_of_nonneg_left EX11.1 w11
    have q1 := mul_le_mul_of_nonneg_left EY0.1 sz
    have q2 := mul_le_mul_of_nonneg_left EY1.1 htz0
    have r := EZ.1
    linarith
  · have p1 := mul_le_mul_of_nonneg_left EX00.2 w00
    have p2 := mul_le_mul_of_nonneg_left EX01.2 w01
    have p3 := mul_le_mul_of_nonneg_left EX10.2 w10
    have p4 := mul_le_mul_of_nonneg_left EX11.2 w11
    have q1 := mul_le_mul_of_nonneg_left EY0.2 sz
    have q2 := mul_le_mul_of_nonneg_left EY1.2 htz0
    have r := EZ.2
    linarith

end AurelVerif.LinErr
