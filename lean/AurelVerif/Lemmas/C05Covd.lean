/-
Lemmas/C05Covd.lean — proofs for property C05, part 1: Christoffel symbols (T1),
spatial and spacetime covariant derivative (T2, T3), divergence (T4a).
Layer A: exact, every field `K`, every operator `e.D` (no linearity used).
-/
import AurelVerif.Props.C08
import AurelVerif.Gen.CoreCurv
import AurelVerif.Spec.Covd

set_option linter.unusedSimpArgs false
set_option linter.unusedVariables false
set_option linter.unusedSectionVars false

namespace AurelVerif.C05L
open AurelVerif.Gen.Core AurelVerif.Tensor AurelVerif.CoreTac AurelVerif.C08 AurelVerif.Spec.Covd

variable {K : Type} [Field K]

/-- lower-index symmetry of a connection `Γ^a_{bc} = Γ^a_{cb}`. -/
def SymLow {n : Nat} (Γ : Fin n → Fin n → Fin n → K) : Prop := ∀ a b c, Γ a b c = Γ a c b

/-! simp set unfolding the hand-written Spec definitions -/
theorem pd4_0 (D : Fin 3 → K → K) (x dtx : K) : pd4 D x dtx 0 = dtx := rfl
theorem pd4_1 (D : Fin 3 → K → K) (x dtx : K) : pd4 D x dtx 1 = D 0 x := rfl
theorem pd4_2 (D : Fin 3 → K → K) (x dtx : K) : pd4 D x dtx 2 = D 1 x := rfl
theorem pd4_3 (D : Fin 3 → K → K) (x dtx : K) : pd4 D x dtx 3 = D 2 x := rfl

/-! ### T1 Christoffel symbols -/

/-- **T1** `s_Gamma_udd3 = γ^{ij} · ½(∂_kγ_jl + ∂_lγ_jk − ∂_jγ_kl)` for symmetric γ
(the code reads the upper triangle of γ only). -/
theorem s_Gamma_udd3_spec (e : Env K) (hs : Sym e.gammadown3) (i k l : Fin 3) :
    s_Gamma_udd3 e i k l = christoffel2 e.D e.gammaup3 e.gammadown3 i k l := by
  have h01 := hs 1 0; have h02 := hs 2 0; have h12 := hs 2 1
  revert i k l
  cases3 <;> cases3 <;> cases3 <;>
    (simp only [core_unfold, christoffel2, christoffel1, Fin.sum_univ_three, h01, h02, h12]; ring)

/-- the unrolled table is symmetric in its lower indices (no hypothesis needed). -/
theorem s_Gamma_udd3_symm (e : Env K) : SymLow (s_Gamma_udd3 e) := by
  cases3 <;> cases3 <;> cases3 <;> (simp only [core_unfold])

/-- the textbook Christoffel symbol is symmetric in its lower indices when γ is symmetric. -/
theorem christoffel2_symm (D : Fin 3 → K → K) (γup γ : Fin 3 → Fin 3 → K) (hs : Sym γ) :
    SymLow (christoffel2 D γup γ) := by
  intro a b c
  simp only [christoffel2, christoffel1, hs c b]
  refine Finset.sum_congr rfl (fun j _ => ?_)
  ring

/-! ### T2 spatial covariant derivative, all seven index patterns -/

theorem s_covd_scalar_spec (e : Env K) (f : K) (c : Fin 3) : s_covd_scalar e f c = e.D c f := by
  revert c; cases3 <;> rfl

/-- `'u'`: the code contracts `Γ^a_{mc} f^m` (einsum `'abc,b->ca'`): this is the textbook
`Γ^a_{cm} f^m` for a connection symmetric in its lower indices. -/
theorem s_covd_u_spec (e : Env K) (hG : SymLow e.s_Gamma_udd3) (f : Fin 3 → K) (c a : Fin 3) :
    s_covd_u e f c a = covdU e.s_Gamma_udd3 (pd1 e.D f) f c a := by
  have g1 := fun a => hG a 1 0; have g2 := fun a => hG a 2 0; have g3 := fun a => hG a 2 1
  revert c a
  cases3 <;> cases3 <;> (simp only [core_unfold, covdU, pd1, Fin.sum_univ_three, g1, g2, g3])

/-- the same without any hypothesis on Γ, in the index order the code uses. -/
theorem s_covd_u_exact (e : Env K) (f : Fin 3 → K) (c a : Fin 3) :
    s_covd_u e f c a = e.D c (f a) + ∑ m, e.s_Gamma_udd3 a m c * f m := by
  revert c a; cases3 <;> cases3 <;> (simp only [core_unfold, Fin.sum_univ_three])

/-- `'d'`: exact for every Γ. -/
theorem s_covd_d_spec (e : Env K) (f : Fin 3 → K) (c a : Fin 3) :
    s_covd_d e f c a = covdD e.s_Gamma_udd3 (pd1 e.D f) f c a := by
  revert c a
  cases3 <;> cases3 <;> (simp only [core_unfold, covdD, pd1, Fin.sum_univ_three]; try ring)

/-- `'uu'`: exact for every Γ. -/
theorem s_covd_uu_spec (e : Env K) (f : Fin 3 → Fin 3 → K) (c a b : Fin 3) :
    s_covd_uu e f c a b = covdUU e.s_Gamma_udd3 (pd2 e.D f) f c a b := by
  revert c a b
  cases3 <;> cases3 <;> cases3 <;> (simp only [core_unfold, covdUU, pd2, Fin.sum_univ_three]; try ring)

/-- `'dd'`: exact for every Γ. -/
theorem s_covd_dd_spec (e : Env K) (f : Fin 3 → Fin 3 → K) (c a b : Fin 3) :
    s_covd_dd e f c a b = covdDD e.s_Gamma_udd3 (pd2 e.D f) f c a b := by
  revert c a b
  cases3 <;> cases3 <;> cases3 <;> (simp only [core_unfold, covdDD, pd2, Fin.sum_univ_three]; try ring)

/-- `'ud'`: exact for every Γ. -/
theorem s_covd_ud_spec (e : Env K) (f : Fin 3 → Fin 3 → K) (c a b : Fin 3) :
    s_covd_ud e f c a b = covdUD e.s_Gamma_udd3 (pd2 e.D f) f c a b := by
  revert c a b
  cases3 <;> cases3 <;> cases3 <;> (simp only [core_unfold, covdUD, pd2, Fin.sum_univ_three]; try ring)

/-- `'du'`: exact for every Γ. -/
theorem s_covd_du_spec (e : Env K) (f : Fin 3 → Fin 3 → K) (c a b : Fin 3) :
    s_covd_du e f c a b = covdDU e.s_Gamma_udd3 (pd2 e.D f) f c a b := by
  revert c a b
  cases3 <;> cases3 <;> cases3 <;> (simp only [core_unfold, covdDU, pd2, Fin.sum_univ_three]; try ring)

/-! ### T3 spacetime covariant derivative -/

theorem st_covd_scalar_spec (e : Env K) (f dtf : K) (μ : Fin 4) :
    st_covd_scalar e f dtf μ = pd4 e.D f dtf μ := by
  revert μ; cases4 <;> rfl

/-- `'u'` in 4-D: `∇_μ f^ν = ∂_μ f^ν + Γ^ν_{μλ} f^λ` (code: `Γ^ν_{λμ} f^λ`, equal for a
connection symmetric in its lower indices). -/
theorem st_covd_u_spec (e : Env K) (hG : SymLow e.st_Gamma_udd4) (f dtf : Fin 4 → K) (c a : Fin 4) :
    st_covd_u e f dtf c a = covdU e.st_Gamma_udd4 (fun c a => pd4 e.D (f a) (dtf a) c) f c a := by
  have g1 := fun a => hG a 1 0; have g2 := fun a => hG a 2 0; have g3 := fun a => hG a 3 0
  have g4 := fun a => hG a 2 1; have g5 := fun a => hG a 3 1; have g6 := fun a => hG a 3 2
  revert c a
  cases4 <;> cases4 <;>
    (simp only [core_unfold, covdU, pd4_0, pd4_1, pd4_2, pd4_3, Fin.sum_univ_four, g1, g2, g3, g4, g5, g6])

theorem st_covd_u_exact (e : Env K) (f dtf : Fin 4 → K) (c a : Fin 4) :
    st_covd_u e f dtf c a = pd4 e.D (f a) (dtf a) c + ∑ m, e.st_Gamma_udd4 a m c * f m := by
  revert c a
  cases4 <;> cases4 <;> (simp only [core_unfold, pd4_0, pd4_1, pd4_2, pd4_3, Fin.sum_univ_four])

/-- `'d'` in 4-D: `∇_μ f_ν = ∂_μ f_ν − Γ^λ_{μν} f_λ`, exact for every Γ. -/
theorem st_covd_d_spec (e : Env K) (f dtf : Fin 4 → K) (c a : Fin 4) :
    st_covd_d e f dtf c a = covdD e.st_Gamma_udd4 (fun c a => pd4 e.D (f a) (dtf a) c) f c a := by
  revert c a
  cases4 <;> cases4 <;>
    (simp only [core_unfold, covdD, pd4_0, pd4_1, pd4_2, pd4_3, Fin.sum_univ_four]; try ring)

/-! ### T4a divergence, six patterns -/

theorem s_div_u_spec (e : Env K) (f : Fin 3 → K) : s_div_u e f = divU (s_covd_u e f) := by
  simp only [core_unfold, divU, Fin.sum_univ_three]

theorem s_div_d_spec (e : Env K) (f : Fin 3 → K) : s_div_d e f = divD e.gammaup3 (s_covd_d e f) := by
  simp only [core_unfold, divD, Fin.sum_univ_three]; ring

theorem s_div_uu_spec (e : Env K) (f : Fin 3 → Fin 3 → K) (b : Fin 3) :
    s_div_uu e f b = divU2 (s_covd_uu e f) b := by
  revert b; cases3 <;> (simp only [core_unfold, divU2, Fin.sum_univ_three])

theorem s_div_ud_spec (e : Env K) (f : Fin 3 → Fin 3 → K) (b : Fin 3) :
    s_div_ud e f b = divU2 (s_covd_ud e f) b := by
  revert b; cases3 <;> (simp only [core_unfold, divU2, Fin.sum_univ_three])

/-- `'du'`: the code contracts the derivative index with the SECOND (upper) index, `∇_a f_b{}^a`. -/
theorem s_div_du_spec (e : Env K) (f : Fin 3 → Fin 3 → K) (b : Fin 3) :
    s_div_du e f b = ∑ a, s_covd_du e f a b a := by
  revert b; cases3 <;> (simp only [core_unfold, Fin.sum_univ_three])

theorem s_div_dd_spec (e : Env K) (f : Fin 3 → Fin 3 → K) (b : Fin 3) :
    s_div_dd e f b = divD2 e.gammaup3 (s_covd_dd e f) b := by
  revert b; cases3 <;> (simp only [core_unfold, divD2, Fin.sum_univ_three]; try ring)

end AurelVerif.C05L
