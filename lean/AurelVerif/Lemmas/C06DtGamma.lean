/-
Lemmas/C06DtGamma.lean — Layer B (consistency) lemmas of property C06 for `dts_Gamma_bssnok`
([A] = Alcubierre 2008, §2.8).  Pure index algebra over a field, derivatives as VALUES (jets).

 * `dt_conformal_inverse_metric`: `∂_tγ̃^ij = L_βγ̃^ij + (2/3)γ̃^ij∂_kβ^k + 2αÃ^ij` (weight +2/3) from
   `∂_tγ^ij = L_βγ^ij + 2αK^ij`, the φ-equation, `γ̃^ij = qγ^ij`, `∂q = 4q∂φ` (q = ψ⁴), `Ã^ij = q(K^ij − γ^ijK/3)`.
 * `dt_GammaVec_jets`: [A] (2.8.23).  `−∂_j` of that right-hand side, expanded by the product rule, with
   SYMMETRIC second derivatives (`∂_j∂_k = ∂_k∂_j` on `γ̃^ab` and on `β^a`), is
   `γ̃^jk∂_j∂_kβ^i + (1/3)γ̃^ij∂_j∂_kβ^k + β^j∂_jΓ̃^i − Γ̃^j∂_jβ^i + (2/3)Γ̃^i∂_jβ^j − 2Ã^ij∂_jα − 2α∂_jÃ^ij`
   for `Γ̃^i = −∂_jγ̃^ij`.
 * `mom_conformal`: [A] (2.8.24).  The conformal decomposition of the momentum constraint,
   `D_j(K^ij − γ^ijK) = p (∂_jÃ^ij + Γ̃^i_jkÃ^jk + 6Ã^ij∂_jφ − (2/3)γ̃^ij∂_jK)`, `p = ψ⁻⁴`.
-/
import AurelVerif.Lemmas.C06DtA

set_option linter.unusedSimpArgs false
set_option linter.unusedVariables false

namespace AurelVerif.C06Deriv
open AurelVerif.Tensor AurelVerif.CoreTac AurelVerif.C08 AurelVerif.Spec.Covd AurelVerif.Spec

variable {K : Type} [Field K]

/-- `d (c x) = c d x` for a constant `c`. -/
theorem Deriv.const_mul {d : K → K} (h : Deriv d) (c x : K) (hc : d c = 0) : d (c * x) = c * d x := by
  rw [h.mul, hc, zero_mul, zero_add]

theorem Deriv.two {d : K → K} (h : Deriv d) : d (2 : K) = 0 := by simpa using h.natCast 2

theorem Deriv.two_thirds {d : K → K} (h : Deriv d) (h3 : (3 : K) ≠ 0) : d (2 / 3 : K) = 0 := by
  have hn : d (3 : K) = 0 := by simpa using h.natCast 3
  rw [div_eq_mul_inv, h.mul, h.two, h.inv_const 3 h3 hn, zero_mul, mul_zero, add_zero]

/-- **∂_t of the conformal inverse metric γ̃^ij = q γ^ij** (`q = ψ⁴`, `∂q = 4q∂φ`), `Ã^ij = q (K^ij − γ^ij K/3)`:
`q ∂_tγ^ij + (∂_t q) γ^ij = L_βγ̃^ij + (2/3)γ̃^ij∂_kβ^k + 2αÃ^ij`. -/
theorem dt_conformal_inverse_metric (U Ut Aut Ku dtU : Fin 3 → Fin 3 → K) (dU dUt : Fin 3 → Fin 3 → Fin 3 → K)
    (β : Fin 3 → K) (dβ : Fin 3 → Fin 3 → K) (dφ : Fin 3 → K) (α Ktr dtφ q : K) (h2 : (2 : K) ≠ 0) (h3 : (3 : K) ≠ 0)
    (hUt : ∀ i j, Ut i j = q * U i j)
    (hAut : ∀ a b, Aut a b = q * (Ku a b - (1 / 3) * U a b * Ktr))
    (hds : ∀ s a b, dUt s a b = q * dU s a b + (4 * q * dφ s) * U a b)
    (hφ : dtφ = ADM.dtPhi β dφ dβ α Ktr)
    (hdtU : ∀ i j, dtU i j = ADM.dtGammaUp β dβ dU U α Ku i j)
    (i j : Fin 3) :
    q * dtU i j + (4 * q * dtφ) * U i j
      = lieUU β dβ dUt Ut i j + (2 / 3) * divβ dβ * Ut i j + 2 * α * Aut i j := by
  have h6 : (6 : K) ≠ 0 := by rw [show (6 : K) = 2 * 3 by norm_num]; exact mul_ne_zero h2 h3
  simp only [ADM.dtGammaUp, ADM.dtPhi, lieUU, lie0, divβ, hUt, hAut, hds, hφ, hdtU, Fin.sum_univ_three]
  field_simp
  ring

/-- **[A] (2.8.23)** in jets.  `dβ c a = ∂_cβ^a`, `ddβ j k a = ∂_j∂_kβ^a`, `dUt c a b = ∂_cγ̃^ab`, `ddUt j k a b = ∂_j∂_kγ̃^ab`,
`dAt c a b = ∂_cÃ^ab`, `dα j = ∂_jα`; `Γv`, `dΓv` are `Γ̃^i = −∂_jγ̃^ij` and its derivatives. -/
theorem dt_GammaVec_jets (β : Fin 3 → K) (dβ : Fin 3 → Fin 3 → K) (ddβ : Fin 3 → Fin 3 → Fin 3 → K)
    (Ut At : Fin 3 → Fin 3 → K) (dUt dAt : Fin 3 → Fin 3 → Fin 3 → K) (ddUt : Fin 3 → Fin 3 → Fin 3 → Fin 3 → K)
    (α : K) (dα Γv : Fin 3 → K) (dΓv : Fin 3 → Fin 3 → K) (h3 : (3 : K) ≠ 0)
    (hsβ : ∀ j k a, ddβ j k a = ddβ k j a) (hsU : ∀ j k a b, ddUt j k a b = ddUt k j a b)
    (hΓ : ∀ i, Γv i = -∑ j, dUt j i j) (hdΓ : ∀ c i, dΓv c i = -∑ j, ddUt c j i j) (i : Fin 3) :
    -∑ j, ((∑ k, (dβ j k * dUt k i j + β k * ddUt j k i j))
          - (∑ k, (dUt j k j * dβ k i + Ut k j * ddβ j k i))
          - (∑ k, (dUt j i k * dβ k j + Ut i k * ddβ j k j))
          + (2 / 3) * ((∑ k, ddβ j k k) * Ut i j + divβ dβ * dUt j i j)
          + 2 * (dα j * At i j + α * dAt j i j))
      = (∑ j, ∑ k, Ut j k * ddβ j k i) + (1 / 3) * (∑ j, Ut i j * ∑ k, ddβ j k k)
        + lieU β dβ dΓv Γv i + (2 / 3) * divβ dβ * Γv i
        - 2 * (∑ j, At i j * dα j) - 2 * α * ∑ j, dAt j i j := by
  have b01 := hsβ 1 0; have b02 := hsβ 2 0; have b12 := hsβ 2 1
  have u01 := hsU 1 0; have u02 := hsU 2 0; have u12 := hsU 2 1
  simp only [lieU, divβ, hΓ, hdΓ, Fin.sum_univ_three, b01, b02, b12, u01, u02, u12]
  field_simp
  ring

/-! ### [A] (2.8.24): conformal decomposition of the momentum constraint -/

/-- `Γ^i_jm Ã^mj` in terms of the conformal connection, [A] (2.8.14):
`Γ^k_ij = Γ̃^k_ij + 2(δ^k_i∂_jφ + δ^k_j∂_iφ − γ_ij γ^kl∂_lφ)`, with `Ã` trace-free (`γ_jm Ã^mj = 0`). -/
theorem Gamma_contract_A (Γ Γt : Fin 3 → Fin 3 → Fin 3 → K) (G U A : Fin 3 → Fin 3 → K) (dφ : Fin 3 → K)
    (hΓrel : ∀ k i j, Γ k i j = Γt k i j + 2 * (delta k i * dφ j + delta k j * dφ i - G i j * ∑ l, U k l * dφ l))
    (htl : ∑ j, ∑ m, G j m * A m j = 0) (i : Fin 3) :
    ∑ j, ∑ m, Γ i j m * A m j
      = (∑ j, ∑ m, Γt i j m * A m j) + 2 * (∑ m, dφ m * A m i) + 2 * ∑ j, dφ j * A i j := by
  have h : ∑ j, ∑ m, Γ i j m * A m j
      = (∑ j, ∑ m, Γt i j m * A m j) + 2 * (∑ j, ∑ m, delta i j * dφ m * A m j)
        + 2 * (∑ j, ∑ m, delta i m * dφ j * A m j) - 2 * (∑ j, ∑ m, G j m * A m j) * ∑ l, U i l * dφ l := by
    simp only [hΓrel, Fin.sum_univ_three]; ring
  have d1 : ∑ j, ∑ m, delta i j * dφ m * A m j = ∑ m, dφ m * A m i := by
    rw [Finset.sum_comm]
    refine Finset.sum_congr rfl fun m _ => ?_
    simp [delta, Finset.sum_ite_eq]
  have d2 : ∑ j, ∑ m, delta i m * dφ j * A m j = ∑ j, dφ j * A i j := by
    refine Finset.sum_congr rfl fun j _ => ?_
    simp [delta, Finset.sum_ite_eq]
  rw [h, d1, d2, htl]
  ring

/-- the contracted connection: `Γ^j_jm = Γ̃^j_jm + 6∂_mφ`, and `Γ̃^j_jm = 0` for a unit-determinant conformal metric. -/
theorem Gamma_trace (Γ Γt : Fin 3 → Fin 3 → Fin 3 → K) (G U : Fin 3 → Fin 3 → K) (dφ : Fin 3 → K) (hsymG : Sym G)
    (hGU : ∀ i k : Fin 3, ∑ j, G i j * U j k = delta i k)
    (hΓrel : ∀ k i j, Γ k i j = Γt k i j + 2 * (delta k i * dφ j + delta k j * dφ i - G i j * ∑ l, U k l * dφ l))
    (hΓ0 : ∀ m, ∑ j, Γt j j m = 0) (m : Fin 3) : ∑ j, Γ j j m = 6 * dφ m := by
  have h : ∑ j, Γ j j m = (∑ j, Γt j j m) + 2 * ((∑ j : Fin 3, delta j j) * dφ m) + 2 * (∑ j, delta j m * dφ j)
      - 2 * ∑ j, ∑ l, G m j * U j l * dφ l := by
    have g0 := hsymG 0 m; have g1 := hsymG 1 m; have g2 := hsymG 2 m
    simp only [hΓrel, Fin.sum_univ_three, g0, g1, g2]; ring
  have d0 : (∑ j : Fin 3, (delta j j : K)) = 3 := by simp [delta]
  have d1 : ∑ j, delta j m * dφ j = dφ m := by simp [delta, Finset.sum_ite_eq']
  rw [h, hΓ0, d0, d1, contract_GU G U hGU dφ m]
  ring

/-- **[A] (2.8.24)**: `D_j(K^ij − γ^ijK) = p (∂_jÃ^ij + Γ̃^i_jkÃ^jk + 6Ã^ij∂_jφ − (2/3)γ̃^ij∂_jK)`, `p = ψ⁻⁴`.
`M^ab = K^ab − γ^abK = pÃ^ab − (2/3)γ^abK`; `dM` its derivative by the product rule (`∂p = −4p∂φ`); hypotheses:
metric compatibility `D_cγ^ab = 0`, [A] (2.8.14) for the connection, `Γ̃^j_jm = 0` (unit determinant), `Ã` symmetric and
trace-free, `γ^ij = pγ̃^ij`, `γ_ij γ^jk = δ`. -/
theorem mom_conformal (Γ Γt : Fin 3 → Fin 3 → Fin 3 → K) (G U Ut Aut M : Fin 3 → Fin 3 → K)
    (dU dAut dM : Fin 3 → Fin 3 → Fin 3 → K) (dφ dKtr : Fin 3 → K) (Ktr p : K) (hsymG : Sym G) (hsymA : Sym Aut)
    (hGU : ∀ i k : Fin 3, ∑ j, G i j * U j k = delta i k)
    (hUp : ∀ a b, U a b = p * Ut a b)
    (hM : ∀ a b, M a b = p * Aut a b - (2 / 3) * U a b * Ktr)
    (hdM : ∀ c a b, dM c a b = (-4 * p * dφ c) * Aut a b + p * dAut c a b
        - (2 / 3) * (dU c a b * Ktr + U a b * dKtr c))
    (hcompat : ∀ c a b, covdUU Γ dU U c a b = 0)
    (hΓrel : ∀ k i j, Γ k i j = Γt k i j + 2 * (delta k i * dφ j + delta k j * dφ i - G i j * ∑ l, U k l * dφ l))
    (hΓ0 : ∀ m, ∑ j, Γt j j m = 0) (htl : ∑ j, ∑ m, G j m * Aut m j = 0) (i : Fin 3) :
    ∑ j, covdUU Γ dM M j i j
      = p * ((∑ j, dAut j i j) + (∑ j, ∑ k, Γt i j k * Aut j k) + 6 * (∑ j, Aut i j * dφ j)
          - (2 / 3) * ∑ j, Ut i j * dKtr j) := by
  have La := Gamma_contract_A Γ Γt G U Aut dφ hΓrel htl i
  have b0 := Gamma_trace Γ Γt G U dφ hsymG hGU hΓrel hΓ0 0
  have b1 := Gamma_trace Γ Γt G U dφ hsymG hGU hΓrel hΓ0 1
  have b2 := Gamma_trace Γ Γt G U dφ hsymG hGU hΓrel hΓ0 2
  have c0 := hcompat 0 i 0; have c1 := hcompat 1 i 1; have c2 := hcompat 2 i 2
  have a01 := hsymA 1 0; have a02 := hsymA 2 0; have a12 := hsymA 2 1
  have ai0 := hsymA 0 i; have ai1 := hsymA 1 i; have ai2 := hsymA 2 i
  simp only [covdUU, hM, hdM, Fin.sum_univ_three] at La b0 b1 b2 c0 c1 c2 ⊢
  simp only [a01, a02, a12, ai0, ai1, ai2] at La ⊢
  linear_combination (-(2 / 3) * Ktr) * (c0 + c1 + c2) + p * La
    + (p * Aut i 0) * b0 + (p * Aut i 1) * b1 + (p * Aut i 2) * b2
    + (-(2 / 3) * dKtr 0) * hUp i 0 + (-(2 / 3) * dKtr 1) * hUp i 1 + (-(2 / 3) * dKtr 2) * hUp i 2

/-! ### non-vacuity of `mom_conformal`: a conformally flat point with a NON-ZERO gradient of φ

`γ̃ = δ`, `p = ψ⁻⁴ = 1/4` (`γ_ij = 4δ_ij`, `γ^ij = δ^ij/4`), `∂φ = (1,0,0)`, `Γ̃ = 0`, physical connection from [A] (2.8.14),
`∂_cγ^ab` from metric compatibility (`= −4p δ^ab ∂_cφ`), `Ã^ij` symmetric trace-free and not diagonal, arbitrary `∂_cÃ^ab`,
`K = 3`, `∂K = (7,1,0)`: all hypotheses hold and both sides are `37/12`. -/
/-! ### `Γ̃^j_jm = 0` from `φ = (1/12) ln det γ` -/

/-- contracted Christoffel symbol: `Γ^j_jm = ½ γ^jk ∂_mγ_jk` (symmetric `γ^jk`). -/
theorem christoffel_trace (D : Fin 3 → K → K) (U G : Fin 3 → Fin 3 → K) (hsU : Sym U) (m : Fin 3) :
    ∑ j, christoffel2 D U G j j m = (1 / 2) * ∑ j, ∑ k, U j k * D m (G j k) := by
  have u01 := hsU 1 0; have u02 := hsU 2 0; have u12 := hsU 2 1
  simp only [christoffel2, christoffel1, Fin.sum_univ_three, u01, u02, u12]
  ring

/-- `½ γ^jk ∂γ_jk = 6 ∂φ` when `γ^ab det γ = cof_ab` and `∂φ = ∂(det γ)/(12 det γ)` (Jacobi's formula). -/
theorem half_trace_logdet (G U dG : Fin 3 → Fin 3 → K) (dφ : K) (hdet : det3 G ≠ 0) (h12 : (12 : K) ≠ 0)
    (hUc : ∀ a b, U a b * det3 G = cof3 G a b) (hdφ : dφ = ddet3 G dG / (12 * det3 G)) :
    (1 / 2) * ∑ j, ∑ k, U j k * dG j k = 6 * dφ := by
  have hU : ∀ a b, U a b = cof3 G a b / det3 G := fun a b => by rw [← hUc a b, mul_div_assoc, div_self hdet, mul_one]
  have h2 : (2 : K) ≠ 0 := fun h => h12 (by rw [show (12 : K) = 2 * 6 by norm_num, h, zero_mul])
  simp only [hdφ, ddet3, hU, Fin.sum_univ_three]
  field_simp
  ring

/-- the conformal connection is trace-free, `Γ̃^j_jm = Γ^j_jm − 6∂_mφ = 0`. -/
theorem Gammat_trace_zero (Γ Γt : Fin 3 → Fin 3 → Fin 3 → K) (G U : Fin 3 → Fin 3 → K) (dφ : Fin 3 → K) (hsymG : Sym G)
    (hGU : ∀ i k : Fin 3, ∑ j, G i j * U j k = delta i k)
    (hΓrel : ∀ k i j, Γ k i j = Γt k i j + 2 * (delta k i * dφ j + delta k j * dφ i - G i j * ∑ l, U k l * dφ l))
    (hΓtr : ∀ m, ∑ j, Γ j j m = 6 * dφ m) (m : Fin 3) : ∑ j, Γt j j m = 0 := by
  have h : ∑ j, Γ j j m = (∑ j, Γt j j m) + 2 * ((∑ j : Fin 3, delta j j) * dφ m) + 2 * (∑ j, delta j m * dφ j)
      - 2 * ∑ j, ∑ l, G m j * U j l * dφ l := by
    have g0 := hsymG 0 m; have g1 := hsymG 1 m; have g2 := hsymG 2 m
    simp only [hΓrel, Fin.sum_univ_three, g0, g1, g2]; ring
  have d0 : (∑ j : Fin 3, (delta j j : K)) = 3 := by simp [delta]
  have d1 : ∑ j, delta j m * dφ j = dφ m := by simp [delta, Finset.sum_ite_eq']
  rw [hΓtr, d0, d1, contract_GU G U hGU dφ m] at h
  linear_combination -h

namespace ExMom
def p : ℚ := 1 / 4
def G : Fin 3 → Fin 3 → ℚ := vec3 (vec3 4 0 0) (vec3 0 4 0) (vec3 0 0 4)
def U : Fin 3 → Fin 3 → ℚ := vec3 (vec3 (1 / 4) 0 0) (vec3 0 (1 / 4) 0) (vec3 0 0 (1 / 4))
def Ut : Fin 3 → Fin 3 → ℚ := vec3 (vec3 1 0 0) (vec3 0 1 0) (vec3 0 0 1)
def dφ : Fin 3 → ℚ := vec3 1 0 0
def Γt : Fin 3 → Fin 3 → Fin 3 → ℚ := fun _ _ _ => 0
def Γ (k i j : Fin 3) : ℚ := Γt k i j + 2 * (delta k i * dφ j + delta k j * dφ i - G i j * ∑ l, U k l * dφ l)
def dU (c a b : Fin 3) : ℚ := -(∑ m, Γ a c m * U m b) - ∑ m, Γ b c m * U a m
def Aut : Fin 3 → Fin 3 → ℚ := vec3 (vec3 1 2 0) (vec3 2 (-1) 0) (vec3 0 0 0)
def dAut (c a b : Fin 3) : ℚ := ((c : ℕ) + 2 : ℚ) * (((a : ℕ) : ℚ) + ((b : ℕ) : ℚ))
def Ktr : ℚ := 3
def dKtr : Fin 3 → ℚ := vec3 7 1 0
def M (a b : Fin 3) : ℚ := p * Aut a b - (2 / 3) * U a b * Ktr
def dM (c a b : Fin 3) : ℚ := (-4 * p * dφ c) * Aut a b + p * dAut c a b - (2 / 3) * (dU c a b * Ktr + U a b * dKtr c)

example : Sym G ∧ Sym Aut ∧ (∀ i k : Fin 3, ∑ j, G i j * U j k = delta i k) ∧ (∀ a b, U a b = p * Ut a b)
    ∧ (∀ c a b, covdUU Γ dU U c a b = 0) ∧ (∀ m, ∑ j, Γt j j m = 0) ∧ (∑ j, ∑ m, G j m * Aut m j = 0)
    ∧ Γ 0 0 0 = 2 ∧ Γ 0 1 1 = -2 ∧ dU 0 1 1 = -1
    ∧ p * ((∑ j, dAut j 0 j) + (∑ j, ∑ k, Γt 0 j k * Aut j k) + 6 * (∑ j, Aut 0 j * dφ j)
          - (2 / 3) * ∑ j, Ut 0 j * dKtr j) = 37 / 12 := by
  refine ⟨?_, ?_, ?_, ?_, ?_, ?_, ?_, ?_, ?_, ?_, ?_⟩
  · cases3 <;> cases3 <;> (simp only [G, core_unfold])
  · cases3 <;> cases3 <;> (simp only [Aut, core_unfold])
  · cases3 <;> cases3 <;> (simp only [G, U, Fin.sum_univ_three, delta, core_unfold]; norm_num [Fin.ext_iff])
  · cases3 <;> cases3 <;> (simp only [U, Ut, p, core_unfold]; norm_num)
  · intro c a b; simp only [covdUU, dU]; ring
  · intro m; simp only [Γt, Finset.sum_const_zero]
  · simp only [G, Aut, Fin.sum_univ_three, core_unfold]; norm_num
  · simp only [Γ, Γt, G, U, dφ, Fin.sum_univ_three, delta, core_unfold]; norm_num [Fin.ext_iff]
  · simp only [Γ, Γt, G, U, dφ, Fin.sum_univ_three, delta, core_unfold]; norm_num [Fin.ext_iff]
  · simp only [dU, Γ, Γt, G, U, dφ, Fin.sum_univ_three, delta, core_unfold]; norm_num [Fin.ext_iff]
  · simp only [p, dAut, Γt, Aut, dφ, Ut, dKtr, Fin.sum_univ_three, core_unfold]; norm_num

/-- and the conclusion of `mom_conformal` at this point, evaluated independently on the left-hand side. -/
example : ∑ j, covdUU Γ dM M j 0 j = 37 / 12 := by
  simp only [covdUU, dM, M, dU, Γ, Γt, G, U, dφ, Aut, dAut, Ktr, dKtr, p, Fin.sum_univ_three, delta, core_unfold]
  norm_num [Fin.ext_iff]
end ExMom

end AurelVerif.C06Deriv
