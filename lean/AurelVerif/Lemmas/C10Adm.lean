/-
Lemmas/C10Adm.lean — bridge between the abstract "normal frame" hypotheses of Lemmas/C10WeylEB.lean
(`UnitNormal`, `Spatial`, `traceG4 … = 0`, `VolumeForm`) and the code's own 3+1 formulas
(`nup4`, `ndown4`, `gdown4` assembled from α, β, γ; `s_to_st`; `levicivita_down4`; `gdet`).
-/
import AurelVerif.Props.C08
import AurelVerif.Lemmas.C10Vol
import AurelVerif.Lemmas.C10LC
import Mathlib.LinearAlgebra.Matrix.NonsingularInverse

set_option linter.unusedSimpArgs false
set_option linter.unusedVariables false

namespace AurelVerif.C10
open AurelVerif.Gen.Core AurelVerif.Tensor AurelVerif.CoreTac AurelVerif.Spec.Weyl

variable {K : Type} [Field K]

/-! ### the generated Levi-Civita tensor -/

theorem lc_down4_eq (e : Env K) :
    levicivita_down4 e = fun a b c d => levicivita_symbol_down4 e a b c d * e.sqrtF (-e.gdet) := by
  funext a b c d; exact lc_down4_spec e a b c d

theorem lc_down4_totAntisym (e : Env K) : TotAntisym (levicivita_down4 e) := by
  rw [lc_down4_eq]
  refine ⟨fun a b c d => ?_, fun a b c d => ?_, fun a b c d => ?_⟩
  · rw [(lc_symbol4_antisymm e a b c d).1]; ring
  · rw [(lc_symbol4_antisymm e a b c d).2.1]; ring
  · rw [(lc_symbol4_antisymm e a b c d).2.2]; ring

/-- the closed-form determinant the code uses for `gdet` (alternative "gdown4 present") is `detS`. -/
theorem gdet_is_detS (e : Env K) (hg : Symm e.gdown4) : gdet__gdown4 e = detS e e.gdown4 := by
  have h1 : gdet__gdown4 e = maths_determinant4 e e.gdown4 := by simp only [core_unfold]
  rw [h1, C08.determinant4_is_det e e.gdown4 hg, detS_is_det]

/-- **`levicivita_down4` is the volume form of `gdown4`** when `g⁻¹g = 1`, the cached `gdet` is the
determinant of the cached metric and the square root is exact on `−gdet`. -/
theorem lc_down4_volumeForm (e : Env K) (hg : Symm e.gdown4)
    (hinv : ∀ a b, ∑ c, e.gup4 a c * e.gdown4 c b = if a = b then 1 else 0)
    (hdet : e.gdet = gdet__gdown4 e) (hsq : e.sqrtF (-e.gdet) ^ 2 = -e.gdet) :
    VolumeForm e.gdown4 e.gup4 (levicivita_down4 e) := by
  rw [lc_down4_eq]
  refine volumeForm_lc e e.gdown4 e.gup4 hg hinv _ (vol_scale e e.gdown4 e.gup4 hinv _ ?_)
  rw [hsq, hdet, gdet_is_detS e hg]

/-! ### inverse of a symmetric matrix -/

/-- a left inverse of a symmetric matrix is symmetric. -/
theorem inv_symm_of_left {n : Nat} (g gup : Fin n → Fin n → K) (hg : ∀ a b, g a b = g b a)
    (hinv : ∀ a b, ∑ c, gup a c * g c b = if a = b then 1 else 0) : ∀ a b, gup a b = gup b a := by
  have hUG : Matrix.of gup * Matrix.of g = 1 := by
    ext a b; rw [Matrix.mul_apply, Matrix.one_apply]; simp only [Matrix.of_apply]; exact hinv a b
  have hGU : Matrix.of g * Matrix.of gup = 1 := mul_eq_one_comm.mp hUG
  have hGT : (Matrix.of g).transpose = Matrix.of g := by
    ext a b; simp only [Matrix.transpose_apply, Matrix.of_apply]; exact hg b a
  have h1 : (Matrix.of gup).transpose * Matrix.of g = 1 := by
    have := congrArg Matrix.transpose hGU
    rwa [Matrix.transpose_mul, Matrix.transpose_one, hGT] at this
  have h2 : (Matrix.of gup).transpose = Matrix.of gup := by
    calc (Matrix.of gup).transpose = (Matrix.of gup).transpose * (Matrix.of g * Matrix.of gup) := by
          rw [hGU, Matrix.mul_one]
      _ = Matrix.of gup := by rw [← Matrix.mul_assoc, h1, Matrix.one_mul]
  intro a b
  have := congrFun (congrFun h2 b) a
  simpa only [Matrix.transpose_apply, Matrix.of_apply] using this

/-! ### the unit normal of the assembled metric -/

/-- **the code's `nup4`, `ndown4` are a unit normal of the assembled metric** (`α ≠ 0`), for every
cached inverse `gup4` with `g⁻¹g = 1`. -/
theorem unitNormal_of_assembled (e : Env K) (h : C08.Assembled e) (ha : e.alpha ≠ 0)
    (hinv : ∀ a b, ∑ c, e.gup4 a c * e.gdown4 c b = if a = b then 1 else 0)
    (hnu : e.nup4 = nup4 e) (hnd : e.ndown4 = ndown4 e) :
    UnitNormal e.gdown4 e.gup4 e.ndown4 e.nup4 := by
  have hg : Symm e.gdown4 := by rw [h.hg4]; exact C08.gdown4_symm e h.hsym
  have hlow := C08.ndown_is_lowered e h ha
  refine ⟨hg, inv_symm_of_left _ _ hg hinv, hinv, fun a => ?_, ?_⟩
  · rw [hnd, hnu]; exact hlow a
  · have hu := C08.normal_unit e h ha
    have H : ∑ a, nup4 e a * ∑ b, e.gdown4 a b * nup4 e b = ∑ a, nup4 e a * ndown4 e a := by
      simp only [← hlow]
    rw [hnu, hnd]
    linear_combination (norm := sum4_ring) hu - H

/-! ### `s_to_st` of a spatial tensor -/

/-- with a shift key: `s_to_st(f)_ab n^b = 0` for the code's `nup4 = (1, −β^i)/α` and symmetric `f`. -/
theorem s_to_st_shift_spatial (e : Env K) (f : Fin 3 → Fin 3 → K) (hf : Symm f) (hnu : e.nup4 = nup4 e) :
    Spatial (s_to_st__betaup3 e f) e.nup4 := by
  have f10 := hf 1 0; have f20 := hf 2 0; have f21 := hf 2 1
  rw [hnu]
  unfold Spatial
  cases4 <;> (simp only [core_unfold, Fin.sum_univ_four, f10, f20, f21]; ring)

/-- without a shift key (time row and column of `s_to_st(f)` are 0): spatial when `n^i = 0`. -/
theorem s_to_st_noshift_spatial (e : Env K) (f : Fin 3 → Fin 3 → K) (hn : ∀ i : Fin 3, e.nup4 i.succ = 0) :
    Spatial (s_to_st__dflt e f) e.nup4 := by
  have n1 := hn 0; have n2 := hn 1; have n3 := hn 2
  simp only [core_unfold] at n1 n2 n3
  unfold Spatial
  cases4 <;> (simp only [core_unfold, Fin.sum_univ_four, n1, n2, n3]; ring)

/-- the projector `P^i_a = (β^i, δ^i_j)` that `s_to_st` applies twice. -/
def stP (e : Env K) : Fin 3 → Fin 4 → K :=
  vec3 (vec4 (e.betaup3 0) 1 0 0) (vec4 (e.betaup3 1) 0 1 0) (vec4 (e.betaup3 2) 0 0 1)

theorem s_to_st_shift_proj (e : Env K) (f : Fin 3 → Fin 3 → K) (hf : Symm f) : ∀ a b : Fin 4,
    s_to_st__betaup3 e f a b = ∑ i, ∑ j, stP e i a * stP e j b * f i j := by
  have f10 := hf 1 0; have f20 := hf 2 0; have f21 := hf 2 1
  cases4 <;> cases4 <;> (simp only [core_unfold, stP, Fin.sum_univ_three, f10, f20, f21]; ring)

theorem stP_lower (e : Env K) (h : C08.Assembled e) : ∀ (b : Fin 4) (k : Fin 3),
    ∑ j, stP e j b * e.gammadown3 j k = e.gdown4 b k.succ := by
  have s10 := h.hsym 1 0; have s20 := h.hsym 2 0; have s21 := h.hsym 2 1
  rw [h.hg4]
  cases4 <;> cases3 <;> (simp only [h.hbd, core_unfold, stP, Fin.sum_univ_three, s10, s20, s21]; try ring)

/-- **`g^{ab} s_to_st(f)_ab = γ^{ij} f_ij`** for the assembled metric, any cached `gup4` with `g⁻¹g = 1`,
symmetric `γ⁻¹` with `γ γ⁻¹ = 1`. -/
theorem s_to_st_shift_trace (e : Env K) (h : C08.Assembled e)
    (hinv : ∀ a b, ∑ c, e.gup4 a c * e.gdown4 c b = if a = b then 1 else 0)
    (hγu : Symm e.gammaup3)
    (hγinv : ∀ j l, ∑ k, e.gammadown3 j k * e.gammaup3 k l = if j = l then 1 else 0)
    (f : Fin 3 → Fin 3 → K) (hf : Symm f) :
    traceG4 e.gup4 (s_to_st__betaup3 e f) = traceG3 e.gammaup3 f := by
  obtain ⟨X, hX⟩ : ∃ X : Fin 3 → Fin 3 → K, ∀ i j, X i j = ∑ a, ∑ b, e.gup4 a b * stP e i a * stP e j b :=
    ⟨_, fun _ _ => rfl⟩
  -- X γ = 1
  have hXγ : ∀ i k, ∑ j, X i j * e.gammadown3 j k = stP e i k.succ := by
    intro i k
    have A : ∑ a, stP e i a * ∑ b, e.gup4 a b * ∑ j, stP e j b * e.gammadown3 j k
        = ∑ a, stP e i a * ∑ b, e.gup4 a b * e.gdown4 b k.succ := by simp only [stP_lower e h]
    have B : ∑ a, stP e i a * ∑ b, e.gup4 a b * e.gdown4 b k.succ
        = ∑ a, stP e i a * (if a = k.succ then 1 else 0) := by simp only [hinv]
    have C : ∑ a, stP e i a * (if a = k.succ then (1 : K) else 0) = stP e i k.succ := by simp
    simp only [hX]
    linear_combination (norm := (simp only [Fin.sum_univ_three, Fin.sum_univ_four]; ring)) A + B + C
  have hδ : ∀ i k : Fin 3, stP e i k.succ = if i = k then 1 else 0 := by
    cases3 <;> cases3 <;> simp [stP]
  -- X = γ⁻¹
  have hXeq : ∀ i l, X i l = e.gammaup3 i l := by
    intro i l
    have A : ∑ j, X i j * ∑ k, e.gammadown3 j k * e.gammaup3 k l = ∑ j, X i j * (if j = l then 1 else 0) := by
      simp only [hγinv]
    have B : ∑ j, X i j * (if j = l then (1 : K) else 0) = X i l := by simp
    have C : ∑ k, (∑ j, X i j * e.gammadown3 j k) * e.gammaup3 k l
        = ∑ k, (if i = k then 1 else 0) * e.gammaup3 k l := by simp only [hXγ, hδ]
    have D : ∑ k, (if i = k then (1 : K) else 0) * e.gammaup3 k l = e.gammaup3 i l := by simp
    linear_combination (norm := (simp only [Fin.sum_univ_three]; ring)) C + D - A - B
  have T : ∑ i, ∑ j, X i j * f i j = ∑ i, ∑ j, e.gammaup3 i j * f i j := by simp only [hXeq]
  unfold traceG4 traceG3
  simp only [s_to_st_shift_proj e f hf, hX] at T ⊢
  linear_combination (norm := (simp only [Fin.sum_univ_three, Fin.sum_univ_four]; ring)) T


/-- with zero shift the two variants of `s_to_st` coincide. -/
theorem s_to_st_zero_shift (e : Env K) (f : Fin 3 → Fin 3 → K) (hβ : ∀ i, e.betaup3 i = 0) :
    s_to_st__betaup3 e f = s_to_st__dflt e f := by
  have b0 := hβ 0; have b1 := hβ 1; have b2 := hβ 2
  funext a b
  revert a b
  cases4 <;> cases4 <;> (simp only [core_unfold, b0, b1, b2]; try ring)

/-- zero shift: the code's `nup4` has no spatial components. -/
theorem nup4_zero_shift (e : Env K) (hnu : e.nup4 = nup4 e) (hβ : ∀ i, e.betaup3 i = 0) :
    ∀ i : Fin 3, e.nup4 i.succ = 0 := by
  have b0 := hβ 0; have b1 := hβ 1; have b2 := hβ 2
  rw [hnu]
  cases3 <;> (simp only [core_unfold, b0, b1, b2]; ring)

end AurelVerif.C10
