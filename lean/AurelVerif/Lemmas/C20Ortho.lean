/-
Lemmas/C20Ortho.lean — CONTINUOUS inner products of the closed form of
`maths.sYlm` (model `sYlmC` of Lemmas/HarmPhi.lean) over the sphere:

  contGram s l m l' m' = ∫_0^π ∫_0^{2π} conj(ₛY_lm) ₛY_l'm' sin θ dφ dθ

* `phi_integral`     ∫_0^{2π} e^{i d φ} dφ = 2π δ_{d0}            (all d ∈ ℤ)
* `thetaInt_eq`      ∫_0^π (Σ_r…)(Σ_r'…) sin θ dθ = 2·Z/(l+l'+1)!  (all s, l, l', m ∈ ℤ;
                     Z = `thetaGramZ`, an explicit integer double sum)
* `contGram_eq`      contGram = δ_{mm'} · √(R/π)·√(R'/π)·2π·thetaInt  (all integers)
* `contGram_of_table` orthonormality for |s| ≤ 2, l, l' ≤ L from the kernel-decided
                     integer table `tableOK L` (Lemmas/C20OrthoTable*.lean)
* `contGram_top`, `contGram_bottom`  ‖ₛY_{l,±l}‖² = 1 for ALL l ≥ |s| (infinite families, no table)
* `contGram_neg`     invariance under (s, m, m') → (−s, −m, −m')
-/
import Mathlib.Analysis.SpecialFunctions.Integrals.Basic
import Mathlib.Topology.Algebra.Monoid
import AurelVerif.Lemmas.HarmPhi
import AurelVerif.Lemmas.C20Beta
import AurelVerif.Lemmas.C20GramZ

namespace AurelVerif.HarmLemmas
open AurelVerif.Harm AurelVerif.HarmGram Complex intervalIntegral
open scoped Real ComplexConjugate

/-! ### the φ integral -/

/-- `∫_0^{2π} e^{i d φ} dφ = 2π δ_{d,0}` for every integer `d`. -/
theorem phi_integral (d : Int) :
    ∫ φ in (0 : ℝ)..(2 * π), exp (I * (d : ℂ) * (φ : ℂ)) = if d = 0 then 2 * (π : ℂ) else 0 := by
  split
  · rename_i h0
    subst h0
    simp
  · rename_i h0
    have hc : I * (d : ℂ) ≠ 0 := mul_ne_zero I_ne_zero (by exact_mod_cast h0)
    rw [integral_exp_mul_complex hc]
    have e1 : I * (d : ℂ) * ((2 * π : ℝ) : ℂ) = (d : ℂ) * (2 * π * I) := by push_cast; ring
    rw [e1, exp_int_mul_two_pi_mul_I]
    simp

/-! ### the θ integral of a product of two term lists -/

/-- one summand of `evalK` as a function of θ -/
noncomputable def termFn (t : Term) (θ : ℝ) : ℝ :=
  (t.coef : ℝ) * Real.cos (θ / 2) ^ t.a.toNat * Real.sin (θ / 2) ^ t.b.toNat

theorem evalK_eq_termFn (ts : List Term) (θ : ℝ) :
    evalK ts (Real.cos (θ / 2)) (Real.sin (θ / 2)) = (ts.map fun t => termFn t θ).sum := rfl

theorem termFn_continuous (t : Term) : Continuous (termFn t) := by
  unfold termFn; fun_prop

/-- every pair of terms has non-negative exponents, even exponent sums, and the
two half sums add up to `n`. -/
def PairsEven (n : Nat) (ts ts' : List Term) : Prop :=
  ∀ t ∈ ts, ∀ t' ∈ ts', 0 ≤ t.a ∧ 0 ≤ t.b ∧ 0 ≤ t'.a ∧ 0 ≤ t'.b
    ∧ (t.a + t'.a) % 2 = 0 ∧ (t.b + t'.b) % 2 = 0 ∧ (t.a + t'.a) / 2 + (t.b + t'.b) / 2 = (n : Int)

theorem pair_integral (t t' : Term) (n : Nat)
    (h : 0 ≤ t.a ∧ 0 ≤ t.b ∧ 0 ≤ t'.a ∧ 0 ≤ t'.b
      ∧ (t.a + t'.a) % 2 = 0 ∧ (t.b + t'.b) % 2 = 0 ∧ (t.a + t'.a) / 2 + (t.b + t'.b) / 2 = (n : Int)) :
    ∫ θ in (0 : ℝ)..π, termFn t θ * termFn t' θ * Real.sin θ
      = 2 * ((pairZ t t' : ℤ) : ℝ) / ((n + 1).factorial : ℝ) := by
  obtain ⟨h1, h2, h3, h4, h5, h6, h7⟩ := h
  set p : ℕ := ((t.a + t'.a) / 2).toNat with hp
  set q : ℕ := ((t.b + t'.b) / 2).toNat with hq
  have ea : t.a.toNat + t'.a.toNat = 2 * p := by omega
  have eb : t.b.toNat + t'.b.toNat = 2 * q := by omega
  have en : p + q = n := by omega
  have hfun : ∀ θ : ℝ, termFn t θ * termFn t' θ * Real.sin θ
      = ((t.coef : ℝ) * (t'.coef : ℝ))
        * (Real.cos (θ / 2) ^ (2 * p) * Real.sin (θ / 2) ^ (2 * q) * Real.sin θ) := by
    intro θ
    unfold termFn
    rw [← ea, ← eb, pow_add, pow_add]
    ring
  simp only [hfun]
  rw [integral_const_mul, halfAngle_beta, en]
  unfold pairZ
  rw [← hp, ← hq, fact_eq_factorial, fact_eq_factorial]
  push_cast
  ring

theorem integral_list_sum {α : Type} (L : List α) (g : α → ℝ → ℝ) (a b : ℝ)
    (hg : ∀ x ∈ L, Continuous (g x)) :
    ∫ θ in a..b, (L.map fun x => g x θ).sum = (L.map fun x => ∫ θ in a..b, g x θ).sum := by
  induction L with
  | nil => simp
  | cons x L ih =>
    have hx : Continuous (g x) := hg x List.mem_cons_self
    have hL : ∀ y ∈ L, Continuous (g y) := fun y hy => hg y (List.mem_cons_of_mem _ hy)
    have hc : Continuous fun θ => (L.map fun y => g y θ).sum := continuous_list_sum L hL
    simp only [List.map_cons, List.sum_cons]
    rw [integral_add (hx.intervalIntegrable a b) (hc.intervalIntegrable a b), ih hL]

theorem sum_map_scaled {α : Type} (L : List α) (h : α → ℤ) (N : ℝ) :
    (L.map fun x => 2 * ((h x : ℤ) : ℝ) / N).sum = 2 * (((L.map h).sum : ℤ) : ℝ) / N := by
  induction L with
  | nil => simp
  | cons x L ih =>
    simp only [List.map_cons, List.sum_cons, ih]
    push_cast
    ring

/-- `∫_0^π evalK ts · evalK ts' · sin θ dθ = 2·gramZ ts ts'/(n+1)!` -/
theorem evalK_mul_integral (ts ts' : List Term) (n : Nat) (h : PairsEven n ts ts') :
    ∫ θ in (0 : ℝ)..π, evalK ts (Real.cos (θ / 2)) (Real.sin (θ / 2))
        * evalK ts' (Real.cos (θ / 2)) (Real.sin (θ / 2)) * Real.sin θ
      = 2 * ((gramZ ts ts' : ℤ) : ℝ) / ((n + 1).factorial : ℝ) := by
  have hfun : ∀ θ : ℝ, evalK ts (Real.cos (θ / 2)) (Real.sin (θ / 2))
        * evalK ts' (Real.cos (θ / 2)) (Real.sin (θ / 2)) * Real.sin θ
      = (ts.map fun t => (fun θ => (ts'.map fun t' => termFn t θ * termFn t' θ * Real.sin θ).sum) θ).sum := by
    intro θ
    rw [evalK_eq_termFn, evalK_eq_termFn, ← List.sum_map_mul_right, ← List.sum_map_mul_right]
    congr 1
    apply List.map_congr_left
    intro t _
    rw [← List.sum_map_mul_left, ← List.sum_map_mul_right]
  simp only [hfun]
  have hc : ∀ t t' : Term, Continuous fun θ => termFn t θ * termFn t' θ * Real.sin θ := by
    intro t t'
    exact ((termFn_continuous t).mul (termFn_continuous t')).mul Real.continuous_sin
  rw [integral_list_sum ts _ 0 π (fun t _ => continuous_list_sum ts' (fun t' _ => hc t t'))]
  have inner : ∀ t ∈ ts, (∫ θ in (0 : ℝ)..π, (ts'.map fun t' => termFn t θ * termFn t' θ * Real.sin θ).sum)
      = 2 * (((ts'.map fun t' => pairZ t t').sum : ℤ) : ℝ) / ((n + 1).factorial : ℝ) := by
    intro t ht
    rw [integral_list_sum ts' (fun t' θ => termFn t θ * termFn t' θ * Real.sin θ) 0 π (fun t' _ => hc t t')]
    rw [← sum_map_scaled]
    congr 1
    apply List.map_congr_left
    intro t' ht'
    exact pair_integral t t' n (h t ht t' ht')
  rw [List.map_congr_left inner]
  unfold gramZ
  exact sum_map_scaled ts (fun t => (ts'.map fun t' => pairZ t t').sum) _

/-- the pairs of `harmTerms s l m` and `harmTerms s l' m` (same spin, same order). -/
theorem harmTerms_pairs (s l m l' : Int) :
    PairsEven (l + l').toNat (harmTerms s l m) (harmTerms s l' m) := by
  intro t ht t' ht'
  unfold harmTerms at ht ht'
  rw [List.mem_map] at ht ht'
  obtain ⟨r, hr, rfl⟩ := ht
  obtain ⟨r', hr', rfl⟩ := ht'
  have h1 := range_args_ok s l m r hr
  have h2 := range_args_ok s l' m r' hr'
  simp only [term]
  omega

/-- the θ part of the continuous inner product of `(s, l, m)` and `(s, l', m)` -/
noncomputable def thetaInt (s l m l' : Int) : ℝ :=
  ∫ θ in (0 : ℝ)..π, evalK (harmTerms s l m) (Real.cos (θ / 2)) (Real.sin (θ / 2))
    * evalK (harmTerms s l' m) (Real.cos (θ / 2)) (Real.sin (θ / 2)) * Real.sin θ

/-- for ALL integers `s, l, m, l'`: the θ integral is the explicit rational
`2 · thetaGramZ s l m l' / (l + l' + 1)!`. -/
theorem thetaInt_eq (s l m l' : Int) :
    thetaInt s l m l' = 2 * ((thetaGramZ s l m l' : ℤ) : ℝ) / (((l + l').toNat + 1).factorial : ℝ) :=
  evalK_mul_integral _ _ _ (harmTerms_pairs s l m l')

/-! ### the continuous inner product -/

/-- `∫_0^π ∫_0^{2π} conj(ₛY_lm) ₛY_l'm' sin θ dφ dθ` -/
noncomputable def contGram (s l m l' m' : Int) : ℂ :=
  ∫ θ in (0 : ℝ)..π, ∫ φ in (0 : ℝ)..(2 * π),
    conj (sYlmC s l m θ φ) * sYlmC s l' m' θ φ * ((Real.sin θ : ℝ) : ℂ)

/-- normalisations × 2π × θ integral (real) -/
noncomputable def gramR (s l m l' : Int) : ℝ :=
  Real.sqrt (((normRadicand s l m : ℚ) : ℝ) / π) * Real.sqrt (((normRadicand s l' m : ℚ) : ℝ) / π)
    * (2 * π) * thetaInt s l m l'

/-- for ALL integers: the φ integral gives `2π δ_{mm'}`, what remains is real. -/
theorem contGram_eq (s l m l' m' : Int) :
    contGram s l m l' m' = if m = m' then ((gramR s l m l' : ℝ) : ℂ) else 0 := by
  unfold contGram
  set A : ℝ := Real.sqrt (((normRadicand s l m : ℚ) : ℝ) / π) with hA
  set A' : ℝ := Real.sqrt (((normRadicand s l' m' : ℚ) : ℝ) / π) with hA'
  have hterm : ∀ θ φ : ℝ, conj (sYlmC s l m θ φ) * sYlmC s l' m' θ φ * ((Real.sin θ : ℝ) : ℂ)
      = ((A * A' * (evalK (harmTerms s l m) (Real.cos (θ / 2)) (Real.sin (θ / 2))
          * evalK (harmTerms s l' m') (Real.cos (θ / 2)) (Real.sin (θ / 2)) * Real.sin θ) : ℝ) : ℂ)
        * exp (I * ((m' - m : ℤ) : ℂ) * (φ : ℂ)) := by
    intro θ φ
    unfold sYlmC
    have he : exp (I * ((m' - m : ℤ) : ℂ) * (φ : ℂ))
        = exp (-I * (m : ℂ) * (φ : ℂ)) * exp (I * (m' : ℂ) * (φ : ℂ)) := by
      rw [← exp_add]; congr 1; push_cast; ring
    rw [he]
    simp only [map_mul, conj_ofReal, ← exp_conj, conj_I, map_intCast]
    push_cast
    ring
  simp only [hterm]
  have inner : ∀ θ : ℝ, (∫ φ in (0 : ℝ)..(2 * π),
        ((A * A' * (evalK (harmTerms s l m) (Real.cos (θ / 2)) (Real.sin (θ / 2))
          * evalK (harmTerms s l' m') (Real.cos (θ / 2)) (Real.sin (θ / 2)) * Real.sin θ) : ℝ) : ℂ)
        * exp (I * ((m' - m : ℤ) : ℂ) * (φ : ℂ)))
      = ((A * A' * (evalK (harmTerms s l m) (Real.cos (θ / 2)) (Real.sin (θ / 2))
          * evalK (harmTerms s l' m') (Real.cos (θ / 2)) (Real.sin (θ / 2)) * Real.sin θ) : ℝ) : ℂ)
        * (if m' - m = 0 then 2 * (π : ℂ) else 0) := by
    intro θ
    rw [integral_const_mul, phi_integral]
  simp only [inner]
  by_cases hm : m = m'
  · subst hm
    rw [if_pos rfl, if_pos (sub_self m)]
    rw [integral_mul_const, integral_ofReal, integral_const_mul]
    unfold gramR thetaInt
    push_cast
    ring
  · have : ¬ (m' - m = 0) := fun h => hm (by omega)
    rw [if_neg hm, if_neg this]
    simp

/-! ### from the integer table to orthonormality -/

theorem gramZ_nil_left (ts' : List Term) : gramZ [] ts' = 0 := rfl

theorem gramZ_nil_right (ts : List Term) : gramZ ts [] = 0 := by
  unfold gramZ
  induction ts with
  | nil => rfl
  | cons t ts ih => simp

theorem thetaGramZ_empty (s l m l' : Int) (h : (l < |s| ∨ l < |m|) ∨ (l' < |s| ∨ l' < |m|)) :
    thetaGramZ s l m l' = 0 := by
  unfold thetaGramZ
  rcases h with h | h
  · rw [harmTerms_empty s l m h]; exact gramZ_nil_left _
  · rw [harmTerms_empty s l' m h]; exact gramZ_nil_right _

theorem gramR_of_Z_zero (s l m l' : Int) (h : thetaGramZ s l m l' = 0) : gramR s l m l' = 0 := by
  unfold gramR
  rw [thetaInt_eq, h]
  simp

/-- the integer identity of `entryOK` gives norm 1 -/
theorem gramR_of_Z_norm (s l m : Int) (hs : |s| ≤ l) (hm : |m| ≤ l)
    (h : thetaGramZ s l m l * ((fact (l + m).toNat : Nat) : Int) * ((fact (l - m).toNat : Nat) : Int) * (2 * l + 1)
      = ((fact (2 * l + 1).toNat : Nat) : Int) * ((fact (l + s).toNat : Nat) : Int) * ((fact (l - s).toNat : Nat) : Int)) :
    gramR s l m l = 1 := by
  have hl : 0 ≤ l := le_trans (abs_nonneg s) hs
  unfold gramR
  have hR0 : 0 ≤ ((normRadicand s l m : ℚ) : ℝ) / π := by
    have : (0 : ℝ) < ((normRadicand s l m : ℚ) : ℝ) := by exact_mod_cast normRadicand_pos s l m hl
    exact le_of_lt (div_pos this Real.pi_pos)
  rw [Real.mul_self_sqrt hR0, thetaInt_eq, normRadicand_eq s l m hs hm]
  have e : (l + l).toNat + 1 = (2 * l + 1).toNat := by omega
  rw [e]
  simp only [fact_eq_factorial] at h
  have hZ : ((thetaGramZ s l m l : ℤ) : ℝ) * (((l + m).toNat).factorial : ℝ) * (((l - m).toNat).factorial : ℝ) * (2 * (l : ℝ) + 1)
      = (((2 * l + 1).toNat).factorial : ℝ) * (((l + s).toNat).factorial : ℝ) * (((l - s).toNat).factorial : ℝ) := by
    exact_mod_cast h
  have h1 : ((((2 * l + 1).toNat).factorial : ℕ) : ℝ) ≠ 0 := by positivity
  have h2 : ((((l + s).toNat).factorial : ℕ) : ℝ) ≠ 0 := by positivity
  have h3 : ((((l - s).toNat).factorial : ℕ) : ℝ) ≠ 0 := by positivity
  have hpi : (π : ℝ) ≠ 0 := Real.pi_ne_zero
  push_cast
  field_simp
  linarith [hZ]

theorem entryOK_of_table {L : Nat} (h : tableOK L = true) (s l m l' : Int)
    (hs : |s| ≤ 2) (hl : 0 ≤ l) (hlL : l ≤ L) (hl' : 0 ≤ l') (hl'L : l' ≤ L) (hm : |m| ≤ L) :
    entryOK s l m l' = true := by
  unfold tableOK at h
  rw [List.all_eq_true] at h
  have hs' := abs_le.mp hs
  have hm' := abs_le.mp hm
  have h1 := h s ((mem_pyRange _ _ _).mpr (by omega))
  unfold spinOK at h1
  rw [List.all_eq_true] at h1
  have h2 := h1 l ((mem_pyRange _ _ _).mpr (by omega))
  rw [List.all_eq_true] at h2
  have h3 := h2 l' ((mem_pyRange _ _ _).mpr (by omega))
  rw [List.all_eq_true] at h3
  exact h3 m ((mem_pyRange _ _ _).mpr (by omega))

/-- **orthonormality from the table**: for `|s| ≤ 2` and `l, l' ≤ L` (any
integers `m, m'`, any sign of `l, l'`): the continuous inner product is `1` if
`(l, m) = (l', m')` is an admissible mode (`|s| ≤ l`, `|m| ≤ l`) and `0` otherwise. -/
theorem contGram_of_table {L : Nat} (h : tableOK L = true) (s l m l' m' : Int)
    (hs : |s| ≤ 2) (hlL : l ≤ L) (hl'L : l' ≤ L) :
    contGram s l m l' m' = if l = l' ∧ m = m' ∧ |s| ≤ l ∧ |m| ≤ l then 1 else 0 := by
  rw [contGram_eq]
  by_cases hmm : m = m'
  swap
  · rw [if_neg hmm, if_neg (fun hh => hmm hh.2.1)]
  subst hmm
  rw [if_pos rfl]
  by_cases hemp : (l < |s| ∨ l < |m|) ∨ (l' < |s| ∨ l' < |m|)
  · rw [gramR_of_Z_zero _ _ _ _ (thetaGramZ_empty s l m l' hemp)]
    have : ¬ (l = l' ∧ m = m ∧ |s| ≤ l ∧ |m| ≤ l) := by
      rintro ⟨rfl, _, h1, h2⟩
      rcases hemp with (h | h) | (h | h) <;> omega
    rw [if_neg this]; simp
  · simp only [not_or, not_lt] at hemp
    obtain ⟨⟨a1, a2⟩, ⟨a3, a4⟩⟩ := hemp
    have hl : 0 ≤ l := le_trans (abs_nonneg s) a1
    have hl' : 0 ≤ l' := le_trans (abs_nonneg s) a3
    have hm : |m| ≤ (L : Int) := le_trans a2 hlL
    have hE := entryOK_of_table h s l m l' hs hl hlL hl' hl'L hm
    unfold entryOK at hE
    have n1 : ((s.natAbs : Nat) : Int) ≤ l := by rw [Int.natCast_natAbs]; exact a1
    have n2 : ((m.natAbs : Nat) : Int) ≤ l := by rw [Int.natCast_natAbs]; exact a2
    by_cases hll : l = l'
    · subst hll
      rw [if_pos ⟨rfl, n1, n2⟩] at hE
      rw [if_pos ⟨rfl, rfl, a1, a2⟩]
      have := gramR_of_Z_norm s l m a1 a2 (by simpa using hE)
      rw [this]; simp
    · rw [if_neg (fun hh => hll hh.1)] at hE
      rw [if_neg (fun hh => hll hh.1)]
      have : thetaGramZ s l m l' = 0 := by simpa using hE
      rw [gramR_of_Z_zero _ _ _ _ this]; simp

/-! ### an infinite family without a table: the top order `m = l` -/

theorem harmTerms_top (s l : Int) (hs : |s| ≤ l) : harmTerms s l l = [⟨1, l - s, l + s⟩] := by
  have hs' := abs_le.mp hs
  unfold harmTerms rRange pyRange rLo rHi
  have e1 : max (l - s) 0 = l - s := by omega
  have e2 : (min (l + l) (l - s) + 1 - (l - s)).toNat = 1 := by omega
  rw [e1, e2]
  simp only [List.range_one, List.map_cons, List.map_nil, Nat.cast_zero, add_zero]
  unfold term
  have b1 : binomZ (l - s) (l - s) = 1 := by
    obtain ⟨n, hn⟩ := Int.eq_ofNat_of_zero_le (show 0 ≤ l - s by omega)
    rw [hn, binomZ_nonneg]; simp
  have b2 : binomZ (l + s) (l - s + s - l) = 1 := by
    obtain ⟨n, hn⟩ := Int.eq_ofNat_of_zero_le (show 0 ≤ l + s by omega)
    rw [show l - s + s - l = ((0 : ℕ) : ℤ) by omega, hn, binomZ_nonneg]; simp
  have b3 : negOnePow (l - (l - s) - s) = 1 := by
    rw [show l - (l - s) - s = 0 by omega]; rfl
  rw [b1, b2, b3]
  have key : ∀ (c a b c' a' b' : Int), c = c' → a = a' → b = b' →
      [(⟨c, a, b⟩ : Term)] = [⟨c', a', b'⟩] := by
    intro c a b c' a' b' h1 h2 h3; subst h1 h2 h3; rfl
  exact key _ _ _ _ _ _ (by ring) (by omega) (by omega)

/-- `‖ₛY_{l,l}‖² = 1` for every spin and EVERY degree `l ≥ |s|`. -/
theorem contGram_top (s l : Int) (hs : |s| ≤ l) : contGram s l l l l = 1 := by
  have hs' := abs_le.mp hs
  have hl : 0 ≤ l := le_trans (abs_nonneg s) hs
  rw [contGram_eq, if_pos rfl]
  have hll : |l| ≤ l := by rw [abs_of_nonneg hl]
  have hZ : thetaGramZ s l l l = ((fact (l - s).toNat : Nat) : Int) * ((fact (l + s).toNat : Nat) : Int) := by
    unfold thetaGramZ gramZ
    rw [harmTerms_top s l hs]
    simp only [List.map_cons, List.map_nil, List.sum_cons, List.sum_nil, add_zero, pairZ]
    have e1 : (l - s + (l - s)) / 2 = l - s := by omega
    have e2 : (l + s + (l + s)) / 2 = l + s := by omega
    rw [e1, e2]; ring
  rw [gramR_of_Z_norm s l l hs hll]
  · simp
  · rw [hZ]
    have e0 : (l - l).toNat = 0 := by omega
    have e1 : (2 * l + 1).toNat = (l + l).toNat + 1 := by omega
    rw [e0, e1]
    simp only [fact]
    have e2 : (((l + l).toNat + 1 : ℕ) : ℤ) = 2 * l + 1 := by omega
    push_cast
    rw [show (((l + l).toNat : ℕ) : ℤ) + 1 = 2 * l + 1 by omega]
    ring

/-! ### the symmetry (s, m, m') → (−s, −m, −m') and the bottom order `m = −l` -/

theorem thetaInt_neg (s l m l' : Int) : thetaInt (-s) l (-m) l' = thetaInt s l m l' := by
  unfold thetaInt
  have hk : ((negOnePow (s + m) : ℤ) : ℝ) * ((negOnePow (s + m) : ℤ) : ℝ) = 1 := by
    exact_mod_cast negOnePow_sq (s + m)
  have h : ∀ θ : ℝ, evalK (harmTerms (-s) l (-m)) (Real.cos (θ / 2)) (Real.sin (θ / 2))
        * evalK (harmTerms (-s) l' (-m)) (Real.cos (θ / 2)) (Real.sin (θ / 2)) * Real.sin θ
      = evalK (harmTerms s l m) (Real.cos (θ / 2)) (Real.sin (θ / 2))
        * evalK (harmTerms s l' m) (Real.cos (θ / 2)) (Real.sin (θ / 2)) * Real.sin θ := by
    intro θ
    rw [evalK_neg, evalK_neg]
    linear_combination (evalK (harmTerms s l m) (Real.cos (θ / 2)) (Real.sin (θ / 2))
        * evalK (harmTerms s l' m) (Real.cos (θ / 2)) (Real.sin (θ / 2)) * Real.sin θ) * hk
  simp only [h]

theorem gramR_neg (s l m l' : Int) : gramR (-s) l (-m) l' = gramR s l m l' := by
  unfold gramR
  rw [normRadicand_neg, normRadicand_neg, thetaInt_neg]

/-- the continuous inner products are invariant under `(s, m, m') → (−s, −m, −m')`. -/
theorem contGram_neg (s l m l' m' : Int) : contGram (-s) l (-m) l' (-m') = contGram s l m l' m' := by
  rw [contGram_eq, contGram_eq, gramR_neg]
  by_cases h : m = m'
  · rw [if_pos h, if_pos (by omega)]
  · rw [if_neg h, if_neg (by omega)]

/-- `‖ₛY_{l,−l}‖² = 1` for every spin and EVERY degree `l ≥ |s|`. -/
theorem contGram_bottom (s l : Int) (hs : |s| ≤ l) : contGram s l (-l) l (-l) = 1 := by
  have h := contGram_neg (-s) l l l l
  rw [neg_neg] at h
  rw [h]
  exact contGram_top (-s) l (by rwa [abs_neg])

end AurelVerif.HarmLemmas
