/-
Lemmas/CatalogScan.lean — T1 (per-level summary is the progression on disk)
and T6 (overall merge).  Core Lean only.
-/
import AurelVerif.Lemmas.CatalogIncr

set_option linter.unusedSimpArgs false
set_option linter.unusedVariables false

namespace AurelVerif.CatalogLemmas
open AurelVerif.Catalog

/-! ## sorting -/

theorem insertBy_perm {α : Type} (le : α → α → Bool) (x : α) : ∀ l : List α, (insertBy le x l).Perm (x :: l) := by
  intro l
  induction l with
  | nil => exact List.Perm.refl _
  | cons a l ih =>
    simp only [insertBy]
    split
    · exact List.Perm.refl _
    · exact (List.Perm.cons a ih).trans (List.Perm.swap x a l)

theorem isort_perm {α : Type} (le : α → α → Bool) : ∀ l : List α, (isort le l).Perm l := by
  intro l
  induction l with
  | nil => exact List.Perm.refl _
  | cons a l ih =>
    have : isort le (a :: l) = insertBy le a (isort le l) := rfl
    rw [this]
    exact (insertBy_perm le a _).trans (List.Perm.cons a ih)

theorem insertBy_sorted (x : Nat) : ∀ l : List Nat, l.Pairwise (· ≤ ·) →
    (insertBy (fun a b => decide (a ≤ b)) x l).Pairwise (· ≤ ·) := by
  intro l
  induction l with
  | nil => intro _; simp [insertBy]
  | cons a l ih =>
    intro h
    rw [List.pairwise_cons] at h
    simp only [insertBy]
    split
    · rename_i hxa
      have hxa' : x ≤ a := by simpa using hxa
      rw [List.pairwise_cons]
      refine ⟨?_, List.pairwise_cons.mpr h⟩
      intro b hb
      rcases List.mem_cons.mp hb with hb | hb
      · subst hb; exact hxa'
      · exact Nat.le_trans hxa' (h.1 b hb)
    · rename_i hxa
      have hax : a ≤ x := by have : ¬ x ≤ a := by simpa using hxa
                             omega
      rw [List.pairwise_cons]
      refine ⟨?_, ih h.2⟩
      intro b hb
      rcases (mem_insertBy _ x b l).mp hb with hb | hb
      · subst hb; exact hax
      · exact h.1 b hb

theorem sortNat_sorted : ∀ l : List Nat, (sortNat l).Pairwise (· ≤ ·) := by
  intro l
  induction l with
  | nil => simp [sortNat, isort]
  | cons a l ih => exact insertBy_sorted a _ ih

theorem sortNat_eq_of_perm (l s : List Nat) (hp : l.Perm s) (hs : s.Pairwise (· ≤ ·)) : sortNat l = s :=
  List.Perm.eq_of_pairwise (le := (· ≤ ·)) (fun a b _ _ h1 h2 => Nat.le_antisymm h1 h2)
    (sortNat_sorted l) hs ((isort_perm _ l).trans hp)

/-! ## arithmetic progressions -/

/-- `a, a+d, …` (`n` terms) -/
def apList (a d : Nat) : Nat → List Nat
  | 0 => []
  | n + 1 => a :: apList (a + d) d n

theorem apList_ge (d : Nat) : ∀ (n a : Nat), ∀ x ∈ apList a d n, a ≤ x := by
  intro n
  induction n with
  | zero => intro a x hx; simp [apList] at hx
  | succ n ih =>
    intro a x hx
    simp only [apList, List.mem_cons] at hx
    rcases hx with hx | hx
    · omega
    · have := ih (a + d) x hx; omega

theorem apList_sorted (d : Nat) : ∀ (n a : Nat), (apList a d n).Pairwise (· ≤ ·) := by
  intro n
  induction n with
  | zero => intro a; simp [apList]
  | succ n ih =>
    intro a
    simp only [apList, List.pairwise_cons]
    exact ⟨fun x hx => by have := apList_ge d n (a + d) x hx; omega, ih (a + d)⟩

theorem foldl_min_le (l : List Nat) : ∀ m, l.foldl min m ≤ m ∧ ∀ x ∈ l, l.foldl min m ≤ x := by
  induction l with
  | nil => intro m; simp
  | cons a l ih =>
    intro m
    obtain ⟨h1, h2⟩ := ih (min m a)
    simp only [List.foldl_cons]
    refine ⟨by omega, ?_⟩
    intro x hx
    rcases List.mem_cons.mp hx with hx | hx
    · subst hx; omega
    · exact h2 x hx

theorem foldl_min_of_le (l : List Nat) (m : Nat) (h : ∀ x ∈ l, m ≤ x) : l.foldl min m = m := by
  induction l generalizing m with
  | nil => rfl
  | cons a l ih =>
    have ha := h a (List.mem_cons_self ..)
    simp only [List.foldl_cons]
    have : min m a = m := by omega
    rw [this]
    exact ih m (fun x hx => h x (List.mem_cons_of_mem _ hx))

theorem foldl_max_ge (l : List Nat) : ∀ m, m ≤ l.foldl max m ∧ ∀ x ∈ l, x ≤ l.foldl max m := by
  induction l with
  | nil => intro m; simp
  | cons a l ih =>
    intro m
    obtain ⟨h1, h2⟩ := ih (max m a)
    simp only [List.foldl_cons]
    refine ⟨by omega, ?_⟩
    intro x hx
    rcases List.mem_cons.mp hx with hx | hx
    · subst hx; omega
    · exact h2 x hx

theorem foldl_max_mem (l : List Nat) : ∀ m, l.foldl max m = m ∨ l.foldl max m ∈ l := by
  induction l with
  | nil => intro m; exact Or.inl rfl
  | cons a l ih =>
    intro m
    simp only [List.foldl_cons]
    rcases ih (max m a) with h | h
    · rw [h]
      by_cases hma : m ≤ a
      · right; have : max m a = a := by omega
        rw [this]; exact List.mem_cons_self ..
      · left; omega
    · exact Or.inr (List.mem_cons_of_mem _ h)

/-- last term of the progression -/
theorem natMax_apList (d : Nat) : ∀ (n a : Nat), natMax (apList a d (n + 1)) = a + n * d := by
  intro n
  induction n with
  | zero => intro a; simp [apList, natMax]
  | succ n ih =>
    intro a
    have h := ih (a + d)
    -- the maximum over `a :: rest` is the maximum over `rest` since all of `rest` is ≥ a
    have hge := foldl_max_ge (apList (a + d) d (n + 1))
    have : natMax (apList a d (n + 1 + 1)) = natMax (apList (a + d) d (n + 1)) := by
      simp only [natMax, apList, List.foldl_cons]
      have e1 : max (max 0 a) (a + d) = a + d := by omega
      have e2 : max 0 (a + d) = a + d := by omega
      rw [e1, e2]
    rw [this, h, Nat.succ_mul]; omega

theorem natMin_apList (d : Nat) (n a : Nat) : natMin (apList a d (n + 1)) = a := by
  simp only [natMin, apList]
  exact foldl_min_of_le _ a (fun x hx => by have := apList_ge d n (a + d) x hx; omega)

/-! ## T1 -/

theorem isInfix_nil (s : Str) : isInfix [] s = true := by
  cases s <;> simp [isInfix, List.isPrefixOf]

/-- **T1**: at a refinement level whose keys (no chunk suffix) carry the
iterations of an arithmetic progression with at least two terms, in any
order, the summary line is `(min, max, stride)` of that progression. -/
theorem scan_level_faithful_lemma (fkeys : List (Str × KeyInfo)) (rl a d n : Nat)
    (hrl : ∀ k ∈ fkeys, k.2.rl = some rl) (hc : ∀ k ∈ fkeys, k.2.c = none)
    (hperm : (fkeys.map fun k => k.2.it).Perm (apList a d (n + 2))) :
    levelOne fkeys rl = .ok (some (.arange rl a (a + (n + 1) * d) d)) := by
  have hfil : fkeys.filter (fun k => k.2.rl == some rl) = fkeys :=
    List.filter_eq_self.mpr (fun k hk => by simp [hrl k hk])
  have hsort : sortNat (fkeys.map fun k => k.2.it) = apList a d (n + 2) :=
    sortNat_eq_of_perm _ _ hperm (apList_sorted d (n + 2) a)
  cases hf : fkeys with
  | nil => rw [hf] at hperm; simp [apList] at hperm
  | cons k0 ks =>
    have hc0 : k0.2.c = none := hc k0 (by simp [hf])
    have hfil2 : (k0 :: ks).filter (fun k => isInfix [] k.1) = k0 :: ks :=
      List.filter_eq_self.mpr (fun k _ => isInfix_nil _)
    rw [hf] at hfil hsort
    unfold levelOne
    simp only [hfil, hc0, hfil2, hsort]
    have hmin := natMin_apList d (n + 1) a
    have hmax := natMax_apList d (n + 1) a
    simp only [apList] at hmin hmax ⊢
    simp only [hmin, hmax]
    congr 4
    omega

/-- a level with a single iteration is reported as that iteration -/
theorem scan_level_single_lemma (fkeys : List (Str × KeyInfo)) (rl x : Nat)
    (hrl : ∀ k ∈ fkeys, k.2.rl = some rl) (hc : ∀ k ∈ fkeys, k.2.c = none)
    (hits : (fkeys.map fun k => k.2.it) = [x]) :
    levelOne fkeys rl = .ok (some (.single rl x)) := by
  have hfil : fkeys.filter (fun k => k.2.rl == some rl) = fkeys :=
    List.filter_eq_self.mpr (fun k hk => by simp [hrl k hk])
  cases hf : fkeys with
  | nil => rw [hf] at hits; simp at hits
  | cons k0 ks =>
    have hc0 : k0.2.c = none := hc k0 (by simp [hf])
    have hfil2 : (k0 :: ks).filter (fun k => isInfix [] k.1) = k0 :: ks :=
      List.filter_eq_self.mpr (fun k _ => isInfix_nil _)
    rw [hf] at hfil hits
    unfold levelOne
    simp only [hfil, hc0, hfil2, hits]
    rfl

/-! ## T6: overall merge -/

abbrev MemTest := Int → Int → Int → Int → Except Err Bool

@[simp] theorem ebind_error {ε α β : Type} (e : ε) (f : α → Except ε β) : ((Except.error e : Except ε α) >>= f) = Except.error e := rfl

theorem getLast?_mem {α : Type} : ∀ {l : List α} {x : α}, l.getLast? = some x → x ∈ l := by
  intro l x h
  exact List.mem_of_getLast? h

theorem mem_dropLast'' {α : Type} {x : α} {l : List α} (h : x ∈ l.dropLast) : x ∈ l := mem_of_mem_dropLast' h

/-- with array segments only, one merge step never consults the membership test
and keeps the invariant -/
theorem mergeStep_arrays (mem1 mem2 : MemTest) (sit : List (List Int)) (cur : List Int)
    (hsit : ∀ s ∈ sit, s.length > 1) (hcur : cur.length > 1) :
    mergeStep mem1 sit cur = mergeStep mem2 sit cur ∧
    ∀ r, mergeStep mem1 sit cur = .ok r → ∀ s ∈ r, s.length > 1 := by
  unfold mergeStep
  cases hl : sit.getLast? with
  | none =>
    refine ⟨rfl, ?_⟩
    intro r hr s hs
    simp only at hr
    injection hr with hr; subst hr
    simp at hs; subst hs; exact hcur
  | some prev =>
    have hp : prev.length > 1 := hsit prev (getLast?_mem hl)
    have hfront : ∀ s ∈ sit.dropLast, s.length > 1 := fun s hs => hsit s (mem_dropLast'' hs)
    simp only [hp, hcur, if_true]
    refine ⟨trivial, ?_⟩
    intro r hr s hs
    cases h2 : idxI prev 2 with
    | error e => simp [h2, ebind_error] at hr
    | ok pd =>
      cases h3 : idxI cur 2 with
      | error e => simp [h2, h3, ebind_error] at hr
      | ok cd =>
        simp only [h2, h3, ebind_ok] at hr
        split at hr
        · cases h1 : idxI cur 1 with
          | error e => simp [h1, ebind_error] at hr
          | ok c1 =>
            simp only [h1, ebind_ok] at hr
            injection hr with hr; subst hr
            rcases List.mem_append.mp hs with hs | hs
            · exact hfront s hs
            · simp at hs; subst hs; simpa using hp
        · injection hr with hr; subst hr
          rcases List.mem_append.mp hs with hs | hs
          · exact hsit s hs
          · simp at hs; subst hs; exact hcur

theorem foldl_mergeStep_arrays (mem1 mem2 : MemTest) : ∀ (segs : List (List Int)) (sit : List (List Int)),
    (∀ s ∈ segs, s.length > 1) → (∀ s ∈ sit, s.length > 1) →
    foldlE (mergeStep mem1) sit segs = foldlE (mergeStep mem2) sit segs := by
  intro segs
  induction segs with
  | nil => intro _ _ _; rfl
  | cons c segs ih =>
    intro sit hsegs hsit
    obtain ⟨e, hinv⟩ := mergeStep_arrays mem1 mem2 sit c hsit (hsegs c (List.mem_cons_self ..))
    simp only [foldlE]
    rw [← e]
    cases hr : mergeStep mem1 sit c with
    | error e' => rfl
    | ok r => exact ih r (fun s hs => hsegs s (List.mem_cons_of_mem _ hs)) (hinv r hr)

/-- no restart has a single iteration at any level -/
def NoSingles (cat : Cat) : Prop := ∀ re ∈ cat, ∀ kv ∈ re.2, (valInts kv.2).length > 1

theorem dget_mem {κ ν : Type} [BEq κ] {d : List (κ × ν)} {k : κ} {v : ν} (h : dget d k = some v) :
    ∃ kv ∈ d, kv.2 = v := by
  unfold dget at h
  cases hf : d.find? (fun kv => kv.1 == k) with
  | none => simp [hf] at h
  | some kv => simp [hf] at h; exact ⟨kv, List.mem_of_find?_eq_some hf, h⟩

theorem levelSegs_arrays (cat : Cat) (h : NoSingles cat) (rlkey : Str) :
    ∀ s ∈ levelSegs cat rlkey, s.length > 1 := by
  intro s hs
  simp only [levelSegs, List.mem_filterMap] at hs
  obtain ⟨re, hre, hv⟩ := hs
  cases hd : dget re.2 rlkey with
  | none => simp [hd] at hv
  | some v =>
    simp [hd] at hv
    obtain ⟨kv, hkv, hkv2⟩ := dget_mem hd
    rw [← hv, ← hkv2]
    exact h re hre kv hkv

theorem foldlE_congr {σ α : Type} (f g : σ → α → Except Err σ) (l : List α) (h : ∀ s, ∀ a ∈ l, f s a = g s a) :
    ∀ s, foldlE f s l = foldlE g s l := by
  induction l with
  | nil => intro s; rfl
  | cons a l ih =>
    intro s
    simp only [foldlE, h s a (List.mem_cons_self ..)]
    cases g s a with
    | error e => rfl
    | ok s' => exact ih (fun s b hb => h s b (List.mem_cons_of_mem _ hb)) s'

/-- **T6 (what can be proven)**: when no restart has a single iteration at any
level the overall merge does not depend on the membership test at all -/
theorem overall_no_singles_lemma (mem1 mem2 : MemTest) (cat : Cat) (h : NoSingles cat) :
    overallWith mem1 cat = overallWith mem2 cat := by
  unfold overallWith
  cases rlMax cat with
  | error e => rfl
  | ok rlmax =>
    simp only [ebind_ok]
    apply foldlE_congr
    intro ov rl _
    split
    · rw [foldl_mergeStep_arrays mem1 mem2 _ [] (levelSegs_arrays cat h _) (by simp)]
    · rfl

end AurelVerif.CatalogLemmas
