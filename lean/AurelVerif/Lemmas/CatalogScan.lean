/-
Lemmas/CatalogScan.lean — T1 (per-level summary is the progression on disk)
and T6 (overall merge).  Core Lean only.
-/
import AurelVerif.Lemmas.CatalogIncr

set_option linter.unusedSimpArgs false
set_option linter.unusedVariables false

namespace AurelVerif.CatalogLemmas
open AurelVerif.Catalog

/-! ## sorting -/

theorem insertBy_perm {α : Type} (le : α → α → Bool) (x : α) : ∀ l : List α, (insertBy le x l).Perm (x :: l) := by
  intro l
  induction l with
  | nil => exact List.Perm.refl _
  | cons a l ih =>
    simp only [insertBy]
    split
    · exact List.Perm.refl _
    · exact (List.Perm.cons a ih).trans (List.Perm.swap x a l)

theorem isort_perm {α : Type} (le : α → α → Bool) : ∀ l : List α, (isort le l).Perm l := by
  intro l
  induction l with
  | nil => exact List.Perm.refl _
  | cons a l ih =>
    have : isort le (a :: l) = insertBy le a (isort le l) := rfl
    rw [this]
    exact (insertBy_perm le a _).trans (List.Perm.cons a ih)

theorem insertBy_sorted (x : Nat) : ∀ l : List Nat, l.Pairwise (· ≤ ·) →
    (insertBy (fun a b => decide (a ≤ b)) x l).Pairwise (· ≤ ·) := by
  intro l
  induction l with
  | nil => intro _; simp [insertBy]
  | cons a l ih =>
    intro h
    rw [List.pairwise_cons] at h
    simp only [insertBy]
    split
    · rename_i hxa
      have hxa' : x ≤ a := by simpa using hxa
      rw [List.pairwise_cons]
      refine ⟨?_, List.pairwise_cons.mpr h⟩
      intro b hb
      rcases List.mem_cons.mp hb with hb | hb
      · subst hb; exact hxa'
      · exact Nat.le_trans hxa' (h.1 b hb)
    · rename_i hxa
      have hax : a ≤ x := by have : ¬ x ≤ a := by simpa using hxa
                             omega
      rw [List.pairwise_cons]
      refine ⟨?_, ih h.2⟩
      intro b hb
      rcases (mem_insertBy _ x b l).mp hb with hb | hb
      · subst hb; exact hax
      · exact h.1 b hb

theorem sortNat_sorted : ∀ l : List Nat, (sortNat l).Pairwise (· ≤ ·) := by
  intro l
  induction l with
  | nil => simp [sortNat, isort]
  | cons a l ih => exact insertBy_sorted a _ ih

theorem sortNat_eq_of_perm (l s : List Nat) (hp : l.Perm s) (hs : s.Pairwise (· ≤ ·)) : sortNat l = s :=
  List.Perm.eq_of_pairwise (le := (· ≤ ·)) (fun a b _ _ h1 h2 => Nat.le_antisymm h1 h2)
    (sortNat_sorted l) hs ((isort_perm _ l).trans hp)

/-! ## arithmetic progressions -/

/-- `a, a+d, …` (`n` terms) -/
def apList (a d : Nat) : Nat → List Nat
  | 0 => []
  | n + 1 => a :: apList (a + d) d n

theorem apList_ge (d : Nat) : ∀ (n a : Nat), ∀ x ∈ apList a d n, a ≤ x := by
  intro n
  induction n with
  | zero => intro a x hx; simp [apList] at hx
  | succ n ih =>
    intro a x hx
    simp only [apList, List.mem_cons] at hx
    rcases hx with hx | hx
    · omega
    · have := ih (a + d) x hx; omega

theorem apList_sorted (d : Nat) : ∀ (n a : Nat), (apList a d n).Pairwise (· ≤ ·) := by
  intro n
  induction n with
  | zero => intro a; simp [apList]
  | succ n ih =>
    intro a
    simp only [apList, List.pairwise_cons]
    exact ⟨fun x hx => by have := apList_ge d n (a + d) x hx; omega, ih (a + d)⟩

theorem foldl_min_le (l : List Nat) : ∀ m, l.foldl min m ≤ m ∧ ∀ x ∈ l, l.foldl min m ≤ x := by
  induction l with
  | nil => intro m; simp
  | cons a l ih =>
    intro m
    obtain ⟨h1, h2⟩ := ih (min m a)
    simp only [List.foldl_cons]
    refine ⟨by omega, ?_⟩
    intro x hx
    rcases List.mem_cons.mp hx with hx | hx
    · subst hx; omega
    · exact h2 x hx

theorem foldl_min_of_le (l : List Nat) (m : Nat) (h : ∀ x ∈ l, m ≤ x) : l.foldl min m = m := by
  induction l generalizing m with
  | nil => rfl
  | cons a l ih =>
    have ha := h a (List.mem_cons_self ..)
    simp only [List.foldl_cons]
    have : min m a = m := by omega
    rw [this]
    exact ih m (fun x hx => h x (List.mem_cons_of_mem _ hx))

theorem foldl_max_ge (l : List Nat) : ∀ m, m ≤ l.foldl max m ∧ ∀ x ∈ l, x ≤ l.foldl max m := by
  induction l with
  | nil => intro m; simp
  | cons a l ih =>
    intro m
    obtain ⟨h1, h2⟩ := ih (max m a)
    simp only [List.foldl_cons]
    refine ⟨by omega, ?_⟩
    intro x hx
    rcases List.mem_cons.mp hx with hx | hx
    · subst hx; omega
    · exact h2 x hx

theorem foldl_max_mem (l : List Nat) : ∀ m, l.foldl max m = m ∨ l.foldl max m ∈ l := by
  induction l with
  | nil => intro m; exact Or.inl rfl
  | cons a l ih =>
    intro m
    simp only [List.foldl_cons]
    rcases ih (max m a) with h | h
    · rw [h]
      by_cases hma : m ≤ a
      · right; have : max m a = a := by omega
        rw [this]; exact List.mem_cons_self ..
      · left; omega
    · exact Or.inr (List.mem_cons_of_mem _ h)

/-- last term of the progression -/
theorem natMax_apList (d : Nat) : ∀ (n a : Nat), natMax (apList a d (n + 1)) = a + n * d := by
  intro n
  induction n with
  | zero => intro a; simp [apList, natMax]
  | succ n ih =>
    intro a
    have h := ih (a + d)
    -- the maximum over `a :: rest` is the maximum over `rest` since all of `rest` is ≥ a
    have hge := foldl_max_ge (apList (a + d) d (n + 1))
    have : natMax (apList a d (n + 1 + 1)) = natMax (apList (a + d) d (n + 1)) := by
      simp only [natMax, apList, List.foldl_cons]
      have e1 : max (max 0 a) (a + d) = a + d := by omega
      have e2 : max 0 (a + d) = a + d := by omega
      rw [e1, e2]
    rw [this, h, Nat.succ_mul]; omega

theorem natMin_apList (d : Nat) (n a : Nat) : natMin (apList a d (n + 1)) = a := by
  simp only [natMin, apList]
  exact foldl_min_of_le _ a (fun x hx => by have := apList_ge d n (a + d) x hx; omega)

/-! ## T1 -/

/-! ### `list({...})`: `dedup` keeps exactly the members, once each -/

def dedupStep (acc : List Nat) (x : Nat) : List Nat := if acc.contains x then acc else acc ++ [x]

theorem dedup_eq_foldl (l : List Nat) : dedup l = l.foldl dedupStep [] := rfl

theorem mem_foldl_dedupStep (y : Nat) : ∀ (l acc : List Nat), y ∈ l.foldl dedupStep acc ↔ y ∈ acc ∨ y ∈ l := by
  intro l
  induction l with
  | nil => intro acc; simp
  | cons a l ih =>
    intro acc
    simp only [List.foldl_cons, ih, dedupStep]
    by_cases hc : acc.contains a = true
    · have ha : a ∈ acc := by simpa using hc
      rw [if_pos hc]
      simp only [List.mem_cons]
      constructor
      · rintro (h | h)
        · exact Or.inl h
        · exact Or.inr (Or.inr h)
      · rintro (h | h | h)
        · exact Or.inl h
        · exact Or.inl (h ▸ ha)
        · exact Or.inr h
    · rw [if_neg hc]
      simp only [List.mem_append, List.mem_singleton, List.mem_cons, List.not_mem_nil, or_false]
      constructor
      · rintro ((h | h) | h)
        · exact Or.inl h
        · exact Or.inr (Or.inl h)
        · exact Or.inr (Or.inr h)
      · rintro (h | h | h)
        · exact Or.inl (Or.inl h)
        · exact Or.inl (Or.inr h)
        · exact Or.inr h

theorem nodup_foldl_dedupStep : ∀ (l acc : List Nat), acc.Nodup → (l.foldl dedupStep acc).Nodup := by
  intro l
  induction l with
  | nil => intro acc h; exact h
  | cons a l ih =>
    intro acc h
    simp only [List.foldl_cons]
    apply ih
    unfold dedupStep
    by_cases hc : acc.contains a = true
    · rw [if_pos hc]; exact h
    · have ha : a ∉ acc := by simpa using hc
      rw [if_neg hc]
      rw [List.nodup_append]
      refine ⟨h, by simp, ?_⟩
      intro x hx y hy
      simp only [List.mem_singleton] at hy
      subst hy
      intro hxy
      exact ha (hxy ▸ hx)

theorem mem_dedup (l : List Nat) (y : Nat) : y ∈ dedup l ↔ y ∈ l := by
  rw [dedup_eq_foldl, mem_foldl_dedupStep]; simp

theorem nodup_dedup (l : List Nat) : (dedup l).Nodup := by
  rw [dedup_eq_foldl]; exact nodup_foldl_dedupStep l [] List.nodup_nil

/-- the sorted set of a list is determined by its members -/
theorem sort_dedup_eq (l s : List Nat) (hmem : ∀ x, x ∈ l ↔ x ∈ s) (hnd : s.Nodup) (hs : s.Pairwise (· ≤ ·)) :
    sortNat (dedup l) = s :=
  sortNat_eq_of_perm _ _
    ((List.perm_ext_iff_of_nodup (nodup_dedup l) hnd).mpr (fun x => by rw [mem_dedup, hmem])) hs

theorem sort_dedup_congr (l₁ l₂ : List Nat) (hmem : ∀ x, x ∈ l₁ ↔ x ∈ l₂) :
    sortNat (dedup l₁) = sortNat (dedup l₂) :=
  sort_dedup_eq l₁ _ (fun x => by rw [hmem, ← mem_dedup l₂]; exact ((isort_perm _ _).mem_iff).symm)
    (((isort_perm _ _).nodup_iff).mpr (nodup_dedup l₂)) (sortNat_sorted _)

theorem apList_nodup (d : Nat) (hd : 0 < d) : ∀ (n a : Nat), (apList a d n).Nodup := by
  intro n
  induction n with
  | zero => intro a; simp [apList]
  | succ n ih =>
    intro a
    simp only [apList, List.nodup_cons]
    exact ⟨fun h => by have := apList_ge d n (a + d) a h; omega, ih (a + d)⟩

/-- the keys of a file (all levels mixed) whose parsed `rl` field equals `rl` -/
def keysAt (fkeys : List (Str × KeyInfo)) (rl : Nat) : List (Str × KeyInfo) :=
  fkeys.filter fun k => k.2.rl == some rl

theorem keysAt_rl (fkeys : List (Str × KeyInfo)) (rl : Nat) : ∀ k ∈ keysAt fkeys rl, k.2.rl = some rl := by
  intro k hk
  have := (List.mem_filter.mp hk).2
  simpa using this

/-- the iterations carried by the keys of level `rl` (with repetitions: one
per chunk and per variable) -/
def itsAt (fkeys : List (Str × KeyInfo)) (rl : Nat) : List Nat := (keysAt fkeys rl).map fun k => k.2.it

/-- `levelOne` in closed form: a function of the sorted SET of iterations of
the keys whose parsed `rl` is `rl`. -/
theorem levelOne_eq (fkeys : List (Str × KeyInfo)) (rl : Nat) :
    levelOne fkeys rl =
      match sortNat (dedup (itsAt fkeys rl)) with
      | a :: b :: r => .ok (some (Line.arange rl (natMin (a :: b :: r)) (natMax (a :: b :: r)) (b - a)))
      | [x] => .ok (some (Line.single rl x))
      | [] => .ok none := by
  unfold levelOne itsAt keysAt
  cases h : fkeys.filter (fun k => k.2.rl == some rl) with
  | nil => simp [dedup, sortNat, isort]
  | cons k ks =>
    simp only []
    generalize sortNat (dedup (List.map (fun k => k.snd.it) (k :: ks))) = S
    rcases S with _ | ⟨a, _ | ⟨b, r⟩⟩ <;> rfl

/-- **T1**: at a refinement level whose keys — any number of chunks, of
variables, repeated or not, in any order — carry as a SET the iterations of an
arithmetic progression with at least two terms and stride `d > 0`, the summary
line is `(min, max, stride)` of that progression. -/
theorem scan_level_faithful_lemma (fkeys : List (Str × KeyInfo)) (rl a d n : Nat) (hd : 0 < d)
    (hset : ∀ x, x ∈ itsAt fkeys rl ↔ x ∈ apList a d (n + 2)) :
    levelOne fkeys rl = .ok (some (.arange rl a (a + (n + 1) * d) d)) := by
  have hsort : sortNat (dedup (itsAt fkeys rl)) = apList a d (n + 2) :=
    sort_dedup_eq _ _ hset (apList_nodup d hd _ _) (apList_sorted d (n + 2) a)
  rw [levelOne_eq, hsort]
  have hmin := natMin_apList d (n + 1) a
  have hmax := natMax_apList d (n + 1) a
  simp only [apList] at hmin hmax ⊢
  simp only [hmin, hmax]
  congr 4
  omega

/-- a level all of whose keys carry one and the same iteration is reported as
that iteration -/
theorem scan_level_single_lemma (fkeys : List (Str × KeyInfo)) (rl x : Nat)
    (hne : keysAt fkeys rl ≠ []) (hits : ∀ k ∈ keysAt fkeys rl, k.2.it = x) :
    levelOne fkeys rl = .ok (some (.single rl x)) := by
  have hsort : sortNat (dedup (itsAt fkeys rl)) = [x] := by
    apply sort_dedup_eq _ _ _ (by simp) (by simp)
    intro y
    simp only [itsAt, List.mem_map, List.mem_singleton]
    constructor
    · rintro ⟨k, hk, rfl⟩; exact hits k hk
    · intro hy
      cases hk : keysAt fkeys rl with
      | nil => exact absurd hk hne
      | cons k ks => exact ⟨k, by simp, by rw [hy]; exact hits k (by rw [hk]; simp)⟩
  rw [levelOne_eq, hsort]

theorem scan_level_none_lemma (fkeys : List (Str × KeyInfo)) (rl : Nat) (h : keysAt fkeys rl = []) :
    levelOne fkeys rl = .ok none := by
  rw [levelOne_eq, itsAt, h]; rfl

/-- the line of a level depends on the SET of iterations of its keys only -/
theorem levelOne_congr (f₁ f₂ : List (Str × KeyInfo)) (rl : Nat)
    (h : ∀ x, x ∈ itsAt f₁ rl ↔ x ∈ itsAt f₂ rl) : levelOne f₁ rl = levelOne f₂ rl := by
  rw [levelOne_eq, levelOne_eq, sort_dedup_congr _ _ h]

/-- the per-level block raises nothing (the former TypeError of a level going
from one unnumbered chunk to several is gone) -/
theorem levelOne_never_raises (fkeys : List (Str × KeyInfo)) (rl : Nat) : ∃ o, levelOne fkeys rl = .ok o := by
  rw [levelOne_eq]
  split <;> exact ⟨_, rfl⟩

theorem levelLines_never_raises (fkeys : List (Str × KeyInfo)) (rlmax : Nat) : (levelLines fkeys rlmax).2 = none := by
  unfold levelLines
  suffices h : ∀ (l : List Nat) (acc : List Line × Option Err), acc.2 = none →
      (l.foldl (fun (acc : List Line × Option Err) rl =>
        match acc.2 with
        | some _ => acc
        | none =>
          match levelOne fkeys rl with
          | .error e => (acc.1, some e)
          | .ok none => acc
          | .ok (some l) => (acc.1 ++ [l], none)) acc).2 = none from h _ _ rfl
  intro l
  induction l with
  | nil => intro acc h; exact h
  | cons r l ih =>
    intro acc h
    simp only [List.foldl_cons]
    apply ih
    obtain ⟨o, ho⟩ := levelOne_never_raises fkeys r
    rw [h, ho]
    cases o <;> simp [h]

/-- only the keys whose PARSED refinement level equals `rl` matter -/
theorem levelOne_filter (fkeys : List (Str × KeyInfo)) (rl : Nat) :
    levelOne fkeys rl = levelOne (fkeys.filter fun k => k.2.rl == some rl) rl := by
  unfold levelOne
  simp only [List.filter_filter, Bool.and_self]

/-! ## restart discovery: exactly the entries matching `^output-(\d+)$` -/

theorem dropLit_some {lit s r : Str} (h : dropLit lit s = some r) : s = lit ++ r := by
  unfold dropLit at h
  split at h
  · rename_i hp
    injection h with h
    obtain ⟨t, ht⟩ := List.isPrefixOf_iff_prefix.mp hp
    subst ht
    simp at h
    rw [h]
  · simp at h

theorem mem_takeWhile_true {p : Char → Bool} {x : Char} : ∀ {l : Str}, x ∈ l.takeWhile p → p x = true := by
  intro l
  induction l with
  | nil => simp
  | cons a l ih =>
    intro h
    simp only [List.takeWhile] at h
    split at h
    · rename_i hp
      rcases List.mem_cons.mp h with h | h
      · subst h; exact hp
      · exact ih h
    · simp at h

theorem matchOutput_shape {e : Str} {r : Nat} (h : matchOutput e = some r) :
    ∃ d : Str, d ≠ [] ∧ (∀ c ∈ d, isDig c = true) ∧ (e = sOutput ++ d ∨ e = sOutput ++ d ++ ['\n']) := by
  unfold matchOutput at h
  cases hd : dropLit sOutput e with
  | none => simp [hd] at h
  | some t =>
    simp only [hd] at h
    have he := dropLit_some hd
    split at h
    · rename_i hc
      simp only [Bool.and_eq_true, Bool.not_eq_true', Bool.or_eq_true, beq_iff_eq] at hc
      refine ⟨t.takeWhile isDig, ?_, fun c hc' => mem_takeWhile_true hc', ?_⟩
      · intro hnil; rw [hnil] at hc; simp at hc
      · have hsplit : t = t.takeWhile isDig ++ t.dropWhile isDig := (List.takeWhile_append_dropWhile).symm
        rcases hc.2 with h2 | h2
        · left
          rw [h2, List.append_nil] at hsplit
          rw [he]; congr 1
        · right
          rw [h2] at hsplit
          rw [he, List.append_assoc]; congr 1
    · simp at h

theorem matchOutput_digits (d : Str) (hne : d ≠ []) (hd : ∀ c ∈ d, isDig c = true) :
    matchOutput (sOutput ++ d) = digitsVal d := by
  have h1 : dropLit sOutput (sOutput ++ d) = some d := by simp [dropLit, isPrefixOf_append_self]
  have h2 := takeWhile_all hd
  have hdash : '-' ∉ d := fun h => by have := hd _ h; revert this; decide
  have h3 : split ['-'] (sOutput ++ d) = [['o', 'u', 't', 'p', 'u', 't'], d] := by
    have : sOutput ++ d = ['o', 'u', 't', 'p', 'u', 't'] ++ '-' :: d := by simp [sOutput]
    rw [this, split1_first _ (by decide), split1_none hdash]
  have hemp : d.isEmpty = false := by cases d <;> simp_all
  unfold matchOutput
  have h4 := pyInt_digits hne hd
  simp only [h1, h2.1, h2.2, hemp, h3]
  cases hv : digitsVal d <;> simp [h4, hv]

/-! ## T6: overall merge -/

abbrev MemTest := Int → Int → Int → Int → Except Err Bool

@[simp] theorem ebind_error {ε α β : Type} (e : ε) (f : α → Except ε β) : ((Except.error e : Except ε α) >>= f) = Except.error e := rfl

theorem getLast?_mem {α : Type} : ∀ {l : List α} {x : α}, l.getLast? = some x → x ∈ l := by
  intro l x h
  exact List.mem_of_getLast? h

theorem mem_dropLast'' {α : Type} {x : α} {l : List α} (h : x ∈ l.dropLast) : x ∈ l := mem_of_mem_dropLast' h

/-- with array segments only, one merge step never consults the membership test
and keeps the invariant -/
theorem mergeStep_arrays (mem1 mem2 : MemTest) (sit : List (List Int)) (cur : List Int)
    (hsit : ∀ s ∈ sit, s.length > 1) (hcur : cur.length > 1) :
    mergeStep mem1 sit cur = mergeStep mem2 sit cur ∧
    ∀ r, mergeStep mem1 sit cur = .ok r → ∀ s ∈ r, s.length > 1 := by
  unfold mergeStep
  cases hl : sit.getLast? with
  | none =>
    refine ⟨rfl, ?_⟩
    intro r hr s hs
    simp only at hr
    injection hr with hr; subst hr
    simp at hs; subst hs; exact hcur
  | some prev =>
    have hp : prev.length > 1 := hsit prev (getLast?_mem hl)
    have hfront : ∀ s ∈ sit.dropLast, s.length > 1 := fun s hs => hsit s (mem_dropLast'' hs)
    simp only [hp, hcur, if_true]
    refine ⟨trivial, ?_⟩
    intro r hr s hs
    cases h2 : idxI prev 2 with
    | error e => simp [h2, ebind_error] at hr
    | ok pd =>
      cases h3 : idxI cur 2 with
      | error e => simp [h2, h3, ebind_error] at hr
      | ok cd =>
        simp only [h2, h3, ebind_ok] at hr
        split at hr
        · cases h1 : idxI cur 1 with
          | error e => simp [h1, ebind_error] at hr
          | ok c1 =>
            simp only [h1, ebind_ok] at hr
            injection hr with hr; subst hr
            rcases List.mem_append.mp hs with hs | hs
            · exact hfront s hs
            · simp at hs; subst hs; simpa using hp
        · injection hr with hr; subst hr
          rcases List.mem_append.mp hs with hs | hs
          · exact hsit s hs
          · simp at hs; subst hs; exact hcur

theorem foldl_mergeStep_arrays (mem1 mem2 : MemTest) : ∀ (segs : List (List Int)) (sit : List (List Int)),
    (∀ s ∈ segs, s.length > 1) → (∀ s ∈ sit, s.length > 1) →
    foldlE (mergeStep mem1) sit segs = foldlE (mergeStep mem2) sit segs := by
  intro segs
  induction segs with
  | nil => intro _ _ _; rfl
  | cons c segs ih =>
    intro sit hsegs hsit
    obtain ⟨e, hinv⟩ := mergeStep_arrays mem1 mem2 sit c hsit (hsegs c (List.mem_cons_self ..))
    simp only [foldlE]
    rw [← e]
    cases hr : mergeStep mem1 sit c with
    | error e' => rfl
    | ok r => exact ih r (fun s hs => hsegs s (List.mem_cons_of_mem _ hs)) (hinv r hr)

/-- no restart has a single iteration at any level -/
def NoSingles (cat : Cat) : Prop := ∀ re ∈ cat, ∀ kv ∈ re.2, (valInts kv.2).length > 1

theorem dget_mem {κ ν : Type} [BEq κ] {d : List (κ × ν)} {k : κ} {v : ν} (h : dget d k = some v) :
    ∃ kv ∈ d, kv.2 = v := by
  unfold dget at h
  cases hf : d.find? (fun kv => kv.1 == k) with
  | none => simp [hf] at h
  | some kv => simp [hf] at h; exact ⟨kv, List.mem_of_find?_eq_some hf, h⟩

theorem levelSegs_arrays (cat : Cat) (h : NoSingles cat) (rlkey : Str) :
    ∀ s ∈ levelSegs cat rlkey, s.length > 1 := by
  intro s hs
  simp only [levelSegs, List.mem_filterMap] at hs
  obtain ⟨re, hre, hv⟩ := hs
  cases hd : dget re.2 rlkey with
  | none => simp [hd] at hv
  | some v =>
    simp [hd] at hv
    obtain ⟨kv, hkv, hkv2⟩ := dget_mem hd
    rw [← hv, ← hkv2]
    exact h re hre kv hkv

theorem foldlE_congr {σ α : Type} (f g : σ → α → Except Err σ) (l : List α) (h : ∀ s, ∀ a ∈ l, f s a = g s a) :
    ∀ s, foldlE f s l = foldlE g s l := by
  induction l with
  | nil => intro s; rfl
  | cons a l ih =>
    intro s
    simp only [foldlE, h s a (List.mem_cons_self ..)]
    cases g s a with
    | error e => rfl
    | ok s' => exact ih (fun s b hb => h s b (List.mem_cons_of_mem _ hb)) s'

/-- **T6 (what can be proven)**: when no restart has a single iteration at any
level the overall merge does not depend on the membership test at all -/
theorem overall_no_singles_lemma (mem1 mem2 : MemTest) (cat : Cat) (h : NoSingles cat) :
    overallWith mem1 cat = overallWith mem2 cat := by
  unfold overallWith
  cases rlMax cat with
  | error e => rfl
  | ok rlmax =>
    simp only [ebind_ok]
    apply foldlE_congr
    intro ov rl _
    split
    · rw [foldl_mergeStep_arrays mem1 mem2 _ [] (levelSegs_arrays cat h _) (by simp)]
    · rfl

/-! ## T6 at full strength: the merged segments describe exactly the union -/

/-- `x` is an iteration described by a segment: `[a]`, or `[a, b, d]` = `a, a+d, …, b` -/
def inSegP (x : Int) (s : List Int) : Prop :=
  match s with
  | [a] => x = a
  | [a, b, d] => a ≤ x ∧ x ≤ b ∧ d ∣ (x - a)
  | _ => False

/-- a segment as `iterations()` produces it from an arithmetic progression -/
def WFseg (s : List Int) : Prop :=
  (∃ a, s = [a]) ∨ ∃ a b d, s = [a, b, d] ∧ a < b ∧ 0 < d ∧ d ∣ (b - a)

def inSit (x : Int) (sit : List (List Int)) : Prop := ∃ s ∈ sit, inSegP x s

/-- The one merge the code performs without looking: two ranges of equal
stride become `[min₁, max₂, d]`.  This is faithful exactly when the second
range continues or overlaps the first on the same grid and reaches at least
as far. -/
def stepOK (sit : List (List Int)) (cur : List Int) : Prop :=
  ∀ p0 p1 d c0 c1, sit.getLast? = some [p0, p1, d] → cur = [c0, c1, d] →
    d ∣ (c0 - p0) ∧ p0 ≤ c0 ∧ c0 ≤ p1 + d ∧ p1 ≤ c1

theorem rangeMem_spec (x a b d : Int) (hd : 0 < d) :
    ∃ m, rangeMem x a b d = .ok m ∧ (m = true ↔ (a ≤ x ∧ x ≤ b ∧ d ∣ (x - a))) := by
  have h0 : (d == 0) = false := by simp; omega
  refine ⟨(decide (a ≤ x) && decide (x < b + 1) && (x - a) % d == 0), by simp [rangeMem, h0, hd], ?_⟩
  simp only [Bool.and_eq_true, decide_eq_true_eq, beq_iff_eq]
  constructor
  · rintro ⟨⟨h1, h2⟩, h3⟩; exact ⟨h1, by omega, Int.dvd_of_emod_eq_zero h3⟩
  · rintro ⟨h1, h2, h3⟩; exact ⟨⟨h1, by omega⟩, Int.emod_eq_zero_of_dvd h3⟩

theorem inSit_append (x : Int) (a b : List (List Int)) : inSit x (a ++ b) ↔ inSit x a ∨ inSit x b := by
  simp only [inSit, List.mem_append]
  constructor
  · rintro ⟨s, hs | hs, h⟩
    · exact Or.inl ⟨s, hs, h⟩
    · exact Or.inr ⟨s, hs, h⟩
  · rintro (⟨s, hs, h⟩ | ⟨s, hs, h⟩)
    · exact ⟨s, Or.inl hs, h⟩
    · exact ⟨s, Or.inr hs, h⟩

theorem inSit_single (x : Int) (s : List Int) : inSit x [s] ↔ inSegP x s := by
  simp [inSit]

/-- what one merge step has to deliver -/
def StepGoal (sit : List (List Int)) (cur : List Int) : Prop :=
  ∃ r, mergeStep rangeMem sit cur = .ok r ∧ (∀ s ∈ r, WFseg s) ∧
    ∀ x, inSit x r ↔ inSit x sit ∨ inSegP x cur

theorem goal_append (front : List (List Int)) (prev cur : List Int)
    (hw : ∀ s ∈ front ++ [prev], WFseg s) (hc : WFseg cur)
    (h : mergeStep rangeMem (front ++ [prev]) cur = .ok (front ++ [prev] ++ [cur])) :
    StepGoal (front ++ [prev]) cur := by
  refine ⟨_, h, ?_, ?_⟩
  · intro s hs
    rcases List.mem_append.mp hs with hs | hs
    · exact hw s hs
    · simp at hs; subst hs; exact hc
  · intro x; rw [inSit_append, inSit_single]

/-- replacing the last segment by one that describes `prev ∪ cur` -/
theorem goal_replace (front : List (List Int)) (prev cur new : List Int)
    (hw : ∀ s ∈ front ++ [prev], WFseg s) (hn : WFseg new)
    (hset : ∀ x, inSegP x new ↔ inSegP x prev ∨ inSegP x cur)
    (h : mergeStep rangeMem (front ++ [prev]) cur = .ok (front ++ [new])) :
    StepGoal (front ++ [prev]) cur := by
  refine ⟨_, h, ?_, ?_⟩
  · intro s hs
    rcases List.mem_append.mp hs with hs | hs
    · exact hw s (List.mem_append.mpr (Or.inl hs))
    · simp at hs; subst hs; exact hn
  · intro x
    rw [inSit_append, inSit_append, inSit_single, inSit_single, hset]
    constructor
    · rintro (h | h | h)
      · exact Or.inl (Or.inl h)
      · exact Or.inl (Or.inr h)
      · exact Or.inr h
    · rintro ((h | h) | h)
      · exact Or.inl h
      · exact Or.inr (Or.inl h)
      · exact Or.inr (Or.inr h)

theorem step_arr_arr (front : List (List Int)) (p0 p1 p2 c0 c1 c2 : Int)
    (hw : ∀ s ∈ front ++ [[p0, p1, p2]], WFseg s)
    (hp : p0 < p1 ∧ 0 < p2 ∧ p2 ∣ (p1 - p0)) (hc : c0 < c1 ∧ 0 < c2 ∧ c2 ∣ (c1 - c0))
    (hok : stepOK (front ++ [[p0, p1, p2]]) [c0, c1, c2]) :
    StepGoal (front ++ [[p0, p1, p2]]) [c0, c1, c2] := by
  have hcw : WFseg [c0, c1, c2] := Or.inr ⟨c0, c1, c2, rfl, hc⟩
  by_cases he : p2 = c2
  · subst he
    obtain ⟨k1, k2, k3, k4⟩ := hok p0 p1 p2 c0 c1 (by simp) rfl
    have hm : mergeStep rangeMem (front ++ [[p0, p1, p2]]) [c0, c1, p2] = .ok (front ++ [[p0, c1, p2]]) := by
      simp [mergeStep, idxI, idx]
    refine goal_replace front _ _ [p0, c1, p2] hw (Or.inr ⟨p0, c1, p2, rfl, by omega, hp.2.1, ?_⟩) ?_ hm
    · have : c1 - p0 = (c1 - c0) + (c0 - p0) := by omega
      rw [this]; exact Int.dvd_add hc.2.2 k1
    · intro x
      simp only [inSegP]
      constructor
      · rintro ⟨h1, h2, h3⟩
        by_cases hx : x ≤ p1
        · exact Or.inl ⟨h1, hx, h3⟩
        · right
          have hd1 : p2 ∣ (x - p1) := by
            have : x - p1 = (x - p0) - (p1 - p0) := by omega
            rw [this]; exact Int.dvd_sub h3 hp.2.2
          have := Int.le_of_dvd (by omega) hd1
          refine ⟨by omega, h2, ?_⟩
          have : x - c0 = (x - p0) - (c0 - p0) := by omega
          rw [this]; exact Int.dvd_sub h3 k1
      · rintro (⟨h1, h2, h3⟩ | ⟨h1, h2, h3⟩)
        · exact ⟨h1, by omega, h3⟩
        · refine ⟨by omega, h2, ?_⟩
          have : x - p0 = (x - c0) + (c0 - p0) := by omega
          rw [this]; exact Int.dvd_add h3 k1
  · have hne : (p2 == c2) = false := by simpa using he
    have hm : mergeStep rangeMem (front ++ [[p0, p1, p2]]) [c0, c1, c2] =
        .ok (front ++ [[p0, p1, p2]] ++ [[c0, c1, c2]]) := by
      simp [mergeStep, idxI, idx, hne, he]
    exact goal_append front _ _ hw hcw hm

theorem step_arr_single (front : List (List Int)) (p0 p1 p2 x0 : Int)
    (hw : ∀ s ∈ front ++ [[p0, p1, p2]], WFseg s)
    (hp : p0 < p1 ∧ 0 < p2 ∧ p2 ∣ (p1 - p0)) :
    StepGoal (front ++ [[p0, p1, p2]]) [x0] := by
  obtain ⟨m, hm, hmi⟩ := rangeMem_spec x0 p0 p1 p2 hp.2.1
  have hcw : WFseg [x0] := Or.inl ⟨x0, rfl⟩
  cases m with
  | true =>
    have hin := hmi.mp rfl
    have hstep : mergeStep rangeMem (front ++ [[p0, p1, p2]]) [x0] = .ok (front ++ [[p0, p1, p2]]) := by
      simp [mergeStep, idxI, idx, hm]
    refine ⟨_, hstep, hw, ?_⟩
    intro x
    constructor
    · exact Or.inl
    · rintro (h | h)
      · exact h
      · simp only [inSegP] at h; subst h
        exact ⟨[p0, p1, p2], by simp, hin⟩
  | false =>
    have hnot : ¬ (p0 ≤ x0 ∧ x0 ≤ p1 ∧ p2 ∣ (x0 - p0)) := fun h => by simpa using hmi.mpr h
    by_cases hab : ((x0 - p1).natAbs : Int) = p2
    · -- the only possibility is the next point of the progression
      have hnext : x0 = p1 + p2 := by
        rcases (show x0 = p1 + p2 ∨ x0 = p1 - p2 by omega) with h | h
        · exact h
        · exfalso
          apply hnot
          have hle := Int.le_of_dvd (by omega) hp.2.2
          refine ⟨by omega, by omega, ?_⟩
          have : x0 - p0 = (p1 - p0) - p2 := by omega
          rw [this]; exact Int.dvd_sub hp.2.2 (Int.dvd_refl _)
      have hb : ((x0 - p1).natAbs == p2) = true := by simpa using hab
      have hstep : mergeStep rangeMem (front ++ [[p0, p1, p2]]) [x0] = .ok (front ++ [[p0, x0, p2]]) := by
        simp [mergeStep, idxI, idx, hm, hab]
      refine goal_replace front _ _ [p0, x0, p2] hw (Or.inr ⟨p0, x0, p2, rfl, by omega, hp.2.1, ?_⟩) ?_ hstep
      · have : x0 - p0 = (p1 - p0) + p2 := by omega
        rw [this]; exact Int.dvd_add hp.2.2 (Int.dvd_refl _)
      · intro x
        simp only [inSegP]
        constructor
        · rintro ⟨h1, h2, h3⟩
          by_cases hx : x ≤ p1
          · exact Or.inl ⟨h1, hx, h3⟩
          · right
            have hd1 : p2 ∣ (x - p1) := by
              have : x - p1 = (x - p0) - (p1 - p0) := by omega
              rw [this]; exact Int.dvd_sub h3 hp.2.2
            have := Int.le_of_dvd (by omega) hd1
            omega
        · rintro (⟨h1, h2, h3⟩ | h)
          · exact ⟨h1, by omega, h3⟩
          · subst h
            refine ⟨by omega, by omega, ?_⟩
            have : x - p0 = (p1 - p0) + p2 := by omega
            rw [this]; exact Int.dvd_add hp.2.2 (Int.dvd_refl _)
    · have hstep : mergeStep rangeMem (front ++ [[p0, p1, p2]]) [x0] =
          .ok (front ++ [[p0, p1, p2]] ++ [[x0]]) := by
        simp [mergeStep, idxI, idx, hm, hab]
      exact goal_append front _ _ hw hcw hstep

theorem step_single_arr (front : List (List Int)) (p c0 c1 c2 : Int)
    (hw : ∀ s ∈ front ++ [[p]], WFseg s) (hc : c0 < c1 ∧ 0 < c2 ∧ c2 ∣ (c1 - c0)) :
    StepGoal (front ++ [[p]]) [c0, c1, c2] := by
  obtain ⟨m, hm, hmi⟩ := rangeMem_spec p c0 c1 c2 hc.2.1
  have hcw : WFseg [c0, c1, c2] := Or.inr ⟨c0, c1, c2, rfl, hc⟩
  cases m with
  | true =>
    have hin := hmi.mp rfl
    have hstep : mergeStep rangeMem (front ++ [[p]]) [c0, c1, c2] = .ok (front ++ [[c0, c1, c2]]) := by
      simp [mergeStep, idxI, idx, hm]
    refine goal_replace front _ _ [c0, c1, c2] hw hcw ?_ hstep
    intro x
    constructor
    · exact Or.inr
    · rintro (h | h)
      · simp only [inSegP] at h; subst h; exact hin
      · exact h
  | false =>
    have hnot : ¬ (c0 ≤ p ∧ p ≤ c1 ∧ c2 ∣ (p - c0)) := fun h => by simpa using hmi.mpr h
    by_cases hab : ((c0 - p).natAbs : Int) = c2
    · have hprev : p = c0 - c2 := by
        rcases (show p = c0 - c2 ∨ p = c0 + c2 by omega) with h | h
        · exact h
        · exfalso
          apply hnot
          have hle := Int.le_of_dvd (by omega) hc.2.2
          refine ⟨by omega, by omega, ?_⟩
          have : p - c0 = c2 := by omega
          rw [this]; exact Int.dvd_refl _
      have hstep : mergeStep rangeMem (front ++ [[p]]) [c0, c1, c2] = .ok (front ++ [[p, c1, c2]]) := by
        simp [mergeStep, idxI, idx, hm, hab]
      refine goal_replace front _ _ [p, c1, c2] hw (Or.inr ⟨p, c1, c2, rfl, by omega, hc.2.1, ?_⟩) ?_ hstep
      · have : c1 - p = (c1 - c0) + c2 := by omega
        rw [this]; exact Int.dvd_add hc.2.2 (Int.dvd_refl _)
      · intro x
        simp only [inSegP]
        constructor
        · rintro ⟨h1, h2, h3⟩
          by_cases hx : x = p
          · exact Or.inl hx
          · right
            have := Int.le_of_dvd (by omega) h3
            refine ⟨by omega, h2, ?_⟩
            have : x - c0 = (x - p) - c2 := by omega
            rw [this]; exact Int.dvd_sub h3 (Int.dvd_refl _)
        · rintro (h | ⟨h1, h2, h3⟩)
          · subst h; exact ⟨by omega, by omega, by simp⟩
          · refine ⟨by omega, h2, ?_⟩
            have : x - p = (x - c0) + c2 := by omega
            rw [this]; exact Int.dvd_add h3 (Int.dvd_refl _)
    · have hstep : mergeStep rangeMem (front ++ [[p]]) [c0, c1, c2] =
          .ok (front ++ [[p]] ++ [[c0, c1, c2]]) := by
        simp [mergeStep, idxI, idx, hm, hab]
      exact goal_append front _ _ hw hcw hstep

theorem step_single_single (front : List (List Int)) (p c : Int)
    (hw : ∀ s ∈ front ++ [[p]], WFseg s) : StepGoal (front ++ [[p]]) [c] := by
  by_cases h : p = c
  · subst h
    have hstep : mergeStep rangeMem (front ++ [[p]]) [p] = .ok (front ++ [[p]]) := by
      simp [mergeStep, idxI, idx]
    refine ⟨_, hstep, hw, ?_⟩
    intro x
    constructor
    · exact Or.inl
    · rintro (h | h)
      · exact h
      · exact ⟨[p], by simp, h⟩
  · have hne : (p == c) = false := by simpa using h
    have hstep : mergeStep rangeMem (front ++ [[p]]) [c] = .ok (front ++ [[p]] ++ [[c]]) := by
      simp [mergeStep, idxI, idx, hne, h]
    exact goal_append front _ _ hw (Or.inl ⟨c, rfl⟩) hstep

/-- one merge step is faithful -/
theorem mergeStep_faithful (sit : List (List Int)) (cur : List Int)
    (hw : ∀ s ∈ sit, WFseg s) (hc : WFseg cur) (hok : stepOK sit cur) : StepGoal sit cur := by
  rcases List.eq_nil_or_concat sit with h | ⟨front, prev, h⟩
  · subst h
    refine ⟨[cur], by simp [mergeStep], ?_, ?_⟩
    · intro s hs; simp at hs; subst hs; exact hc
    · intro x; simp [inSit]
  · rw [List.concat_eq_append] at h
    subst h
    have hpw := hw prev (by simp)
    rcases hpw with ⟨p, rfl⟩ | ⟨p0, p1, p2, rfl, hp⟩
    · rcases hc with ⟨c, rfl⟩ | ⟨c0, c1, c2, rfl, hc⟩
      · exact step_single_single front p c hw
      · exact step_single_arr front p c0 c1 c2 hw hc
    · rcases hc with ⟨c, rfl⟩ | ⟨c0, c1, c2, rfl, hc⟩
      · exact step_arr_single front p0 p1 p2 c hw hp
      · exact step_arr_arr front p0 p1 p2 c0 c1 c2 hw hp hc hok

/-- the equal-stride merges along the whole fold are of the faithful kind -/
def Chain : List (List Int) → List (List Int) → Prop
  | _, [] => True
  | sit, cur :: rest => stepOK sit cur ∧ ∀ r, mergeStep rangeMem sit cur = .ok r → Chain r rest

/-- **T6 (full strength)**: merging the per-restart segments of one level never
raises and the result describes exactly the union of the segments -/
theorem merge_faithful : ∀ (segs sit : List (List Int)), (∀ s ∈ sit, WFseg s) → (∀ s ∈ segs, WFseg s) →
    Chain sit segs →
    ∃ r, foldlE (mergeStep rangeMem) sit segs = .ok r ∧ (∀ s ∈ r, WFseg s) ∧
      ∀ x, inSit x r ↔ inSit x sit ∨ ∃ s ∈ segs, inSegP x s := by
  intro segs
  induction segs with
  | nil => intro sit hw _ _; exact ⟨sit, rfl, hw, fun x => by simp⟩
  | cons c segs ih =>
    intro sit hw hs hch
    obtain ⟨hok, hrest⟩ := hch
    obtain ⟨r1, h1, w1, e1⟩ := mergeStep_faithful sit c hw (hs c (List.mem_cons_self ..)) hok
    obtain ⟨r, h2, w2, e2⟩ := ih r1 w1 (fun s h => hs s (List.mem_cons_of_mem _ h)) (hrest r1 h1)
    refine ⟨r, by simp only [foldlE, h1]; exact h2, w2, ?_⟩
    intro x
    rw [e2, e1]
    constructor
    · rintro ((h | h) | ⟨s, hs', h⟩)
      · exact Or.inl h
      · exact Or.inr ⟨c, List.mem_cons_self .., h⟩
      · exact Or.inr ⟨s, List.mem_cons_of_mem _ hs', h⟩
    · rintro (h | ⟨s, hs', h⟩)
      · exact Or.inl (Or.inl h)
      · rcases List.mem_cons.mp hs' with rfl | hs'
        · exact Or.inl (Or.inr h)
        · exact Or.inr ⟨s, hs', h⟩

/-! ### from the per-level fold to the dictionary `overall` -/

theorem toDec_inj {a b : Nat} (h : toDec a = toDec b) : a = b := by
  have := digitsVal_toDec a
  rw [h, digitsVal_toDec] at this
  injection this with this; exact this.symm

theorem rlkey_inj {a b : Nat} (h : mRl ++ toDec a = mRl ++ toDec b) : a = b :=
  toDec_inj (List.append_cancel_left h)

/-- one pass of the `while rl_to_do` loop -/
def ovStep (cat : Cat) (ov : List (Str × List (List Int))) (rl : Nat) :
    Except Err (List (Str × List (List Int))) := do
  let rlkey := mRl ++ toDec rl
  if cat.any (fun re => dhas re.2 rlkey) then do
    let sit ← foldlE (mergeStep rangeMem) [] (levelSegs cat rlkey)
    pure (dset ov rlkey sit)
  else pure ov

theorem ovStep_cases (cat : Cat) (ov ov1 : List (Str × List (List Int))) (r : Nat)
    (h : ovStep cat ov r = .ok ov1) :
    ov1 = ov ∨ ∃ sit, foldlE (mergeStep rangeMem) [] (levelSegs cat (mRl ++ toDec r)) = .ok sit ∧
      ov1 = dset ov (mRl ++ toDec r) sit := by
  unfold ovStep at h
  simp only [] at h
  split at h
  · cases hf : foldlE (mergeStep rangeMem) [] (levelSegs cat (mRl ++ toDec r)) with
    | error e => simp [hf] at h
    | ok sit =>
      simp only [hf, ebind_ok, epure_ok] at h
      injection h with h
      exact Or.inr ⟨sit, rfl, h.symm⟩
  · simp only [epure_ok] at h
    injection h with h
    exact Or.inl h.symm

theorem ov_fold (cat : Cat) : ∀ (rls : List Nat), rls.Nodup → ∀ (ov0 ov : List (Str × List (List Int))),
    foldlE (ovStep cat) ov0 rls = .ok ov → ∀ rl : Nat,
      (rl ∉ rls → dget ov (mRl ++ toDec rl) = dget ov0 (mRl ++ toDec rl)) ∧
      (dget ov0 (mRl ++ toDec rl) = none → ∀ sit, dget ov (mRl ++ toDec rl) = some sit →
        foldlE (mergeStep rangeMem) [] (levelSegs cat (mRl ++ toDec rl)) = .ok sit) := by
  intro rls
  induction rls with
  | nil =>
    intro _ ov0 ov h rl
    simp only [foldlE] at h
    injection h with h; subst h
    exact ⟨fun _ => rfl, fun h0 sit hs => by rw [h0] at hs; simp at hs⟩
  | cons r rs ih =>
    intro hnd ov0 ov h rl
    rw [List.nodup_cons] at hnd
    simp only [foldlE] at h
    cases h1 : ovStep cat ov0 r with
    | error e => simp [h1] at h
    | ok ov1 =>
      simp only [h1] at h
      have ih' := ih hnd.2 ov1 ov h
      have hother : ∀ rl', rl' ≠ r → dget ov1 (mRl ++ toDec rl') = dget ov0 (mRl ++ toDec rl') := by
        intro rl' hne
        rcases ovStep_cases cat ov0 ov1 r h1 with e | ⟨sit, _, e⟩
        · rw [e]
        · rw [e, dget_dset_ne _ _ _ _ (fun hk => hne (rlkey_inj hk).symm)]
      constructor
      · intro hnot
        simp only [List.mem_cons, not_or] at hnot
        rw [(ih' rl).1 hnot.2, hother rl hnot.1]
      · intro h0 sit hs
        by_cases hr : rl = r
        · subst hr
          rw [(ih' rl).1 hnd.1] at hs
          rcases ovStep_cases cat ov0 ov1 rl h1 with e | ⟨sit1, hf, e⟩
          · rw [e, h0] at hs; simp at hs
          · rw [e, dget_dset_self] at hs
            injection hs with hs; subst hs; exact hf
        · exact (ih' rl).2 (by rw [hother rl hr]; exact h0) sit hs

theorem overall_eq_fold (cat : Cat) : overall cat = (do
    let rlmax ← rlMax cat
    foldlE (ovStep cat) [] (List.range (rlmax.toNat + 1))) := rfl

/-- an entry of the returned `overall` dictionary is the merge of that level -/
theorem overall_entry (cat : Cat) (ov : List (Str × List (List Int))) (h : overall cat = .ok ov)
    (rl : Nat) (sit : List (List Int)) (hs : dget ov (mRl ++ toDec rl) = some sit) :
    foldlE (mergeStep rangeMem) [] (levelSegs cat (mRl ++ toDec rl)) = .ok sit := by
  rw [overall_eq_fold] at h
  cases hm : rlMax cat with
  | error e => simp [hm] at h
  | ok rlmax =>
    simp only [hm, ebind_ok] at h
    exact ((ov_fold cat _ List.nodup_range [] ov h rl).2 rfl) sit hs

/-- **T6**: the `overall` entry of a level describes exactly the union of the
per-restart segments of that level -/
theorem overall_faithful_lemma (cat : Cat) (ov : List (Str × List (List Int))) (h : overall cat = .ok ov)
    (rl : Nat) (sit : List (List Int)) (hs : dget ov (mRl ++ toDec rl) = some sit)
    (hw : ∀ s ∈ levelSegs cat (mRl ++ toDec rl), WFseg s) (hch : Chain [] (levelSegs cat (mRl ++ toDec rl))) :
    ∀ x, inSit x sit ↔ ∃ s ∈ levelSegs cat (mRl ++ toDec rl), inSegP x s := by
  have hf := overall_entry cat ov h rl sit hs
  obtain ⟨r, hr, _, he⟩ := merge_faithful _ [] (by simp) hw hch
  rw [hf] at hr
  injection hr with hr; subst hr
  intro x
  rw [he x]
  simp [inSit]

end AurelVerif.CatalogLemmas
