/-
Lemmas/HarmLegendre.lean — T3: at spin 0 the closed form of `maths.sYlm` is the
associated Legendre function of Spec/Harm.lean, for every (l, m) with l ≤ 4.
The 25 table entries are polynomial identities in (c, sn) modulo c² + sn² = 1;
each is closed by `linear_combination (cofactor) * h` (cofactors computed once
with sympy; Lean re-checks them with `ring`).
-/
import Mathlib.Tactic.LinearCombination
import Mathlib.Tactic.NormNum
import Mathlib.Tactic.IntervalCases
import AurelVerif.Lemmas.Harm
import AurelVerif.Spec.Harm

namespace AurelVerif.HarmLemmas
open AurelVerif.Harm AurelVerif.HarmSpec

/-- value of a coefficient list (lowest degree first) at `x` (Horner). -/
def peval {K : Type} [Field K] (p : List Rat) (x : K) : K :=
  p.foldr (fun a acc => ((a : ℚ) : K) + x * acc) 0

/-- `P_l^m(x)` with Condon–Shortley phase; `y` stands for `√(1 − x²) = sin θ`. -/
def assocLegendre {K : Type} [Field K] (l : Nat) (m : Int) (x y : K) : K :=
  if 0 ≤ m then (-1) ^ m.toNat * y ^ m.toNat * peval (legendreDeriv l m.toNat) x
  else (-1) ^ (-m).toNat * ((factorial (l - (-m).toNat) : Nat) : K) / ((factorial (l + (-m).toNat) : Nat) : K)
    * ((-1) ^ (-m).toNat * y ^ (-m).toNat * peval (legendreDeriv l (-m).toNat) x)

/-- the table entry: `(l+m)! · Σ_r(…)  =  (−1)^m · l! · P_l^m(cos θ)` with
`cos θ = c² − sn²`, `sin θ = 2 c sn`. -/
def Spin0Id {K : Type} [Field K] (l : Nat) (m : Int) (c sn : K) : Prop :=
  (((l : Int) + m).toNat.factorial : K) * evalK (harmTerms 0 l m) c sn
    = (-1 : K) ^ m.natAbs * (l.factorial : K) * assocLegendre l m (c ^ 2 - sn ^ 2) (2 * c * sn)

theorem spin0_0_0 {K : Type} [Field K] [CharZero K] (c sn : K) (h : c ^ 2 + sn ^ 2 = 1) :
    Spin0Id (K := K) 0 0 c sn := by
  have e1 : harmTerms 0 ((0 : Nat) : Int) 0 = [⟨1, 0, 0⟩] := by decide +kernel
  have e2 : legendreDeriv 0 0 = [1] := by decide +kernel
  have hL : evalK (harmTerms 0 ((0 : Nat) : Int) 0) c sn = (1 : K) * c ^ 0 * sn ^ 0 := by
    rw [e1]; simp [evalK]; try ring
  have hR : assocLegendre 0 0 (c ^ 2 - sn ^ 2) (2 * c * sn) = (1 : K) * c ^ 0 * sn ^ 0 := by
    simp [assocLegendre, e2, peval]; try ring
  have hf : ((((0 : Nat) : Int) + 0).toNat).factorial = 1 := by decide
  have hg : (0 : Nat).factorial = 1 := by decide
  have hs : ((0 : Int)).natAbs = 0 := by decide
  unfold Spin0Id
  rw [hL, hR, hf, hg, hs]
  push_cast
  linear_combination ((0 : K) * c ^ 0 * sn ^ 0) * h

theorem spin0_1_m1 {K : Type} [Field K] [CharZero K] (c sn : K) (h : c ^ 2 + sn ^ 2 = 1) :
    Spin0Id (K := K) 1 (-1) c sn := by
  have e1 : harmTerms 0 ((1 : Nat) : Int) (-1) = [⟨-1, 1, 1⟩] := by decide +kernel
  have e2 : legendreDeriv 1 1 = [1] := by decide +kernel
  have hL : evalK (harmTerms 0 ((1 : Nat) : Int) (-1)) c sn = (-1 : K) * c ^ 1 * sn ^ 1 := by
    rw [e1]; simp [evalK]; try ring
  have hR : assocLegendre 1 (-1) (c ^ 2 - sn ^ 2) (2 * c * sn) = (1 : K) * c ^ 1 * sn ^ 1 := by
    simp [assocLegendre, e2, peval, factorial]; try ring
  have hf : ((((1 : Nat) : Int) + (-1)).toNat).factorial = 1 := by decide
  have hg : (1 : Nat).factorial = 1 := by decide
  have hs : (((-1) : Int)).natAbs = 1 := by decide
  unfold Spin0Id
  rw [hL, hR, hf, hg, hs]
  push_cast
  linear_combination ((0 : K) * c ^ 0 * sn ^ 0) * h

theorem spin0_1_0 {K : Type} [Field K] [CharZero K] (c sn : K) (h : c ^ 2 + sn ^ 2 = 1) :
    Spin0Id (K := K) 1 0 c sn := by
  have e1 : harmTerms 0 ((1 : Nat) : Int) 0 = [⟨-1, 0, 2⟩, ⟨1, 2, 0⟩] := by decide +kernel
  have e2 : legendreDeriv 1 0 = [0, 1] := by decide +kernel
  have hL : evalK (harmTerms 0 ((1 : Nat) : Int) 0) c sn = (1 : K) * c ^ 2 * sn ^ 0 + (-1 : K) * c ^ 0 * sn ^ 2 := by
    rw [e1]; simp [evalK]; try ring
  have hR : assocLegendre 1 0 (c ^ 2 - sn ^ 2) (2 * c * sn) = (1 : K) * c ^ 2 * sn ^ 0 + (-1 : K) * c ^ 0 * sn ^ 2 := by
    simp [assocLegendre, e2, peval]; try ring
  have hf : ((((1 : Nat) : Int) + 0).toNat).factorial = 1 := by decide
  have hg : (1 : Nat).factorial = 1 := by decide
  have hs : ((0 : Int)).natAbs = 0 := by decide
  unfold Spin0Id
  rw [hL, hR, hf, hg, hs]
  push_cast
  linear_combination ((0 : K) * c ^ 0 * sn ^ 0) * h

theorem spin0_1_1 {K : Type} [Field K] [CharZero K] (c sn : K) (h : c ^ 2 + sn ^ 2 = 1) :
    Spin0Id (K := K) 1 1 c sn := by
  have e1 : harmTerms 0 ((1 : Nat) : Int) 1 = [⟨1, 1, 1⟩] := by decide +kernel
  have e2 : legendreDeriv 1 1 = [1] := by decide +kernel
  have hL : evalK (harmTerms 0 ((1 : Nat) : Int) 1) c sn = (1 : K) * c ^ 1 * sn ^ 1 := by
    rw [e1]; simp [evalK]; try ring
  have hR : assocLegendre 1 1 (c ^ 2 - sn ^ 2) (2 * c * sn) = (-2 : K) * c ^ 1 * sn ^ 1 := by
    simp [assocLegendre, e2, peval]; try ring
  have hf : ((((1 : Nat) : Int) + 1).toNat).factorial = 2 := by decide
  have hg : (1 : Nat).factorial = 1 := by decide
  have hs : ((1 : Int)).natAbs = 1 := by decide
  unfold Spin0Id
  rw [hL, hR, hf, hg, hs]
  push_cast
  linear_combination ((0 : K) * c ^ 0 * sn ^ 0) * h

theorem spin0_2_m2 {K : Type} [Field K] [CharZero K] (c sn : K) (h : c ^ 2 + sn ^ 2 = 1) :
    Spin0Id (K := K) 2 (-2) c sn := by
  have e1 : harmTerms 0 ((2 : Nat) : Int) (-2) = [⟨1, 2, 2⟩] := by decide +kernel
  have e2 : legendreDeriv 2 2 = [3] := by decide +kernel
  have hL : evalK (harmTerms 0 ((2 : Nat) : Int) (-2)) c sn = (1 : K) * c ^ 2 * sn ^ 2 := by
    rw [e1]; simp [evalK]; try ring
  have hR : assocLegendre 2 (-2) (c ^ 2 - sn ^ 2) (2 * c * sn) = (1 / 2 : K) * c ^ 2 * sn ^ 2 := by
    simp [assocLegendre, e2, peval, factorial]; try ring
  have hf : ((((2 : Nat) : Int) + (-2)).toNat).factorial = 1 := by decide
  have hg : (2 : Nat).factorial = 2 := by decide
  have hs : (((-2) : Int)).natAbs = 2 := by decide
  unfold Spin0Id
  rw [hL, hR, hf, hg, hs]
  push_cast
  linear_combination ((0 : K) * c ^ 0 * sn ^ 0) * h

theorem spin0_2_m1 {K : Type} [Field K] [CharZero K] (c sn : K) (h : c ^ 2 + sn ^ 2 = 1) :
    Spin0Id (K := K) 2 (-1) c sn := by
  have e1 : harmTerms 0 ((2 : Nat) : Int) (-1) = [⟨2, 1, 3⟩, ⟨-2, 3, 1⟩] := by decide +kernel
  have e2 : legendreDeriv 2 1 = [0, 3] := by decide +kernel
  have hL : evalK (harmTerms 0 ((2 : Nat) : Int) (-1)) c sn = (-2 : K) * c ^ 3 * sn ^ 1 + (2 : K) * c ^ 1 * sn ^ 3 := by
    rw [e1]; simp [evalK]; try ring
  have hR : assocLegendre 2 (-1) (c ^ 2 - sn ^ 2) (2 * c * sn) = (1 : K) * c ^ 3 * sn ^ 1 + (-1 : K) * c ^ 1 * sn ^ 3 := by
    simp [assocLegendre, e2, peval, factorial]; try ring
  have hf : ((((2 : Nat) : Int) + (-1)).toNat).factorial = 1 := by decide
  have hg : (2 : Nat).factorial = 2 := by decide
  have hs : (((-1) : Int)).natAbs = 1 := by decide
  unfold Spin0Id
  rw [hL, hR, hf, hg, hs]
  push_cast
  linear_combination ((0 : K) * c ^ 0 * sn ^ 0) * h

theorem spin0_2_0 {K : Type} [Field K] [CharZero K] (c sn : K) (h : c ^ 2 + sn ^ 2 = 1) :
    Spin0Id (K := K) 2 0 c sn := by
  have e1 : harmTerms 0 ((2 : Nat) : Int) 0 = [⟨1, 0, 4⟩, ⟨-4, 2, 2⟩, ⟨1, 4, 0⟩] := by decide +kernel
  have e2 : legendreDeriv 2 0 = [-1 / 2, 0, 3 / 2] := by decide +kernel
  have hL : evalK (harmTerms 0 ((2 : Nat) : Int) 0) c sn = (1 : K) * c ^ 4 * sn ^ 0 + (-4 : K) * c ^ 2 * sn ^ 2 + (1 : K) * c ^ 0 * sn ^ 4 := by
    rw [e1]; simp [evalK]; try ring
  have hR : assocLegendre 2 0 (c ^ 2 - sn ^ 2) (2 * c * sn) = (3 / 2 : K) * c ^ 4 * sn ^ 0 + (-3 : K) * c ^ 2 * sn ^ 2 + (3 / 2 : K) * c ^ 0 * sn ^ 4 + (-1 / 2 : K) * c ^ 0 * sn ^ 0 := by
    simp [assocLegendre, e2, peval]; try ring
  have hf : ((((2 : Nat) : Int) + 0).toNat).factorial = 2 := by decide
  have hg : (2 : Nat).factorial = 2 := by decide
  have hs : ((0 : Int)).natAbs = 0 := by decide
  unfold Spin0Id
  rw [hL, hR, hf, hg, hs]
  push_cast
  linear_combination ((-1 : K) * c ^ 2 * sn ^ 0 + (-1 : K) * c ^ 0 * sn ^ 2 + (-1 : K) * c ^ 0 * sn ^ 0) * h

theorem spin0_2_1 {K : Type} [Field K] [CharZero K] (c sn : K) (h : c ^ 2 + sn ^ 2 = 1) :
    Spin0Id (K := K) 2 1 c sn := by
  have e1 : harmTerms 0 ((2 : Nat) : Int) 1 = [⟨-2, 1, 3⟩, ⟨2, 3, 1⟩] := by decide +kernel
  have e2 : legendreDeriv 2 1 = [0, 3] := by decide +kernel
  have hL : evalK (harmTerms 0 ((2 : Nat) : Int) 1) c sn = (2 : K) * c ^ 3 * sn ^ 1 + (-2 : K) * c ^ 1 * sn ^ 3 := by
    rw [e1]; simp [evalK]; try ring
  have hR : assocLegendre 2 1 (c ^ 2 - sn ^ 2) (2 * c * sn) = (-6 : K) * c ^ 3 * sn ^ 1 + (6 : K) * c ^ 1 * sn ^ 3 := by
    simp [assocLegendre, e2, peval]; try ring
  have hf : ((((2 : Nat) : Int) + 1).toNat).factorial = 6 := by decide
  have hg : (2 : Nat).factorial = 2 := by decide
  have hs : ((1 : Int)).natAbs = 1 := by decide
  unfold Spin0Id
  rw [hL, hR, hf, hg, hs]
  push_cast
  linear_combination ((0 : K) * c ^ 0 * sn ^ 0) * h

theorem spin0_2_2 {K : Type} [Field K] [CharZero K] (c sn : K) (h : c ^ 2 + sn ^ 2 = 1) :
    Spin0Id (K := K) 2 2 c sn := by
  have e1 : harmTerms 0 ((2 : Nat) : Int) 2 = [⟨1, 2, 2⟩] := by decide +kernel
  have e2 : legendreDeriv 2 2 = [3] := by decide +kernel
  have hL : evalK (harmTerms 0 ((2 : Nat) : Int) 2) c sn = (1 : K) * c ^ 2 * sn ^ 2 := by
    rw [e1]; simp [evalK]; try ring
  have hR : assocLegendre 2 2 (c ^ 2 - sn ^ 2) (2 * c * sn) = (12 : K) * c ^ 2 * sn ^ 2 := by
    simp [assocLegendre, e2, peval]; try ring
  have hf : ((((2 : Nat) : Int) + 2).toNat).factorial = 24 := by decide
  have hg : (2 : Nat).factorial = 2 := by decide
  have hs : ((2 : Int)).natAbs = 2 := by decide
  unfold Spin0Id
  rw [hL, hR, hf, hg, hs]
  push_cast
  linear_combination ((0 : K) * c ^ 0 * sn ^ 0) * h

theorem spin0_3_m3 {K : Type} [Field K] [CharZero K] (c sn : K) (h : c ^ 2 + sn ^ 2 = 1) :
    Spin0Id (K := K) 3 (-3) c sn := by
  have e1 : harmTerms 0 ((3 : Nat) : Int) (-3) = [⟨-1, 3, 3⟩] := by decide +kernel
  have e2 : legendreDeriv 3 3 = [15] := by decide +kernel
  have hL : evalK (harmTerms 0 ((3 : Nat) : Int) (-3)) c sn = (-1 : K) * c ^ 3 * sn ^ 3 := by
    rw [e1]; simp [evalK]; try ring
  have hR : assocLegendre 3 (-3) (c ^ 2 - sn ^ 2) (2 * c * sn) = (1 / 6 : K) * c ^ 3 * sn ^ 3 := by
    simp [assocLegendre, e2, peval, factorial]; try ring
  have hf : ((((3 : Nat) : Int) + (-3)).toNat).factorial = 1 := by decide
  have hg : (3 : Nat).factorial = 6 := by decide
  have hs : (((-3) : Int)).natAbs = 3 := by decide
  unfold Spin0Id
  rw [hL, hR, hf, hg, hs]
  push_cast
  linear_combination ((0 : K) * c ^ 0 * sn ^ 0) * h

theorem spin0_3_m2 {K : Type} [Field K] [CharZero K] (c sn : K) (h : c ^ 2 + sn ^ 2 = 1) :
    Spin0Id (K := K) 3 (-2) c sn := by
  have e1 : harmTerms 0 ((3 : Nat) : Int) (-2) = [⟨-3, 2, 4⟩, ⟨3, 4, 2⟩] := by decide +kernel
  have e2 : legendreDeriv 3 2 = [0, 15] := by decide +kernel
  have hL : evalK (harmTerms 0 ((3 : Nat) : Int) (-2)) c sn = (3 : K) * c ^ 4 * sn ^ 2 + (-3 : K) * c ^ 2 * sn ^ 4 := by
    rw [e1]; simp [evalK]; try ring
  have hR : assocLegendre 3 (-2) (c ^ 2 - sn ^ 2) (2 * c * sn) = (1 / 2 : K) * c ^ 4 * sn ^ 2 + (-1 / 2 : K) * c ^ 2 * sn ^ 4 := by
    simp [assocLegendre, e2, peval, factorial]; try ring
  have hf : ((((3 : Nat) : Int) + (-2)).toNat).factorial = 1 := by decide
  have hg : (3 : Nat).factorial = 6 := by decide
  have hs : (((-2) : Int)).natAbs = 2 := by decide
  unfold Spin0Id
  rw [hL, hR, hf, hg, hs]
  push_cast
  linear_combination ((0 : K) * c ^ 0 * sn ^ 0) * h

theorem spin0_3_m1 {K : Type} [Field K] [CharZero K] (c sn : K) (h : c ^ 2 + sn ^ 2 = 1) :
    Spin0Id (K := K) 3 (-1) c sn := by
  have e1 : harmTerms 0 ((3 : Nat) : Int) (-1) = [⟨-3, 1, 5⟩, ⟨9, 3, 3⟩, ⟨-3, 5, 1⟩] := by decide +kernel
  have e2 : legendreDeriv 3 1 = [-3 / 2, 0, 15 / 2] := by decide +kernel
  have hL : evalK (harmTerms 0 ((3 : Nat) : Int) (-1)) c sn = (-3 : K) * c ^ 5 * sn ^ 1 + (9 : K) * c ^ 3 * sn ^ 3 + (-3 : K) * c ^ 1 * sn ^ 5 := by
    rw [e1]; simp [evalK]; try ring
  have hR : assocLegendre 3 (-1) (c ^ 2 - sn ^ 2) (2 * c * sn) = (5 / 4 : K) * c ^ 5 * sn ^ 1 + (-5 / 2 : K) * c ^ 3 * sn ^ 3 + (5 / 4 : K) * c ^ 1 * sn ^ 5 + (-1 / 4 : K) * c ^ 1 * sn ^ 1 := by
    simp [assocLegendre, e2, peval, factorial]; try ring
  have hf : ((((3 : Nat) : Int) + (-1)).toNat).factorial = 2 := by decide
  have hg : (3 : Nat).factorial = 6 := by decide
  have hs : (((-1) : Int)).natAbs = 1 := by decide
  unfold Spin0Id
  rw [hL, hR, hf, hg, hs]
  push_cast
  linear_combination ((3 / 2 : K) * c ^ 3 * sn ^ 1 + (3 / 2 : K) * c ^ 1 * sn ^ 3 + (3 / 2 : K) * c ^ 1 * sn ^ 1) * h

theorem spin0_3_0 {K : Type} [Field K] [CharZero K] (c sn : K) (h : c ^ 2 + sn ^ 2 = 1) :
    Spin0Id (K := K) 3 0 c sn := by
  have e1 : harmTerms 0 ((3 : Nat) : Int) 0 = [⟨-1, 0, 6⟩, ⟨9, 2, 4⟩, ⟨-9, 4, 2⟩, ⟨1, 6, 0⟩] := by decide +kernel
  have e2 : legendreDeriv 3 0 = [0, -3 / 2, 0, 5 / 2] := by decide +kernel
  have hL : evalK (harmTerms 0 ((3 : Nat) : Int) 0) c sn = (1 : K) * c ^ 6 * sn ^ 0 + (-9 : K) * c ^ 4 * sn ^ 2 + (9 : K) * c ^ 2 * sn ^ 4 + (-1 : K) * c ^ 0 * sn ^ 6 := by
    rw [e1]; simp [evalK]; try ring
  have hR : assocLegendre 3 0 (c ^ 2 - sn ^ 2) (2 * c * sn) = (5 / 2 : K) * c ^ 6 * sn ^ 0 + (-15 / 2 : K) * c ^ 4 * sn ^ 2 + (15 / 2 : K) * c ^ 2 * sn ^ 4 + (-3 / 2 : K) * c ^ 2 * sn ^ 0 + (-5 / 2 : K) * c ^ 0 * sn ^ 6 + (3 / 2 : K) * c ^ 0 * sn ^ 2 := by
    simp [assocLegendre, e2, peval]; try ring
  have hf : ((((3 : Nat) : Int) + 0).toNat).factorial = 6 := by decide
  have hg : (3 : Nat).factorial = 6 := by decide
  have hs : ((0 : Int)).natAbs = 0 := by decide
  unfold Spin0Id
  rw [hL, hR, hf, hg, hs]
  push_cast
  linear_combination ((-9 : K) * c ^ 4 * sn ^ 0 + (-9 : K) * c ^ 2 * sn ^ 0 + (9 : K) * c ^ 0 * sn ^ 4 + (9 : K) * c ^ 0 * sn ^ 2) * h

theorem spin0_3_1 {K : Type} [Field K] [CharZero K] (c sn : K) (h : c ^ 2 + sn ^ 2 = 1) :
    Spin0Id (K := K) 3 1 c sn := by
  have e1 : harmTerms 0 ((3 : Nat) : Int) 1 = [⟨3, 1, 5⟩, ⟨-9, 3, 3⟩, ⟨3, 5, 1⟩] := by decide +kernel
  have e2 : legendreDeriv 3 1 = [-3 / 2, 0, 15 / 2] := by decide +kernel
  have hL : evalK (harmTerms 0 ((3 : Nat) : Int) 1) c sn = (3 : K) * c ^ 5 * sn ^ 1 + (-9 : K) * c ^ 3 * sn ^ 3 + (3 : K) * c ^ 1 * sn ^ 5 := by
    rw [e1]; simp [evalK]; try ring
  have hR : assocLegendre 3 1 (c ^ 2 - sn ^ 2) (2 * c * sn) = (-15 : K) * c ^ 5 * sn ^ 1 + (30 : K) * c ^ 3 * sn ^ 3 + (-15 : K) * c ^ 1 * sn ^ 5 + (3 : K) * c ^ 1 * sn ^ 1 := by
    simp [assocLegendre, e2, peval]; try ring
  have hf : ((((3 : Nat) : Int) + 1).toNat).factorial = 24 := by decide
  have hg : (3 : Nat).factorial = 6 := by decide
  have hs : ((1 : Int)).natAbs = 1 := by decide
  unfold Spin0Id
  rw [hL, hR, hf, hg, hs]
  push_cast
  linear_combination ((-18 : K) * c ^ 3 * sn ^ 1 + (-18 : K) * c ^ 1 * sn ^ 3 + (-18 : K) * c ^ 1 * sn ^ 1) * h

theorem spin0_3_2 {K : Type} [Field K] [CharZero K] (c sn : K) (h : c ^ 2 + sn ^ 2 = 1) :
    Spin0Id (K := K) 3 2 c sn := by
  have e1 : harmTerms 0 ((3 : Nat) : Int) 2 = [⟨-3, 2, 4⟩, ⟨3, 4, 2⟩] := by decide +kernel
  have e2 : legendreDeriv 3 2 = [0, 15] := by decide +kernel
  have hL : evalK (harmTerms 0 ((3 : Nat) : Int) 2) c sn = (3 : K) * c ^ 4 * sn ^ 2 + (-3 : K) * c ^ 2 * sn ^ 4 := by
    rw [e1]; simp [evalK]; try ring
  have hR : assocLegendre 3 2 (c ^ 2 - sn ^ 2) (2 * c * sn) = (60 : K) * c ^ 4 * sn ^ 2 + (-60 : K) * c ^ 2 * sn ^ 4 := by
    simp [assocLegendre, e2, peval]; try ring
  have hf : ((((3 : Nat) : Int) + 2).toNat).factorial = 120 := by decide
  have hg : (3 : Nat).factorial = 6 := by decide
  have hs : ((2 : Int)).natAbs = 2 := by decide
  unfold Spin0Id
  rw [hL, hR, hf, hg, hs]
  push_cast
  linear_combination ((0 : K) * c ^ 0 * sn ^ 0) * h

theorem spin0_3_3 {K : Type} [Field K] [CharZero K] (c sn : K) (h : c ^ 2 + sn ^ 2 = 1) :
    Spin0Id (K := K) 3 3 c sn := by
  have e1 : harmTerms 0 ((3 : Nat) : Int) 3 = [⟨1, 3, 3⟩] := by decide +kernel
  have e2 : legendreDeriv 3 3 = [15] := by decide +kernel
  have hL : evalK (harmTerms 0 ((3 : Nat) : Int) 3) c sn = (1 : K) * c ^ 3 * sn ^ 3 := by
    rw [e1]; simp [evalK]; try ring
  have hR : assocLegendre 3 3 (c ^ 2 - sn ^ 2) (2 * c * sn) = (-120 : K) * c ^ 3 * sn ^ 3 := by
    simp [assocLegendre, e2, peval]; try ring
  have hf : ((((3 : Nat) : Int) + 3).toNat).factorial = 720 := by decide
  have hg : (3 : Nat).factorial = 6 := by decide
  have hs : ((3 : Int)).natAbs = 3 := by decide
  unfold Spin0Id
  rw [hL, hR, hf, hg, hs]
  push_cast
  linear_combination ((0 : K) * c ^ 0 * sn ^ 0) * h

theorem spin0_4_m4 {K : Type} [Field K] [CharZero K] (c sn : K) (h : c ^ 2 + sn ^ 2 = 1) :
    Spin0Id (K := K) 4 (-4) c sn := by
  have e1 : harmTerms 0 ((4 : Nat) : Int) (-4) = [⟨1, 4, 4⟩] := by decide +kernel
  have e2 : legendreDeriv 4 4 = [105] := by decide +kernel
  have hL : evalK (harmTerms 0 ((4 : Nat) : Int) (-4)) c sn = (1 : K) * c ^ 4 * sn ^ 4 := by
    rw [e1]; simp [evalK]; try ring
  have hR : assocLegendre 4 (-4) (c ^ 2 - sn ^ 2) (2 * c * sn) = (1 / 24 : K) * c ^ 4 * sn ^ 4 := by
    simp [assocLegendre, e2, peval, factorial]; try ring
  have hf : ((((4 : Nat) : Int) + (-4)).toNat).factorial = 1 := by decide
  have hg : (4 : Nat).factorial = 24 := by decide
  have hs : (((-4) : Int)).natAbs = 4 := by decide
  unfold Spin0Id
  rw [hL, hR, hf, hg, hs]
  push_cast
  linear_combination ((0 : K) * c ^ 0 * sn ^ 0) * h

theorem spin0_4_m3 {K : Type} [Field K] [CharZero K] (c sn : K) (h : c ^ 2 + sn ^ 2 = 1) :
    Spin0Id (K := K) 4 (-3) c sn := by
  have e1 : harmTerms 0 ((4 : Nat) : Int) (-3) = [⟨4, 3, 5⟩, ⟨-4, 5, 3⟩] := by decide +kernel
  have e2 : legendreDeriv 4 3 = [0, 105] := by decide +kernel
  have hL : evalK (harmTerms 0 ((4 : Nat) : Int) (-3)) c sn = (-4 : K) * c ^ 5 * sn ^ 3 + (4 : K) * c ^ 3 * sn ^ 5 := by
    rw [e1]; simp [evalK]; try ring
  have hR : assocLegendre 4 (-3) (c ^ 2 - sn ^ 2) (2 * c * sn) = (1 / 6 : K) * c ^ 5 * sn ^ 3 + (-1 / 6 : K) * c ^ 3 * sn ^ 5 := by
    simp [assocLegendre, e2, peval, factorial]; try ring
  have hf : ((((4 : Nat) : Int) + (-3)).toNat).factorial = 1 := by decide
  have hg : (4 : Nat).factorial = 24 := by decide
  have hs : (((-3) : Int)).natAbs = 3 := by decide
  unfold Spin0Id
  rw [hL, hR, hf, hg, hs]
  push_cast
  linear_combination ((0 : K) * c ^ 0 * sn ^ 0) * h

theorem spin0_4_m2 {K : Type} [Field K] [CharZero K] (c sn : K) (h : c ^ 2 + sn ^ 2 = 1) :
    Spin0Id (K := K) 4 (-2) c sn := by
  have e1 : harmTerms 0 ((4 : Nat) : Int) (-2) = [⟨6, 2, 6⟩, ⟨-16, 4, 4⟩, ⟨6, 6, 2⟩] := by decide +kernel
  have e2 : legendreDeriv 4 2 = [-15 / 2, 0, 105 / 2] := by decide +kernel
  have hL : evalK (harmTerms 0 ((4 : Nat) : Int) (-2)) c sn = (6 : K) * c ^ 6 * sn ^ 2 + (-16 : K) * c ^ 4 * sn ^ 4 + (6 : K) * c ^ 2 * sn ^ 6 := by
    rw [e1]; simp [evalK]; try ring
  have hR : assocLegendre 4 (-2) (c ^ 2 - sn ^ 2) (2 * c * sn) = (7 / 12 : K) * c ^ 6 * sn ^ 2 + (-7 / 6 : K) * c ^ 4 * sn ^ 4 + (7 / 12 : K) * c ^ 2 * sn ^ 6 + (-1 / 12 : K) * c ^ 2 * sn ^ 2 := by
    simp [assocLegendre, e2, peval, factorial]; try ring
  have hf : ((((4 : Nat) : Int) + (-2)).toNat).factorial = 2 := by decide
  have hg : (4 : Nat).factorial = 24 := by decide
  have hs : (((-2) : Int)).natAbs = 2 := by decide
  unfold Spin0Id
  rw [hL, hR, hf, hg, hs]
  push_cast
  linear_combination ((-2 : K) * c ^ 4 * sn ^ 2 + (-2 : K) * c ^ 2 * sn ^ 4 + (-2 : K) * c ^ 2 * sn ^ 2) * h

theorem spin0_4_m1 {K : Type} [Field K] [CharZero K] (c sn : K) (h : c ^ 2 + sn ^ 2 = 1) :
    Spin0Id (K := K) 4 (-1) c sn := by
  have e1 : harmTerms 0 ((4 : Nat) : Int) (-1) = [⟨4, 1, 7⟩, ⟨-24, 3, 5⟩, ⟨24, 5, 3⟩, ⟨-4, 7, 1⟩] := by decide +kernel
  have e2 : legendreDeriv 4 1 = [0, -15 / 2, 0, 35 / 2] := by decide +kernel
  have hL : evalK (harmTerms 0 ((4 : Nat) : Int) (-1)) c sn = (-4 : K) * c ^ 7 * sn ^ 1 + (24 : K) * c ^ 5 * sn ^ 3 + (-24 : K) * c ^ 3 * sn ^ 5 + (4 : K) * c ^ 1 * sn ^ 7 := by
    rw [e1]; simp [evalK]; try ring
  have hR : assocLegendre 4 (-1) (c ^ 2 - sn ^ 2) (2 * c * sn) = (7 / 4 : K) * c ^ 7 * sn ^ 1 + (-21 / 4 : K) * c ^ 5 * sn ^ 3 + (21 / 4 : K) * c ^ 3 * sn ^ 5 + (-3 / 4 : K) * c ^ 3 * sn ^ 1 + (-7 / 4 : K) * c ^ 1 * sn ^ 7 + (3 / 4 : K) * c ^ 1 * sn ^ 3 := by
    simp [assocLegendre, e2, peval, factorial]; try ring
  have hf : ((((4 : Nat) : Int) + (-1)).toNat).factorial = 6 := by decide
  have hg : (4 : Nat).factorial = 24 := by decide
  have hs : (((-1) : Int)).natAbs = 1 := by decide
  unfold Spin0Id
  rw [hL, hR, hf, hg, hs]
  push_cast
  linear_combination ((18 : K) * c ^ 5 * sn ^ 1 + (18 : K) * c ^ 3 * sn ^ 1 + (-18 : K) * c ^ 1 * sn ^ 5 + (-18 : K) * c ^ 1 * sn ^ 3) * h

theorem spin0_4_0 {K : Type} [Field K] [CharZero K] (c sn : K) (h : c ^ 2 + sn ^ 2 = 1) :
    Spin0Id (K := K) 4 0 c sn := by
  have e1 : harmTerms 0 ((4 : Nat) : Int) 0 = [⟨1, 0, 8⟩, ⟨-16, 2, 6⟩, ⟨36, 4, 4⟩, ⟨-16, 6, 2⟩, ⟨1, 8, 0⟩] := by decide +kernel
  have e2 : legendreDeriv 4 0 = [3 / 8, 0, -15 / 4, 0, 35 / 8] := by decide +kernel
  have hL : evalK (harmTerms 0 ((4 : Nat) : Int) 0) c sn = (1 : K) * c ^ 8 * sn ^ 0 + (-16 : K) * c ^ 6 * sn ^ 2 + (36 : K) * c ^ 4 * sn ^ 4 + (-16 : K) * c ^ 2 * sn ^ 6 + (1 : K) * c ^ 0 * sn ^ 8 := by
    rw [e1]; simp [evalK]; try ring
  have hR : assocLegendre 4 0 (c ^ 2 - sn ^ 2) (2 * c * sn) = (35 / 8 : K) * c ^ 8 * sn ^ 0 + (-35 / 2 : K) * c ^ 6 * sn ^ 2 + (105 / 4 : K) * c ^ 4 * sn ^ 4 + (-15 / 4 : K) * c ^ 4 * sn ^ 0 + (-35 / 2 : K) * c ^ 2 * sn ^ 6 + (15 / 2 : K) * c ^ 2 * sn ^ 2 + (35 / 8 : K) * c ^ 0 * sn ^ 8 + (-15 / 4 : K) * c ^ 0 * sn ^ 4 + (3 / 8 : K) * c ^ 0 * sn ^ 0 := by
    simp [assocLegendre, e2, peval]; try ring
  have hf : ((((4 : Nat) : Int) + 0).toNat).factorial = 24 := by decide
  have hg : (4 : Nat).factorial = 24 := by decide
  have hs : ((0 : Int)).natAbs = 0 := by decide
  unfold Spin0Id
  rw [hL, hR, hf, hg, hs]
  push_cast
  linear_combination ((-81 : K) * c ^ 6 * sn ^ 0 + (117 : K) * c ^ 4 * sn ^ 2 + (-81 : K) * c ^ 4 * sn ^ 0 + (117 : K) * c ^ 2 * sn ^ 4 + (198 : K) * c ^ 2 * sn ^ 2 + (9 : K) * c ^ 2 * sn ^ 0 + (-81 : K) * c ^ 0 * sn ^ 6 + (-81 : K) * c ^ 0 * sn ^ 4 + (9 : K) * c ^ 0 * sn ^ 2 + (9 : K) * c ^ 0 * sn ^ 0) * h

theorem spin0_4_1 {K : Type} [Field K] [CharZero K] (c sn : K) (h : c ^ 2 + sn ^ 2 = 1) :
    Spin0Id (K := K) 4 1 c sn := by
  have e1 : harmTerms 0 ((4 : Nat) : Int) 1 = [⟨-4, 1, 7⟩, ⟨24, 3, 5⟩, ⟨-24, 5, 3⟩, ⟨4, 7, 1⟩] := by decide +kernel
  have e2 : legendreDeriv 4 1 = [0, -15 / 2, 0, 35 / 2] := by decide +kernel
  have hL : evalK (harmTerms 0 ((4 : Nat) : Int) 1) c sn = (4 : K) * c ^ 7 * sn ^ 1 + (-24 : K) * c ^ 5 * sn ^ 3 + (24 : K) * c ^ 3 * sn ^ 5 + (-4 : K) * c ^ 1 * sn ^ 7 := by
    rw [e1]; simp [evalK]; try ring
  have hR : assocLegendre 4 1 (c ^ 2 - sn ^ 2) (2 * c * sn) = (-35 : K) * c ^ 7 * sn ^ 1 + (105 : K) * c ^ 5 * sn ^ 3 + (-105 : K) * c ^ 3 * sn ^ 5 + (15 : K) * c ^ 3 * sn ^ 1 + (35 : K) * c ^ 1 * sn ^ 7 + (-15 : K) * c ^ 1 * sn ^ 3 := by
    simp [assocLegendre, e2, peval]; try ring
  have hf : ((((4 : Nat) : Int) + 1).toNat).factorial = 120 := by decide
  have hg : (4 : Nat).factorial = 24 := by decide
  have hs : ((1 : Int)).natAbs = 1 := by decide
  unfold Spin0Id
  rw [hL, hR, hf, hg, hs]
  push_cast
  linear_combination ((-360 : K) * c ^ 5 * sn ^ 1 + (-360 : K) * c ^ 3 * sn ^ 1 + (360 : K) * c ^ 1 * sn ^ 5 + (360 : K) * c ^ 1 * sn ^ 3) * h

theorem spin0_4_2 {K : Type} [Field K] [CharZero K] (c sn : K) (h : c ^ 2 + sn ^ 2 = 1) :
    Spin0Id (K := K) 4 2 c sn := by
  have e1 : harmTerms 0 ((4 : Nat) : Int) 2 = [⟨6, 2, 6⟩, ⟨-16, 4, 4⟩, ⟨6, 6, 2⟩] := by decide +kernel
  have e2 : legendreDeriv 4 2 = [-15 / 2, 0, 105 / 2] := by decide +kernel
  have hL : evalK (harmTerms 0 ((4 : Nat) : Int) 2) c sn = (6 : K) * c ^ 6 * sn ^ 2 + (-16 : K) * c ^ 4 * sn ^ 4 + (6 : K) * c ^ 2 * sn ^ 6 := by
    rw [e1]; simp [evalK]; try ring
  have hR : assocLegendre 4 2 (c ^ 2 - sn ^ 2) (2 * c * sn) = (210 : K) * c ^ 6 * sn ^ 2 + (-420 : K) * c ^ 4 * sn ^ 4 + (210 : K) * c ^ 2 * sn ^ 6 + (-30 : K) * c ^ 2 * sn ^ 2 := by
    simp [assocLegendre, e2, peval]; try ring
  have hf : ((((4 : Nat) : Int) + 2).toNat).factorial = 720 := by decide
  have hg : (4 : Nat).factorial = 24 := by decide
  have hs : ((2 : Int)).natAbs = 2 := by decide
  unfold Spin0Id
  rw [hL, hR, hf, hg, hs]
  push_cast
  linear_combination ((-720 : K) * c ^ 4 * sn ^ 2 + (-720 : K) * c ^ 2 * sn ^ 4 + (-720 : K) * c ^ 2 * sn ^ 2) * h

theorem spin0_4_3 {K : Type} [Field K] [CharZero K] (c sn : K) (h : c ^ 2 + sn ^ 2 = 1) :
    Spin0Id (K := K) 4 3 c sn := by
  have e1 : harmTerms 0 ((4 : Nat) : Int) 3 = [⟨-4, 3, 5⟩, ⟨4, 5, 3⟩] := by decide +kernel
  have e2 : legendreDeriv 4 3 = [0, 105] := by decide +kernel
  have hL : evalK (harmTerms 0 ((4 : Nat) : Int) 3) c sn = (4 : K) * c ^ 5 * sn ^ 3 + (-4 : K) * c ^ 3 * sn ^ 5 := by
    rw [e1]; simp [evalK]; try ring
  have hR : assocLegendre 4 3 (c ^ 2 - sn ^ 2) (2 * c * sn) = (-840 : K) * c ^ 5 * sn ^ 3 + (840 : K) * c ^ 3 * sn ^ 5 := by
    simp [assocLegendre, e2, peval]; try ring
  have hf : ((((4 : Nat) : Int) + 3).toNat).factorial = 5040 := by decide
  have hg : (4 : Nat).factorial = 24 := by decide
  have hs : ((3 : Int)).natAbs = 3 := by decide
  unfold Spin0Id
  rw [hL, hR, hf, hg, hs]
  push_cast
  linear_combination ((0 : K) * c ^ 0 * sn ^ 0) * h

theorem spin0_4_4 {K : Type} [Field K] [CharZero K] (c sn : K) (h : c ^ 2 + sn ^ 2 = 1) :
    Spin0Id (K := K) 4 4 c sn := by
  have e1 : harmTerms 0 ((4 : Nat) : Int) 4 = [⟨1, 4, 4⟩] := by decide +kernel
  have e2 : legendreDeriv 4 4 = [105] := by decide +kernel
  have hL : evalK (harmTerms 0 ((4 : Nat) : Int) 4) c sn = (1 : K) * c ^ 4 * sn ^ 4 := by
    rw [e1]; simp [evalK]; try ring
  have hR : assocLegendre 4 4 (c ^ 2 - sn ^ 2) (2 * c * sn) = (1680 : K) * c ^ 4 * sn ^ 4 := by
    simp [assocLegendre, e2, peval]; try ring
  have hf : ((((4 : Nat) : Int) + 4).toNat).factorial = 40320 := by decide
  have hg : (4 : Nat).factorial = 24 := by decide
  have hs : ((4 : Int)).natAbs = 4 := by decide
  unfold Spin0Id
  rw [hL, hR, hf, hg, hs]
  push_cast
  linear_combination ((0 : K) * c ^ 0 * sn ^ 0) * h

/-- T3 for all `l ≤ 4`, `|m| ≤ l`, every field of characteristic 0 and every
point of the circle `c² + sn² = 1`. -/
theorem spin0_table {K : Type} [Field K] [CharZero K] (c sn : K) (h : c ^ 2 + sn ^ 2 = 1)
    (l : Nat) (hl : l ≤ 4) (m : Int) (hm : |m| ≤ (l : Int)) : Spin0Id l m c sn := by
  have hm' := abs_le.mp hm
  interval_cases l
  · have : m = 0 := by omega
    subst this; exact spin0_0_0 c sn h
  · have h1 : -1 ≤ m := by omega
    have h2 : m ≤ 1 := by omega
    interval_cases m
    · exact spin0_1_m1 c sn h
    · exact spin0_1_0 c sn h
    · exact spin0_1_1 c sn h
  · have h1 : -2 ≤ m := by omega
    have h2 : m ≤ 2 := by omega
    interval_cases m
    · exact spin0_2_m2 c sn h
    · exact spin0_2_m1 c sn h
    · exact spin0_2_0 c sn h
    · exact spin0_2_1 c sn h
    · exact spin0_2_2 c sn h
  · have h1 : -3 ≤ m := by omega
    have h2 : m ≤ 3 := by omega
    interval_cases m
    · exact spin0_3_m3 c sn h
    · exact spin0_3_m2 c sn h
    · exact spin0_3_m1 c sn h
    · exact spin0_3_0 c sn h
    · exact spin0_3_1 c sn h
    · exact spin0_3_2 c sn h
    · exact spin0_3_3 c sn h
  · have h1 : -4 ≤ m := by omega
    have h2 : m ≤ 4 := by omega
    interval_cases m
    · exact spin0_4_m4 c sn h
    · exact spin0_4_m3 c sn h
    · exact spin0_4_m2 c sn h
    · exact spin0_4_m1 c sn h
    · exact spin0_4_0 c sn h
    · exact spin0_4_1 c sn h
    · exact spin0_4_2 c sn h
    · exact spin0_4_3 c sn h
    · exact spin0_4_4 c sn h

end AurelVerif.HarmLemmas
